(* Proofs about Model/Channel.v: data conservation (C07), window accounting (C08), progress. *)
From AV Require Import Base.Prelude Model.Channel.

Local Arguments Z.mul : simpl never.
Local Arguments Z.add : simpl never.
Local Arguments Z.sub : simpl never.

(* ---------- projections to the data byte sequence ------------------------------------------ *)

Definition pkt_data (p : pkt) : list (Z * Z) :=
  match p with PData dt d => map (pair dt) d | _ => [] end.
Definition pkts_data (l : list pkt) : list (Z * Z) := flat_map pkt_data l.
Definition ent_data (e : Z * list Z) : list (Z * Z) := map (pair (fst e)) (snd e).
Definition buf_data (b : list (Z * list Z)) : list (Z * Z) := flat_map ent_data b.
Definition tok_data (t : tok) : list (Z * Z) := match t with TB dt b => [(dt, b)] | _ => [] end.
Definition toks_data (l : list tok) : list (Z * Z) := flat_map tok_data l.

Lemma toks_data_app a b : toks_data (a ++ b) = toks_data a ++ toks_data b.
Proof. apply flat_map_app. Qed.
Lemma pkts_data_app a b : pkts_data (a ++ b) = pkts_data a ++ pkts_data b.
Proof. apply flat_map_app. Qed.
Lemma buf_data_app a b : buf_data (a ++ b) = buf_data a ++ buf_data b.
Proof. apply flat_map_app. Qed.

Lemma toks_data_toks_of dt d : toks_data (toks_of dt d) = map (pair dt) d.
Proof. unfold toks_of. induction d as [|x d IH]; simpl; [reflexivity|]. f_equal. exact IH. Qed.

Lemma zlen_nonneg l : 0 <= zlen l.
Proof. unfold zlen. lia. Qed.

Lemma zlen_app a b : zlen (a ++ b) = zlen a + zlen b.
Proof. unfold zlen. rewrite app_length. lia. Qed.

Lemma buf_len_nonneg b : 0 <= buf_len b.
Proof. induction b as [|[dt d] r IH]; simpl; [lia|]. pose proof (zlen_nonneg d). lia. Qed.

Lemma buf_len_app a b : buf_len (a ++ b) = buf_len a + buf_len b.
Proof. induction a as [|[dt d] r IH]; simpl; [reflexivity|]. lia. Qed.

Definition pkt_len (p : pkt) : Z := match p with PData _ d => zlen d | _ => 0 end.
Fixpoint pkts_len (l : list pkt) : Z := match l with [] => 0 | p :: r => pkt_len p + pkts_len r end.
Definition pkt_adj (p : pkt) : Z := match p with PAdjust n => n | _ => 0 end.
Fixpoint pkts_adj (l : list pkt) : Z := match l with [] => 0 | p :: r => pkt_adj p + pkts_adj r end.

Lemma pkts_len_app a b : pkts_len (a ++ b) = pkts_len a + pkts_len b.
Proof. induction a; simpl; lia. Qed.
Lemma pkts_adj_app a b : pkts_adj (a ++ b) = pkts_adj a + pkts_adj b.
Proof. induction a; simpl; lia. Qed.
Lemma pkts_len_nonneg l : 0 <= pkts_len l.
Proof. induction l as [|p r IH]; simpl; [lia|]. destruct p; simpl; try lia. pose proof (zlen_nonneg d). lia. Qed.

(* ---------- the send loop ------------------------------------------------------------------ *)

Definition nonempty_entries (b : list (Z * list Z)) : Prop := Forall (fun e => snd e <> []) b.

(* a data packet the sender may emit with window w and packet size p available *)
Definition good_data (p : pkt) : Prop :=
  match p with PData _ d => 1 <= zlen d | _ => False end.

Lemma firstn_skipn_len (n : nat) (d : list Z) :
  (n < length d)%nat -> length (firstn n d) = n /\ skipn n d <> [].
Proof.
  intros H. split; [apply firstn_length_le; lia|].
  intros E. apply (f_equal (@length Z)) in E. rewrite skipn_length in E. simpl in E. lia.
Qed.

Lemma flush_loop_spec fuel : forall buf win pktsize out buf' win' out',
  flush_loop fuel buf win pktsize out = Some (buf', win', out') ->
  1 <= pktsize -> 0 <= win -> nonempty_entries buf ->
  exists new, out' = out ++ new /\
    buf_data buf = pkts_data new ++ buf_data buf' /\
    win' = win - pkts_len new /\ 0 <= win' /\
    pkts_adj new = 0 /\
    Forall (fun p => good_data p /\ pkt_len p <= pktsize) new /\
    nonempty_entries buf' /\
    buf_len buf = pkts_len new + buf_len buf' /\
    (buf' = [] \/ win' = 0).
Proof.
  induction fuel as [|f IH]; intros buf win pktsize out buf' win' out' H Hp Hw Hne.
  - destruct buf as [|[dt d] rest]; simpl in H.
    + inversion H; subst. exists []. rewrite app_nil_r. simpl. repeat split; auto; try lia.
    + destruct (win =? 0) eqn:E; [|discriminate]. inversion H; subst.
      exists []. rewrite app_nil_r. simpl. apply Z.eqb_eq in E. repeat split; auto; try lia.
  - destruct buf as [|[dt d] rest]; simpl in H.
    + inversion H; subst. exists []. rewrite app_nil_r. simpl. repeat split; auto; try lia.
    + destruct (win =? 0) eqn:E.
      * inversion H; subst. exists []. rewrite app_nil_r. simpl. apply Z.eqb_eq in E.
        repeat split; auto; try lia.
      * apply Z.eqb_neq in E.
        inversion Hne as [|? ? Hd Hrest]; subst. simpl in Hd.
        set (n := Z.min win pktsize) in *.
        assert (Hn : 1 <= n) by (unfold n; lia).
        destruct (zlen d >? n) eqn:G.
        -- assert (Hlt : (Z.to_nat n < length d)%nat) by (unfold zlen in G; lia).
           destruct (firstn_skipn_len _ _ Hlt) as [Hfl Hsk].
           apply IH in H; [| lia | unfold n; lia | constructor; [simpl; exact Hsk | exact Hrest]].
           destruct H as (new & -> & Hd1 & -> & Hw' & Hadj & Hall & Hne' & Hbl & Hend).
           exists (PData dt (firstn (Z.to_nat n) d) :: new).
           assert (Hzl : zlen (firstn (Z.to_nat n) d) = n) by (unfold zlen; rewrite Hfl; lia).
           split; [rewrite <- app_assoc; reflexivity|].
           split.
           { simpl. unfold ent_data at 1. simpl.
             change (buf_data ((dt, skipn (Z.to_nat n) d) :: rest))
               with (map (pair dt) (skipn (Z.to_nat n) d) ++ buf_data rest) in Hd1.
             rewrite <- app_assoc, <- Hd1, app_assoc, <- map_app, firstn_skipn. reflexivity. }
           split; [simpl; rewrite Hzl; lia|].
           split; [exact Hw'|].
           split; [simpl; exact Hadj|].
           split.
           { constructor; [|exact Hall]. simpl. rewrite Hzl. unfold n. split; lia. }
           split; [exact Hne'|].
           split.
           { simpl in Hbl |- *. rewrite Hzl.
             assert (zlen (skipn (Z.to_nat n) d) = zlen d - n).
             { unfold zlen. rewrite skipn_length. unfold zlen in G. lia. }
             lia. }
           exact Hend.
        -- assert (Hle : zlen d <= n) by lia.
           assert (Hd1 : 1 <= zlen d).
           { unfold zlen. destruct d; [congruence|simpl; lia]. }
           apply IH in H; [| lia | unfold n in Hle; lia | exact Hrest].
           destruct H as (new & -> & Hdd & -> & Hw' & Hadj & Hall & Hne' & Hbl & Hend).
           exists (PData dt d :: new).
           split; [rewrite <- app_assoc; reflexivity|].
           split.
           { simpl. unfold ent_data at 1. simpl. rewrite <- app_assoc. f_equal. exact Hdd. }
           split; [simpl; lia|].
           split; [exact Hw'|].
           split; [simpl; exact Hadj|].
           split.
           { constructor; [|exact Hall]. simpl. unfold n in Hle. split; lia. }
           split; [exact Hne'|].
           split; [simpl; lia|].
           exact Hend.
Qed.

(* with a packet size of at least 1 the loop always terminates within flush_fuel *)
Lemma flush_loop_terminates fuel : forall buf win pktsize out,
  1 <= pktsize -> 0 <= win -> nonempty_entries buf ->
  (Z.to_nat (buf_len buf) + length buf < fuel)%nat ->
  flush_loop fuel buf win pktsize out <> None.
Proof.
  induction fuel as [|f IH]; intros buf win pktsize out Hp Hw Hne Hf; [lia|].
  destruct buf as [|[dt d] rest]; simpl; [discriminate|].
  destruct (win =? 0) eqn:E; [discriminate|]. apply Z.eqb_neq in E.
  inversion Hne as [|? ? Hd Hrest]; subst. simpl in Hd.
  set (n := Z.min win pktsize).
  assert (Hn : 1 <= n) by (unfold n; lia).
  pose proof (buf_len_nonneg rest) as Hbr.
  destruct (zlen d >? n) eqn:G.
  - assert (Hlt : (Z.to_nat n < length d)%nat) by (unfold zlen in G; lia).
    destruct (firstn_skipn_len _ _ Hlt) as [_ Hsk].
    apply IH; [lia | unfold n; lia | constructor; [simpl; exact Hsk|exact Hrest] |].
    simpl in Hf |- *.
    assert (zlen (skipn (Z.to_nat n) d) = zlen d - n).
    { unfold zlen. rewrite skipn_length. unfold zlen in G. lia. }
    pose proof (zlen_nonneg (skipn (Z.to_nat n) d)). lia.
  - assert (Hd1 : 1 <= zlen d).
    { unfold zlen. destruct d; [congruence|simpl; lia]. }
    apply IH; [lia | unfold n in *; lia | exact Hrest |].
    simpl in Hf. lia.
Qed.

(* with a packet size of 0 and something to send the loop never terminates, whatever the fuel *)
Lemma flush_loop_zero_pktsize fuel : forall dt d rest win out,
  d <> [] -> 0 < win -> flush_loop fuel ((dt, d) :: rest) win 0 out = None.
Proof.
  induction fuel as [|f IH]; intros dt d rest win out Hd Hw; simpl.
  - destruct (win =? 0) eqn:E; [apply Z.eqb_eq in E; lia|reflexivity].
  - destruct (win =? 0) eqn:E; [apply Z.eqb_eq in E; lia|].
    replace (Z.min win 0) with 0 by lia.
    assert (G : zlen d >? 0 = true).
    { unfold zlen. destruct d; [congruence|simpl; lia]. }
    rewrite G. simpl. replace (win - 0) with win by lia. apply IH; assumption.
Qed.

(* ---------- invariants of the whole system -------------------------------------------------- *)

Definition honest (o : op) : Prop := match o with ORaw _ _ => False | _ => True end.

Definition eff_win (r : receiver) : Z := r_win r - buf_len (r_buf r).

(* The forward packet stream over time is  Data* [Eof] [Close].  A stage is how far along it an
   endpoint is: 0 = only data so far, 1 = EOF passed, 2 = CLOSE passed. *)
Definition stage_r (s : rstate) : nat :=
  match s with ROpen => 0 | REofPending | REof => 1 | RClosePending | RClosed => 2 end%nat.
Definition stage_s (s : sstate) : nat :=
  match s with SOpen | SEofPending | SClosePending => 0 | SEof => 1 | SClosed => 2 end%nat.

Fixpoint walk (st : nat) (l : list pkt) : option nat :=
  match l with
  | [] => Some st
  | PData _ _ :: r => match st with O => walk O r | _ => None end
  | PEof :: r => match st with O => walk 1%nat r | _ => None end
  | PClose :: r => match st with O | S O => walk 2%nat r | _ => None end
  | PAdjust _ :: r => walk st r
  end.

Lemma walk_app st a b : walk st (a ++ b) = match walk st a with Some st' => walk st' b | None => None end.
Proof.
  revert st; induction a as [|p a IH]; intros st; simpl; [reflexivity|].
  destruct p; try apply IH; destruct st as [|[|n]]; try reflexivity; apply IH.
Qed.

Lemma walk_data l : Forall (fun p => good_data p) l -> walk 0%nat l = Some 0%nat.
Proof.
  induction l as [|p l IH]; intros H; simpl; [reflexivity|].
  inversion H; subst. destruct p; simpl in *; try contradiction. apply IH. assumption.
Qed.

Record Inv (y : sys) : Prop := {
  inv_walk : walk (stage_r (r_state (rcv_ y))) (fwd y) = Some (stage_s (s_state (snd_ y)));
  inv_sdone : (s_state (snd_ y) = SEof \/ s_state (snd_ y) = SClosed) -> s_buf (snd_ y) = [];
  inv_back_pos : Forall (fun p => 0 <= pkt_adj p) (back y);
  inv_flushed : s_buf (snd_ y) = [] \/ s_win (snd_ y) = 0;
  inv_data : toks_data (r_out (rcv_ y)) ++ buf_data (r_buf (rcv_ y)) ++ pkts_data (fwd y)
             ++ buf_data (s_buf (snd_ y)) = toks_data (written y);
  inv_credit : s_win (snd_ y) + pkts_len (fwd y) + pkts_adj (back y) <= eff_win (rcv_ y);
  inv_credit_eq : stage_r (r_state (rcv_ y)) <> 2%nat ->
                  s_win (snd_ y) + pkts_len (fwd y) + pkts_adj (back y) = eff_win (rcv_ y);
  inv_swin : 0 <= s_win (snd_ y);
  inv_ne : nonempty_entries (s_buf (snd_ y));
  inv_pkt : 1 <= s_pkt (snd_ y);
  inv_noerr : r_err (rcv_ y) = false;
  inv_nostuck : stuck y = false;
  inv_rwin : r_win (rcv_ y) <= r_init (rcv_ y);
  inv_half : r_init (rcv_ y) <= 2 * r_win (rcv_ y);
  inv_init : 1 <= r_init (rcv_ y);
  inv_unpaused : r_paused (rcv_ y) = false -> r_buf (rcv_ y) = [];
  inv_fwd_good : Forall (fun p => pkt_adj p = 0) (fwd y);
  inv_back_good : Forall (fun p => pkt_len p = 0) (back y);
}.

Lemma init_inv window pktsize : 1 <= window -> 1 <= pktsize -> Inv (init_sys window pktsize).
Proof.
  intros Hw Hp. constructor; unfold eff_win; cbn -[Z.mul Z.add Z.sub]; try lia; try reflexivity; try constructor;
    try (intros [H|H]; discriminate); try reflexivity.
Qed.

(* flush_send preserves what matters *)
Lemma flush_send_spec s s' out :
  flush_send s = Some (s', out) -> 1 <= s_pkt s -> 0 <= s_win s -> nonempty_entries (s_buf s) ->
  buf_data (s_buf s) = pkts_data out ++ buf_data (s_buf s') /\
  s_win s' = s_win s - pkts_len out /\ 0 <= s_win s' /\ pkts_adj out = 0 /\
  Forall (fun p => pkt_adj p = 0) out /\
  nonempty_entries (s_buf s') /\ s_pkt s' = s_pkt s /\
  (s_buf s' = [] \/ s_win s' = 0).
Proof.
  unfold flush_send. intros H Hp Hw Hne.
  destruct (flush_loop _ _ _ _ _) as [[[buf win] o]|] eqn:E; [|discriminate].
  apply flush_loop_spec in E; try assumption.
  destruct E as (new & Ho & Hd & Hwin & Hw' & Hadj & Hall & Hne' & _ & Hend). simpl in Ho. subst o.
  assert (Hadjall : Forall (fun p => pkt_adj p = 0) new).
  { eapply Forall_impl; [|exact Hall]. intros p [Hg _]. destruct p; simpl in *; try contradiction; reflexivity. }
  destruct buf as [|e b].
  - destruct (s_state s); inversion H; subst; simpl;
      rewrite ?pkts_data_app, ?pkts_len_app, ?pkts_adj_app; simpl; rewrite ?app_nil_r, ?Z.add_0_r;
      (repeat split; auto; try lia; try (apply Forall_app; split; [assumption|repeat constructor]);
       try (rewrite Hd; simpl; rewrite ?app_nil_r; reflexivity)).
  - destruct Hend as [Hend|Hend]; [discriminate|].
    destruct (s_state s); inversion H; subst; simpl; repeat split; auto; try lia.
Qed.

Lemma flush_send_total s :
  1 <= s_pkt s -> 0 <= s_win s -> nonempty_entries (s_buf s) -> flush_send s <> None.
Proof.
  intros Hp Hw Hne. unfold flush_send.
  destruct (flush_loop _ _ _ _ _) as [[[buf win] o]|] eqn:E.
  - destruct buf; destruct (s_state s); discriminate.
  - exfalso. revert E. apply flush_loop_terminates; try assumption. unfold flush_fuel. lia.
Qed.

(* receiver: delivering one entry *)
Lemma r_deliver_spec r dt d r' adj :
  r_deliver r dt d = (r', adj) ->
  zlen d <= r_win r -> r_win r <= r_init r -> 1 <= r_init r ->
  toks_data (r_out r') = toks_data (r_out r) ++ map (pair dt) d /\
  r_win r - zlen d + pkts_adj adj <= r_win r' /\
  r_buf r' = r_buf r /\ r_init r' = r_init r /\ r_paused r' = r_paused r /\ r_state r' = r_state r /\
  r_err r' = r_err r /\
  r_win r' <= r_init r' /\ r_init r' <= 2 * r_win r' /\
  Forall (fun p => pkt_len p = 0) adj /\ 0 <= pkts_adj adj /\ Forall (fun p => 0 <= pkt_adj p) adj /\
  (stage_r (r_state r) <> 2%nat -> r_win r' = r_win r - zlen d + pkts_adj adj).
Proof.
  unfold r_deliver. intros H Hd Hw Hi. pose proof (zlen_nonneg d) as Hdn.
  destruct (2 * (r_win r - zlen d) <? r_init r) eqn:E.
  - unfold r_sclosed in H. destruct (r_state r) eqn:Es; inversion H; subst; simpl;
      rewrite toks_data_app, toks_data_toks_of, ?Es; repeat split; auto; try lia; repeat constructor;
      simpl; try lia; intros X; exfalso; apply X; reflexivity.
  - inversion H; subst; simpl. rewrite toks_data_app, toks_data_toks_of.
    repeat split; auto; try lia; repeat constructor.
Qed.

Lemma r_drain_spec buf : forall r k bk r' rest bk',
  r_drain r buf k bk = (r', rest, bk') ->
  buf_len buf <= r_win r -> r_win r <= r_init r -> 1 <= r_init r ->
  toks_data (r_out r') ++ buf_data rest = toks_data (r_out r) ++ buf_data buf /\
  (exists adj, bk' = bk ++ adj /\ Forall (fun p => pkt_len p = 0) adj /\
     r_win r - buf_len buf + pkts_adj adj <= r_win r' - buf_len rest /\
     Forall (fun p => 0 <= pkt_adj p) adj /\
     (stage_r (r_state r) <> 2%nat -> r_win r' - buf_len rest = r_win r - buf_len buf + pkts_adj adj)) /\
  r_init r' = r_init r /\ r_state r' = r_state r /\ r_err r' = r_err r /\
  r_win r' <= r_init r' /\ buf_len rest <= r_win r' /\
  (r_init r <= 2 * r_win r -> r_init r' <= 2 * r_win r') /\
  ((match k with None => true | Some n => Nat.ltb (length buf) n end) = true -> rest = []).
Proof.
  induction buf as [|[dt d] b IH]; intros r k bk r' rest bk' H Hb Hw Hi.
  - simpl in H. inversion H; subst. repeat split; auto; try lia.
    exists []. rewrite app_nil_r. repeat split; auto; try (simpl; lia); try constructor.
  - simpl in H. simpl in Hb. pose proof (buf_len_nonneg b) as Hbn. pose proof (zlen_nonneg d) as Hdn.
    assert (Hstep : forall k', r_drain (fst (r_deliver r dt d)) b k' (bk ++ snd (r_deliver r dt d)) = (r', rest, bk') ->
              ((match k' with None => true | Some n => Nat.ltb (length b) n end) = true ->
               (match k with None => true | Some n => Nat.ltb (length ((dt, d) :: b)) n end) = true) \/ True ->
              toks_data (r_out r') ++ buf_data rest = toks_data (r_out r) ++ buf_data ((dt, d) :: b) /\
              (exists adj, bk' = bk ++ adj /\ Forall (fun p => pkt_len p = 0) adj /\
                 r_win r - buf_len ((dt, d) :: b) + pkts_adj adj <= r_win r' - buf_len rest /\
                 Forall (fun p => 0 <= pkt_adj p) adj /\
                 (stage_r (r_state r) <> 2%nat ->
                  r_win r' - buf_len rest = r_win r - buf_len ((dt, d) :: b) + pkts_adj adj)) /\
              r_init r' = r_init r /\ r_state r' = r_state r /\ r_err r' = r_err r /\
              r_win r' <= r_init r' /\ buf_len rest <= r_win r' /\
              (r_init r <= 2 * r_win r -> r_init r' <= 2 * r_win r') /\
              ((match k' with None => true | Some n => Nat.ltb (length b) n end) = true -> rest = [])).
    { intros k' H' _. destruct (r_deliver r dt d) as [r1 adj1] eqn:E. simpl in H'.
      apply r_deliver_spec in E; try lia.
      destruct E as (Ho & Hw1 & _ & Hi1 & _ & Hs1 & He1 & Hwi & Hhalf & Hadj1 & Hadjpos & Hadjall & Hweq).
      apply IH in H'; try lia.
      destruct H' as (Hd' & (adj & -> & Hadj & Hwr & Hadjp & Hwreq) & Hi' & Hs' & He' & Hwi' & Hbl' & Hh' & Hk).
      split.
      { rewrite Hd', Ho. change (buf_data ((dt, d) :: b)) with (map (pair dt) d ++ buf_data b).
        rewrite <- app_assoc. reflexivity. }
      split.
      { exists (adj1 ++ adj). rewrite app_assoc. repeat split; auto.
        - apply Forall_app; split; assumption.
        - rewrite pkts_adj_app. simpl. lia.
        - apply Forall_app; split; assumption.
        - intros Hst. rewrite pkts_adj_app. simpl.
          assert (Hst1 : stage_r (r_state r1) <> 2%nat) by (rewrite Hs1; exact Hst).
          specialize (Hwreq Hst1). specialize (Hweq Hst). lia. }
      repeat split; try congruence; try lia; try (intros _; apply Hh'; lia); exact Hk. }
    destruct k as [[|j]|].
    + inversion H; subst. repeat split; auto; try lia; try discriminate.
      exists []. rewrite app_nil_r. repeat split; auto; try (simpl; lia); try constructor.
    + destruct (r_deliver r dt d) as [r1 adj1] eqn:E. simpl in Hstep.
      destruct (Hstep (Some j) H (or_intror I)) as (A1 & A2 & A3 & A4 & A5 & A6 & A7 & A8 & A9).
      repeat split; auto.
    + destruct (r_deliver r dt d) as [r1 adj1] eqn:E. simpl in Hstep.
      destruct (Hstep None H (or_intror I)) as (A1 & A2 & A3 & A4 & A5 & A6 & A7 & A8 & A9).
      repeat split; auto.
Qed.


(* ---------- one sender action followed by the send loop ------------------------------------ *)

Lemma flush_send_walk st0 s s' out :
  flush_send s = Some (s', out) -> 1 <= s_pkt s -> 0 <= s_win s -> nonempty_entries (s_buf s) ->
  (st0 = stage_s (s_state s) \/ (st0 = 1%nat /\ s_state s = SClosePending /\ s_buf s = [])) ->
  (s_buf s <> [] -> stage_s (s_state s) = 0%nat) ->
  walk st0 out = Some (stage_s (s_state s')) /\
  ((s_state s' = SEof \/ s_state s' = SClosed) -> s_buf s' = []).
Proof.
  unfold flush_send. intros H Hp Hw Hne Hst Hbuf.
  destruct (flush_loop _ _ _ _ _) as [[[buf win] o]|] eqn:E; [|discriminate].
  apply flush_loop_spec in E; try assumption.
  destruct E as (new & Ho & Hd & _ & _ & _ & Hall & Hne' & Hbl & _). simpl in Ho. subst o.
  assert (Hgd : Forall good_data new).
  { eapply Forall_impl; [|exact Hall]. intros p [Hg _]. exact Hg. }
  assert (Hnew : new <> [] -> s_buf s <> []).
  { intros Hn Hb. rewrite Hb in Hbl. simpl in Hbl. destruct new as [|p new']; [congruence|].
    inversion Hall as [|? ? [Hg _] _]; subst. destruct p; simpl in *; try contradiction.
    pose proof (pkts_len_nonneg new'). pose proof (buf_len_nonneg buf). lia. }
  destruct new as [|p0 new0].
  - (* nothing emitted by the loop *)
    simpl in *. destruct buf as [|e b].
    + destruct (s_state s) eqn:Est; inversion H; subst; simpl;
        destruct Hst as [->|(-> & Hcp & _)]; try discriminate; simpl; split; auto;
        try (intros [X|X]; discriminate).
    + assert (Hb : s_buf s <> []).
      { intros Hb. rewrite Hb in Hbl. simpl in Hbl. inversion Hne' as [|? ? He _]; subst.
        destruct e as [dt d0]; simpl in *.
        assert (1 <= zlen d0) by (destruct d0; [congruence|unfold zlen; simpl; lia]).
        pose proof (buf_len_nonneg b). lia. }
      specialize (Hbuf Hb).
      destruct Hst as [->|(_ & _ & Hc)]; [|contradiction].
      destruct (s_state s) eqn:Est; inversion H; subst; simpl in *; try discriminate;
        split; auto; intros [X|X]; discriminate.
  - (* the loop emitted data: the sender was at stage 0 *)
    assert (Hb : s_buf s <> []) by (apply Hnew; discriminate).
    remember (p0 :: new0) as nw eqn:Enw. clear Enw Hnew.
    specialize (Hbuf Hb).
    destruct Hst as [->|(_ & _ & Hc)]; [|contradiction].
    rewrite Hbuf.
    destruct buf as [|e b].
    + destruct (s_state s) eqn:Est; inversion H; subst; simpl in Hbuf; try discriminate;
        rewrite ?walk_app, ?(walk_data _ Hgd); simpl; split; auto; try (intros [X|X]; discriminate).
    + destruct (s_state s) eqn:Est; inversion H; subst; simpl in Hbuf; try discriminate;
        rewrite ?(walk_data _ Hgd); simpl; split; auto; intros [X|X]; discriminate.
Qed.

Lemma after_flush y s0 s' out n D w' back' :
  Inv y ->
  flush_send s0 = Some (s', out) ->
  s_pkt s0 = s_pkt (snd_ y) -> s_win s0 = s_win (snd_ y) + n -> 0 <= n ->
  nonempty_entries (s_buf s0) ->
  buf_data (s_buf s0) = buf_data (s_buf (snd_ y)) ++ D ->
  toks_data w' = toks_data (written y) ++ D ->
  pkts_adj back' + n = pkts_adj (back y) ->
  Forall (fun p => 0 <= pkt_adj p) back' -> Forall (fun p => pkt_len p = 0) back' ->
  (stage_s (s_state (snd_ y)) = stage_s (s_state s0) \/
   (stage_s (s_state (snd_ y)) = 1%nat /\ s_state s0 = SClosePending /\ s_buf s0 = [])) ->
  (s_buf s0 <> [] -> stage_s (s_state s0) = 0%nat) ->
  Inv (mkSys s' (rcv_ y) (fwd y ++ out) back' w' (stuck y)).
Proof.
  intros I H Hp Hw Hn Hne Hd Hwr Hadj Hbp Hbg Hst Hbuf.
  destruct I.
  assert (Hw0 : 0 <= s_win s0) by lia.
  assert (Hp0 : 1 <= s_pkt s0) by lia.
  pose proof (flush_send_spec _ _ _ H Hp0 Hw0 Hne) as (Hdd & Hwin & Hwpos & Hoadj & Hoall & Hne' & Hpk & Hfl).
  assert (Hst' : stage_s (s_state (snd_ y)) = stage_s (s_state s0) \/
                 (stage_s (s_state (snd_ y)) = 1%nat /\ s_state s0 = SClosePending /\ s_buf s0 = [])) by exact Hst.
  pose proof (flush_send_walk (stage_s (s_state (snd_ y))) _ _ _ H Hp0 Hw0 Hne) as Hwalk.
  destruct Hwalk as [Hwk Hdone]; [destruct Hst as [E|(E1 & E2 & E3)]; [left; exact E | right; auto] | exact Hbuf |].
  constructor; simpl; auto.
  - rewrite walk_app, inv_walk0. exact Hwk.
  - rewrite Hwr, <- inv_data0, pkts_data_app. rewrite <- !app_assoc. do 2 f_equal.
    f_equal. rewrite <- Hdd. exact Hd.
  - rewrite pkts_len_app. lia.
  - intros X. specialize (inv_credit_eq0 X). rewrite pkts_len_app. lia.
  - lia.
  - apply Forall_app. split; assumption.
Qed.

(* ---------- receiver actions ---------------------------------------------------------------- *)

Record RPre (r : receiver) : Prop := {
  rp_rwin : r_win r <= r_init r; rp_half : r_init r <= 2 * r_win r; rp_init : 1 <= r_init r;
  rp_unp : r_paused r = false -> r_buf r = []; rp_eff : 0 <= eff_win r; rp_noerr : r_err r = false }.

Record RStep (r r' : receiver) (adj : list pkt) (X : list (Z * Z)) (dl : Z) : Prop := {
  rs_data : toks_data (r_out r') ++ buf_data (r_buf r') = toks_data (r_out r) ++ buf_data (r_buf r) ++ X;
  rs_win : eff_win r - dl + pkts_adj adj <= eff_win r';
  rs_win_eq : stage_r (r_state r') <> 2%nat -> eff_win r' = eff_win r - dl + pkts_adj adj;
  rs_mono : stage_r (r_state r') <> 2%nat -> stage_r (r_state r) <> 2%nat;
  rs_adjpos : Forall (fun p => 0 <= pkt_adj p) adj;
  rs_adjlen : Forall (fun p => pkt_len p = 0) adj;
  rs_init : r_init r' = r_init r;
  rs_err : r_err r' = false;
  rs_rwin : r_win r' <= r_init r';
  rs_half : r_init r' <= 2 * r_win r';
  rs_unp : r_paused r' = false -> r_buf r' = [] }.

Lemma r_finish_facts r :
  toks_data (r_out (r_finish r)) = toks_data (r_out r) /\ r_buf (r_finish r) = r_buf r /\
  r_win (r_finish r) = r_win r /\ r_init (r_finish r) = r_init r /\ r_paused (r_finish r) = r_paused r /\
  r_err (r_finish r) = r_err r /\ stage_r (r_state (r_finish r)) = stage_r (r_state r).
Proof.
  unfold r_finish. destruct (r_buf r) eqn:Eb; [|repeat split; auto].
  destruct (r_state r) eqn:Es; simpl; rewrite ?toks_data_app; simpl; rewrite ?app_nil_r, ?Es; repeat split; auto.
Qed.

Lemma r_data_step strict r dt d r' adj :
  RPre r -> r_state r = ROpen -> zlen d <= eff_win r -> r_data strict r dt d = (r', adj) ->
  RStep r r' adj (map (pair dt) d) (zlen d) /\ r_state r' = ROpen.
Proof.
  intros [Hrw Hh Hi Hu He Hn] Hst Hd H. unfold r_data in H. rewrite Hn, Hst in H.
  pose proof (buf_len_nonneg (r_buf r)) as Hbn. pose proof (zlen_nonneg d) as Hdn. unfold eff_win in *.
  assert (Hav : (zlen d >? (if strict then r_win r - buf_len (r_buf r) else r_win r)) = false)
    by (destruct strict; lia).
  rewrite Hav in H. destruct d as [|x d'].
  - inversion H; subst. split; [|assumption].
    constructor; simpl; rewrite ?app_nil_r; auto; try lia; try (unfold zlen; simpl; lia); try constructor;
      try (intros _; unfold zlen; simpl; lia).
  - destruct (r_paused r) eqn:Ep.
    + inversion H; subst. split; [|reflexivity]. constructor; simpl; auto; try constructor; try discriminate.
      * rewrite buf_data_app. simpl. rewrite app_nil_r. reflexivity.
      * unfold eff_win. simpl. rewrite buf_len_app. simpl. lia.
      * intros _. unfold eff_win. simpl. rewrite buf_len_app. simpl. lia.
      * rewrite Hst. discriminate.
    + specialize (Hu eq_refl). rewrite Hu in *. simpl in *.
      apply r_deliver_spec in H; try lia.
      destruct H as (Ho & Hw1 & Hb1 & Hi1 & Hp1 & Hs1 & He1 & Hwi & Hhalf & Hadj1 & _ & Hadjall & Hweq).
      split; [|congruence]. constructor; auto; try congruence.
      * rewrite Hb1, Hu, Ho. simpl. rewrite !app_nil_r. reflexivity.
      * unfold eff_win. rewrite Hb1, Hu. simpl. lia.
      * intros _. unfold eff_win. rewrite Hb1, Hu. simpl.
        assert (X : stage_r (r_state r) <> 2%nat) by (rewrite Hst; discriminate). specialize (Hweq X). lia.
Qed.

Lemma r_flush_step r k r' adj :
  RPre r -> r_flush r k = (r', adj) ->
  RStep r r' adj [] 0 /\ stage_r (r_state r') = stage_r (r_state r).
Proof.
  intros [Hrw Hh Hi Hu He Hn] H. unfold r_flush in H.
  destruct (r_drain _ _ _ _) as [[r1 rest] bk] eqn:E.
  pose proof (buf_len_nonneg (r_buf r)) as Hbn. unfold eff_win in He.
  apply r_drain_spec in E; simpl; try lia.
  destruct E as (Hd' & (adj0 & Hbk & Hadj & Hwr & Hadjp & Hweq) & Hi' & Hs' & He' & Hwi' & Hbl' & Hh' & Hk).
  simpl in *. subst bk.
  match type of H with (r_finish ?R, _) = _ => pose proof (r_finish_facts R) as (F1 & F2 & F3 & F4 & F5 & F6 & F7) end.
  injection H as Hr Ha. subst adj0.
  assert (Hstage : stage_r (r_state r') = stage_r (r_state r)) by (rewrite <- Hr, F7; simpl; rewrite Hs'; reflexivity).
  subst r'. simpl in *.
  split; [|exact Hstage].
  constructor; unfold eff_win; rewrite ?F1, ?F2, ?F3, ?F4, ?F5, ?F6; simpl; auto; try lia; try congruence.
  - rewrite app_nil_r. exact Hd'.
  - intros X. apply Hk. destruct k as [n|]; [|reflexivity].
    apply Nat.leb_gt in X. apply Nat.ltb_lt. exact X.
Qed.

Definition same_core (r0 r : receiver) : Prop :=
  r_buf r0 = r_buf r /\ r_win r0 = r_win r /\ r_init r0 = r_init r /\ r_paused r0 = r_paused r /\
  r_err r0 = r_err r /\ r_out r0 = r_out r.

Lemma RPre_core r0 r : same_core r0 r -> RPre r -> RPre r0.
Proof.
  intros (A & B & C & D & E & F) [P1 P2 P3 P4 P5 P6]. unfold eff_win in *.
  constructor; unfold eff_win; rewrite ?A, ?B, ?C, ?D, ?E; auto.
Qed.

Lemma RStep_core r0 r r' adj X dl :
  same_core r0 r -> (stage_r (r_state r0) <> 2%nat -> stage_r (r_state r) <> 2%nat) ->
  RStep r0 r' adj X dl -> RStep r r' adj X dl.
Proof.
  intros (A & B & C & D & E & F) Hm [S1 S2 S2e S2m S3 S4 S5 S6 S7 S8 S9]. unfold eff_win in *.
  constructor; unfold eff_win; rewrite <- ?A, <- ?B, <- ?C, <- ?F; auto.
Qed.

Lemma finish_step r0 :
  RPre r0 -> RStep r0 (r_finish r0) [] [] 0 /\ stage_r (r_state (r_finish r0)) = stage_r (r_state r0).
Proof.
  intros [Hrw Hh Hi Hu He Hn].
  pose proof (r_finish_facts r0) as (F1 & F2 & F3 & F4 & F5 & F6 & F7).
  split; [|exact F7].
  constructor; unfold eff_win; rewrite ?F1, ?F2, ?F3, ?F4, ?F5, ?F6, ?F7; simpl; auto; try lia; try constructor.
  rewrite app_nil_r. reflexivity.
Qed.

Lemma r_eof_step r r' adj :
  RPre r -> r_state r = ROpen -> r_eof r = (r', adj) ->
  RStep r r' adj [] 0 /\ stage_r (r_state r') = 1%nat.
Proof.
  intros P Hst H. unfold r_eof in H. rewrite (rp_noerr _ P), Hst in H.
  set (r0 := mkR (r_buf r) (r_win r) (r_init r) (r_paused r) REofPending false (r_out r)) in *.
  assert (Hc : same_core r0 r) by (unfold same_core; simpl; rewrite (rp_noerr _ P); auto 10).
  pose proof (RPre_core _ _ Hc P) as P0.
  destruct (r_paused r) eqn:Ep.
  - inversion H; subst. destruct (finish_step r0 P0) as [A B].
    split; [eapply RStep_core; eauto; intros _; rewrite Hst; discriminate|exact B].
  - apply r_flush_step in H; [|exact P0]. destruct H as [A B].
    split; [eapply RStep_core; eauto; intros _; rewrite Hst; discriminate|exact B].
Qed.

Lemma r_close_step r r' adj :
  RPre r -> (stage_r (r_state r) <= 1)%nat -> r_close r = (r', adj) ->
  RStep r r' adj [] 0 /\ stage_r (r_state r') = 2%nat.
Proof.
  intros P Hst H. unfold r_close in H. rewrite (rp_noerr _ P) in H.
  set (r0 := mkR (r_buf r) (r_win r) (r_init r) (r_paused r) RClosePending false (r_out r)) in *.
  assert (Hc : same_core r0 r) by (unfold same_core; simpl; rewrite (rp_noerr _ P); auto 10).
  pose proof (RPre_core _ _ Hc P) as P0.
  assert (Hgo : (if r_paused r then (r_finish r0, []) else r_flush r0 None) = (r', adj)).
  { destruct (r_state r); simpl in Hst; try lia; exact H. }
  clear H. destruct (r_paused r) eqn:Ep.
  - inversion Hgo; subst. destruct (finish_step r0 P0) as [A B].
    split; [eapply RStep_core; eauto; simpl; intros X; exfalso; apply X; reflexivity|exact B].
  - apply r_flush_step in Hgo; [|exact P0]. destruct Hgo as [A B].
    split; [eapply RStep_core; eauto; simpl; intros X; exfalso; apply X; reflexivity|exact B].
Qed.

Lemma Inv_RPre y : Inv y -> RPre (rcv_ y).
Proof.
  intros I. destruct I. constructor; auto.
  rewrite <- inv_credit0.
  assert (0 <= pkts_adj (back y)).
  { clear - inv_back_pos0. induction (back y) as [|p l IH]; simpl; [lia|]. inversion inv_back_pos0; subst. specialize (IH H2). lia. }
  pose proof (pkts_len_nonneg (fwd y)). lia.
Qed.

Lemma after_rcv y r' adj X dl fwd' :
  Inv y -> RStep (rcv_ y) r' adj X dl ->
  pkts_data (fwd y) = X ++ pkts_data fwd' -> pkts_len (fwd y) = dl + pkts_len fwd' ->
  Forall (fun p => pkt_adj p = 0) fwd' ->
  walk (stage_r (r_state r')) fwd' = Some (stage_s (s_state (snd_ y))) ->
  Inv (mkSys (snd_ y) r' fwd' (back y ++ adj) (written y) (stuck y)).
Proof.
  intros I [A B Be Bm C D E F G H J] Hd Hl Hf Hw. destruct I.
  constructor; simpl; auto; try lia.
  - apply Forall_app; split; assumption.
  - rewrite <- inv_data0. rewrite Hd. rewrite !app_assoc. do 2 f_equal. rewrite <- !app_assoc. exact A.
  - rewrite pkts_adj_app. lia.
  - intros X0. specialize (Be X0). specialize (inv_credit_eq0 (Bm X0)). rewrite pkts_adj_app. lia.
  - apply Forall_app; split; assumption.
Qed.

(* ---------- every honest step preserves the invariant --------------------------------------- *)

Lemma adj_sum_head n rest : pkts_adj (PAdjust n :: rest) = n + pkts_adj rest.
Proof. reflexivity. Qed.

Theorem step_inv strict y o : Inv y -> honest o -> Inv (step strict y o).
Proof.
  intros I Ho. pose proof (Inv_RPre y I) as P. unfold step. rewrite (inv_nostuck _ I).
  destruct o as [dt d| | | |k| | |dt d]; try contradiction.
  - (* write *)
    destruct (s_state (snd_ y)) eqn:Est; try exact I.
    unfold upd_snd, s_write. rewrite Est.
    destruct d as [|x d'].
    + destruct y; simpl in *. destruct I; constructor; simpl in *; rewrite ?app_nil_r; auto.
    + set (s0 := mkS (s_buf (snd_ y) ++ [(dt, x :: d')]) (s_win (snd_ y)) (s_pkt (snd_ y)) SOpen).
      destruct (flush_send s0) as [[s' out]|] eqn:E.
      * apply (after_flush y s0 s' out 0 (map (pair dt) (x :: d')) _ (back y) I E); simpl; auto; try lia.
        -- apply Forall_app. split; [apply (inv_ne _ I)|constructor; [simpl; discriminate|constructor]].
        -- rewrite buf_data_app. simpl. rewrite app_nil_r. reflexivity.
        -- rewrite toks_data_app. f_equal. exact (toks_data_toks_of dt (x :: d')).
        -- apply (inv_back_pos _ I).
        -- apply (inv_back_good _ I).
        -- left. rewrite Est. reflexivity.
      * exfalso. revert E. apply flush_send_total; simpl.
        -- apply (inv_pkt _ I).
        -- apply (inv_swin _ I).
        -- apply Forall_app. split; [apply (inv_ne _ I)|constructor; [simpl; discriminate|constructor]].
  - (* eof *)
    destruct (s_state (snd_ y)) eqn:Est; try exact I.
    unfold upd_snd, s_eof. rewrite Est.
    set (s0 := mkS (s_buf (snd_ y)) (s_win (snd_ y)) (s_pkt (snd_ y)) SEofPending).
    destruct (flush_send s0) as [[s' out]|] eqn:E.
    + apply (after_flush y s0 s' out 0 [] _ (back y) I E); simpl; auto; try lia.
      * apply (inv_ne _ I).
      * rewrite app_nil_r. reflexivity.
      * rewrite toks_data_app. reflexivity.
      * apply (inv_back_pos _ I).
      * apply (inv_back_good _ I).
      * left. rewrite Est. reflexivity.
    + exfalso. revert E. apply flush_send_total; simpl;
        [apply (inv_pkt _ I) | apply (inv_swin _ I) | apply (inv_ne _ I)].
  - (* close *)
    assert (Hgo : Inv (upd_snd strict y (s_close (snd_ y)) [TClose]) \/
                  (s_state (snd_ y) = SClosePending \/ s_state (snd_ y) = SClosed)).
    { destruct (s_state (snd_ y)) eqn:Est; try (right; auto; fail); left;
        unfold upd_snd, s_close; rewrite Est;
        set (s0 := mkS (s_buf (snd_ y)) (s_win (snd_ y)) (s_pkt (snd_ y)) SClosePending);
        (destruct (flush_send s0) as [[s' out]|] eqn:E;
         [ apply (after_flush y s0 s' out 0 [] _ (back y) I E); simpl; auto; try lia;
           [ apply (inv_ne _ I) | rewrite app_nil_r; reflexivity | rewrite toks_data_app; reflexivity
           | apply (inv_back_pos _ I) | apply (inv_back_good _ I)
           | rewrite Est; simpl; try (left; reflexivity);
             right; repeat split; auto; apply (inv_sdone _ I); left; exact Est ]
         | exfalso; revert E; apply flush_send_total; simpl;
           [apply (inv_pkt _ I) | apply (inv_swin _ I) | apply (inv_ne _ I)] ]). }
    destruct Hgo as [Hgo|[Hc|Hc]]; rewrite ?Hc; try exact I.
    destruct (s_state (snd_ y)); try exact I; exact Hgo.
  - (* pause *)
    destruct I. constructor; simpl; auto. intros X; discriminate.
  - (* resume *)
    assert (Hid : Inv (upd_rcv y (rcv_ y, []) (fwd y))).
    { unfold upd_rcv. destruct y; simpl in *. destruct I; constructor; simpl in *; rewrite ?app_nil_r; auto. }
    assert (Hfl : r_paused (rcv_ y) = true -> Inv (upd_rcv y (r_flush (rcv_ y) k) (fwd y))).
    { intros Ep. unfold upd_rcv. destruct (r_flush (rcv_ y) k) as [r' adj] eqn:E.
      apply r_flush_step in E; [|exact P]. destruct E as [E Hs].
      apply (after_rcv y r' adj [] 0 (fwd y) I E); simpl; auto.
      * apply (inv_fwd_good _ I).
      * rewrite Hs. apply (inv_walk _ I). }
    unfold r_resume. destruct k as [[|n]|]; try exact Hid;
      (destruct (r_paused (rcv_ y)) eqn:Ep; [apply Hfl; reflexivity|exact Hid]).
  - (* deliver forward *)
    destruct (fwd y) as [|p rest] eqn:Ef; [exact I|].
    pose proof (inv_walk _ I) as Hw. rewrite Ef in Hw.
    pose proof (inv_fwd_good _ I) as Hfg. rewrite Ef in Hfg. inversion Hfg as [|? ? Hp0 Hrest]; subst.
    destruct p as [dt d| | |n]; simpl in Hw.
    + destruct (stage_r (r_state (rcv_ y))) eqn:Es; [|discriminate].
      assert (Hopen : r_state (rcv_ y) = ROpen) by (destruct (r_state (rcv_ y)); simpl in Es; congruence).
      unfold upd_rcv. destruct (r_data strict (rcv_ y) dt d) as [r' adj] eqn:E.
      apply r_data_step in E; auto.
      * destruct E as [E Hs]. apply (after_rcv y r' adj (map (pair dt) d) (zlen d) rest I E); rewrite ?Ef; simpl; auto.
        rewrite Hs. exact Hw.
      * pose proof (inv_credit _ I) as Hc. rewrite Ef in Hc. simpl in Hc.
        pose proof (inv_swin _ I). pose proof (pkts_len_nonneg rest).
        assert (0 <= pkts_adj (back y)).
        { pose proof (inv_back_pos _ I) as Hb. clear - Hb. induction (back y) as [|q l IH]; simpl; [lia|].
          inversion Hb; subst. specialize (IH H2). lia. }
        lia.
    + destruct (stage_r (r_state (rcv_ y))) eqn:Es; [|discriminate].
      assert (Hopen : r_state (rcv_ y) = ROpen) by (destruct (r_state (rcv_ y)); simpl in Es; congruence).
      unfold upd_rcv. destruct (r_eof (rcv_ y)) as [r' adj] eqn:E.
      apply r_eof_step in E; auto. destruct E as [E Hs].
      apply (after_rcv y r' adj [] 0 rest I E); rewrite ?Ef; simpl; auto.
      rewrite Hs. exact Hw.
    + assert (Hle : (stage_r (r_state (rcv_ y)) <= 1)%nat).
      { destruct (stage_r (r_state (rcv_ y))) as [|[|n]]; try lia. discriminate. }
      unfold upd_rcv. destruct (r_close (rcv_ y)) as [r' adj] eqn:E.
      apply r_close_step in E; auto. destruct E as [E Hs].
      apply (after_rcv y r' adj [] 0 rest I E); rewrite ?Ef; simpl; auto.
      rewrite Hs. destruct (stage_r (r_state (rcv_ y))) as [|[|n]]; try exact Hw; discriminate.
    + simpl in Hp0. subst n.
      destruct I; constructor; simpl in *; auto; rewrite Ef in *; simpl in *; auto.
  - (* deliver back *)
    destruct (back y) as [|p rest] eqn:Eb; [exact I|].
    pose proof (inv_back_pos _ I) as Hbp. rewrite Eb in Hbp. inversion Hbp as [|? ? Hp0 Hrp]; subst.
    pose proof (inv_back_good _ I) as Hbg. rewrite Eb in Hbg. inversion Hbg as [|? ? Hl0 Hrl]; subst.
    destruct p as [dt d| | |n].
    + simpl in Hl0. destruct I; constructor; simpl in *; auto; rewrite Eb in *; simpl in *; auto; try lia.
    + destruct I; constructor; simpl in *; auto; rewrite Eb in *; simpl in *; auto.
    + destruct I; constructor; simpl in *; auto; rewrite Eb in *; simpl in *; auto.
    + simpl in Hp0. unfold s_adjust.
      set (s0 := mkS (s_buf (snd_ y)) (s_win (snd_ y) + n) (s_pkt (snd_ y)) (s_state (snd_ y))).
      destruct (flush_send s0) as [[s' out]|] eqn:E.
      * rewrite <- (inv_nostuck _ I).
        apply (after_flush y s0 s' out n [] (written y) rest I E); simpl; auto; try lia.
        -- apply (inv_ne _ I).
        -- rewrite app_nil_r. reflexivity.
        -- rewrite app_nil_r. reflexivity.
        -- rewrite Eb. simpl. lia.
        -- intros Hb. destruct (s_state (snd_ y)) eqn:Est; try reflexivity;
             exfalso; apply Hb; apply (inv_sdone _ I); auto.
      * exfalso. revert E. apply flush_send_total; simpl;
          [apply (inv_pkt _ I) | pose proof (inv_swin _ I); lia | apply (inv_ne _ I)].
Qed.

(* ---------- every reachable state of an honest run ------------------------------------------ *)

Lemma fold_inv strict ops : forall y, Inv y -> Forall honest ops -> Inv (fold_left (step strict) ops y).
Proof.
  induction ops as [|o ops IH]; intros y I H; simpl; [exact I|].
  inversion H; subst. apply IH; [apply step_inv; assumption|assumption].
Qed.

Theorem run_inv strict window pktsize ops :
  1 <= window -> 1 <= pktsize -> Forall honest ops -> Inv (run strict window pktsize ops).
Proof. intros. unfold run. apply fold_inv; [apply init_inv; assumption|assumption]. Qed.

(* what the receiving application has seen is a prefix of what the sending application wrote:
   written = delivered ++ (still buffered at the receiver, on the wire, or at the sender) *)
Theorem data_conservation strict window pktsize ops :
  1 <= window -> 1 <= pktsize -> Forall honest ops ->
  let y := run strict window pktsize ops in
  toks_data (written y) =
    toks_data (r_out (rcv_ y)) ++ buf_data (r_buf (rcv_ y)) ++ pkts_data (fwd y) ++ buf_data (s_buf (snd_ y)).
Proof. intros Hw Hp H y. symmetry. apply (inv_data _ (run_inv strict _ _ _ Hw Hp H)). Qed.

(* no deadlock: when both wires are empty and the reader is not paused, nothing is left anywhere *)
Theorem quiescent_complete strict window pktsize ops :
  1 <= window -> 1 <= pktsize -> Forall honest ops ->
  let y := run strict window pktsize ops in
  fwd y = [] -> back y = [] -> r_paused (rcv_ y) = false ->
  toks_data (r_out (rcv_ y)) = toks_data (written y) /\ s_buf (snd_ y) = [].
Proof.
  intros Hw Hp H y Hf Hb Hpa. pose proof (run_inv strict _ _ _ Hw Hp H) as I. fold y in I.
  pose proof (inv_unpaused _ I Hpa) as Hrb.
  assert (Hs : s_buf (snd_ y) = []).
  { destruct (Nat.eq_dec (stage_r (r_state (rcv_ y))) 2) as [E2|E2].
    - (* the receiver has seen CLOSE: with an empty wire the sender is closed too *)
      pose proof (inv_walk _ I) as Hwk. rewrite Hf in Hwk. simpl in Hwk. rewrite E2 in Hwk.
      apply (inv_sdone _ I). right. destruct (s_state (snd_ y)); simpl in Hwk; try discriminate; reflexivity.
    - destruct (inv_flushed _ I) as [E|E]; [exact E|].
      pose proof (inv_credit_eq _ I E2) as Hc. unfold eff_win in Hc. rewrite Hf, Hb, Hrb, E in Hc. simpl in Hc.
      pose proof (inv_half _ I). pose proof (inv_init _ I). lia. }
  split; [|exact Hs].
  pose proof (inv_data _ I) as Hd. rewrite Hf, Hrb, Hs in Hd. simpl in Hd. rewrite app_nil_r in Hd. exact Hd.
Qed.

(* honest peers never trip the receiver's window check, and the send loop always terminates *)
Theorem honest_no_error strict window pktsize ops :
  1 <= window -> 1 <= pktsize -> Forall honest ops ->
  let y := run strict window pktsize ops in r_err (rcv_ y) = false /\ stuck y = false.
Proof.
  intros Hw Hp H y. pose proof (run_inv strict _ _ _ Hw Hp H) as I. split; [apply (inv_noerr _ I)|apply (inv_nostuck _ I)].
Qed.

(* the sender never has more in flight than the receiver's window allows; until the receiver has
   seen CLOSE the accounting is exact *)
Theorem sender_within_window strict window pktsize ops :
  1 <= window -> 1 <= pktsize -> Forall honest ops ->
  let y := run strict window pktsize ops in
  0 <= s_win (snd_ y) /\
  s_win (snd_ y) + pkts_len (fwd y) + pkts_adj (back y) <= r_win (rcv_ y) - buf_len (r_buf (rcv_ y)) /\
  (stage_r (r_state (rcv_ y)) <> 2%nat ->
   s_win (snd_ y) + pkts_len (fwd y) + pkts_adj (back y) = r_win (rcv_ y) - buf_len (r_buf (rcv_ y))).
Proof.
  intros Hw Hp H y. pose proof (run_inv strict _ _ _ Hw Hp H) as I.
  split; [apply (inv_swin _ I)|split; [apply (inv_credit _ I)|apply (inv_credit_eq _ I)]].
Qed.

(* every data packet the send loop emits carries at least one byte and at most min(window, pktsize) *)
Theorem emitted_packets_bounded fuel buf win pktsize out buf' win' out' :
  flush_loop fuel buf win pktsize out = Some (buf', win', out') ->
  1 <= pktsize -> 0 <= win -> nonempty_entries buf ->
  exists new, out' = out ++ new /\ pkts_len new <= win /\
    Forall (fun p => good_data p /\ pkt_len p <= pktsize) new.
Proof.
  intros H Hp Hw Hne. destruct (flush_loop_spec _ _ _ _ _ _ _ _ H Hp Hw Hne)
    as (new & Ho & _ & Hwin & Hw' & _ & Hall & _).
  exists new. repeat split; auto. lia.
Qed.

(* ---------- the receiver against ANY peer (hostile data included) --------------------------- *)

Record RB (w : Z) (r : receiver) : Prop := {
  rb_buf : buf_len (r_buf r) <= r_win r; rb_win : r_win r <= r_init r; rb_init : r_init r = w;
  rb_unp : r_paused r = false -> r_buf r = [] }.

Lemma rb_finish w r : RB w r -> RB w (r_finish r).
Proof.
  intros [A B C D]. pose proof (r_finish_facts r) as (_ & F2 & F3 & F4 & F5 & _).
  constructor; rewrite ?F2, ?F3, ?F4, ?F5; auto.
Qed.

Lemma rb_flush w r k r' adj : 1 <= w -> RB w r -> r_flush r k = (r', adj) -> RB w r'.
Proof.
  intros Hw [A B C D] H. unfold r_flush in H.
  destruct (r_drain _ _ _ _) as [[r1 rest] bk] eqn:E.
  apply r_drain_spec in E; simpl; try lia.
  destruct E as (_ & _ & Hi' & _ & _ & Hwi' & Hbl' & _ & Hk). simpl in *.
  inversion H; subst. apply rb_finish. constructor; simpl; auto; try lia.
  intros X. apply Hk. destruct k as [n|]; [|reflexivity].
  apply Nat.leb_gt in X. apply Nat.ltb_lt. exact X.
Qed.

Lemma rb_data w r dt d r' adj : 1 <= w -> RB w r -> r_data true r dt d = (r', adj) -> RB w r'.
Proof.
  intros Hw [A B C D] H. unfold r_data in H.
  destruct (r_err r); [inversion H; subst; constructor; auto|].
  pose proof (buf_len_nonneg (r_buf r)) as Hbn. pose proof (zlen_nonneg d) as Hdn.
  destruct (r_state r); try (inversion H; subst; constructor; simpl; auto; fail).
  destruct (zlen d >? r_win r - buf_len (r_buf r)) eqn:G; [inversion H; subst; constructor; simpl; auto|].
  destruct d as [|x d']; [inversion H; subst; constructor; auto|].
  destruct (r_paused r) eqn:Ep.
  - inversion H; subst. constructor; simpl; auto; try discriminate. rewrite buf_len_app. simpl. lia.
  - specialize (D eq_refl). rewrite D in *. simpl in *.
    apply r_deliver_spec in H; try lia.
    destruct H as (_ & Hw1 & Hb1 & Hi1 & Hp1 & _ & _ & Hwi & _ & _ & Hpos & _).
    constructor; rewrite ?Hb1, ?D; simpl; auto; try lia.
Qed.

Lemma rb_core w r r0 : RB w r -> r_buf r0 = r_buf r -> r_win r0 = r_win r -> r_init r0 = r_init r ->
  (r_paused r0 = false -> r_paused r = false) -> RB w r0.
Proof. intros [A B C D] E1 E2 E3 E4. constructor; rewrite ?E1, ?E2, ?E3; auto. Qed.

Theorem step_rb w y o : 1 <= w -> RB w (rcv_ y) -> RB w (rcv_ (step true y o)).
Proof.
  intros Hw R. unfold step. destruct (stuck y); [exact R|].
  destruct o as [dt d| | | |k| | |dt d].
  - destruct (s_state (snd_ y)); try exact R. unfold upd_snd. destruct (s_write _ _ _) as [[? ?]|]; exact R.
  - destruct (s_state (snd_ y)); try exact R. unfold upd_snd. destruct (s_eof _) as [[? ?]|]; exact R.
  - destruct (s_state (snd_ y)); try exact R; unfold upd_snd; destruct (s_close _) as [[? ?]|]; exact R.
  - simpl. destruct R as [A B C D]. constructor; simpl; auto. discriminate.
  - assert (Hfl : RB w (rcv_ (upd_rcv y (r_flush (rcv_ y) k) (fwd y)))).
    { unfold upd_rcv. destruct (r_flush (rcv_ y) k) as [r' adj] eqn:E. simpl. eapply rb_flush; eauto. }
    unfold r_resume. destruct k as [[|n]|]; try exact R;
      (destruct (r_paused (rcv_ y)) eqn:Ep; [exact Hfl|exact R]).
  - destruct (fwd y) as [|p rest]; [exact R|]. destruct p as [dt d| | |n]; unfold upd_rcv.
    + destruct (r_data true (rcv_ y) dt d) as [r' adj] eqn:E. simpl. eapply rb_data; eauto.
    + destruct (r_eof (rcv_ y)) as [r' adj] eqn:E. simpl. unfold r_eof in E.
      destruct (r_err (rcv_ y)); [inversion E; subst; exact R|].
      destruct (r_state (rcv_ y)); try (inversion E; subst; destruct R; constructor; simpl; auto; fail).
      destruct (r_paused (rcv_ y)) eqn:Ep.
      * inversion E; subst. apply rb_finish. apply (rb_core w (rcv_ y)); simpl; auto; congruence.
      * eapply rb_flush; [exact Hw| |exact E]. apply (rb_core w (rcv_ y)); simpl; auto; congruence.
    + destruct (r_close (rcv_ y)) as [r' adj] eqn:E. simpl. unfold r_close in E.
      destruct (r_err (rcv_ y)); [inversion E; subst; exact R|].
      destruct (r_state (rcv_ y)); try (inversion E; subst; destruct R; constructor; simpl; auto; fail);
        (destruct (r_paused (rcv_ y)) eqn:Ep;
         [ inversion E; subst; apply rb_finish; apply (rb_core w (rcv_ y)); simpl; auto; congruence
         | eapply rb_flush; [exact Hw| |exact E]; apply (rb_core w (rcv_ y)); simpl; auto; congruence ]).
    + exact R.
  - destruct (back y) as [|p rest]; [exact R|]. destruct p as [dt d| | |n]; try exact R.
    destruct (s_adjust _ _) as [[? ?]|]; exact R.
  - exact R.
Qed.

Lemma fold_rb w ops : forall y, 1 <= w -> RB w (rcv_ y) -> RB w (rcv_ (fold_left (step true) ops y)).
Proof.
  induction ops as [|o ops IH]; intros y Hw R; simpl; [exact R|].
  apply IH; [exact Hw|]. apply step_rb; assumption.
Qed.

(* whatever the peer sends (ORaw = data that ignores the window) and however the reader pauses,
   the repaired receiver never holds more unconsumed data than the window it advertised *)
Theorem receiver_bounded window pktsize ops :
  1 <= window ->
  let y := run true window pktsize ops in
  buf_len (r_buf (rcv_ y)) <= window /\ r_win (rcv_ y) <= window.
Proof.
  intros Hw y.
  assert (R : RB window (rcv_ y)).
  { unfold y, run. apply fold_rb; [exact Hw|]. constructor; simpl; auto; lia. }
  destruct R as [A B C D]. rewrite C in B. split; lia.
Qed.

(* the unrepaired check (against _recv_window only) lets a paused receiver buffer without bound *)
Theorem receiver_unbounded_old :
  exists ops, let y := run false 1 1 ops in buf_len (r_buf (rcv_ y)) > 1 /\ r_err (rcv_ y) = false.
Proof. exists [OPause; ORaw 0 [7]; ORaw 0 [8]; ORaw 0 [9]; ODeliverFwd; ODeliverFwd; ODeliverFwd]. vm_compute. split; reflexivity. Qed.

(* a peer-supplied maximum packet size of 0 makes the send loop spin: the first write never returns *)
Theorem zero_pktsize_spins strict window dt d :
  1 <= window -> d <> [] -> stuck (run strict window 0 [OWrite dt d]) = true.
Proof.
  intros Hw Hd. destruct d as [|x d']; [congruence|].
  unfold run. cbn [fold_left]. unfold step, init_sys. cbn [stuck snd_ s_state].
  unfold upd_snd, s_write. cbn [s_state s_buf s_win s_pkt app].
  unfold flush_send. cbn [s_buf s_win s_pkt].
  rewrite flush_loop_zero_pktsize; [reflexivity|discriminate|lia].
Qed.

Theorem open_pktsize_ok_sound pktsize db p :
  open_pktsize_ok pktsize db = Some p -> 1 <= p.
Proof. unfold open_pktsize_ok. destruct db; destruct (_ <=? 0) eqn:E; intros H; inversion H; subst; lia. Qed.
