(* C09 - connection level: the invariant INV is kept by every op, the potential decreases with every
   ready callback run; the theorems about resolved waiters, callback logs and the channel table. *)
From AV Require Import Base.Prelude Model.Close Proofs.CloseProofs.
Local Open Scope nat_scope.

(* ================================================================== connection level ===== *)
Definition cx0 (ch : chan) : cx := mkCx ch [] [] [].
Lemma nth_error_upd_eq {A} (l : list A) c v a : nth_error l c = Some a -> nth_error (upd c v l) c = Some v.
Proof. revert c; induction l as [|b l IH]; intros [|c]; simpl; try discriminate; auto. Qed.
Lemma nth_error_upd_ne {A} (l : list A) c c' v : c <> c' -> nth_error (upd c v l) c' = nth_error l c'.
Proof.
  revert c c'; induction l as [|b l IH]; intros [|c] [|c'] H; simpl; try reflexivity; try congruence.
  apply IH; congruence.
Qed.
Lemma length_upd {A} (l : list A) c v : length (upd c v l) = length l.
Proof. revert c; induction l as [|b l IH]; intros [|c]; simpl; auto. Qed.
Lemma Forall_upd {A} (P : A -> Prop) l c v : Forall P l -> P v -> Forall P (upd c v l).
Proof.
  revert c; induction l as [|b l IH]; intros [|c] Hl Hv; simpl; auto; inversion Hl; subst; constructor; auto.
Qed.
Lemma sum_of_upd {A} (f : A -> nat) l c a v :
  nth_error l c = Some a -> sum_of f (upd c v l) + f a = sum_of f l + f v.
Proof.
  revert c; induction l as [|b l IH]; intros [|c]; simpl; try discriminate.
  - intros [= ->]. lia.
  - intros H. specialize (IH _ H). unfold sum_of in *. simpl. lia.
Qed.
Lemma Forall_nth {A} (P : A -> Prop) l c a : Forall P l -> nth_error l c = Some a -> P a.
Proof. intros H E. rewrite Forall_forall in H. apply H. eapply nth_error_In; eauto. Qed.

(* owner callbacks: made, then optionally auth, then lost *)
Inductive ost := O0 | OM | OA | OL | OBad.
Definition ostep (o : ost) (e : ocb) : ost :=
  match o, e with
  | O0, OMade => OM
  | OM, OAuth => OA
  | OM, OLost _ => OL
  | OA, OLost _ => OL
  | _, _ => OBad
  end.
Definition ostate (l : list ocb) : ost := fold_left ostep l O0.
Lemma ostate_snoc l e : ostate (l ++ [e]) = ostep (ostate l) e.
Proof. unfold ostate. rewrite fold_left_app. reflexivity. Qed.

(* the connection invariant; qx / tx are "excuses" used while a popped callback is running: the
   create() wake-up of channel qx resp. the connection cleanup has just been taken off the queue *)
Record INVx (qx : option nat) (tx : bool) (s : conn) : Prop := mkINV {
  iv_ch : Forall cinv (chans s);
  iv_q : forall c ch, nth_error (chans s) c = Some ch -> pc_queued (pc ch) = true ->
         In (KCreate c) (ready s) \/ qx = Some c;
  iv_tr : transport s = false -> closed s = true \/ (exists e, In (KConnCleanup e) (ready s)) \/ tx = true;
  iv_cl : closed s = true ->
          transport s = false /\ glob_w s = 0 /\ cclosed_w s = 0 /\ connect_w s = false /\
          Forall (fun ch => reg ch = false) (chans s);
  iv_own : owner_live s = negb (closed s) /\
           ostate (olog s) = (if owner_live s then (if connect_w s then OM else OA) else OL);
  iv_kc : (forall e, In (KConnCleanup e) (ready s) -> transport s = false) /\ (tx = true -> transport s = false);
  iv_nm : Forall (fun ch => pc ch <> CMade) (chans s)      (* CMade only exists inside one run of create() *)
}.
Definition INV := INVx None false.

(* what on_chan does to the connection *)
Lemma on_chan_none s c f : nth_error (chans s) c = None -> on_chan c f s = s.
Proof. unfold on_chan. intros ->. reflexivity. Qed.
Lemma on_chan_some s c ch f : nth_error (chans s) c = Some ch ->
  chans (on_chan c f s) = upd c (x_ch (f (cx0 ch))) (chans s) /\
  ready (on_chan c f s) = ready s ++ x_k (f (cx0 ch)) /\
  transport (on_chan c f s) = transport s /\ closed (on_chan c f s) = closed s /\
  rx_ok (on_chan c f s) = rx_ok s /\ glob_w (on_chan c f s) = glob_w s /\
  cclosed_w (on_chan c f s) = cclosed_w s /\ connect_w (on_chan c f s) = connect_w s /\
  owner_live (on_chan c f s) = owner_live s /\ olog (on_chan c f s) = olog s.
Proof.
  unfold on_chan, cx0. intros ->. destruct s. cbn. repeat split; reflexivity.
Qed.

(* a handler with contract gs, applied to channel c, keeps the connection invariant *)
Lemma on_chan_INV qx tx c f slack (pre : chan -> Prop) s :
  INVx qx tx s ->
  (forall ch, nth_error (chans s) c = Some ch -> cinv ch ->
     pre ch /\ gs c slack pre f (cx0 ch) /\
     (closed s = true -> reg (x_ch (f (cx0 ch))) = true -> reg ch = true) /\
     (pc ch <> CMade -> pc (x_ch (f (cx0 ch))) <> CMade)) ->
  INVx qx tx (on_chan c f s).
Proof.
  intros [Hch Hq Htr Hcl Hown Hkc Hnm] Hf.
  destruct (nth_error (chans s) c) as [ch|] eqn:E; [|rewrite on_chan_none; [constructor; auto | exact E]].
  destruct (on_chan_some s c ch f E) as (E1 & E2 & E3 & E4 & E5 & E6 & E7 & E8 & E9 & E10).
  pose proof (Forall_nth _ _ _ _ Hch E) as Hci.
  destruct (Hf ch eq_refl Hci) as (Hp & [I K] & Hr & Hm).
  destruct (K Hp) as (ks & Ek & _ & Kq & Kn). simpl in Ek.
  constructor; rewrite ?E1, ?E2, ?E3, ?E4, ?E6, ?E7, ?E8, ?E9, ?E10.
  - apply Forall_upd; auto.
  - intros c' ch' En Hqd.
    destruct (Nat.eq_dec c c') as [<-|Hne].
    + rewrite (nth_error_upd_eq _ _ _ _ E) in En. injection En as <-.
      destruct (Kq Hqd) as [Epc|Hin].
      * simpl in Epc. rewrite Epc in Hqd. destruct (Hq c ch E Hqd) as [?|?]; [left; apply in_or_app; left; auto | right; auto].
      * left. apply in_or_app. right. rewrite Ek. exact Hin.
    + rewrite nth_error_upd_ne in En by exact Hne.
      destruct (Hq c' ch' En Hqd) as [?|?]; [left; apply in_or_app; left; auto | right; auto].
  - intros Ht. destruct (Htr Ht) as [?|[[e He]|?]]; auto. right; left; exists e; apply in_or_app; left; exact He.
  - intros Hc. destruct (Hcl Hc) as (A1 & A2 & A3 & A4 & A5). repeat split; auto.
    apply Forall_upd; auto.
    destruct (reg (x_ch (f (cx0 ch)))) eqn:Er; [|reflexivity].
    specialize (Hr Hc eq_refl). pose proof (Forall_nth _ _ _ _ A5 E) as Hfalse. simpl in Hfalse. congruence.
  - exact Hown.
  - destruct Hkc as [Hk1 Hk2]. split; [|exact Hk2]. intros e He. apply in_app_or in He as [He|He]; [eauto|].
    rewrite Ek in He. rewrite forallb_forall in Kn. specialize (Kn _ He). discriminate.
  - apply Forall_upd; auto. apply Hm. apply (Forall_nth _ _ _ _ Hnm E).
Qed.

(* the same for a handler that leaves the create() program counter alone *)
Lemma on_chan_INV_m qx tx c f n (pre : chan -> Prop) s :
  INVx qx tx s ->
  (forall ch, nth_error (chans s) c = Some ch -> cinv ch -> pre ch) ->
  (forall x, gsm n pre f x) ->
  INVx qx tx (on_chan c f s).
Proof.
  intros Hi Hp Hg. apply (on_chan_INV qx tx c f n pre s Hi).
  intros ch E Hc. split; [apply Hp; auto|]. split; [apply gsm_gs; apply Hg|].
  destruct (Hg (cx0 ch)) as [_ K]. destruct (K (Hp ch E Hc)) as (ks & _ & Epc & _ & R & _).
  split; [intros _ Hr; apply R; exact Hr | simpl in Epc; rewrite Epc; auto].
Qed.

Lemma on_chan_pot c f slack (pre : chan -> Prop) s ch :
  nth_error (chans s) c = Some ch -> pre ch -> gs c slack pre f (cx0 ch) ->
  pot (on_chan c f s) <= pot s + slack.
Proof.
  intros E Hp [_ K]. destruct (on_chan_some s c ch f E) as (E1 & E2 & _).
  destruct (K Hp) as (ks & Ek & Kp & _ & _). simpl in Ek, Kp.
  unfold pot. rewrite E1, E2, sum_of_app, Ek.
  pose proof (sum_of_upd (fun ch => pc_pot (pc ch)) (chans s) c ch (x_ch (f (cx0 ch))) E) as Hs. simpl in Hs. lia.
Qed.

(* ------------------------------------------------------------ simple field updates *)
Lemma INVx_ext qx tx s s' :
  chans s' = chans s -> transport s' = transport s -> closed s' = closed s -> glob_w s' = glob_w s ->
  cclosed_w s' = cclosed_w s -> connect_w s' = connect_w s -> owner_live s' = owner_live s ->
  olog s' = olog s -> ready s' = ready s ->
  INVx qx tx s -> INVx qx tx s'.
Proof.
  intros E1 E2 E3 E4 E5 E6 E7 E8 Hr [Hch Hq Htr Hcl Hown Hkc Hnm].
  constructor; rewrite ?E1, ?E2, ?E3, ?E4, ?E5, ?E6, ?E7, ?E8, ?Hr; auto.
Qed.

Lemma INV_emit qx tx p s : INVx qx tx s -> INVx qx tx (emit p s).
Proof. unfold emit. destruct (transport s) eqn:Et; auto. apply INVx_ext; destruct s; auto. Qed.
Lemma INV_add_done qx tx d s : INVx qx tx s -> INVx qx tx (add_done d s).
Proof. apply INVx_ext; destruct s; auto. Qed.
Lemma INV_set_rx_ok qx tx b s : INVx qx tx s -> INVx qx tx (set_rx_ok b s).
Proof. apply INVx_ext; destruct s; auto. Qed.

Lemma INV_force_close qx tx e s : INVx qx tx s -> INVx qx tx (force_close e s).
Proof.
  unfold force_close. destruct (transport s) eqn:Et; auto.
  intros [Hch Hq Htr Hcl Hown Hkc Hnm]. destruct s; cbn in *. constructor; cbn; auto.
  - intros c ch En Hqd. destruct (Hq c ch En Hqd); auto. left. apply in_or_app; auto.
  - intros _. right; left. exists e. apply in_or_app; right; left; reflexivity.
  - intros Hc. destruct (Hcl Hc) as (A & _). congruence.
Qed.
Lemma INV_proto_err qx tx s : INVx qx tx s -> INVx qx tx (proto_err s).
Proof. intros H. unfold proto_err. apply INV_force_close, INV_emit, H. Qed.

(* ------------------------------------------------------------ every registered channel *)
Lemma on_chan_chans_len s c f : length (chans (on_chan c f s)) = length (chans s).
Proof.
  destruct (nth_error (chans s) c) as [ch|] eqn:E.
  - destruct (on_chan_some s c ch f E) as (-> & _). apply length_upd.
  - rewrite on_chan_none; auto.
Qed.

Lemma on_regs_from_INV qx tx (f : nat -> cx -> cx) n (pre : chan -> Prop) :
  (forall c x, gsm n ptrue (f c) x) ->
  forall fuel i s, INVx qx tx s -> INVx qx tx (on_regs_from f i fuel s).
Proof.
  intros Hg. induction fuel as [|k IH]; intros i s Hi; simpl; auto.
  apply IH. destruct (nth_error (chans s) i) as [ch|] eqn:E; auto.
  destruct (reg ch); auto.
  apply (on_chan_INV_m qx tx i (f i) n ptrue); auto. intros; exact I.
Qed.

Lemma on_regs_from_INV_gs qx tx (f : nat -> cx -> cx) :
  (forall c x, gs c 0 ptrue (f c) x) ->
  (forall c x, reg (x_ch (f c x)) = true -> reg (x_ch x) = true) ->
  (forall c x, pc (x_ch x) <> CMade -> pc (x_ch (f c x)) <> CMade) ->
  forall fuel i s, INVx qx tx s -> INVx qx tx (on_regs_from f i fuel s).
Proof.
  intros Hg Hr Hm. induction fuel as [|k IH]; intros i s Hi; simpl; auto.
  apply IH. destruct (nth_error (chans s) i) as [ch|] eqn:E; auto.
  destruct (reg ch); auto.
  apply (on_chan_INV qx tx i (f i) 0 ptrue); auto. intros ch' E' Hc. split; [exact I|]. split; [apply Hg|].
  split; [intros _ H; apply (Hr i (cx0 ch') H) | apply (Hm i (cx0 ch'))].
Qed.

(* ------------------------------------------------------------ registration never switched on by a handler *)
Lemma chan_cleanup_reg c e x : reg (x_ch (chan_cleanup c e x)) = false.
Proof.
  unfold chan_cleanup. rewrite force_eq. unfold cleanup4. rewrite force_eq.
  destruct (reg (x_ch (cleanup3 c (cleanup2 c e (cleanup1 c e x))))) eqn:E; [|exact E].
  destruct (cleanup3 c (cleanup2 c e (cleanup1 c e x))) as [ch k p d]. destruct ch. reflexivity.
Qed.
Lemma conn_close_chan_reg c e x : reg (x_ch (conn_close_chan c e x)) = false.
Proof. unfold conn_close_chan. rewrite force_eq. apply chan_cleanup_reg. Qed.
Lemma chan_confirm_reg c x : reg (x_ch (chan_confirm c x)) = reg (x_ch x).
Proof. unfold chan_confirm. rewrite force_eq. destruct x as [ch k p d]; destruct ch; reflexivity. Qed.
Lemma chan_fail_reg c x : reg (x_ch (chan_fail c x)) = reg (x_ch x).
Proof. unfold chan_fail. rewrite force_eq. destruct x as [ch k p d]; destruct ch; reflexivity. Qed.
Lemma chan_reply_reg c ok x : reg (x_ch (chan_reply c ok x)) = reg (x_ch x).
Proof.
  unfold chan_reply. rewrite force_eq. destruct x as [ch k p d]; destruct ch. cbn.
  destruct pc; reflexivity.
Qed.
Lemma create_done_reg c r x : reg (x_ch (create_done c r x)) = reg (x_ch x).
Proof. unfold create_done. rewrite force_eq. destruct x as [ch k p d]; destruct ch; reflexivity. Qed.
Lemma req_false_reg c x : reg (x_ch (req_false c x)) = true -> reg (x_ch x) = true.
Proof.
  unfold req_false. rewrite create_done_reg. destruct (chan_close_spec c x) as [_ K].
  destruct (K I) as (ks & _ & _ & _ & R & _). exact R.
Qed.
Lemma make_request_reg c st x : reg (x_ch (make_request c st x)) = true -> reg (x_ch x) = true.
Proof.
  unfold make_request. rewrite force_eq. destruct (schan (x_ch x)) eqn:Es; [|apply req_false_reg].
  unfold req_sent. rewrite force_eq. destruct x as [ch k p d]; destruct ch; cbn in *. rewrite Es. cbn. auto.
Qed.
Lemma create_step_reg c x : reg (x_ch (create_step c false x)) = true -> reg (x_ch x) = true.
Proof.
  unfold create_step, create_step_gen. rewrite force_eq. cbn [andb].
  destruct (pc (x_ch x)) as [| | |r| |st|st r|r]; auto.
  - unfold create_start. rewrite force_eq, create_done_reg. auto.
  - destruct r; try (rewrite create_done_reg; auto; fail).
    destruct (negb (reg (x_ch x))) eqn:Er; [rewrite create_done_reg; auto|].
    intros _. apply Bool.negb_false_iff in Er. exact Er.
  - destruct st, r; try (rewrite create_done_reg; auto; fail); try apply req_false_reg; try apply make_request_reg.
    destruct (se (x_ch x)); try (rewrite create_done_reg; auto; fail).
    unfold sess_started. rewrite force_eq.
    destruct x as [ch k p d]; destruct ch. cbn. auto.
Qed.

(* ------------------------------------------------------------ CMade never survives a handler *)
Lemma pc_upc_eq f x : (forall ch, pc (f ch) = pc ch) -> pc (x_ch (upc f x)) = pc (x_ch x).
Proof. intros H. destruct x as [ch k p d]. apply H. Qed.
Lemma cleanup_tail_pc c e y : pc (x_ch (cleanup4 (cleanup3 c (cleanup2 c e y)))) = pc (x_ch y).
Proof.
  assert (H2 : pc (x_ch (cleanup2 c e y)) = pc (x_ch y)).
  { destruct y as [ch k p d]; destruct ch. dmv; reflexivity. }
  rewrite <- H2. generalize (cleanup2 c e y). intros z.
  destruct z as [ch k p d]; destruct ch. dmv; reflexivity.
Qed.
Lemma chan_cleanup_nm c e x : pc (x_ch x) <> CMade -> pc (x_ch (chan_cleanup c e x)) <> CMade.
Proof.
  intros H. unfold chan_cleanup. rewrite force_eq, cleanup_tail_pc.
  unfold cleanup1. rewrite force_eq. destruct x as [ch k p d]; destruct ch; cbn in *.
  destruct pc; cbn; auto; discriminate.
Qed.
Lemma conn_close_chan_nm c e x : pc (x_ch x) <> CMade -> pc (x_ch (conn_close_chan c e x)) <> CMade.
Proof.
  intros H. unfold conn_close_chan. rewrite force_eq. apply chan_cleanup_nm.
  destruct (close_send_spec c (upc (set_ss SClosed) x)) as [_ K]. destruct (K I) as (ks & _ & E & _).
  rewrite E. rewrite pc_upc_eq; [exact H|]. intros ch; destruct ch; reflexivity.
Qed.
Lemma chan_confirm_nm c x : pc (x_ch (chan_confirm c x)) <> CMade.
Proof. unfold chan_confirm. rewrite force_eq. destruct x as [ch k p d]; destruct ch; cbn. discriminate. Qed.
Lemma chan_fail_nm c x : pc (x_ch (chan_fail c x)) <> CMade.
Proof. unfold chan_fail. rewrite force_eq. destruct x as [ch k p d]; destruct ch; cbn. discriminate. Qed.
Lemma chan_reply_nm c ok x : pc (x_ch x) <> CMade -> pc (x_ch (chan_reply c ok x)) <> CMade.
Proof.
  unfold chan_reply. rewrite force_eq. destruct x as [ch k p d]; destruct ch; cbn.
  destruct pc; cbn; auto; discriminate.
Qed.
Lemma create_step_nm c tr x : pc (x_ch x) <> CMade -> pc (x_ch (create_step c tr x)) <> CMade.
Proof.
  intros Hx.
  assert (Hd : forall r y, pc (x_ch (create_done c r y)) = CDone r)
    by (intros r y; unfold create_done; rewrite force_eq; destruct y as [ch k p d]; reflexivity).
  assert (Hrf : forall y, pc (x_ch (req_false c y)) = CDone WErr) by (intros y; unfold req_false; apply Hd).
  assert (Hmr : forall st y, pc (x_ch (make_request c st y)) <> CMade).
  { intros st y. unfold make_request. rewrite force_eq. destruct (schan (x_ch y)).
    - unfold req_sent. rewrite force_eq. destruct (csend (KtReq c st) y) as [ch k p d]. discriminate.
    - rewrite Hrf. discriminate. }
  unfold create_step, create_step_gen; rewrite !force_eq; cbn [andb].
  destruct (pc (x_ch x)) as [| | |r| |st|st r|r] eqn:Epc; try (rewrite Epc; discriminate); try congruence.
  - unfold create_start. rewrite force_eq. destruct tr; [destruct x as [ch k p d]; discriminate | rewrite Hd; discriminate].
  - destruct r; try (rewrite Hd; discriminate). destruct (negb (reg (x_ch x))); [rewrite Hd; discriminate | apply Hmr].
  - destruct st, r; try (rewrite Hd; discriminate); try (rewrite Hrf; discriminate); try apply Hmr.
    destruct (se (x_ch x)); try (rewrite Hd; discriminate).
    unfold sess_started. rewrite force_eq.
    destruct (create_done c WOk (upc (fun ch : chan => set_handle true (addlog CbStarted ch)) x)) as [ch k p d] eqn:E.
    assert (pc ch = CDone WOk) by (change ch with (x_ch (mkCx ch k p d)); rewrite <- E; apply Hd).
    cbn. rewrite H. discriminate.
Qed.

(* ------------------------------------------------------------ packets *)
Lemma INV_rx qx tx f s :
  (forall s, INVx qx tx s -> INVx qx tx (f s)) -> INVx qx tx s -> INVx qx tx (rx f s).
Proof.
  intros Hf Hi. unfold rx. destruct (transport s); [apply Hf; exact Hi|].
  destruct (rx_ok s); [apply Hf, INV_set_rx_ok, Hi | exact Hi].
Qed.
Lemma INV_chan_pkt_m qx tx c guard f n (pre : chan -> Prop) s :
  (forall ch, guard ch = true -> reg ch = true -> pre ch) -> (forall x, gsm n pre f x) ->
  INVx qx tx s -> INVx qx tx (chan_pkt c guard f s).
Proof.
  intros Hp Hg Hi. unfold chan_pkt. destruct (nth_error (chans s) c) as [ch|] eqn:E; [|apply INV_proto_err, Hi].
  destruct (reg ch && guard ch) eqn:Eg; [|apply INV_proto_err, Hi].
  apply andb_true_iff in Eg as [Er Eg].
  apply (on_chan_INV_m qx tx c f n pre); auto. intros ch' E' _. rewrite E in E'. injection E' as <-. auto.
Qed.
Lemma INV_chan_pkt_gs qx tx c guard f n (pre : chan -> Prop) s :
  (forall ch, guard ch = true -> reg ch = true -> pre ch) -> (forall x, gs c n pre f x) ->
  (forall x, reg (x_ch (f x)) = reg (x_ch x)) ->
  (forall x, pc (x_ch x) <> CMade -> pc (x_ch (f x)) <> CMade) ->
  INVx qx tx s -> INVx qx tx (chan_pkt c guard f s).
Proof.
  intros Hp Hg Hr Hm Hi. unfold chan_pkt. destruct (nth_error (chans s) c) as [ch|] eqn:E; [|apply INV_proto_err, Hi].
  destruct (reg ch && guard ch) eqn:Eg; [|apply INV_proto_err, Hi].
  apply andb_true_iff in Eg as [Er Eg].
  apply (on_chan_INV qx tx c f n pre); auto. intros ch' E' _. rewrite E in E'. injection E' as <-.
  split; [auto|]. split; [apply Hg|]. split; [intros _; rewrite Hr; auto | apply (Hm (cx0 ch))].
Qed.

(* ------------------------------------------------------------ a new channel *)
Lemma cinv_new_client p k : cinv (new_chan CStart p k false false).
Proof. constructor; cbn; intros; try discriminate; try congruence; auto. Qed.
Lemma cinv_new_server k : cinv (new_chan CNone false k true true).
Proof. constructor; cbn; intros; try discriminate; try congruence; auto. Qed.

Lemma INV_new_chan qx tx nc K s :
  cinv nc -> (pc_queued (pc nc) = true -> K = KCreate (length (chans s))) -> not_kc K = true ->
  pc nc <> CMade -> (closed s = true -> reg nc = false) ->
  INVx qx tx s -> INVx qx tx (set_ready (ready s ++ [K]) (set_chans (chans s ++ [nc]) s)).
Proof.
  intros Hc Hk Hnk Hnm0 Hr [Hch Hq Htr Hcl Hown [Hk1 Hk2] Hnm]. destruct s; cbn in *. constructor; cbn; auto.
  - apply Forall_app; split; auto.
  - intros c ch En Hqd. destruct (Nat.lt_ge_cases c (length chans)) as [Hlt|Hge].
    + rewrite nth_error_app1 in En by exact Hlt. destruct (Hq c ch En Hqd); auto. left; apply in_or_app; auto.
    + rewrite nth_error_app2 in En by exact Hge. destruct (c - length chans) as [|m] eqn:Em.
      * cbn in En. injection En as <-. left. apply in_or_app. right. left. rewrite (Hk Hqd). f_equal. lia.
      * cbn in En. destruct m; discriminate.
  - intros Ht. destruct (Htr Ht) as [?|[[e He]|?]]; auto. right; left; exists e; apply in_or_app; auto.
  - intros Hc'. destruct (Hcl Hc') as (A1 & A2 & A3 & A4 & A5). repeat split; auto.
    apply Forall_app; split; auto.
  - split; auto. intros e He. apply in_app_or in He as [He|[He|[]]]; eauto. subst K. discriminate.
  - apply Forall_app; split; auto.
Qed.

(* ------------------------------------------------------------ SSHConnection._cleanup *)
Definition same_conn_fields (s s' : conn) : Prop :=
  transport s' = transport s /\ closed s' = closed s /\ rx_ok s' = rx_ok s /\ glob_w s' = glob_w s /\
  cclosed_w s' = cclosed_w s /\ connect_w s' = connect_w s /\ owner_live s' = owner_live s /\ olog s' = olog s /\
  length (chans s') = length (chans s).
Lemma on_chan_fields c f s : same_conn_fields s (on_chan c f s).
Proof.
  destruct (nth_error (chans s) c) as [ch|] eqn:E.
  - destruct (on_chan_some s c ch f E) as (E1 & E2 & E3 & E4 & E5 & E6 & E7 & E8 & E9 & E10).
    repeat split; auto. rewrite E1. apply length_upd.
  - rewrite on_chan_none by exact E. repeat split; reflexivity.
Qed.
Lemma same_conn_fields_trans a b c : same_conn_fields a b -> same_conn_fields b c -> same_conn_fields a c.
Proof. unfold same_conn_fields. intuition congruence. Qed.
Lemma on_regs_from_fields f fuel : forall i s, same_conn_fields s (on_regs_from f i fuel s).
Proof.
  induction fuel as [|k IH]; intros i s; simpl; [repeat split; reflexivity|].
  eapply same_conn_fields_trans; [|apply IH].
  destruct (nth_error (chans s) i) as [ch|]; [destruct (reg ch)|]; try (repeat split; reflexivity).
  apply on_chan_fields.
Qed.

Lemma on_regs_from_unreg (f : nat -> cx -> cx) :
  (forall c x, reg (x_ch (f c x)) = false) ->
  forall fuel i s,
    (forall j ch, j < i -> nth_error (chans s) j = Some ch -> reg ch = false) ->
    i + fuel = length (chans s) ->
    Forall (fun ch => reg ch = false) (chans (on_regs_from f i fuel s)).
Proof.
  intros Hf. induction fuel as [|k IH]; intros i s Hlow Hlen; simpl.
  - apply Forall_forall. intros ch Hin. destruct (In_nth_error _ _ Hin) as [j Hj].
    apply (Hlow j ch); auto. assert (j < length (chans s)) by (apply nth_error_Some; congruence). lia.
  - apply IH.
    + intros j ch Hj En.
      destruct (nth_error (chans s) i) as [chi|] eqn:Ei.
      * destruct (reg chi) eqn:Er.
        -- destruct (on_chan_some s i chi (f i) Ei) as (E1 & _). rewrite E1 in En.
           destruct (Nat.eq_dec i j) as [<-|Hne].
           ++ rewrite (nth_error_upd_eq _ _ _ _ Ei) in En. injection En as <-. apply Hf.
           ++ rewrite nth_error_upd_ne in En by exact Hne. apply (Hlow j ch); auto. lia.
        -- destruct (Nat.eq_dec i j) as [<-|Hne]; [congruence | apply (Hlow j ch); auto; lia].
      * destruct (Nat.eq_dec i j) as [<-|Hne]; [congruence | apply (Hlow j ch); auto; lia].
    + destruct (nth_error (chans s) i) as [chi|] eqn:Ei; [destruct (reg chi)|]; try lia.
      rewrite on_chan_chans_len. lia.
Qed.

Lemma INV_conn_cleanup qx tx e s : INVx qx tx s -> transport s = false -> INVx qx false (conn_cleanup e s).
Proof.
  intros Hi Ht. unfold conn_cleanup, on_regs.
  set (s1 := on_regs_from (fun c => conn_close_chan c e) 0 (length (chans s)) s).
  assert (Hi1 : INVx qx tx s1).
  { apply on_regs_from_INV_gs; auto.
    - intros c x. apply conn_close_chan_spec.
    - intros c x. rewrite conn_close_chan_reg. discriminate.
    - intros c x. apply conn_close_chan_nm. }
  assert (Hun : Forall (fun ch => reg ch = false) (chans s1)).
  { apply on_regs_from_unreg; auto. intros; apply conn_close_chan_reg. intros j ch Hj; lia. }
  destruct (on_regs_from_fields (fun c => conn_close_chan c e) (length (chans s)) 0 s)
    as (F1 & F2 & F3 & F4 & F5 & F6 & F7 & F8 & F9). fold s1 in F1, F2, F3, F4, F5, F6, F7, F8, F9.
  destruct Hi1 as [Hch Hq Htr Hcl [Ho1 Ho2] [Hk1 Hk2] Hnm].
  destruct s1 as [chs tr rxo cl gw cw cnw ol olg rdy ot dn]; cbn in *. subst tr.
  unfold add_done; cbn.
  destruct cnw; destruct ol; cbn; constructor; cbn; auto; try (intros; repeat split; auto; fail);
    try (split; [reflexivity | rewrite ?ostate_snoc, ?Ho2; reflexivity]).
  all: try (intros c ch En Hqd; destruct (Hq c ch En Hqd); auto).
  all: try (split; [reflexivity|]; destruct cl; cbn in Ho1; try discriminate; exact Ho2).
  all: split; [reflexivity | rewrite fold_left_app; cbn; rewrite Ho2; reflexivity].
Qed.

(* ------------------------------------------------------------ one ready callback *)
Definition qx_of (k : kont) : option nat := match k with KCreate c => Some c | _ => None end.
Definition tx_of (k : kont) : bool := match k with KConnCleanup _ => true | _ => false end.

Lemma INV_pop k r s : INV s -> ready s = k :: r -> INVx (qx_of k) (tx_of k) (set_ready r s).
Proof.
  intros [Hch Hq Htr Hcl Hown [Hk1 Hk2] Hnm] Hr. destruct s; cbn in *. subst ready.
  constructor; cbn; auto.
  - intros c ch En Hqd. destruct (Hq c ch En Hqd) as [[E|Hin]|?]; auto; try discriminate. subst k. right; reflexivity.
  - intros Ht. destruct (Htr Ht) as [?|[[e [E|He]]|?]]; auto.
    + subst k. right; right; reflexivity.
    + right; left; exists e; exact He.
    + discriminate.
  - split; [intros e He; apply (Hk1 e); right; exact He|].
    destruct k; cbn; try discriminate. intros _. apply (Hk1 e). left; reflexivity.
Qed.

Lemma INVx_unq c tx s :
  INVx (Some c) tx s -> (forall ch, nth_error (chans s) c = Some ch -> pc_queued (pc ch) = false) -> INVx None tx s.
Proof.
  intros [Hch Hq Htr Hcl Hown Hkc Hnm] Hu. constructor; auto.
  intros c' ch En Hqd. destruct (Hq c' ch En Hqd) as [?|E]; auto. injection E as <-. rewrite (Hu ch En) in Hqd. discriminate.
Qed.

Lemma INV_run_kont k r s : INV s -> ready s = k :: r -> INV (run_kont k (set_ready r s)).
Proof.
  intros Hi Hr. pose proof (INV_pop k r s Hi Hr) as Hp. unfold run_kont, run_kont_gen.
  destruct k as [e|c e|c|c|c]; cbn [qx_of tx_of] in Hp.
  - apply INV_conn_cleanup with (tx := true); auto. destruct Hp as [_ _ _ _ _ [_ H] _]. apply H; reflexivity.
  - apply (on_chan_INV None false c (chan_cleanup c e) 0 ptrue); auto.
    intros ch _ _. split; [exact I|]. split; [apply chan_cleanup_spec|].
    split; [intros _; rewrite chan_cleanup_reg; discriminate | apply (chan_cleanup_nm c e (cx0 ch))].
  - assert (Ht : transport (set_ready r s) = transport s) by (destruct s; reflexivity).
    apply INVx_unq with (c := c).
    + apply (on_chan_INV (Some c) false c _ 0 ptrue); auto.
      intros ch _ _. split; [exact I|]. split; [apply create_step_spec|].
      split; [|apply (create_step_nm c _ (cx0 ch))].
      intros Hc. destruct Hp as [_ _ _ Hcl _ _ _]. destruct (Hcl Hc) as (Hf & _). rewrite Hf. apply create_step_reg.
    + intros ch En.
      destruct (nth_error (chans (set_ready r s)) c) as [ch0|] eqn:E0.
      * destruct (on_chan_some _ c ch0 (create_step c (transport (set_ready r s))) E0) as (E1 & _).
        fold (create_step c (transport (set_ready r s))) in En. rewrite E1 in En.
        rewrite (nth_error_upd_eq _ _ _ _ E0) in En.
        assert (Hch : ch = x_ch (create_step c (transport (set_ready r s)) (cx0 ch0))) by congruence.
        rewrite Hch. apply create_step_unq.
      * fold (create_step c (transport (set_ready r s))) in En. rewrite on_chan_none in En by exact E0. congruence.
  - apply (on_chan_INV_m None false c (start_reading c) 1 ptrue); auto; [intros; exact I | intros; apply start_reading_spec].
  - apply (on_chan_INV_m None false c (finish_open c) 1 ptrue); auto; [intros; exact I | intros; apply finish_open_spec].
Qed.

Lemma INV_run_ready s : INV s -> INV (run_ready s).
Proof.
  intros Hi. unfold run_ready, run_ready_gen. destruct (ready s) as [|k r] eqn:Hr; auto.
  apply INV_run_kont; auto.
Qed.
Lemma INV_drain n s : INV s -> INV (drain n s).
Proof. revert s; induction n as [|n IH]; intros s Hi; [exact Hi|]. change (INV (drain n (run_ready s))). apply IH, INV_run_ready, Hi. Qed.

(* ------------------------------------------------------------ every op keeps the invariant *)
Lemma INV_on_regs_m (f : nat -> cx -> cx) n s :
  (forall c x, gsm n ptrue (f c) x) -> INV s -> INV (on_regs f s).
Proof. intros Hg Hi. unfold on_regs. apply (on_regs_from_INV None false f n ptrue); auto. Qed.

Lemma INV_init : INV init.
Proof.
  constructor; cbn; auto; try discriminate.
  - intros c ch En. destruct c; discriminate.
  - split; [intros e []| discriminate].
Qed.

Lemma INV_step s o : INV s -> INV (step s o).
Proof.
  intros Hi. unfold step, step_gen. destruct o.
  - (* LOpen *)
    apply INV_new_chan; auto; [apply cinv_new_client | discriminate].
  - apply (on_chan_INV_m None false c (write_eof c) 0 ptrue); auto; [intros; exact I | intros; apply write_eof_spec].
  - apply (on_chan_INV_m None false c (chan_close c) 1 ptrue); auto; [intros; exact I | intros; apply chan_close_spec].
  - apply (on_chan_INV_m None false c (chan_abort c) 1 ptrue); auto; [intros; exact I | intros; apply chan_abort_spec].
  - apply (on_chan_INV_m None false c (chan_write c cls) 0 ptrue); auto; [intros; exact I | intros; apply chan_write_spec].
  - apply (on_chan_INV_m None false c chan_pause 0 ptrue); auto; [intros; exact I | intros; apply chan_pause_spec].
  - apply (on_chan_INV_m None false c (chan_resume c) 1 ptrue); auto; [intros; exact I | intros; apply chan_resume_spec].
  - apply (on_chan_INV_m None false c (chan_wait_closed c) 0 ptrue); auto; [intros; exact I | intros; apply chan_wait_closed_spec].
  - apply (on_chan_INV_m None false c (chan_read c) 0 ptrue); auto; [intros; exact I | intros; apply chan_read_spec].
  - apply (on_chan_INV_m None false c (chan_drain c) 0 ptrue); auto; [intros; exact I | intros; apply chan_drain_spec].
  - (* LGlobal *)
    destruct (transport s) eqn:Et; [|apply INV_add_done, Hi].
    apply INV_emit. destruct Hi as [Hch Hq Htr Hcl Hown Hkc Hnm]. destruct s; cbn in *. constructor; cbn; auto.
    intros Hc. destruct (Hcl Hc) as (A & _). congruence.
  - (* LConnClose *)
    apply INV_force_close, INV_emit. apply (INV_on_regs_m chan_close 1); auto. intros; apply chan_close_spec.
  - apply INV_force_close, Hi.
  - (* LConnWaitClosed *)
    destruct (closed s) eqn:Ec; [apply INV_add_done, Hi|].
    destruct Hi as [Hch Hq Htr Hcl Hown Hkc Hnm]. destruct s; cbn in *. constructor; cbn; auto.
    intros Hc. congruence.
  - (* PIgnore *) apply INV_rx; auto.
  - apply INV_rx; auto. intros s0 H0.
    apply (INV_chan_pkt_gs None false c is_open_wait (chan_confirm c) 0 (fun ch => is_open_wait ch = true /\ reg ch = true)); auto.
    + intros; apply chan_confirm_spec. + intros; apply chan_confirm_reg. + intros x _; apply chan_confirm_nm.
  - apply INV_rx; auto. intros s0 H0.
    apply (INV_chan_pkt_gs None false c is_open_wait (chan_fail c) 1 (fun ch => is_open_wait ch = true /\ reg ch = true)); auto.
    + intros; apply chan_fail_spec. + intros; apply chan_fail_reg. + intros x _; apply chan_fail_nm.
  - apply INV_rx; auto. intros s0 H0.
    apply (INV_chan_pkt_m None false c rs_open (chan_data c) 0 (fun ch => rs ch = ROpen)); auto.
    + intros ch Hg _. unfold rs_open in Hg. destruct (rs ch); congruence. + intros; apply chan_data_spec.
  - apply INV_rx; auto. intros s0 H0.
    apply (INV_chan_pkt_m None false c rs_open (chan_peof c) 1 (fun ch => rs ch = ROpen)); auto.
    + intros ch Hg _. unfold rs_open in Hg. destruct (rs ch); congruence. + intros; apply chan_peof_spec.
  - apply INV_rx; auto. intros s0 H0.
    apply (INV_chan_pkt_m None false c rs_openish_ch (chan_pclose c) 1 ptrue); auto.
    + intros; exact I. + intros; apply chan_pclose_spec.
  - apply INV_rx; auto. intros s0 H0.
    apply (INV_chan_pkt_m None false c rs_openish_ch (chan_adjust c cls) 0 ptrue); auto.
    + intros; exact I. + intros; apply chan_adjust_spec.
  - apply INV_rx; auto. intros s0 H0.
    apply (INV_chan_pkt_gs None false c is_req_wait (chan_reply c ok) 0 (fun ch => reg ch = true)); auto.
    + intros; apply chan_reply_spec. + intros; apply chan_reply_reg. + intros; apply chan_reply_nm; auto.
  - (* PGlobalReply *)
    apply INV_rx; auto. intros s0 H0. destruct (glob_w s0) as [|n] eqn:Eg; [apply INV_proto_err, H0|].
    apply INV_add_done. destruct H0 as [Hch Hq Htr Hcl Hown Hkc Hnm]. destruct s0; cbn in *. constructor; cbn; auto.
    intros Hc. destruct (Hcl Hc) as (_ & A & _). congruence.
  - (* PDisconnect *) apply INV_rx; auto. intros s0 H0. apply INV_force_close, H0.
  - (* POpen *)
    apply INV_rx; auto. intros s0 H0. destruct (accept && transport s0) eqn:Ea; [|apply INV_emit, H0].
    apply andb_true_iff in Ea as [_ Et].
    apply INV_new_chan; auto; [apply cinv_new_server | discriminate | discriminate |].
    intros Hc. destruct H0 as [_ _ _ Hcl _ _ _]. destruct (Hcl Hc) as (A & _). congruence.
  - apply INV_rx; auto. intros s0 H0.
    apply (INV_chan_pkt_m None false c rs_openish_ch (chan_request c final want accept) 1 ptrue); auto.
    + intros; exact I. + intros; apply chan_request_spec.
  - (* PBad *) apply INV_rx; auto. intros; apply INV_proto_err; auto.
  - (* PAuthOk *)
    apply INV_rx; auto. intros s0 H0. destruct (connect_w s0) eqn:Ecw; auto.
    destruct H0 as [Hch Hq Htr Hcl [Ho1 Ho2] Hkc Hnm]. unfold add_done. destruct s0; cbn in *. subst connect_w.
    constructor; cbn; auto.
    + intros Hc. destruct (Hcl Hc) as (_ & _ & _ & A & _). discriminate.
    + split; auto. unfold ostate in *. rewrite fold_left_app. cbn.
      destruct owner_live; [rewrite Ho2; reflexivity|].
      destruct closed; cbn in Ho1; try discriminate. destruct (Hcl eq_refl) as (_ & _ & _ & A & _). discriminate.
  - (* Cut *) apply INV_force_close, Hi.
  - apply INV_run_ready, Hi.
  - apply INV_drain, Hi.
Qed.

Lemma INV_run ops s : INV s -> INV (run ops s).
Proof. revert s; induction ops as [|o ops IH]; intros s Hi; simpl; auto. apply IH, INV_step, Hi. Qed.

(* ------------------------------------------------------------ the ready queue always empties *)
Lemma pot_ext s s' : chans s' = chans s -> ready s' = ready s -> pot s' = pot s.
Proof. unfold pot. intros -> ->. reflexivity. Qed.

Lemma on_chan_pot_any c f slack s :
  (forall x, gs c slack ptrue f x) -> pot (on_chan c f s) <= pot s + slack.
Proof.
  intros Hg. destruct (nth_error (chans s) c) as [ch|] eqn:E.
  - apply (on_chan_pot c f slack ptrue s ch E I (Hg (cx0 ch))).
  - rewrite on_chan_none by exact E. lia.
Qed.

Lemma pot_on_regs_from (f : nat -> cx -> cx) :
  (forall c x, gs c 0 ptrue (f c) x) -> forall fuel i s, pot (on_regs_from f i fuel s) <= pot s.
Proof.
  intros Hg. induction fuel as [|k IH]; intros i s; simpl; [lia|].
  eapply Nat.le_trans; [apply IH|].
  destruct (nth_error (chans s) i) as [ch|]; [destruct (reg ch)|]; try lia.
  pose proof (on_chan_pot_any i (f i) 0 s (Hg i)). lia.
Qed.

Lemma pot_conn_cleanup e s : pot (conn_cleanup e s) <= pot s.
Proof.
  unfold conn_cleanup, on_regs.
  set (s1 := on_regs_from (fun c => conn_close_chan c e) 0 (length (chans s)) s).
  assert (H1 : pot s1 <= pot s) by (apply pot_on_regs_from; intros; apply conn_close_chan_spec).
  eapply Nat.le_trans; [|exact H1]. apply Nat.eq_le_incl. apply pot_ext.
  - unfold add_done. destruct s1; cbn. destruct connect_w, owner_live; reflexivity.
  - unfold add_done. destruct s1; cbn. destruct connect_w, owner_live; reflexivity.
Qed.

Lemma pot_set_ready k r s : ready s = k :: r -> pot (set_ready r s) + kont_pot k = pot s.
Proof. intros Hr. unfold pot. destruct s; cbn in *. subst ready. unfold sum_of. cbn. lia. Qed.

Lemma pot_run_ready s : ready s <> [] -> pot (run_ready s) < pot s.
Proof.
  intros Hne. unfold run_ready, run_ready_gen. destruct (ready s) as [|k r] eqn:Hr; [congruence|].
  pose proof (pot_set_ready k r s Hr) as Hp. unfold run_kont_gen.
  destruct k as [e|c e|c|c|c]; cbn [kont_pot] in Hp.
  - pose proof (pot_conn_cleanup e (set_ready r s)). lia.
  - pose proof (on_chan_pot_any c (chan_cleanup c e) 0 (set_ready r s) (chan_cleanup_spec c e)). lia.
  - pose proof (on_chan_pot_any c (create_step c (transport (set_ready r s))) 0 (set_ready r s)
                  (create_step_spec c _)) as H. unfold create_step in H. lia.
  - pose proof (on_chan_pot_any c (start_reading c) 1 (set_ready r s) (fun x => gsm_gs c 1 ptrue _ x (start_reading_spec c x))). lia.
  - pose proof (on_chan_pot_any c (finish_open c) 1 (set_ready r s) (fun x => gsm_gs c 1 ptrue _ x (finish_open_spec c x))). lia.
Qed.

Lemma drain_S n s : drain (S n) s = drain n (run_ready s).
Proof. reflexivity. Qed.
Lemma run_ready_nil s : ready s = [] -> run_ready s = s.
Proof. intros Hr. unfold run_ready, run_ready_gen. rewrite Hr. reflexivity. Qed.
Lemma drain_nil n : forall s, ready s = [] -> drain n s = s.
Proof. induction n as [|n IH]; intros s Hr; [reflexivity|]. rewrite drain_S, run_ready_nil by exact Hr. apply IH, Hr. Qed.

Lemma drain_empty n : forall s, pot s <= n -> ready (drain n s) = [].
Proof.
  induction n as [|n IH]; intros s Hp.
  - cbn. destruct (ready s) as [|k r] eqn:Hr; auto. exfalso.
    unfold pot in Hp. rewrite Hr in Hp. unfold sum_of in Hp. cbn in Hp. destruct k; cbn in Hp; lia.
  - destruct (ready s) as [|k r] eqn:Hr.
    + rewrite drain_nil by exact Hr. exact Hr.
    + rewrite drain_S. apply IH. assert (H : ready s <> []) by congruence. pose proof (pot_run_ready s H). lia.
Qed.

Lemma settle_empty s : ready (step s Settle) = [].
Proof. unfold step, step_gen. apply (drain_empty (pot s) s). lia. Qed.

(* transport never comes back *)
Lemma on_regs_from_transport f fuel i s : transport (on_regs_from f i fuel s) = transport s.
Proof. destruct (on_regs_from_fields f fuel i s) as (E & _). exact E. Qed.
Lemma run_ready_transport s : transport s = false -> transport (run_ready s) = false.
Proof.
  intros Ht. unfold run_ready, run_ready_gen. destruct (ready s) as [|k r] eqn:Hr; auto.
  assert (Ht' : transport (set_ready r s) = false) by (destruct s; exact Ht).
  unfold run_kont_gen. destruct k as [e|c e|c|c|c];
    try (destruct (on_chan_fields c (chan_cleanup c e) (set_ready r s)) as (E & _); rewrite E; exact Ht');
    try (match goal with |- transport (on_chan ?c ?f ?s) = _ => destruct (on_chan_fields c f s) as (E & _); rewrite E; exact Ht' end).
  unfold conn_cleanup, on_regs.
  set (s1 := on_regs_from (fun c => conn_close_chan c e) 0 (length (chans (set_ready r s))) (set_ready r s)).
  assert (H1 : transport s1 = false) by (unfold s1; rewrite on_regs_from_transport; exact Ht').
  unfold add_done. destruct s1; cbn in *. destruct connect_w, owner_live; exact H1.
Qed.
Lemma drain_transport n s : transport s = false -> transport (drain n s) = false.
Proof. revert s; induction n as [|n IH]; intros s Ht; [exact Ht|]. rewrite drain_S. apply IH. apply run_ready_transport, Ht. Qed.

(* ================================================================== the theorems ===== *)
(* a channel with nothing left hanging: create_session finished (or the channel was opened by the
   peer), no reader / drainer / wait_closed() caller blocked *)
Definition chan_quiet (ch : chan) : Prop :=
  (pc ch = CNone \/ exists r, pc ch = CDone r) /\ st_rd ch = false /\ st_dr ch = 0 /\ closed_w ch = 0.
Definition all_resolved (s : conn) : Prop :=
  ready s = [] /\ closed s = true /\ glob_w s = 0 /\ cclosed_w s = 0 /\ connect_w s = false /\
  Forall chan_quiet (chans s).

Lemma quiet_of_closed s : INV s -> closed s = true -> ready s = [] -> all_resolved s.
Proof.
  intros [Hch Hq Htr Hcl Hown Hkc Hnm] Hc Hr. destruct (Hcl Hc) as (A1 & A2 & A3 & A4 & A5).
  repeat split; auto.
  apply Forall_forall. intros ch Hin. destruct (In_nth_error _ _ Hin) as [c En].
  pose proof (Forall_nth _ _ _ _ Hch En) as [H1 H2 H3 H4 H5 H6 H7 H8 H9 H10 H11 H12].
  pose proof (Forall_nth _ _ _ _ A5 En) as Hreg. simpl in Hreg.
  pose proof (Forall_nth _ _ _ _ Hnm En) as Hm. simpl in Hm.
  assert (Hnq : pc_queued (pc ch) = false).
  { destruct (pc_queued (pc ch)) eqn:E; auto. destruct (Hq c ch En E) as [Hi|Hi]; [rewrite Hr in Hi; destruct Hi | discriminate]. }
  specialize (H1 Hreg).
  assert (Hlive : se ch <> SLive) by (intros E; specialize (H6 E); congruence).
  repeat split.
  - destruct (pc ch); cbn in *; try discriminate; try congruence; eauto.
  - destruct (st_rd ch) eqn:E; auto. destruct (H3 eq_refl) as (E' & _). congruence.
  - destruct (Nat.eq_dec (st_dr ch) 0) as [E|Hne]; [exact E|]. destruct (H4 Hne) as (E' & _). congruence.
  - destruct (Nat.eq_dec (closed_w ch) 0) as [E|Hne]; [exact E|].
    specialize (H5 Hne). specialize (H7 H5 Hreg). specialize (H2 H7). exact H2.
Qed.

(* once the transport has been given up, running the ready queue to exhaustion resolves everything *)
Lemma resolved_after_loss ops :
  let s := run ops init in transport s = false -> all_resolved (step s Settle).
Proof.
  intros s Ht. unfold step, step_gen. fold (drain (pot s) s).
  assert (Hi : INV (drain (pot s) s)) by (apply INV_drain, INV_run, INV_init).
  assert (Hr : ready (drain (pot s) s) = []) by (apply drain_empty; lia).
  assert (Ht' : transport (drain (pot s) s) = false) by (apply drain_transport, Ht).
  apply quiet_of_closed; auto.
  destruct Hi as [_ _ Htr _ _ _ _]. destruct (Htr Ht') as [?|[[e He]|?]]; auto; [rewrite Hr in He; destruct He | discriminate].
Qed.

(* the ops that end the connection *)
Definition ends (o : op) : bool :=
  match o with Cut | LConnAbort | LConnClose | PDisconnect _ | PBad => true | _ => false end.
Lemma force_close_transport e s : transport (force_close e s) = false.
Proof. unfold force_close. destruct (transport s) eqn:E; [destruct s; reflexivity | exact E]. Qed.
Lemma ends_transport o s : ends o = true -> transport (step s o) = false.
Proof.
  destruct o; cbn; try discriminate; intros _; try apply force_close_transport.
  - unfold rx. destruct (transport s) eqn:E; [apply force_close_transport|].
    destruct (rx_ok s); [apply force_close_transport | exact E].
  - unfold rx. destruct (transport s) eqn:E; [apply force_close_transport|].
    destruct (rx_ok s); [apply force_close_transport | exact E].
Qed.
Lemma resolved ops o : ends o = true -> all_resolved (run (ops ++ [o; Settle]) init).
Proof.
  intros He. unfold run. rewrite fold_left_app. cbn [fold_left].
  change (fold_left step ops init) with (run ops init).
  change (all_resolved (step (run (ops ++ [o]) init) Settle)) || idtac.
  assert (E : step (run ops init) o = run (ops ++ [o]) init) by (unfold run; rewrite fold_left_app; reflexivity).
  rewrite E. apply (resolved_after_loss (ops ++ [o])). rewrite <- E. apply ends_transport, He.
Qed.

(* callback logs *)
Definition legal_log (l : list cb) : Prop := lstate l <> LBad.
Definition finished_log (l : list cb) : Prop := lstate l = L0 \/ lstate l = LLost.
Definition count_lost (l : list cb) : nat := length (filter (fun e => match e with CbLost _ => true | _ => false end) l).

Lemma lstate_facts l :
  (lstate l = L0 -> l = []) /\
  ((lstate l = LMade \/ lstate l = LEofd) -> count_lost l = 0 /\ hd_error l = Some CbMade) /\
  (lstate l = LLost -> count_lost l = 1 /\ exists pre e, l = pre ++ [CbLost e] /\ count_lost pre = 0 /\
                         (pre = [] \/ hd_error pre = Some CbMade)).
Proof.
  induction l as [|a l IH] using rev_ind.
  - cbn. split; [auto|]. split; [intros [H|H]; discriminate | discriminate].
  - rewrite lstate_snoc. destruct IH as (I0 & I1 & I2).
    unfold count_lost in *. rewrite filter_app, app_length. cbn [filter].
    destruct (lstate l) eqn:El; destruct a as [| | | |e]; try destruct e; cbn [lstep length app];
      (split; [intros H; try discriminate | split; [intros [H|H]; try discriminate | intros H; try discriminate]]).
    all: try (rewrite (I0 eq_refl); cbn; auto; fail).
    all: try (destruct (I1 (or_introl eq_refl)) as [C Hh]; split; [lia | destruct l; [discriminate | exact Hh]]).
    all: try (destruct (I1 (or_intror eq_refl)) as [C Hh]; split; [lia | destruct l; [discriminate | exact Hh]]).
    all: try (rewrite (I0 eq_refl); cbn; split; [reflexivity | eexists [], _; repeat split; auto]).
    all: try (destruct (I1 (or_introl eq_refl)) as [C Hh]; split; [cbn; lia | eexists l, _; repeat split; eauto]).
    all: try (destruct (I1 (or_intror eq_refl)) as [C Hh]; split; [cbn; lia | eexists l, _; repeat split; eauto]).
Qed.

Lemma logs_legal ops : Forall (fun ch => legal_log (clog ch)) (chans (run ops init)).
Proof.
  destruct (INV_run ops init INV_init) as [Hch _ _ _ _ _ _].
  eapply Forall_impl; [|exact Hch]. intros ch [_ _ _ _ _ _ _ H8 _ _ _ _]. unfold legal_log. rewrite H8.
  unfold expect. destruct (se ch); [discriminate | destruct (eofd ch); discriminate | discriminate].
Qed.

(* exactly one final close notification once the connection is closed: every session that was told
   anything has been told connection_lost as its last callback *)
Lemma logs_finished ops :
  closed (run ops init) = true -> Forall (fun ch => finished_log (clog ch)) (chans (run ops init)).
Proof.
  intros Hc. destruct (INV_run ops init INV_init) as [Hch _ _ Hcl _ _ _].
  destruct (Hcl Hc) as (_ & _ & _ & _ & A5).
  apply Forall_forall. intros ch Hin.
  rewrite Forall_forall in Hch, A5. specialize (Hch ch Hin). specialize (A5 ch Hin). simpl in A5.
  destruct Hch as [_ _ _ _ _ H6 _ H8 _ _ _ _]. unfold finished_log. rewrite H8. unfold expect.
  destruct (se ch) eqn:E; auto. specialize (H6 eq_refl). congruence.
Qed.

Lemma owner_log ops :
  let s := run ops init in
  ostate (olog s) <> OBad /\ (closed s = true <-> ostate (olog s) = OL).
Proof.
  intros s. destruct (INV_run ops init INV_init) as [_ _ _ Hcl [Ho1 Ho2] _ _]. fold s in Hcl, Ho1, Ho2.
  rewrite Ho2. destruct (owner_live s) eqn:E, (closed s) eqn:Ec; cbn in Ho1; try discriminate;
    (split; [destruct (connect_w s); discriminate | split; intros H; try discriminate; auto]).
  all: destruct (connect_w s); discriminate.
Qed.

Lemma unregistered ops :
  closed (run ops init) = true -> Forall (fun ch => reg ch = false) (chans (run ops init)).
Proof.
  intros Hc. destruct (INV_run ops init INV_init) as [_ _ _ Hcl _ _ _]. destruct (Hcl Hc) as (_ & _ & _ & _ & A5). exact A5.
Qed.
