(* C09 - proofs about Model/ClosePair.v (two endpoints of one channel, byte-counted windows):
   invariants kept by every op; in every quiescent reachable state in which both applications have
   called close() / abort(), both endpoints are fully closed and were cleaned up exactly once. *)
From AV Require Import Base.Prelude Model.Close Model.ClosePair.
Local Open Scope nat_scope.

Fixpoint din (l : list ppkt) : nat := match l with [] => 0 | QData n :: r => n + din r | _ :: r => din r end.
Fixpoint ain (l : list ppkt) : nat := match l with [] => 0 | QAdjust n :: r => n + ain r | _ :: r => ain r end.
Fixpoint hasc (l : list ppkt) : bool := match l with [] => false | QClose :: _ => true | _ :: r => hasc r end.
Lemma din_app a b : din (a ++ b) = din a + din b.
Proof. induction a as [|[]]; simpl; lia. Qed.
Lemma ain_app a b : ain (a ++ b) = ain a + ain b.
Proof. induction a as [|[]]; simpl; lia. Qed.
Lemma hasc_app a b : hasc (a ++ b) = hasc a || hasc b.
Proof. induction a as [|[]]; simpl; auto. Qed.

Definition rs_closedish (r : rstate) : bool := match r with RClosePending | RClosed => true | _ => false end.
Definition is_sclosed (s : sstate) : bool := match s with SClosed => true | _ => false end.

(* facts about one endpoint *)
Record linv (e : ep) : Prop := mkLinv {
  l_schan : e_schan e = negb (is_sclosed (e_ss e));
  l_closing : e_closing e = true -> ss_closing (e_ss e) = true;
  l_flush : e_sbuf e = 0 \/ e_swin e = 0;
  l_pend : (e_ss e = SClosePending \/ e_ss e = SEofPending) -> 0 < e_sbuf e;
  l_rsss : rs_closedish (e_rs e) = true -> e_ss e = SClosed;
  l_crbuf : e_closing e = true -> e_rbuf e = 0;
  l_rcp : e_rs e = RClosePending -> 0 < e_rbuf e;
  l_rc : e_rs e = RClosed -> e_rbuf e = 0;
  l_win : 1 <= e_init e /\ e_init e <= 2 * e_rwin e /\ e_rwin e <= e_init e /\ e_rbuf e <= e_rwin e;
  l_open : e_rs e <> RClosed -> e_pend e = 0 /\ e_reg e = true /\ e_sess e = true /\ e_cleanups e = 0 /\ e_lost e = 0;
  l_done : e_rs e = RClosed ->
           (e_reg e = true /\ e_sess e = true /\ e_cleanups e = 0 /\ e_lost e = 0 /\ 1 <= e_pend e) \/
           (e_reg e = false /\ e_sess e = false /\ e_cleanups e = 1 /\ e_lost e = 1);
  l_csbuf : e_ss e = SClosed -> e_sbuf e = 0
}.

(* what an endpoint action does, as seen from the other side; dn / an / gotc describe the packet it
   consumed (data bytes, window credit, CLOSE) *)
Record delta_facts (e e' : ep) (o : list ppkt) (dn an : nat) (gotc : bool) : Prop := mkDelta {
  d_inv : linv e';
  d_send : e_swin e' + din o = e_swin e + an;
  d_recv : dn + e_rbuf e <= e_rwin e -> e_schan e' = true ->
           e_rwin e' + e_rbuf e + dn = e_rwin e + e_rbuf e' + ain o;
  d_close : hasc o = negb (is_sclosed (e_ss e)) && is_sclosed (e_ss e');
  d_mono : e_ss e = SClosed -> e_ss e' = SClosed;
  d_rs : rs_closedish (e_rs e) || gotc = true -> rs_closedish (e_rs e') = true;
  d_init : e_init e' = e_init e
}.
Definition delta (e e' : ep) (o : list ppkt) (dn an : nat) (gotc : bool) : Prop :=
  linv e -> delta_facts e e' o dn an gotc.

(* evaluation by cases: split on a variable that blocks a match; when there is none, on a boolean test *)
Ltac csplit :=
  repeat (cbn;
          first [ match goal with
                  | |- context [match ?d with _ => _ end] => is_var d; destruct d
                  end
                | match goal with
                  | |- context [if ?d then _ else _] =>
                      lazymatch d with
                      | context [match _ with _ => _ end] => fail
                      | _ => destruct d eqn:?
                      end
                  end ]).

Ltac lsolve :=
  cbn in *; intros;
  repeat match goal with
         | H : _ /\ _ |- _ => destruct H
         | H : (_ <? _) = true |- _ => apply Nat.ltb_lt in H
         | H : (_ <? _) = false |- _ => apply Nat.ltb_ge in H
         | H : (_ =? _) = true |- _ => apply Nat.eqb_eq in H
         | H : (_ =? _) = false |- _ => apply Nat.eqb_neq in H
         | H : (_ && _) = true |- _ => apply andb_true_iff in H
         | H : (_ && _) = false |- _ => apply andb_false_iff in H
         | H : (_ || _) = true |- _ => apply orb_true_iff in H
         | H : negb _ = true |- _ => apply Bool.negb_true_iff in H
         | H : negb _ = false |- _ => apply Bool.negb_false_iff in H
         end;
  first [ discriminate | congruence | lia | tauto
        | solve [intuition (try discriminate; try congruence; try lia)]
        | solve [ repeat match goal with
                         | x : sstate |- _ => destruct x
                         | x : rstate |- _ => destruct x
                         end; cbn in *;
                  first [ discriminate | congruence | lia | tauto
                        | solve [intuition (try discriminate; try congruence; try lia)] ] ] ].

Ltac dfin :=
  intros [H1 H2 H3 H4 H5 H6 H7 H8 H9 H10 H11 H12]; cbn in *;
  constructor; [ constructor; lsolve | lsolve | lsolve | lsolve | lsolve | lsolve | lsolve ].

Lemma close_send_delta e : let '(e', o) := close_send e in delta e e' o 0 0 false.
Proof. destruct e; unfold delta, close_send, emit; csplit; dfin. Qed.

Ltac bf := csplit; dfin.
Lemma flush_delta e : let '(e', o) := flush e in delta e e' o 0 0 false.
Proof. destruct e; unfold delta, flush, close_send, emit, w_ss. Time bf. Qed.

Lemma flush_recv_delta e : let '(e', o) := flush_recv e in delta e e' o 0 0 false.
Proof. destruct e; unfold delta, flush_recv, deliver, write_eof, flush, close_send, emit, w_ss. csplit.
  all: intros [H1 H2 H3 H4 H5 H6 H7 H8 H9 H10 H11 H12]; cbn in *; constructor; [constructor|..].
  all: try lsolve.
  Show.
Qed.
