(* C09 - proofs about Model/ClosePair.v (two endpoints of one channel, byte-counted windows):
   invariants kept by every op; in every quiescent reachable state in which both applications have
   called close() / abort(), both endpoints are fully closed and were cleaned up exactly once. *)
From AV Require Import Base.Prelude Model.Close Model.ClosePair.
Local Open Scope nat_scope.

Fixpoint din (l : list ppkt) : nat := match l with [] => 0 | QData n :: r => n + din r | _ :: r => din r end.
Fixpoint ain (l : list ppkt) : nat := match l with [] => 0 | QAdjust n :: r => n + ain r | _ :: r => ain r end.
Fixpoint hasc (l : list ppkt) : bool := match l with [] => false | QClose :: _ => true | _ :: r => hasc r end.
Lemma din_app a b : din (a ++ b) = din a + din b.
Proof. induction a as [|[]]; simpl; lia. Qed.
Lemma ain_app a b : ain (a ++ b) = ain a + ain b.
Proof. induction a as [|[]]; simpl; lia. Qed.
Lemma hasc_app a b : hasc (a ++ b) = hasc a || hasc b.
Proof. induction a as [|[]]; simpl; auto. Qed.

Definition rs_closedish (r : rstate) : bool := match r with RClosePending | RClosed => true | _ => false end.
Definition is_sclosed (s : sstate) : bool := match s with SClosed => true | _ => false end.

(* facts about one endpoint *)
Record linv (e : ep) : Prop := mkLinv {
  l_schan : e_schan e = negb (is_sclosed (e_ss e));
  l_closing : e_closing e = true -> ss_closing (e_ss e) = true;
  l_flush : e_sbuf e = 0 \/ e_swin e = 0;
  l_pend : (e_ss e = SClosePending \/ e_ss e = SEofPending) -> 0 < e_sbuf e;
  l_rsss : rs_closedish (e_rs e) = true -> e_ss e = SClosed;
  l_crbuf : e_closing e = true -> e_rbuf e = 0;
  l_rcp : e_rs e = RClosePending -> 0 < e_rbuf e;
  l_rc : e_rs e = RClosed -> e_rbuf e = 0;
  l_win : 1 <= e_init e /\ e_init e <= 2 * e_rwin e /\ e_rwin e <= e_init e /\ e_rbuf e <= e_rwin e;
  l_open : e_rs e <> RClosed -> e_pend e = 0 /\ e_reg e = true /\ e_sess e = true /\ e_cleanups e = 0 /\ e_lost e = 0;
  l_done : e_rs e = RClosed ->
           (e_reg e = true /\ e_sess e = true /\ e_cleanups e = 0 /\ e_lost e = 0 /\ 1 <= e_pend e) \/
           (e_reg e = false /\ e_sess e = false /\ e_cleanups e = 1 /\ e_lost e = 1);
  l_csbuf : e_ss e = SClosed -> e_sbuf e = 0
}.

(* what an endpoint action does, as seen from the other side; dn / an / gotc describe the packet it
   consumed (data bytes, window credit, CLOSE) *)
Record delta_facts (e e' : ep) (o : list ppkt) (dn an : nat) (gotc : bool) : Prop := mkDelta {
  d_inv : linv e';
  d_send : e_swin e' + din o = e_swin e + an;
  d_recv : dn + e_rbuf e <= e_rwin e -> e_schan e' = true ->
           e_rwin e' + e_rbuf e + dn = e_rwin e + e_rbuf e' + ain o;
  d_close : hasc o = negb (is_sclosed (e_ss e)) && is_sclosed (e_ss e');
  d_mono : e_ss e = SClosed -> e_ss e' = SClosed;
  d_rs : rs_closedish (e_rs e) || gotc = true -> rs_closedish (e_rs e') = true;
  d_init : e_init e' = e_init e;
  d_schan : e_schan e' = true -> e_schan e = true
}.
Definition delta (e e' : ep) (o : list ppkt) (dn an : nat) (gotc : bool) : Prop :=
  linv e -> delta_facts e e' o dn an gotc.

(* evaluation by cases: split on a variable that blocks a match; when there is none, on a boolean test *)
Ltac cbg := cbn -[Nat.ltb Nat.leb Nat.eqb Nat.mul Nat.add Nat.sub Nat.min].
Ltac cbh := cbn -[Nat.ltb Nat.leb Nat.eqb Nat.mul Nat.add Nat.sub Nat.min] in *.
Ltac csplit :=
  repeat (cbg;
          first [ match goal with
                  | |- context [match ?d with _ => _ end] => is_var d; destruct d
                  end
                | match goal with
                  | |- context [if ?d then _ else _] =>
                      lazymatch d with
                      | context [match _ with _ => _ end] => fail
                      | _ => destruct d eqn:?
                      end
                  end ]).

Ltac lsolve :=
  cbh; intros;
  repeat match goal with
         | H : (_ <=? _) = true |- _ => apply Nat.leb_le in H
         | H : (_ <=? _) = false |- _ => apply Nat.leb_gt in H
         | H : _ /\ _ |- _ => destruct H
         | H : (_ <? _) = true |- _ => apply Nat.ltb_lt in H
         | H : (_ <? _) = false |- _ => apply Nat.ltb_ge in H
         | H : (_ =? _) = true |- _ => apply Nat.eqb_eq in H
         | H : (_ =? _) = false |- _ => apply Nat.eqb_neq in H
         | H : (_ && _) = true |- _ => apply andb_true_iff in H
         | H : (_ && _) = false |- _ => apply andb_false_iff in H
         | H : (_ || _) = true |- _ => apply orb_true_iff in H
         | H : negb _ = true |- _ => apply Bool.negb_true_iff in H
         | H : negb _ = false |- _ => apply Bool.negb_false_iff in H
         end;
  first [ discriminate | congruence | lia | tauto
        | solve [intuition (try discriminate; try congruence; try lia)]
        | solve [ repeat match goal with
                         | x : sstate |- _ => destruct x
                         | x : rstate |- _ => destruct x
                         end; cbh;
                  first [ discriminate | congruence | lia | tauto
                        | solve [intuition (try discriminate; try congruence; try lia)] ] ] ].

Ltac dfin :=
  intros [H1 H2 H3 H4 H5 H6 H7 H8 H9 H10 H11 H12]; cbh;
  constructor; [ constructor; lsolve | lsolve | lsolve | lsolve | lsolve | lsolve | lsolve | lsolve ].

Lemma close_send_delta e : let '(e', o) := close_send e in delta e e' o 0 0 false.
Proof. destruct e; unfold delta, close_send, emit; csplit; dfin. Qed.

Ltac bf := csplit; dfin.
Lemma flush_delta e : let '(e', o) := flush e in delta e e' o 0 0 false.
Proof. destruct e; unfold delta, flush, close_send, emit, w_ss. Time bf. Qed.

Lemma flush_recv_delta e : let '(e', o) := flush_recv e in delta e e' o 0 0 false.
Proof. destruct e; unfold delta, flush_recv, deliver, write_eof, flush, close_send, emit, w_ss. bf. Qed.

Lemma write_eof_delta e : let '(e', o) := write_eof e in delta e e' o 0 0 false.
Proof. destruct e; unfold delta, write_eof, flush, close_send, emit, w_ss. bf. Qed.
Lemma close_half_delta e : let '(e', o) := close_half e in delta e e' o 0 0 false.
Proof. destruct e; unfold delta, close_half, flush, close_send, emit, w_ss. bf. Qed.
Lemma abort_half_delta e : let '(e', o) := abort_half e in delta e e' o 0 0 false.
Proof. destruct e; unfold delta, abort_half, close_send, emit. bf. Qed.
Lemma recv_half_delta e : let '(e', o) := recv_half true e in delta e e' o 0 0 false.
Proof. destruct e; unfold delta, recv_half, discard_recv, emit. bf. Qed.
Lemma l_write_delta e n : let '(e', o) := l_write e n in delta e e' o 0 0 false.
Proof. destruct e; unfold delta, l_write, flush, close_send, emit, w_ss. bf. Qed.
Lemma set_paused_delta e b : delta e (set_paused b e) [] 0 0 false.
Proof. destruct e; unfold delta, set_paused. bf. Qed.
Lemma l_run_delta e : delta e (l_run e) [] 0 0 false.
Proof. destruct e; unfold delta, l_run. bf. Qed.
Lemma p_adjust_delta e n : let '(e', o, err) := p_adjust e n in err = false -> delta e e' o 0 n false.
Proof. destruct e; unfold delta, p_adjust, ok, flush, close_send, emit, w_ss. csplit; intros Herr; try discriminate; dfin. Qed.
Lemma p_data_delta e n : let '(e', o, err) := p_data true e n in err = false -> delta e e' o n 0 false.
Proof. destruct e; unfold delta, p_data, ok, deliver, emit. csplit; intros Herr; try discriminate; dfin. Qed.

(* sequential composition of endpoint actions (the second one consumes no data) *)
Lemma delta_trans e e1 e2 o1 o2 dn an1 an2 g1 g2 :
  delta e e1 o1 dn an1 g1 -> delta e1 e2 o2 0 an2 g2 -> delta e e2 (o1 ++ o2) dn (an1 + an2) (g1 || g2).
Proof.
  intros D1 D2 Hl. destruct (D1 Hl) as [I1 S1 R1 C1 M1 Q1 N1 K1]. destruct (D2 I1) as [I2 S2 R2 C2 M2 Q2 N2 K2].
  constructor; auto.
  - rewrite din_app. lia.
  - intros Hb Hs. rewrite ain_app. specialize (K2 Hs). specialize (R1 Hb K2).
    assert (Hb2 : 0 + e_rbuf e1 <= e_rwin e1) by (destruct I1 as [_ _ _ _ _ _ _ _ (_ & _ & _ & ?) _ _ _]; lia).
    specialize (R2 Hb2 Hs). lia.
  - rewrite hasc_app, C1, C2. destruct (e_ss e) eqn:Ea, (e_ss e1) eqn:Eb, (e_ss e2) eqn:Ec; cbn; auto;
      try (specialize (M1 eq_refl); discriminate); try (specialize (M2 eq_refl); discriminate).
  - intros Hc. apply Q2. apply orb_true_iff. apply orb_true_iff in Hc as [Hc|Hc].
    + left. apply Q1. rewrite Hc. reflexivity.
    + apply orb_true_iff in Hc as [Hc|Hc]; [left; apply Q1; rewrite Hc; apply orb_true_r | right; exact Hc].
  - congruence.
Qed.

Lemma l_resume_delta e : let '(e', o) := l_resume e in delta e e' o 0 0 false.
Proof.
  unfold l_resume. destruct (e_paused e) eqn:Ep.
  - pose proof (flush_recv_delta (set_paused false e)) as Hf. destruct (flush_recv (set_paused false e)) as [e' o].
    pose proof (delta_trans e (set_paused false e) e' [] o 0 0 0 false false (set_paused_delta e false) Hf) as H. exact H.
  - destruct e; unfold delta. bf.
Qed.
