(* C09 - the close handshake theorem: see Proofs/ClosePairProofs.v for the endpoint-level facts. *)
From AV Require Import Base.Prelude Model.Close Model.ClosePair Proofs.ClosePairProofs.
Local Open Scope nat_scope.

Lemma set_closing_delta e :
  ss_closing (e_ss e) = true -> e_rbuf e = 0 -> delta e (set_closing e) [] 0 0 false.
Proof. destruct e; unfold delta, set_closing; cbn; intros Hs Hr. bf. Qed.

(* after the sending half of close()/abort() the send side is closing; the receiving half empties the
   receive buffer and leaves the send side alone *)
Lemma close_half_post e : ss_closing (e_ss (fst (close_half e))) = true.
Proof. destruct e; unfold close_half, flush, close_send, w_ss. csplit; cbh; auto. Qed.
Lemma abort_half_post e : ss_closing (e_ss (fst (abort_half e))) = true.
Proof. destruct e; unfold abort_half, close_send. csplit; cbh; auto. Qed.
Lemma recv_half_post e : linv e -> e_ss (fst (recv_half true e)) = e_ss e /\ e_rbuf (fst (recv_half true e)) = 0.
Proof.
  intros [H1 H2 H3 H4 H5 H6 H7 H8 H9 H10 H11 H12]. destruct e; unfold recv_half, discard_recv in *; cbh.
  destruct e_rs; cbh; auto.
Qed.

Lemma l_close_delta e : let '(e', o) := l_close true e in delta e e' o 0 0 false.
Proof.
  unfold l_close. pose proof (close_half_delta e) as D1. pose proof (close_half_post e) as P1.
  destruct (close_half e) as [e1 o1]. cbn [fst] in P1.
  pose proof (recv_half_delta e1) as D2. pose proof (recv_half_post e1) as P2.
  destruct (recv_half true e1) as [e2 o2]. cbn [fst] in P2.
  intros Hl. pose proof (delta_trans e e1 e2 o1 o2 0 0 0 false false D1 D2) as D12.
  destruct (D1 Hl) as [I1 _ _ _ _ _ _ _]. destruct (P2 I1) as [Es Er].
  assert (Hs : ss_closing (e_ss e2) = true) by (rewrite Es; exact P1).
  pose proof (delta_trans e e2 (set_closing e2) (o1 ++ o2) [] 0 0 0 false false D12 (set_closing_delta e2 Hs Er)) as D.
  rewrite app_nil_r in D. apply D. exact Hl.
Qed.
Lemma l_abort_delta e : let '(e', o) := l_abort true e in delta e e' o 0 0 false.
Proof.
  unfold l_abort. pose proof (abort_half_delta e) as D1. pose proof (abort_half_post e) as P1.
  destruct (abort_half e) as [e1 o1]. cbn [fst] in P1.
  pose proof (recv_half_delta e1) as D2. pose proof (recv_half_post e1) as P2.
  destruct (recv_half true e1) as [e2 o2]. cbn [fst] in P2.
  intros Hl. pose proof (delta_trans e e1 e2 o1 o2 0 0 0 false false D1 D2) as D12.
  destruct (D1 Hl) as [I1 _ _ _ _ _ _ _]. destruct (P2 I1) as [Es Er].
  assert (Hs : ss_closing (e_ss e2) = true) by (rewrite Es; exact P1).
  pose proof (delta_trans e e2 (set_closing e2) (o1 ++ o2) [] 0 0 0 false false D12 (set_closing_delta e2 Hs Er)) as D.
  rewrite app_nil_r in D. apply D. exact Hl.
Qed.

Lemma eof_in_delta e : e_rs e = ROpen -> let '(e', o) := eof_in e in delta e e' o 0 0 false.
Proof.
  intros Hr. unfold eof_in.
  assert (D1 : delta e (w_rs REofPending e) [] 0 0 false).
  { destruct e; unfold delta, w_rs; cbn in Hr; subst. bf. }
  pose proof (flush_recv_delta (w_rs REofPending e)) as D2. destruct (flush_recv (w_rs REofPending e)) as [e' o].
  exact (delta_trans e _ e' [] o 0 0 0 false false D1 D2).
Qed.
Lemma close_in_delta e :
  rs_openish (e_rs e) = true -> e_ss e = SClosed -> let '(e', o) := close_in e in delta e e' o 0 0 true.
Proof.
  destruct e; unfold delta, close_in, w_rs, flush_recv, deliver, write_eof, flush, close_send, emit, w_ss; cbn.
  intros Hr Hs; subst. destruct e_rs; try discriminate; bf.
Qed.

(* ------------------------------------------------------------ the pair invariant *)
(* X sends to Y over wxy, Y answers over wyx *)
Definition dinv (X Y : ep) (wxy wyx : list ppkt) : Prop :=
  (* window conservation: what Y still grants = what X may send + what is in flight either way *)
  (e_schan Y = true -> e_rwin Y = e_rbuf Y + e_swin X + din wxy + ain wyx) /\
  (* X's CLOSE is in flight or has been processed by Y *)
  (e_ss X = SClosed -> hasc wxy = true \/ rs_closedish (e_rs Y) = true).
Record pinv (p : pair) : Prop := mkPinv {
  pi_a : linv (pa p); pi_b : linv (pb p);
  pi_ab : dinv (pa p) (pb p) (wab p) (wba p);
  pi_ba : dinv (pb p) (pa p) (wba p) (wab p)
}.

Lemma act_inv X X' Y wxy wyx wyx' o dn an g :
  linv X -> linv Y -> dinv X Y wxy wyx -> dinv Y X wyx wxy ->
  delta_facts X X' o dn an g ->
  ain wyx = an + ain wyx' -> din wyx = dn + din wyx' -> hasc wyx = g || hasc wyx' ->
  dn + e_rbuf X <= e_rwin X ->
  linv X' /\ dinv X' Y (wxy ++ o) wyx' /\ dinv Y X' wyx' (wxy ++ o).
Proof.
  intros LX LY [W1 C1] [W2 C2] [I S R C M Q N K] Ea Ed Eh Hb.
  split; [exact I|]. split; split.
  - intros Hs. rewrite din_app. specialize (W1 Hs). lia.
  - intros Hc. rewrite hasc_app. destruct (is_sclosed (e_ss X)) eqn:Ex.
    + assert (e_ss X = SClosed) by (destruct (e_ss X); try discriminate; reflexivity).
      destruct (C1 H) as [Hh|Hr]; [left; rewrite Hh; reflexivity | right; exact Hr].
    + left. rewrite C, Hc. cbn. apply orb_true_r.
  - intros Hs. rewrite ain_app. specialize (K Hs). specialize (W2 K). specialize (R Hb Hs). lia.
  - intros Hc. destruct (C2 Hc) as [Hh|Hr].
    + rewrite Eh in Hh. apply orb_true_iff in Hh as [Hg|Hh]; [right; apply Q; rewrite Hg; apply orb_true_r | left; exact Hh].
    + right. apply Q. rewrite Hr. reflexivity.
Qed.

Lemma local_pinv_a p e' o :
  pinv p -> delta (pa p) e' o 0 0 false -> pinv (mkPair e' (pb p) (wab p ++ o) (wba p) false).
Proof.
  intros [La Lb Dab Dba] D.
  destruct (act_inv (pa p) e' (pb p) (wab p) (wba p) (wba p) o 0 0 false La Lb Dab Dba (D La)) as (I & D1 & D2); auto.
  - destruct La as [_ _ _ _ _ _ _ _ (_ & _ & _ & ?) _ _ _]. lia.
  - constructor; cbn; auto.
Qed.
Lemma local_pinv_b p e' o :
  pinv p -> delta (pb p) e' o 0 0 false -> pinv (mkPair (pa p) e' (wab p) (wba p ++ o) false).
Proof.
  intros [La Lb Dab Dba] D.
  destruct (act_inv (pb p) e' (pa p) (wba p) (wab p) (wab p) o 0 0 false Lb La Dba Dab (D Lb)) as (I & D1 & D2); auto.
  - destruct Lb as [_ _ _ _ _ _ _ _ (_ & _ & _ & ?) _ _ _]. lia.
  - constructor; cbn; auto.
Qed.

(* receiving one packet *)
Definition q_dn (q : ppkt) : nat := match q with QData n => n | _ => 0 end.
Definition q_an (q : ppkt) : nat := match q with QAdjust n => n | _ => 0 end.
Definition q_c (q : ppkt) : bool := match q with QClose => true | _ => false end.

Lemma p_recv_delta e q :
  let '(e', o, err) := p_recv true e q in
  err = false -> delta e e' o (q_dn q) (q_an q) (q_c q) /\ (linv e -> q_dn q + e_rbuf e <= e_rwin e).
Proof.
  unfold p_recv. destruct (e_reg e); [|intros; discriminate].
  destruct q as [n|n| |]; cbn [q_dn q_an q_c].
  - pose proof (p_data_delta e n) as D. destruct (p_data true e n) as [[e' o] err] eqn:E. intros He. split; [auto|].
    intros Hl. unfold p_data in E. destruct (e_rs e); try (injection E as _ _ <-; discriminate).
    destruct (e_rwin e - e_rbuf e <? n) eqn:Ew; [injection E as _ _ <-; discriminate|].
    apply Nat.ltb_ge in Ew. destruct Hl as [_ _ _ _ _ _ _ _ (_ & _ & _ & ?) _ _ _]. lia.
  - pose proof (p_adjust_delta e n) as D. destruct (p_adjust e n) as [[e' o] err]. intros He. split; [auto|].
    intros [_ _ _ _ _ _ _ _ (_ & _ & _ & ?) _ _ _]. lia.
  - unfold p_eof. destruct (e_rs e) eqn:Er; try (intros; discriminate).
    pose proof (eof_in_delta e Er) as D. destruct (eof_in e) as [e' o]. unfold ok. intros _. split; [exact D|].
    intros [_ _ _ _ _ _ _ _ (_ & _ & _ & ?) _ _ _]. lia.
  - unfold p_close. destruct (rs_openish (e_rs e)) eqn:Er; [|intros; discriminate].
    pose proof (close_send_delta e) as D1. destruct (close_send e) as [e1 o1] eqn:E1.
    assert (Hs1 : e_ss e1 = SClosed /\ e_rs e1 = e_rs e).
    { unfold close_send in E1. destruct (e_ss e); injection E1 as <- _; cbn; auto. }
    destruct Hs1 as [Hs1 Hr1].
    assert (Hro : rs_openish (e_rs e1) = true) by (rewrite Hr1; exact Er).
    pose proof (close_in_delta e1 Hro Hs1) as D2. destruct (close_in e1) as [e2 o2]. unfold ok. intros _. split.
    + exact (delta_trans e e1 e2 o1 o2 0 0 0 false true D1 D2).
    + intros [_ _ _ _ _ _ _ _ (_ & _ & _ & ?) _ _ _]. lia.
Qed.

Lemma q_split q r : ain (q :: r) = q_an q + ain r /\ din (q :: r) = q_dn q + din r /\ hasc (q :: r) = q_c q || hasc r.
Proof. destruct q; cbn; auto. Qed.

Definition PINV (p : pair) : Prop := perr p = false -> pinv p.

Lemma local_step s p f :
  pinv p -> perr p = false -> (forall e, let '(e', o) := f e in delta e e' o 0 0 false) -> PINV (local s f p).
Proof.
  intros Hp Ee Hf. unfold local. destruct s.
  - specialize (Hf (pa p)). destruct (f (pa p)) as [e' o]. rewrite Ee. intros _. apply local_pinv_a; auto.
  - specialize (Hf (pb p)). destruct (f (pb p)) as [e' o]. rewrite Ee. intros _. apply local_pinv_b; auto.
Qed.

Lemma PINV_step p o : PINV p -> PINV (pstep true p o).
Proof.
  intros Hp. unfold pstep. destruct (perr p) eqn:Ee; [intros H; rewrite Ee in H; discriminate|]. specialize (Hp Ee).
  destruct o as [s n|s|s|s|s|s|s|s].
  - apply local_step; auto. intros e. apply l_write_delta.
  - apply local_step; auto. intros e. apply write_eof_delta.
  - apply local_step; auto. intros e. apply l_close_delta.
  - apply local_step; auto. intros e. apply l_abort_delta.
  - apply local_step; auto. intros e. apply set_paused_delta.
  - apply local_step; auto. intros e. apply l_resume_delta.
  - destruct s.
    + (* deliver A's oldest packet to B *)
      destruct (wab p) as [|q r] eqn:Ew; [intros _; exact Hp|].
      pose proof (p_recv_delta (pb p) q) as D. destruct (p_recv true (pb p) q) as [[e' o'] err].
      intros Herr. cbn in Herr. subst err. destruct (D eq_refl) as [Dd Hb].
      destruct Hp as [La Lb Dab Dba]. rewrite Ew in *.
      destruct (q_split q r) as (Ea & Ed & Eh).
      destruct (act_inv (pb p) e' (pa p) (wba p) (q :: r) r o' (q_dn q) (q_an q) (q_c q) Lb La Dba Dab (Dd Lb) Ea Ed Eh (Hb Lb))
        as (I & D1 & D2).
      constructor; cbn; auto.
    + destruct (wba p) as [|q r] eqn:Ew; [intros _; exact Hp|].
      pose proof (p_recv_delta (pa p) q) as D. destruct (p_recv true (pa p) q) as [[e' o'] err].
      intros Herr. cbn in Herr. subst err. destruct (D eq_refl) as [Dd Hb].
      destruct Hp as [La Lb Dab Dba]. rewrite Ew in *.
      destruct (q_split q r) as (Ea & Ed & Eh).
      destruct (act_inv (pa p) e' (pb p) (wab p) (q :: r) r o' (q_dn q) (q_an q) (q_c q) La Lb Dab Dba (Dd La) Ea Ed Eh (Hb La))
        as (I & D1 & D2).
      constructor; cbn; auto.
  - apply local_step; auto. intros e. apply l_run_delta.
Qed.

Lemma PINV_run ops p : PINV p -> PINV (prun true ops p).
Proof. revert p; induction ops as [|o ops IH]; intros p Hp; simpl; auto. apply IH, PINV_step, Hp. Qed.

Lemma PINV_init wa wb ka kb : 1 <= wa -> 1 <= wb -> PINV (pair0 wa wb ka kb).
Proof.
  intros Ha Hb _. constructor; cbn.
  - constructor; cbn; auto; try discriminate; try lia; intros; try discriminate; auto; try (destruct H; discriminate); try congruence.
  - constructor; cbn; auto; try discriminate; try lia; intros; try discriminate; auto; try (destruct H; discriminate); try congruence.
  - split; cbn; intros; [lia | discriminate].
  - split; cbn; intros; [lia | discriminate].
Qed.

(* the handshake: in a quiescent state in which both applications have closed, both endpoints are closed
   and were cleaned up exactly once *)
Lemma closed_when_quiet p :
  pinv p -> quiescent p = true -> e_closing (pa p) = true -> e_closing (pb p) = true ->
  fully_closed (pa p) = true /\ fully_closed (pb p) = true.
Proof.
  intros [La Lb [Wab Cab] [Wba Cba]] Hq Ca Cb.
  unfold quiescent in Hq. destruct (wab p) eqn:Eab; [|discriminate]. destruct (wba p) eqn:Eba; [|discriminate].
  apply andb_true_iff in Hq as [Pa Pb]. apply Nat.eqb_eq in Pa, Pb. cbn in *.
  assert (Key : forall X Y, linv X -> linv Y -> e_closing X = true -> e_closing Y = true ->
                 (e_schan Y = true -> e_rwin Y = e_rbuf Y + e_swin X + 0 + 0) ->
                 (e_ss Y = SClosed -> false = true \/ rs_closedish (e_rs X) = true) ->
                 e_ss X = SClosed).
  { intros X Y [X1 X2 X3 X4 X5 X6 X7 X8 X9 X10 X11 X12] [Y1 Y2 Y3 Y4 Y5 Y6 Y7 Y8 Y9 Y10 Y11 Y12] CX CY W C.
    specialize (X2 CX). specialize (Y2 CY). specialize (Y6 CY).
    destruct (e_ss X) eqn:Ex; try discriminate; auto. exfalso.
    assert (Hx : 0 < e_sbuf X) by (apply X4; auto). assert (e_swin X = 0) by (destruct X3; lia).
    destruct (e_ss Y) eqn:Ey; try discriminate.
    - (* both close_pending: window conservation contradicts a non-empty window *)
      cbn in Y1. specialize (W Y1). destruct Y9 as (? & ? & ? & ?). lia.
    - destruct (C eq_refl) as [?|Hr]; [discriminate|]. specialize (X5 Hr). discriminate. }
  assert (Ha : e_ss (pa p) = SClosed) by (apply (Key (pa p) (pb p)); auto).
  assert (Hb : e_ss (pb p) = SClosed) by (apply (Key (pb p) (pa p)); auto).
  assert (Fin : forall X Y, linv X -> e_closing X = true -> e_pend X = 0 -> e_ss X = SClosed ->
                 (e_ss Y = SClosed -> false = true \/ rs_closedish (e_rs X) = true) -> e_ss Y = SClosed ->
                 fully_closed X = true).
  { intros X Y [X1 X2 X3 X4 X5 X6 X7 X8 X9 X10 X11 X12] CX PX SX C SY.
    destruct (C SY) as [?|Hr]; [discriminate|]. specialize (X6 CX).
    unfold fully_closed. rewrite SX. destruct (e_rs X) eqn:Er; try discriminate.
    - specialize (X7 eq_refl). lia.
    - destruct (X11 eq_refl) as [(? & ? & ? & ? & ?)|(Hr1 & Hr2 & Hr3 & Hr4)]; [lia|].
      rewrite Hr1, Hr3, Hr4. reflexivity. }
  split; [apply (Fin (pa p) (pb p)) | apply (Fin (pb p) (pa p))]; auto.
Qed.

Lemma handshake wa wb ka kb ops :
  1 <= wa -> 1 <= wb ->
  let p := prun true ops (pair0 wa wb ka kb) in
  perr p = false -> quiescent p = true -> e_closing (pa p) = true -> e_closing (pb p) = true ->
  fully_closed (pa p) = true /\ fully_closed (pb p) = true.
Proof.
  intros Ha Hb p He Hq Ca Cb. apply closed_when_quiet; auto.
  apply (PINV_run ops (pair0 wa wb ka kb) (PINV_init wa wb ka kb Ha Hb)). exact He.
Qed.

(* ------------------------------------------------------------ the handshake terminates *)
(* a measure that every packet delivery and every callback run strictly decreases *)
Definition qw (q : ppkt) : nat := match q with QData _ => 2 | QAdjust _ => 1 | QEof => 2 | QClose => 3 end.
Definition ww (l : list ppkt) : nat := fold_right (fun q n => qw q + n) 0 l.
Definition phis (s : sstate) : nat :=
  match s with SOpen | SEofPending => 5 | SEof | SClosePending => 3 | SClosed => 0 end.
Definition mu (e : ep) : nat := 3 * e_sbuf e + phis (e_ss e) + e_pend e.
Definition pm (p : pair) : nat := mu (pa p) + mu (pb p) + ww (wab p) + ww (wba p).
Lemma ww_app a b : ww (a ++ b) = ww a + ww b.
Proof. induction a as [|q a IH]; simpl; lia. Qed.

Ltac msolve :=
  intros [H1 H2 H3 H4 H5 H6 H7 H8 H9 H10 H11 H12]; cbh;
  unfold mu, ww; cbn -[Nat.ltb Nat.leb Nat.eqb Nat.mul Nat.add Nat.sub Nat.min]; lsolve.

Lemma p_data_meas e n : linv e -> let '(e', o, err) := p_data true e n in err = false -> mu e' + ww o + 1 <= mu e + 2.
Proof. destruct e; unfold p_data, ok, deliver, emit. csplit; intros Hl Herr; try discriminate; revert Hl; msolve. Qed.
Lemma p_adjust_meas e n : linv e -> let '(e', o, err) := p_adjust e n in err = false -> mu e' + ww o + 1 <= mu e + 1.
Proof. destruct e; unfold p_adjust, ok, flush, close_send, emit, w_ss. csplit; intros Hl Herr; try discriminate; revert Hl; msolve. Qed.
Lemma p_eof_meas e : linv e -> let '(e', o, err) := p_eof e in err = false -> mu e' + ww o + 1 <= mu e + 2.
Proof.
  destruct e; unfold p_eof, eof_in, ok, w_rs, flush_recv, deliver, write_eof, flush, close_send, emit, w_ss.
  csplit; intros Hl Herr; try discriminate; revert Hl; msolve.
Qed.
Lemma p_close_meas e : linv e -> let '(e', o, err) := p_close e in err = false -> mu e' + ww o + 1 <= mu e + 3.
Proof.
  destruct e; unfold p_close, close_in, ok, w_rs, flush_recv, deliver, write_eof, flush, close_send, emit, w_ss.
  csplit; intros Hl Herr; try discriminate; revert Hl; msolve.
Qed.
Lemma l_run_meas e : 0 < e_pend e -> mu (l_run e) + 1 <= mu e.
Proof. destruct e; unfold l_run, mu; cbn. intros H. destruct e_pend; [lia|]. cbn. lia. Qed.

Lemma p_recv_meas e q : linv e ->
  let '(e', o, err) := p_recv true e q in err = false -> mu e' + ww o + 1 <= mu e + qw q.
Proof.
  intros Hl. unfold p_recv. destruct (e_reg e); [|intros; discriminate].
  destruct q; cbn [qw]; [apply p_data_meas | apply p_adjust_meas | apply p_eof_meas | apply p_close_meas]; exact Hl.
Qed.

(* one delivery in either direction, one callback on either side *)
Definition round : list pop := [ODeliver SA; ODeliver SB; ORun SA; ORun SB].
Definition is_drain_op (o : pop) : bool := match o with ODeliver _ | ORun _ => true | _ => false end.

(* a delivery / callback run never increases the measure, and decreases it when it does something *)
Lemma drain_op_meas p o :
  pinv p -> perr p = false -> is_drain_op o = true ->
  let p' := pstep true p o in
  perr p' = false -> pm p' <= pm p /\
  (match o with
   | ODeliver SA => wab p <> []
   | ODeliver SB => wba p <> []
   | ORun SA => 0 < e_pend (pa p)
   | ORun SB => 0 < e_pend (pb p)
   | _ => False
   end -> pm p' < pm p).
Proof.
  intros [La Lb _ _] Ee Hd. unfold pstep. rewrite Ee. destruct o as [| | | | | |s|s]; try discriminate; destruct s; cbn [local].
  - destruct (wab p) as [|q r] eqn:Ew; [intros _; split; [lia | congruence]|].
    pose proof (p_recv_meas (pb p) q Lb) as M. destruct (p_recv true (pb p) q) as [[e' o'] err].
    cbn [perr]. intros He. specialize (M He). unfold pm. cbn [pa pb wab wba]. rewrite Ew, ww_app.
    change (ww (q :: r)) with (qw q + ww r). split; [lia | intros _; lia].
  - destruct (wba p) as [|q r] eqn:Ew; [intros _; split; [lia | congruence]|].
    pose proof (p_recv_meas (pa p) q La) as M. destruct (p_recv true (pa p) q) as [[e' o'] err].
    cbn [perr]. intros He. specialize (M He). unfold pm. cbn [pa pb wab wba]. rewrite Ew, ww_app.
    change (ww (q :: r)) with (qw q + ww r). split; [lia | intros _; lia].
  - cbn [perr]. intros _. unfold pm; cbn [pa pb wab wba]. rewrite app_nil_r.
    destruct (e_pend (pa p)) eqn:Ep.
    + assert (l_run (pa p) = pa p) by (unfold l_run; rewrite Ep; reflexivity). rewrite H. split; [lia | lia].
    + pose proof (l_run_meas (pa p)) as M. rewrite Ep in M. specialize (M ltac:(lia)). split; [lia | intros _; lia].
  - cbn [perr]. intros _. unfold pm; cbn [pa pb wab wba]. rewrite app_nil_r.
    destruct (e_pend (pb p)) eqn:Ep.
    + assert (l_run (pb p) = pb p) by (unfold l_run; rewrite Ep; reflexivity). rewrite H. split; [lia | lia].
    + pose proof (l_run_meas (pb p)) as M. rewrite Ep in M. specialize (M ltac:(lia)). split; [lia | intros _; lia].
Qed.

Lemma p_recv_closing e q : e_closing (fst (fst (p_recv true e q))) = e_closing e.
Proof.
  destruct e, q; unfold p_recv, p_data, p_adjust, p_eof, p_close, eof_in, close_in, ok, w_rs, flush_recv, deliver, write_eof,
    flush, close_send, emit, w_ss; csplit; reflexivity.
Qed.
Lemma l_run_closing e : e_closing (l_run e) = e_closing e.
Proof. destruct e; unfold l_run; cbn. destruct e_pend; reflexivity. Qed.

Lemma drain_op_closing p o : is_drain_op o = true ->
  e_closing (pa (pstep true p o)) = e_closing (pa p) /\ e_closing (pb (pstep true p o)) = e_closing (pb p).
Proof.
  intros Hd. unfold pstep. destruct (perr p); [auto|]. destruct o as [| | | | | |s|s]; try discriminate; destruct s; cbn [local].
  - destruct (wab p) as [|q r]; [auto|]. pose proof (p_recv_closing (pb p) q) as H.
    destruct (p_recv true (pb p) q) as [[e' o'] err]. cbn in *. auto.
  - destruct (wba p) as [|q r]; [auto|]. pose proof (p_recv_closing (pa p) q) as H.
    destruct (p_recv true (pa p) q) as [[e' o'] err]. cbn in *. auto.
  - cbn. split; [apply l_run_closing | reflexivity].
  - cbn. split; [reflexivity | apply l_run_closing].
Qed.

Lemma perr_sticky p o : perr p = true -> pstep true p o = p.
Proof. intros H. unfold pstep. rewrite H. reflexivity. Qed.
Lemma perr_sticky_run ops p : perr p = true -> prun true ops p = p.
Proof. revert p; induction ops as [|o ops IH]; intros p H; simpl; auto. rewrite perr_sticky by exact H. apply IH, H. Qed.

(* a list of delivery / callback ops: invariant kept, measure not increased, closing flags kept *)
Lemma drain_ops_facts ops : forallb is_drain_op ops = true -> forall p,
  pinv p -> perr p = false -> let p' := prun true ops p in
  perr p' = false ->
  pinv p' /\ pm p' <= pm p /\ e_closing (pa p') = e_closing (pa p) /\ e_closing (pb p') = e_closing (pb p).
Proof.
  induction ops as [|o ops IH]; intros Hall p Hp Ee; simpl.
  { intros _. split; [exact Hp|]. split; [lia|]. split; reflexivity. }
  apply andb_true_iff in Hall as [Ho Hall]. intros He.
  destruct (perr (pstep true p o)) eqn:E1.
  - rewrite perr_sticky_run in He by exact E1. congruence.
  - assert (Hp1 : pinv (pstep true p o)) by (apply (PINV_step p o (fun _ => Hp)); exact E1).
    destruct (drain_op_meas p o Hp Ee Ho E1) as [Hle _]. destruct (drain_op_closing p o Ho) as [Ca Cb].
    destruct (IH Hall (pstep true p o) Hp1 E1 He) as (I & L & A & B).
    split; [exact I|]. split; [lia|]. split; congruence.
Qed.

Lemma quiescent_spec p : quiescent p = true <-> wab p = [] /\ wba p = [] /\ e_pend (pa p) = 0 /\ e_pend (pb p) = 0.
Proof.
  unfold quiescent. destruct (wab p), (wba p); split; intros H; try discriminate; try (destruct H as (? & ? & ? & ?); discriminate).
  - apply andb_true_iff in H as [H1 H2]. apply Nat.eqb_eq in H1, H2. auto.
  - destruct H as (_ & _ & H1 & H2). rewrite H1, H2. reflexivity.
Qed.

(* one round strictly decreases the measure unless the state is quiescent already *)
Lemma round_meas p : pinv p -> perr p = false -> quiescent p = false ->
  let p' := prun true round p in perr p' = false -> pm p' < pm p.
Proof.
  intros Hp Ee Hq. unfold round. cbn [prun fold_left]. intros He.
  set (p1 := pstep true p (ODeliver SA)) in *. set (p2 := pstep true p1 (ODeliver SB)) in *.
  set (p3 := pstep true p2 (ORun SA)) in *. set (p4 := pstep true p3 (ORun SB)) in *.
  assert (E3 : perr p3 = false) by (destruct (perr p3) eqn:E; auto; unfold p4 in He; rewrite perr_sticky in He by exact E; congruence).
  assert (E2 : perr p2 = false) by (destruct (perr p2) eqn:E; auto; unfold p3 in E3; rewrite perr_sticky in E3 by exact E; congruence).
  assert (E1 : perr p1 = false) by (destruct (perr p1) eqn:E; auto; unfold p2 in E2; rewrite perr_sticky in E2 by exact E; congruence).
  assert (I1 : pinv p1) by (apply (PINV_step p _ (fun _ => Hp)); exact E1).
  assert (I2 : pinv p2) by (apply (PINV_step p1 _ (fun _ => I1)); exact E2).
  assert (I3 : pinv p3) by (apply (PINV_step p2 _ (fun _ => I2)); exact E3).
  destruct (drain_op_meas p (ODeliver SA) Hp Ee eq_refl E1) as [L1 S1].
  destruct (drain_op_meas p1 (ODeliver SB) I1 E1 eq_refl E2) as [L2 S2].
  destruct (drain_op_meas p2 (ORun SA) I2 E2 eq_refl E3) as [L3 S3].
  destruct (drain_op_meas p3 (ORun SB) I3 E3 eq_refl He) as [L4 S4].
  fold p1 in L1, S1. fold p2 in L2, S2. fold p3 in L3, S3. fold p4 in L4, S4.
  destruct (wab p) as [|qa ra] eqn:Ea; [|assert (pm p1 < pm p) by (apply S1; discriminate); lia].
  assert (P1 : p1 = p) by (unfold p1, pstep; rewrite Ee, Ea; reflexivity).
  destruct (wba p) as [|qb rb] eqn:Eb; [|assert (pm p2 < pm p1) by (apply S2; rewrite P1, Eb; discriminate); lia].
  assert (P2 : p2 = p) by (unfold p2, pstep; rewrite P1, Ee, Eb; reflexivity).
  destruct (e_pend (pa p)) as [|na] eqn:Epa; [|assert (pm p3 < pm p2) by (apply S3; rewrite P2, Epa; lia); lia].
  assert (P3 : p3 = p).
  { unfold p3, pstep. rewrite P2, Ee. cbn [local]. unfold l_run. rewrite Epa, app_nil_r. destruct p; cbn in *. congruence. }
  destruct (e_pend (pb p)) as [|nb] eqn:Epb; [|assert (pm p4 < pm p3) by (apply S4; rewrite P3, Epb; lia); lia].
  exfalso. assert (quiescent p = true) by (apply quiescent_spec; auto). congruence.
Qed.

Fixpoint rounds (n : nat) : list pop := match n with O => [] | S k => round ++ rounds k end.
Lemma rounds_drain n : forallb is_drain_op (rounds n) = true.
Proof. induction n; simpl; auto. Qed.

Lemma quiescent_round p : perr p = false -> quiescent p = true -> prun true round p = p.
Proof.
  intros Ee Hq. apply quiescent_spec in Hq as (Ea & Eb & Epa & Epb).
  unfold round. cbn [prun fold_left].
  assert (P1 : pstep true p (ODeliver SA) = p) by (unfold pstep; rewrite Ee, Ea; reflexivity). rewrite P1.
  assert (P2 : pstep true p (ODeliver SB) = p) by (unfold pstep; rewrite Ee, Eb; reflexivity). rewrite P2.
  assert (P3 : pstep true p (ORun SA) = p).
  { unfold pstep. rewrite Ee. cbn [local]. unfold l_run. rewrite Epa, app_nil_r. destruct p; cbn in *. congruence. }
  rewrite P3. unfold pstep. rewrite Ee. cbn [local]. unfold l_run. rewrite Epb, app_nil_r. destruct p; cbn in *. congruence.
Qed.

Lemma quiescent_rounds n p : perr p = false -> quiescent p = true -> prun true (rounds n) p = p.
Proof.
  intros Ee Hq. induction n as [|n IH]; [reflexivity|]. cbn [rounds]. unfold prun. rewrite fold_left_app.
  fold (prun true round p). rewrite quiescent_round by assumption. exact IH.
Qed.

Lemma drain_quiesces n : forall p, pinv p -> perr p = false -> pm p <= n ->
  let p' := prun true (rounds n) p in perr p' = true \/ quiescent p' = true.
Proof.
  induction n as [|n IH]; intros p Hp Ee Hm; cbn [rounds prun fold_left].
  - right. apply quiescent_spec. unfold pm, mu in Hm.
    destruct (wab p) as [|q r]; [|cbn in Hm; destruct q; cbn in Hm; lia].
    destruct (wba p) as [|q r]; [|cbn in Hm; destruct q; cbn in Hm; lia]. repeat split; auto; lia.
  - unfold prun. rewrite fold_left_app. fold (prun true round p). fold (prun true (rounds n) (prun true round p)).
    destruct (quiescent p) eqn:Hq.
    + rewrite quiescent_round by assumption. rewrite quiescent_rounds by assumption. right; exact Hq.
    + destruct (perr (prun true round p)) eqn:E1.
      * left. rewrite perr_sticky_run by exact E1. exact E1.
      * pose proof (round_meas p Hp Ee Hq E1) as Hlt.
        destruct (drain_ops_facts round eq_refl p Hp Ee E1) as (I1 & _).
        apply IH; auto. lia.
Qed.

(* both sides closing: after enough deliveries and callback runs both are fully closed (or a protocol
   error has ended the connection) *)
Lemma handshake_reached wa wb ka kb ops :
  1 <= wa -> 1 <= wb ->
  let p := prun true ops (pair0 wa wb ka kb) in
  perr p = false -> e_closing (pa p) = true -> e_closing (pb p) = true ->
  let p' := prun true (rounds (pm p)) p in
  perr p' = true \/ (quiescent p' = true /\ fully_closed (pa p') = true /\ fully_closed (pb p') = true).
Proof.
  intros Ha Hb p Ee Ca Cb p'.
  assert (Hp : pinv p) by (apply (PINV_run ops (pair0 wa wb ka kb) (PINV_init wa wb ka kb Ha Hb)); exact Ee).
  destruct (drain_quiesces (pm p) p Hp Ee (le_n _)) as [He|Hq]; [left; exact He|].
  fold p' in Hq. destruct (perr p') eqn:Ee'; [left; reflexivity|]. right.
  destruct (drain_ops_facts (rounds (pm p)) (rounds_drain _) p Hp Ee Ee') as (I & _ & A & B). fold p' in I, A, B.
  split; [exact Hq|]. apply closed_when_quiet; auto; congruence.
Qed.
