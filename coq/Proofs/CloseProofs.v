(* C09 - proofs about Model/Close.v: a channel invariant and a connection invariant preserved by
   every op (hence true after every op list), a potential that strictly decreases with every
   ready callback run (the ready queue always empties), and from these: every waiter is resolved
   once the transport is gone and the queue has run, callback logs are legal with exactly one
   final close notification, a closed connection has no registered channel. *)
From AV Require Import Base.Prelude Model.Close.
Local Open Scope nat_scope.

(* ---------------------------------------------------------------- session callback automaton *)
Inductive lst := L0 | LMade | LEofd | LLost | LBad.
(* legal: made, then any number of started / data, optionally eof followed only by started, then
   lost; or lost(None) alone (session released without ever being attached, channel.py
   _finish_open_request); or nothing at all *)
Definition lstep (l : lst) (e : cb) : lst :=
  match l, e with
  | L0, CbMade => LMade
  | L0, CbLost false => LLost
  | LMade, CbStarted => LMade
  | LMade, CbData => LMade
  | LMade, CbEof => LEofd
  | LMade, CbLost _ => LLost
  | LEofd, CbStarted => LEofd
  | LEofd, CbLost _ => LLost
  | _, _ => LBad
  end.
Definition lrun (st : lst) (l : list cb) : lst := fold_left lstep l st.
Definition lstate (l : list cb) : lst := lrun L0 l.
Lemma lstate_snoc l e : lstate (l ++ [e]) = lstep (lstate l) e.
Proof. unfold lstate, lrun. rewrite fold_left_app. reflexivity. Qed.

Definition expect (ch : chan) : lst :=
  match se ch with
  | SNone => L0
  | SLive => if eofd ch then LEofd else LMade
  | SGone => LLost
  end.

Definition is_wait (p : cpc) : bool := match p with CWaitOpen | CWaitReq _ => true | _ => false end.
Definition pc_presess (p : cpc) : bool := match p with CStart | CWaitOpen | COpenRes _ => true | _ => false end.

Record cinv (ch : chan) : Prop := mkCinv {
  ci_wait : reg ch = false -> is_wait (pc ch) = false;
  ci_cev : cev ch = true -> closed_w ch = 0;
  ci_rd : st_rd ch = true -> se ch = SLive /\ handle ch = true /\ st_eof ch = false;
  ci_dr : st_dr ch <> 0 -> se ch = SLive /\ handle ch = true;
  ci_cw : closed_w ch <> 0 -> handle ch = true;
  ci_live : se ch = SLive -> reg ch = true;
  ci_hreg : handle ch = true -> reg ch = false -> cev ch = true;
  ci_log : lstate (clog ch) = expect ch;
  ci_eofd : eofd ch = true -> rbuf ch = false /\ (rs ch = REof \/ rs ch = RClosePending \/ rs ch = RClosed);
  ci_none : se ch = SNone -> eofd ch = false;
  ci_pre : pc_presess (pc ch) = true -> se ch = SNone;
  ci_schan : reg ch = false -> schan ch = false
}.

(* effect of a channel handler started on an empty context: invariant kept (under a precondition),
   potential of what it leaves behind bounded, a queued create() has its wake-up scheduled *)
Definition cx0 (ch : chan) : cx := mkCx ch [] [] [].
Definition hspec (c slack : nat) (pre : chan -> Prop) (f : cx -> cx) : Prop :=
  forall ch, let x' := f (cx0 ch) in
    (cinv ch -> pre ch -> cinv (x_ch x')) /\
    pc_pot (pc (x_ch x')) + sum_of kont_pot (x_k x') <= pc_pot (pc ch) + slack /\
    (pc_queued (pc (x_ch x')) = true -> pc (x_ch x') = pc ch \/ In (KCreate c) (x_k x')).

Ltac ev := cbv -[lstate app Nat.add Nat.le Nat.lt repeat In].
Ltac evh := cbv -[lstate app Nat.add Nat.le Nat.lt repeat In] in *.
(* symbolic evaluation by cases: the next stuck match on a variable is split *)
Ltac dmv := repeat (ev; match goal with
          | |- context [match ?d with _ => _ end] => is_var d; destruct d
          end).

(* one field of the invariant of the new channel: unchanged fields are hypotheses already *)
Ltac fld :=
  ev;
  first [ assumption
        | solve [ intros; congruence ]
        | solve [ intros; exfalso; congruence ]
        | solve [ intuition (try congruence; try lia) ] ].
Ltac logfld H8 :=
  ev; rewrite ?lstate_snoc; rewrite ?H8;
  repeat (ev; match goal with
          | |- context [match ?d with _ => _ end] => is_var d; destruct d
          end);
  ev; first [ reflexivity | congruence | solve [ intuition congruence ] ].

Ltac fin_cinv :=
  intros [H1 H2 H3 H4 H5 H6 H7 H8 H9 H10 H11 H12] Hpre; evh;
  constructor;
  [ fld | fld | fld | fld | fld | fld | fld | logfld H8 | fld | fld | fld | fld ].

Ltac hs :=
  intros ch; destruct ch; unfold cx0; dmv;
  (split; [ fin_cinv | split; [ cbn; lia | cbn; intuition (try congruence) ] ]).

Lemma cleanup_spec c e : hspec c 0 (fun _ => True) (chan_cleanup c e).
Proof. Time hs. Qed.

Definition ptrue (_ : chan) : Prop := True.
Lemma conn_close_chan_spec c e : hspec c 0 ptrue (conn_close_chan c e).
Proof. Time hs. Qed.
Lemma write_eof_spec c : hspec c 0 ptrue (write_eof c).
Proof. Time hs. Qed.
Lemma chan_close_spec c : hspec c 1 ptrue (chan_close c).
Proof. Time hs. Qed.
Lemma chan_abort_spec c : hspec c 1 ptrue (chan_abort c).
Proof. Time hs. Qed.
Lemma chan_write_spec c cls : hspec c 0 ptrue (chan_write c cls).
Proof. Time hs. Qed.
Lemma chan_pause_spec c : hspec c 0 ptrue chan_pause.
Proof. Time hs. Qed.
Lemma chan_resume_spec c : hspec c 1 ptrue (chan_resume c).
Proof. Time hs. Qed.
Lemma chan_wait_closed_spec c : hspec c 0 ptrue (chan_wait_closed c).
Proof. Time hs. Qed.
Lemma chan_read_spec c : hspec c 0 ptrue (chan_read c).
Proof. Time hs. Qed.
Lemma chan_drain_spec c : hspec c 0 ptrue (chan_drain c).
Proof. Time hs. Qed.
Lemma chan_confirm_spec c : hspec c 0 (fun ch => is_open_wait ch = true /\ reg ch = true) (chan_confirm c).
Proof. Time hs. Qed.
Lemma chan_fail_spec c : hspec c 1 (fun ch => is_open_wait ch = true /\ reg ch = true) (chan_fail c).
Proof. Time hs. Qed.
Lemma chan_data_spec c : hspec c 0 (fun ch => rs_open ch = true) (chan_data c).
Proof. Time hs. Qed.
Lemma chan_peof_spec c : hspec c 1 (fun ch => rs_open ch = true) (chan_peof c).
Proof. Time hs. Qed.
Lemma chan_pclose_spec c : hspec c 1 ptrue (chan_pclose c).
Proof. Time hs. Qed.
Lemma chan_adjust_spec c cls : hspec c 0 ptrue (chan_adjust c cls).
Proof. Time hs. Qed.
Lemma chan_reply_spec c ok : hspec c 0 (fun ch => reg ch = true) (chan_reply c ok).
Proof. Time hs. Qed.
Lemma chan_request_spec c f w a : hspec c 1 ptrue (chan_request c f w a).
Proof. Time hs. Qed.
Lemma create_step_spec c tr : hspec c 0 ptrue (create_step c tr).
Proof. Time hs. Qed.
Lemma start_reading_spec c : hspec c 1 ptrue (start_reading c).
Proof. Time hs. Qed.
Lemma finish_open_spec c : hspec c 1 ptrue (finish_open c).
Proof. Time hs. Qed.
