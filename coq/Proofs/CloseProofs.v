(* C09 - proofs about Model/Close.v: a channel invariant and a connection invariant preserved by
   every op (hence true after every op list), a potential that strictly decreases with every
   ready callback run (the ready queue always empties), and from these: every waiter is resolved
   once the transport is gone and the queue has run, callback logs are legal with exactly one
   final close notification, a closed connection has no registered channel. *)
From AV Require Import Base.Prelude Model.Close.
Local Open Scope nat_scope.

(* ---------------------------------------------------------------- session callback automaton *)
Inductive lst := L0 | LMade | LEofd | LLost | LBad.
(* legal: made, then any number of started / data, optionally eof followed only by started, then
   lost; or lost(None) alone (session released without ever being attached, channel.py
   _finish_open_request); or nothing at all *)
Definition lstep (l : lst) (e : cb) : lst :=
  match l, e with
  | L0, CbMade => LMade
  | L0, CbLost false => LLost
  | LMade, CbStarted => LMade
  | LMade, CbData => LMade
  | LMade, CbEof => LEofd
  | LMade, CbLost _ => LLost
  | LEofd, CbStarted => LEofd
  | LEofd, CbLost _ => LLost
  | _, _ => LBad
  end.
Definition lrun (st : lst) (l : list cb) : lst := fold_left lstep l st.
Definition lstate (l : list cb) : lst := lrun L0 l.
Lemma lstate_snoc l e : lstate (l ++ [e]) = lstep (lstate l) e.
Proof. unfold lstate, lrun. rewrite fold_left_app. reflexivity. Qed.

Definition expect (ch : chan) : lst :=
  match se ch with
  | SNone => L0
  | SLive => if eofd ch then LEofd else LMade
  | SGone => LLost
  end.

Definition is_wait (p : cpc) : bool := match p with CWaitOpen | CWaitReq _ => true | _ => false end.
Definition pc_presess (p : cpc) : bool := match p with CStart | CWaitOpen | COpenRes _ => true | _ => false end.

Record cinv (ch : chan) : Prop := mkCinv {
  ci_wait : reg ch = false -> is_wait (pc ch) = false;
  ci_cev : cev ch = true -> closed_w ch = 0;
  ci_rd : st_rd ch = true -> se ch = SLive /\ handle ch = true;
  ci_dr : st_dr ch <> 0 -> se ch = SLive /\ handle ch = true;
  ci_cw : closed_w ch <> 0 -> handle ch = true;
  ci_live : se ch = SLive -> reg ch = true;
  ci_hreg : handle ch = true -> reg ch = false -> cev ch = true;
  ci_log : lstate (clog ch) = expect ch;
  ci_eofd : eofd ch = true -> rbuf ch = false /\ (rs ch = REof \/ rs ch = RClosePending \/ rs ch = RClosed);
  ci_none : se ch = SNone -> eofd ch = false;
  ci_pre : pc_presess (pc ch) = true -> se ch = SNone
}.

(* effect of a channel handler started on an empty context: invariant kept (under a precondition),
   potential of what it leaves behind bounded, a queued create() has its wake-up scheduled *)
Definition cx0 (ch : chan) : cx := mkCx ch [] [] [].
Definition hspec (c slack : nat) (pre : chan -> Prop) (f : cx -> cx) : Prop :=
  forall ch, let x' := f (cx0 ch) in
    (cinv ch -> pre ch -> cinv (x_ch x')) /\
    pc_pot (pc (x_ch x')) + sum_of kont_pot (x_k x') <= pc_pot (pc ch) + slack /\
    (pc_queued (pc (x_ch x')) = true -> pc (x_ch x') = pc ch \/ In (KCreate c) (x_k x')).

Ltac dm :=
  repeat (cbn;
          match goal with
          | |- context [match ?d with _ => _ end] => destruct d eqn:?
          end).

(* one field of the invariant of the new channel: unchanged fields are hypotheses already *)
Ltac fld :=
  cbn;
  first [ assumption
        | solve [ intros; congruence ]
        | solve [ intros; exfalso; congruence ]
        | solve [ intuition (try congruence; try lia) ] ].

Ltac fin_cinv :=
  intros [H1 H2 H3 H4 H5 H6 H7 H8 H9 H10 H11] Hpre;
  constructor;
  [ fld | fld | fld | fld | fld | fld | fld
  | cbn; rewrite ?lstate_snoc; rewrite ?H8; unfold expect; cbn;
    repeat match goal with E : _ = _ |- _ => rewrite E end; cbn;
    first [ reflexivity | congruence | solve [ intuition congruence ] ]
  | fld | fld | fld ].

Lemma cleanup_inv c e ch : cinv ch -> True -> cinv (x_ch (chan_cleanup c e (cx0 ch))).
Proof.
  unfold cx0, chan_cleanup, sess_lost, wake_read, wake_drains, upc, xk, xds, addlog.
  Time dm.
  Time all: fin_cinv.
Qed.
