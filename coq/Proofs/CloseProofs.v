(* C09 - proofs about Model/Close.v: a channel invariant and a connection invariant preserved by
   every op (hence true after every op list), a potential that strictly decreases with every
   ready callback run (the ready queue always empties), and from these: every waiter is resolved
   once the transport is gone and the queue has run, callback logs are legal with exactly one
   final close notification, a closed connection has no registered channel. *)
From AV Require Import Base.Prelude Model.Close.
Local Open Scope nat_scope.

(* ---------------------------------------------------------------- session callback automaton *)
Inductive lst := L0 | LMade | LEofd | LLost | LBad.
(* legal: made, then any number of started / data, optionally eof followed only by started, then
   lost; or lost(None) alone (session released without ever being attached, channel.py
   _finish_open_request); or nothing at all *)
Definition lstep (l : lst) (e : cb) : lst :=
  match l, e with
  | L0, CbMade => LMade
  | L0, CbLost false => LLost
  | LMade, CbStarted => LMade
  | LMade, CbData => LMade
  | LMade, CbEof => LEofd
  | LMade, CbLost _ => LLost
  | LEofd, CbStarted => LEofd
  | LEofd, CbLost _ => LLost
  | _, _ => LBad
  end.
Definition lrun (st : lst) (l : list cb) : lst := fold_left lstep l st.
Definition lstate (l : list cb) : lst := lrun L0 l.
Lemma lstate_snoc l e : lstate (l ++ [e]) = lstep (lstate l) e.
Proof. unfold lstate, lrun. rewrite fold_left_app. reflexivity. Qed.

Definition expect (ch : chan) : lst :=
  match se ch with
  | SNone => L0
  | SLive => if eofd ch then LEofd else LMade
  | SGone => LLost
  end.

Definition is_wait (p : cpc) : bool := match p with CWaitOpen | CWaitReq _ => true | _ => false end.
Definition pc_presess (p : cpc) : bool := match p with CStart | CWaitOpen | COpenRes _ => true | _ => false end.

Record cinv (ch : chan) : Prop := mkCinv {
  ci_wait : reg ch = false -> is_wait (pc ch) = false;
  ci_cev : cev ch = true -> closed_w ch = 0;
  ci_rd : st_rd ch = true -> se ch = SLive /\ handle ch = true /\ st_eof ch = false;
  ci_dr : st_dr ch <> 0 -> se ch = SLive /\ handle ch = true;
  ci_cw : closed_w ch <> 0 -> handle ch = true;
  ci_live : se ch = SLive -> reg ch = true;
  ci_hreg : handle ch = true -> reg ch = false -> cev ch = true;
  ci_log : lstate (clog ch) = expect ch;
  ci_eofd : eofd ch = true -> rbuf ch = false /\ (rs ch = REof \/ rs ch = RClosePending \/ rs ch = RClosed);
  ci_none : se ch = SNone -> eofd ch = false;
  ci_pre : pc_presess (pc ch) = true -> se ch = SNone;
  ci_schan : reg ch = false -> schan ch = false
}.

(* effect of a channel handler: invariant kept (under a precondition), potential of what it
   leaves behind bounded, a queued create() has its wake-up scheduled *)
Definition not_kc (k : kont) : bool := match k with KConnCleanup _ => false | _ => true end.
Definition kspec (c slack : nat) (x x' : cx) : Prop :=
  exists ks, x_k x' = x_k x ++ ks /\
    pc_pot (pc (x_ch x')) + sum_of kont_pot ks <= pc_pot (pc (x_ch x)) + slack /\
    (pc_queued (pc (x_ch x')) = true -> pc (x_ch x') = pc (x_ch x) \/ In (KCreate c) ks) /\
    forallb not_kc ks = true.
(* the common case: the create() program counter is untouched, at most n units of callbacks pushed *)
Definition ksame (n : nat) (x x' : cx) : Prop :=
  exists ks, x_k x' = x_k x ++ ks /\ pc (x_ch x') = pc (x_ch x) /\ sum_of kont_pot ks <= n /\
             (reg (x_ch x') = true -> reg (x_ch x) = true) /\ forallb not_kc ks = true.
Definition gs (c slack : nat) (pre : chan -> Prop) (f : cx -> cx) (x : cx) : Prop :=
  (cinv (x_ch x) -> pre (x_ch x) -> cinv (x_ch (f x))) /\ (pre (x_ch x) -> kspec c slack x (f x)).
Definition gsm (n : nat) (pre : chan -> Prop) (f : cx -> cx) (x : cx) : Prop :=
  (cinv (x_ch x) -> pre (x_ch x) -> cinv (x_ch (f x))) /\ (pre (x_ch x) -> ksame n x (f x)).
Definition ptrue (_ : chan) : Prop := True.

Lemma force_eq x f : force x f = f x.
Proof. destruct x as [ch k p d]; destruct ch; reflexivity. Qed.

Lemma sum_of_app {A} (f : A -> nat) l1 l2 : sum_of f (l1 ++ l2) = sum_of f l1 + sum_of f l2.
Proof. unfold sum_of. induction l1 as [|a l IH]; simpl; [reflexivity | rewrite IH; lia]. Qed.

Lemma ksame_kspec c n x x' : ksame n x x' -> kspec c n x x'.
Proof.
  intros (ks & E & P & L & _ & N). exists ks. rewrite P. repeat split; auto. lia.
Qed.
Lemma gsm_gs c n pre f x : gsm n pre f x -> gs c n pre f x.
Proof. intros [I K]. split; [exact I | intros Hp; apply ksame_kspec; auto]. Qed.

Lemma ksame_refl x : ksame 0 x x.
Proof. exists []. rewrite app_nil_r. simpl. repeat split; auto. Qed.
Lemma forallb_app2 {A} (f : A -> bool) l1 l2 : forallb f l1 = true -> forallb f l2 = true -> forallb f (l1 ++ l2) = true.
Proof. intros H1 H2. rewrite forallb_app, H1, H2. reflexivity. Qed.
Lemma ksame_trans a b x y z : ksame a x y -> ksame b y z -> ksame (a + b) x z.
Proof.
  intros (k1 & E1 & P1 & L1 & R1 & N1) (k2 & E2 & P2 & L2 & R2 & N2). exists (k1 ++ k2).
  split; [rewrite E2, E1, app_assoc; reflexivity|].
  split; [congruence | split; [rewrite sum_of_app; lia | split; [auto | apply forallb_app2; auto]]].
Qed.
Lemma ksame_weaken a b x y : a <= b -> ksame a x y -> ksame b x y.
Proof. intros L (k & E & P & Q & R & N). exists k. repeat split; auto. lia. Qed.

Lemma gsm_id pre x : gsm 0 pre (fun x => x) x.
Proof. split; [auto | intros; apply ksame_refl]. Qed.
(* sequential composition; the second stage has no precondition *)
Lemma gsm_comp a b pre f g x :
  gsm a pre f x -> gsm b ptrue g (f x) -> gsm (a + b) pre (fun x => g (f x)) x.
Proof.
  intros [I1 K1] [I2 K2]. split.
  - intros Hc Hp. apply I2; [apply I1; assumption | exact I].
  - intros Hp. eapply ksame_trans; [apply K1; exact Hp | apply K2; exact I].
Qed.
Lemma gsm_weaken a b (pre pre' : chan -> Prop) f x :
  a <= b -> (pre' (x_ch x) -> pre (x_ch x)) -> gsm a pre f x -> gsm b pre' f x.
Proof. intros L Hp [I K]. split; [auto | intros; eapply ksame_weaken; eauto]. Qed.
Lemma gsm_ext n pre f g x : f x = g x -> gsm n pre g x -> gsm n pre f x.
Proof. unfold gsm. intros ->. auto. Qed.

(* fields the invariant talks about; a handler that leaves them alone keeps the invariant *)
Definition core_eq (a b : chan) : Prop :=
  reg a = reg b /\ pc a = pc b /\ cev a = cev b /\ closed_w a = closed_w b /\ st_rd a = st_rd b /\
  st_dr a = st_dr b /\ se a = se b /\ handle a = handle b /\ clog a = clog b /\ eofd a = eofd b /\
  rbuf a = rbuf b /\ rs a = rs b /\ schan a = schan b /\ st_eof a = st_eof b.
Lemma cinv_core a b : core_eq a b -> cinv a -> cinv b.
Proof.
  intros (E1 & E2 & E3 & E4 & E5 & E6 & E7 & E8 & E9 & E10 & E11 & E12 & E13 & E14) [H1 H2 H3 H4 H5 H6 H7 H8 H9 H10 H11 H12].
  unfold expect in H8.
  constructor; unfold expect; rewrite <- ?E1, <- ?E2, <- ?E3, <- ?E4, <- ?E5, <- ?E6, <- ?E7, <- ?E8, <- ?E9, <- ?E10,
    <- ?E11, <- ?E12, <- ?E13, <- ?E14; assumption.
Qed.
Lemma upc_frame f x : (forall ch, core_eq ch (f ch)) -> gsm 0 ptrue (upc f) x.
Proof.
  intros Hf. destruct x as [ch k p d]. split; simpl.
  - intros Hc _. eapply cinv_core; [apply Hf | exact Hc].
  - intros _. exists []. simpl. rewrite app_nil_r. destruct (Hf ch) as (Er & E & _). repeat split; auto. congruence.
Qed.
Ltac frame := intros ch; destruct ch; repeat split; reflexivity.

Ltac ev := cbv -[lstate app Nat.add Nat.le Nat.lt repeat In].
Ltac evh := cbv -[lstate app Nat.add Nat.le Nat.lt repeat In] in *.
(* symbolic evaluation by cases: the next stuck match on a variable is split *)
Ltac dmv := repeat (ev; match goal with
          | |- context [match ?d with _ => _ end] => is_var d; destruct d
          end).

(* one field of the invariant of the new channel: unchanged fields are hypotheses already;
   otherwise forward chaining over the old invariant, case split on its disjunctions *)
Ltac fwd := repeat match goal with
  | H : ?P -> _, H' : ?P |- _ => specialize (H H')
  | H : ?a = ?a -> _ |- _ => specialize (H eq_refl)
  | H : _ /\ _ |- _ => destruct H
  end.
Ltac sfld := ev; intros; fwd; repeat match goal with H : _ \/ _ |- _ => destruct H end;
  repeat split; first [ discriminate | reflexivity | assumption | congruence | solve [auto] ].
Ltac fld H :=
  first [ exact H
        | solve [ sfld ]
        | solve [ ev; intuition (try congruence; try lia) ] ].
Ltac logfld H8 :=
  ev; rewrite ?lstate_snoc; rewrite ?H8;
  repeat (ev; match goal with
          | |- context [match ?d with _ => _ end] => is_var d; destruct d
          end);
  ev; first [ reflexivity | congruence | solve [ intuition congruence ] ].

Ltac fin_cinv :=
  intros [H1 H2 H3 H4 H5 H6 H7 H8 H9 H10 H11 H12] Hpre; evh;
  constructor;
  [ fld H1 | fld H2 | fld H3 | fld H4 | fld H5 | fld H6 | fld H7 | logfld H8 | fld H9 | fld H10 | fld H11 | fld H12 ].

Ltac part2 := apply Nat.leb_le; vm_compute; reflexivity.
Ltac part3 := ev; intros; first [ discriminate | left; reflexivity | right; simpl; auto 8 ].
Ltac klist :=
  first [ exists []; split; [ symmetry; apply app_nil_r | ]
        | eexists; split; [ rewrite <- ?app_assoc; reflexivity | ] ].
Ltac absurd_pre Hpre := solve [ exfalso; clear - Hpre; intuition congruence ].
Ltac kpart := intros Hpre; evh; first [ absurd_pre Hpre | klist; split; [ part2 | split; [ part3 | reflexivity ] ] ].
Ltac kpartm := intros Hpre; evh; first [ absurd_pre Hpre | klist; split; [ reflexivity | split; [ part2 | split; [ ev; intros Hr; first [ exact Hr | reflexivity | discriminate Hr ] | reflexivity ] ] ] ].

(* brute force for one (small) handler stage *)
Ltac hs :=
  intros x; destruct x as [ch k0 p0 d0]; destruct ch; unfold gs; dmv;
  (split; [ fin_cinv | kpart ]).
Ltac hsm :=
  intros x; destruct x as [ch k0 p0 d0]; destruct ch; unfold gsm; dmv;
  (split; [ fin_cinv | kpartm ]).

(* ------------------------------------------------------------------ handler stages (brute force) *)
Lemma wake_read_spec c r x : gsm 0 ptrue (wake_read c r) x.
Proof. revert x. hsm. Qed.
Lemma wake_drains_spec c r x : gsm 0 ptrue (wake_drains c r) x.
Proof. revert x. hsm. Qed.
Lemma sess_data_spec c x : gsm 0 (fun ch => rs ch = ROpen) (sess_data c) x.
Proof. revert x. hsm. Qed.
Lemma prw_spec c x : gsm 0 ptrue (prw c) x.
Proof. revert x. hsm. Qed.
Lemma close_send_spec c x : gsm 0 ptrue (close_send c) x.
Proof. revert x. hsm. Qed.
Lemma flush_tail2_spec c x : gsm 0 ptrue (flush_tail2 c) x.
Proof. revert x. hsm. Qed.

Ltac unf f := intros x; unfold gsm; unfold f; rewrite !force_eq; cbv zeta.
Lemma gsm_id0 n pre x : gsm n pre (fun x => x) x.
Proof. apply (gsm_weaken 0 n pre pre (fun x => x) x); [lia | auto | apply gsm_id]. Qed.

Lemma flush_tail_spec c x : gsm 0 ptrue (flush_tail c) x.
Proof. apply (gsm_comp 0 0 ptrue (prw c) (flush_tail2 c)); [apply prw_spec | apply flush_tail2_spec]. Qed.

Lemma write_eof_spec c x : gsm 0 ptrue (write_eof c) x.
Proof.
  revert x; unf write_eof. destruct (ss (x_ch x)); try apply (gsm_id0 0 ptrue x).
  apply (gsm_comp 0 0 ptrue (upc (set_ss SEofPending)) (flush_tail c) x); [apply upc_frame; frame | apply flush_tail_spec].
Qed.
Lemma chan_write_spec c cls x : gsm 0 ptrue (chan_write c cls) x.
Proof.
  revert x; unf chan_write. destruct (ss (x_ch x)); try apply (gsm_id0 0 ptrue x).
  apply (gsm_comp 0 0 ptrue (upc (set_sbuf cls)) (flush_tail c) x); [apply upc_frame; frame | apply flush_tail_spec].
Qed.
Lemma chan_adjust_spec c cls x : gsm 0 ptrue (chan_adjust c cls) x.
Proof.
  revert x; unf chan_adjust. destruct (sbuf (x_ch x)); try apply (flush_tail_spec c x);
  (apply (gsm_comp 0 0 ptrue (upc (set_sbuf cls)) (flush_tail c) x); [apply upc_frame; frame | apply flush_tail_spec]).
Qed.

Lemma flush_recv1_spec c x : gsm 0 ptrue (flush_recv1 c) x.
Proof. revert x. hsm. Qed.
Lemma eof_deliver_spec c x : gsm 0 (fun ch => rs ch = REofPending /\ rbuf ch = false) (eof_deliver c) x.
Proof. revert x. hsm. Qed.
Lemma eof_answer_spec c x : gsm 0 ptrue (eof_answer c) x.
Proof.
  revert x; unf eof_answer. destruct (negb (keep (x_ch x))); [apply (write_eof_spec c x) | apply (gsm_id0 0 ptrue x)].
Qed.
Lemma flush_recv2_spec c x : gsm 0 ptrue (flush_recv2 c) x.
Proof.
  revert x; unf flush_recv2.
  destruct (rbuf (x_ch x)) eqn:Eb; [apply (gsm_id0 0 ptrue x)|].
  destruct (rpause (x_ch x)); [apply (gsm_id0 0 ptrue x)| |];
    (destruct (rs (x_ch x)) eqn:Er; try apply (gsm_id0 0 ptrue x);
     apply (gsm_comp 0 0 ptrue (eof_deliver c) (eof_answer c) x);
     [ apply (gsm_weaken 0 0 (fun ch => rs ch = REofPending /\ rbuf ch = false) ptrue (eof_deliver c) x);
       [reflexivity | intros _; split; assumption | apply eof_deliver_spec]
     | apply eof_answer_spec ]).
Qed.
Lemma flush_recv3_spec c e x : gsm 1 ptrue (flush_recv3 c e) x.
Proof. revert x. hsm. Qed.
Lemma flush_recv_spec c e x : gsm 1 ptrue (flush_recv c e) x.
Proof.
  revert x; unf flush_recv.
  apply (gsm_comp 0 1 ptrue (fun x => flush_recv2 c (flush_recv1 c x)) (flush_recv3 c e) x).
  - apply (gsm_comp 0 0 ptrue (flush_recv1 c) (flush_recv2 c) x); [apply flush_recv1_spec | apply flush_recv2_spec].
  - apply flush_recv3_spec.
Qed.
Lemma discard_recv_spec c x : gsm 1 ptrue (discard_recv c) x.
Proof. revert x. hsm. Qed.

Lemma chan_close1_spec c x : gsm 0 ptrue (chan_close1 c) x.
Proof.
  revert x; unf chan_close1. destruct (ss_closing (ss (x_ch x))); [apply (gsm_id0 0 ptrue x)|].
  apply (gsm_comp 0 0 ptrue (upc (set_ss SClosePending)) (flush_tail c) x); [apply upc_frame; frame | apply flush_tail_spec].
Qed.
Lemma chan_abort1_spec c x : gsm 0 ptrue (chan_abort1 c) x.
Proof.
  revert x; unf chan_abort1. destruct (ss_closing (ss (x_ch x))); [apply (gsm_id0 0 ptrue x) | apply (close_send_spec c x)].
Qed.
Lemma chan_close2_spec c x : gsm 1 ptrue (chan_close2 c) x.
Proof.
  revert x; unf chan_close2.
  destruct (rs (x_ch x)); try apply (discard_recv_spec c x). apply (gsm_id0 1 ptrue x).
Qed.
Lemma chan_close_spec c x : gsm 1 ptrue (chan_close c) x.
Proof. apply (gsm_comp 0 1 ptrue (chan_close1 c) (chan_close2 c)); [apply chan_close1_spec | apply chan_close2_spec]. Qed.
Lemma chan_abort_spec c x : gsm 1 ptrue (chan_abort c) x.
Proof. apply (gsm_comp 0 1 ptrue (chan_abort1 c) (chan_close2 c)); [apply chan_abort1_spec | apply chan_close2_spec]. Qed.

Lemma chan_pause_spec x : gsm 0 ptrue chan_pause x.
Proof. apply upc_frame; frame. Qed.
Lemma chan_resume_spec c x : gsm 1 ptrue (chan_resume c) x.
Proof.
  revert x; unf chan_resume.
  destruct (rpause (x_ch x));
    try (apply (gsm_comp 0 1 ptrue (upc (set_rpause PRunning)) (flush_recv c false) x); [apply upc_frame; frame | apply flush_recv_spec]).
  apply (gsm_id0 1 ptrue x).
Qed.
Lemma start_reading_spec c x : gsm 1 ptrue (start_reading c) x.
Proof.
  revert x; unf start_reading.
  destruct (rpause (x_ch x));
    try (apply (gsm_comp 0 1 ptrue (upc (set_rpause PRunning)) (flush_recv c false) x); [apply upc_frame; frame | apply flush_recv_spec]);
    apply (gsm_id0 1 ptrue x).
Qed.

Lemma set_rbuf_true_spec x : gsm 0 (fun ch => rs ch = ROpen) (upc (set_rbuf true)) x.
Proof. revert x. hsm. Qed.
Lemma chan_data_spec c x : gsm 0 (fun ch => rs ch = ROpen) (chan_data c) x.
Proof.
  revert x; unf chan_data. destruct (ss_closing (ss (x_ch x))); [apply (gsm_id0 0 (fun ch => rs ch = ROpen) x)|].
  destruct (rpause (x_ch x)); try apply (set_rbuf_true_spec x). apply (sess_data_spec c x).
Qed.
Lemma set_rs_eofp_spec x : gsm 0 (fun ch => rs ch = ROpen) (upc (set_rs REofPending)) x.
Proof. revert x. hsm. Qed.
Lemma chan_peof_spec c x : gsm 1 (fun ch => rs ch = ROpen) (chan_peof c) x.
Proof.
  apply (gsm_comp 0 1 _ (upc (set_rs REofPending)) (flush_recv c false)); [apply set_rs_eofp_spec | apply flush_recv_spec].
Qed.
Lemma set_rs_closep_spec x : gsm 0 ptrue (upc (set_rs RClosePending)) x.
Proof. revert x. hsm. Qed.
Lemma chan_pclose_spec c x : gsm 1 ptrue (chan_pclose c) x.
Proof.
  revert x; unf chan_pclose.
  apply (gsm_comp 0 1 ptrue (fun x => upc (set_rs RClosePending) (close_send c x)) (flush_recv c false) x).
  - apply (gsm_comp 0 0 ptrue (close_send c) (upc (set_rs RClosePending)) x); [apply close_send_spec | apply set_rs_closep_spec].
  - apply flush_recv_spec.
Qed.

Lemma chan_request1_spec c w a x : gsm 0 ptrue (chan_request1 c w a) x.
Proof. revert x. hsm. Qed.
Lemma log_started_spec x :
  gsm 0 ptrue (fun x => match se (x_ch x) with SLive => upc (addlog CbStarted) x | _ => x end) x.
Proof. revert x. hsm. Qed.
Lemma chan_request2_spec c x : gsm 1 ptrue (chan_request2 c) x.
Proof.
  revert x; unf chan_request2.
  apply (gsm_comp 0 1 ptrue (fun x => match se (x_ch x) with SLive => upc (addlog CbStarted) x | _ => x end) (chan_resume c) x);
    [apply log_started_spec | apply chan_resume_spec].
Qed.
Lemma chan_request_spec c f w a x : gsm 1 ptrue (chan_request c f w a) x.
Proof.
  revert x; unf chan_request. destruct (a && f).
  - apply (gsm_comp 0 1 ptrue (chan_request1 c w a) (chan_request2 c) x); [apply chan_request1_spec | apply chan_request2_spec].
  - apply (gsm_weaken 0 1 ptrue ptrue (chan_request1 c w a) x); [lia | auto | apply chan_request1_spec].
Qed.

Lemma chan_wait_closed_spec c x : gsm 0 ptrue (chan_wait_closed c) x.
Proof. revert x. hsm. Qed.
Lemma chan_read_spec c x : gsm 0 ptrue (chan_read c) x.
Proof. revert x. hsm. Qed.
Lemma chan_drain_spec c x : gsm 0 ptrue (chan_drain c) x.
Proof. revert x. hsm. Qed.
Lemma finish_open_spec c x : gsm 1 ptrue (finish_open c) x.
Proof. revert x. hsm. Qed.

(* ------------------------------------------------ handlers that move the create() program counter *)
Lemma kspec_refl c x : kspec c 0 x x.
Proof. exists []. rewrite app_nil_r. simpl. repeat split; auto; lia. Qed.
Lemma kspec_trans c a b x y z : kspec c a x y -> kspec c b y z -> kspec c (a + b) x z.
Proof.
  intros (k1 & E1 & P1 & Q1 & N1) (k2 & E2 & P2 & Q2 & N2). exists (k1 ++ k2).
  split; [rewrite E2, E1, app_assoc; reflexivity|].
  split; [rewrite sum_of_app; lia|].
  split; [|apply forallb_app2; auto].
  intros Hq. destruct (Q2 Hq) as [E|I].
  - rewrite E in Hq |- *. destruct (Q1 Hq) as [E'|I']; [left; exact E' | right; apply in_or_app; left; exact I'].
  - right; apply in_or_app; right; exact I.
Qed.
Lemma gs_comp c a b pre f g x :
  gs c a pre f x -> gs c b ptrue g (f x) -> gs c (a + b) pre (fun x => g (f x)) x.
Proof.
  intros [I1 K1] [I2 K2]. split.
  - intros Hc Hp. apply I2; [apply I1; assumption | exact I].
  - intros Hp. eapply kspec_trans; [apply K1; exact Hp | apply K2; exact I].
Qed.

Lemma chan_cleanup_spec c e x : gs c 0 ptrue (chan_cleanup c e) x.
Proof. revert x. Time hs. Qed.
Lemma conn_close_chan_spec c e x : gs c 0 ptrue (conn_close_chan c e) x.
Proof.
  revert x; intros x; unfold gs, conn_close_chan; rewrite !force_eq.
  apply (gs_comp c 0 0 ptrue (fun x => close_send c (upc (set_ss SClosed) x)) (chan_cleanup c e) x).
  - apply gsm_gs. apply (gsm_comp 0 0 ptrue (upc (set_ss SClosed)) (close_send c) x); [apply upc_frame; frame | apply close_send_spec].
  - apply chan_cleanup_spec.
Qed.
Lemma chan_confirm_spec c x : gs c 0 (fun ch => is_open_wait ch = true /\ reg ch = true) (chan_confirm c) x.
Proof. revert x. hs. Qed.
Lemma chan_fail_spec c x : gs c 1 (fun ch => is_open_wait ch = true /\ reg ch = true) (chan_fail c) x.
Proof. revert x. hs. Qed.
Lemma chan_reply_spec c ok x : gs c 0 (fun ch => reg ch = true) (chan_reply c ok) x.
Proof. revert x. hs. Qed.

Lemma create_done_spec c r x : gs c 0 ptrue (create_done c r) x.
Proof. revert x. hs. Qed.
Lemma create_start_spec c tr x : gs c 0 (fun ch => pc ch = CStart) (create_start c tr) x.
Proof. revert x. hs. Qed.
Lemma sess_made_spec c x : gs c 0 (fun ch => pc ch = COpenRes WOk /\ reg ch = true) sess_made x.
Proof. revert x. hs. Qed.
Lemma req_sent_spec c st x :
  gs c 0 (fun ch => schan ch = true /\ pc_pot (CWaitReq st) <= pc_pot (pc ch) /\ pc_presess (pc ch) = false) (req_sent c st) x.
Proof.
  revert x. intros x; destruct x as [ch k0 p0 d0]; destruct ch; unfold gs; dmv;
  (split; [ fin_cinv | intros Hpre; cbn in Hpre; destruct Hpre as (Hs & Hp & _);
                       first [ discriminate Hs
                             | klist; split; [ cbn; cbn in Hp; lia | split; [ part3 | reflexivity ] ] ] ]).
Qed.
Lemma sess_started_spec c x :
  gs c 0 (fun ch => pc ch = CReqRes StFinal WOk /\ se ch = SLive) (sess_started c) x.
Proof. revert x. hs. Qed.

(* `if not result: self.close(); raise`: at most one callback pushed, the coroutine is finished *)
Lemma req_false_spec c x : gs c 0 (fun ch => 1 <= pc_pot (pc ch)) (req_false c) x.
Proof.
  unfold req_false.
  destruct (chan_close_spec c x) as [I1 K1].
  destruct (create_done_spec c WErr (chan_close c x)) as [I2 K2].
  split.
  - intros Hc _. apply I2; [apply I1; [exact Hc | exact I] | exact I].
  - intros Hp. destruct (K1 I) as (k1 & E1 & P1 & L1 & _ & N1).
    assert (Hd : pc (x_ch (create_done c WErr (chan_close c x))) = CDone WErr /\
                 x_k (create_done c WErr (chan_close c x)) = x_k (chan_close c x)).
    { unfold create_done. rewrite force_eq. destruct (chan_close c x) as [ch k p d]. split; reflexivity. }
    destruct Hd as [Hd Hk]. exists k1. split; [rewrite Hk, E1; reflexivity|].
    rewrite Hd. cbn [pc_pot pc_queued]. split; [lia | split; [discriminate | exact N1]].
Qed.
Lemma make_request_spec c st x :
  gs c 0 (fun ch => pc_pot (CWaitReq st) <= pc_pot (pc ch) /\ 1 <= pc_pot (pc ch) /\ pc_presess (pc ch) = false)
     (make_request c st) x.
Proof.
  unfold gs, make_request; rewrite !force_eq. destruct (schan (x_ch x)) eqn:Es.
  - destruct (req_sent_spec c st x) as [I K]. split; intros; [apply I | apply K]; intuition.
  - destruct (req_false_spec c x) as [I K]. split; intros; [apply I | apply K]; intuition.
Qed.

Lemma create_step_spec c tr x : gs c 0 ptrue (create_step c tr) x.
Proof.
  unfold create_step, create_step_gen, gs; rewrite !force_eq; cbn [andb].
  pose proof (kspec_refl c x) as Kid.
  destruct (pc (x_ch x)) as [| | |r| |st|st r|r] eqn:Epc; try (split; [auto | intros; exact Kid]).
  - (* CStart *)
    destruct (create_start_spec c tr x) as [I K]. split; intros; [apply I | apply K]; auto.
  - (* COpenRes r *)
    destruct r; try (destruct (create_done_spec c WErr x) as [I K]; split; intros; [apply I | apply K]; auto; fail).
    destruct (negb (reg (x_ch x))) eqn:Er.
    + destruct (create_done_spec c WErr x) as [I K]. split; intros; [apply I | apply K]; auto.
    + apply Bool.negb_false_iff in Er.
      destruct (sess_made_spec c x) as [I1 K1].
      assert (Hpc : pc (x_ch (sess_made x)) = CMade) by (destruct x as [ch k p d]; reflexivity).
      assert (Hpty : pty (x_ch (sess_made x)) = pty (x_ch x)) by (destruct x as [ch k p d]; destruct ch; reflexivity).
      destruct (make_request_spec c (if pty (x_ch x) then StPty else StFinal) (sess_made x)) as [I2 K2].
      assert (Hp2 : pc_pot (CWaitReq (if pty (x_ch x) then StPty else StFinal)) <= pc_pot (pc (x_ch (sess_made x))) /\
                    1 <= pc_pot (pc (x_ch (sess_made x))) /\ pc_presess (pc (x_ch (sess_made x))) = false).
      { rewrite Hpc. destruct (pty (x_ch x)); cbn; repeat split; lia. }
      split.
      * intros Hc _. apply I2; [apply I1; auto | exact Hp2].
      * intros _. replace 0 with (0 + 0) by reflexivity. eapply kspec_trans; [apply K1; auto | apply K2; exact Hp2].
  - (* CReqRes st r *)
    destruct st, r.
    + (* pty ok -> final request *)
      destruct (make_request_spec c StFinal x) as [I K]. rewrite Epc in *.
      split; intros; [apply I | apply K]; cbn; auto; repeat split; lia.
    + destruct (req_false_spec c x) as [I K]. rewrite Epc in *. split; intros; [apply I | apply K]; cbn; auto; lia.
    + destruct (create_done_spec c WErr x) as [I K]. split; intros; [apply I | apply K]; auto.
    + destruct (se (x_ch x)) eqn:Ese.
      * destruct (create_done_spec c WErr x) as [I K]. split; intros; [apply I | apply K]; auto.
      * destruct (sess_started_spec c x) as [I K]. split; intros; [apply I | apply K]; auto.
      * destruct (create_done_spec c WErr x) as [I K]. split; intros; [apply I | apply K]; auto.
    + destruct (req_false_spec c x) as [I K]. rewrite Epc in *. split; intros; [apply I | apply K]; cbn; auto; lia.
    + destruct (create_done_spec c WErr x) as [I K]. split; intros; [apply I | apply K]; auto.
Qed.

(* after a run of create() the coroutine is never left "queued" *)
Lemma create_step_unq c tr x : pc_queued (pc (x_ch (create_step c tr x))) = false.
Proof.
  assert (Hd : forall r y, pc (x_ch (create_done c r y)) = CDone r)
    by (intros r y; unfold create_done; rewrite force_eq; destruct y as [ch k p d]; reflexivity).
  assert (Hrf : forall y, pc (x_ch (req_false c y)) = CDone WErr) by (intros y; unfold req_false; apply Hd).
  assert (Hmr : forall st y, pc_queued (pc (x_ch (make_request c st y))) = false).
  { intros st y. unfold make_request. rewrite force_eq. destruct (schan (x_ch y)).
    - unfold req_sent. rewrite force_eq. destruct (csend (KtReq c st) y) as [ch k p d]. reflexivity.
    - rewrite Hrf. reflexivity. }
  unfold create_step, create_step_gen; rewrite !force_eq; cbn [andb].
  destruct (pc (x_ch x)) as [| | |r| |st|st r|r] eqn:Epc; try (rewrite Epc; reflexivity).
  - unfold create_start. rewrite force_eq. destruct tr; [destruct x as [ch k p d]; reflexivity | rewrite Hd; reflexivity].
  - destruct r; try (rewrite Hd; reflexivity). destruct (negb (reg (x_ch x))); [rewrite Hd; reflexivity | apply Hmr].
  - destruct st, r; try (rewrite Hd; reflexivity); try (rewrite Hrf; reflexivity); try apply Hmr.
    destruct (se (x_ch x)); try (rewrite Hd; reflexivity).
    unfold sess_started. rewrite force_eq.
    destruct (create_done c WOk (upc (fun ch : chan => set_handle true (addlog CbStarted ch)) x)) as [ch k p d] eqn:E.
    assert (pc ch = CDone WOk) by (change ch with (x_ch (mkCx ch k p d)); rewrite <- E; apply Hd).
    cbn. rewrite H. reflexivity.
Qed.

