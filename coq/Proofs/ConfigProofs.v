(* Proofs about Model/Config.v *)
Require Import Coq.Strings.String.
From AV Require Import Base.Prelude Model.Config.

(* ============================================================================================ *)
(* generic facts                                                                                 *)

Lemma str_eqb_eq a b : str_eqb a b = true <-> a = b.
Proof. apply zlist_eqb_spec. Qed.

Lemma str_eqb_refl a : str_eqb a a = true.
Proof. apply zlist_eqb_refl. Qed.

Lemma str_eqb_neq a b : str_eqb a b = false <-> a <> b.
Proof.
  split.
  - intros H E. apply str_eqb_eq in E. congruence.
  - intros H. destruct (str_eqb a b) eqn:E; [|reflexivity]. apply str_eqb_eq in E. contradiction.
Qed.

Lemma str_eqb_sym a b : str_eqb a b = str_eqb b a.
Proof.
  destruct (str_eqb a b) eqn:E1, (str_eqb b a) eqn:E2; try reflexivity.
  - apply str_eqb_eq in E1. subst. rewrite str_eqb_refl in E2. discriminate.
  - apply str_eqb_eq in E2. subst. rewrite str_eqb_refl in E1. discriminate.
Qed.

Lemma mem_In x l : mem x l = true <-> In x l.
Proof.
  induction l as [|y r IH]; simpl.
  - split; [discriminate | intros []].
  - rewrite orb_true_iff, Z.eqb_eq, IH. split; intros [H|H]; auto.
Qed.

Lemma mem_false x l : mem x l = false <-> ~ In x l.
Proof.
  rewrite <- mem_In. destruct (mem x l); split; intros H.
  - discriminate.
  - exfalso. apply H. reflexivity.
  - intros H2. discriminate.
  - reflexivity.
Qed.

Lemma lookup_update_same {A} k (v : A) l : lookup k (update k v l) = Some v.
Proof.
  induction l as [|[k' v'] r IH]; simpl.
  - rewrite str_eqb_refl. reflexivity.
  - destruct (str_eqb k k') eqn:E; simpl.
    + rewrite str_eqb_refl. reflexivity.
    + rewrite E. exact IH.
Qed.

Lemma lookup_update_other {A} k k' (v : A) l : k <> k' -> lookup k (update k' v l) = lookup k l.
Proof.
  intros Hne. induction l as [|[k2 v2] r IH]; simpl.
  - apply str_eqb_neq in Hne. rewrite Hne. reflexivity.
  - destruct (str_eqb k' k2) eqn:E; simpl.
    + apply str_eqb_eq in E. subst k2. apply str_eqb_neq in Hne. rewrite Hne. reflexivity.
    + destruct (str_eqb k k2); [reflexivity | exact IH].
Qed.

Lemma lookup_set_once_other k k' v l : k <> k' -> lookup k (set_once k' v l) = lookup k l.
Proof.
  intros Hne. unfold set_once. destruct (lookup k' l); [reflexivity|]. apply lookup_update_other. exact Hne.
Qed.

Lemma lookup_set_once_kept k k' v v0 l : lookup k l = Some v0 -> lookup k (set_once k' v l) = Some v0.
Proof.
  intros H. destruct (str_eqb k k') eqn:E.
  - apply str_eqb_eq in E. subst k'. unfold set_once. rewrite H. exact H.
  - apply str_eqb_neq in E. rewrite lookup_set_once_other; assumption.
Qed.

Lemma lookup_set_once_fresh k v l : lookup k l = None -> lookup k (set_once k v l) = Some v.
Proof. intros H. unfold set_once. rewrite H. apply lookup_update_same. Qed.

(* ============================================================================================ *)
(* C18_safe_user: what a user name that passes the filter cannot do to a path                    *)

Lemma has_env_ref_false_expand environ s :
  has_env_ref s = false -> expand_env_go environ s O = Ok s.
Proof.
  induction s as [|c r IH]; intros H; [reflexivity|].
  cbn [has_env_ref] in H. apply orb_false_iff in H as [H1 H2].
  cbn [expand_env_go]. destruct r as [|d r2]; [reflexivity|]. cbv beta iota in H1.
  destruct ((c =? DOLLAR) && (d =? LBRACE)) eqn:Hc.
  - cbn [andb] in H1.
    destruct (take_name r2); [discriminate|].
    rewrite (IH H2). reflexivity.
  - rewrite (IH H2). reflexivity.
Qed.

Lemma unsafe_user_false u :
  unsafe_user u = false ->
  u <> [DOT; DOT] /\ u <> [DOT; DOT; NL] /\ starts_with TILDE u = false /\
  (forall c r, u = c :: COLON :: r -> is_alpha c = false) /\
  ~ In SLASH u /\ ~ In BSL u /\ has_env_ref u = false.
Proof.
  unfold unsafe_user. intros H.
  repeat (apply orb_false_iff in H as [H ?]).
  repeat split; try assumption.
  - apply str_eqb_neq. assumption.
  - apply str_eqb_neq. assumption.
  - intros c r ->. match goal with Hd : (is_alpha c && _) = false |- _ => rename Hd into Hdrive end.
    rewrite Z.eqb_refl, andb_true_r in Hdrive. exact Hdrive.
  - apply mem_false. assumption.
  - apply mem_false. assumption.
Qed.

Lemma split_on_length_pos sep s : (length (split_on sep s) >= 1)%nat.
Proof.
  destruct s as [|c r]; simpl; [lia|]. destruct (c =? sep); simpl; [lia|].
  destruct (split_on sep r); simpl; lia.
Qed.

Lemma split_on_cons_length sep c r :
  length (split_on sep (c :: r)) = if c =? sep then S (length (split_on sep r)) else length (split_on sep r).
Proof.
  simpl. destruct (c =? sep); [reflexivity|].
  pose proof (split_on_length_pos sep r) as Hp.
  destruct (split_on sep r); simpl in *; lia.
Qed.

Lemma split_on_length_app sep a b :
  length (split_on sep (a ++ b)) = (length (split_on sep a) + length (split_on sep b) - 1)%nat.
Proof.
  induction a as [|c r IH].
  - simpl. pose proof (split_on_length_pos sep b). lia.
  - change ((c :: r) ++ b) with (c :: (r ++ b)). rewrite !split_on_cons_length, IH.
    pose proof (split_on_length_pos sep r). pose proof (split_on_length_pos sep b).
    destruct (c =? sep); lia.
Qed.

Lemma split_on_no_sep_length sep u : ~ In sep u -> length (split_on sep u) = 1%nat.
Proof.
  induction u as [|c r IH]; intros H; [reflexivity|].
  simpl. destruct (Z.eqb_spec c sep) as [->|Hne].
  - exfalso. apply H. left. reflexivity.
  - assert (Hr : ~ In sep r) by (intros Hi; apply H; right; exact Hi).
    specialize (IH Hr). destruct (split_on sep r); simpl in *; [discriminate|]. exact IH.
Qed.

(* substituting a slash-free text anywhere in a path keeps the number of components *)
Lemma subst_keeps_components u pre post :
  ~ In SLASH u ->
  length (split_on SLASH (pre ++ u ++ post)) = length (split_on SLASH (pre ++ post)).
Proof.
  intros H. rewrite !split_on_length_app. rewrite (split_on_no_sep_length _ _ H).
  pose proof (split_on_length_pos SLASH pre). pose proof (split_on_length_pos SLASH post). lia.
Qed.

Theorem safe_user_facts u :
  unsafe_user u = false ->
  (forall pre post, length (split_on SLASH (pre ++ u ++ post)) = length (split_on SLASH (pre ++ post))) /\
  ~ In BSL u /\ u <> [DOT; DOT] /\ starts_with TILDE u = false /\
  (forall c r, u = c :: COLON :: r -> is_alpha c = false) /\
  (forall environ, expand_env environ u = Ok u).
Proof.
  intros H. apply unsafe_user_false in H as (H1 & _ & H3 & H4 & H5 & H6 & H7).
  repeat split; try assumption.
  - intros pre post. apply subst_keeps_components. exact H5.
  - intros environ. apply has_env_ref_false_expand. exact H7.
Qed.

(* ============================================================================================ *)
(* tables                                                                                        *)

Definition set_once_kind (k : kind) : bool :=
  match k with
  | KAddrFam | KBool | KBoolOrStr | KInt | KString | KStringList | KCanonHost | KRekey | KHostname
  | KRequestTTY => true
  | _ => false
  end.
Definition append_kind (k : kind) : bool :=
  match k with KAppendString | KAppendStringList => true | _ => false end.

Fixpoint kind_of (tbl : list (str * kind)) (o : str) : option kind :=
  match tbl with
  | [] => None
  | (o', k) :: r => if str_eqb o o' then Some k else kind_of r o
  end.
Fixpoint names_unique (tbl : list (str * kind)) : bool :=
  match tbl with
  | [] => true
  | (o, _) :: r => negb (existsb (fun p => str_eqb o (fst p)) r) && names_unique r
  end.

Lemma client_table_unique : names_unique client_table = true.
Proof. vm_compute. reflexivity. Qed.
Lemma server_table_unique : names_unique server_table = true.
Proof. vm_compute. reflexivity. Qed.
Lemma table_unique E : names_unique (table E) = true.
Proof. unfold table. destruct (e_client E); [apply client_table_unique | apply server_table_unique]. Qed.

Lemma lookup_handler_in_In tbl lo o k : lookup_handler_in tbl lo = Some (o, k) -> In (o, k) tbl.
Proof.
  induction tbl as [|[o' k'] r IH]; simpl; [discriminate|].
  destruct (str_eqb (lower o') lo).
  - intros H. inversion H; subst. left. reflexivity.
  - intros H. right. apply IH. exact H.
Qed.

Lemma kind_of_In tbl o k : names_unique tbl = true -> In (o, k) tbl -> kind_of tbl o = Some k.
Proof.
  induction tbl as [|[o' k'] r IH]; simpl; [intros _ []|].
  intros Hu Hin. apply andb_true_iff in Hu as [Hn Hu].
  destruct Hin as [Heq|Hin].
  - inversion Heq; subst. rewrite str_eqb_refl. reflexivity.
  - destruct (str_eqb o o') eqn:E.
    + exfalso. apply str_eqb_eq in E. subst o'.
      apply negb_true_iff in Hn.
      assert (Hex : existsb (fun p : str * kind => str_eqb o (fst p)) r = true).
      { apply existsb_exists. exists (o, k). split; [exact Hin|]. simpl. apply str_eqb_refl. }
      congruence.
    + apply IH; assumption.
Qed.

(* ============================================================================================ *)
(* monadic folds                                                                                 *)

Lemma fold_bind_err {A} (f : state -> A -> res state) l e :
  fold_left (fun acc a => bind acc (fun s => f s a)) l (Err e) = Err e.
Proof. induction l as [|a r IH]; simpl; [reflexivity | exact IH]. Qed.

Lemma fold_bind_cons {A} (f : state -> A -> res state) a l st :
  fold_left (fun acc a => bind acc (fun s => f s a)) (a :: l) (Ok st)
  = match f st a with
    | Ok st1 => fold_left (fun acc a => bind acc (fun s => f s a)) l (Ok st1)
    | Err e => Err e
    end.
Proof. simpl. destruct (f st a); [reflexivity | apply fold_bind_err]. Qed.

Lemma fold_bind_inv {A} (P : state -> state -> Prop) (f : state -> A -> res state) :
  (forall s, P s s) -> (forall a b c, P a b -> P b c -> P a c) ->
  forall l, (forall s a s', In a l -> f s a = Ok s' -> P s s') ->
  forall st st', fold_left (fun acc a => bind acc (fun s => f s a)) l (Ok st) = Ok st' -> P st st'.
Proof.
  intros Hrefl Htrans l. induction l as [|a r IH]; intros Hf st st' H.
  - simpl in H. inversion H; subst. apply Hrefl.
  - rewrite fold_bind_cons in H. destruct (f st a) as [st1|e] eqn:E; [|discriminate].
    apply Htrans with st1.
    + apply (Hf st a st1); [left; reflexivity | exact E].
    + apply IH; [|exact H]. intros s a0 s' Hin. apply Hf. right. exact Hin.
Qed.

(* ============================================================================================ *)
(* A relation on option maps that every setter respects is respected by whole files.             *)

Section Preservation.
  Variable E : env.
  Variable R : opts -> opts -> Prop.
  Hypothesis R_refl : forall os, R os os.
  Hypothesis R_trans : forall a b c, R a b -> R b c -> R a c.
  Hypothesis R_setter : forall o k args os os' rest,
      In (o, k) (table E) -> run_setter k o args os = Ok (os', rest) -> R os os'.
  Hypothesis R_hostname : forall o os v,
      In (o, KHostname) (table E) -> lookup o os = None -> R os (update o (VStr v) os).
  Hypothesis R_finish : q_expand_each_parse (e_quirks E) = true ->
      forall st st', finish E st = Ok st' -> R (s_opts st) (s_opts st').

  Definition RS (a b : state) : Prop := R (s_opts a) (s_opts b).

  Lemma RS_refl s : RS s s.
  Proof. apply R_refl. Qed.
  Lemma RS_trans a b c : RS a b -> RS b c -> RS a c.
  Proof. apply R_trans. Qed.

  Lemma run_handler_R rec k o args st st' rest :
    (forall p s s', rec p s = Ok s' -> RS s s') ->
    In (o, k) (table E) ->
    run_handler rec E k o args st = Ok (st', rest) -> RS st st'.
  Proof.
    intros Hrec Hin H. unfold RS.
    destruct k; cbn [run_handler] in H;
      try (destruct (run_setter _ o args (s_opts st)) as [[os' r']|e] eqn:Es; cbn [bind] in H; [|discriminate];
           inversion H; subst; cbn [with_opts s_opts fst];
           eapply R_setter; eassumption).
    - (* Host *) inversion H; subst. apply R_refl.
    - (* Match *)
      destruct (eval_match E (s_opts st) args true (s_final st)) as [[m f]|e]; cbn [bind] in H; [|discriminate].
      inversion H; subst. apply R_refl.
    - (* Include *)
      match type of H with bind ?X _ = _ => destruct X as [s2|e] eqn:Ef end; cbn [bind] in H; [|discriminate].
      inversion H; subst. cbn [with_matching s_opts].
      change (RS st s2).
      revert Ef. apply (fold_bind_inv RS
        (fun s1 pat => bind (glob E pat) (fun paths =>
           fold_left (fun acc2 p => bind acc2 (rec p)) paths (Ok s1)))); [apply RS_refl | apply RS_trans |].
      intros s pat s' _ Hg. destruct (glob E pat) as [paths|e]; cbn [bind] in Hg; [|discriminate].
      revert Hg. apply (fold_bind_inv RS (fun s p => rec p s)); [apply RS_refl | apply RS_trans |].
      intros s0 p s0' _. apply Hrec.
    - (* Hostname *)
      destruct args as [|a rest0]; [discriminate|].
      destruct (lookup o (s_opts st)) eqn:El.
      + inversion H; subst. apply R_refl.
      + destruct (expand_val _ (e_environ E) a) as [v|e]; cbn [bind] in H; [|discriminate].
        inversion H; subst. cbn [s_opts]. apply R_hostname; assumption.
  Qed.

  Lemma step_R rec raw st st' :
    (forall p s s', rec p s = Ok s' -> RS s s') ->
    step rec E raw st = Ok st' -> RS st st'.
  Proof.
    intros Hrec H. unfold step in H.
    destruct (strip raw) as [|c line'] eqn:El; [inversion H; subst; apply RS_refl|].
    destruct (c =? HASH); [inversion H; subst; apply RS_refl|].
    destruct (shlex_split (c :: line')) as [toks|]; [|discriminate].
    destruct (split_line (is_cond E) toks) as [[lo args0]|]; [|discriminate].
    destruct (negb (s_matching st) && negb (is_cond E lo)); [inversion H; subst; apply RS_refl|].
    destruct (lookup_handler E lo) as [[o k]|] eqn:Eh; [|inversion H; subst; apply RS_refl].
    apply lookup_handler_in_In in Eh.
    match type of H with match ?A with [] => _ | _ :: _ => _ end = _ => destruct A as [|a0 ar] eqn:Ea end; [discriminate|].
    destruct (run_handler rec E k o (a0 :: ar) st) as [[st1 rest]|e] eqn:Er; [|discriminate].
    destruct rest; [|discriminate]. inversion H; subst.
    eapply run_handler_R; eassumption.
  Qed.

  Lemma run_lines_R rec lines st st' :
    (forall p s s', rec p s = Ok s' -> RS s s') ->
    run_lines rec E lines st = Ok st' -> RS st st'.
  Proof.
    intros Hrec. revert st. induction lines as [|l r IH]; intros st H; simpl in H.
    - inversion H; subst. apply RS_refl.
    - destruct (step rec E l st) as [st1|e] eqn:Es; [|discriminate].
      apply RS_trans with st1; [eapply step_R; eassumption | apply IH; exact H].
  Qed.

  Lemma parse_file_R fuel path st st' :
    parse_file fuel E path st = Ok st' -> RS st st'.
  Proof.
    revert path st st'. induction fuel as [|f IH]; intros path st st' H; [discriminate|].
    cbn [parse_file] in H.
    destruct (lookup path (e_fs E)) as [lines|]; [|discriminate].
    match type of H with bind (run_lines _ _ _ ?S0) _ = _ => set (st0 := S0) in * end.
    destruct (run_lines (parse_file f E) E lines st0) as [st1|e] eqn:Er; cbn [bind] in H; [|discriminate].
    assert (H01 : RS st0 st1) by (eapply run_lines_R; [exact IH | exact Er]).
    assert (Hs0 : RS st st0) by (unfold RS, st0; cbn [s_opts]; apply R_refl).
    destruct (q_expand_each_parse (e_quirks E)) eqn:Eq.
    - apply RS_trans with st0; [exact Hs0|]. apply RS_trans with st1; [exact H01|].
      apply (R_finish eq_refl). exact H.
    - inversion H; subst. apply RS_trans with st0; assumption.
  Qed.

  Lemma parse_files_R fuel paths st st' :
    fold_left (fun (acc : res state) (p : str) => bind acc (parse_file fuel E p)) paths (Ok st) = Ok st' -> RS st st'.
  Proof.
    apply (fold_bind_inv RS (fun s p => parse_file fuel E p s)); [apply RS_refl | apply RS_trans |].
    intros s p s' _. apply parse_file_R.
  Qed.
End Preservation.

(* ============================================================================================ *)
(* setters                                                                                       *)

Ltac break_match_hyp H :=
  repeat match type of H with
         | context [match ?x with _ => _ end] =>
             first [ is_var x; destruct x | let Eq := fresh "Eq" in destruct x eqn:Eq ]
         end.

Lemma run_setter_other k o o' args os os' rest :
  run_setter k o' args os = Ok (os', rest) -> o <> o' -> lookup o os' = lookup o os.
Proof.
  intros H Hne. unfold run_setter in H. destruct args as [|a r]; [discriminate|].
  destruct k; break_match_hyp H; try discriminate; inversion H; subst; clear H;
    try (apply lookup_set_once_other; assumption);
    try (apply lookup_update_other; assumption); try reflexivity.
Qed.

Lemma run_setter_kept k o args os os' rest v :
  set_once_kind k = true ->
  run_setter k o args os = Ok (os', rest) -> lookup o os = Some v -> lookup o os' = Some v.
Proof.
  intros Hk H Hl. unfold run_setter in H. destruct args as [|a r]; [discriminate|].
  destruct k; try discriminate Hk; break_match_hyp H; try discriminate; inversion H; subst; clear H;
    apply lookup_set_once_kept; assumption.
Qed.

Lemma run_setter_append k o args os os' rest l :
  append_kind k = true ->
  run_setter k o args os = Ok (os', rest) -> lookup o os = Some (VList l) ->
  exists l', lookup o os' = Some (VList (l ++ l')).
Proof.
  intros Hk H Hl. unfold run_setter in H. destruct args as [|a r]; [discriminate|].
  destruct k; try discriminate Hk; rewrite Hl in H.
  - (* KAppendString *)
    destruct (str_eqb (lower a) (z "none")).
    + inversion H; subst. exists []. rewrite app_nil_r. apply lookup_set_once_kept. exact Hl.
    + inversion H; subst. exists [a]. apply lookup_update_same.
  - (* KAppendStringList *)
    inversion H; subst. exists (a :: r). apply lookup_update_same.
Qed.

(* what a set-once line contributes when the option has no value yet: a value that depends on the
   line only *)
Definition line_value (k : kind) (args : list str) : option value :=
  match run_setter k [] args [] with
  | Ok (os, _) => lookup [] os
  | Err _ => None
  end.

Lemma run_setter_fresh k o args os os' rest :
  set_once_kind k = true -> k <> KHostname ->
  run_setter k o args os = Ok (os', rest) -> lookup o os = None ->
  exists v, line_value k args = Some v /\ lookup o os' = Some v.
Proof.
  intros Hk Hh H Hl. unfold line_value, run_setter in *. destruct args as [|a r]; [discriminate|].
  destruct k; try discriminate Hk; try congruence; break_match_hyp H; try discriminate; inversion H; subst; clear H;
    eexists; (split; [reflexivity | apply lookup_set_once_fresh; exact Hl]).
Qed.

(* ============================================================================================ *)
(* expansion touches only the listed options                                                     *)

Lemma expand_opts_other toks environ which os os' o :
  expand_opts toks environ which os = Ok os' -> mem_str o which = false -> lookup o os' = lookup o os.
Proof.
  revert os'. induction os as [|[o1 v1] r IH]; intros os' H Hm; simpl in H.
  - inversion H; subst. reflexivity.
  - destruct (mem_str o1 which) eqn:Em.
    + destruct (expand_value toks environ v1) as [v1'|e]; cbn [bind] in H; [|discriminate].
      destruct (expand_opts toks environ which r) as [r'|e]; cbn [bind] in H; [|discriminate].
      inversion H; subst. simpl. destruct (str_eqb o o1) eqn:Eo.
      * apply str_eqb_eq in Eo. subst. congruence.
      * apply IH; [reflexivity | exact Hm].
    + cbn [bind] in H.
      destruct (expand_opts toks environ which r) as [r'|e]; cbn [bind] in H; [|discriminate].
      inversion H; subst. simpl. destruct (str_eqb o o1); [reflexivity|]. apply IH; [reflexivity | exact Hm].
Qed.

Lemma finish_other E st st' o :
  finish E st = Ok st' -> mem_str o (pct_expand E) = false -> lookup o (s_opts st') = lookup o (s_opts st).
Proof.
  unfold finish. intros H Hm.
  destruct (set_tokens E st) as [toks|e]; cbn [bind] in H; [|discriminate].
  destruct (expand_opts toks (e_environ E) (pct_expand E) (s_opts st)) as [os|e] eqn:Ee; cbn [bind] in H; [|discriminate].
  inversion H; subst. cbn [s_opts]. eapply expand_opts_other; eassumption.
Qed.

(* ============================================================================================ *)
(* first value wins                                                                              *)

Section FirstWins.
  Variable E : env.
  Variable o : str.
  Variable k : kind.
  Hypothesis Hkind : kind_of (table E) o = Some k.
  Hypothesis Hset : set_once_kind k = true.
  Hypothesis Hpct : mem_str o (pct_expand E) = false.

  Definition keeps (a b : opts) : Prop := forall v, lookup o a = Some v -> lookup o b = Some v.

  Lemma keeps_setter o' k' args os os' rest :
    In (o', k') (table E) -> run_setter k' o' args os = Ok (os', rest) -> keeps os os'.
  Proof.
    intros Hin H v Hv. destruct (str_eqb o o') eqn:Eo.
    - apply str_eqb_eq in Eo. subst o'.
      assert (k' = k) by (apply (kind_of_In _ _ _ (table_unique E)) in Hin; congruence). subst k'.
      eapply run_setter_kept; eassumption.
    - apply str_eqb_neq in Eo. rewrite (run_setter_other _ _ _ _ _ _ _ H Eo). exact Hv.
  Qed.

  Lemma keeps_hostname o' os v' :
    In (o', KHostname) (table E) -> lookup o' os = None -> keeps os (update o' (VStr v') os).
  Proof.
    intros _ Hn v Hv. destruct (str_eqb o o') eqn:Eo.
    - apply str_eqb_eq in Eo. subst. congruence.
    - apply str_eqb_neq in Eo. rewrite lookup_update_other; assumption.
  Qed.

  Lemma keeps_finish : q_expand_each_parse (e_quirks E) = true ->
    forall st st', finish E st = Ok st' -> keeps (s_opts st) (s_opts st').
  Proof. intros _ st st' H v Hv. rewrite (finish_other _ _ _ _ H Hpct). exact Hv. Qed.

  Theorem first_wins_file fuel path st st' v :
    lookup o (s_opts st) = Some v -> parse_file fuel E path st = Ok st' -> lookup o (s_opts st') = Some v.
  Proof.
    intros Hv H.
    apply (parse_file_R E keeps) in H.
    - apply H. exact Hv.
    - intros os v0 H0. exact H0.
    - intros a b c Hab Hbc v0 H0. apply Hbc, Hab, H0.
    - intros. eapply keeps_setter; eassumption.
    - intros. apply keeps_hostname; assumption.
    - exact keeps_finish.
  Qed.

  Theorem first_wins_load fuel base user port paths os fin v :
    lookup o (init_opts E base user port) = Some v ->
    load fuel E base user port paths = Ok (os, fin) -> lookup o os = Some v.
  Proof.
    intros Hv H. unfold load in H.
    match type of H with bind ?X _ = _ => destruct X as [st1|e] eqn:Ef end; cbn [bind] in H; [|discriminate].
    apply (parse_files_R E keeps) in Ef.
    - unfold RS in Ef. cbn [s_opts] in Ef. specialize (Ef v Hv).
      match type of H with bind ?X _ = _ => destruct X as [st2|e] eqn:E2 end; cbn [bind] in H; [|discriminate].
      inversion H; subst.
      destruct paths; [inversion E2; subst; exact Ef|].
      destruct (q_expand_each_parse (e_quirks E)); [inversion E2; subst; exact Ef|].
      rewrite (finish_other _ _ _ _ E2 Hpct). exact Ef.
    - intros os0 v0 H0. exact H0.
    - intros a b c Hab Hbc v0 H0. apply Hbc, Hab, H0.
    - intros. eapply keeps_setter; eassumption.
    - intros. apply keeps_hostname; assumption.
    - exact keeps_finish.
  Qed.
End FirstWins.

(* ============================================================================================ *)
(* list options accumulate                                                                       *)

Section Lists.
  Variable E : env.
  Variable o : str.
  Variable k : kind.
  Hypothesis Hkind : kind_of (table E) o = Some k.
  Hypothesis Happ : append_kind k = true.
  (* either the option is not subject to expansion, or files are not expanded one by one *)
  Hypothesis Hpct : mem_str o (pct_expand E) = false \/ q_expand_each_parse (e_quirks E) = false.

  Definition extends (a b : opts) : Prop :=
    forall l, lookup o a = Some (VList l) -> exists l', lookup o b = Some (VList (l ++ l')).

  Lemma extends_refl a : extends a a.
  Proof. intros l H. exists []. rewrite app_nil_r. exact H. Qed.

  Lemma extends_trans a b c : extends a b -> extends b c -> extends a c.
  Proof.
    intros Hab Hbc l H. destruct (Hab l H) as [l1 H1]. destruct (Hbc _ H1) as [l2 H2].
    exists (l1 ++ l2). rewrite app_assoc. exact H2.
  Qed.

  Lemma extends_setter o' k' args os os' rest :
    In (o', k') (table E) -> run_setter k' o' args os = Ok (os', rest) -> extends os os'.
  Proof.
    intros Hin H l Hl. destruct (str_eqb o o') eqn:Eo.
    - apply str_eqb_eq in Eo. subst o'.
      assert (k' = k) by (apply (kind_of_In _ _ _ (table_unique E)) in Hin; congruence). subst k'.
      eapply run_setter_append; eassumption.
    - apply str_eqb_neq in Eo. exists []. rewrite app_nil_r, (run_setter_other _ _ _ _ _ _ _ H Eo). exact Hl.
  Qed.

  Lemma extends_hostname o' os v' :
    In (o', KHostname) (table E) -> lookup o' os = None -> extends os (update o' (VStr v') os).
  Proof.
    intros _ Hn l Hl. exists []. rewrite app_nil_r. destruct (str_eqb o o') eqn:Eo.
    - apply str_eqb_eq in Eo. subst. congruence.
    - apply str_eqb_neq in Eo. rewrite lookup_update_other; assumption.
  Qed.

  Lemma extends_finish : q_expand_each_parse (e_quirks E) = true ->
    forall st st', finish E st = Ok st' -> extends (s_opts st) (s_opts st').
  Proof.
    intros Hq st st' H l Hl. destruct Hpct as [Hp|Hp]; [|congruence].
    exists []. rewrite app_nil_r, (finish_other _ _ _ _ H Hp). exact Hl.
  Qed.

  Theorem lists_accumulate_file fuel path st st' l :
    lookup o (s_opts st) = Some (VList l) -> parse_file fuel E path st = Ok st' ->
    exists l', lookup o (s_opts st') = Some (VList (l ++ l')).
  Proof.
    intros Hl H. apply (parse_file_R E extends) in H.
    - apply H. exact Hl.
    - exact extends_refl.
    - exact extends_trans.
    - intros. eapply extends_setter; eassumption.
    - intros. apply extends_hostname; assumption.
    - exact extends_finish.
  Qed.
End Lists.

(* one line of an append option adds exactly its arguments at the end *)
Lemma append_list_step o args os l :
  args <> [] -> lookup o os = Some (VList l) ->
  exists os', run_setter KAppendStringList o args os = Ok (os', []) /\ lookup o os' = Some (VList (l ++ args)).
Proof.
  intros Ha Hl. destruct args as [|a r]; [congruence|]. unfold run_setter. rewrite Hl.
  eexists. split; [reflexivity | apply lookup_update_same].
Qed.

Lemma append_string_step o a rest os l :
  str_eqb (lower a) (z "none") = false -> lookup o os = Some (VList l) ->
  exists os', run_setter KAppendString o (a :: rest) os = Ok (os', rest) /\ lookup o os' = Some (VList (l ++ [a])).
Proof.
  intros Hn Hl. unfold run_setter. rewrite Hn, Hl. eexists. split; [reflexivity | apply lookup_update_same].
Qed.

(* ============================================================================================ *)
(* lines outside a matching block do nothing                                                     *)

Theorem unmatched_line_inert rec E raw st st' :
  s_matching st = false ->
  (forall toks lo args, shlex_split (strip raw) = Some toks -> split_line (is_cond E) toks = Some (lo, args) ->
                        is_cond E lo = false) ->
  step rec E raw st = Ok st' -> st' = st.
Proof.
  intros Hm Hnc H. unfold step in H.
  destruct (strip raw) as [|c line'] eqn:El; [inversion H; reflexivity|].
  destruct (c =? HASH); [inversion H; reflexivity|].
  destruct (shlex_split (c :: line')) as [toks|] eqn:Es; [|discriminate].
  destruct (split_line (is_cond E) toks) as [[lo args0]|] eqn:Esp; [|discriminate].
  rewrite (Hnc toks lo args0 eq_refl Esp), Hm in H. cbn [negb andb] in H. inversion H; reflexivity.
Qed.

(* ============================================================================================ *)
(* Match: negation and conjunction                                                               *)

Definition is_keyword (m : str) : bool :=
  str_eqb m (z "all") || str_eqb m (z "canonical") || str_eqb m (z "final").

(* one unfolding of eval_match on a non-empty argument list, in a form convenient for rewriting *)
Definition crit_step (E : env) (os : opts) (c0 : Z) (m1 : str) (rest : list str) (matching : bool)
           (fin : option bool) (k : list str -> bool -> option bool -> res (bool * option bool))
  : res (bool * option bool) :=
  let negated := c0 =? BANG in
  let m := if negated then m1 else c0 :: m1 in
  let fin' := if str_eqb m (z "final") then (match fin with None => Some false | _ => fin end) else fin in
  let upd (result : bool) := if matching && Bool.eqb result negated then false else matching in
  if str_eqb m (z "all") then k rest (upd true) fin'
  else if str_eqb m (z "canonical") then k rest (upd (e_canonical E)) fin'
  else if str_eqb m (z "final") then k rest (upd (match fin' with Some b => b | None => false end)) fin'
  else match match_val E os m with
       | MVUnmodelled => Err EUnmodelled
       | MVNone => Err EParse
       | MV v => match rest with
                 | [] => Err EParse
                 | pat :: rest' => k rest' (upd (patlist_match pat v)) fin'
                 end
       end.

Lemma eval_match_cons E os a rest matching fin :
  eval_match E os (a :: rest) matching fin =
  match lower a with
  | [] => Err ECrash
  | c0 :: m1 => crit_step E os c0 m1 rest matching fin (eval_match E os)
  end.
Proof. cbn [eval_match]. destruct (lower a); reflexivity. Qed.

Lemma upd_factor (m r n : bool) :
  (if m && Bool.eqb r n then false else m) = m && (if true && Bool.eqb r n then false else true).
Proof. destruct m, r, n; reflexivity. Qed.

Definition factor (m : bool) (r : res (bool * option bool)) : res (bool * option bool) :=
  match r with Ok (b, f) => Ok (m && b, f) | Err e => Err e end.

Lemma factor_factor m1 m2 r : factor m1 (factor m2 r) = factor (m1 && m2) r.
Proof. destruct r as [[b f]|e]; simpl; [rewrite andb_assoc|]; reflexivity. Qed.

Lemma crit_step_factor E os c0 m1 rest m fin k :
  (forall l m' f, (length l <= length rest)%nat -> k l m' f = factor m' (k l true f)) ->
  crit_step E os c0 m1 rest m fin k = factor m (crit_step E os c0 m1 rest true fin k).
Proof.
  intros Hk. unfold crit_step. cbv zeta.
  assert (Hk2 : forall l r n f, (length l <= length rest)%nat ->
                 k l (if m && Bool.eqb r n then false else m) f
                 = factor m (k l (if true && Bool.eqb r n then false else true) f)).
  { intros l r n f Hl. rewrite (Hk l (if m && Bool.eqb r n then false else m)) by exact Hl.
    rewrite (Hk l (if true && Bool.eqb r n then false else true)) by exact Hl.
    rewrite factor_factor, <- upd_factor. reflexivity. }
  destruct (c0 =? BANG); cbv iota.
  - destruct (str_eqb m1 (z "all")); [apply Hk2; lia|].
    destruct (str_eqb m1 (z "canonical")); [apply Hk2; lia|].
    destruct (str_eqb m1 (z "final")); [apply Hk2; lia|].
    destruct (match_val E os m1); try reflexivity.
    destruct rest as [|pat rest']; [reflexivity|]. apply Hk2. simpl. lia.
  - destruct (str_eqb (c0 :: m1) (z "all")); [apply Hk2; lia|].
    destruct (str_eqb (c0 :: m1) (z "canonical")); [apply Hk2; lia|].
    destruct (str_eqb (c0 :: m1) (z "final")); [apply Hk2; lia|].
    destruct (match_val E os (c0 :: m1)); try reflexivity.
    destruct rest as [|pat rest']; [reflexivity|]. apply Hk2. simpl. lia.
Qed.

(* whether a Match line errors, and what it does to _final, does not depend on the running
   "matching" flag; the flag only and-s in *)
Lemma eval_match_factor_n E os n : forall args m fin, (length args <= n)%nat ->
  eval_match E os args m fin = factor m (eval_match E os args true fin).
Proof.
  induction n as [|n IH]; intros args m fin Hlen.
  - destruct args; [|simpl in Hlen; lia]. simpl. rewrite andb_true_r. reflexivity.
  - destruct args as [|a rest]; [simpl; rewrite andb_true_r; reflexivity|].
    simpl in Hlen. rewrite !eval_match_cons. destruct (lower a) as [|c0 m1]; [reflexivity|].
    apply crit_step_factor. intros l m' f Hl. apply IH. lia.
Qed.

Lemma eval_match_factor E os args m fin :
  eval_match E os args m fin = factor m (eval_match E os args true fin).
Proof. apply (eval_match_factor_n E os (length args)). lia. Qed.

Lemma eval_match_app_n E os n : forall a1 a2 m fin b1 f1, (length a1 <= n)%nat ->
  eval_match E os a1 m fin = Ok (b1, f1) ->
  eval_match E os (a1 ++ a2) m fin = eval_match E os a2 b1 f1.
Proof.
  induction n as [|n IH]; intros a1 a2 m fin b1 f1 Hlen H.
  - destruct a1; [|simpl in Hlen; lia]. simpl in H. inversion H; subst. reflexivity.
  - destruct a1 as [|a rest]; [simpl in H; inversion H; subst; reflexivity|].
    simpl in Hlen. change ((a :: rest) ++ a2) with (a :: (rest ++ a2)).
    rewrite eval_match_cons in *. destruct (lower a) as [|c0 m1]; [discriminate|].
    unfold crit_step in *. cbv zeta in *.
    destruct (str_eqb _ (z "all")); [apply IH; [lia | exact H]|].
    destruct (str_eqb _ (z "canonical")); [apply IH; [lia | exact H]|].
    destruct (str_eqb _ (z "final")); [apply IH; [lia | exact H]|].
    destruct (match_val E os _); try discriminate.
    destruct rest as [|pat rest']; [discriminate|].
    change ((pat :: rest') ++ a2) with (pat :: (rest' ++ a2)).
    apply IH; [simpl in Hlen; lia | exact H].
Qed.

(* several criteria on one Match line are and-ed *)
Theorem match_conjunction E os a1 a2 fin b1 f1 b2 f2 :
  eval_match E os a1 true fin = Ok (b1, f1) ->
  eval_match E os a2 true f1 = Ok (b2, f2) ->
  eval_match E os (a1 ++ a2) true fin = Ok (b1 && b2, f2).
Proof.
  intros H1 H2. rewrite (eval_match_app_n E os (length a1) a1 a2 true fin b1 f1 (le_n _) H1).
  rewrite eval_match_factor, H2. reflexivity.
Qed.

Lemma lower_bang c : lower (BANG :: c) = BANG :: lower c.
Proof. reflexivity. Qed.

Lemma negated_flip (r : bool) :
  (if true && Bool.eqb r true then false else true) = negb (if true && Bool.eqb r false then false else true).
Proof. destruct r; reflexivity. Qed.

(* "!" in front of all / canonical / final inverts it *)
Theorem match_negation_keyword E os c fin b f :
  starts_with BANG (lower c) = false ->
  eval_match E os [c] true fin = Ok (b, f) ->
  eval_match E os [BANG :: c] true fin = Ok (negb b, f).
Proof.
  intros Hb H. rewrite eval_match_cons in *. rewrite lower_bang.
  destruct (lower c) as [|c0 m1] eqn:El; [discriminate|].
  unfold crit_step in *. cbv zeta in *. simpl in Hb. rewrite Hb in H.
  change (BANG =? BANG) with true. cbv iota.
  destruct (str_eqb (c0 :: m1) (z "all")).
  { simpl in *. inversion H; subst. reflexivity. }
  destruct (str_eqb (c0 :: m1) (z "canonical")).
  { simpl in *. inversion H; subst. destruct (e_canonical E); reflexivity. }
  destruct (str_eqb (c0 :: m1) (z "final")).
  { simpl in *. inversion H; subst. destruct fin as [[|]|]; reflexivity. }
  destruct (match_val E os (c0 :: m1)); discriminate.
Qed.

(* "!" in front of a criterion with a pattern inverts it *)
Theorem match_negation_criterion E os c pat fin b f :
  starts_with BANG (lower c) = false -> is_keyword (lower c) = false ->
  eval_match E os [c; pat] true fin = Ok (b, f) ->
  eval_match E os [BANG :: c; pat] true fin = Ok (negb b, f).
Proof.
  intros Hb Hk H. rewrite eval_match_cons in *. rewrite lower_bang.
  destruct (lower c) as [|c0 m1] eqn:El; [discriminate|].
  unfold crit_step in *. cbv zeta in *. simpl in Hb. rewrite Hb in H.
  change (BANG =? BANG) with true. cbv iota.
  unfold is_keyword in Hk. apply orb_false_iff in Hk as [Hk Hk3]. apply orb_false_iff in Hk as [Hk1 Hk2].
  rewrite Hk1, Hk2, Hk3 in *.
  destruct (match_val E os (c0 :: m1)) as [v| |]; try discriminate.
  simpl in *. inversion H; subst. destruct (patlist_match pat v); reflexivity.
Qed.

(* ============================================================================================ *)
(* percent expansion is a single pass: replacement text is never re-read                         *)

Inductive seg := Lit (s : str) | Tok (c : Z).
Definition render_seg (g : seg) : str := match g with Lit s => s | Tok c => [PCT; c] end.
Definition render (t : list seg) : str := flat_map render_seg t.
Definition seg_ok (g : seg) : Prop := match g with Lit s => ~ In PCT s | Tok c => c <> NL end.
Definition subst_seg (toks : list (Z * str)) (g : seg) : str :=
  match g with Lit s => s | Tok c => match lookup_c c toks with Some v => v | None => [] end end.
Definition seg_defined (toks : list (Z * str)) (g : seg) : Prop :=
  match g with Lit _ => True | Tok c => lookup_c c toks <> None end.

Lemma app_res_app a b r : app_res (a ++ b) r = app_res a (app_res b r).
Proof. destruct r; simpl; [rewrite app_assoc|]; reflexivity. Qed.

Lemma cons_res_app_res c s r : cons_res c (app_res s r) = app_res (c :: s) r.
Proof. destruct r; reflexivity. Qed.

Lemma expand_pct_lit toks s rest :
  ~ In PCT s -> expand_pct_go toks (s ++ rest) false = app_res s (expand_pct_go toks rest false).
Proof.
  induction s as [|c s IH]; intros H.
  - simpl. destruct (expand_pct_go toks rest false); reflexivity.
  - change ((c :: s) ++ rest) with (c :: (s ++ rest)). cbn [expand_pct_go].
    destruct (Z.eqb_spec c PCT) as [->|Hne]; [exfalso; apply H; left; reflexivity|].
    rewrite IH by (intros Hi; apply H; right; exact Hi).
    apply cons_res_app_res.
Qed.

Lemma expand_pct_tok toks c v rest :
  c <> NL -> lookup_c c toks = Some v ->
  expand_pct_go toks (PCT :: c :: rest) false = app_res v (expand_pct_go toks rest false).
Proof.
  intros Hc Hl. cbn [expand_pct_go]. rewrite Z.eqb_refl.
  destruct (Z.eqb_spec c NL) as [->|_]; [congruence|]. rewrite Hl. reflexivity.
Qed.

Theorem expand_pct_single_pass toks t :
  Forall seg_ok t -> Forall (seg_defined toks) t ->
  expand_pct toks (render t) = Ok (flat_map (subst_seg toks) t).
Proof.
  unfold expand_pct. induction t as [|g t IH]; intros Hok Hdef; [reflexivity|].
  inversion Hok as [|? ? Hg Hok']; subst. inversion Hdef as [|? ? Hd Hdef']; subst.
  cbn [render flat_map]. destruct g as [s|c]; cbn [render_seg subst_seg].
  - rewrite expand_pct_lit by exact Hg. fold (render t). rewrite IH by assumption. reflexivity.
  - simpl in Hd. destruct (lookup_c c toks) as [v|] eqn:El; [|congruence].
    change ([PCT; c] ++ flat_map render_seg t) with (PCT :: c :: render t).
    rewrite (expand_pct_tok toks c v) by assumption. rewrite IH by assumption. reflexivity.
Qed.

(* the code expands "%c" and then "${name}" over the result, so text produced by a token is read
   again by the second pass; one left-to-right pass (what ssh does) gives something else *)
Theorem two_pass_differs_from_one_pass :
  exists toks environ s, expand_val toks environ s <> expand_one_pass toks environ s.
Proof.
  exists [(114, z "${X}")], [(z "X", z "v")], (z "%r"). vm_compute. discriminate.
Qed.

(* ============================================================================================ *)
(* unsafe user names are never substituted                                                       *)

Lemma finish_unsafe E st :
  e_client E = false -> unsafe_user (e_user E) = true -> finish E st = Err EUser.
Proof. intros Hc Hu. unfold finish, set_tokens. rewrite Hc, Hu. reflexivity. Qed.

Lemma parse_file_unsafe fuel E path st st' :
  e_client E = false -> unsafe_user (e_user E) = true -> q_expand_each_parse (e_quirks E) = true ->
  parse_file fuel E path st <> Ok st'.
Proof.
  intros Hc Hu Hq H. destruct fuel as [|f]; [discriminate|]. cbn [parse_file] in H.
  destruct (lookup path (e_fs E)); [|discriminate]. rewrite Hq in H.
  destruct (run_lines _ E _ _) as [st1|e]; cbn [bind] in H; [|discriminate].
  rewrite finish_unsafe in H by assumption. discriminate.
Qed.

Lemma fold_parse_last fuel E paths p st st' :
  fold_left (fun (acc : res state) (p : str) => bind acc (parse_file fuel E p)) (paths ++ [p]) (Ok st) = Ok st' ->
  exists s1, parse_file fuel E p s1 = Ok st'.
Proof.
  rewrite fold_left_app. cbn [fold_left].
  destruct (fold_left _ paths (Ok st)) as [s1|e]; cbn [bind]; [|discriminate].
  intros H. exists s1. exact H.
Qed.

(* a server configuration is never resolved for an unsafe user name: every load that reads at
   least one file fails (with IllegalUserName, or earlier with another error) *)
Theorem unsafe_user_never_loaded fuel E base user port paths r :
  e_client E = false -> unsafe_user (e_user E) = true -> paths <> [] ->
  load fuel E base user port paths <> Ok r.
Proof.
  intros Hc Hu Hp H. unfold load in H.
  match type of H with bind ?X _ = _ => destruct X as [st1|e] eqn:Ef end; cbn [bind] in H; [|discriminate].
  destruct (q_expand_each_parse (e_quirks E)) eqn:Hq.
  - destruct (exists_last Hp) as (ps & p & ->).
    apply fold_parse_last in Ef as [s1 Hs1]. eapply parse_file_unsafe; eassumption.
  - destruct paths as [|p0 ps]; [congruence|].
    rewrite finish_unsafe in H by assumption. discriminate.
Qed.

Lemma lookup_c_update_same {A} k (v : A) l : lookup_c k (update_c k v l) = Some v.
Proof.
  induction l as [|[k' v'] r IH]; cbn [update_c lookup_c].
  - rewrite Z.eqb_refl. reflexivity.
  - destruct (k =? k') eqn:Ek; cbn [lookup_c]; [rewrite Z.eqb_refl; reflexivity | rewrite Ek; exact IH].
Qed.

(* and when the load succeeds, "%u" was replaced by a name that passed the filter *)
Lemma set_tokens_server_safe E st toks :
  e_client E = false -> set_tokens E st = Ok toks ->
  unsafe_user (e_user E) = false /\ lookup_c 117 toks = Some (e_user E).
Proof.
  intros Hc H. unfold set_tokens in H. rewrite Hc in H.
  destruct (unsafe_user (e_user E)); [discriminate|]. inversion H; subst. split; [reflexivity|].
  apply lookup_c_update_same.
Qed.

(* ============================================================================================ *)
(* Include reads files in place (for the semantics without per-file expansion)                   *)

Definition MATCH_ALL : str := z "Match all".
Definition lines_of (E : env) (path : str) : list str :=
  match lookup path (e_fs E) with Some l => l | None => [] end.
(* the text that stands for "Include" of these files: each file starts, like every file, in the
   matching state *)
Definition inline_files (E : env) (paths : list str) : list str :=
  flat_map (fun p => MATCH_ALL :: lines_of E p) paths.

(* front end of [step]: keyword and arguments of a line *)
Definition tokenize (E : env) (raw : str) : option (str * list str) :=
  match strip raw with
  | [] => None
  | c :: r => if c =? HASH then None
              else match shlex_split (c :: r) with
                   | None => None
                   | Some toks => split_line (is_cond E) toks
                   end
  end.

Lemma step_match_all rec E st : step rec E MATCH_ALL st = Ok (with_matching st true).
Proof.
  destruct E as [cl q can fin lu h u ad la lp lh hm uid en fs]. destruct st as [os m tk fn].
  destruct cl, m; vm_compute; reflexivity.
Qed.

Lemma run_lines_app rec E a b st :
  run_lines rec E (a ++ b) st = bind (run_lines rec E a st) (run_lines rec E b).
Proof.
  revert st. induction a as [|l r IH]; intros st; simpl; [reflexivity|].
  destruct (step rec E l st); [apply IH | reflexivity].
Qed.

Definition rec_le (r1 r2 : str -> state -> res state) : Prop :=
  forall p s r, r1 p s = Ok r -> r2 p s = Ok r.

Lemma fold_bind_mono {A} (f1 f2 : state -> A -> res state) :
  (forall s a r, f1 s a = Ok r -> f2 s a = Ok r) ->
  forall l st r, fold_left (fun acc a => bind acc (fun s => f1 s a)) l (Ok st) = Ok r ->
                 fold_left (fun acc a => bind acc (fun s => f2 s a)) l (Ok st) = Ok r.
Proof.
  intros Hf l. induction l as [|a l IH]; intros st r H; [exact H|].
  rewrite fold_bind_cons in *. destruct (f1 st a) as [s1|e] eqn:E1; [|discriminate].
  rewrite (Hf _ _ _ E1). apply IH. exact H.
Qed.

Lemma run_handler_mono r1 r2 E k o args st res0 :
  rec_le r1 r2 -> run_handler r1 E k o args st = Ok res0 -> run_handler r2 E k o args st = Ok res0.
Proof.
  intros Hle H. destruct k; try exact H. cbn [run_handler] in *.
  match type of H with bind ?X _ = _ => destruct X as [s2|e] eqn:Ef end; cbn [bind] in H; [|discriminate].
  match goal with |- bind ?X _ = _ => assert (Hx : X = Ok s2) end.
  { revert Ef. apply (fold_bind_mono
      (fun s1 pat => bind (glob E pat) (fun paths => fold_left (fun acc2 p => bind acc2 (r1 p)) paths (Ok s1)))
      (fun s1 pat => bind (glob E pat) (fun paths => fold_left (fun acc2 p => bind acc2 (r2 p)) paths (Ok s1)))).
    intros s pat r Hr. destruct (glob E pat) as [paths|e]; cbn [bind] in *; [|discriminate].
    revert Hr. apply (fold_bind_mono (fun s p => r1 p s) (fun s p => r2 p s)). intros s0 p r0. apply Hle. }
  rewrite Hx. exact H.
Qed.

Lemma step_mono r1 r2 E raw st r :
  rec_le r1 r2 -> step r1 E raw st = Ok r -> step r2 E raw st = Ok r.
Proof.
  intros Hle H. unfold step in *.
  destruct (strip raw) as [|c line']; [exact H|].
  destruct (c =? HASH); [exact H|].
  destruct (shlex_split (c :: line')); [|exact H].
  destruct (split_line (is_cond E) l) as [[lo args0]|]; [|exact H].
  destruct (negb (s_matching st) && negb (is_cond E lo)); [exact H|].
  destruct (lookup_handler E lo) as [[o k]|]; [|exact H].
  match type of H with match ?A with [] => _ | _ :: _ => _ end = _ => destruct A as [|a0 ar] end; [exact H|].
  destruct (run_handler r1 E k o (a0 :: ar) st) as [res0|e] eqn:Er; [|discriminate].
  rewrite (run_handler_mono _ _ _ _ _ _ _ _ Hle Er). exact H.
Qed.

Lemma run_lines_mono r1 r2 E lines st r :
  rec_le r1 r2 -> run_lines r1 E lines st = Ok r -> run_lines r2 E lines st = Ok r.
Proof.
  intros Hle. revert st. induction lines as [|l ls IH]; intros st H; [exact H|].
  simpl in *. destruct (step r1 E l st) as [s1|e] eqn:Es; [|discriminate].
  rewrite (step_mono _ _ _ _ _ _ Hle Es). apply IH. exact H.
Qed.

(* more fuel never changes a result *)
Lemma parse_file_mono E f : rec_le (parse_file f E) (parse_file (S f) E).
Proof.
  induction f as [|f IH]; intros p s r H; [discriminate|].
  cbn [parse_file] in *. destruct (lookup p (e_fs E)) as [lines|]; [|discriminate].
  match type of H with bind (run_lines _ _ _ ?S0) _ = _ => set (st0 := S0) in * end.
  destruct (run_lines (parse_file f E) E lines st0) as [s1|e] eqn:Er; cbn [bind] in H; [|discriminate].
  rewrite (run_lines_mono _ _ _ _ _ _ IH Er). exact H.
Qed.

(* ---- states that differ only in the token table behave alike ------------------------------- *)
(* During a load the token table holds '%' and possibly 'h'; 'h' is written by the Hostname handler
   (and by _set_tokens) before it is read, so its stale value never matters. *)
Definition tinv (t : list (Z * str)) : Prop := forall c, c <> 104 -> lookup_c c t = lookup_c c pct_token.
Definition seq (a b : state) : Prop :=
  s_opts a = s_opts b /\ s_matching a = s_matching b /\ s_final a = s_final b /\
  tinv (s_tokens a) /\ tinv (s_tokens b).
Definition rsim (r1 r2 : res state) : Prop :=
  match r1, r2 with
  | Ok a, Ok b => seq a b
  | Err e1, Err e2 => e1 = e2
  | _, _ => False
  end.
Definition rec_sim (rec : str -> state -> res state) : Prop :=
  forall p s1 s2, seq s1 s2 -> rsim (rec p s1) (rec p s2).

Lemma lookup_c_update_other {A} k k' (v : A) l : k <> k' -> lookup_c k (update_c k' v l) = lookup_c k l.
Proof.
  intros Hne. induction l as [|[k2 v2] r IH]; cbn [update_c lookup_c].
  - destruct (Z.eqb_spec k k'); [contradiction | reflexivity].
  - destruct (Z.eqb_spec k' k2) as [->|Hn2]; cbn [lookup_c].
    + destruct (Z.eqb_spec k k2); [contradiction | reflexivity].
    + destruct (k =? k2); [reflexivity | exact IH].
Qed.

Lemma tinv_pct : tinv pct_token.
Proof. intros c _. reflexivity. Qed.

Lemma tinv_update_h t v : tinv t -> tinv (update_c 104 v t).
Proof. intros H c Hc. rewrite lookup_c_update_other by exact Hc. apply H. exact Hc. Qed.

Lemma update_h_ext t1 t2 v : tinv t1 -> tinv t2 ->
  forall c, lookup_c c (update_c 104 v t1) = lookup_c c (update_c 104 v t2).
Proof.
  intros H1 H2 c. destruct (Z.eq_dec c 104) as [->|Hne].
  - rewrite !lookup_c_update_same. reflexivity.
  - rewrite !lookup_c_update_other by exact Hne. rewrite H1, H2 by exact Hne. reflexivity.
Qed.

Lemma expand_pct_go_ext t1 t2 : (forall c, lookup_c c t1 = lookup_c c t2) ->
  forall s k, expand_pct_go t1 s k = expand_pct_go t2 s k.
Proof.
  intros Hext s. induction s as [|c r IH]; intros k; [reflexivity|].
  cbn [expand_pct_go]. destruct k; [apply IH|].
  destruct (c =? PCT).
  - destruct r as [|d r']; [reflexivity|]. destruct (d =? NL); [rewrite IH; reflexivity|].
    rewrite Hext. destruct (lookup_c d t2); [rewrite IH; reflexivity | reflexivity].
  - rewrite IH. reflexivity.
Qed.

Lemma expand_val_ext t1 t2 environ s : (forall c, lookup_c c t1 = lookup_c c t2) ->
  expand_val t1 environ s = expand_val t2 environ s.
Proof. intros H. unfold expand_val, expand_pct. rewrite (expand_pct_go_ext t1 t2 H). reflexivity. Qed.

Lemma seq_refl_inv s : tinv (s_tokens s) -> seq s s.
Proof. intros H. repeat split; assumption. Qed.

Lemma rsim_fold {A} (f : state -> A -> res state) :
  (forall a s1 s2, seq s1 s2 -> rsim (f s1 a) (f s2 a)) ->
  forall l r1 r2, rsim r1 r2 ->
  rsim (fold_left (fun acc a => bind acc (fun s => f s a)) l r1)
       (fold_left (fun acc a => bind acc (fun s => f s a)) l r2).
Proof.
  intros Hf l. induction l as [|a l IH]; intros r1 r2 H; [exact H|].
  cbn [fold_left]. apply IH.
  destruct r1 as [s1|e1], r2 as [s2|e2]; cbn [bind]; try exact H; try contradiction.
  apply Hf. exact H.
Qed.

Definition hsim (r1 r2 : res (state * list str)) : Prop :=
  match r1, r2 with
  | Ok (a, x), Ok (b, y) => seq a b /\ x = y
  | Err e1, Err e2 => e1 = e2
  | _, _ => False
  end.

Lemma run_handler_sim rec E k o args st1 st2 :
  rec_sim rec -> seq st1 st2 ->
  hsim (run_handler rec E k o args st1) (run_handler rec E k o args st2).
Proof.
  intros Hrec Hs. destruct st1 as [os1 m1 t1 f1], st2 as [os2 m2 t2 f2].
  destruct Hs as (Ho & Hm & Hf & Ht1 & Ht2). cbn [s_opts s_matching s_final s_tokens] in *. subst os2 m2 f2.
  destruct k; cbn [run_handler s_opts s_matching s_final s_tokens with_matching with_opts];
    try (destruct (run_setter _ o args os1) as [[os' r']|e]; cbn [bind hsim fst snd]; [|reflexivity];
         split; [repeat split; assumption | reflexivity]).
  - (* Host *) split; [repeat split; assumption | reflexivity].
  - (* Match *)
    destruct (eval_match E os1 args true f1) as [[m f]|e]; cbn [bind hsim fst snd]; [|reflexivity].
    split; [repeat split; assumption | reflexivity].
  - (* Include *)
    assert (Hfold : rsim
      (fold_left (fun (acc : res state) (pat : str) => bind acc (fun s1 => bind (glob E pat) (fun paths =>
         fold_left (fun (acc2 : res state) (p : str) => bind acc2 (rec p)) paths (Ok s1)))) args
         (Ok (mkState os1 m1 t1 f1)))
      (fold_left (fun (acc : res state) (pat : str) => bind acc (fun s1 => bind (glob E pat) (fun paths =>
         fold_left (fun (acc2 : res state) (p : str) => bind acc2 (rec p)) paths (Ok s1)))) args
         (Ok (mkState os1 m1 t2 f1)))).
    { apply (rsim_fold (fun s1 pat => bind (glob E pat) (fun paths =>
         fold_left (fun (acc2 : res state) (p : str) => bind acc2 (rec p)) paths (Ok s1)))).
      - intros pat s1 s2 Hs. destruct (glob E pat) as [paths|e]; cbn [bind]; [|reflexivity].
        apply (rsim_fold (fun s p => rec p s)); [|exact Hs].
        intros p s3 s4 H34. apply Hrec. exact H34.
      - repeat split; assumption. }
    destruct (fold_left _ args (Ok (mkState os1 m1 t1 f1))) as [a|e1];
      destruct (fold_left _ args (Ok (mkState os1 m1 t2 f1))) as [b|e2]; cbn [rsim] in Hfold; try contradiction;
      cbn [bind hsim]; [|exact Hfold].
    destruct Hfold as (Ho & Hm & Hf & Ha & Hb). split; [|reflexivity].
    unfold with_matching. repeat split; assumption.
  - (* Hostname *)
    destruct args as [|a rest]; [reflexivity|].
    destruct (lookup o os1); [cbn [hsim]; split; [repeat split; assumption | reflexivity]|].
    rewrite (expand_val_ext _ _ (e_environ E) a (update_h_ext t1 t2 (e_host E) Ht1 Ht2)).
    destruct (expand_val (update_c 104 (e_host E) t2) (e_environ E) a) as [v|e]; cbn [bind hsim]; [|reflexivity].
    split; [|reflexivity]. repeat split; cbn [s_tokens]; apply tinv_update_h; assumption.
Qed.

Lemma step_sim rec E raw st1 st2 :
  rec_sim rec -> seq st1 st2 -> rsim (step rec E raw st1) (step rec E raw st2).
Proof.
  intros Hrec Hs. unfold step.
  destruct (strip raw) as [|c line']; [exact Hs|].
  destruct (c =? HASH); [exact Hs|].
  destruct (shlex_split (c :: line')) as [toks|]; [|reflexivity].
  destruct (split_line (is_cond E) toks) as [[lo args0]|]; [|reflexivity].
  assert (Hm : s_matching st1 = s_matching st2) by (destruct Hs as (_ & Hm & _); exact Hm).
  rewrite <- Hm.
  destruct (negb (s_matching st1) && negb (is_cond E lo)); [exact Hs|].
  destruct (lookup_handler E lo) as [[o k]|]; [|exact Hs].
  match goal with |- rsim (match ?A with [] => _ | _ :: _ => _ end) _ => destruct A as [|a0 ar] end; [reflexivity|].
  pose proof (run_handler_sim rec E k o (a0 :: ar) st1 st2 Hrec Hs) as Hh.
  destruct (run_handler rec E k o (a0 :: ar) st1) as [[s1 r1]|e1];
    destruct (run_handler rec E k o (a0 :: ar) st2) as [[s2 r2]|e2]; cbn [hsim] in Hh; try contradiction.
  - destruct Hh as [Hq ->]. destruct r2; [exact Hq | reflexivity].
  - exact Hh.
Qed.

Lemma run_lines_sim rec E lines st1 st2 :
  rec_sim rec -> seq st1 st2 -> rsim (run_lines rec E lines st1) (run_lines rec E lines st2).
Proof.
  intros Hrec. revert st1 st2. induction lines as [|l ls IH]; intros st1 st2 Hs; [exact Hs|].
  cbn [run_lines]. pose proof (step_sim rec E l st1 st2 Hrec Hs) as H.
  destruct (step rec E l st1) as [a|e1]; destruct (step rec E l st2) as [b|e2]; cbn [rsim] in H; try contradiction.
  - apply IH. exact H.
  - exact H.
Qed.

Lemma parse_file_sim E f : q_expand_each_parse (e_quirks E) = false -> rec_sim (parse_file f E).
Proof.
  intros Hq. induction f as [|f IH]; intros p s1 s2 Hs; [reflexivity|].
  cbn [parse_file]. destruct (lookup p (e_fs E)) as [lines|]; [|reflexivity].
  destruct Hs as (Ho & _ & Hf & _ & _). rewrite Ho, Hf, Hq.
  set (st0 := mkState (s_opts s2) true pct_token (s_final s2)).
  pose proof (run_lines_sim (parse_file f E) E lines st0 st0 IH (seq_refl_inv st0 tinv_pct)) as H.
  destruct (run_lines (parse_file f E) E lines st0) as [r|e]; cbn [bind rsim] in *; [exact H | reflexivity].
Qed.

(* ---- the inlined text ------------------------------------------------------------------------ *)

Lemma inline_one E f path s s' r :
  q_expand_each_parse (e_quirks E) = false -> seq s s' ->
  parse_file f E path s = Ok r ->
  exists r', run_lines (parse_file f E) E (MATCH_ALL :: lines_of E path) s' = Ok r' /\ seq r r'.
Proof.
  intros Hq Hs H. destruct f as [|f]; [discriminate|].
  cbn [parse_file] in H. unfold lines_of.
  destruct (lookup path (e_fs E)) as [lines|]; [|discriminate].
  rewrite Hq in H. cbn [run_lines]. rewrite step_match_all.
  set (st0 := mkState (s_opts s) true pct_token (s_final s)) in *.
  destruct (run_lines (parse_file f E) E lines st0) as [s1|e] eqn:Er; cbn [bind] in H; [|discriminate].
  inversion H; subst s1.
  apply (run_lines_mono _ _ _ _ _ _ (parse_file_mono E f)) in Er.
  assert (H0 : seq st0 (with_matching s' true)).
  { destruct Hs as (Ho & _ & Hf & _ & Ht'). unfold st0, with_matching. repeat split; cbn; try assumption; try reflexivity; try apply tinv_pct. }
  pose proof (run_lines_sim (parse_file (S f) E) E lines st0 (with_matching s' true)
                (parse_file_sim E (S f) Hq) H0) as Hsim.
  rewrite Er in Hsim. destruct (run_lines (parse_file (S f) E) E lines (with_matching s' true)) as [r'|e];
    cbn [rsim] in Hsim; [|contradiction].
  exists r'. split; [reflexivity | exact Hsim].
Qed.

Lemma inline_inner E f paths s s' r :
  q_expand_each_parse (e_quirks E) = false -> seq s s' ->
  fold_left (fun (acc : res state) (p : str) => bind acc (parse_file f E p)) paths (Ok s) = Ok r ->
  exists r', run_lines (parse_file f E) E (inline_files E paths) s' = Ok r' /\ seq r r'.
Proof.
  intros Hq. revert s s'. induction paths as [|p ps IH]; intros s s' Hs H.
  - simpl in H. inversion H; subst. exists s'. split; [reflexivity | exact Hs].
  - change (fold_left (fun acc a => bind acc (fun s0 => (fun s1 p0 => parse_file f E p0 s1) s0 a)) (p :: ps) (Ok s) = Ok r) in H.
    rewrite fold_bind_cons in H. destruct (parse_file f E p s) as [s1|e] eqn:Ep; [|discriminate].
    destruct (inline_one _ _ _ _ _ _ Hq Hs Ep) as (s1' & Hr1 & Hs1).
    destruct (IH s1 s1' Hs1 H) as (r' & Hr & Hsr).
    exists r'. split; [|exact Hsr].
    unfold inline_files in *. cbn [flat_map]. rewrite run_lines_app, Hr1. cbn [bind]. exact Hr.
Qed.

Lemma inline_outer E f pats pathss s s' r :
  q_expand_each_parse (e_quirks E) = false ->
  Forall2 (fun pat paths => glob E pat = Ok paths) pats pathss -> seq s s' ->
  fold_left (fun (acc : res state) (pat : str) =>
               bind acc (fun s1 => bind (glob E pat) (fun paths =>
               fold_left (fun (acc2 : res state) (p : str) => bind acc2 (parse_file f E p)) paths (Ok s1))))
            pats (Ok s) = Ok r ->
  exists r', run_lines (parse_file f E) E (flat_map (inline_files E) pathss) s' = Ok r' /\ seq r r'.
Proof.
  intros Hq HF. revert s s'. induction HF as [|pat paths pats pathss Hg HF IH]; intros s s' Hs H.
  - simpl in H. inversion H; subst. exists s'. split; [reflexivity | exact Hs].
  - rewrite (fold_bind_cons (fun s1 pat => bind (glob E pat) (fun paths =>
               fold_left (fun (acc2 : res state) (p : str) => bind acc2 (parse_file f E p)) paths (Ok s1)))) in H.
    rewrite Hg in H. cbn [bind] in H.
    destruct (fold_left _ paths (Ok s)) as [s1|e] eqn:Ei; [|discriminate].
    destruct (inline_inner _ _ _ _ _ _ Hq Hs Ei) as (s1' & Hr1 & Hs1).
    destruct (IH s1 s1' Hs1 H) as (r' & Hr & Hsr).
    exists r'. split; [|exact Hsr].
    cbn [flat_map]. rewrite run_lines_app, Hr1. cbn [bind]. exact Hr.
Qed.

Lemma lookup_handler_include E : lookup_handler E (z "include") = Some (z "Include", KInclude).
Proof. unfold lookup_handler, table. destruct (e_client E); vm_compute; reflexivity. Qed.

Lemma no_split_include E : no_split E (z "include") = false.
Proof. unfold no_split. destruct (e_client E); vm_compute; reflexivity. Qed.

Lemma is_cond_include E : is_cond E (z "include") = false.
Proof. unfold is_cond. destruct (e_client E); vm_compute; reflexivity. Qed.

(* same options, same matching flag, same _final; the token tables may differ in a stale 'h' *)
Definition same_outcome (a b : state) : Prop :=
  s_opts a = s_opts b /\ s_matching a = s_matching b /\ s_final a = s_final b.

Theorem include_in_place E f l pats pathss rest st r :
  q_expand_each_parse (e_quirks E) = false ->
  s_matching st = true -> tinv (s_tokens st) ->
  tokenize E l = Some (z "include", pats) ->
  Forall2 (fun pat paths => glob E pat = Ok paths) pats pathss ->
  run_lines (parse_file f E) E (l :: rest) st = Ok r ->
  exists r', run_lines (parse_file f E) E (flat_map (inline_files E) pathss ++ MATCH_ALL :: rest) st = Ok r'
             /\ same_outcome r r'.
Proof.
  intros Hq Hm Hti Ht HF H. cbn [run_lines] in H.
  destruct (step (parse_file f E) E l st) as [s1|e] eqn:Es; [|discriminate].
  unfold step in Es. unfold tokenize in Ht.
  destruct (strip l) as [|c line']; [discriminate|].
  destruct (c =? HASH); [discriminate|].
  destruct (shlex_split (c :: line')) as [toks|]; [|discriminate].
  rewrite Ht in Es. rewrite no_split_include, is_cond_include, Hm, lookup_handler_include in Es.
  cbn [negb andb] in Es.
  destruct pats as [|p0 ps]; [discriminate|].
  cbn [run_handler] in Es.
  match type of Es with context [bind ?X _] => destruct X as [s2|e] eqn:Ef end; cbn [bind] in Es; [|discriminate].
  inversion Es; subst s1.
  destruct (inline_outer _ _ _ _ _ _ _ Hq HF (seq_refl_inv st Hti) Ef) as (s2' & Hr2 & Hs2).
  rewrite run_lines_app, Hr2. cbn [bind run_lines]. rewrite step_match_all.
  assert (H2 : seq (with_matching s2 true) (with_matching s2' true)).
  { destruct Hs2 as (Ho & _ & Hf & Ha & Hb). unfold with_matching. repeat split; cbn; assumption. }
  pose proof (run_lines_sim (parse_file f E) E rest _ _ (parse_file_sim E f Hq) H2) as Hsim.
  rewrite H in Hsim.
  destruct (run_lines (parse_file f E) E rest (with_matching s2' true)) as [r'|e]; cbn [rsim] in Hsim; [|contradiction].
  exists r'. split; [reflexivity|]. destruct Hsim as (Ho & Hm' & Hf & _). repeat split; assumption.
Qed.

(* every state a load goes through satisfies [tinv]: the start state does, and files preserve it *)
Lemma parse_file_tinv E f path st r :
  q_expand_each_parse (e_quirks E) = false -> parse_file f E path st = Ok r -> tinv (s_tokens r).
Proof.
  intros Hq H. pose proof (parse_file_sim E f Hq path st st) as Hs.
  destruct f as [|f]; [discriminate|]. cbn [parse_file] in *.
  destruct (lookup path (e_fs E)) as [lines|]; [|discriminate]. rewrite Hq in *.
  set (st0 := mkState (s_opts st) true pct_token (s_final st)) in *.
  pose proof (run_lines_sim (parse_file f E) E lines st0 st0 (parse_file_sim E f Hq) (seq_refl_inv st0 tinv_pct)) as H0.
  destruct (run_lines (parse_file f E) E lines st0) as [s1|e]; cbn [bind] in H; [|discriminate].
  inversion H; subst. cbn [rsim] in H0. destruct H0 as (_ & _ & _ & Ht & _). exact Ht.
Qed.

(* The code before d97dd8e did not have this property: an included file was expanded when its parse
   ended and again when the including file ended, so "%%h" written in an included file became the
   host name.  (Statements about the old-variant definitions; they stay true of those.) *)
Definition refute_env (q : quirks) (fs : list (str * list str)) : env :=
  Build_env true q false false (z "lu") (z "host") [] [] [] [] (z "lh") (z "/home/u") None [] fs.
Definition fs_included : list (str * list str) :=
  [(z "/main", [z "Include /inc"]); (z "/inc", [z "IdentityFile a%%h"])].
Definition fs_inlined : list (str * list str) :=
  [(z "/main", [z "Match all"; z "IdentityFile a%%h"; z "Match all"]); (z "/inc", [z "IdentityFile a%%h"])].

Theorem include_not_in_place_old :
  load 5 (refute_env old_quirks fs_included) [] None None [z "/main"]
  = Ok ([(z "IdentityFile", VList [z "ahost"])], false)
  /\ load 5 (refute_env old_quirks fs_inlined) [] None None [z "/main"]
  = Ok ([(z "IdentityFile", VList [z "a%h"])], false).
Proof. split; vm_compute; reflexivity. Qed.

(* ... and the code as it is now agrees on this input *)
Example include_in_place_now :
  load 5 (refute_env impl_quirks fs_included) [] None None [z "/main"]
  = load 5 (refute_env impl_quirks fs_inlined) [] None None [z "/main"].
Proof. vm_compute. reflexivity. Qed.

(* Before d9a79c3 Include read the matches of a glob in directory order, not in sorted order *)
Definition fs_glob : list (str * list str) :=
  [(z "/main", [z "Include /d/*.conf"]); (z "/d/b.conf", [z "Port 2"]); (z "/d/a.conf", [z "Port 1"])].
Theorem include_glob_order_old :
  load 5 (refute_env old_quirks fs_glob) [] None None [z "/main"] = Ok ([(z "Port", VInt 2)], false)
  /\ load 5 (refute_env impl_quirks fs_glob) [] None None [z "/main"] = Ok ([(z "Port", VInt 1)], false)
  /\ load 5 (refute_env no_quirks fs_glob) [] None None [z "/main"] = Ok ([(z "Port", VInt 1)], false).
Proof. repeat split; vm_compute; reflexivity. Qed.

(* Between d9a79c3 and d0360eb the matches were sorted as Path objects (component lists compared);
   glob(3) / ssh compares whole strings.  With directories "conf" and "conf.d" below a wildcard the
   two orders differ ('.' < '/').  (A statement about the pathsort_quirks variant of the definitions.) *)
Definition fs_glob2 : list (str * list str) :=
  [(z "/main", [z "Include /g/*/x.cfg"]); (z "/g/conf/x.cfg", [z "Port 1"]); (z "/g/conf.d/x.cfg", [z "Port 2"])].
Theorem include_glob_sort_old :
  load 5 (refute_env pathsort_quirks fs_glob2) [] None None [z "/main"] = Ok ([(z "Port", VInt 1)], false)
  /\ load 5 (refute_env impl_quirks fs_glob2) [] None None [z "/main"] = Ok ([(z "Port", VInt 2)], false)
  /\ load 5 (refute_env no_quirks fs_glob2) [] None None [z "/main"] = Ok ([(z "Port", VInt 2)], false).
Proof. repeat split; vm_compute; reflexivity. Qed.

(* ---- the code as it is reads the matches of a glob in strcmp order --------------------------- *)
Require Import Coq.Sorting.Sorted Coq.Sorting.Permutation.

Definition str_le (a b : str) : Prop := str_leb a b = true.

Lemma str_leb_total a : forall b, str_leb a b = true \/ str_leb b a = true.
Proof.
  induction a as [|x a IH]; intros b; [left; reflexivity|].
  destruct b as [|y b]; [right; reflexivity|].
  cbn [str_leb]. destruct (Z.lt_trichotomy x y) as [Hlt|[Heq|Hgt]].
  - left. apply Z.ltb_lt in Hlt. rewrite Hlt. reflexivity.
  - subst y. rewrite Z.ltb_irrefl, Z.eqb_refl. cbn [orb andb]. apply IH.
  - right. apply Z.ltb_lt in Hgt. rewrite Hgt. reflexivity.
Qed.

Lemma insert_sorted_perm x l : Permutation (insert_sorted x l) (x :: l).
Proof.
  induction l as [|y r IH]; cbn [insert_sorted]; [apply Permutation_refl|].
  destruct (str_leb x y); [apply Permutation_refl|].
  eapply perm_trans; [apply perm_skip; exact IH | apply perm_swap].
Qed.

Lemma insert_sorted_hd x y l : str_le y x -> HdRel str_le y l -> HdRel str_le y (insert_sorted x l).
Proof.
  intros Hyx Hl. destruct l as [|w r]; cbn [insert_sorted]; [constructor; exact Hyx|].
  destruct (str_leb x w); constructor; [exact Hyx | inversion Hl; assumption].
Qed.

Lemma insert_sorted_sorted x l : Sorted str_le l -> Sorted str_le (insert_sorted x l).
Proof.
  induction l as [|y r IH]; intros Hs; cbn [insert_sorted]; [repeat constructor|].
  destruct (str_leb x y) eqn:Exy.
  - constructor; [exact Hs | constructor; exact Exy].
  - inversion Hs as [|? ? Hr Hhd]; subst. constructor; [apply IH; exact Hr|].
    apply insert_sorted_hd; [|exact Hhd].
    destruct (str_leb_total y x) as [H|H]; [exact H | unfold str_le; congruence].
Qed.

Lemma sort_paths_sorted l : Sorted str_le (sort_paths l).
Proof. induction l as [|x l IH]; cbn; [constructor | apply insert_sorted_sorted; exact IH]. Qed.

Lemma sort_paths_perm l : Permutation (sort_paths l) l.
Proof.
  induction l as [|x l IH]; cbn; [constructor|].
  eapply perm_trans; [apply insert_sorted_perm | apply perm_skip; exact IH].
Qed.

(* Include (code as it is, and what the property asks for): the files an argument selects are
   exactly the regular files whose path matches the pattern, read in ascending strcmp order *)
Theorem include_order_is_strcmp E pat paths :
  q_glob_order (e_quirks E) = GString -> glob E pat = Ok paths ->
  Sorted str_le paths /\
  exists cs, resolve_pattern E pat = Some cs /\
    Permutation paths (filter (fun p => comps_match cs (split_on SLASH (tl p))) (map fst (e_fs E))).
Proof.
  intros Hq H. unfold glob in H. destruct (resolve_pattern E pat) as [cs|]; [|discriminate].
  rewrite Hq in H. inversion H; subst. split; [apply sort_paths_sorted|].
  exists cs. split; [reflexivity | apply sort_paths_perm].
Qed.

(* The final pass of the code as it is starts again from the inherited options, so a "Match final"
   block placed before a general block overrides what the first pass had resolved; in ssh the
   value of the first pass stays. *)
Definition fs_final : list (str * list str) :=
  [(z "/main", [z "Match final"; z "Port 1"; z "Host *"; z "Port 2"])].
Theorem final_pass_restarts_as_is :
  resolve_two_pass 5 (refute_env impl_quirks fs_final) [] None None [z "/main"] = Ok ([(z "Port", VInt 1)], true)
  /\ resolve_two_pass_on_top 5 (refute_env impl_quirks fs_final) [] None None [z "/main"] = Ok ([(z "Port", VInt 2)], true).
Proof. split; vm_compute; reflexivity. Qed.
