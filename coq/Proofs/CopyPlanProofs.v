(* Proofs about Model/CopyPlan.v (the recursive copy plan of SFTPClient._begin_copy/_copy). *)
From AV Require Import Base.Prelude Model.Paths Proofs.PathsProofs Model.CopyPlan.

(* ---------- byte-string facts ------------------------------------------------------------- *)

Lemma zprefix_refl a : zprefix a a = true.
Proof. apply zprefix_spec. exists []. symmetry. apply app_nil_r. Qed.

Lemma zprefix_trans a b d : zprefix a b = true -> zprefix b d = true -> zprefix a d = true.
Proof.
  rewrite !zprefix_spec. intros [r1 ->] [r2 ->]. exists (r1 ++ r2). apply app_assoc_reverse.
Qed.

Lemma zprefix_length a b : zprefix a b = true -> (length a <= length b)%nat.
Proof. rewrite zprefix_spec. intros [r ->]. rewrite app_length. lia. Qed.

Lemma zprefix_false_longer a b : (length b < length a)%nat -> zprefix a b = false.
Proof.
  intros H. destruct (zprefix a b) eqn:E; [|reflexivity]. apply zprefix_length in E. lia.
Qed.

Lemma zprefix_antisym a b : zprefix a b = true -> zprefix b a = true -> a = b.
Proof.
  rewrite !zprefix_spec. intros [r1 H1] [r2 H2]. subst b.
  assert (length (r1 ++ r2) = 0%nat) as HL.
  { apply (f_equal (@length Z)) in H2. rewrite <- app_assoc, app_length in H2. lia. }
  destruct r1; [rewrite app_nil_r; reflexivity|discriminate].
Qed.

Lemma ends_with_slash_snoc x c : ends_with_slash (x ++ [c]) = (c =? SLASH).
Proof. unfold ends_with_slash. rewrite rev_unit. reflexivity. Qed.

Lemma ends_with_slash_nil : ends_with_slash [] = false.
Proof. reflexivity. Qed.

Lemma ends_with_slash_app_ne x y : y <> [] -> ends_with_slash (x ++ y) = ends_with_slash y.
Proof.
  intros Hy. destruct (exists_last Hy) as (y' & c & ->).
  rewrite app_assoc, !ends_with_slash_snoc. reflexivity.
Qed.

Lemma ends_with_slash_noslash y : y <> [] -> ~ In SLASH y -> ends_with_slash y = false.
Proof.
  intros Hy Hn. destruct (exists_last Hy) as (y' & c & ->).
  rewrite ends_with_slash_snoc. apply Z.eqb_neq. intros ->. apply Hn. apply in_or_app. right. left. reflexivity.
Qed.

Lemma noslash_no_lead n : ~ In SLASH n -> starts_with_slash n = false.
Proof.
  destruct n as [|c r]; [reflexivity|]. intros H. simpl. apply Z.eqb_neq. intros ->. apply H. left. reflexivity.
Qed.

(* posixpath.join with a slash-free second argument *)
Lemma pjoin_noslash a n : ~ In SLASH n ->
  pjoin a n = if is_nil a || ends_with_slash a then a ++ n else a ++ SLASH :: n.
Proof.
  intros H. rewrite (pjoin_rel _ _ (noslash_no_lead _ H)). destruct a; reflexivity.
Qed.

Lemma pjoin_split a n : ~ In SLASH n ->
  exists s, (s = [] \/ s = [SLASH]) /\ pjoin a n = (a ++ s) ++ n /\
            (s = [] -> is_nil a || ends_with_slash a = true).
Proof.
  intros H. rewrite (pjoin_noslash _ _ H). destruct (is_nil a || ends_with_slash a) eqn:E.
  - exists []. rewrite app_nil_r. auto.
  - exists [SLASH]. split; [auto|]. split; [rewrite <- app_assoc; reflexivity|discriminate].
Qed.

Lemma zprefix_pjoin a n : ~ In SLASH n -> zprefix a (pjoin a n) = true.
Proof.
  intros H. destruct (pjoin_split a n H) as (s & _ & -> & _). rewrite <- app_assoc. apply zprefix_app.
Qed.

(* a prefix that ends with a slash cannot end inside a slash-free tail *)
Lemma prefix_slash_cut q x n : ~ In SLASH n ->
  zprefix (q ++ [SLASH]) (x ++ n) = true -> zprefix (q ++ [SLASH]) x = true.
Proof.
  intros Hn. rewrite !zprefix_spec. intros [r Hr].
  apply app_eq_app in Hr. destruct Hr as [l [[H1 H2]|[H1 H2]]].
  - (* x = (q ++ [/]) ++ l *) exists l. exact H1.
  - (* q ++ [/] = x ++ l, n = l ++ r *)
    destruct l as [|c l'] using rev_ind.
    + exists []. rewrite app_nil_r in *. symmetry. exact H1.
    + exfalso. rewrite app_assoc in H1. apply app_inj_tail in H1 as [_ H1]. subst c.
      apply Hn. rewrite H2. apply in_or_app. left. apply in_or_app. right. left. reflexivity.
Qed.

Lemma prefix_slash_snoc q d :
  zprefix (q ++ [SLASH]) (d ++ [SLASH]) = true -> q = d \/ zprefix (q ++ [SLASH]) d = true.
Proof.
  rewrite !zprefix_spec. intros [r Hr].
  destruct r as [|c r'] using rev_ind.
  - rewrite app_nil_r in Hr. apply app_inj_tail in Hr as [-> _]. left. reflexivity.
  - right. rewrite !app_assoc in Hr. apply app_inj_tail in Hr as [Hr _].
    exists r'. rewrite Hr. reflexivity.
Qed.

(* ---------- T1: every operation of the plan is lexically inside the destination ------------ *)

Definition res_ops (r : result) : list op := fst (fst r).

Section Paths.
  Variable P : bytes -> Prop.
  Hypothesis Pjoin : forall p n, P p -> get_name_skipped n = false -> mem_z SLASH n = false -> P (pjoin p n).

  Definition paths_ok (r : result) : Prop := Forall (fun o => P (op_path o)) (res_ops r).

  Lemma preserve_step_paths orc c ops s dp fl :
    P dp -> Forall (fun o => P (op_path o)) ops -> paths_ok (preserve_step orc c ops s dp fl).
  Proof.
    intros Hp Ho. unfold preserve_step, paths_ok, res_ops. destruct (preserve c); simpl; [|exact Ho].
    apply Forall_app. split; [exact Ho|]. constructor; [exact Hp|constructor].
  Qed.

  Lemma copy_entries_paths rec dp :
    (forall n p s, P p -> paths_ok (rec n p s)) -> P dp ->
    forall es s, paths_ok (copy_entries rec dp es s).
  Proof.
    intros Hrec Hp. induction es as [|e rest IH]; intros s; simpl.
    - constructor.
    - destruct (get_name_skipped (fst e)) eqn:Esk; [apply IH|].
      destruct (mem_z SLASH (fst e)) eqn:Esl; [constructor|].
      pose proof (Hrec (snd e) (pjoin dp (fst e)) s (Pjoin _ _ Hp Esk Esl)) as H1.
      destruct (rec (snd e) (pjoin dp (fst e)) s) as [[o1 s1] r1].
      destruct r1 as [x|]; [exact H1|].
      pose proof (IH s1) as H2. destruct (copy_entries rec dp rest s1) as [[o2 s2] r2].
      unfold paths_ok, res_ops in *. simpl in *. apply Forall_app. split; assumption.
  Qed.

  Lemma copy_body_paths orc c rec n dp s :
    (forall n p s, P p -> paths_ok (rec n p s)) -> P dp -> paths_ok (copy_body orc c rec n dp s).
  Proof.
    intros Hrec Hp. unfold copy_body.
    destruct (dupcheck c && mem_bytes dp (snd s)); [constructor|].
    destruct (effective c n) as [rd|t seen|es ls|].
    - destruct (do_write orc (fst s) dp) as [ok fs1].
      destruct (ok && rd).
      + apply preserve_step_paths; [exact Hp|]. constructor; [exact Hp|constructor].
      + constructor; [exact Hp|constructor].
    - destruct (do_symlink orc (fst s) t dp) as [ok fs1]. destruct ok.
      + apply preserve_step_paths; [exact Hp|]. constructor; [exact Hp|constructor].
      + constructor; [exact Hp|constructor].
    - destruct (negb (recurse c)); [constructor|].
      set (isd := res_dir (resolve orc (fst s) dp)).
      assert (Forall (fun o => P (op_path o))
                (if isd then [OIsdir dp isd (thru_of (fst s) dp true)]
                 else [OIsdir dp isd (thru_of (fst s) dp true);
                       OMkdir dp (fst (do_mkdir orc (fst s) dp)) (thru_of (fst s) dp false)])) as Hpre.
      { destruct isd; repeat constructor; exact Hp. }
      destruct (if isd then (true, fst s) else do_mkdir orc (fst s) dp) as [mk_ok fs1] eqn:Emk.
      assert (Forall (fun o => P (op_path o))
                (if isd then [OIsdir dp isd (thru_of (fst s) dp true)]
                 else [OIsdir dp isd (thru_of (fst s) dp true); OMkdir dp mk_ok (thru_of (fst s) dp false)])) as Hpre'.
      { destruct isd; [exact Hpre|]. rewrite Emk in Hpre. exact Hpre. }
      clear Hpre. destruct (negb mk_ok); [exact Hpre'|].
      pose proof (copy_entries_paths rec dp Hrec Hp es (fs1, snd s)) as H2.
      destruct (copy_entries rec dp es (fs1, snd s)) as [[o2 s2] r2].
      unfold paths_ok, res_ops in H2. simpl in H2.
      assert (Forall (fun o => P (op_path o))
                ((if isd then [OIsdir dp isd (thru_of (fst s) dp true)]
                  else [OIsdir dp isd (thru_of (fst s) dp true); OMkdir dp mk_ok (thru_of (fst s) dp false)]) ++ o2)) as Hall.
      { apply Forall_app. split; assumption. }
      destruct r2 as [x|]; [exact Hall|].
      destruct (negb ls); [exact Hall|].
      apply preserve_step_paths; assumption.
    - constructor.
  Qed.

  Lemma copy_node_paths orc c : forall fuel n dp s, P dp -> paths_ok (copy_node orc c fuel n dp s).
  Proof.
    induction fuel as [|f IH]; intros n dp s Hp; simpl; [constructor|].
    pose proof (copy_body_paths orc c (copy_node orc c f) n dp s IH Hp) as H.
    destruct (copy_body orc c (copy_node orc c f) n dp s) as [[ops s1] r].
    destruct r as [x|]; [|exact H].
    destruct (handler c); [|exact H].
    unfold paths_ok, res_ops in *. simpl in *. apply Forall_app. split; [exact H|].
    constructor; [exact Hp|constructor].
  Qed.

  Lemma copy_tops_paths rec dst isd :
    (forall n p s, P p -> paths_ok (rec n p s)) -> P dst ->
    forall srcs s,
      Forall (fun e => get_name_skipped (fst e) = false /\ mem_z SLASH (fst e) = false) srcs ->
      paths_ok (copy_tops rec dst isd srcs s).
  Proof.
    intros Hrec Hp. induction srcs as [|e rest IH]; intros s Hs; simpl; [constructor|].
    inversion Hs as [|? ? [He1 He2] Hrest]; subst.
    assert (P (if isd then pjoin dst (fst e) else dst)) as Hd.
    { destruct isd; [apply Pjoin; assumption|exact Hp]. }
    pose proof (Hrec (snd e) _ s Hd) as H1.
    destruct (rec (snd e) (if isd then pjoin dst (fst e) else dst) s) as [[o1 s1] r1].
    destruct r1 as [x|]; [exact H1|].
    pose proof (IH s1 Hrest) as H2. destruct (copy_tops rec dst isd rest s1) as [[o2 s2] r2].
    unfold paths_ok, res_ops in *. simpl in *. apply Forall_app. split; assumption.
  Qed.

  Lemma begin_copy_paths orc c fuel dst srcs fs0 :
    P dst ->
    Forall (fun e => get_name_skipped (fst e) = false /\ mem_z SLASH (fst e) = false) srcs ->
    paths_ok (begin_copy orc c fuel dst srcs fs0).
  Proof.
    intros Hp Hs. unfold begin_copy.
    destruct ((1 <? Z.of_nat (length srcs)) && negb (res_dir (resolve orc fs0 dst))).
    - constructor; [exact Hp|constructor].
    - pose proof (copy_tops_paths (copy_node orc c fuel) dst (res_dir (resolve orc fs0 dst))
                    (copy_node_paths orc c fuel) Hp srcs (fs0, []) Hs) as H.
      destruct (copy_tops _ dst _ srcs (fs0, [])) as [[ops s] r].
      unfold paths_ok, res_ops in *. simpl in *. constructor; assumption.
  Qed.
End Paths.

(* the explicit shape: dst, then "/"-separated components that are non-empty, slash-free and
   neither "." nor "..", optionally one trailing slash (an EMPTY listed name is accepted by the
   code and names the directory itself) *)
Definition under_dst (dst p : bytes) : Prop :=
  exists comps ts, Forall good_comp comps /\ (ts = [] \/ ts = [SLASH]) /\
    p = dst ++ concat (map (cons SLASH) comps) ++ ts.

Lemma under_dst_self dst : under_dst dst dst.
Proof. exists [], []. split; [constructor|]. split; [auto|]. simpl. rewrite app_nil_r. reflexivity. Qed.

Lemma concat_comps_end dst comps :
  ends_with_slash dst = false -> Forall good_comp comps ->
  ends_with_slash (dst ++ concat (map (cons SLASH) comps)) = false.
Proof.
  intros Hd Hc. destruct comps as [|c0 r0] using rev_ind.
  - simpl. rewrite app_nil_r. exact Hd.
  - rewrite map_app, concat_app. simpl. rewrite app_nil_r.
    apply Forall_app in Hc as [_ Hc]. inversion Hc as [|? ? (Hne & _ & _ & Hns) _]; subst.
    rewrite app_assoc. change (SLASH :: c0) with ([SLASH] ++ c0). rewrite app_assoc.
    rewrite ends_with_slash_app_ne by exact Hne. apply ends_with_slash_noslash; assumption.
Qed.

Lemma under_dst_pjoin dst p n :
  dst <> [] -> ends_with_slash dst = false ->
  under_dst dst p -> get_name_skipped n = false -> mem_z SLASH n = false -> under_dst dst (pjoin p n).
Proof.
  intros Hne Hd (comps & ts & Hc & Hts & ->) Hsk Hsl.
  apply mem_z_false in Hsl.
  unfold get_name_skipped in Hsk. apply orb_false_iff in Hsk as [Hdot Hdd].
  apply zlist_eqb_false in Hdot. apply zlist_eqb_false in Hdd.
  rewrite (pjoin_noslash _ _ Hsl).
  assert (is_nil (dst ++ concat (map (cons SLASH) comps) ++ ts) = false) as Hnil.
  { destruct dst; [congruence|reflexivity]. }
  rewrite Hnil. simpl.
  pose proof (concat_comps_end dst comps Hd Hc) as Hend.
  destruct Hts as [-> | ->].
  - rewrite app_nil_r, Hend.
    destruct n as [|c r].
    + exists comps, [SLASH]. split; [exact Hc|]. split; [auto|]. rewrite <- app_assoc. reflexivity.
    + exists (comps ++ [c :: r]), []. split.
      * apply Forall_app. split; [exact Hc|]. constructor; [|constructor].
        unfold good_comp. repeat split; [discriminate|exact Hdot|exact Hdd|exact Hsl].
      * split; [auto|]. rewrite map_app, concat_app. simpl. rewrite !app_nil_r, <- app_assoc. reflexivity.
  - assert (ends_with_slash (dst ++ concat (map (cons SLASH) comps) ++ [SLASH]) = true) as He.
    { rewrite app_assoc, ends_with_slash_snoc. apply Z.eqb_refl. }
    rewrite He.
    destruct n as [|c r].
    + exists comps, [SLASH]. split; [exact Hc|]. split; [auto|]. rewrite app_nil_r. reflexivity.
    + exists (comps ++ [c :: r]), []. split.
      * apply Forall_app. split; [exact Hc|]. constructor; [|constructor].
        unfold good_comp. repeat split; [discriminate|exact Hdot|exact Hdd|exact Hsl].
      * split; [auto|]. rewrite map_app, concat_app. simpl. rewrite !app_nil_r.
        rewrite <- !app_assoc. reflexivity.
Qed.

Theorem copy_paths_under_dst orc c dst srcs fs0 :
  dst <> [] -> ends_with_slash dst = false ->
  Forall (fun e => get_name_ok (fst e) = true) srcs ->
  Forall (fun o => under_dst dst (op_path o)) (copy_plan orc c dst srcs fs0).
Proof.
  intros Hne Hd Hs. unfold copy_plan.
  apply (begin_copy_paths (under_dst dst)).
  - intros p n Hp H1 H2. apply under_dst_pjoin; assumption.
  - apply under_dst_self.
  - eapply Forall_impl; [|exact Hs]. intros e He. unfold get_name_ok in He.
    apply andb_true_iff in He as [H1 H2]. apply negb_true_iff in H1. apply negb_true_iff in H2. auto.
Qed.

(* ---------- T2 / T4: never through a symbolic link created by the same copy ------------------ *)

Definition created (o : op) : list bytes :=
  match o with OSymlink _ p true _ => [p] | _ => [] end.

(* operations that create, write or query THROUGH the last component of their path *)
Definition strict (o : op) : bool :=
  match o with OIsdir _ _ _ | OMkdir _ _ _ | OSymlink _ _ _ _ | OWrite _ _ _ => true | _ => false end.

Definition follows (o : op) : bool := match o with OSetstat _ true _ _ => true | _ => false end.

Definition op_thru (o : op) : bool :=
  match o with
  | OIsdir _ _ t | OMkdir _ _ t | OSymlink _ _ _ t | OWrite _ _ t | OSetstat _ _ _ t => t
  | OErr _ _ => false
  end.

(* no link of L is a proper directory prefix of dp *)
Definition pre (dp : bytes) (L : list bytes) : Prop :=
  forall q, In q L -> zprefix (q ++ [SLASH]) dp = false.
Definition linv (L : list bytes) : Prop := forall q, In q L -> q <> [] /\ ends_with_slash q = false.
Definition fsinv (fs : fsT) (L : list bytes) : Prop := forall q, In (q, KLink) fs -> In q L.

(* fsym = the caller asked for follow_symlinks *)
Definition op_safe (fsym : bool) (L : list bytes) (o : op) : Prop :=
  pre (op_path o) L /\
  (strict o = true -> ~ In (op_path o) L) /\
  (follows o = true -> In (op_path o) L -> fsym = true).

Fixpoint links_safe (fsym : bool) (L : list bytes) (ops : list op) : Prop :=
  match ops with
  | [] => True
  | o :: r => op_safe fsym L o /\ links_safe fsym (created o ++ L) r
  end.

Definition links_after (L : list bytes) (ops : list op) : list bytes :=
  fold_left (fun L o => created o ++ L) ops L.

Definition thru_ok (fsym : bool) (o : op) : Prop :=
  (strict o = true -> op_thru o = false) /\ (op_thru o = true -> fsym = true).

Lemma links_after_app L a b : links_after L (a ++ b) = links_after (links_after L a) b.
Proof. unfold links_after. apply fold_left_app. Qed.

Lemma links_safe_app fsym : forall a L b,
  links_safe fsym L a -> links_safe fsym (links_after L a) b -> links_safe fsym L (a ++ b).
Proof.
  induction a as [|o a IH]; intros L b Ha Hb; simpl in *; [exact Hb|].
  destruct Ha as [Ho Ha]. split; [exact Ho|]. apply IH; assumption.
Qed.

Lemma mem_bytes_spec p l : mem_bytes p l = true <-> In p l.
Proof.
  induction l as [|q r IH]; simpl; [split; [discriminate|tauto]|].
  rewrite orb_true_iff, zlist_eqb_spec, IH. tauto.
Qed.

Lemma mem_bytes_false p l : mem_bytes p l = false <-> ~ In p l.
Proof. rewrite <- mem_bytes_spec. destruct (mem_bytes p l); split; congruence. Qed.

Lemma zprefix_snoc_self_false d : zprefix (d ++ [SLASH]) d = false.
Proof. apply zprefix_false_longer. rewrite app_length. simpl. lia. Qed.

Lemma pre_child dp n L : ~ In SLASH n -> pre dp L -> ~ In dp L -> pre (pjoin dp n) L.
Proof.
  intros Hn Hp Hni q Hq. destruct (zprefix (q ++ [SLASH]) (pjoin dp n)) eqn:E; [exfalso|reflexivity].
  destruct (pjoin_split dp n Hn) as (s & Hs & Hj & _). rewrite Hj in E.
  apply prefix_slash_cut in E; [|exact Hn].
  destruct Hs as [-> | ->].
  - rewrite app_nil_r in E. rewrite (Hp q Hq) in E. discriminate.
  - apply prefix_slash_snoc in E as [-> | E]; [exact (Hni Hq)|]. rewrite (Hp q Hq) in E. discriminate.
Qed.

Lemma pre_grow dp L L' :
  pre dp L -> (forall q, In q L' -> In q L \/ zprefix dp q = true) -> pre dp L'.
Proof.
  intros Hp Hg q Hq. destruct (Hg q Hq) as [Ho | Hn]; [exact (Hp q Ho)|].
  apply zprefix_false_longer. apply zprefix_length in Hn. rewrite app_length. simpl. lia.
Qed.

Lemma notin_grow_child dp n L L' :
  ~ In dp L -> ~ In SLASH n -> linv L' ->
  (forall q, In q L' -> In q L \/ zprefix (pjoin dp n) q = true) -> ~ In dp L'.
Proof.
  intros Hni Hn Hl Hg Hin. destruct (Hg dp Hin) as [Ho | Hp]; [exact (Hni Ho)|].
  pose proof (zprefix_antisym _ _ (zprefix_pjoin dp n Hn) Hp) as He.
  destruct (Hl dp Hin) as [Hne Hes].
  rewrite (pjoin_noslash _ _ Hn) in He.
  destruct (is_nil dp || ends_with_slash dp) eqn:E.
  - apply orb_true_iff in E as [E | E]; [destruct dp; [congruence|discriminate]|congruence].
  - apply (f_equal (@length Z)) in He. rewrite app_length in He. simpl in He. lia.
Qed.

(* ---- canonical paths ---- *)
Lemma lstrip_split l : exists s, Forall (fun c => c = SLASH) s /\ l = s ++ lstrip_slash l.
Proof.
  induction l as [|c r IH]; simpl.
  - exists []. split; [constructor|reflexivity].
  - destruct (c =? SLASH) eqn:E.
    + apply Z.eqb_eq in E. subst c. destruct IH as (s & Hs & Hr).
      exists (SLASH :: s). split; [constructor; [reflexivity|exact Hs]|]. simpl. rewrite <- Hr. reflexivity.
    + exists []. split; [constructor|reflexivity].
Qed.

Lemma canon_cases p : canon p = p \/ zprefix (canon p ++ [SLASH]) p = true.
Proof.
  unfold canon, rstrip_slash.
  destruct (lstrip_split (rev p)) as (s & Hs & Hr).
  assert (p = rev (lstrip_slash (rev p)) ++ rev s) as Hp.
  { rewrite <- rev_app_distr, <- Hr, rev_involutive. reflexivity. }
  destruct (rev (lstrip_slash (rev p))) as [|c0 r0] eqn:Ec; [left; reflexivity|].
  assert (Forall (fun c => c = SLASH) (rev s)) as Hs'.
  { apply Forall_forall. intros x Hx. apply in_rev in Hx. rewrite Forall_forall in Hs. apply Hs. exact Hx. }
  destruct (rev s) as [|c1 r1].
  - left. rewrite app_nil_r in Hp. symmetry. exact Hp.
  - right. inversion Hs' as [|? ? Hc1 _]; subst c1. rewrite Hp.
    change (SLASH :: r1) with ([SLASH] ++ r1). rewrite app_assoc. apply zprefix_app.
Qed.

Lemma lookup_In c fs k : lookup c fs = Some k -> In (c, k) fs.
Proof.
  induction fs as [|e r IH]; simpl; [discriminate|].
  destruct (zlist_eqb (fst e) c) eqn:E.
  - apply zlist_eqb_spec in E. intros H. inversion H; subst. left. destruct e; reflexivity.
  - intros H. right. apply IH. exact H.
Qed.

Lemma via_false fs L dp : fsinv fs L -> pre dp L -> via_link fs dp = false.
Proof.
  intros Hf Hp. unfold via_link.
  match goal with |- existsb ?f fs = false => destruct (existsb f fs) eqn:E end; [exfalso|reflexivity].
  apply existsb_exists in E as (e & He & Hc). apply andb_true_iff in Hc as [Hk Hz].
  destruct e as [q k]. simpl in *. destruct k; try discriminate.
  rewrite (Hp q (Hf q He)) in Hz. discriminate.
Qed.

Lemma thru_false fs L dp b : fsinv fs L -> pre dp L -> ~ In dp L -> thru_of fs dp b = false.
Proof.
  intros Hf Hp Hni. unfold thru_of. rewrite (via_false fs L dp Hf Hp). simpl.
  destruct b; [|reflexivity]. simpl. unfold lookup_is_link.
  destruct (lookup (canon dp) fs) as [k|] eqn:El; [|reflexivity].
  destruct k; try reflexivity. exfalso.
  apply lookup_In in El. apply Hf in El.
  destruct (canon_cases dp) as [Hc | Hc].
  - rewrite Hc in El. exact (Hni El).
  - rewrite (Hp _ El) in Hc. discriminate.
Qed.

(* ---- effect of the file-system primitives on the link inventory ---- *)
Lemma fsinv_cons_nolink fs L c k : k <> KLink -> fsinv fs L -> fsinv ((c, k) :: fs) L.
Proof. intros Hk Hf q [Hq | Hq]; [inversion Hq; congruence|exact (Hf q Hq)]. Qed.

Lemma do_mkdir_fsinv orc fs p L : fsinv fs L -> fsinv (snd (do_mkdir orc fs p)) L.
Proof.
  intros Hf. unfold do_mkdir. destruct (absent orc fs p); simpl; [|exact Hf].
  apply fsinv_cons_nolink; [discriminate|exact Hf].
Qed.

Lemma do_write_fsinv orc fs p L : fsinv fs L -> fsinv (snd (do_write orc fs p)) L.
Proof.
  intros Hf. unfold do_write. destruct (resolve orc fs p); simpl; try exact Hf.
  destruct (ends_with_slash p); simpl; [exact Hf|].
  destruct (lookup (canon p) fs); simpl; [exact Hf|].
  apply fsinv_cons_nolink; [discriminate|exact Hf].
Qed.

Lemma do_symlink_true orc fs t p fs1 :
  do_symlink orc fs t p = (true, fs1) ->
  fs1 = (p, KLink) :: fs /\ p <> [] /\ ends_with_slash p = false.
Proof.
  unfold do_symlink.
  destruct (negb (is_nil t) && negb (is_nil p) && negb (ends_with_slash p) && absent orc fs p) eqn:E;
    [|discriminate].
  intros H. inversion H; subst.
  apply andb_true_iff in E as [E _]. apply andb_true_iff in E as [E E3]. apply andb_true_iff in E as [_ E2].
  apply negb_true_iff in E2. apply negb_true_iff in E3.
  split; [reflexivity|]. split; [|exact E3]. intros ->. discriminate.
Qed.

Lemma do_symlink_false orc fs t p fs1 : do_symlink orc fs t p = (false, fs1) -> fs1 = fs.
Proof.
  unfold do_symlink. destruct (_ && absent orc fs p); intros H; inversion H. reflexivity.
Qed.

(* ---- segments of a run ---- *)
Definition Seg (fsym : bool) (dp : bytes) (fs : fsT) (L : list bytes) (ops : list op)
           (fs' : fsT) (L' : list bytes) : Prop :=
  L' = links_after L ops /\ linv L' /\
  (forall q, In q L' -> In q L \/ zprefix dp q = true) /\
  links_safe fsym L ops /\
  (fsinv fs L -> fsinv fs' L' /\ Forall (thru_ok fsym) ops).

Definition PostR (fsym : bool) (dp : bytes) (fs : fsT) (L : list bytes) (r : result) : Prop :=
  Seg fsym dp fs L (fst (fst r)) (fst (snd (fst r))) (snd (snd (fst r))).

Lemma Seg_nil fsym dp fs L : linv L -> Seg fsym dp fs L [] fs L.
Proof.
  intros Hl. split; [reflexivity|]. split; [exact Hl|]. split; [auto|]. split; [exact I|].
  intros Hf. split; [exact Hf|constructor].
Qed.

Lemma Seg_app fsym dp dp' fs L ops1 fs1 L1 ops2 fs2 L2 :
  zprefix dp dp' = true ->
  Seg fsym dp fs L ops1 fs1 L1 -> Seg fsym dp' fs1 L1 ops2 fs2 L2 ->
  Seg fsym dp fs L (ops1 ++ ops2) fs2 L2.
Proof.
  intros Hpp (Ha1 & Hl1 & Hg1 & Hs1 & Hf1) (Ha2 & Hl2 & Hg2 & Hs2 & Hf2).
  split; [rewrite links_after_app, <- Ha1; exact Ha2|].
  split; [exact Hl2|].
  split.
  - intros q Hq. destruct (Hg2 q Hq) as [H | H]; [exact (Hg1 q H)|].
    right. eapply zprefix_trans; eassumption.
  - split.
    + apply links_safe_app; [exact Hs1|]. rewrite <- Ha1. exact Hs2.
    + intros Hf. destruct (Hf1 Hf) as [Hf1' Ht1]. destruct (Hf2 Hf1') as [Hf2' Ht2].
      split; [exact Hf2'|]. apply Forall_app. split; assumption.
Qed.

Lemma Seg_weaken fsym dp dp' fs L ops fs' L' :
  zprefix dp dp' = true -> Seg fsym dp' fs L ops fs' L' -> Seg fsym dp fs L ops fs' L'.
Proof.
  intros Hpp (A & B & C & D & E).
  split; [exact A|]. split; [exact B|]. split; [|split; [exact D|exact E]].
  intros q Hq. destruct (C q Hq) as [H | H]; [left; exact H|right].
  eapply zprefix_trans; eassumption.
Qed.

(* one operation on dp that creates no link *)
Lemma Seg_one fsym dp fs L o fs' :
  op_path o = dp -> created o = [] -> linv L -> pre dp L ->
  (strict o = true -> ~ In dp L) ->
  (follows o = true -> In dp L -> fsym = true) ->
  (fsinv fs L -> fsinv fs' L /\ thru_ok fsym o) ->
  Seg fsym dp fs L [o] fs' L.
Proof.
  intros Hpath Hc Hl Hp Hst Hfo Hf.
  split; [unfold links_after; simpl; rewrite Hc; reflexivity|].
  split; [exact Hl|]. split; [auto|]. split.
  - simpl. split; [|exact I]. unfold op_safe. rewrite Hpath. auto.
  - intros H. destruct (Hf H) as [H1 H2]. split; [exact H1|]. constructor; [exact H2|constructor].
Qed.

Lemma pre_self_cons dp L : pre dp L -> pre dp (dp :: L).
Proof. intros Hp q [<- | Hq]; [apply zprefix_snoc_self_false|exact (Hp q Hq)]. Qed.

Lemma preserve_step_post orc fsym c dp fs L ops fs1 L1 fl :
  Seg fsym dp fs L ops fs1 L1 -> pre dp L1 ->
  (fl = true -> In dp L1 -> fsym = true) ->
  (fsinv fs1 L1 -> thru_of fs1 dp fl = true -> fsym = true) ->
  PostR fsym dp fs L (preserve_step orc c ops (fs1, L1) dp fl).
Proof.
  intros HS Hp Hfl Hth. unfold preserve_step, PostR. destruct (preserve c); simpl; [|exact HS].
  eapply Seg_app; [apply zprefix_refl|exact HS|].
  destruct HS as (_ & Hl1 & _).
  apply Seg_one; try reflexivity; try assumption.
  - discriminate.
  - simpl. destruct fl; [|discriminate]. intros _. apply Hfl. reflexivity.
  - intros Hf. split; [exact Hf|]. split; [discriminate|]. simpl. apply Hth. exact Hf.
Qed.

Section Safe.
  Variable orc : bytes -> res.
  Variable c : cfg.
  Hypothesis Hdup : dupcheck c = true.
  Let fsym := negb (presfix c) && follow c.

  Lemma fl_fsym : (if presfix c then false else follow c) = true -> fsym = true.
  Proof. unfold fsym. destruct (presfix c); simpl; [discriminate|auto]. Qed.

  Definition RecOK (rec : node -> bytes -> state -> result) : Prop :=
    forall n dp fs L, linv L -> pre dp L -> PostR fsym dp fs L (rec n dp (fs, L)).

  Lemma copy_entries_post rec dp : RecOK rec ->
    forall es fs L, linv L -> pre dp L -> ~ In dp L ->
      PostR fsym dp fs L (copy_entries rec dp es (fs, L)) /\
      ~ In dp (snd (snd (fst (copy_entries rec dp es (fs, L))))).
  Proof.
    intros Hrec. induction es as [|e rest IH]; intros fs L Hl Hp Hni; simpl.
    - split; [apply Seg_nil; exact Hl|exact Hni].
    - destruct (get_name_skipped (fst e)) eqn:Esk; [apply IH; assumption|].
      destruct (mem_z SLASH (fst e)) eqn:Esl; [split; [apply Seg_nil; exact Hl|exact Hni]|].
      apply mem_z_false in Esl.
      pose proof (Hrec (snd e) (pjoin dp (fst e)) fs L Hl (pre_child _ _ _ Esl Hp Hni)) as H1.
      destruct (rec (snd e) (pjoin dp (fst e)) (fs, L)) as [[o1 [fs1 L1]] r1].
      unfold PostR in H1. simpl in H1.
      assert (Seg fsym dp fs L o1 fs1 L1) as H1'.
      { eapply Seg_weaken; [apply zprefix_pjoin; exact Esl|exact H1]. }
      assert (~ In dp L1) as Hni1.
      { destruct H1 as (_ & B & C & _). eapply notin_grow_child; eassumption. }
      destruct r1 as [x|]; [split; [exact H1'|exact Hni1]|].
      assert (pre dp L1) as Hp1.
      { destruct H1' as (_ & _ & C & _). eapply pre_grow; eassumption. }
      assert (linv L1) as Hl1 by (destruct H1' as (_ & B & _); exact B).
      pose proof (IH fs1 L1 Hl1 Hp1 Hni1) as [H2 Hni2].
      destruct (copy_entries rec dp rest (fs1, L1)) as [[o2 [fs2 L2]] r2].
      unfold PostR in *. simpl in *. split; [|exact Hni2].
      eapply Seg_app; [apply zprefix_refl|exact H1'|exact H2].
  Qed.

  Lemma copy_body_post rec n dp fs L : RecOK rec -> linv L -> pre dp L ->
    PostR fsym dp fs L (copy_body orc c rec n dp (fs, L)).
  Proof.
    intros Hrec Hl Hp. unfold copy_body. rewrite Hdup. simpl fst. simpl snd. simpl andb.
    destruct (mem_bytes dp L) eqn:Em; [apply Seg_nil; exact Hl|].
    apply mem_bytes_false in Em.
    destruct (effective c n) as [rd|t seen|es ls|].
    - (* regular file *)
      pose proof (do_write_fsinv orc fs dp L) as Hw.
      destruct (do_write orc fs dp) as [ok fs1]. simpl in Hw.
      assert (Seg fsym dp fs L [OWrite dp ok (thru_of fs dp true)] fs1 L) as HS.
      { apply Seg_one; try reflexivity; try assumption.
        - intros _. exact Em.
        - discriminate.
        - intros Hf. split; [apply Hw; exact Hf|]. split; simpl.
          + intros _. eapply thru_false; eassumption.
          + rewrite (thru_false fs L dp true Hf Hp Em). discriminate. }
      destruct (ok && rd); [|exact HS].
      apply preserve_step_post; [exact HS|exact Hp| |].
      + intros _ Hin. exfalso. exact (Em Hin).
      + intros Hf Ht. rewrite (thru_false fs1 L dp true Hf Hp Em) in Ht. discriminate.
    - (* symbolic link *)
      destruct (do_symlink orc fs t dp) as [ok fs1] eqn:Es. destruct ok.
      + apply do_symlink_true in Es as (-> & Hne & Hes).
        assert (linv (dp :: L)) as Hl1.
        { intros q [<- | Hq]; [split; assumption|exact (Hl q Hq)]. }
        assert (Seg fsym dp fs L [OSymlink t dp true (thru_of fs dp false)] ((dp, KLink) :: fs) (dp :: L)) as HS.
        { split; [reflexivity|]. split; [exact Hl1|]. split.
          - intros q [<- | Hq]; [right; apply zprefix_refl|left; exact Hq].
          - split.
            + simpl. split; [|exact I]. unfold op_safe. simpl. split; [exact Hp|].
              split; [intros _; exact Em|discriminate].
            + intros Hf. split.
              * intros q [Hq | Hq]; [inversion Hq; left; reflexivity|right; exact (Hf q Hq)].
              * constructor; [|constructor]. split; simpl.
                -- intros _. eapply thru_false; eassumption.
                -- rewrite (thru_false fs L dp false Hf Hp Em). discriminate. }
        apply preserve_step_post; [exact HS|apply pre_self_cons; exact Hp| |].
        * intros Hfl _. apply fl_fsym. exact Hfl.
        * intros Hf Ht. unfold thru_of in Ht.
          rewrite (via_false _ _ dp Hf (pre_self_cons dp L Hp)) in Ht. simpl in Ht.
          apply andb_true_iff in Ht as [Ht _]. apply fl_fsym. exact Ht.
      + apply do_symlink_false in Es. subst fs1.
        apply Seg_one; try reflexivity; try assumption.
        * intros _. exact Em.
        * discriminate.
        * intros Hf. split; [exact Hf|]. split; simpl.
          -- intros _. eapply thru_false; eassumption.
          -- rewrite (thru_false fs L dp false Hf Hp Em). discriminate.
    - (* directory *)
      destruct (negb (recurse c)); [apply Seg_nil; exact Hl|].
      set (isd := res_dir (resolve orc fs dp)).
      pose proof (do_mkdir_fsinv orc fs dp L) as Hmk.
      assert (Seg fsym dp fs L [OIsdir dp isd (thru_of fs dp true)] fs L) as Hisd.
      { apply Seg_one; try reflexivity; try assumption.
        - intros _. exact Em.
        - discriminate.
        - intros Hf. split; [exact Hf|]. split; simpl.
          + intros _. eapply thru_false; eassumption.
          + rewrite (thru_false fs L dp true Hf Hp Em). discriminate. }
      assert (forall mk_ok fs1,
                 (if isd then (true, fs) else do_mkdir orc fs dp) = (mk_ok, fs1) ->
                 Seg fsym dp fs L
                     (if isd then [OIsdir dp isd (thru_of fs dp true)]
                      else [OIsdir dp isd (thru_of fs dp true); OMkdir dp mk_ok (thru_of fs dp false)])
                     fs1 L) as Hpre.
      { intros mk_ok fs1 E. destruct isd.
        - inversion E; subst. exact Hisd.
        - change [OIsdir dp false (thru_of fs dp true); OMkdir dp mk_ok (thru_of fs dp false)]
            with ([OIsdir dp false (thru_of fs dp true)] ++ [OMkdir dp mk_ok (thru_of fs dp false)]).
          eapply Seg_app; [apply zprefix_refl|exact Hisd|].
          apply Seg_one; try reflexivity; try assumption.
          + intros _. exact Em.
          + discriminate.
          + intros Hf. split; [rewrite E in Hmk; apply Hmk; exact Hf|]. split; simpl.
            * intros _. eapply thru_false; eassumption.
            * rewrite (thru_false fs L dp false Hf Hp Em). discriminate. }
      destruct (if isd then (true, fs) else do_mkdir orc fs dp) as [mk_ok fs1] eqn:Emk.
      specialize (Hpre mk_ok fs1 eq_refl).
      destruct (negb mk_ok); [exact Hpre|].
      pose proof (copy_entries_post rec dp Hrec es fs1 L Hl Hp Em) as [H2 Hni2].
      destruct (copy_entries rec dp es (fs1, L)) as [[o2 [fs2 L2]] r2].
      unfold PostR in H2. simpl in H2, Hni2.
      assert (Seg fsym dp fs L
                  ((if isd then [OIsdir dp isd (thru_of fs dp true)]
                    else [OIsdir dp isd (thru_of fs dp true); OMkdir dp mk_ok (thru_of fs dp false)]) ++ o2)
                  fs2 L2) as Hall.
      { eapply Seg_app; [apply zprefix_refl|exact Hpre|exact H2]. }
      destruct r2 as [x|]; [exact Hall|].
      destruct (negb ls); [exact Hall|].
      assert (pre dp L2) as Hp2.
      { destruct H2 as (_ & _ & C & _). eapply pre_grow; eassumption. }
      apply preserve_step_post; [exact Hall|exact Hp2| |].
      + intros _ Hin. exfalso. exact (Hni2 Hin).
      + intros Hf Ht. rewrite (thru_false fs2 L2 dp true Hf Hp2 Hni2) in Ht. discriminate.
    - (* broken *)
      apply Seg_nil. exact Hl.
  Qed.

  Lemma copy_node_post : forall fuel, RecOK (copy_node orc c fuel).
  Proof.
    induction fuel as [|f IH]; intros n dp fs L Hl Hp; simpl; [apply Seg_nil; exact Hl|].
    pose proof (copy_body_post (copy_node orc c f) n dp fs L IH Hl Hp) as H.
    destruct (copy_body orc c (copy_node orc c f) n dp (fs, L)) as [[ops [fs1 L1]] r].
    destruct r as [x|]; [|exact H].
    destruct (handler c); [|exact H].
    unfold PostR in *. simpl in *.
    eapply Seg_app; [apply zprefix_refl|exact H|].
    destruct H as (_ & Hl1 & Hg & _).
    apply Seg_one; try reflexivity; try assumption.
    - eapply pre_grow; eassumption.
    - discriminate.
    - discriminate.
    - intros Hf. split; [exact Hf|]. split; [discriminate|discriminate].
  Qed.
End Safe.

(* ---------- the whole copy (_begin_copy) ------------------------------------------------------ *)

Section Whole.
  Variable orc : bytes -> res.
  Variable c : cfg.
  Hypothesis Hdup : dupcheck c = true.
  Let fsym := negb (presfix c) && follow c.

  Lemma copy_tops_post rec dst isd : RecOK c rec ->
    forall srcs fs L,
      Forall (fun e => mem_z SLASH (fst e) = false) srcs ->
      linv L -> pre dst L -> (isd = true -> ~ In dst L) ->
      PostR fsym dst fs L (copy_tops rec dst isd srcs (fs, L)).
  Proof.
    intros Hrec. induction srcs as [|e rest IH]; intros fs L Hs Hl Hp Hni; simpl.
    - apply Seg_nil. exact Hl.
    - inversion Hs as [|? ? He Hrest]; subst. apply mem_z_false in He.
      assert (pre (if isd then pjoin dst (fst e) else dst) L) as Hpd.
      { destruct isd; [apply pre_child; auto|exact Hp]. }
      assert (zprefix dst (if isd then pjoin dst (fst e) else dst) = true) as Hpp.
      { destruct isd; [apply zprefix_pjoin; exact He|apply zprefix_refl]. }
      pose proof (Hrec (snd e) _ fs L Hl Hpd) as H1.
      destruct (rec (snd e) (if isd then pjoin dst (fst e) else dst) (fs, L)) as [[o1 [fs1 L1]] r1].
      unfold PostR in H1. simpl in H1.
      assert (Seg fsym dst fs L o1 fs1 L1) as H1' by (eapply Seg_weaken; eassumption).
      destruct r1 as [x|]; [exact H1'|].
      assert (linv L1) as Hl1 by (destruct H1 as (_ & B & _); exact B).
      assert (pre dst L1) as Hp1.
      { destruct H1' as (_ & _ & C & _). eapply pre_grow; eassumption. }
      assert (isd = true -> ~ In dst L1) as Hni1.
      { intros Hi. subst isd. destruct H1 as (_ & B & C & _).
        eapply notin_grow_child; [apply Hni; reflexivity|exact He|exact B|exact C]. }
      pose proof (IH fs1 L1 Hrest Hl1 Hp1 Hni1) as H2.
      destruct (copy_tops rec dst isd rest (fs1, L1)) as [[o2 [fs2 L2]] r2].
      unfold PostR in *. simpl in *.
      eapply Seg_app; [apply zprefix_refl|exact H1'|exact H2].
  Qed.

  Lemma begin_copy_post fuel dst srcs fs0 :
    Forall (fun e => mem_z SLASH (fst e) = false) srcs ->
    PostR fsym dst fs0 [] (begin_copy orc c fuel dst srcs fs0).
  Proof.
    intros Hs. unfold begin_copy.
    assert (linv []) as Hl0 by (intros q []).
    assert (pre dst []) as Hp0 by (intros q []).
    assert (Seg fsym dst fs0 [] [OIsdir dst (res_dir (resolve orc fs0 dst)) (thru_of fs0 dst true)] fs0 []) as H0.
    { apply Seg_one; try reflexivity; try assumption.
      - intros _ [].
      - discriminate.
      - intros Hf. split; [exact Hf|]. split; simpl.
        + intros _. eapply thru_false; [exact Hf|exact Hp0|intros []].
        + rewrite (thru_false fs0 [] dst true Hf Hp0 (fun x => x)). discriminate. }
    destruct ((1 <? Z.of_nat (length srcs)) && negb (res_dir (resolve orc fs0 dst))); [exact H0|].
    pose proof (copy_tops_post (copy_node orc c fuel) dst (res_dir (resolve orc fs0 dst))
                  (copy_node_post orc c Hdup fuel) srcs fs0 [] Hs Hl0 Hp0 (fun _ x => x)) as H.
    destruct (copy_tops _ dst _ srcs (fs0, [])) as [[ops [fs1 L1]] r].
    unfold PostR in *. simpl in *.
    change (OIsdir dst (res_dir (resolve orc fs0 dst)) (thru_of fs0 dst true) :: ops)
      with ([OIsdir dst (res_dir (resolve orc fs0 dst)) (thru_of fs0 dst true)] ++ ops).
    eapply Seg_app; [apply zprefix_refl|exact H0|exact H].
  Qed.
End Whole.

Lemma links_safe_app_inv fsym : forall a L b,
  links_safe fsym L (a ++ b) -> links_safe fsym (links_after L a) b.
Proof.
  induction a as [|o a IH]; intros L b H; simpl in *; [exact H|].
  destruct H as [_ H]. apply IH. exact H.
Qed.

Lemma links_safe_in fsym : forall l L o q,
  links_safe fsym L l -> In o l -> In q L ->
  zprefix (q ++ [SLASH]) (op_path o) = false /\
  (strict o = true -> op_path o <> q) /\
  (follows o = true -> op_path o = q -> fsym = true).
Proof.
  induction l as [|x l IH]; intros L o q Hs Ho Hq; [destruct Ho|].
  simpl in Hs. destruct Hs as [(A & B & C) Hs]. destruct Ho as [<- | Ho].
  - split; [apply A; exact Hq|]. split.
    + intros Hst He. apply (B Hst). rewrite He. exact Hq.
    + intros Hfo He. apply (C Hfo). rewrite He. exact Hq.
  - apply (IH (created x ++ L)); [exact Hs|exact Ho|]. apply in_or_app. right. exact Hq.
Qed.

Definition no_links (fs : fsT) : Prop := forall q, ~ In (q, KLink) fs.

(* what the proofs above give for a complete plan *)
Lemma plan_facts orc c dst srcs fs0 :
  dupcheck c = true -> Forall (fun e => mem_z SLASH (fst e) = false) srcs ->
  links_safe (negb (presfix c) && follow c) [] (copy_plan orc c dst srcs fs0) /\
  (no_links fs0 -> Forall (thru_ok (negb (presfix c) && follow c)) (copy_plan orc c dst srcs fs0)).
Proof.
  intros Hd Hs. unfold copy_plan.
  pose proof (begin_copy_post orc c Hd (S (srcs_size srcs)) dst srcs fs0 Hs) as H.
  unfold PostR in H. destruct H as (_ & _ & _ & H4 & H5). split; [exact H4|].
  intros Hn. apply H5. intros q Hq. exfalso. exact (Hn q Hq).
Qed.

(* T2: after the plan has created a symbolic link at q, no later operation has q as a proper
   directory prefix of its path, and none of isdir / mkdir / symlink / open-for-write is on q *)
Theorem copy_never_through_new_link orc c dst srcs fs0 :
  dupcheck c = true -> Forall (fun e => mem_z SLASH (fst e) = false) srcs ->
  forall l1 t q th l2 o,
    copy_plan orc c dst srcs fs0 = l1 ++ OSymlink t q true th :: l2 -> In o l2 ->
    zprefix (q ++ [SLASH]) (op_path o) = false /\ (strict o = true -> op_path o <> q).
Proof.
  intros Hd Hs l1 t q th l2 o Heq Ho.
  destruct (plan_facts orc c dst srcs fs0 Hd Hs) as [H _]. rewrite Heq in H.
  apply links_safe_app_inv in H. simpl in H. destruct H as [_ H].
  destruct (links_safe_in _ _ _ o q H Ho (or_introl eq_refl)) as (A & B & _). auto.
Qed.

(* T4: a setstat on a link created by the plan never follows it *)
Theorem copy_preserve_never_follows_new_link orc c dst srcs fs0 :
  dupcheck c = true -> presfix c = true -> Forall (fun e => mem_z SLASH (fst e) = false) srcs ->
  forall l1 t q th l2 p ok th',
    copy_plan orc c dst srcs fs0 = l1 ++ OSymlink t q true th :: l2 ->
    In (OSetstat p true ok th') l2 -> p <> q.
Proof.
  intros Hd Hpf Hs l1 t q th l2 p ok th' Heq Ho Hpq.
  destruct (plan_facts orc c dst srcs fs0 Hd Hs) as [H _]. rewrite Heq in H.
  apply links_safe_app_inv in H. simpl in H. destruct H as [_ H].
  destruct (links_safe_in _ _ _ _ q H Ho (or_introl eq_refl)) as (_ & _ & C).
  rewrite Hpf in C. simpl in C. specialize (C eq_refl Hpq). discriminate.
Qed.

(* T2, physical form: when the destination holds no symbolic link before the copy, the resolution
   of the path of every operation of the plan traverses no symbolic link at all *)
Theorem copy_resolves_inside orc c dst srcs fs0 :
  dupcheck c = true -> presfix c = true -> Forall (fun e => mem_z SLASH (fst e) = false) srcs ->
  no_links fs0 ->
  Forall (fun o => op_thru o = false) (copy_plan orc c dst srcs fs0).
Proof.
  intros Hd Hpf Hs Hn.
  destruct (plan_facts orc c dst srcs fs0 Hd Hs) as [_ H]. specialize (H Hn).
  eapply Forall_impl; [|exact H]. intros o [_ Ho]. rewrite Hpf in Ho. simpl in Ho.
  destruct (op_thru o); [specialize (Ho eq_refl); discriminate|reflexivity].
Qed.

(* the same without the 6e0d949 repair, when the caller does not ask for follow_symlinks *)
Theorem copy_resolves_inside_nofollow orc c dst srcs fs0 :
  dupcheck c = true -> follow c = false -> Forall (fun e => mem_z SLASH (fst e) = false) srcs ->
  no_links fs0 ->
  Forall (fun o => op_thru o = false) (copy_plan orc c dst srcs fs0).
Proof.
  intros Hd Hfo Hs Hn.
  destruct (plan_facts orc c dst srcs fs0 Hd Hs) as [_ H]. specialize (H Hn).
  eapply Forall_impl; [|exact H]. intros o [_ Ho]. rewrite Hfo, andb_false_r in Ho.
  destruct (op_thru o); [specialize (Ho eq_refl); discriminate|reflexivity].
Qed.

(* ---------- refutations of the unrepaired procedures ------------------------------------------ *)

Definition w_dst : bytes := [100].                                   (* "d" *)
Definition w_fs0 : fsT := [(w_dst, KDir)].
Definition w_orc (p : bytes) : res := if zlist_eqb p [100;47;116;47;120] then RDir else RNone.
(* t/ = [ x -> "/o" ; x/ = [ e ] ] *)
Definition w_dup : list (bytes * node) :=
  [([116], Dir [([120], Link [47;111] Broken); ([120], Dir [([101], File true)] true)] true)].
(* t/ = [ x -> "/o", and the following stat still says "symbolic link" ] *)
Definition w_pres : list (bytes * node) :=
  [([116], Dir [([120], Link [47;111] (Link [] Broken))] true)].

Lemma w_fs0_no_links : no_links w_fs0.
Proof. intros q [H | []]. inversion H. Qed.

(* T3: before a79246f a listed link followed by a directory of the same name is written through *)
Theorem copy_old_refuted :
  exists orc c dst srcs fs0,
    no_links fs0 /\ Forall (fun e => mem_z SLASH (fst e) = false) srcs /\
    exists l1 t q th l2 o,
      copy_plan_old orc c dst srcs fs0 = l1 ++ OSymlink t q true th :: l2 /\ In o l2 /\
      strict o = true /\ zprefix (q ++ [SLASH]) (op_path o) = true /\ op_thru o = true.
Proof.
  exists w_orc, (mkcfg false true false false), w_dst, w_dup, w_fs0.
  split; [exact w_fs0_no_links|]. split; [repeat constructor|].
  exists [OIsdir [100] true false; OIsdir [100;47;116] false false; OMkdir [100;47;116] true false],
         [47;111], [100;47;116;47;120], false,
         [OIsdir [100;47;116;47;120] true true; OWrite [100;47;116;47;120;47;101] true true],
         (OWrite [100;47;116;47;120;47;101] true true).
  split; [vm_compute; reflexivity|]. split; [right; left; reflexivity|].
  split; [reflexivity|]. split; reflexivity.
Qed.

(* before 6e0d949: with follow_symlinks and preserve, a source whose following stat still says
   "symbolic link" makes the copy set attributes THROUGH the link it has just created *)
Theorem copy_preserve_old_refuted :
  exists orc c dst srcs fs0,
    no_links fs0 /\ dupcheck c = true /\
    exists l1 t q th l2 ok,
      copy_plan orc c dst srcs fs0 = l1 ++ OSymlink t q true th :: l2 /\
      In (OSetstat q true ok true) l2.
Proof.
  exists (fun _ => RFile), (old_pres (mkcfg true true true false)), w_dst, w_pres, w_fs0.
  split; [exact w_fs0_no_links|]. split; [reflexivity|].
  exists [OIsdir [100] true false; OIsdir [100;47;116] false false; OMkdir [100;47;116] true false],
         [47;111], [100;47;116;47;120], false,
         [OSetstat [100;47;116;47;120] true true true; OSetstat [100;47;116] true true false], true.
  split; [vm_compute; reflexivity|]. left. reflexivity.
Qed.

(* ---------- glob expansion dir/* --------------------------------------------------------------- *)

Lemma upto_slash_app a b : ~ In SLASH a -> upto_slash (a ++ SLASH :: b) = a.
Proof.
  induction a as [|x a IH]; intros H; simpl.
  - reflexivity.
  - destruct (x =? SLASH) eqn:E.
    + apply Z.eqb_eq in E. exfalso. apply H. left. exact E.
    + rewrite IH; [reflexivity|]. intros Hin. apply H. right. exact Hin.
Qed.

Lemma upto_slash_noslash a : ~ In SLASH a -> upto_slash a = a.
Proof.
  induction a as [|x a IH]; intros H; simpl; [reflexivity|].
  destruct (x =? SLASH) eqn:E.
  - apply Z.eqb_eq in E. exfalso. apply H. left. exact E.
  - rewrite IH; [reflexivity|]. intros Hin. apply H. right. exact Hin.
Qed.

Lemma basename_pjoin dir n : ~ In SLASH n -> basename (pjoin dir n) = n.
Proof.
  intros Hn. assert (~ In SLASH (rev n)) as Hr by (intros H; apply Hn; apply in_rev; exact H).
  rewrite (pjoin_noslash _ _ Hn). unfold basename.
  destruct (is_nil dir || ends_with_slash dir) eqn:E.
  - rewrite rev_app_distr. unfold ends_with_slash in E.
    destruct (rev dir) as [|x r] eqn:Erev.
    + rewrite app_nil_r, (upto_slash_noslash _ Hr). apply rev_involutive.
    + destruct dir as [|d0 dr]; [discriminate|]. simpl in E. apply Z.eqb_eq in E. subst x.
      rewrite (upto_slash_app _ _ Hr). apply rev_involutive.
  - rewrite rev_app_distr. simpl. rewrite <- app_assoc. simpl.
    rewrite (upto_slash_app _ _ Hr). apply rev_involutive.
Qed.

Lemma glob_scan_names dir : forall listing,
  Forall (fun e => get_name_skipped (fst e) = false /\ mem_z SLASH (fst e) = false)
         (fst (glob_scan true dir listing)).
Proof.
  induction listing as [|e r IH]; simpl; [constructor|].
  destruct (get_name_skipped (fst e)) eqn:Esk; [exact IH|].
  destruct (mem_z SLASH (fst e)) eqn:Esl; simpl; [constructor|].
  destruct (glob_scan true dir r) as [m x]. simpl in *.
  constructor; [|exact IH]. simpl.
  rewrite (basename_pjoin dir (fst e)) by (apply mem_z_false; exact Esl). auto.
Qed.

(* T1 for a glob: whatever the listing contains, every operation stays lexically inside dst *)
Theorem copy_glob_paths_under_dst orc c dst dir listing fs0 :
  dst <> [] -> ends_with_slash dst = false ->
  Forall (fun o => under_dst dst (op_path o)) (copy_plan_glob orc c true dst dir listing fs0).
Proof.
  intros Hne Hd. unfold copy_plan_glob, begin_copy_glob, glob_star.
  pose proof (glob_scan_names dir listing) as Hn.
  destruct (glob_scan true dir listing) as [m x]. simpl in Hn.
  assert (forall fuel, Forall (fun o => under_dst dst (op_path o))
                              (fst (fst (begin_copy orc c fuel dst m fs0)))) as Hb.
  { intros fuel. apply (begin_copy_paths (under_dst dst)).
    - intros p n Hp H1 H2. apply under_dst_pjoin; assumption.
    - apply under_dst_self.
    - exact Hn. }
  destruct x as [e|].
  - destruct (handler c); simpl; [apply Hb|constructor].
  - destruct (is_nil_l m); [destruct (handler c); simpl; [apply Hb|constructor]|simpl; apply Hb].
Qed.

Lemma not_under_dotdot : ~ under_dst [100] [100;47;46;46].
Proof.
  intros (comps & ts & Hc & Hts & Heq). simpl in Heq. inversion Heq as [H]. clear Heq.
  destruct comps as [|c1 r].
  - simpl in H. destruct Hts as [-> | ->]; discriminate.
  - inversion Hc as [|? ? (Hne & Hdot & Hdd & Hns) _]; subst. simpl in H. inversion H as [H']. clear H.
    destruct c1 as [|a [|b [|d c1']]].
    + congruence.
    + simpl in H'. inversion H'; subst. apply Hdot. reflexivity.
    + simpl in H'. inversion H'; subst. apply Hdd. reflexivity.
    + simpl in H'. inversion H'.
Qed.

(* before abbc782 a listed name "f/.." matched the pattern and its basename ".." left dst *)
Theorem copy_glob_old_refuted :
  exists orc c dst dir listing fs0,
    dst <> [] /\ ends_with_slash dst = false /\
    ~ Forall (fun o => under_dst dst (op_path o)) (copy_plan_glob orc c false dst dir listing fs0).
Proof.
  exists (fun _ => RNone), (mkcfg false true false false), w_dst, [115],
         [([102;47;46;46], Dir [([101], File true)] true)], w_fs0.
  split; [discriminate|]. split; [reflexivity|].
  intros H. vm_compute in H.
  inversion H as [|? ? _ H1]; subst. inversion H1 as [|? ? H2 _]; subst.
  exact (not_under_dotdot H2).
Qed.

(* ---------- several top-level sources with the same base name -------------------------------- *)

(* two sources named "x": a link to "/o", then a directory holding "e" *)
Definition w_two : list (bytes * node) :=
  [([120], Link [47;111] Broken); ([120], Dir [([101], File true)] true)].
Definition w_orc2 (p : bytes) : res := if zlist_eqb p [100;47;120] then RDir else RNone.

(* a `symlinks` set per source (seeded change C13-e) lets the second source be written through the
   link the first one created *)
Theorem copy_per_source_set_refuted :
  exists orc c dst srcs fs0,
    no_links fs0 /\ dupcheck c = true /\ presfix c = true /\
    Forall (fun e => mem_z SLASH (fst e) = false) srcs /\
    exists l1 t q th l2 o,
      copy_plan_persrc orc c dst srcs fs0 = l1 ++ OSymlink t q true th :: l2 /\ In o l2 /\
      strict o = true /\ zprefix (q ++ [SLASH]) (op_path o) = true /\ op_thru o = true.
Proof.
  exists w_orc2, (mkcfg false true false false), w_dst, w_two, w_fs0.
  split; [exact w_fs0_no_links|]. split; [reflexivity|]. split; [reflexivity|].
  split; [repeat constructor|].
  exists [OIsdir [100] true false], [47;111], [100;47;120], false,
         [OIsdir [100;47;120] true true; OWrite [100;47;120;47;101] true true],
         (OWrite [100;47;120;47;101] true true).
  split; [vm_compute; reflexivity|]. split; [right; left; reflexivity|].
  split; [reflexivity|]. split; reflexivity.
Qed.

(* the code as it is rejects the second "x" of the same call *)
Lemma copy_two_sources_rejected :
  begin_copy w_orc2 (mkcfg false true false false) 3 w_dst w_two w_fs0 =
  ([OIsdir [100] true false; OSymlink [47;111] [100;47;120] true false],
   ([([100;47;120], KLink); ([100], KDir)], [[100;47;120]]), Some EBad).
Proof. vm_compute. reflexivity. Qed.
