(* Proofs about the DER codec model (Model/DER.v). *)
From AV Require Import Base.Prelude Model.DER.

(* ------------------------------------------------------------------------------------------- *)
(* generic list facts *)

Lemma zlen_app {A} (a b : list A) : zlen (a ++ b) = zlen a + zlen b.
Proof. unfold zlen. rewrite app_length. lia. Qed.

Lemma zlen_cons {A} (x : A) l : zlen (x :: l) = 1 + zlen l.
Proof. unfold zlen. cbn [length]. lia. Qed.

Lemma zlen_nonneg {A} (l : list A) : 0 <= zlen l.
Proof. unfold zlen. lia. Qed.

Lemma firstn_zlen_app {A} (a b : list A) : firstn (Z.to_nat (zlen a)) (a ++ b) = a.
Proof.
  unfold zlen. rewrite Nat2Z.id. rewrite firstn_app, Nat.sub_diag, firstn_all. cbn. apply app_nil_r.
Qed.

Lemma skipn_zlen_app {A} (a b : list A) : skipn (Z.to_nat (zlen a)) (a ++ b) = b.
Proof.
  unfold zlen. rewrite Nat2Z.id. rewrite skipn_app, Nat.sub_diag, skipn_all. reflexivity.
Qed.

Lemma list_eqb_eq {A} (eqb : A -> A -> bool) :
  (forall x y, eqb x y = true -> x = y) -> forall a b, list_eqb eqb a b = true -> a = b.
Proof.
  intros Hsound a. induction a as [|x a IH]; intros [|y b] H; cbn in H; try discriminate; [reflexivity|].
  apply andb_true_iff in H as [H1 H2]. f_equal; [apply Hsound, H1 | apply IH, H2].
Qed.

(* ------------------------------------------------------------------------------------------- *)
(* big-endian digits *)

Lemma fold_digits_acc B l a :
  fold_left (fun a d => a * B + d) l a = a * B ^ zlen l + undigits B l.
Proof.
  unfold undigits. revert a. induction l as [|d l IH]; intros a.
  - cbn. unfold zlen. cbn. lia.
  - cbn [fold_left]. rewrite IH. rewrite (IH (0 * B + d)). rewrite zlen_cons.
    rewrite Z.pow_add_r by (pose proof (zlen_nonneg l); lia). ring.
Qed.

Lemma undigits_cons B d l : undigits B (d :: l) = d * B ^ zlen l + undigits B l.
Proof. unfold undigits at 1. cbn [fold_left]. rewrite fold_digits_acc. ring. Qed.

Lemma undigits_snoc B l d : undigits B (l ++ [d]) = undigits B l * B + d.
Proof. unfold undigits. rewrite fold_left_app. reflexivity. Qed.

Lemma undigits_nil B : undigits B [] = 0.
Proof. reflexivity. Qed.

Definition in_range (B : Z) (d : Z) : Prop := 0 <= d < B.

Lemma undigits_bound B l : 0 < B -> Forall (in_range B) l -> 0 <= undigits B l < B ^ zlen l.
Proof.
  intros HB H. induction H as [|d l Hd Hl IH].
  - cbn. unfold zlen. cbn. lia.
  - rewrite undigits_cons, zlen_cons. unfold in_range in Hd.
    rewrite Z.pow_add_r by (pose proof (zlen_nonneg l); lia).
    assert (0 < B ^ zlen l) by (apply Z.pow_pos_nonneg; pose proof (zlen_nonneg l); lia).
    nia.
Qed.

(* the combined specification of be_digits (base B = 2^k) *)
Lemma be_digits_spec k fuel : 1 <= k -> forall n acc,
  0 <= n < 2 ^ Z.of_nat fuel ->
  exists digs, be_digits k fuel n acc = digs ++ acc /\
    Forall (in_range (2 ^ k)) digs /\ undigits (2 ^ k) digs = n /\
    (n = 0 -> digs = []) /\ (n <> 0 -> hd 0 digs <> 0).
Proof.
  intros Hk. set (B := 2 ^ k).
  assert (HB : 2 <= B).
  { subst B. replace k with (1 + (k - 1)) by lia. rewrite Z.pow_add_r by lia.
    assert (0 < 2 ^ (k - 1)) by (apply Z.pow_pos_nonneg; lia). lia. }
  induction fuel as [|f IH]; intros n acc Hn.
  - assert (n = 0) by (cbn in Hn; lia). subst. exists []. cbn. repeat split; auto; congruence.
  - cbn [be_digits]. destruct (n =? 0) eqn:E.
    + apply Z.eqb_eq in E. subst. exists []. repeat split; auto; congruence.
    + apply Z.eqb_neq in E. rewrite Z.shiftr_div_pow2, Z.land_ones by lia. fold B.
      assert (Hq : 0 <= n / B < 2 ^ Z.of_nat f).
      { rewrite Nat2Z.inj_succ, Z.pow_succ_r in Hn by lia. split.
        - apply Z.div_pos; lia.
        - apply Z.div_lt_upper_bound; nia. }
      destruct (IH (n / B) (n mod B :: acc) Hq) as (digs & Heq & Hr & Hu & Hz & Hnz).
      exists (digs ++ [n mod B]). rewrite Heq, <- app_assoc. cbn [app].
      split; [reflexivity|]. split.
      { apply Forall_app. split; [exact Hr|]. constructor; [|constructor]. unfold in_range.
        apply Z.mod_pos_bound. lia. }
      split.
      { rewrite undigits_snoc, Hu. pose proof (Z.div_mod n B). lia. }
      split; [intros; lia|]. intros _.
      destruct (Z.eq_dec (n / B) 0) as [Hq0|Hq0].
      * rewrite (Hz Hq0). cbn. pose proof (Z.div_mod n B). lia.
      * specialize (Hnz Hq0). destruct digs as [|d r]; [cbn in Hnz; congruence|]. cbn in *. exact Hnz.
Qed.

Lemma digit_fuel_ok n : 0 <= n -> 0 <= n < 2 ^ Z.of_nat (digit_fuel n).
Proof.
  intros Hn. unfold digit_fuel. rewrite Nat2Z.inj_succ, Z2Nat.id by apply Z.log2_nonneg.
  destruct (Z.eq_dec n 0) as [->|Hz].
  - cbn. lia.
  - pose proof (Z.log2_spec n). lia.
Qed.

Lemma min_digits_spec k n : 1 <= k -> 0 <= n ->
  exists digs, be_digits k (digit_fuel n) n [] = digs /\
    Forall (in_range (2 ^ k)) digs /\ undigits (2 ^ k) digs = n /\
    (n = 0 -> digs = []) /\ (n <> 0 -> hd 0 digs <> 0).
Proof.
  intros HB Hn. destruct (be_digits_spec k (digit_fuel n) HB n [] (digit_fuel_ok n Hn))
    as (digs & Heq & H). exists digs. rewrite Heq, app_nil_r. auto.
Qed.

(* fixed-width digits *)
Lemma be_fixed_spec l : forall n acc,
  exists digs, be_fixed l n acc = digs ++ acc /\ length digs = l /\
    Forall (in_range 256) digs /\ undigits 256 digs = n mod 256 ^ Z.of_nat l.
Proof.
  induction l as [|l IH]; intros n acc.
  - exists []. cbn. repeat split; auto. rewrite Z.mod_1_r. reflexivity.
  - cbn [be_fixed]. change 255 with (Z.ones 8). rewrite Z.shiftr_div_pow2, Z.land_ones by lia.
    change (2 ^ 8) with 256.
    destruct (IH (n / 256) (n mod 256 :: acc)) as (digs & Heq & Hl & Hr & Hu).
    exists (digs ++ [n mod 256]). rewrite Heq, <- app_assoc. cbn [app].
    split; [reflexivity|]. split; [rewrite app_length; cbn; lia|]. split.
    { apply Forall_app. split; [exact Hr|]. constructor; [|constructor]. unfold in_range.
      apply Z.mod_pos_bound. lia. }
    rewrite undigits_snoc, Hu. rewrite Nat2Z.inj_succ, Z.pow_succ_r by lia.
    assert (0 < 256 ^ Z.of_nat l) by (apply Z.pow_pos_nonneg; lia).
    rewrite Z.rem_mul_r by lia. lia.
Qed.

(* ------------------------------------------------------------------------------------------- *)
(* INTEGER *)

Lemma dec_int_spec digs : digs <> [] -> Forall (in_range 256) digs ->
  dec_int digs = if undigits 256 digs <? 128 * 256 ^ (zlen digs - 1) then undigits 256 digs
                 else undigits 256 digs - 256 ^ zlen digs.
Proof.
  intros Hne Hr. destruct digs as [|b t]; [congruence|]. inversion Hr as [|? ? Hb Ht]; subst.
  unfold dec_int. rewrite undigits_cons, zlen_cons.
  replace (1 + zlen t - 1) with (zlen t) by lia.
  pose proof (undigits_bound 256 t ltac:(lia) Ht) as Hw. unfold in_range in Hb.
  assert (0 < 256 ^ zlen t) by (apply Z.pow_pos_nonneg; pose proof (zlen_nonneg t); lia).
  destruct (b <? 128) eqn:E1; destruct (b * 256 ^ zlen t + undigits 256 t <? 128 * 256 ^ zlen t) eqn:E2;
    try reflexivity; apply Z.ltb_lt in E1 || apply Z.ltb_ge in E1;
    apply Z.ltb_lt in E2 || apply Z.ltb_ge in E2; nia.
Qed.

Lemma bit_length_spec i : 0 <= bit_length i /\ - 2 ^ bit_length i < i < 2 ^ bit_length i.
Proof.
  unfold bit_length. destruct (i =? 0) eqn:E.
  - apply Z.eqb_eq in E. subst. cbn. lia.
  - apply Z.eqb_neq in E. pose proof (Z.log2_spec (Z.abs i) ltac:(lia)) as H.
    pose proof (Z.log2_nonneg (Z.abs i)). replace (Z.succ (Z.log2 (Z.abs i))) with (Z.log2 (Z.abs i) + 1) in H by lia.
    lia.
Qed.

Lemma dec_int_enc_int i : dec_int (enc_int i) = i.
Proof.
  unfold enc_int.
  destruct (bit_length_spec i) as [Hbl0 Hbl]. set (bl := bit_length i) in *.
  set (L := if bl mod 8 =? 0 then bl / 8 + 1 else (bl + 7) / 8).
  assert (HL : 1 <= L /\ bl + 1 <= 8 * L).
  { subst L. destruct (bl mod 8 =? 0) eqn:E; [apply Z.eqb_eq in E | apply Z.eqb_neq in E]; lia. }
  assert (Hp : 2 ^ bl <= 2 ^ (8 * L - 1)) by (apply Z.pow_le_mono_r; lia).
  assert (H256 : 256 ^ L = 2 * 2 ^ (8 * L - 1)).
  { change 256 with (2 ^ 8). rewrite <- Z.pow_mul_r by lia.
    replace (8 * L) with (1 + (8 * L - 1)) at 1 by lia. rewrite Z.pow_add_r by lia. reflexivity. }
  assert (H128 : 128 * 256 ^ (L - 1) = 2 ^ (8 * L - 1)).
  { change 256 with (2 ^ 8). change 128 with (2 ^ 7). rewrite <- Z.pow_mul_r, <- Z.pow_add_r by lia.
    f_equal. lia. }
  assert (0 < 256 ^ L) by (apply Z.pow_pos_nonneg; lia).
  assert (Hmod : (if i <? 0 then i + 256 ^ L else i) = i mod 256 ^ L).
  { destruct (i <? 0) eqn:E; [apply Z.ltb_lt in E | apply Z.ltb_ge in E].
    - apply Z.mod_unique with (q := -1); lia.
    - rewrite Z.mod_small by lia. reflexivity. }
  rewrite Hmod.
  destruct (be_fixed_spec (Z.to_nat L) (i mod 256 ^ L) []) as (digs & Heq & Hlen & Hr & Hu).
  rewrite app_nil_r in Heq. rewrite Heq. rewrite Z2Nat.id in Hu by lia.
  rewrite Z.mod_mod in Hu by lia.
  assert (Hz : zlen digs = L) by (unfold zlen; rewrite Hlen; lia).
  assert (Hne : digs <> []) by (intros ->; cbn in Hlen; lia).
  assert (Hmain : dec_int digs = i).
  { rewrite (dec_int_spec digs Hne Hr), Hu, Hz, H128.
    destruct (Z_lt_le_dec i 0) as [Hneg|Hpos].
    - assert (i mod 256 ^ L = i + 256 ^ L).
      { symmetry. apply Z.mod_unique with (q := -1); lia. }
      destruct (i mod 256 ^ L <? 2 ^ (8 * L - 1)) eqn:E;
        [apply Z.ltb_lt in E | apply Z.ltb_ge in E]; lia.
    - rewrite Z.mod_small by lia.
      destruct (i <? 2 ^ (8 * L - 1)) eqn:E; [apply Z.ltb_lt in E | apply Z.ltb_ge in E]; lia. }
  destruct digs as [|a [|b t]]; try exact Hmain.
  destruct ((a =? 255) && (b =? 128)) eqn:E; [|exact Hmain].
  apply andb_true_iff in E as [Ea Eb]. apply Z.eqb_eq in Ea, Eb. subst a b. cbn [tl].
  rewrite <- Hmain. unfold dec_int. cbn [Z.ltb Z.compare Pos.compare Pos.compare_cont].
  rewrite (undigits_cons 256 255), !zlen_cons.
  pose proof (zlen_nonneg t).
  replace (1 + (1 + zlen t)) with (2 + zlen t) by lia.
  rewrite (Z.pow_add_r 256 1), (Z.pow_add_r 256 2) by lia.
  change (256 ^ 1) with 256. change (256 ^ 2) with 65536. lia.
Qed.

(* ------------------------------------------------------------------------------------------- *)
(* base-128 strings: long-form tags and OID components *)

Lemma long_tag_digits ds : Forall (in_range 128) ds -> forall u l,
  long_tag (128 * u) (map (fun d => 128 + d) ds ++ l) =
  long_tag (128 * fold_left (fun a d => a * 128 + d) ds u) l.
Proof.
  induction 1 as [|d ds Hd Hds IH]; intros u l; [reflexivity|].
  cbn [map app long_tag fold_left]. unfold in_range in Hd.
  destruct (128 + d <? 128) eqn:E; [apply Z.ltb_lt in E; lia|].
  replace ((128 * u + (128 + d) mod 128) * 128) with (128 * (u * 128 + d)) by lia.
  apply IH.
Qed.

Lemma long_tag_base128 n l : 0 <= n -> long_tag 0 (base128 n ++ l) = Some (n, l).
Proof.
  intros Hn. unfold base128.
  destruct (min_digits_spec 7 (n / 128) ltac:(lia) ltac:(apply Z.div_pos; lia))
    as (digs & Heq & Hr & Hu & _). change (2 ^ 7) with 128 in *.
  rewrite Heq, <- app_assoc. change 0 with (128 * 0) at 1. rewrite long_tag_digits by exact Hr.
  cbn [app long_tag]. fold (undigits 128 digs). rewrite Hu.
  destruct (n mod 128 <? 128) eqn:E; [|apply Z.ltb_ge in E; lia].
  f_equal. f_equal. lia.
Qed.

Lemma base128_nonempty n : exists y ys, base128 n = y :: ys.
Proof.
  unfold base128. destruct (map _ _) as [|y ys]; cbn; eauto.
Qed.

Lemma oid_loop_digits ds : Forall (in_range 128) ds -> forall u l,
  0 <= u -> (u = 0 -> hd 0 ds <> 0 \/ ds = []) ->
  dec_oid_loop (128 * u) (map (fun d => 128 + d) ds ++ l) =
  dec_oid_loop (128 * fold_left (fun a d => a * 128 + d) ds u) l.
Proof.
  induction 1 as [|d ds Hd Hds IH]; intros u l Hu Hhd; [reflexivity|].
  cbn [map app dec_oid_loop fold_left]. unfold in_range in Hd.
  assert (Hck : (128 + d =? 128) && (128 * u =? 0) = false).
  { destruct (Z.eq_dec u 0) as [->|Hnz].
    - destruct (Hhd eq_refl) as [Hh|Hh]; [|discriminate]. cbn in Hh.
      destruct (128 + d =? 128) eqn:E; [apply Z.eqb_eq in E; lia|reflexivity].
    - destruct (128 * u =? 0) eqn:E; [apply Z.eqb_eq in E; lia|apply andb_false_r]. }
  rewrite Hck.
  destruct (128 + d <? 128) eqn:E; [apply Z.ltb_lt in E; lia|].
  replace ((128 * u + (128 + d) mod 128) * 128) with (128 * (u * 128 + d)) by lia.
  apply IH; [lia|]. intros H0. exfalso.
  assert (u = 0 /\ d = 0) as [-> ->] by lia.
  destruct (Hhd eq_refl) as [Hh|Hh]; [cbn in Hh; congruence|discriminate].
Qed.

Lemma oid_loop_base128 n l : 0 <= n ->
  dec_oid_loop 0 (base128 n ++ l) =
  match dec_oid_loop 0 l with Some cs => Some (n :: cs) | None => None end.
Proof.
  intros Hn. unfold base128.
  destruct (min_digits_spec 7 (n / 128) ltac:(lia) ltac:(apply Z.div_pos; lia))
    as (digs & Heq & Hr & Hu & Hz & Hnz). change (2 ^ 7) with 128 in *.
  rewrite Heq, <- app_assoc. change 0 with (128 * 0) at 1.
  rewrite oid_loop_digits; [|exact Hr|lia|].
  2:{ intros _. destruct (Z.eq_dec (n / 128) 0) as [E|E]; [right; auto|left; auto]. }
  cbn [app dec_oid_loop]. fold (undigits 128 digs). rewrite Hu.
  destruct (n mod 128 =? 128) eqn:E1; [apply Z.eqb_eq in E1; lia|]. cbn [andb].
  destruct (n mod 128 <? 128) eqn:E2; [|apply Z.ltb_ge in E2; lia].
  replace (128 * (n / 128) + n mod 128) with n by lia. reflexivity.
Qed.

Lemma oid_loop_concat r : forallb (fun x => 0 <=? x) r = true ->
  dec_oid_loop 0 (concat (map base128 r)) = Some r.
Proof.
  induction r as [|x r IH]; intros H; [reflexivity|].
  cbn in H. apply andb_true_iff in H as [Hx Hr]. apply Z.leb_le in Hx.
  cbn [map concat]. rewrite oid_loop_base128 by exact Hx. rewrite (IH Hr). reflexivity.
Qed.

Lemma base128_small n : 0 <= n < 128 -> base128 n = [n].
Proof.
  intros Hn. unfold base128. rewrite Z.div_small, Z.mod_small by lia. reflexivity.
Qed.

Lemma dec_oid_enc_oid c :
  oid_ok c = true ->
  match c with c0 :: c1 :: _ => (0 <=? c1) && (c0 * 40 + c1 <? 128) | _ => false end = true ->
  dec_oid (enc_oid c) = Some c.
Proof.
  destruct c as [|c0 [|c1 r]]; try discriminate. intros Hok Hg.
  unfold oid_ok in Hok. repeat (apply andb_true_iff in Hok as [Hok ?]).
  apply andb_true_iff in Hg as [Hc1 Hlt]. apply Z.leb_le in Hc1. apply Z.ltb_lt in Hlt.
  apply Z.leb_le in Hok. rename H2 into Hc0. apply Z.leb_le in Hc0.
  unfold enc_oid. cbn [map concat]. rewrite base128_small by lia.
  cbn [app dec_oid]. rewrite oid_loop_concat by assumption.
  destruct (c0 * 40 + c1 <? 80) eqn:E; [apply Z.ltb_lt in E | apply Z.ltb_ge in E].
  - apply orb_true_iff in H1 as [H1|H1]; [apply Z.leb_le in H1; lia|].
    apply andb_true_iff in H1 as [_ H1]. apply Z.leb_le in H1.
    f_equal. f_equal; [|f_equal]; lia.
  - assert (c0 = 2) by (apply orb_true_iff in H1 as [H1|H1];
      [apply Z.leb_le in H1; lia | apply andb_true_iff in H1 as [_ H1]; apply Z.leb_le in H1; lia]).
    subst. f_equal. f_equal. f_equal. lia.
Qed.

(* ------------------------------------------------------------------------------------------- *)
(* header: identifier and length octets *)

Lemma enc_len_nonempty n : exists y ys, enc_len n = y :: ys.
Proof. unfold enc_len. destruct (n <? 128); eauto. Qed.

Lemma parse_len_enc content rest :
  len_ok (zlen content) = true ->
  parse_len (enc_len (zlen content) ++ content ++ rest) = Some (content, rest).
Proof.
  intros Hok. pose proof (zlen_nonneg content) as Hnn. unfold enc_len.
  destruct (zlen content <? 128) eqn:E.
  - apply Z.ltb_lt in E. cbn [app parse_len].
    destruct (zlen content =? 128) eqn:E1; [apply Z.eqb_eq in E1; lia|].
    destruct (128 <? zlen content) eqn:E2; [apply Z.ltb_lt in E2; lia|].
    rewrite zlen_app.
    destruct (zlen content + zlen rest <? zlen content) eqn:E3;
      [apply Z.ltb_lt in E3; pose proof (zlen_nonneg rest); lia|].
    rewrite firstn_zlen_app, skipn_zlen_app. reflexivity.
  - apply Z.ltb_ge in E. unfold len_ok in Hok.
    destruct (zlen content <? 128) eqn:E0; [apply Z.ltb_lt in E0; lia|]. cbn [orb] in Hok.
    apply Z.ltb_lt in Hok.
    destruct (min_digits_spec 8 (zlen content) ltac:(lia) Hnn) as (digs & Heq & Hr & Hu & _ & Hnz).
    change (2 ^ 8) with 256 in *.
    rewrite Heq in *. cbn [app parse_len].
    assert (Hk : 1 <= zlen digs).
    { destruct digs as [|d r]; [cbn in Hu; lia|]. rewrite zlen_cons. pose proof (zlen_nonneg r). lia. }
    destruct (128 + zlen digs =? 128) eqn:E1; [apply Z.eqb_eq in E1; lia|].
    destruct (128 <? 128 + zlen digs) eqn:E2; [|apply Z.ltb_ge in E2; lia].
    replace ((128 + zlen digs) mod 128) with (zlen digs) by lia.
    assert (Hleb : Nat.leb (Z.to_nat (zlen digs)) (length (digs ++ content ++ rest)) = true).
    { apply Nat.leb_le. unfold zlen. rewrite Nat2Z.id, app_length. lia. }
    rewrite Hleb. cbn [negb]. rewrite firstn_zlen_app, skipn_zlen_app, Hu, zlen_app.
    destruct (zlen content + zlen rest <? zlen content) eqn:E3;
      [apply Z.ltb_lt in E3; pose proof (zlen_nonneg rest); lia|].
    rewrite firstn_zlen_app, skipn_zlen_app. reflexivity.
Qed.

Lemma parse_ident_enc cls c tag r1 :
  0 <= cls <= 3 -> 0 <= tag -> tag <> 31 -> r1 <> [] ->
  parse_ident (enc_ident cls c tag ++ r1) = Some (cls, c, tag, r1).
Proof.
  intros Hcls Htag H31 Hne. unfold enc_ident.
  destruct (tag <? 32) eqn:E; [apply Z.ltb_lt in E | apply Z.ltb_ge in E].
  - destruct r1 as [|x r]; [congruence|]. cbn [app parse_ident].
    set (b0 := cls * 64 + (if c then 32 else 0) + tag).
    assert (Hm : b0 mod 32 = tag) by (subst b0; destruct c; lia).
    assert (Hc : b0 / 64 = cls) by (subst b0; destruct c; lia).
    assert (Hk : ((b0 / 32) mod 2 =? 1) = c).
    { subst b0; destruct c; [apply Z.eqb_eq | apply Z.eqb_neq]; lia. }
    rewrite Hm. destruct (tag =? 31) eqn:E31; [apply Z.eqb_eq in E31; lia|].
    rewrite Hc, Hk. reflexivity.
  - destruct (base128_nonempty tag) as (y & ys & Hb).
    cbn [app]. rewrite Hb. cbn [app parse_ident].
    change (y :: ys ++ r1) with ((y :: ys) ++ r1). rewrite <- Hb.
    set (b0 := cls * 64 + (if c then 32 else 0) + 31).
    assert (Hm : b0 mod 32 = 31) by (subst b0; destruct c; lia).
    assert (Hc : b0 / 64 = cls) by (subst b0; destruct c; lia).
    assert (Hk : ((b0 / 32) mod 2 =? 1) = c).
    { subst b0; destruct c; [apply Z.eqb_eq | apply Z.eqb_neq]; lia. }
    rewrite Hm. cbn [Z.eqb Pos.eqb]. rewrite long_tag_base128 by lia. rewrite Hc, Hk. reflexivity.
Qed.

Lemma parse_hdr_enc cls c tag content rest :
  0 <= cls <= 3 -> 0 <= tag -> tag <> 31 -> len_ok (zlen content) = true ->
  parse_hdr (enc_ident cls c tag ++ enc_len (zlen content) ++ content ++ rest) =
  Some (cls, c, tag, content, rest).
Proof.
  intros Hcls Htag H31 Hok. unfold parse_hdr.
  rewrite parse_ident_enc; try assumption.
  - rewrite parse_len_enc by assumption. reflexivity.
  - destruct (enc_len_nonempty (zlen content)) as (y & ys & ->). discriminate.
Qed.

(* ------------------------------------------------------------------------------------------- *)
(* induction over values (nested lists) and soundness of the boolean equality *)

Section ValueInd.
  Variable P : value -> Prop.
  Hypothesis HNull : P VNull.
  Hypothesis HBool : forall b, P (VBool b).
  Hypothesis HInt : forall i, P (VInt i).
  Hypothesis HOct : forall s, P (VOctets s).
  Hypothesis HUtf : forall s, P (VUtf8 s).
  Hypothesis HSeq : forall l, Forall P l -> P (VSeq l).
  Hypothesis HSet : forall l, Forall P l -> P (VSet l).
  Hypothesis HBits : forall u s, P (VBits u s).
  Hypothesis HIA5 : forall s, P (VIA5 s).
  Hypothesis HOid : forall c, P (VOid c).
  Hypothesis HTag : forall c t v, P v -> P (VTagged c t v).
  Hypothesis HRaw : forall c t s, P (VRaw c t s).

  Fixpoint value_ind' (v : value) : P v :=
    let fix go (l : list value) : Forall P l :=
      match l with
      | [] => Forall_nil P
      | x :: r => Forall_cons x (value_ind' x) (go r)
      end in
    match v with
    | VNull => HNull
    | VBool b => HBool b
    | VInt i => HInt i
    | VOctets s => HOct s
    | VUtf8 s => HUtf s
    | VSeq l => HSeq l (go l)
    | VSet l => HSet l (go l)
    | VBits u s => HBits u s
    | VIA5 s => HIA5 s
    | VOid c => HOid c
    | VTagged c t x => HTag c t x (value_ind' x)
    | VRaw c t s => HRaw c t s
    end.
End ValueInd.

Lemma value_eqb_eq a : forall b, value_eqb a b = true -> a = b.
Proof.
  induction a as [ | | | | |l IH|l IH| | | |c t v IH| ] using value_ind'; intros b0 Hb; destruct b0; cbn in Hb;
    try discriminate; try reflexivity.
  - apply Bool.eqb_prop in Hb. congruence.
  - apply Z.eqb_eq in Hb. congruence.
  - apply zlist_eqb_spec in Hb. congruence.
  - apply zlist_eqb_spec in Hb. congruence.
  - f_equal. revert l0 Hb. induction IH as [|x r Hx Hr IHr]; intros [|y s0] Hb; try discriminate; [reflexivity|].
    apply andb_true_iff in Hb as [H1 H2]. f_equal; [apply Hx, H1 | apply IHr, H2].
  - f_equal. revert l0 Hb. induction IH as [|x r Hx Hr IHr]; intros [|y s0] Hb; try discriminate; [reflexivity|].
    apply andb_true_iff in Hb as [H1 H2]. f_equal; [apply Hx, H1 | apply IHr, H2].
  - apply andb_true_iff in Hb as [H1 H2]. apply Z.eqb_eq in H1. apply zlist_eqb_spec in H2. congruence.
  - apply zlist_eqb_spec in Hb. congruence.
  - apply zlist_eqb_spec in Hb. congruence.
  - apply andb_true_iff in Hb as [H1 H3]. apply andb_true_iff in H1 as [H1 H2].
    apply Z.eqb_eq in H1, H2. apply IH in H3. congruence.
  - apply andb_true_iff in Hb as [H1 H3]. apply andb_true_iff in H1 as [H1 H2].
    apply Z.eqb_eq in H1, H2. apply zlist_eqb_spec in H3. congruence.
Qed.

(* ------------------------------------------------------------------------------------------- *)
(* decode (encode v) = v *)

Ltac split_andb :=
  repeat match goal with
         | H : _ && _ = true |- _ => let H1 := fresh H in apply andb_true_iff in H as [H H1]
         end.

Lemma enc_nonempty v : exists y ys, enc v = y :: ys.
Proof.
  destruct v; cbn [enc]; unfold enc_ident;
    repeat match goal with |- context [if ?b then _ else _] => destruct b end; cbn [app]; eauto.
Qed.

Lemma dec_items_step decf n data :
  data <> [] ->
  dec_items decf (S n) data =
  match decf data with
  | Err e => Err e
  | Ok (v, rest) => match dec_items decf n rest with Ok l => Ok (v :: l) | Err e => Err e end
  end.
Proof. destruct data; [congruence|reflexivity]. Qed.

Lemma length_concat_enc l : (length l <= length (concat (map enc l)))%nat.
Proof.
  induction l as [|v l IH]; [cbn; lia|]. cbn [map concat length]. rewrite app_length.
  destruct (enc_nonempty v) as (y & ys & ->). cbn [length]. lia.
Qed.

Lemma dec_items_concat f l :
  Forall (fun v => forall rest, dec f (enc v ++ rest) = Ok (v, rest)) l ->
  forall n, (length l <= n)%nat -> dec_items (dec f) n (concat (map enc l)) = Ok l.
Proof.
  induction 1 as [|v l Hv Hl IH]; intros n Hn.
  - destruct n; reflexivity.
  - destruct n as [|n]; [cbn in Hn; lia|]. cbn [map concat].
    rewrite dec_items_step.
    + rewrite Hv, IH by (cbn in Hn; lia). reflexivity.
    + destruct (enc_nonempty v) as (y & ys & ->). discriminate.
Qed.

Lemma dec_universal_prim f tag content rest v :
  0 <= tag -> tag <> 31 -> tag <> 16 -> tag <> 17 -> is_known_universal tag = true ->
  len_ok (zlen content) = true ->
  dec_primitive_old tag false content = Ok v ->
  dec (S f) (enc_ident 0 false tag ++ enc_len (zlen content) ++ content ++ rest) = Ok (v, rest).
Proof.
  intros H0 H31 H16 H17 Hk Hl Hp0.
  assert (Hp : dec_primitive tag false content = Ok v) by (unfold dec_primitive; rewrite Hp0; reflexivity).
  cbn [dec]. rewrite parse_hdr_enc by (assumption || lia).
  rewrite Hk. cbn [Z.eqb andb].
  destruct (tag =? 16) eqn:E1; [apply Z.eqb_eq in E1; lia|].
  destruct (tag =? 17) eqn:E2; [apply Z.eqb_eq in E2; lia|].
  cbn [orb]. rewrite Hp. reflexivity.
Qed.

Lemma fold_max_le (l : list value) x : In x l ->
  (depth x <= fold_right (fun x m => Nat.max (depth x) m) O l)%nat.
Proof.
  induction l as [|y l IH]; intros Hin; [destruct Hin|]. cbn [fold_right].
  destruct Hin as [->|Hin]; [lia|]. specialize (IH Hin). lia.
Qed.

Lemma good_items_dec f l :
  Forall (fun v => good v = true -> forall fuel rest, (depth v < fuel)%nat ->
                   dec fuel (enc v ++ rest) = Ok (v, rest)) l ->
  forallb good l = true ->
  (fold_right (fun x m => Nat.max (depth x) m) O l < f)%nat ->
  Forall (fun v => forall rest, dec f (enc v ++ rest) = Ok (v, rest)) l.
Proof.
  intros IH Hg Hd. rewrite forallb_forall in Hg. rewrite Forall_forall in *.
  intros x Hin rest. apply IH; auto. pose proof (fold_max_le l x Hin). lia.
Qed.

Ltac to_props :=
  repeat match goal with
         | H : (_ <=? _) = true |- _ => apply Z.leb_le in H
         | H : (_ <? _) = true |- _ => apply Z.ltb_lt in H
         | H : negb _ = true |- _ => apply negb_true_iff in H
         | H : (_ =? _) = false |- _ => apply Z.eqb_neq in H
         end.

Lemma dec_enc v : good v = true -> forall fuel rest, (depth v < fuel)%nat ->
  dec fuel (enc v ++ rest) = Ok (v, rest).
Proof.
  induction v as [ |b|i|s|s|l IH|l IH|u s|s|c|cls tag v IH|cls tag s] using value_ind';
    intros Hg fuel rest Hf; (destruct fuel as [|f]; [lia|]);
    cbn [good content_of] in Hg; unfold tag_roundtrips in Hg; split_andb; cbn [enc]; rewrite <- ?app_assoc.
  - apply dec_universal_prim; try reflexivity; try lia; assumption.
  - apply dec_universal_prim; try reflexivity; try lia; try assumption. destruct b; reflexivity.
  - apply dec_universal_prim; try reflexivity; try lia; try assumption.
    change (dec_primitive_old 2 false (enc_int i)) with (Ok (A:=value) (VInt (dec_int (enc_int i)))).
    rewrite dec_int_enc_int. reflexivity.
  - apply dec_universal_prim; try reflexivity; try lia; assumption.
  - apply dec_universal_prim; try reflexivity; try lia; try assumption.
    change (dec_primitive_old 12 false s) with (if utf8_valid s then Ok (VUtf8 s) else Err UnicodeErr).
    match goal with H : utf8_valid _ = true |- _ => rewrite H end. reflexivity.
  - (* SEQUENCE *)
    cbn [dec]. rewrite parse_hdr_enc by (assumption || lia).
    change ((0 =? 0) && is_known_universal 16) with true. cbn [Z.eqb Pos.eqb orb negb].
    cbn [depth] in Hf.
    rewrite dec_items_concat.
    + reflexivity.
    + apply good_items_dec; [exact IH|assumption|lia].
    + apply length_concat_enc.
  - (* SET *)
    match goal with H : list_eqb zlist_eqb _ _ = true |- _ =>
      apply list_eqb_eq in H; [|intros x y; apply zlist_eqb_spec]; rewrite H in * end.
    match goal with H : list_eqb value_eqb _ _ = true |- _ =>
      apply list_eqb_eq in H; [|apply value_eqb_eq]; rename H into Hdd end.
    cbn [dec]. rewrite parse_hdr_enc by (assumption || lia).
    change ((0 =? 0) && is_known_universal 17) with true. cbn [Z.eqb Pos.eqb orb negb].
    cbn [depth] in Hf.
    rewrite dec_items_concat.
    + rewrite Hdd. reflexivity.
    + apply good_items_dec; [exact IH|assumption|lia].
    + apply length_concat_enc.
  - (* BIT STRING *)
    apply dec_universal_prim; try reflexivity; try lia; try assumption.
    change (dec_primitive_old 3 false (u :: s)) with
      (if 7 <? u then Err DecodeErr else if bits_ok u s then Ok (VBits u s) else Err EncodeErr).
    match goal with H : bits_ok _ _ = true |- _ => rewrite H; unfold bits_ok in H end.
    split_andb. to_props.
    destruct (7 <? u) eqn:E; [apply Z.ltb_lt in E; lia|reflexivity].
  - apply dec_universal_prim; try reflexivity; try lia; assumption.
  - (* OID *)
    apply dec_universal_prim; try reflexivity; try lia; try assumption.
    change (dec_primitive_old 6 false (enc_oid c)) with
      (match dec_oid (enc_oid c) with Some c' => Ok (VOid c') | None => Err DecodeErr end).
    rewrite dec_oid_enc_oid by assumption. reflexivity.
  - (* tagged *)
    to_props.
    cbn [dec]. rewrite parse_hdr_enc by (assumption || lia).
    match goal with H : (_ =? 0) && _ = false |- _ => rewrite H end.
    cbn [depth] in Hf.
    assert (Hd : dec f (enc v) = Ok (v, [])).
    { rewrite <- (app_nil_r (enc v)) at 1. apply IH; [assumption|lia]. }
    rewrite Hd. reflexivity.
  - (* raw *)
    to_props.
    cbn [dec]. rewrite parse_hdr_enc by (assumption || lia).
    match goal with H : (_ =? 0) && _ = false |- _ => rewrite H end. reflexivity.
Qed.

(* ------------------------------------------------------------------------------------------- *)
(* the fuel used by der_decode is enough *)

Lemma enc_ident_len cls c tag : (1 <= length (enc_ident cls c tag))%nat.
Proof. unfold enc_ident. destruct (tag <? 32); cbn [length]; lia. Qed.

Lemma enc_len_len n : (1 <= length (enc_len n))%nat.
Proof. unfold enc_len. destruct (n <? 128); cbn [length]; lia. Qed.

Lemma wrap_len cls c tag content :
  (2 + length content <= length (enc_ident cls c tag ++ enc_len (zlen content) ++ content))%nat.
Proof.
  rewrite !app_length. pose proof (enc_ident_len cls c tag). pose proof (enc_len_len (zlen content)). lia.
Qed.

Lemma depth_items_le l :
  Forall (fun v => good v = true -> (depth v < length (enc v))%nat) l -> forallb good l = true ->
  (fold_right (fun x m => Nat.max (depth x) m) O l <= length (concat (map enc l)))%nat.
Proof.
  induction 1 as [|x l Hx Hl IH]; intros Hg; [cbn; lia|].
  cbn in Hg. apply andb_true_iff in Hg as [Hgx Hgl].
  cbn [fold_right map concat]. rewrite app_length. specialize (Hx Hgx). specialize (IH Hgl). lia.
Qed.

Lemma enc_pos v : (0 < length (enc v))%nat.
Proof. destruct (enc_nonempty v) as (y & ys & ->). cbn. lia. Qed.

Lemma depth_lt_len v : good v = true -> (depth v < length (enc v))%nat.
Proof.
  induction v as [ |b|i|s|s|l IH|l IH|u s|s|c|cls tag v IH|cls tag s] using value_ind'; intros Hg;
    try (cbn [depth]; apply enc_pos).
  - cbn [good] in Hg. split_andb. cbn [depth enc].
    pose proof (wrap_len 0 true 16 (concat (map enc l))). pose proof (depth_items_le l IH Hg0). lia.
  - cbn [good] in Hg. split_andb.
    match goal with H : list_eqb zlist_eqb _ _ = true |- _ =>
      apply list_eqb_eq in H; [|intros x y; apply zlist_eqb_spec]; rename H into Hs end.
    cbn [depth enc]. rewrite Hs.
    pose proof (wrap_len 0 true 17 (concat (map enc l))).
    match goal with H : forallb good l = true |- _ => pose proof (depth_items_le l IH H) end. lia.
  - cbn [good] in Hg. split_andb. cbn [depth enc].
    pose proof (wrap_len cls true tag (enc v)).
    match goal with H : good v = true |- _ => specialize (IH H) end. lia.
Qed.

Theorem der_roundtrip v : good v = true -> der_decode (enc v) = Ok v.
Proof.
  intros Hg. unfold der_decode, der_decode_partial.
  assert (H : dec (S (length (enc v))) (enc v ++ []) = Ok (v, [])).
  { apply dec_enc; [exact Hg|]. pose proof (depth_lt_len v Hg). lia. }
  rewrite app_nil_r in H. rewrite H. reflexivity.
Qed.

Theorem der_partial_roundtrip v rest : good v = true ->
  exists fuel, dec fuel (enc v ++ rest) = Ok (v, rest).
Proof. intros Hg. exists (S (depth v)). apply dec_enc; [exact Hg|lia]. Qed.

Theorem der_encode_injective v1 v2 :
  good v1 = true -> good v2 = true -> enc v1 = enc v2 -> v1 = v2.
Proof.
  intros H1 H2 He. pose proof (der_roundtrip v1 H1) as R1. pose proof (der_roundtrip v2 H2) as R2.
  rewrite He in R1. congruence.
Qed.

(* ------------------------------------------------------------------------------------------- *)
(* the model decoder is total: with the fuel of der_decode it never runs out of fuel *)

Lemma long_tag_shorter l : forall acc t r, long_tag acc l = Some (t, r) -> (length r + 1 <= length l)%nat.
Proof.
  induction l as [|b l IH]; intros acc t r H; cbn in H; [discriminate|].
  destruct (b <? 128).
  - inversion H; subst. cbn. lia.
  - apply IH in H. cbn. lia.
Qed.

Lemma parse_ident_shorter data cls c tag r1 :
  parse_ident data = Some (cls, c, tag, r1) -> (length r1 + 1 <= length data)%nat.
Proof.
  unfold parse_ident. destruct data as [|b0 [|b1 r]]; try discriminate.
  destruct (b0 mod 32 =? 31).
  - destruct (long_tag 0 (b1 :: r)) as [[t r']|] eqn:E; [|discriminate].
    intros H. inversion H; subst. apply long_tag_shorter in E. cbn [length] in *. lia.
  - intros H. inversion H; subst. cbn [length]. lia.
Qed.

Lemma parse_len_shorter r1 content rest :
  parse_len r1 = Some (content, rest) -> (length content + length rest + 1 <= length r1)%nat.
Proof.
  unfold parse_len. destruct r1 as [|lb r2]; [discriminate|].
  destruct (lb =? 128); [discriminate|].
  destruct (128 <? lb).
  - destruct (negb _); [discriminate|]. destruct (_ <? _); [discriminate|].
    intros H. inversion H; subst. rewrite <- app_length, firstn_skipn, skipn_length. cbn [length]. lia.
  - destruct (_ <? _); [discriminate|].
    intros H. inversion H; subst. rewrite <- app_length, firstn_skipn. cbn [length]. lia.
Qed.

Lemma parse_hdr_shorter data cls c tag content rest :
  parse_hdr data = Some (cls, c, tag, content, rest) ->
  (length content + length rest + 2 <= length data)%nat.
Proof.
  unfold parse_hdr. destruct (parse_ident data) as [[[[cls' c'] tag'] r1]|] eqn:E1; [|discriminate].
  destruct (parse_len r1) as [[content' rest']|] eqn:E2; [|discriminate].
  intros H. inversion H; subst. apply parse_ident_shorter in E1. apply parse_len_shorter in E2. lia.
Qed.

Lemma dec_shorter f data v rest : dec f data = Ok (v, rest) -> (length rest + 2 <= length data)%nat.
Proof.
  destruct f as [|f]; [discriminate|]. cbn [dec].
  destruct (parse_hdr data) as [[[[[cls c] tag] content] rest']|] eqn:Hp; [|discriminate].
  apply parse_hdr_shorter in Hp. intros H.
  assert (rest = rest'); [|subst; lia].
  destruct ((cls =? 0) && is_known_universal tag).
  - destruct ((tag =? 16) || (tag =? 17)).
    + destruct (negb c); [discriminate|]. destruct (dec_items _ _ _); [|discriminate]. congruence.
    + destruct (dec_primitive _ _ _); [|discriminate]. congruence.
  - destruct c; [|congruence]. destruct (dec f content) as [[v' [|]]|]; try discriminate. congruence.
Qed.

Lemma dec_primitive_old_no_oof tag c content : dec_primitive_old tag c content <> Err OutOfFuel.
Proof.
  unfold dec_primitive_old.
  repeat match goal with
         | |- context [if ?b then _ else _] => destruct b
         | |- context [match ?x with _ => _ end] => destruct x
         end; discriminate.
Qed.

Lemma dec_primitive_no_oof tag c content : dec_primitive tag c content <> Err OutOfFuel.
Proof.
  unfold dec_primitive. pose proof (dec_primitive_old_no_oof tag c content) as H.
  destruct (dec_primitive_old tag c content) as [v|[]]; try discriminate. congruence.
Qed.

Lemma dec_items_no_oof f :
  (forall d, (length d < f)%nat -> dec f d <> Err OutOfFuel) ->
  forall n data, (length data <= n)%nat -> (length data < f)%nat ->
  dec_items (dec f) n data <> Err OutOfFuel.
Proof.
  intros Hdec. induction n as [|n IH]; intros data Hn Hf.
  - destruct data; [discriminate|cbn in Hn; lia].
  - destruct data as [|z data]; [discriminate|]. rewrite dec_items_step by discriminate.
    destruct (dec f (z :: data)) as [[v rest]|e] eqn:Hd.
    + apply dec_shorter in Hd.
      assert (H : dec_items (dec f) n rest <> Err OutOfFuel) by (apply IH; lia).
      destruct (dec_items (dec f) n rest); [discriminate|congruence].
    + intros H. inversion H; subst. apply (Hdec (z :: data) Hf). exact Hd.
Qed.

Lemma dec_no_oof : forall f data, (length data < f)%nat -> dec f data <> Err OutOfFuel.
Proof.
  induction f as [|f IH]; intros data Hf; [lia|]. cbn [dec].
  destruct (parse_hdr data) as [[[[[cls c] tag] content] rest]|] eqn:Hp; [|discriminate].
  apply parse_hdr_shorter in Hp.
  destruct ((cls =? 0) && is_known_universal tag).
  - destruct ((tag =? 16) || (tag =? 17)).
    + destruct (negb c); [discriminate|].
      pose proof (dec_items_no_oof f IH (length content) content ltac:(lia) ltac:(lia)) as H.
      destruct (dec_items (dec f) (length content) content); [discriminate|congruence].
    + pose proof (dec_primitive_no_oof tag c content) as H.
      destruct (dec_primitive tag c content); [discriminate|congruence].
  - destruct c; [|discriminate].
    pose proof (IH content ltac:(lia)) as H.
    destruct (dec f content) as [[v [|]]|e]; try discriminate. congruence.
Qed.

Theorem der_decode_total data : der_decode data <> Err OutOfFuel.
Proof.
  unfold der_decode, der_decode_partial.
  pose proof (dec_no_oof (S (length data)) data ltac:(lia)) as H.
  destruct (dec (S (length data)) data) as [[v [|]]|e]; try discriminate. congruence.
Qed.

(* ------------------------------------------------------------------------------------------- *)
(* the only error class of the decoder is DecodeErr (ASN1DecodeError) *)

Lemma dec_primitive_err tag c content e : dec_primitive tag c content = Err e -> e = DecodeErr.
Proof.
  unfold dec_primitive. pose proof (dec_primitive_old_no_oof tag c content) as Hn.
  destruct (dec_primitive_old tag c content) as [v|[]]; intros H; inversion H; try reflexivity. congruence.
Qed.

Lemma dec_items_err f :
  (forall d e, dec f d = Err e -> e = DecodeErr \/ e = OutOfFuel) ->
  forall n data e, dec_items (dec f) n data = Err e -> e = DecodeErr \/ e = OutOfFuel.
Proof.
  intros Hdec. induction n as [|n IH]; intros data e H.
  - destruct data; [discriminate|]. cbn in H. inversion H. right. reflexivity.
  - destruct data as [|z data]; [discriminate|]. rewrite dec_items_step in H by discriminate.
    destruct (dec f (z :: data)) as [[v rest]|e'] eqn:Hd.
    + destruct (dec_items (dec f) n rest) eqn:Hi; [discriminate|]. inversion H; subst. eapply IH; eauto.
    + inversion H; subst. eapply Hdec; eauto.
Qed.

Lemma dec_err : forall f data e, dec f data = Err e -> e = DecodeErr \/ e = OutOfFuel.
Proof.
  induction f as [|f IH]; intros data e H; [cbn in H; inversion H; right; reflexivity|]. cbn [dec] in H.
  destruct (parse_hdr data) as [[[[[cls c] tag] content] rest]|]; [|inversion H; left; reflexivity].
  destruct ((cls =? 0) && is_known_universal tag).
  - destruct ((tag =? 16) || (tag =? 17)).
    + destruct (negb c); [inversion H; left; reflexivity|].
      destruct (dec_items (dec f) (length content) content) eqn:Hi; [discriminate|].
      inversion H; subst. eapply dec_items_err; eauto.
    + destruct (dec_primitive tag c content) eqn:Hp; [discriminate|]. inversion H; subst.
      left. eapply dec_primitive_err; eauto.
  - destruct c; [|discriminate].
    destruct (dec f content) as [[v [|]]|e'] eqn:Hd; try discriminate.
    + inversion H. left. reflexivity.
    + inversion H; subst. eapply IH; eauto.
Qed.

Theorem der_decode_error_class data e : der_decode data = Err e -> e = DecodeErr.
Proof.
  intros H. pose proof (der_decode_total data) as Ht. unfold der_decode, der_decode_partial in *.
  destruct (dec (S (length data)) data) as [[v [|]]|e'] eqn:Hd; try discriminate.
  - inversion H. reflexivity.
  - inversion H; subst. destruct (dec_err _ _ _ Hd) as [->| ->]; [reflexivity|congruence].
Qed.

Lemma old_error_classes :
  dec_primitive_old 3 false [1; 1] = Err EncodeErr /\ dec_primitive_old 12 false [195; 40] = Err UnicodeErr.
Proof. split; reflexivity. Qed.

(* ------------------------------------------------------------------------------------------- *)
(* where decode . encode is not the identity, and where the decoder is not canonical *)

Lemma tag31_not_roundtrip :
  exists v, enc_ok v = true /\ der_decode (enc v) = Err DecodeErr.
Proof. exists (VTagged 2 31 VNull). vm_compute. split; reflexivity. Qed.

Lemma oid_first_arc_not_roundtrip :
  exists c c', oid_ok c = true /\ c <> c' /\ der_decode (enc (VOid c)) = Ok (VOid c').
Proof.
  exists [2; 100; 3], [2; 49; 52; 3]. split; [reflexivity|]. split; [discriminate|]. vm_compute. reflexivity.
Qed.

Lemma decoder_not_canonical :
  exists d v, good v = true /\ der_decode d = Ok v /\ enc v <> d.
Proof.
  exists [4; 129; 1; 0], (VOctets [0]). split; [reflexivity|]. split; [vm_compute; reflexivity|discriminate].
Qed.
