(* C20 - the invariant of the forwarder pair machine of Model/Forward.v and its preservation *)
From AV Require Import Base.Prelude Model.Forward.

(* ------------------------------------------------------------------------------------------ *)
(* list observations under append *)

Lemma written_app l1 l2 : written (l1 ++ l2) = written l1 ++ written l2.
Proof.
  induction l1 as [|e l1 IH]; simpl; [reflexivity|].
  destruct e; simpl; rewrite IH; try reflexivity. rewrite app_assoc. reflexivity.
Qed.

Lemma count_eof_app l1 l2 : count_eof (l1 ++ l2) = (count_eof l1 + count_eof l2)%nat.
Proof. induction l1 as [|e l1 IH]; simpl; [reflexivity|]. destruct e; simpl; rewrite IH; reflexivity. Qed.

Lemma count_close_app l1 l2 : count_close (l1 ++ l2) = (count_close l1 + count_close l2)%nat.
Proof. induction l1 as [|e l1 IH]; simpl; [reflexivity|]. destruct e; simpl; rewrite IH; reflexivity. Qed.

Definition is_data_or_eof (e : tev) : bool :=
  match e with TWrite _ | TEof => true | _ => false end.

Lemma ordered_from_snoc b l e :
  ordered_from b l = true -> count_close l = O ->
  (is_data_or_eof e = true -> b = false /\ count_eof l = O) ->
  ordered_from b (l ++ [e]) = true.
Proof.
  revert b. induction l as [|x l IH]; intros b Ho Hc He.
  - simpl. destruct e; simpl; try reflexivity;
      destruct (He eq_refl) as [-> _]; reflexivity.
  - destruct x; simpl in *.
    + apply andb_true_iff in Ho as [Hb Ho]. rewrite Hb. simpl. apply IH; auto.
    + apply andb_true_iff in Ho as [Hb Ho]. rewrite Hb. simpl.
      apply IH; auto. intros H. destruct (He H) as [_ H0]. discriminate.
    + discriminate.
    + apply IH; auto.
    + apply IH; auto.
Qed.

Lemma ordered_snoc l e :
  ordered l = true -> count_close l = O ->
  (is_data_or_eof e = true -> count_eof l = O) ->
  ordered (l ++ [e]) = true.
Proof. intros. apply ordered_from_snoc; auto. Qed.

Lemma ordered_from_count_eof b l : ordered_from b l = true -> (count_eof l <= 1)%nat /\ (b = true -> count_eof l = O).
Proof.
  revert b. induction l as [|x l IH]; intros b Ho; simpl in *.
  - split; [lia | reflexivity].
  - destruct x.
    + apply andb_true_iff in Ho as [_ Ho]. apply IH in Ho. exact Ho.
    + apply andb_true_iff in Ho as [Hb Ho]. apply IH in Ho as [_ Ho].
      rewrite (Ho eq_refl). split; [lia|]. intros ->. discriminate.
    + destruct l; [|discriminate]. simpl. split; [lia | reflexivity].
    + apply IH in Ho. exact Ho.
    + apply IH in Ho. exact Ho.
Qed.

Lemma has_eoc_false l : has_eof_or_close l = false -> count_eof l = O /\ count_close l = O.
Proof.
  unfold has_eof_or_close. induction l as [|x l IH]; simpl; [auto|].
  destruct x; simpl; intros H; try discriminate; auto.
Qed.

(* What a complete data stream looks like: only writes, then at most one EOF, then at most one
   close (pause/resume calls ignored) *)
Fixpoint strip_ctl (l : list tev) : list tev :=
  match l with
  | [] => []
  | (TPause | TResume) :: r => strip_ctl r
  | e :: r => e :: strip_ctl r
  end.

(* ------------------------------------------------------------------------------------------ *)
(* The invariant of the pair machine *)

Definition is_conf (p : phase) : bool := match p with Confirmed => true | _ => false end.

Record INV (c : cfg) (s : st) : Prop := mkINV {
  i_peer : f_peer (sa s) = f_peer (sb s);
  i_btr : f_tr (sb s) = f_peer (sb s);
  i_apeer : is_conf (ph s) = true -> f_tr (sa s) = true -> f_peer (sa s) = true;
  i_pre : is_conf (ph s) = false ->
          sb s = fw0 /\ outB s = [] /\ inB s = [] /\ lostB s = false /\ f_peer (sa s) = false;
  i_failed : ph s = Failed -> f_tr (sa s) = false;
  i_bbuf : f_buf (sb s) = [];
  i_ab : inA s = written (outB s) ++ f_buf (sa s);
  i_abuf : is_conf (ph s) = true -> f_buf (sa s) = [];
  i_ba : exists t, inB s = written (outA s) ++ t /\ (f_tr (sa s) = true -> t = []);
  i_ordA : ordered (outA s) = true;
  i_ordB : ordered (outB s) = true;
  i_ccA : count_close (outA s) = if f_tr (sa s) then O else 1%nat;
  i_ccB : count_close (outB s) = if f_tr (sb s) || negb (is_conf (ph s)) then O else 1%nat;
  i_ceB0 : f_eof (sa s) = false -> count_eof (outB s) = O;
  i_ceA0 : f_eof (sb s) = false -> count_eof (outA s) = O;
  i_ceB1 : is_conf (ph s) = true -> f_eof (sa s) = true -> count_eof (outB s) = 1%nat;
  i_lostA : lostA s = true -> f_tr (sa s) = false;
  i_lostB : lostB s = true -> f_tr (sa s) = false /\ f_tr (sb s) = false;
  i_fix : fix_lost_early c = true ->
          asrt s = false /\ (is_conf (ph s) = true -> f_tr (sa s) = f_tr (sb s));
  i_asrt : asrt s = true -> f_tr (sa s) = false;
  i_both : fix_crossed c = true -> f_eof (sa s) = true -> f_eof (sb s) = true ->
           f_tr (sa s) = false /\ f_tr (sb s) = false;
  i_ceA1 : f_eof (sb s) = true -> f_tr (sa s) = true -> count_eof (outA s) = 1%nat
}.

Lemma inv_st0 c : INV c st0.
Proof.
  constructor; simpl; try reflexivity; try discriminate; auto.
  exists []. split; reflexivity.
Qed.

Lemma inv_linked c : INV c st_linked.
Proof.
  constructor; simpl; try reflexivity; try discriminate; auto.
  exists []. split; reflexivity.
Qed.

(* ------------------------------------------------------------------------------------------ *)
(* preservation *)

Ltac spec_all :=
  repeat match goal with
  | H : ?x = ?x -> _ |- _ => specialize (H eq_refl)
  | H : ?a = ?b -> _, H' : ?a = ?b |- _ => specialize (H H')
  | H : true = false -> _ |- _ => clear H
  | H : false = true -> _ |- _ => clear H
  | H : Pending = Failed -> _ |- _ => clear H
  | H : Confirmed = Failed -> _ |- _ => clear H
  | H : _ /\ _ |- _ => destruct H
  | H : exists _, _ |- _ => destruct H
  | H : mkF _ _ _ _ = fw0 |- _ => inversion H; clear H
  end.

(* split on one boolean, simplify, prune *)
Ltac db b := destruct b; cbn in *; spec_all; try discriminate; subst; rewrite ?app_nil_r in *.

Arguments ordered l : simpl never.
Arguments has_eof_or_close l : simpl never.

Ltac cnt :=
  repeat (rewrite ?count_eof_app, ?count_close_app; cbn [count_eof count_close Nat.add]);
  solve [ reflexivity | assumption | lia | congruence | discriminate ].
Ltac ordfin :=
  first [ assumption | reflexivity
        | apply ordered_snoc;
          [ ordfin | cnt | cbn [is_data_or_eof]; intros; first [ discriminate | cnt ] ] ].
Ltac lfin :=
  lazymatch goal with
  | |- ordered _ = true => solve [ ordfin ]
  | _ =>
    repeat (rewrite ?written_app, ?count_eof_app, ?count_close_app, ?app_nil_r, <- ?app_assoc;
            cbn [written count_eof count_close app]);
    solve [ reflexivity | assumption | discriminate | congruence | lia ]
  end.

Lemma written_snoc l e : written (l ++ [e]) = written l ++ match e with TWrite d => d | _ => [] end.
Proof. rewrite written_app. destruct e; simpl; rewrite ?app_nil_r; reflexivity. Qed.

Ltac exfin :=
  repeat (rewrite ?written_snoc, <- ?app_assoc; cbn [app]);
  first [ reflexivity | eassumption | symmetry; apply app_nil_r ].

Ltac leaf1 :=
  cbn; intros; try discriminate;
  lazymatch goal with
  | |- exists t, _ =>
      first
        [ exists (@nil Z); split;
          [ rewrite ?written_snoc, ?app_nil_r; cbn [app]; rewrite ?app_nil_r;
            first [ reflexivity | assumption | congruence ]
          | intros; reflexivity ]
        | eexists; split; [ exfin | intros; first [ lfin | subst; lfin | spec_all; subst; lfin ] ] ]
  | _ =>
      repeat match goal with |- _ /\ _ => split end; intros;
      first [ lfin | subst; lfin | spec_all; subst; lfin ]
  end.
Ltac leaf := cbn in *; constructor; leaf1.

Section Step.
Variable c : cfg.

Ltac start s H o :=
  intros H; destruct s as [[ta pa ba ea] [tb pb bb eb] p oa ob la lb ia ib asr];
  destruct H as [H1 H2 H3 H4 H5 H6 H7 H8 H9 H10 H11 H12 H13 H14 H15 H16 H17 H18 H19 H20 H21 H22];
  cbn in H1, H2, H3, H4, H5, H6, H7, H8, H9, H10, H11, H12, H13, H14, H15, H16, H17, H18, H19, H20, H21, H22;
  subst pa tb bb; destruct c as [fc fl fr]; cbn in *.

Lemma inv_dataA s d : INV c s -> legal s (DataA d) = true -> INV c (apply c s (DataA d)).
Proof.
  start s H o. intros Hl. try db ta. try db ea. destruct p; try db pb; leaf.
Qed.

Lemma inv_dataB s d : INV c s -> legal s (DataB d) = true -> INV c (apply c s (DataB d)).
Proof.
  start s H o. intros Hl. try db pb. try db eb. try db lb. destruct p; cbn in *; spec_all; try discriminate.
  try db ta; leaf.
Qed.

Lemma inv_eofA s : INV c s -> legal s EofA = true -> INV c (apply c s EofA).
Proof.
  start s H o. intros Hl. try db ta. try db ea. destruct p; try db pb; try db eb; leaf.
Qed.

Lemma inv_closeA s : INV c s -> legal s CloseA = true -> INV c (apply c s CloseA).
Proof.
  start s H o. intros Hl. try db la. try db ta; destruct p; try db pb; leaf.
Qed.

Lemma inv_closeB s : INV c s -> legal s CloseB = true -> INV c (apply c s CloseB).
Proof.
  start s H o. intros Hl. destruct p; cbn in *; try discriminate. try db lb. try db ta; try db pb; leaf.
Qed.

Lemma inv_fail s : INV c s -> legal s Fail = true -> INV c (apply c s Fail).
Proof.
  start s H o. intros Hl. destruct p; cbn in *; try discriminate. spec_all. subst.
  try db ta; leaf.
Qed.
Lemma inv_confirm s : INV c s -> legal s Confirm = true -> INV c (apply c s Confirm).
Proof.
  start s H o. intros Hl. destruct p; cbn in *; try discriminate. spec_all. subst.
  try db ta; try db ea; destruct ba; try db fl; leaf.
Qed.

Lemma inv_eofB s : INV c s -> legal s EofB = true -> INV c (apply c s EofB).
Proof.
  start s H o. intros Hl. destruct p; cbn in *; try discriminate. try db eb. try db lb.
  try db pb; try db ea; try db fc; try db ta;
    try (destruct (has_eof_or_close ob) eqn:He;
         [| apply has_eoc_false in He; destruct He; congruence]);
    leaf.
Qed.

Lemma inv_pause s o : (o = PauseA \/ o = ResumeA \/ o = PauseB \/ o = ResumeB) ->
  INV c s -> legal s o = true -> INV c (apply c s o).
Proof.
  intros Ho. start s H o. intros Hl.
  destruct Ho as [-> | [-> | [-> | ->]]]; cbn in *;
    try db ta; try db pb; try db fl; destruct p; cbn in *; spec_all; try discriminate; leaf.
Qed.

End Step.

Lemma inv_step c s o : INV c s -> INV c (step c s o).
Proof.
  intros H. unfold step. destruct (legal s o) eqn:Hl; [|exact H].
  destruct o.
  - apply inv_dataA; assumption.
  - apply inv_dataB; assumption.
  - apply inv_eofA; assumption.
  - apply inv_eofB; assumption.
  - apply inv_closeA; assumption.
  - apply inv_closeB; assumption.
  - apply inv_confirm; assumption.
  - apply inv_fail; assumption.
  - (* Lost *)
    cbn [apply]. destruct (ph s) eqn:Hp.
    + apply (inv_fail c s H). unfold legal. rewrite Hp. reflexivity.
    + destruct (lostB s) eqn:Hb; [exact H|].
      apply (inv_closeB c s H). unfold legal. rewrite Hp, Hb. reflexivity.
    + exact H.
  - apply inv_pause; auto.
  - apply inv_pause; auto.
  - apply inv_pause; auto.
  - apply inv_pause; auto.
Qed.

Lemma inv_run c s ops : INV c s -> INV c (run c s ops).
Proof.
  revert s. induction ops as [|o ops IH]; intros s H; simpl; [exact H|].
  apply IH. apply inv_step. exact H.
Qed.

