(* C20 - theorems about Model/Forward.v (the invariant is in Proofs/ForwardInv.v) *)
From AV Require Import Base.Prelude Model.Forward Proofs.ForwardInv.

(* ------------------------------------------------------------------------------------------ *)
(* Theorems about the pair.  [start0 s0] : the pair starts as a local forwarder waiting for its
   channel (st0) or as an already linked remote pair (st_linked). *)

Definition start0 (s0 : st) : Prop := s0 = st0 \/ s0 = st_linked.

Lemma inv_reach c s0 ops : start0 s0 -> INV c (run c s0 ops).
Proof. intros [-> | ->]; apply inv_run; [apply inv_st0 | apply inv_linked]. Qed.

(* A -> B: everything the socket delivered has been written to the channel, in order, except
   what still waits in the early-data buffer; nothing waits once the channel is confirmed. *)
Lemma relay_AB c s0 ops : start0 s0 ->
  let s := run c s0 ops in
  inA s = written (outB s) ++ f_buf (sa s) /\ (ph s = Confirmed -> f_buf (sa s) = []).
Proof.
  intros Hs s. pose proof (inv_reach c s0 ops Hs) as Hi. fold s in Hi. split; [apply (i_ab _ _ Hi)|].
  intros Hp. apply (i_abuf _ _ Hi). rewrite Hp. reflexivity.
Qed.

(* B -> A: what was written to the socket is a prefix of what the channel delivered, and all of
   it as long as the socket transport is there *)
Lemma relay_BA c s0 ops : start0 s0 ->
  let s := run c s0 ops in
  exists t, inB s = written (outA s) ++ t /\ (f_tr (sa s) = true -> t = []).
Proof. intros Hs s. apply (i_ba _ _ (inv_reach c s0 ops Hs)). Qed.

(* the ghost inputs really are the delivered payloads: for a run in which every DataA was
   deliverable, inA is the concatenation of the payloads *)
Fixpoint payloadsA (ops : list op) : bytes :=
  match ops with [] => [] | DataA d :: r => d ++ payloadsA r | _ :: r => payloadsA r end.
Fixpoint payloadsB (ops : list op) : bytes :=
  match ops with [] => [] | DataB d :: r => d ++ payloadsB r | _ :: r => payloadsB r end.

Lemma inA_step_other c s o : (forall d, o <> DataA d) -> inA (step c s o) = inA s.
Proof.
  intros Ho. unfold step. destruct (legal s o); [|reflexivity].
  destruct s as [[ta pa ba ea] [tb pb bb eb] p oa ob la lb ia ib asr].
  destruct o; try (exfalso; eapply Ho; reflexivity); cbn;
    unfold do_closeA, do_closeB, do_fail, closeA, closeB, shutA, shutB, wrA, wrB, ctlA, ctlB; cbn;
    repeat match goal with |- context [if ?b then _ else _] => destruct b; cbn end;
    try reflexivity; destruct p; cbn;
    repeat match goal with |- context [if ?b then _ else _] => destruct b; cbn end; try reflexivity;
    destruct ba; cbn;
    repeat match goal with |- context [if ?b then _ else _] => destruct b; cbn end; reflexivity.
Qed.

Lemma inA_step_data c s d : inA (step c s (DataA d)) = inA s ++ (if legal s (DataA d) then d else []).
Proof.
  unfold step. destruct (legal s (DataA d)); [|rewrite app_nil_r; reflexivity].
  destruct s as [[ta pa ba ea] [tb pb bb eb] p oa ob la lb ia ib asr]. cbn.
  destruct pa; cbn; [unfold wrB; cbn; destruct tb|]; reflexivity.
Qed.

(* ordering and half-close *)
Lemma out_ordered c s0 ops : start0 s0 ->
  let s := run c s0 ops in ordered (outA s) = true /\ ordered (outB s) = true.
Proof.
  intros Hs s. pose proof (inv_reach c s0 ops Hs) as Hi. split; [apply (i_ordA _ _ Hi) | apply (i_ordB _ _ Hi)].
Qed.

Lemma eof_AB_once c s0 ops : start0 s0 ->
  let s := run c s0 ops in
  (f_eof (sa s) = false -> count_eof (outB s) = O) /\
  (ph s = Confirmed -> f_eof (sa s) = true -> count_eof (outB s) = 1%nat).
Proof.
  intros Hs s. pose proof (inv_reach c s0 ops Hs) as Hi. fold s in Hi. split; [apply (i_ceB0 _ _ Hi)|].
  intros Hp. apply (i_ceB1 _ _ Hi). rewrite Hp. reflexivity.
Qed.

(* EOF from the channel while the pair is linked is written to the socket, exactly once *)
Lemma eof_BA_step c s0 ops : start0 s0 ->
  let s := run c s0 ops in
  legal s EofB = true -> f_tr (sa s) = true ->
  count_eof (outA s) = O /\ count_eof (outA (step c s EofB)) = 1%nat.
Proof.
  intros Hs s Hl Ht. destruct (inv_reach c s0 ops Hs) as
    [H1 H2 H3 H4 H5 H6 H7 H8 H9 H10 H11 H12 H13 H14 H15 H16 H17 H18 H19 H20 H21].
  fold s in H1, H2, H3, H4, H5, H6, H7, H8, H9, H10, H11, H12, H13, H14, H15, H16, H17, H18, H19, H20, H21.
  unfold step. rewrite Hl. clearbody s.
  destruct s as [[ta pa ba ea] [tb pb bb eb] p oa ob la lb ia ib asr]. cbn in *.
  subst ta. destruct p; cbn in *; try discriminate.
  destruct eb; cbn in *; try discriminate. destruct lb; cbn in *; try discriminate.
  specialize (H3 eq_refl eq_refl). subst. specialize (H15 eq_refl). split; [assumption|].
  unfold wrA; cbn. destruct ea; cbn.
  - destruct (fix_crossed c); cbn.
    + unfold closeB, shutB, shutA; cbn. rewrite !count_eof_app. cbn. lia.
    + destruct (has_eof_or_close ob); cbn; rewrite count_eof_app; cbn; lia.
  - rewrite count_eof_app. cbn. lia.
Qed.

(* a half-close leaves the other direction alone: no transport is closed and no link is cut by an
   EOF unless the other direction had already seen its EOF *)
Lemma eofA_keeps_open c s : legal s EofA = true -> f_eof (sb s) = false ->
  let s' := step c s EofA in
  f_tr (sa s') = f_tr (sa s) /\ f_tr (sb s') = f_tr (sb s) /\
  f_peer (sa s') = f_peer (sa s) /\ f_peer (sb s') = f_peer (sb s).
Proof.
  intros Hl He. unfold step. rewrite Hl.
  destruct s as [[ta pa ba ea] [tb pb bb eb] p oa ob la lb ia ib asr]. cbn in *. subst eb.
  destruct pa; cbn; [unfold wrB; cbn; destruct tb; cbn|]; repeat split; reflexivity.
Qed.

Lemma eofB_keeps_open c s : legal s EofB = true -> f_eof (sa s) = false ->
  let s' := step c s EofB in
  f_tr (sa s') = f_tr (sa s) /\ f_tr (sb s') = f_tr (sb s) /\
  f_peer (sa s') = f_peer (sa s) /\ f_peer (sb s') = f_peer (sb s).
Proof.
  intros Hl He. unfold step. rewrite Hl.
  destruct s as [[ta pa ba ea] [tb pb bb eb] p oa ob la lb ia ib asr]. cbn in *. subst ea.
  destruct pb; cbn; [unfold wrA; cbn; destruct ta; cbn|]; repeat split; reflexivity.
Qed.

(* closing *)
Lemma closed_means_close_called c s0 ops : start0 s0 ->
  let s := run c s0 ops in
  (f_tr (sa s) = false -> count_close (outA s) = 1%nat) /\
  (ph s = Confirmed -> f_tr (sb s) = false -> count_close (outB s) = 1%nat).
Proof.
  intros Hs s. pose proof (inv_reach c s0 ops Hs) as Hi. fold s in Hi. split.
  - intros Ht. rewrite (i_ccA _ _ Hi), Ht. reflexivity.
  - intros Hp Ht. rewrite (i_ccB _ _ Hi), Ht, Hp. reflexivity.
Qed.

Lemma close_both_fixed c s0 ops : fix_lost_early c = true -> start0 s0 ->
  let s := run c s0 ops in
  lostA s = true \/ lostB s = true -> f_tr (sa s) = false /\ f_tr (sb s) = false.
Proof.
  intros Hf Hs s Hl. pose proof (inv_reach c s0 ops Hs) as Hi. fold s in Hi.
  destruct Hl as [Hl | Hl]; [|apply (i_lostB _ _ Hi); assumption].
  pose proof (i_lostA _ _ Hi Hl) as Ha. split; [assumption|].
  destruct (i_fix _ _ Hi Hf) as [_ Hsync].
  destruct (is_conf (ph s)) eqn:Hc.
  - rewrite <- Hsync; auto.
  - destruct (i_pre _ _ Hi Hc) as [Hb _]. rewrite Hb. reflexivity.
Qed.

Lemma close_both_old_witness :
  let s := run cfg_old st0 [DataA [1]; CloseA; Confirm] in
  lostA s = true /\ f_tr (sb s) = true /\ outB s = [TWrite [1]].
Proof. vm_compute. repeat split. Qed.

(* the unrepaired code still closes both ends for every loss that happens after a point where the
   channel was confirmed and the socket was still there *)
Definition with_fle (c : cfg) : cfg := mkCfg (fix_crossed c) true (fix_register c).

Lemma step_fle_conf c s o : ph s = Confirmed -> step c s o = step (with_fle c) s o.
Proof.
  intros Hp. unfold step. destruct (legal s o) eqn:Hl; [|reflexivity].
  destruct o; try reflexivity.
  unfold legal in Hl. rewrite Hp in Hl. discriminate.
Qed.

Lemma ph_step_conf c s o : ph s = Confirmed -> ph (step c s o) = Confirmed.
Proof.
  intros Hp. unfold step. destruct (legal s o) eqn:Hl; [|assumption].
  destruct s as [[ta pa ba ea] [tb pb bb eb] p oa ob la lb ia ib asr]. cbn in Hp. subst p.
  destruct o; cbn in *; try discriminate;
    unfold do_closeA, do_closeB, closeA, closeB, shutA, shutB, wrA, wrB, ctlA, ctlB; cbn;
    repeat match goal with |- context [if ?b then _ else _] => destruct b; cbn end; reflexivity.
Qed.

Lemma inv_upgrade c s : INV c s -> is_conf (ph s) = true -> f_tr (sa s) = f_tr (sb s) ->
  asrt s = false -> INV (with_fle c) s.
Proof.
  intros Hi Hc Hs Ha. destruct Hi. constructor; auto.
Qed.

Lemma sync_run c s ops : INV (with_fle c) s -> ph s = Confirmed ->
  INV (with_fle c) (run c s ops) /\ ph (run c s ops) = Confirmed.
Proof.
  revert s. induction ops as [|o ops IH]; intros s Hi Hp; simpl; [split; assumption|].
  apply IH.
  - rewrite (step_fle_conf c s o Hp). apply inv_step. assumption.
  - apply ph_step_conf. assumption.
Qed.

Lemma close_both_partial c s0 ops1 ops2 : start0 s0 ->
  let s1 := run c s0 ops1 in
  ph s1 = Confirmed -> f_tr (sa s1) = true ->
  let s2 := run c s1 ops2 in
  lostA s2 = true \/ lostB s2 = true -> f_tr (sa s2) = false /\ f_tr (sb s2) = false.
Proof.
  intros Hs s1 Hp Ht s2 Hl.
  pose proof (inv_reach c s0 ops1 Hs) as Hi. fold s1 in Hi.
  assert (Hup : INV (with_fle c) s1).
  { apply inv_upgrade; auto.
    - rewrite Hp. reflexivity.
    - rewrite Ht. rewrite (i_btr _ _ Hi). rewrite <- (i_peer _ _ Hi). symmetry. apply (i_apeer _ _ Hi); auto.
      rewrite Hp. reflexivity.
    - destruct (asrt s1) eqn:Ha; [|reflexivity]. rewrite (i_asrt _ _ Hi Ha) in Ht. discriminate. }
  destruct (sync_run c s1 ops2 Hup Hp) as [Hi2 Hp2]. fold s2 in Hi2, Hp2.
  destruct Hl as [Hl | Hl]; [|apply (i_lostB _ _ Hi2); assumption].
  pose proof (i_lostA _ _ Hi2 Hl) as Ha. split; [assumption|].
  destruct (i_fix _ _ Hi2 eq_refl) as [_ Hsync]. rewrite <- Hsync; [assumption|]. rewrite Hp2. reflexivity.
Qed.

(* both directions have seen EOF: with the repair the pair is closed *)
Lemma both_eof_closed_fixed c s0 ops : fix_crossed c = true -> start0 s0 ->
  let s := run c s0 ops in
  f_eof (sa s) = true -> f_eof (sb s) = true -> f_tr (sa s) = false /\ f_tr (sb s) = false.
Proof. intros Hf Hs s. apply (i_both _ _ (inv_reach c s0 ops Hs) Hf). Qed.

Lemma both_eof_old_witness :
  let s := run cfg_old st_linked [EofA; EofB] in
  f_eof (sa s) = true /\ f_eof (sb s) = true /\ f_tr (sa s) = true /\ f_tr (sb s) = true /\
  lostA s = false /\ lostB s = false.
Proof. vm_compute. repeat split. Qed.

(* pause propagation and absence of failed assertions *)
Lemma pause_propagated c s0 ops : start0 s0 ->
  let s := run c s0 ops in
  (legal s PauseA = true -> f_peer (sa s) = true -> outB (step c s PauseA) = outB s ++ [TPause]) /\
  (legal s ResumeA = true -> f_peer (sa s) = true -> outB (step c s ResumeA) = outB s ++ [TResume]).
Proof.
  intros Hs s. pose proof (inv_reach c s0 ops Hs) as Hi. fold s in Hi. clearbody s.
  split; intros Hl Hp; unfold step; rewrite Hl; cbn; rewrite Hp; unfold ctlB;
    rewrite (i_btr _ _ Hi), <- (i_peer _ _ Hi), Hp; reflexivity.
Qed.

Lemma no_assert_fixed c s0 ops : fix_lost_early c = true -> start0 s0 -> asrt (run c s0 ops) = false.
Proof. intros Hf Hs. apply (i_fix _ _ (inv_reach c s0 ops Hs) Hf). Qed.

Lemma assert_old_witness : asrt (run cfg_old st0 [CloseA; Confirm; PauseB]) = true.
Proof. vm_compute. reflexivity. Qed.

(* the channel's reaction to a False result of eof_received (write_eof if still open) never has
   anything left to do for a forwarder session: the EOF has always been sent already *)
Lemma chan_reaction_moot c s0 ops : start0 s0 ->
  let s := run c s0 ops in
  legal s EofB = true -> f_peer (sb s) = true -> f_eof (sa s) = true ->
  has_eof_or_close (outB s) = true.
Proof.
  intros Hs s Hl Hp He. pose proof (inv_reach c s0 ops Hs) as Hi. fold s in Hi.
  destruct (has_eof_or_close (outB s)) eqn:Hh; [reflexivity|].
  apply has_eoc_false in Hh as [Hh _].
  unfold legal in Hl. destruct (ph s) eqn:Hph; try discriminate.
  rewrite (i_ceB1 _ _ Hi) in Hh; auto; try discriminate. rewrite Hph. reflexivity.
Qed.

(* ------------------------------------------------------------------------------------------ *)
(* The tunnel: witnesses for the crossed-EOF defect and its repair *)

Definition crossed_ops : list top :=
  [OpL (DataA [1;2]); OpL Confirm; OpR (DataA [3]); Deliver12; Deliver21;
   OpL EofA; OpR EofA;          (* both endpoints half-close before either CHANNEL_EOF arrives *)
   Deliver12; Deliver21].       (* the two EOFs cross *)

Lemma tunnel_crossed_old_witness :
  let t := trun cfg_old crossed_ops in
  q12 t = [] /\ q21 t = [] /\
  written (outA (tr_ t)) = [1;2] /\ written (outA (tl t)) = [3] /\
  count_eof (outA (tl t)) = 1%nat /\ count_eof (outA (tr_ t)) = 1%nat /\
  tun_all_closed t = false /\
  f_tr (sa (tl t)) = true /\ f_tr (sb (tl t)) = true /\ f_tr (sa (tr_ t)) = true /\ f_tr (sb (tr_ t)) = true.
Proof. vm_compute. repeat split. Qed.

Lemma tunnel_crossed_fixed_witness :
  let t := trun cfg_fixed (crossed_ops ++ [Deliver12; Deliver21]) in
  q12 t = [] /\ q21 t = [] /\
  written (outA (tr_ t)) = [1;2] /\ written (outA (tl t)) = [3] /\
  count_eof (outA (tl t)) = 1%nat /\ count_eof (outA (tr_ t)) = 1%nat /\
  tun_all_closed t = true.
Proof. vm_compute. repeat split. Qed.

(* ------------------------------------------------------------------------------------------ *)
(* The registry *)

Lemma zremove_notin k l : zmem k (zremove k l) = false.
Proof.
  unfold zmem, zremove. induction l as [|x l IH]; simpl; [reflexivity|].
  destruct (x =? k) eqn:E; simpl; [assumption|].
  rewrite Z.eqb_sym, E. simpl. assumption.
Qed.

Lemma zmem_in y t : In y t -> zmem y t = true.
Proof. intros H. unfold zmem. apply existsb_exists. exists y. split; [assumption | apply Z.eqb_refl]. Qed.

Lemma filter_all_out t l : (forall y, In y l -> zmem y t = true) ->
  filter (fun k => negb (zmem k t)) l = [].
Proof.
  induction l as [|y l IH]; intros Hin; simpl; [reflexivity|].
  rewrite (Hin y (or_introl eq_refl)). simpl. apply IH. intros z Hz. apply Hin. right. assumption.
Qed.

(* open = table, always, for every configuration *)
Lemma reg_open_table_step c r o : r_open r = r_table r -> r_open (rstep c r o) = r_table (rstep c r o).
Proof.
  intros IH. destruct o; simpl.
  - destruct (r_cleaned r || zmem k (r_inflight r) || zmem k (r_open r)); simpl; assumption.
  - destruct (zmem k (r_inflight r)); [|assumption].
    destruct (r_cleaned r && fix_register c); simpl; [assumption | rewrite IH; reflexivity].
  - destruct (zmem k (r_table r)); simpl; [rewrite IH; reflexivity | assumption].
  - rewrite IH. apply filter_all_out. intros y Hy. apply zmem_in. assumption.
Qed.

Lemma rrun_ind (P : reg -> Prop) c :
  P reg0 -> (forall r o, P r -> P (rstep c r o)) -> forall ops, P (rrun c ops).
Proof.
  intros H0 Hs ops. unfold rrun. generalize reg0 H0. induction ops as [|o ops IH]; intros r Hr; simpl; auto.
Qed.

Lemma reg_open_table c ops : r_open (rrun c ops) = r_table (rrun c ops).
Proof. apply rrun_ind; [reflexivity | intros; apply reg_open_table_step; assumption]. Qed.

(* after cleanup nothing is registered any more unless it is registered later (unrepaired code) *)
Lemma reg_cleanup_now c ops :
  let r := rrun c (ops ++ [RCleanup]) in r_table r = [] /\ r_open r = [] /\ r_cleaned r = true.
Proof.
  intros r. assert (Ht : r_table r = [] /\ r_cleaned r = true).
  { unfold r, rrun. rewrite fold_left_app. simpl. split; reflexivity. }
  destruct Ht as [Ht Hc]. repeat split; try assumption.
  unfold r. rewrite reg_open_table. exact Ht.
Qed.

(* with the repair: once the connection has been cleaned up no listener / relayed socket exists,
   whatever completes later *)
Lemma reg_released_fixed c ops : fix_register c = true ->
  let r := rrun c ops in r_cleaned r = true -> r_table r = [] /\ r_open r = [].
Proof.
  intros Hf r. unfold r.
  assert (H : r_cleaned (rrun c ops) = true -> r_table (rrun c ops) = []).
  { apply rrun_ind; [discriminate|]. intros r0 o IH. destruct o; simpl.
    - destruct (r_cleaned r0 || zmem k (r_inflight r0) || zmem k (r_open r0)); simpl; assumption.
    - destruct (zmem k (r_inflight r0)); [|assumption]. rewrite Hf, andb_true_r.
      destruct (r_cleaned r0) eqn:Hc; simpl; [auto | intros; discriminate].
    - destruct (zmem k (r_table r0)); simpl; [|assumption].
      intros Hc. rewrite (IH Hc). reflexivity.
    - reflexivity. }
  intros Hc. split; [auto | rewrite reg_open_table; auto].
Qed.

Lemma reg_released_old_witness :
  let r := rrun cfg_old [RBegin 1; RCleanup; RFinish 1] in
  r_cleaned r = true /\ r_inflight r = [] /\ r_open r = [1] /\ r_table r = [1].
Proof. vm_compute. repeat split. Qed.

(* ------------------------------------------------------------------------------------------ *)
(* The permission decision *)

Lemma served_iff kind k cr app host port :
  decide kind k cr app host port = Served <->
  key_permits k = true /\ cert_permits cr = true /\
  (kind = KDirectTcp -> permitopen_permits k host port = true) /\ app = true.
Proof.
  unfold decide, decide_direct_tcpip, decide_other.
  destruct kind, (key_permits k), (cert_permits cr), app; simpl;
    try destruct (permitopen_permits k host port); simpl;
    split; intros H; try discriminate; try reflexivity;
    try (repeat split; solve [reflexivity | intros; reflexivity | intros; discriminate]);
    try (destruct H as (H1 & H2 & H3 & H4); try discriminate; try (specialize (H3 eq_refl)); discriminate).
Qed.

Lemma app_consulted_spec kind k cr host port :
  app_consulted kind k cr host port = true <->
  (decide kind k cr true host port = Served /\ decide kind k cr false host port = Refused).
Proof.
  unfold app_consulted, decide, decide_direct_tcpip, decide_other.
  destruct kind, (key_permits k), (cert_permits cr); simpl;
    try destruct (permitopen_permits k host port); simpl;
    split; intros H; try discriminate; try reflexivity; try (split; reflexivity);
    destruct H; discriminate.
Qed.

Lemma prohibited_ignores_app kind k cr host port :
  app_consulted kind k cr host port = false ->
  forall app, decide kind k cr app host port = Prohibited.
Proof.
  unfold app_consulted, decide, decide_direct_tcpip, decide_other.
  destruct kind, (key_permits k), (cert_permits cr); simpl;
    try destruct (permitopen_permits k host port); simpl; intros H app; try discriminate; reflexivity.
Qed.

(* the meaning of the three components *)
Lemma key_permits_spec k : key_permits k = true <-> ko_no_pf k = false.
Proof. unfold key_permits. destruct (ko_no_pf k); simpl; split; intros; congruence. Qed.

Lemma cert_permits_spec cr : cert_permits cr = true <-> (cr = None \/ cr = Some true).
Proof. destruct cr as [[|]|]; simpl; split; intros H; auto; try discriminate; destruct H; discriminate. Qed.

Lemma po_mem_spec x l : po_mem x l = true <-> In x l.
Proof.
  unfold po_mem. rewrite existsb_exists. split.
  - intros [y [Hy He]]. unfold po_eqb in He. apply andb_true_iff in He as [H1 H2].
    apply zlist_eqb_spec in H1. destruct x as [h p], y as [h' p']. simpl in *. subst h'.
    destruct p as [p|], p' as [p'|]; simpl in H2; try discriminate.
    + apply Z.eqb_eq in H2. subst. assumption.
    + assumption.
  - intros Hin. exists x. split; [assumption|]. unfold po_eqb. rewrite zlist_eqb_refl. simpl.
    destruct (snd x); simpl; [apply Z.eqb_refl | reflexivity].
Qed.

Lemma permitopen_permits_spec k host port :
  permitopen_permits k host port = true <->
  (ko_permitopen k = [] \/ In (host, Some port) (ko_permitopen k) \/ In (host, None) (ko_permitopen k)).
Proof.
  unfold permitopen_permits. destruct (ko_permitopen k) as [|x l] eqn:E.
  - split; auto.
  - rewrite orb_true_iff, !po_mem_spec. split.
    + intros [H | H]; auto.
    + intros [H | [H | H]]; [discriminate | auto | auto].
Qed.
