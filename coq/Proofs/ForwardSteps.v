(* C20 - facts about single steps of the pair machine used by the tunnel proofs *)
From AV Require Import Base.Prelude Model.Forward Proofs.ForwardInv Proofs.ForwardProofs.

(* ------------------------------------------------------------------------------------------ *)
(* facts about single steps of a pair, by case analysis on the state and the operation *)

Ltac crush_step :=
  unfold do_closeA, do_closeB, do_fail, closeA, closeB, shutA, shutB, wrA, wrB, ctlA, ctlB; cbn;
  repeat match goal with |- context [if ?b then _ else _] => destruct b; cbn end.

Definition dead (s : st) : bool := negb (f_tr (sb s)) || f_eof (sb s) || lostB s.

Lemma legal_dataB s d : legal s (DataB d) = negb (dead s).
Proof.
  unfold legal, dead. destruct (f_tr (sb s)), (f_eof (sb s)), (lostB s); reflexivity.
Qed.

(* outB only grows *)
Lemma outB_grows c s o : exists E, outB (step c s o) = outB s ++ E.
Proof.
  unfold step. destruct (legal s o); [|exists []; rewrite app_nil_r; reflexivity].
  destruct s as [[ta pa ba ea] [tb pb bb eb] p oa ob la lb ia ib asr].
  destruct o; cbn;
    try (destruct (fix_crossed c)); try (destruct (fix_lost_early c)); cbn;
    try destruct p; try destruct ba; crush_step;
    try destruct (has_eof_or_close ob); cbn;
    rewrite <- ?app_assoc; eexists; try reflexivity; try (rewrite app_nil_r; reflexivity).
Qed.

Lemma inB_step c s o :
  inB (step c s o) = inB s ++ match o with DataB d => if legal s o then d else [] | _ => [] end.
Proof.
  unfold step. destruct (legal s o) eqn:Hl; [|destruct o; rewrite app_nil_r; reflexivity].
  destruct s as [[ta pa ba ea] [tb pb bb eb] p oa ob la lb ia ib asr].
  destruct o; cbn;
    try (destruct (fix_crossed c)); try (destruct (fix_lost_early c)); cbn;
    try destruct p; try destruct ba; crush_step;
    try destruct (has_eof_or_close ob); cbn; rewrite ?app_nil_r; reflexivity.
Qed.

(* for a confirmed pair: dead, B's EOF flag and lostB are permanent *)
Lemma mono_conf c s o : ph s = Confirmed ->
  (dead s = true -> dead (step c s o) = true) /\
  (f_eof (sb s) = true -> f_eof (sb (step c s o)) = true) /\
  (lostB s = true -> lostB (step c s o) = true).
Proof.
  intros Hp. unfold step. destruct (legal s o) eqn:Hl; [|auto].
  destruct s as [[ta pa ba ea] [tb pb bb eb] p oa ob la lb ia ib asr]. cbn in Hp. subst p.
  unfold dead.
  destruct o; cbn in *; try discriminate;
    try (destruct (fix_crossed c)); cbn; crush_step;
    try destruct (has_eof_or_close ob); cbn;
    repeat split; intros H; try assumption; try reflexivity;
    destruct tb, eb, lb; cbn in *; try discriminate; try reflexivity.
Qed.

Lemma eofB_sets c s : legal s EofB = true -> f_eof (sb (step c s EofB)) = true.
Proof.
  intros Hl. unfold step. rewrite Hl.
  destruct s as [[ta pa ba ea] [tb pb bb eb] p oa ob la lb ia ib asr].
  cbn. destruct (fix_crossed c); crush_step; try destruct (has_eof_or_close ob); reflexivity.
Qed.

Lemma closeB_sets c s : legal s CloseB = true -> lostB (step c s CloseB) = true.
Proof.
  intros Hl. unfold step. rewrite Hl.
  destruct s as [[ta pa ba ea] [tb pb bb eb] p oa ob la lb ia ib asr]. cbn. crush_step; reflexivity.
Qed.

