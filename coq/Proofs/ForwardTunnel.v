(* C20 - the whole tunnel (Model/Forward.v part 2): local pair, the two FIFO directions of the SSH
   channel, remote pair.  Relay order, half-close and close across all four ends. *)
From AV Require Import Base.Prelude Model.Forward Proofs.ForwardInv Proofs.ForwardProofs Proofs.ForwardSteps.

(* ------------------------------------------------------------------------------------------ *)
(* channel messages *)

Fixpoint cdata (l : list cmsg) : bytes :=
  match l with [] => [] | MData d :: r => d ++ cdata r | _ :: r => cdata r end.

Lemma cdata_app a b : cdata (a ++ b) = cdata a ++ cdata b.
Proof.
  induction a as [|m a IH]; simpl; [reflexivity|]. destruct m; simpl; rewrite IH; try reflexivity.
  rewrite app_assoc. reflexivity.
Qed.

Lemma msgs_of_app a b : msgs_of (a ++ b) = msgs_of a ++ msgs_of b.
Proof. unfold msgs_of. apply flat_map_app. Qed.

Lemma cdata_msgs_of l : cdata (msgs_of l) = written l.
Proof.
  induction l as [|e l IH]; simpl; [reflexivity|].
  destruct e; simpl; rewrite ?IH; reflexivity.
Qed.

Fixpoint count_meof (l : list cmsg) : nat :=
  match l with [] => O | MEof :: r => S (count_meof r) | _ :: r => count_meof r end.
Fixpoint count_mclose (l : list cmsg) : nat :=
  match l with [] => O | MClose :: r => S (count_mclose r) | _ :: r => count_mclose r end.

Lemma count_meof_app a b : count_meof (a ++ b) = (count_meof a + count_meof b)%nat.
Proof. induction a as [|m a IH]; simpl; [reflexivity|]. destruct m; simpl; rewrite IH; reflexivity. Qed.
Lemma count_mclose_app a b : count_mclose (a ++ b) = (count_mclose a + count_mclose b)%nat.
Proof. induction a as [|m a IH]; simpl; [reflexivity|]. destruct m; simpl; rewrite IH; reflexivity. Qed.

Lemma count_meof_msgs l : count_meof (msgs_of l) = count_eof l.
Proof. induction l as [|e l IH]; simpl; [reflexivity|]. destruct e; simpl; rewrite ?IH; reflexivity. Qed.
Lemma count_mclose_msgs l : count_mclose (msgs_of l) = count_close l.
Proof. induction l as [|e l IH]; simpl; [reflexivity|]. destruct e; simpl; rewrite ?IH; reflexivity. Qed.

Definition is_prefix (a b : bytes) : Prop := exists t, b = a ++ t.

(* one direction of the channel: [src] = everything the sending pair handed to its channel,
   [q] = not yet delivered, [dst] = the receiving pair; X = what has been delivered *)
Definition LINK (src : list tev) (q : list cmsg) (dst : st) : Prop :=
  exists X,
    msgs_of src = X ++ q /\
    is_prefix (inB dst) (cdata X) /\
    (dead dst = false -> inB dst = cdata X) /\
    (count_meof X <> O -> f_eof (sb dst) = true \/ lostB dst = true) /\
    (count_mclose X <> O -> lostB dst = true) /\
    (is_conf (ph dst) = false -> X = []).

Lemma link_src_grow src q dst E : LINK src q dst -> LINK (src ++ E) (q ++ msgs_of E) dst.
Proof.
  intros (X & H1 & H2). exists X. split; [|exact H2].
  rewrite msgs_of_app, H1, app_assoc. reflexivity.
Qed.

Lemma inB_step_sock c s o : sock_op o = true -> inB (step c s o) = inB s.
Proof. intros Ho. rewrite inB_step. destruct o; try discriminate; apply app_nil_r. Qed.

(* a socket-side event at the receiving pair *)
Lemma link_dst_sock c src q dst o : INV c dst -> sock_op o = true ->
  LINK src q dst -> LINK src q (step c dst o).
Proof.
  intros Hi Ho (X & H1 & H2 & H3 & H4 & H5 & H6).
  destruct (is_conf (ph dst)) eqn:Hc.
  - assert (Hp : ph dst = Confirmed) by (destruct (ph dst); try discriminate; reflexivity).
    destruct (mono_conf c dst o Hp) as (Md & Me & Ml).
    exists X. rewrite (inB_step_sock c dst o Ho). repeat split; try assumption.
    + intros Hd. apply H3. destruct (dead dst); [rewrite Md in Hd; auto|reflexivity].
    + intros Hx. destruct (H4 Hx); [left; apply Me | right; apply Ml]; assumption.
    + intros Hx. apply Ml. apply H5. assumption.
    + intros Hx. rewrite (ph_step_conf c dst o Hp) in Hx. discriminate.
  - specialize (H6 eq_refl). subst X.
    destruct (i_pre _ _ Hi Hc) as (_ & _ & Hin & _).
    exists []. rewrite (inB_step_sock c dst o Ho), Hin. simpl.
    repeat split; try assumption; try reflexivity; try (intros Hx; exfalso; apply Hx; reflexivity).
    exists []. reflexivity.
Qed.

(* the oldest queued message arrives at the (confirmed) receiving pair *)
Lemma link_deliver c src m r dst : ph dst = Confirmed ->
  LINK src (m :: r) dst -> LINK src r (step c dst (op_of_msg m)).
Proof.
  intros Hp (X & H1 & H2 & H3 & H4 & H5 & H6).
  destruct (mono_conf c dst (op_of_msg m) Hp) as (Md & Me & Ml).
  exists (X ++ [m]). split; [rewrite H1, <- app_assoc; reflexivity|].
  rewrite cdata_app, count_meof_app, count_mclose_app, inB_step.
  assert (Hconf : is_conf (ph (step c dst (op_of_msg m))) = false -> X ++ [m] = []).
  { rewrite (ph_step_conf c dst _ Hp). discriminate. }
  destruct m as [d | | ]; cbn [op_of_msg cdata count_meof count_mclose Nat.add] in *.
  - (* data *)
    rewrite legal_dataB, !app_nil_r. destruct (dead dst) eqn:Hd; cbn [negb].
    + rewrite app_nil_r. repeat split.
      * destruct H2 as [t Ht]. exists (t ++ d). rewrite Ht, <- app_assoc. reflexivity.
      * intros Hd'. rewrite (Md eq_refl) in Hd'. discriminate.
      * intros Hx. rewrite Nat.add_0_r in Hx. destruct (H4 Hx); [left; apply Me | right; apply Ml]; assumption.
      * intros Hx. rewrite Nat.add_0_r in Hx. apply Ml, H5, Hx.
      * exact Hconf.
    + rewrite (H3 eq_refl). repeat split.
      * exists []. rewrite app_nil_r. reflexivity.
      * intros Hx. rewrite Nat.add_0_r in Hx. destruct (H4 Hx); [left; apply Me | right; apply Ml]; assumption.
      * intros Hx. rewrite Nat.add_0_r in Hx. apply Ml, H5, Hx.
      * exact Hconf.
  - (* EOF *)
    rewrite !app_nil_r. repeat split.
    + exact H2.
    + intros Hd'. apply H3. destruct (dead dst); [rewrite Md in Hd'; auto | reflexivity].
    + intros _. destruct (legal dst EofB) eqn:Hl.
      * left. apply eofB_sets. assumption.
      * unfold legal in Hl. rewrite Hp in Hl.
        destruct (f_eof (sb dst)) eqn:He; [left; apply Me; reflexivity|].
        destruct (lostB dst) eqn:Hlb; [right; apply Ml; reflexivity | discriminate].
    + intros Hx. rewrite Nat.add_0_r in Hx. apply Ml, H5, Hx.
    + exact Hconf.
  - (* close *)
    rewrite !app_nil_r. repeat split.
    + exact H2.
    + intros Hd'. apply H3. destruct (dead dst); [rewrite Md in Hd'; auto | reflexivity].
    + intros Hx. rewrite Nat.add_0_r in Hx. destruct (H4 Hx); [left; apply Me | right; apply Ml]; assumption.
    + intros _. destruct (legal dst CloseB) eqn:Hl.
      * apply closeB_sets. assumption.
      * unfold legal in Hl. rewrite Hp in Hl. apply Ml. destruct (lostB dst); [reflexivity | discriminate].
    + exact Hconf.
Qed.

(* ------------------------------------------------------------------------------------------ *)
(* the tunnel invariant *)

Record TINV (c : cfg) (t : tun) : Prop := mkTINV {
  t_invl : INV c (tl t);
  t_invr : INV c (tr_ t);
  t_invr2 : INV (with_fle c) (tr_ t);     (* the remote pair is linked from the start: always in sync *)
  t_confr : ph (tr_ t) = Confirmed;
  t_n1 : n1 t = length (outB (tl t));
  t_n2 : n2 t = length (outB (tr_ t));
  t_l12 : LINK (outB (tl t)) (q12 t) (tr_ t);
  t_l21 : LINK (outB (tr_ t)) (q21 t) (tl t)
}.

Lemma skipn_len_app {A} (l E : list A) : skipn (length l) (l ++ E) = E.
Proof. induction l; simpl; auto. Qed.

Lemma skipn_len_self {A} (l : list A) : skipn (length l) l = [].
Proof. induction l; simpl; auto. Qed.

Lemma link_init src_empty dst : src_empty = [] -> inB dst = [] -> LINK src_empty [] dst.
Proof.
  intros -> Hin. exists []. rewrite Hin. simpl.
  repeat split; try reflexivity; try (intros Hx; exfalso; apply Hx; reflexivity).
  exists []. reflexivity.
Qed.

Lemma tinv0 c : TINV c tun0.
Proof.
  constructor; simpl; try reflexivity.
  - apply inv_st0.
  - apply inv_linked.
  - apply inv_linked.
  - apply link_init; reflexivity.
  - apply link_init; reflexivity.
Qed.

(* drain after the local pair moved from l to l' (outB l' = outB l ++ E) *)
Lemma tinv_step c t o : TINV c t -> TINV c (tstep c t o).
Proof.
  intros [Hl Hr Hr2 Hc N1 N2 L12 L21]. unfold tstep.
  destruct o as [o | o | | ].
  - (* local socket event *)
    destruct (sock_op o) eqn:Ho.
    + destruct (outB_grows c (tl t) o) as [E HE].
      unfold drain; cbn [tl tr_ q12 q21 n1 n2]. constructor; cbn [tl tr_ q12 q21 n1 n2].
      * apply inv_step; assumption.
      * assumption.
      * assumption.
      * assumption.
      * reflexivity.
      * reflexivity.
      * rewrite N1, HE, skipn_len_app. apply link_src_grow. assumption.
      * rewrite N2, skipn_len_self. simpl. rewrite app_nil_r.
        apply link_dst_sock; assumption.
    + unfold drain; cbn [tl tr_ q12 q21 n1 n2]. constructor; cbn [tl tr_ q12 q21 n1 n2]; try assumption; try reflexivity.
      * rewrite N1, skipn_len_self. simpl. rewrite app_nil_r. assumption.
      * rewrite N2, skipn_len_self. simpl. rewrite app_nil_r. assumption.
  - (* destination socket event *)
    destruct (sock_op o) eqn:Ho.
    + destruct (outB_grows c (tr_ t) o) as [E HE].
      unfold drain; cbn [tl tr_ q12 q21 n1 n2]. constructor; cbn [tl tr_ q12 q21 n1 n2].
      * assumption.
      * apply inv_step; assumption.
      * rewrite (step_fle_conf c _ _ Hc). apply inv_step; assumption.
      * apply ph_step_conf; assumption.
      * reflexivity.
      * reflexivity.
      * rewrite N1, skipn_len_self. simpl. rewrite app_nil_r.
        apply link_dst_sock; assumption.
      * rewrite N2, HE, skipn_len_app. apply link_src_grow. assumption.
    + unfold drain; cbn [tl tr_ q12 q21 n1 n2]. constructor; cbn [tl tr_ q12 q21 n1 n2]; try assumption; try reflexivity.
      * rewrite N1, skipn_len_self. simpl. rewrite app_nil_r. assumption.
      * rewrite N2, skipn_len_self. simpl. rewrite app_nil_r. assumption.
  - (* delivery local -> remote *)
    destruct (q12 t) as [|m r] eqn:Hq.
    + unfold drain; cbn [tl tr_ q12 q21 n1 n2]. constructor; cbn [tl tr_ q12 q21 n1 n2]; try assumption; try reflexivity.
      * rewrite N1, skipn_len_self. simpl. rewrite Hq. assumption.
      * rewrite N2, skipn_len_self. simpl. rewrite app_nil_r. assumption.
    + destruct (outB_grows c (tr_ t) (op_of_msg m)) as [E HE].
      unfold drain; cbn [tl tr_ q12 q21 n1 n2]. constructor; cbn [tl tr_ q12 q21 n1 n2].
      * assumption.
      * apply inv_step; assumption.
      * rewrite (step_fle_conf c _ _ Hc). apply inv_step; assumption.
      * apply ph_step_conf; assumption.
      * reflexivity.
      * reflexivity.
      * rewrite N1, skipn_len_self. simpl. rewrite app_nil_r.
        apply link_deliver; assumption.
      * rewrite N2, HE, skipn_len_app. apply link_src_grow. assumption.
  - (* delivery remote -> local, only once the local channel is confirmed *)
    destruct (ph (tl t)) eqn:Hp; try destruct (q21 t) as [|m r] eqn:Hq;
      try (unfold drain; cbn [tl tr_ q12 q21 n1 n2]; constructor; cbn [tl tr_ q12 q21 n1 n2];
           try assumption; try reflexivity;
           [ rewrite N1, skipn_len_self; simpl; rewrite app_nil_r; assumption
           | rewrite N2, skipn_len_self; simpl; rewrite ?Hq, ?app_nil_r; assumption ]).
    destruct (outB_grows c (tl t) (op_of_msg m)) as [E HE].
    unfold drain; cbn [tl tr_ q12 q21 n1 n2]. constructor; cbn [tl tr_ q12 q21 n1 n2].
    + apply inv_step; assumption.
    + assumption.
    + assumption.
    + assumption.
    + reflexivity.
    + reflexivity.
    + rewrite N1, HE, skipn_len_app. apply link_src_grow. assumption.
    + rewrite N2, skipn_len_self. simpl. rewrite app_nil_r.
      apply link_deliver; assumption.
Qed.

Lemma tinv_run c ops : TINV c (trun c ops).
Proof.
  unfold trun. generalize (tinv0 c). generalize tun0.
  induction ops as [|o ops IH]; intros t Ht; simpl; [exact Ht|].
  apply IH. apply tinv_step. exact Ht.
Qed.

(* ------------------------------------------------------------------------------------------ *)
(* theorems about the tunnel *)

Lemma prefix_trans a b c : is_prefix a b -> is_prefix b c -> is_prefix a c.
Proof. intros [t1 ->] [t2 ->]. exists (t1 ++ t2). rewrite app_assoc. reflexivity. Qed.

(* generic: what reached the receiving pair's socket is a prefix of what the sending pair's
   socket delivered *)
Lemma link_prefix c src_pair q dst :
  INV c src_pair -> INV c dst -> LINK (outB src_pair) q dst ->
  is_prefix (written (outA dst)) (inA src_pair).
Proof.
  intros Hs Hd (X & H1 & H2 & _).
  destruct (i_ba _ _ Hd) as (t & Ht & _).
  apply prefix_trans with (inB dst); [exists t; assumption|].
  apply prefix_trans with (cdata X); [assumption|].
  apply prefix_trans with (written (outB src_pair)).
  - exists (cdata q). rewrite <- cdata_msgs_of, H1, cdata_app. reflexivity.
  - exists (f_buf (sa src_pair)). apply (i_ab _ _ Hs).
Qed.

Lemma link_complete c src_pair dst :
  INV c src_pair -> INV c dst -> LINK (outB src_pair) [] dst ->
  ph src_pair = Confirmed -> dead dst = false -> f_tr (sa dst) = true ->
  written (outA dst) = inA src_pair.
Proof.
  intros Hs Hd (X & H1 & _ & H3 & _) Hp Hdead Ht.
  destruct (i_ba _ _ Hd) as (t & Hb & Hnil). rewrite (Hnil Ht), app_nil_r in Hb.
  rewrite <- Hb, (H3 Hdead). rewrite app_nil_r in H1. rewrite <- H1, cdata_msgs_of.
  rewrite (i_ab _ _ Hs), (i_abuf _ _ Hs), app_nil_r; [reflexivity|]. rewrite Hp. reflexivity.
Qed.

(* EOF from the sending pair's socket reaches the receiving pair's socket exactly once *)
Lemma link_eof c src_pair dst :
  INV c src_pair -> INV c dst -> LINK (outB src_pair) [] dst ->
  ph src_pair = Confirmed -> f_eof (sa src_pair) = true ->
  lostB dst = false -> f_tr (sa dst) = true ->
  count_eof (outA dst) = 1%nat.
Proof.
  intros Hs Hd (X & H1 & _ & _ & H4 & _) Hp He Hl Ht.
  apply (i_ceA1 _ _ Hd); [|assumption].
  rewrite app_nil_r in H1.
  assert (Hx : count_meof X <> O).
  { rewrite <- H1, count_meof_msgs, (i_ceB1 _ _ Hs); [discriminate| rewrite Hp; reflexivity | assumption]. }
  destruct (H4 Hx) as [H | H]; [assumption | congruence].
Qed.

(* a close of the sending pair reaches the receiving pair and closes it *)
Lemma link_close c src_pair dst :
  INV c src_pair -> INV c dst -> LINK (outB src_pair) [] dst ->
  ph src_pair = Confirmed -> f_tr (sb src_pair) = false ->
  f_tr (sa dst) = false /\ f_tr (sb dst) = false.
Proof.
  intros Hs Hd (X & H1 & _ & _ & _ & H5 & _) Hp Ht.
  apply (i_lostB _ _ Hd). apply H5. rewrite app_nil_r in H1.
  rewrite <- H1, count_mclose_msgs, (i_ccB _ _ Hs), Ht, Hp. discriminate.
Qed.


(* no reordering, duplication or invention, in both directions, for every interleaving *)
Lemma tunnel_prefix c ops : let t := trun c ops in
  is_prefix (written (outA (tr_ t))) (inA (tl t)) /\ is_prefix (written (outA (tl t))) (inA (tr_ t)).
Proof.
  intros t.
  destruct (tinv_run c ops) as [Hl Hr Hr2 Hc N1 N2 L12 L21]. fold t in Hl, Hr, Hr2, Hc, N1, N2, L12, L21.
  split; [exact (link_prefix c _ _ _ Hl Hr L12) | exact (link_prefix c _ _ _ Hr Hl L21)].
Qed.

(* completeness: when nothing is in flight and the receiving side is alive, everything arrived *)
Lemma tunnel_complete_12 c ops : let t := trun c ops in
  ph (tl t) = Confirmed -> q12 t = [] -> dead (tr_ t) = false -> f_tr (sa (tr_ t)) = true ->
  written (outA (tr_ t)) = inA (tl t).
Proof.
  intros t.
  destruct (tinv_run c ops) as [Hl Hr Hr2 Hc N1 N2 L12 L21]. fold t in Hl, Hr, Hr2, Hc, N1, N2, L12, L21. intros Hp Hq Hd Ht.
  rewrite Hq in L12. exact (link_complete c _ _ Hl Hr L12 Hp Hd Ht).
Qed.

Lemma tunnel_complete_21 c ops : let t := trun c ops in
  q21 t = [] -> dead (tl t) = false -> f_tr (sa (tl t)) = true ->
  written (outA (tl t)) = inA (tr_ t).
Proof.
  intros t.
  destruct (tinv_run c ops) as [Hl Hr Hr2 Hc N1 N2 L12 L21]. fold t in Hl, Hr, Hr2, Hc, N1, N2, L12, L21. intros Hq Hd Ht.
  rewrite Hq in L21. exact (link_complete c _ _ Hr Hl L21 Hc Hd Ht).
Qed.

(* half-close end to end *)
Lemma tunnel_eof_12 c ops : let t := trun c ops in
  ph (tl t) = Confirmed -> f_eof (sa (tl t)) = true -> q12 t = [] ->
  lostB (tr_ t) = false -> f_tr (sa (tr_ t)) = true ->
  count_eof (outA (tr_ t)) = 1%nat.
Proof.
  intros t.
  destruct (tinv_run c ops) as [Hl Hr Hr2 Hc N1 N2 L12 L21]. fold t in Hl, Hr, Hr2, Hc, N1, N2, L12, L21. intros Hp He Hq Hlb Ht.
  rewrite Hq in L12. exact (link_eof c _ _ Hl Hr L12 Hp He Hlb Ht).
Qed.

Lemma tunnel_eof_21 c ops : let t := trun c ops in
  f_eof (sa (tr_ t)) = true -> q21 t = [] ->
  lostB (tl t) = false -> f_tr (sa (tl t)) = true ->
  count_eof (outA (tl t)) = 1%nat.
Proof.
  intros t.
  destruct (tinv_run c ops) as [Hl Hr Hr2 Hc N1 N2 L12 L21]. fold t in Hl, Hr, Hr2, Hc, N1, N2, L12, L21. intros He Hq Hlb Ht.
  rewrite Hq in L21. exact (link_eof c _ _ Hr Hl L21 Hc He Hlb Ht).
Qed.

(* closing either end closes all four transports once the close has travelled *)
Lemma tunnel_close_from_local c ops : let t := trun c ops in
  fix_lost_early c = true -> ph (tl t) = Confirmed ->
  lostA (tl t) = true -> q12 t = [] -> tun_all_closed t = true.
Proof.
  intros t.
  destruct (tinv_run c ops) as [Hl Hr Hr2 Hc N1 N2 L12 L21]. fold t in Hl, Hr, Hr2, Hc, N1, N2, L12, L21. intros Hf Hp Hlost Hq.
  assert (Hab : f_tr (sa (tl t)) = false /\ f_tr (sb (tl t)) = false).
  { pose proof (i_lostA _ _ Hl Hlost) as Ha. split; [assumption|].
    destruct (i_fix _ _ Hl Hf) as [_ Hs]. rewrite <- Hs; [assumption | rewrite Hp; reflexivity]. }
  destruct Hab as [Ha Hb]. rewrite Hq in L12.
  destruct (link_close c _ _ Hl Hr L12 Hp Hb) as [Ha2 Hb2].
  unfold tun_all_closed. rewrite Ha, Hb, Ha2, Hb2. reflexivity.
Qed.

Lemma tunnel_close_from_remote c ops : let t := trun c ops in
  ph (tl t) = Confirmed -> lostA (tr_ t) = true -> q21 t = [] -> tun_all_closed t = true.
Proof.
  intros t.
  destruct (tinv_run c ops) as [Hl Hr Hr2 Hc N1 N2 L12 L21]. fold t in Hl, Hr, Hr2, Hc, N1, N2, L12, L21. intros Hp Hlost Hq.
  pose proof (i_lostA _ _ Hr Hlost) as Ha2.
  assert (Hb2 : f_tr (sb (tr_ t)) = false).
  { destruct (i_fix _ _ Hr2 eq_refl) as [_ Hs]. rewrite <- Hs; [assumption | rewrite Hc; reflexivity]. }
  rewrite Hq in L21.
  destruct (link_close c _ _ Hr Hl L21 Hc Hb2) as [Ha1 Hb1].
  unfold tun_all_closed. rewrite Ha1, Hb1, Ha2, Hb2. reflexivity.
Qed.


Lemma dead_false s : f_tr (sb s) = true -> f_eof (sb s) = false -> lostB s = false -> dead s = false.
Proof. intros H1 H2 H3. unfold dead. rewrite H1, H2, H3. reflexivity. Qed.

Lemma tunnel_complete c ops : let t := trun c ops in
  (ph (tl t) = Confirmed -> q12 t = [] ->
   f_tr (sb (tr_ t)) = true -> f_eof (sb (tr_ t)) = false -> lostB (tr_ t) = false -> f_tr (sa (tr_ t)) = true ->
   written (outA (tr_ t)) = inA (tl t)) /\
  (q21 t = [] ->
   f_tr (sb (tl t)) = true -> f_eof (sb (tl t)) = false -> lostB (tl t) = false -> f_tr (sa (tl t)) = true ->
   written (outA (tl t)) = inA (tr_ t)).
Proof.
  intros t. split.
  - intros Hp Hq H1 H2 H3 H4. apply tunnel_complete_12; auto. apply dead_false; assumption.
  - intros Hq H1 H2 H3 H4. apply tunnel_complete_21; auto. apply dead_false; assumption.
Qed.
