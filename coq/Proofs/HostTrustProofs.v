(* Proofs about Model/HostTrust.v (property C04). *)
From AV Require Import Base.Prelude Model.HostTrust.

(* ---------------------------------------------------------------------------------------------- *)
(* membership tests *)

Lemma kmem_In k l : kmem k l = true <-> In k l.
Proof.
  unfold kmem. rewrite existsb_exists. split.
  - intros [x [Hin Heq]]. apply Z.eqb_eq in Heq. subst. exact Hin.
  - intros Hin. exists k. split; [exact Hin | apply Z.eqb_refl].
Qed.

Lemma kmem_notIn k l : kmem k l = false <-> ~ In k l.
Proof.
  rewrite <- kmem_In. destruct (kmem k l); split; intros H; try reflexivity; try discriminate.
  exfalso. apply H. reflexivity.
Qed.

Lemma nmem_In n l : nmem n l = true <-> In n l.
Proof.
  unfold nmem. rewrite existsb_exists. split.
  - intros [x [Hin Heq]]. apply zlist_eqb_spec in Heq. subst. exact Hin.
  - intros Hin. exists n. split; [exact Hin | apply zlist_eqb_refl].
Qed.

(* ---------------------------------------------------------------------------------------------- *)
(* the decision, stated as the property states it *)

Definition plain_ok (t : trust) (cb : bool) (k : key) : Prop :=
  (In k (t_keys t) \/ cb = true) /\ ~ In k (t_revoked t).

Definition cert_ok (t : trust) (cb : bool) (host : name) (now : Z) (c : cert) : Prop :=
  (In (c_ca c) (t_cas t) \/ cb = true) /\
  ~ In (c_ca c) (t_revoked t) /\
  ~ In (c_key c) (t_revoked t) /\
  c_type c = CERT_TYPE_HOST /\
  c_after c <= now < c_before c /\
  (c_principals c = [] \/ In host (c_principals c)) /\
  c_sig_ok c = true.

Lemma cert_valid_spec host now c :
  cert_valid host now c = true <->
  c_type c = CERT_TYPE_HOST /\ c_after c <= now < c_before c /\
  (c_principals c = [] \/ In host (c_principals c)).
Proof.
  unfold cert_valid. rewrite !andb_true_iff, !negb_true_iff, Z.eqb_eq, Z.ltb_ge, Z.geb_leb, Z.leb_gt.
  split.
  - intros [[[Ht Ha] Hb] Hp]. repeat split; try assumption.
    destruct (c_principals c) as [|p ps] eqn:E; [left; reflexivity | right].
    apply nmem_In. exact Hp.
  - intros [Ht [[Ha Hb] Hp]]. repeat split; try assumption.
    destruct (c_principals c) as [|p ps] eqn:E; [reflexivity|].
    destruct Hp as [Hp|Hp]; [discriminate | apply nmem_In; exact Hp].
Qed.

Lemma validate_plain_spec t cbk cbca host k r :
  validate_plain (mkEnv (Some t) cbk cbca host) k = Some r <-> r = k /\ plain_ok t cbk k.
Proof.
  unfold validate_plain, plain_ok. cbn [e_trust e_cb_key].
  destruct (kmem k (t_revoked t)) eqn:Hr.
  - apply kmem_In in Hr. split; [discriminate | intros [_ [_ Hn]]; contradiction].
  - apply kmem_notIn in Hr.
    destruct (kmem k (t_keys t)) eqn:Hk; cbn [negb andb].
    + apply kmem_In in Hk. split.
      * intros H; inversion H; subst. repeat split; auto.
      * intros [-> _]. reflexivity.
    + apply kmem_notIn in Hk. destruct cbk; cbn [negb].
      * split; [intros H; inversion H; subst; repeat split; auto | intros [-> _]; reflexivity].
      * split; [discriminate | intros [_ [[H|H] _]]; [contradiction | discriminate]].
Qed.

Lemma validate_cert_spec t cbk cbca host now c r :
  c_sig_ok c = true ->
  (validate_cert (mkEnv (Some t) cbk cbca host) now c = Some r <->
   r = c_key c /\ cert_ok t cbca host now c).
Proof.
  intros Hsig. unfold validate_cert, cert_ok. cbn [e_trust e_cb_ca e_host].
  destruct (kmem (c_ca c) (t_revoked t)) eqn:Hcr.
  { apply kmem_In in Hcr. split; [discriminate | intros [_ [_ [Hn _]]]; contradiction]. }
  apply kmem_notIn in Hcr.
  destruct (kmem (c_key c) (t_revoked t)) eqn:Hkr.
  { apply kmem_In in Hkr. split; [discriminate | intros [_ [_ [_ [Hn _]]]]; contradiction]. }
  apply kmem_notIn in Hkr.
  assert (Hrest : forall ca_ok : Prop, ca_ok ->
            ((if cert_valid host now c then Some (c_key c) else None) = Some r <->
             r = c_key c /\ ca_ok /\ ~ In (c_ca c) (t_revoked t) /\ ~ In (c_key c) (t_revoked t) /\
             c_type c = CERT_TYPE_HOST /\ c_after c <= now < c_before c /\
             (c_principals c = [] \/ In host (c_principals c)) /\ c_sig_ok c = true)).
  { intros ca_ok Hca. destruct (cert_valid host now c) eqn:Hv.
    - apply cert_valid_spec in Hv. destruct Hv as [Ht [Hw Hp]]. split.
      + intros H; inversion H; subst. repeat split; auto; apply Hw.
      + intros [-> _]. reflexivity.
    - split; [discriminate|]. intros [_ [_ [_ [_ [Ht [Hw [Hp _]]]]]]].
      assert (cert_valid host now c = true) as Hv' by (apply cert_valid_spec; auto).
      congruence. }
  destruct (kmem (c_ca c) (t_cas t)) eqn:Hca; cbn [negb andb].
  - apply kmem_In in Hca. apply Hrest. left. exact Hca.
  - apply kmem_notIn in Hca. destruct cbca; cbn [negb].
    + apply Hrest. right. reflexivity.
    + split; [discriminate | intros [_ [[H|H] _]]; [contradiction | discriminate]].
Qed.

(* soundness and completeness of the decision in one equivalence *)
Lemma validate_host_key_iff t cbk cbca host now p k :
  validate_host_key (mkEnv (Some t) cbk cbca host) now p = Some k <->
  (p = PKey k /\ plain_ok t cbk k) \/
  (exists c, p = PCert c /\ k = c_key c /\ cert_ok t cbca host now c).
Proof.
  destruct p as [k0|c|]; cbn [validate_host_key].
  - rewrite validate_plain_spec. split.
    + intros [-> H]. left. split; [reflexivity | exact H].
    + intros [[Heq H]|[c [Heq _]]]; [inversion Heq; subst; auto | discriminate].
  - unfold cert_decodes. destruct (c_sig_ok c) eqn:Hsig; cbn [andb].
    + destruct ((c_type c =? CERT_TYPE_USER) || (c_type c =? CERT_TYPE_HOST)) eqn:Hty.
      * rewrite validate_cert_spec by exact Hsig. split.
        -- intros [-> H]. right. exists c. auto.
        -- intros [[Heq _]|[c' [Heq [-> H]]]]; [discriminate | inversion Heq; subst; auto].
      * split; [discriminate|].
        intros [[Heq _]|[c' [Heq [_ H]]]]; [discriminate|]. inversion Heq; subst c'.
        destruct H as [_ [_ [_ [Ht _]]]]. rewrite Ht in Hty.
        apply orb_false_iff in Hty. destruct Hty as [_ Hty]. rewrite Z.eqb_refl in Hty. discriminate.
    + split; [discriminate|].
      intros [[Heq _]|[c' [Heq [_ H]]]]; [discriminate|]. inversion Heq; subst c'.
      destruct H as [_ [_ [_ [_ [_ [_ Hs]]]]]]. congruence.
  - split; [discriminate | intros [[Heq _]|[c [Heq _]]]; discriminate].
Qed.

Lemma validate_sound t cbk cbca host now p k :
  validate_host_key (mkEnv (Some t) cbk cbca host) now p = Some k ->
  (p = PKey k /\ plain_ok t cbk k) \/
  (exists c, p = PCert c /\ k = c_key c /\ cert_ok t cbca host now c).
Proof. apply validate_host_key_iff. Qed.

Lemma validate_complete t cbk cbca host now p k :
  (p = PKey k /\ plain_ok t cbk k) \/
  (exists c, p = PCert c /\ k = c_key c /\ cert_ok t cbca host now c) ->
  validate_host_key (mkEnv (Some t) cbk cbca host) now p = Some k.
Proof. apply validate_host_key_iff. Qed.

(* the key that is returned is the presented key (or the certificate's subject key): the signature
   is never checked against some other key of the trust sets *)
Lemma validate_returns_presented e now p k :
  validate_host_key e now p = Some k ->
  p = PKey k \/ exists c, p = PCert c /\ k = c_key c.
Proof.
  destruct p as [k0|c|]; cbn [validate_host_key].
  - unfold validate_plain. destruct (e_trust e) as [t|].
    + destruct (kmem k0 (t_revoked t)); [discriminate|].
      destruct (negb (kmem k0 (t_keys t)) && negb (e_cb_key e)); [discriminate|].
      intros H; inversion H; auto.
    + intros H; inversion H; auto.
  - destruct (cert_decodes c); [|discriminate]. unfold validate_cert.
    destruct (e_trust e) as [t|].
    + destruct (kmem (c_ca c) (t_revoked t)); [discriminate|].
      destruct (kmem (c_key c) (t_revoked t)); [discriminate|].
      destruct (negb (kmem (c_ca c) (t_cas t)) && negb (e_cb_ca e)); [discriminate|].
      destruct (cert_valid (e_host e) now c); [|discriminate].
      intros H; inversion H. right. exists c. auto.
    + intros H; inversion H. right. exists c. auto.
  - discriminate.
Qed.

(* before 58fab7a: a certificate whose own key is revoked was accepted *)
Lemma validate_old_accepts_revoked_subject :
  exists t host now c k,
    validate_host_key_old (mkEnv (Some t) false false host) now (PCert c) = Some k /\
    In k (t_revoked t) /\
    validate_host_key (mkEnv (Some t) false false host) now (PCert c) = None.
Proof.
  exists (mkTrust [] [7] [3]), [104], 100, (mkCert 3 7 CERT_TYPE_HOST 50 200 [[104]] true), 3.
  split; [vm_compute; reflexivity|]. split; [left; reflexivity | vm_compute; reflexivity].
Qed.

(* ---------------------------------------------------------------------------------------------- *)
(* signatures *)

Lemma verify_spec k h s : verify k h s = true <-> s_signer s = k /\ s_hash s = h.
Proof. unfold verify. rewrite andb_true_iff, !Z.eqb_eq. reflexivity. Qed.

(* ---------------------------------------------------------------------------------------------- *)
(* the transport: what send_packet and friends leave untouched *)

Lemma send_packet_verified s t : verified (send_packet s t) = verified s.
Proof. unfold send_packet. destruct (must_defer s t); reflexivity. Qed.

Lemma send_packet_kexc s t : kex_complete (send_packet s t) = kex_complete s.
Proof. unfold send_packet. destruct (must_defer s t); reflexivity. Qed.

Lemma send_packet_out s t :
  out (send_packet s t) = out s \/ (out (send_packet s t) = out s ++ [t] /\ must_defer s t = false).
Proof. unfold send_packet. destruct (must_defer s t) eqn:E; cbn [out]; auto. Qed.

Lemma fold_send_verified l s : verified (fold_left send_packet l s) = verified s.
Proof.
  revert s; induction l as [|t l IH]; intros s; cbn [fold_left]; [reflexivity|].
  rewrite IH. apply send_packet_verified.
Qed.

Lemma flush_verified s : verified (flush_deferred s) = verified s.
Proof. unfold flush_deferred. rewrite fold_send_verified. reflexivity. Qed.

Lemma send_newkeys_verified s k : verified (send_newkeys s k) = Some k.
Proof.
  unfold send_newkeys. rewrite flush_verified.
  repeat match goal with
         | |- context [if ?b then _ else _] => destruct b
         end; cbn [verified]; rewrite ?send_packet_verified; cbn [verified];
    rewrite ?send_packet_verified; cbn [verified]; rewrite ?send_packet_verified; reflexivity.
Qed.

(* a gated message number that send_packet lets through needs _kex_complete, except NEWKEYS *)
Lemma gated_not_deferred s t :
  gated t = true -> must_defer s t = false -> t = MSG_NEWKEYS \/ kex_complete s = true.
Proof.
  unfold gated, must_defer, MSG_NEWKEYS, MSG_SERVICE_REQUEST, MSG_USERAUTH_REQUEST, MSG_DEBUG,
    MSG_SERVICE_ACCEPT, MSG_KEX_LAST, MSG_USERAUTH_BANNER, MSG_USERAUTH_LAST.
  intros Hg Hd. destruct (kex_complete s); [right; reflexivity | left].
  cbn [negb] in Hd. rewrite !andb_true_r in Hd.
  apply orb_false_iff in Hd. destruct Hd as [Hd _]. apply orb_false_iff in Hd. destruct Hd as [Hd _].
  lia.
Qed.

(* ---------------------------------------------------------------------------------------------- *)
(* the invariant: nothing gated on the wire, and no completed key exchange, without a verified key *)

Definition Inv (s : cst) : Prop :=
  (kex_complete s = true -> verified s <> None) /\
  (forall t, In t (out s) -> gated t = true -> verified s <> None).

Lemma inv_of_verified s : verified s <> None -> Inv s.
Proof. intros H. split; intros; exact H. Qed.

Lemma inv_transfer s s' :
  (kex_complete s' = true -> kex_complete s = true) -> out s' = out s -> verified s' = verified s ->
  Inv s -> Inv s'.
Proof.
  intros Hk Ho Hv [I1 I2]. split.
  - intros H. rewrite Hv. apply I1. apply Hk. exact H.
  - intros t Hin Hg. rewrite Hv. rewrite Ho in Hin. apply (I2 t Hin Hg).
Qed.

Lemma inv_send_packet s t : t <> MSG_NEWKEYS -> Inv s -> Inv (send_packet s t).
Proof.
  intros Hne [I1 I2]. split.
  - rewrite send_packet_kexc, send_packet_verified. exact I1.
  - intros u Hin Hg. rewrite send_packet_verified.
    destruct (send_packet_out s t) as [Ho|[Ho Hd]]; rewrite Ho in Hin.
    + apply (I2 u Hin Hg).
    + apply in_app_or in Hin. destruct Hin as [Hin|[<-|[]]]; [apply (I2 u Hin Hg)|].
      destruct (gated_not_deferred s t Hg Hd) as [H|H]; [contradiction | apply I1; exact H].
Qed.

Lemma inv_init : Inv init.
Proof.
  split; [discriminate|]. intros t [<-|[]] Hg. vm_compute in Hg. discriminate.
Qed.

Lemma kex_owned_newkeys t : kex_owned t = false -> t <> MSG_NEWKEYS.
Proof.
  unfold kex_owned. intros H ->. rewrite Z.eqb_refl in H. rewrite orb_true_r in H. discriminate.
Qed.

Lemma inv_step e s x : Inv s -> Inv (step e s x).
Proof.
  intros HI. unfold step. destruct (closed s); [exact HI|].
  assert (Hcl : Inv (set_closed s)) by (apply (inv_transfer s); auto).
  destruct x as [st ex common|p sg h now| |ua|t|t].
  - (* EKexInit *)
    destruct (kex s || next_recv_enc s); [exact Hcl|].
    match goal with |- context [if ?b then set_closed s else _] => destruct b end; [exact Hcl|].
    match goal with
    | |- context [if kexinit_sent s then ?a else send_kexinit ?a] =>
        assert (H1 : Inv a) by (apply (inv_transfer s); auto);
        assert (H2 : Inv (if kexinit_sent s then a else send_kexinit a))
    end.
    { destruct (kexinit_sent s); [exact H1|]. unfold send_kexinit.
      apply inv_send_packet; [discriminate|]. destruct H1 as [_ H1]. split; [discriminate | exact H1]. }
    match goal with |- Inv (if negb common then set_closed ?b else _) => set (s2 := b) in * end.
    destruct (negb common).
    + apply (inv_transfer s2); auto.
    + match goal with |- Inv (received ?a) => apply (inv_transfer a); auto end.
      apply inv_send_packet; [discriminate|]. apply (inv_transfer s2); auto.
  - (* EKexReply *)
    destruct (negb (kex s)); [exact Hcl|].
    destruct (validate_host_key e now p) as [k|]; [|exact Hcl].
    destruct (verify k h sg); [|exact Hcl].
    apply inv_of_verified. cbn [received verified]. rewrite send_newkeys_verified. discriminate.
  - (* ENewKeys *)
    destruct (next_recv_enc s); [|exact Hcl].
    apply (inv_transfer s); auto.
  - (* EServiceAccept *)
    destruct (negb (recv_enc s)); [exact Hcl|].
    destruct (negb (ua && next_service s)); [exact Hcl|].
    match goal with |- Inv (received ?a) => apply (inv_transfer a); auto end.
    apply inv_send_packet; [discriminate|]. apply (inv_transfer s); auto.
  - (* EOther *)
    assert (Hrc : Inv (received s)) by (apply (inv_transfer s); auto).
    repeat match goal with
           | |- Inv (if ?b then _ else _) => destruct b
           end; try exact Hcl; try exact Hrc.
    match goal with |- Inv (received ?a) => apply (inv_transfer a); auto end.
    apply inv_send_packet; [discriminate | exact HI].
  - (* ELocalSend *)
    destruct (kex_owned t) eqn:Ho; [exact HI|].
    apply inv_send_packet; [apply kex_owned_newkeys; exact Ho | exact HI].
Qed.

Lemma run_snoc e evs x : run e (evs ++ [x]) = step e (run e evs) x.
Proof. unfold run. rewrite fold_left_app. reflexivity. Qed.

Lemma inv_run e evs : Inv (run e evs).
Proof.
  induction evs as [|x evs IH] using rev_ind; [exact inv_init|].
  rewrite run_snoc. apply inv_step. exact IH.
Qed.

(* the ghost field changes only in a step that is a good reply *)
Lemma step_verified e s x :
  verified (step e s x) = verified s \/ good_reply e x = true.
Proof.
  unfold step. destruct (closed s); [left; reflexivity|].
  destruct x as [st ex common|p sg h now| |ua|t|t]; cbn [good_reply].
  - left.
    repeat match goal with
           | |- context [if ?b then _ else _] => destruct b
           end; cbn [set_closed received verified]; unfold send_kexinit;
      rewrite ?send_packet_verified; cbn [verified]; rewrite ?send_packet_verified; reflexivity.
  - destruct (negb (kex s)); [left; reflexivity|].
    destruct (validate_host_key e now p) as [k|]; [|left; reflexivity].
    destruct (verify k h sg); [right; reflexivity | left; reflexivity].
  - left. destruct (next_recv_enc s); reflexivity.
  - left.
    repeat match goal with
           | |- context [if ?b then _ else _] => destruct b
           end; cbn [set_closed received verified]; rewrite ?send_packet_verified; reflexivity.
  - left.
    repeat match goal with
           | |- context [if ?b then _ else _] => destruct b
           end; cbn [set_closed received verified]; rewrite ?send_packet_verified; reflexivity.
  - left. destruct (kex_owned t); [reflexivity | apply send_packet_verified].
Qed.

Lemma verified_has_good_reply e evs :
  verified (run e evs) <> None -> exists x, In x evs /\ good_reply e x = true.
Proof.
  induction evs as [|x evs IH] using rev_ind.
  - intros H. exfalso. apply H. reflexivity.
  - rewrite run_snoc. intros H.
    destruct (step_verified e (run e evs) x) as [Heq|Hg].
    + rewrite Heq in H. destruct (IH H) as [y [Hin Hy]]. exists y. split; [|exact Hy].
      apply in_or_app. left. exact Hin.
    + exists x. split; [apply in_or_app; right; left; reflexivity | exact Hg].
Qed.

(* any gated message on the wire implies a good reply among the events *)
Lemma gated_needs_good_reply e evs t :
  In t (out (run e evs)) -> gated t = true -> exists x, In x evs /\ good_reply e x = true.
Proof.
  intros Hin Hg. apply verified_has_good_reply.
  destruct (inv_run e evs) as [_ I2]. apply (I2 t Hin Hg).
Qed.

(* split a list at the first element satisfying a boolean predicate *)
Lemma first_split {A} (f : A -> bool) l :
  (exists x, In x l /\ f x = true) ->
  exists pre x post, l = pre ++ x :: post /\ f x = true /\ forall y, In y pre -> f y = false.
Proof.
  induction l as [|a l IH]; intros [x [Hin Hx]]; [destruct Hin|].
  destruct (f a) eqn:Ha.
  - exists [], a, l. repeat split; auto. intros y [].
  - destruct Hin as [->|Hin]; [congruence|].
    destruct IH as [pre [y [post [-> [Hy Hpre]]]]]; [exists x; auto|].
    exists (a :: pre), y, post. repeat split; auto.
    intros z [<-|Hz]; [exact Ha | apply Hpre; exact Hz].
Qed.

(* full ordering statement: the run splits at a good reply before which nothing gated was sent *)
Lemma no_creds_before e evs t :
  In t (out (run e evs)) -> gated t = true ->
  exists pre x post,
    evs = pre ++ x :: post /\ good_reply e x = true /\
    (forall u, In u (out (run e pre)) -> gated u = false).
Proof.
  intros Hin Hg.
  destruct (first_split (good_reply e) evs (gated_needs_good_reply e evs t Hin Hg))
    as [pre [x [post [-> [Hx Hpre]]]]].
  exists pre, x, post. repeat split; auto.
  intros u Hu. destruct (gated u) eqn:Hgu; [|reflexivity].
  destruct (gated_needs_good_reply e pre u Hu Hgu) as [y [Hy Hgy]].
  rewrite (Hpre y Hy) in Hgy. discriminate.
Qed.

(* ---------------------------------------------------------------------------------------------- *)
(* a lying server *)

(* one reply whose signature was not made by the validated key, or not over the client's hash,
   closes the connection and puts nothing on the wire *)
Lemma lying_reply_closes e s p sg h now :
  closed s = false ->
  (forall k, validate_host_key e now p = Some k -> s_signer sg <> k \/ s_hash sg <> h) ->
  closed (step e s (EKexReply p sg h now)) = true /\
  out (step e s (EKexReply p sg h now)) = out s.
Proof.
  intros Hc Hl. unfold step. rewrite Hc.
  destruct (negb (kex s)); [split; reflexivity|].
  destruct (validate_host_key e now p) as [k|] eqn:Hv; [|split; reflexivity].
  destruct (verify k h sg) eqn:Hver; [|split; reflexivity].
  apply verify_spec in Hver. destruct Hver as [H1 H2].
  destruct (Hl k eq_refl) as [H|H]; contradiction.
Qed.

Definition lying (e : env) (x : ev) : Prop :=
  match x with
  | EKexReply p sg h now =>
      forall k, validate_host_key e now p = Some k -> s_signer sg <> k \/ s_hash sg <> h
  | _ => True
  end.

Lemma lying_not_good e x : lying e x -> good_reply e x = false.
Proof.
  destruct x as [st ex common|p sg h now| |ua|t|t]; cbn [lying good_reply]; try reflexivity.
  intros Hl. destruct (validate_host_key e now p) as [k|]; [|reflexivity].
  destruct (verify k h sg) eqn:Hv; [|reflexivity].
  apply verify_spec in Hv. destruct Hv as [H1 H2]. destruct (Hl k eq_refl); contradiction.
Qed.

(* whatever else happens, if every reply of the run is a lie nothing gated is ever sent *)
Lemma lying_server_gets_nothing e evs :
  Forall (lying e) evs -> forall t, In t (out (run e evs)) -> gated t = false.
Proof.
  intros Hall t Hin. destruct (gated t) eqn:Hg; [|reflexivity].
  destruct (gated_needs_good_reply e evs t Hin Hg) as [x [Hx Hgx]].
  rewrite Forall_forall in Hall. rewrite (lying_not_good e x (Hall x Hx)) in Hgx. discriminate.
Qed.

(* the same when the trust configuration rejects everything the server presents *)
Lemma rejected_server_gets_nothing e evs :
  (forall p sg h now, In (EKexReply p sg h now) evs -> validate_host_key e now p = None) ->
  forall t, In t (out (run e evs)) -> gated t = false.
Proof.
  intros Hrej. apply lying_server_gets_nothing. apply Forall_forall.
  intros x Hx. destruct x as [st ex common|p sg h now| |ua|t|t]; cbn [lying]; auto.
  intros k Hk. rewrite (Hrej p sg h now Hx) in Hk. discriminate.
Qed.

(* non-vacuity: an honest accepted server does get the service request and the auth request *)
Definition demo_env : env := mkEnv (Some (mkTrust [11] [] [])) false false [104].
Definition demo_run : list ev :=
  [EKexInit true false true; EKexReply (PKey 11) (mkSig 11 99) 99 0; ENewKeys; EServiceAccept true].

Lemma demo_run_out :
  out (run demo_env demo_run) =
  [MSG_KEXINIT; MSG_KEX_INIT; MSG_NEWKEYS; MSG_SERVICE_REQUEST; MSG_USERAUTH_REQUEST].
Proof. vm_compute. reflexivity. Qed.

(* ---------------------------------------------------------------------------------------------- *)
(* the property in one statement: ordering + decision + signature *)

Lemma good_reply_inv e x :
  good_reply e x = true ->
  exists p sg h now k, x = EKexReply p sg h now /\ validate_host_key e now p = Some k /\
                       s_signer sg = k /\ s_hash sg = h.
Proof.
  destruct x as [st ex common|p sg h now| |ua|t|t]; cbn [good_reply]; try discriminate.
  destruct (validate_host_key e now p) as [k|] eqn:Hv; [|discriminate].
  intros Hver. apply verify_spec in Hver. destruct Hver as [H1 H2].
  exists p, sg, h, now, k. auto.
Qed.

Lemma end_to_end t cbk cbca host evs m :
  In m (out (run (mkEnv (Some t) cbk cbca host) evs)) -> gated m = true ->
  exists pre p sg h now post k,
    evs = pre ++ EKexReply p sg h now :: post /\
    ((p = PKey k /\ plain_ok t cbk k) \/
     (exists c, p = PCert c /\ k = c_key c /\ cert_ok t cbca host now c)) /\
    s_signer sg = k /\ s_hash sg = h /\
    (forall u, In u (out (run (mkEnv (Some t) cbk cbca host) pre)) -> gated u = false).
Proof.
  intros Hin Hg.
  destruct (no_creds_before _ evs m Hin Hg) as [pre [x [post [Hevs [Hgood Hpre]]]]].
  destruct (good_reply_inv _ x Hgood) as [p [sg [h [now [k [-> [Hv [Hs Hh]]]]]]]].
  exists pre, p, sg, h, now, post, k. repeat split; auto.
  apply validate_sound. exact Hv.
Qed.
