(* Proofs about Model/Hostile.v: safety of the packet getters, progress / termination / linear cost of
   every modelled loop, and the witnesses for the places where the code violates the statement. *)
From AV Require Import Base.Prelude Model.Hostile.
From AV Require Model.Packet Model.Channel Proofs.ChannelProofs.

Definition byte (b : Z) : Prop := 0 <= b < 256.
Definition bytes_ok (l : bytes) : Prop := Forall byte l.

(* ---------------------------------------------------------------------------------------- *)
(* generic list facts *)

Lemma blen_nonneg l : 0 <= blen l.
Proof. unfold blen. lia. Qed.

Lemma blen_app a b : blen (a ++ b) = blen a + blen b.
Proof. unfold blen. rewrite app_length. lia. Qed.

Lemma blen_firstn n l : 0 <= n <= blen l -> blen (firstn (Z.to_nat n) l) = n.
Proof. unfold blen. intros H. rewrite firstn_length_le; lia. Qed.

Lemma blen_skipn n l : 0 <= n <= blen l -> blen (skipn (Z.to_nat n) l) = blen l - n.
Proof. unfold blen. intros H. rewrite skipn_length. lia. Qed.

Lemma blen_slice d i n : 0 <= i -> 0 <= n -> i + n <= blen d -> blen (slice d i n) = n.
Proof.
  intros Hi Hn H. unfold slice. rewrite blen_firstn; [reflexivity|].
  rewrite blen_skipn; lia.
Qed.

Lemma Forall_firstn {A} (P : A -> Prop) n l : Forall P l -> Forall P (firstn n l).
Proof.
  revert l; induction n as [|n IH]; intros [|x l] H; simpl; try constructor.
  - inversion H; assumption.
  - inversion H; subst. apply IH; assumption.
Qed.

Lemma Forall_skipn {A} (P : A -> Prop) n l : Forall P l -> Forall P (skipn n l).
Proof.
  revert l; induction n as [|n IH]; intros [|x l] H; simpl; try assumption.
  inversion H; subst. apply IH; assumption.
Qed.

Lemma bytes_ok_slice d i n : bytes_ok d -> bytes_ok (slice d i n).
Proof. intros H. unfold slice. apply Forall_firstn, Forall_skipn, H. Qed.

Lemma be_acc_range l : forall acc, bytes_ok l -> 0 <= acc ->
  acc * 256 ^ blen l <= be_acc acc l < (acc + 1) * 256 ^ blen l.
Proof.
  induction l as [|b r IH]; intros acc H Ha; cbn [be_acc].
  - unfold blen; simpl. lia.
  - inversion H as [|? ? Hb Hr]; subst. unfold byte in Hb.
    specialize (IH (acc * 256 + b) Hr ltac:(lia)).
    replace (blen (b :: r)) with (blen r + 1) by (unfold blen; simpl length; lia).
    rewrite Z.pow_add_r by (pose proof (blen_nonneg r); lia).
    assert (0 < 256 ^ blen r) by (apply Z.pow_pos_nonneg; [lia|apply blen_nonneg]).
    nia.
Qed.

Lemma be_val_range l : bytes_ok l -> 0 <= be_val l < 256 ^ blen l.
Proof. intros H. pose proof (be_acc_range l 0 H ltac:(lia)). unfold be_val. lia. Qed.

(* ---------------------------------------------------------------------------------------- *)
(* 1. getters *)

(* what every getter guarantees about the state it leaves: same packet, index moved forward by at least
   [minc] on success and never past the end, in both outcomes *)
Definition post {A} (p : pk) (minc : Z) (r : res A) : Prop :=
  match r with
  | Ok _ p' => pdata p' = pdata p /\ pidx p + minc <= pidx p' <= blen (pdata p)
  | Err p' => pdata p' = pdata p /\ pidx p <= pidx p' <= blen (pdata p)
  end.

Lemma get_bytes_spec size p : wf p -> 0 <= size ->
  match get_bytes size p with
  | Ok v p' => pdata p' = pdata p /\ pidx p' = pidx p + size /\ pidx p' <= blen (pdata p) /\
               v = slice (pdata p) (pidx p) size /\ blen v = size
  | Err p' => p' = p /\ remaining p < size
  end.
Proof.
  intros [H0 H1] Hs. unfold get_bytes, remaining.
  destruct (Z.gtb_spec (pidx p + size) (blen (pdata p))) as [E|E].
  - split; [reflexivity|lia].
  - simpl. repeat split; try lia. apply blen_slice; lia.
Qed.

Lemma get_bytes_post size p : wf p -> 0 <= size -> post p size (get_bytes size p).
Proof.
  intros Hw Hs. pose proof (get_bytes_spec size p Hw Hs) as H. unfold post.
  destruct (get_bytes size p) as [v p'|p'].
  - destruct H as (A & B & C & _). split; [exact A|lia].
  - destruct H as [-> _]. destruct Hw. split; [reflexivity|lia].
Qed.

Lemma post_wf {A} p minc (r : res A) : wf p -> 0 <= minc -> post p minc r ->
  match r with Ok _ p' => wf p' | Err p' => wf p' end.
Proof.
  intros [H0 H1] Hm. unfold post, wf. destruct r as [v p'|p']; intros [E H]; rewrite E; lia.
Qed.

Lemma post_bind {A B} p m1 m2 (r : res A) (f : A -> pk -> res B) :
  0 <= m1 -> post p m1 r -> (forall v p', pdata p' = pdata p -> pidx p + m1 <= pidx p' <= blen (pdata p) ->
                                      post p' m2 (f v p')) ->
  post p (m1 + m2) (bind r f).
Proof.
  intros Hm Hr Hf. destruct r as [v p'|p']; simpl in *.
  - destruct Hr as [E H]. specialize (Hf v p' E H). unfold post in *.
    destruct (f v p') as [w q|q]; rewrite E in Hf; destruct Hf as [E' H']; split; try exact E'; lia.
  - exact Hr.
Qed.

Lemma post_ok {A} p (v : A) : wf p -> post p 0 (Ok v p).
Proof. intros [H0 H1]. simpl. split; [reflexivity|lia]. Qed.

Lemma post_weaken {A} p m m' (r : res A) : m' <= m -> post p m r -> post p m' r.
Proof. intros Hm. unfold post. destruct r; intros [E H]; split; try exact E; lia. Qed.

Lemma get_uint_post n p : wf p -> 0 <= n -> post p n (get_uint n p).
Proof.
  intros Hw Hn. unfold get_uint. replace n with (n + 0) at 1 by lia.
  apply post_bind; [exact Hn|apply get_bytes_post; assumption|].
  intros v p' E H. apply post_ok. unfold wf. rewrite E. destruct Hw. lia.
Qed.

Lemma get_byte_post p : wf p -> post p 1 (get_byte p).
Proof.
  intros Hw. unfold get_byte. replace 1 with (1 + 0) at 1 by lia.
  apply post_bind; [lia|apply get_bytes_post; [assumption|lia]|].
  intros v p' E H. apply post_ok. unfold wf. rewrite E. destruct Hw. lia.
Qed.

Lemma get_boolean_post p : wf p -> post p 1 (get_boolean p).
Proof.
  intros Hw. unfold get_boolean. replace 1 with (1 + 0) at 1 by lia.
  apply post_bind; [lia|apply get_byte_post; assumption|].
  intros v p' E H. apply post_ok. unfold wf. rewrite E. destruct Hw. lia.
Qed.

Lemma get_uint_spec n p : wf p -> 0 <= n ->
  match get_uint n p with
  | Ok v p' => pdata p' = pdata p /\ pidx p' = pidx p + n /\ v = be_val (slice (pdata p) (pidx p) n)
  | Err p' => p' = p /\ remaining p < n
  end.
Proof.
  intros Hw Hn. unfold get_uint. pose proof (get_bytes_spec n p Hw Hn) as H.
  destruct (get_bytes n p) as [v p'|p']; simpl.
  - destruct H as (A & B & _ & D & _). subst v. auto.
  - exact H.
Qed.

Lemma get_uint_range n p v p' : wf p -> 0 <= n -> bytes_ok (pdata p) ->
  get_uint n p = Ok v p' -> 0 <= v < 256 ^ n.
Proof.
  intros Hw Hn Hb H. pose proof (get_uint_spec n p Hw Hn) as S. rewrite H in S.
  destruct S as (_ & E & ->). pose proof (get_bytes_spec n p Hw Hn) as G.
  unfold get_uint in H. destruct (get_bytes n p) as [w q|q]; [|discriminate].
  destruct G as (_ & _ & _ & -> & L).
  pose proof (be_val_range (slice (pdata p) (pidx p) n) (bytes_ok_slice _ _ _ Hb)) as R.
  rewrite L in R. exact R.
Qed.

(* get_string: on success exactly 4 + len(value) bytes are consumed; on failure the index has moved by 0
   (no room for the length) or by 4 (length read, body too short) *)
Lemma get_string_spec p : wf p -> bytes_ok (pdata p) ->
  match get_string p with
  | Ok v p' => pdata p' = pdata p /\ pidx p' = pidx p + 4 + blen v /\ pidx p' <= blen (pdata p) /\
               v = slice (pdata p) (pidx p + 4) (blen v)
  | Err p' => pdata p' = pdata p /\
              ((pidx p' = pidx p /\ remaining p < 4) \/
               (pidx p' = pidx p + 4 /\ 4 <= remaining p /\
                remaining p - 4 < be_val (slice (pdata p) (pidx p) 4)))
  end.
Proof.
  intros Hw Hb. unfold get_string, get_uint32.
  pose proof (get_uint_spec 4 p Hw ltac:(lia)) as S.
  destruct (get_uint 4 p) as [n p1|p1] eqn:E; simpl.
  - destruct S as (A & B & C).
    assert (Hn : 0 <= n < 256 ^ 4) by (eapply get_uint_range; eauto; lia).
    assert (Hw1 : wf p1).
    { pose proof (get_uint_post 4 p Hw ltac:(lia)) as P. rewrite E in P. simpl in P.
      unfold wf. destruct P as [P1 P2]. rewrite P1. destruct Hw. lia. }
    pose proof (get_bytes_spec n p1 Hw1 ltac:(lia)) as G.
    destruct (get_bytes n p1) as [v p2|p2].
    + destruct G as (G1 & G2 & G3 & G4 & G5). rewrite A in *. rewrite B in *. rewrite G5.
      repeat split; try assumption; lia.
    + destruct G as [-> G]. split; [exact A|]. right. split; [exact B|].
      unfold remaining, wf in *. rewrite A, B in *. rewrite <- C. lia.
  - destruct S as [-> S]. split; [reflexivity|]. left. split; [reflexivity|exact S].
Qed.

Lemma get_string_post p : wf p -> bytes_ok (pdata p) -> post p 4 (get_string p).
Proof.
  intros Hw Hb. pose proof (get_string_spec p Hw Hb) as S. unfold post.
  destruct (get_string p) as [v p'|p'].
  - destruct S as (A & B & C & _). split; [exact A|]. pose proof (blen_nonneg v). lia.
  - destruct S as (A & [[B C]|(B & C & D)]); (split; [exact A|]); destruct Hw; unfold remaining in *; lia.
Qed.

Lemma get_string_ok_wf p v p' : wf p -> bytes_ok (pdata p) -> get_string p = Ok v p' ->
  wf p' /\ bytes_ok (pdata p') /\ remaining p' <= remaining p - 4.
Proof.
  intros Hw Hb E. pose proof (get_string_spec p Hw Hb) as S. rewrite E in S.
  destruct S as (A & B & C & _). unfold wf, remaining in *. rewrite A.
  pose proof (blen_nonneg v). repeat split; try assumption; lia.
Qed.

(* ---------------------------------------------------------------------------------------- *)
(* 2. loops over a packet *)

Lemma more_true p : wf p -> more p = true -> 1 <= remaining p.
Proof. unfold more, wf, remaining. intros H E. apply negb_true_iff, Z.eqb_neq in E. lia. Qed.

(* `while packet: get_string()` : one iteration per 4 bytes left at most, plus the failing one *)
Lemma strings_loop_bound fuel : forall p acc it, wf p -> bytes_ok (pdata p) ->
  remaining p < 4 * Z.of_nat fuel ->
  exists r it', strings_loop fuel p acc it = Some (r, it') /\ it <= it' <= it + remaining p / 4 + 1.
Proof.
  induction fuel as [|f IH]; intros p acc it Hw Hb Hf; cbn [strings_loop].
  - destruct (more p) eqn:M; [pose proof (more_true p Hw M); lia|].
    exists (Ok acc p), it. split; [reflexivity|]. unfold wf, remaining in *. lia.
  - destruct (more p) eqn:M.
    + pose proof (more_true p Hw M) as H1.
      destruct (get_string p) as [v p'|p'] eqn:E.
      * destruct (get_string_ok_wf p v p' Hw Hb E) as (W & B & R).
        assert (0 <= remaining p') by (unfold wf, remaining in *; lia).
        destruct (IH p' (acc ++ [v]) (it + 1) W B ltac:(lia)) as (r & it' & Hr & Hi).
        exists r, it'. split; [exact Hr|]. lia.
      * exists (Err p'), (it + 1). split; [reflexivity|]. lia.
    + exists (Ok acc p), it. split; [reflexivity|]. unfold wf, remaining in *. lia.
Qed.

(* `for _ in range(n): get_string(); get_string()` : the iterations executed are bounded by the bytes that
   are there, whatever the count n claims (and by n) *)
Lemma pairs_loop_bound fuel : forall n p acc it, wf p -> bytes_ok (pdata p) ->
  remaining p < 8 * Z.of_nat fuel ->
  exists r it', pairs_loop fuel n p acc it = Some (r, it') /\
                it <= it' <= it + Z.min (Z.max n 0) (remaining p / 8 + 1).
Proof.
  induction fuel as [|f IH]; intros n p acc it Hw Hb Hf; cbn [pairs_loop].
  - unfold wf, remaining in *. lia.
  - assert (H0 : 0 <= remaining p) by (unfold wf, remaining in *; lia).
    destruct (Z.leb_spec n 0) as [Hn|Hn].
    + exists (Ok acc p), it. split; [reflexivity|]. lia.
    + destruct (get_string p) as [a p1|p1] eqn:E1.
      * destruct (get_string_ok_wf p a p1 Hw Hb E1) as (W1 & B1 & R1).
        destruct (get_string p1) as [b p2|p2] eqn:E2.
        -- destruct (get_string_ok_wf p1 b p2 W1 B1 E2) as (W2 & B2 & R2).
           assert (0 <= remaining p2) by (unfold wf, remaining in *; lia).
           destruct (IH (n - 1) p2 (acc ++ [(a, b)]) (it + 1) W2 B2 ltac:(lia)) as (r & it' & Hr & Hi).
           exists r, it'. split; [exact Hr|]. lia.
        -- exists (Err p2), (it + 1). split; [reflexivity|]. lia.
      * exists (Err p1), (it + 1). split; [reflexivity|]. lia.
Qed.

Lemma counted_pairs_bound p : wf p -> bytes_ok (pdata p) ->
  exists r it, counted_pairs p = Some (r, it) /\ 0 <= it <= remaining p / 8 + 1.
Proof.
  intros Hw Hb. unfold counted_pairs, get_uint32.
  assert (H0 : 0 <= remaining p) by (unfold wf, remaining in *; lia).
  destruct (get_uint 4 p) as [n p1|p1] eqn:E.
  - pose proof (get_uint_spec 4 p Hw ltac:(lia)) as S. rewrite E in S. destruct S as (A & B & _).
    pose proof (get_uint_post 4 p Hw ltac:(lia)) as P. rewrite E in P. simpl in P. destruct P as [_ P].
    assert (W1 : wf p1) by (unfold wf in *; rewrite A; lia).
    assert (B1 : bytes_ok (pdata p1)) by (rewrite A; exact Hb).
    assert (R1 : remaining p1 = remaining p - 4) by (unfold remaining; rewrite A, B; lia).
    assert (0 <= remaining p1) by (unfold wf, remaining in *; lia).
    destruct (pairs_loop_bound (S (Z.to_nat (remaining p1))) n p1 [] 0 W1 B1 ltac:(lia))
      as (r & it & Hr & Hi).
    rewrite Hr. destruct r as [acc p2|p2].
    + destruct (more p2); eexists _, it; (split; [reflexivity|]); lia.
    + exists (Err p2), it. split; [reflexivity|]. lia.
  - exists (Err p1), 0. split; [reflexivity|]. lia.
Qed.

(* ---------------------------------------------------------------------------------------- *)
(* 3. SOCKS *)

(* _bytes_needed always fits the handler that is installed *)
Definition need_ok (s : socks) : Prop :=
  match sh s with
  | HVersion => need s = 2 | H4Addr => need s = 6 | H4User | H4Host => need s = -1
  | H5Auth | H5Host => 0 <= need s | H5Cmd => need s = 4 | H5Addr => need s = 4 \/ need s = 16
  | H5HostLen => need s = 1 | H5Port => need s = 2 | HNone => True
  end.

Definition sinv (s : socks) : Prop := need_ok s /\ bytes_ok (sbuf s).

Definition rank (s : socks) : Z :=
  (if sopen s then 1 else 0) + (if shandler_eqb (sh s) H5Host then 1 else 0).

Lemma s_mu_rank s : s_mu s = 2 * blen (sbuf s) + rank s.
Proof. unfold s_mu, rank. lia. Qed.

Lemma nth0_byte l i : bytes_ok l -> 0 <= nth0 l i < 256.
Proof.
  unfold nth0. revert i; induction l as [|b r IH]; intros [|i] H; simpl; try lia.
  - inversion H; subst. assumption.
  - inversion H; subst. apply IH; assumption.
Qed.

Ltac split_ifs :=
  repeat match goal with
         | H : context [if ?c then _ else _] |- _ => destruct c eqn:?
         end.

Lemma handle_facts a r s data s' :
  need_ok s -> bytes_ok data -> (a = true \/ sopen s = true) -> sh s <> HNone ->
  s_handle a r s data = HOk s' ->
  need_ok s' /\ sbuf s' = sbuf s /\ rank s' <= rank s + 1 /\
  (data = [] -> need s = 0 -> rank s' < rank s).
Proof.
  intros Hn Hd Ha Hnn H.
  pose proof (nth0_byte data 0 Hd) as B0. pose proof (nth0_byte data 1 Hd) as B1.
  unfold need_ok, rank in *. unfold s_handle, s_then, s_write, s_connect in H.
  destruct (sh s) eqn:Hsh;
    split_ifs; try discriminate; inversion H; subst; clear H;
    cbn [sh need sbuf sopen s_close s_set s_host s_port s_atype shandler_eqb] in *;
    try rewrite Hsh in *; cbn [shandler_eqb] in *;
    repeat match goal with |- _ /\ _ => split end; try reflexivity; try lia; auto;
    try (intros; subst; discriminate);
    try (destruct r; cbn; rewrite ?Hsh; cbn; lia);
    try (destruct (sopen s); lia).
  all: try (destruct r; destruct (sopen s); cbn; lia).
  all: try (intros E1 E2; subst; destruct Ha as [Ha|Ha]; subst; cbn in *; try discriminate;
            try rewrite Ha in *; cbn in *; try discriminate; try lia).
  all: try (destruct r; destruct (sopen s); cbn in *; try discriminate; lia).
  all: try congruence.
Qed.

Lemma find0_spec l : forall i j, find0 l i = Some j -> i <= j < i + blen l.
Proof.
  induction l as [|b r IH]; intros i j H; simpl in H; [discriminate|].
  replace (blen (b :: r)) with (blen r + 1) by (unfold blen; simpl length; lia).
  pose proof (blen_nonneg r).
  destruct (b =? 0); [inversion H; lia|]. apply IH in H. lia.
Qed.

(* every iteration that stays in the loop strictly lowers the measure (given that asserts are active, or the
   transport is still open) *)
Lemma iter_progress a r s s' :
  sinv s -> (a = true \/ sopen s = true) -> sh s <> HNone ->
  s_iter a r s = ICont s' -> sinv s' /\ s_mu s' < s_mu s.
Proof.
  intros [Hn Hb] Ha Hnn H. unfold s_iter in H. rewrite !s_mu_rank.
  destruct (need s <? 0) eqn:N.
  - destruct (find0 (sbuf s) 0) as [idx|] eqn:F.
    + apply find0_spec in F.
      set (s1 := s_buf s (skipn (Z.to_nat (idx + 1)) (sbuf s))) in *.
      destruct (s_handle a r s1 (firstn (Z.to_nat idx) (sbuf s))) as [s2|] eqn:E; [|discriminate].
      inversion H; subst s2; clear H.
      destruct (handle_facts a r s1 _ s' Hn (Forall_firstn _ _ _ Hb) Ha Hnn E) as (N' & B' & R' & _).
      split; [split; [exact N'|rewrite B'; apply Forall_skipn, Hb]|].
      rewrite B'. change (sbuf s1) with (skipn (Z.to_nat (idx + 1)) (sbuf s)).
      change (rank s1) with (rank s) in R'. rewrite blen_skipn by lia. lia.
    + destruct (blen (sbuf s) >? 255); discriminate.
  - destruct (blen (sbuf s) >=? need s) eqn:G; [|discriminate].
    set (s1 := s_buf s (skipn (Z.to_nat (need s)) (sbuf s))) in *.
    destruct (s_handle a r s1 (firstn (Z.to_nat (need s)) (sbuf s))) as [s2|] eqn:E; [|discriminate].
    inversion H; subst s2; clear H.
    destruct (handle_facts a r s1 _ s' Hn (Forall_firstn _ _ _ Hb) Ha Hnn E) as (N' & B' & R' & Z').
    split; [split; [exact N'|rewrite B'; apply Forall_skipn, Hb]|].
    rewrite B'. change (sbuf s1) with (skipn (Z.to_nat (need s)) (sbuf s)).
    change (rank s1) with (rank s) in *. change (need s1) with (need s) in Z'.
    rewrite blen_skipn by lia.
    destruct (Z.eq_dec (need s) 0) as [E0|E0].
    + rewrite E0 in *. specialize (Z' eq_refl eq_refl). lia.
    + lia.
Qed.

Lemma s_mu_nonneg s : 0 <= s_mu s.
Proof. unfold s_mu. pose proof (blen_nonneg (sbuf s)). destruct (sopen s), (shandler_eqb (sh s) H5Host); lia. Qed.

(* socks_progress (asserts active): the loop of data_received leaves within s_mu s + 1 iterations *)
Lemma s_loop_terminates r fuel : forall s it, sinv s -> s_mu s < Z.of_nat fuel ->
  match s_loop true r fuel s it with
  | LDone _ it' | LRaised it' => it <= it' <= it + s_mu s + 1
  | LFuel => False
  end.
Proof.
  induction fuel as [|f IH]; intros s it Hi Hf.
  - pose proof (s_mu_nonneg s). lia.
  - pose proof (s_mu_nonneg s) as M0. cbn [s_loop].
    destruct (sh s) eqn:Hsh; try lia.
    all: destruct (s_iter true r s) as [s'|s'|] eqn:E; try lia.
    all: assert (Hnn : sh s <> HNone) by (rewrite Hsh; discriminate).
    all: destruct (iter_progress true r s s' Hi (or_introl eq_refl) Hnn E) as [Hi' Hm].
    all: specialize (IH s' (it + 1) Hi' ltac:(lia)).
    all: destruct (s_loop true r f s' (it + 1)); lia.
Qed.

Lemma s_feed_linear r s chunk : sinv s -> bytes_ok chunk ->
  match s_feed true r s chunk with
  | LDone _ it | LRaised it => 0 <= it <= 2 * (blen (sbuf s) + blen chunk) + 3
  | LFuel => False
  end.
Proof.
  intros [Hn Hb] Hc. unfold s_feed.
  set (s1 := s_buf s (sbuf s ++ chunk)).
  assert (Hi : sinv s1) by (split; [exact Hn|apply Forall_app; split; assumption]).
  pose proof (s_mu_nonneg s1) as M0.
  pose proof (s_loop_terminates r (S (Z.to_nat (s_mu s1))) s1 0 Hi ltac:(lia)) as T.
  assert (M : s_mu s1 <= 2 * (blen (sbuf s) + blen chunk) + 2).
  { unfold s_mu, s1. cbn [sbuf s_buf sopen sh]. rewrite blen_app.
    destruct (sopen s), (shandler_eqb (sh s) H5Host); lia. }
  destruct (s_loop true r _ s1 0); lia.
Qed.

(* the escape: the two-byte greeting 05 00 makes an AssertionError leave data_received *)
Lemma socks_escape : s_run true false socks_init [[5; 0]] 0 = LRaised 3.
Proof. vm_compute. reflexivity. Qed.

(* python -O: the state reached by 05 00 is a fixed point of the loop body: it spins for ever *)
Definition spin_state : socks := mkSocks H5Auth 0 [] false NoHost 0 0 [] None.

Lemma socks_spin_iter : s_iter false false spin_state = ICont spin_state.
Proof. vm_compute. reflexivity. Qed.

Lemma socks_spin fuel : forall it, s_loop false false fuel spin_state it = LFuel.
Proof.
  induction fuel as [|f IH]; intros it; cbn [s_loop spin_state sh]; [reflexivity|].
  change (mkSocks H5Auth 0 [] false NoHost 0 0 [] None) with spin_state.
  rewrite socks_spin_iter. apply IH.
Qed.

Lemma socks_spin_reached :
  s_iter false false (s_buf socks_init [5; 0]) = ICont (s_set (s_buf socks_init []) H5Auth 0) /\
  s_iter false false (s_set (s_buf socks_init []) H5Auth 0) = ICont spin_state.
Proof. split; vm_compute; reflexivity. Qed.

(* the repaired forwarder (close() clears _recv_handler): a handler only ever runs on an open transport *)
Definition rinv (s : socks) : Prop := sh s <> HNone -> sopen s = true.

Lemma handle_repaired a s data s' : sopen s = true -> s_handle a true s data = HOk s' -> rinv s'.
Proof.
  intros Ho H. unfold s_handle, s_then, s_write, s_connect in H. unfold rinv.
  destruct (sh s); rewrite ?Ho in H; cbn in H; split_ifs; try discriminate; inversion H; subst;
    cbn; try congruence; auto.
Qed.

Lemma handle_repaired_noraise a s data : sopen s = true -> s_handle a true s data <> HRaise.
Proof.
  intros Ho. unfold s_handle, s_then, s_write, s_connect.
  destruct (sh s); cbn;
    repeat (rewrite ?Ho; cbn; rewrite ?andb_false_r;
            match goal with |- context [if ?c then _ else _] => destruct c end);
    rewrite ?Ho; cbn; discriminate.
Qed.

Lemma iter_repaired a s : rinv s -> sh s <> HNone ->
  match s_iter a true s with
  | ICont s' | IRet s' => rinv s'
  | IRaise => False
  end.
Proof.
  intros Hr Hnn. pose proof (Hr Hnn) as Ho. unfold s_iter.
  destruct (need s <? 0).
  - destruct (find0 (sbuf s) 0) as [idx|].
    + set (s1 := s_buf s _). set (d := firstn _ _).
      assert (Ho1 : sopen s1 = true) by exact Ho.
      pose proof (handle_repaired_noraise a s1 d Ho1) as NR.
      destruct (s_handle a true s1 d) as [s2|] eqn:E; [|congruence].
      eapply handle_repaired; eauto.
    + destruct (blen (sbuf s) >? 255); [|exact Hr]. unfold rinv. cbn. congruence.
  - destruct (blen (sbuf s) >=? need s); [|exact Hr].
    set (s1 := s_buf s _). set (d := firstn _ _).
    assert (Ho1 : sopen s1 = true) by exact Ho.
    pose proof (handle_repaired_noraise a s1 d Ho1) as NR.
    destruct (s_handle a true s1 d) as [s2|] eqn:E; [|congruence].
    eapply handle_repaired; eauto.
Qed.

Lemma iter_ret_inv a r s s' : sinv s -> s_iter a r s = IRet s' -> sinv s' /\ s_mu s' <= s_mu s.
Proof.
  intros [Hn Hb] E. unfold s_iter in E.
  destruct (need s <? 0).
  - destruct (find0 (sbuf s) 0); [destruct (s_handle _ _ _ _); discriminate|].
    destruct (blen (sbuf s) >? 255); inversion E; subst s'; [|split; [split; assumption|lia]].
    split; [split; [|exact Hb]|].
    + unfold need_ok in *. cbn. destruct r; [exact I|exact Hn].
    + unfold s_mu. cbn. destruct r, (sopen s), (shandler_eqb (sh s) H5Host); cbn; lia.
  - destruct (blen (sbuf s) >=? need s); [destruct (s_handle _ _ _ _); discriminate|].
    inversion E; subst s'. split; [split; assumption|lia].
Qed.

Lemma s_loop_repaired a fuel : forall s it, sinv s -> rinv s -> s_mu s < Z.of_nat fuel ->
  match s_loop a true fuel s it with
  | LDone s' it' => sinv s' /\ rinv s' /\ it <= it' <= it + (s_mu s - s_mu s') + 1
  | LRaised _ | LFuel => False
  end.
Proof.
  induction fuel as [|f IH]; intros s it Hi Hr Hf.
  - pose proof (s_mu_nonneg s). lia.
  - pose proof (s_mu_nonneg s) as M0. cbn [s_loop].
    destruct (sh s) eqn:Hsh; try (split; [exact Hi|split; [exact Hr|lia]]).
    all: assert (Hnn : sh s <> HNone) by (rewrite Hsh; discriminate).
    all: pose proof (iter_repaired a s Hr Hnn) as R.
    all: destruct (s_iter a true s) as [s'|s'|] eqn:E; try contradiction.
    all: try (destruct (iter_ret_inv a true s s' Hi E) as [J1 J2]; split; [exact J1|split; [exact R|lia]]).
    all: destruct (iter_progress a true s s' Hi (or_intror (Hr Hnn)) Hnn E) as [Hi' Hm];
      specialize (IH s' (it + 1) Hi' R ltac:(lia));
      destruct (s_loop a true f s' (it + 1)); try contradiction;
      destruct IH as (I1 & I2 & I3); (split; [exact I1|split; [exact I2|lia]]).
Qed.

Lemma sinv_init : sinv socks_init.
Proof. split; [reflexivity|constructor]. Qed.

Lemma rinv_init : rinv socks_init.
Proof. intros _. reflexivity. Qed.

(* the repaired forwarder never lets an exception out and never spins, with or without asserts, whatever the
   chunks; the total number of loop iterations is linear in the bytes received (amortised over chunks) *)
Lemma s_run_repaired a : forall chunks s tot, sinv s -> rinv s -> Forall bytes_ok chunks ->
  match s_run a true s chunks tot with
  | LDone s' tot' => sinv s' /\ rinv s' /\
                     tot <= tot' <= tot + (s_mu s - s_mu s') + 2 * blen (concat chunks) + Z.of_nat (length chunks)
  | LRaised _ | LFuel => False
  end.
Proof.
  induction chunks as [|c r IH]; intros s tot Hi Hr Hc; cbn [s_run].
  - cbn. split; [exact Hi|split; [exact Hr|unfold blen; simpl; lia]].
  - inversion Hc as [|? ? Hc1 Hcr]; subst.
    pose proof (blen_nonneg c) as Bc. pose proof (blen_nonneg (concat r)) as Br.
    assert (Hcat : blen (concat (c :: r)) = blen c + blen (concat r)) by (cbn [concat]; apply blen_app).
    destruct (negb (sopen s)).
    + split; [exact Hi|split; [exact Hr|]]. rewrite Hcat. cbn [length]. lia.
    + unfold s_feed. set (s1 := s_buf s (sbuf s ++ c)).
      assert (Hi1 : sinv s1) by (destruct Hi; split; [assumption|apply Forall_app; split; assumption]).
      assert (Hr1 : rinv s1) by exact Hr.
      pose proof (s_mu_nonneg s1) as M0.
      pose proof (s_loop_repaired a (S (Z.to_nat (s_mu s1))) s1 0 Hi1 Hr1 ltac:(lia)) as T.
      assert (M : s_mu s1 = s_mu s + 2 * blen c).
      { unfold s_mu, s1. cbn [sbuf s_buf sopen sh]. rewrite blen_app. lia. }
      destruct (s_loop a true _ s1 0) as [s2 it2| |]; try contradiction.
      destruct T as (T1 & T2 & T3).
      specialize (IH s2 (tot + it2) T1 T2 Hcr).
      destruct (s_run a true s2 r (tot + it2)); try contradiction.
      destruct IH as (I1 & I2 & I3). split; [exact I1|split; [exact I2|]].
      rewrite Hcat. cbn [length]. rewrite Nat2Z.inj_succ. lia.
Qed.

(* ---------------------------------------------------------------------------------------- *)
(* 4. banner / version reader *)

Lemma find_lf_spec l : forall i lim j, find_lf l i lim = Some j -> i <= j < lim /\ j < i + blen l.
Proof.
  induction l as [|b r IH]; intros i lim j H; simpl in H; [discriminate|].
  replace (blen (b :: r)) with (blen r + 1) by (unfold blen; simpl length; lia).
  pose proof (blen_nonneg r).
  destruct (Z.leb_spec lim i); [discriminate|].
  destruct (b =? 10); [inversion H; lia|]. apply IH in H. lia.
Qed.

Definition binv (lim : blimits) (s : bstate) : Prop :=
  0 <= blines s <= max_lines lim + 1 /\
  (bclosed s = BOpen -> blines s <= max_lines lim) /\
  0 <= bconsumed s <= (blines s + 1) * max_line lim /\
  (bclosed s = BOpen -> bver s = None -> bconsumed s <= blines s * max_line lim).

Lemma b_step_facts lim cl s b s' :
  0 < max_line lim -> 0 <= max_lines lim ->
  binv lim s -> bclosed s = BOpen -> bver s = None -> b_step lim cl s = (b, s') ->
  binv lim s' /\ blen (bbuf s') <= blen (bbuf s) /\
  (b = true -> blen (bbuf s') < blen (bbuf s) /\ (bver s' = None -> bclosed s' = BOpen)) /\
  (b = false -> bclosed s' = BOpen -> bver s' = None /\ blen (bbuf s') < max_line lim).
Proof.
  intros HL HN (I1 & I2 & I3 & I4) Ho Hv H. specialize (I2 Ho). specialize (I4 Ho Hv).
  unfold b_step in H.
  destruct (find_lf (bbuf s) 0 (max_line lim)) as [idx|] eqn:F.
  - apply find_lf_spec in F.
    assert (Hsk : blen (skipn (Z.to_nat (idx + 1)) (bbuf s)) = blen (bbuf s) - (idx + 1))
      by (apply blen_skipn; lia).
    unfold b_close in H. rewrite Ho in H. cbn [bbuf blines bclosed bver bconsumed] in H.
    unfold binv.
    repeat match type of H with context [if ?c then _ else _] => destruct c eqn:? end;
      inversion H; subst b s'; clear H; cbn [bbuf blines bclosed bver bconsumed];
      rewrite ?Ho, ?Hv, ?Hsk;
      repeat match goal with
             | |- _ /\ _ => split
             | |- (_ = _) -> _ => intro
             end; try discriminate; try congruence; try lia; try nia.
  - destruct (Z.geb_spec (blen (bbuf s)) (max_line lim)); inversion H; subst b s'; clear H;
      unfold binv, b_close; rewrite ?Ho; cbn [bbuf blines bclosed bver bconsumed];
      repeat match goal with
             | |- _ /\ _ => split
             | |- (_ = _) -> _ => intro
             end; try discriminate; try congruence; try lia; auto.
Qed.

Lemma b_loop_facts lim cl : 0 < max_line lim -> 0 <= max_lines lim ->
  forall fuel s it, binv lim s -> (bver s = None -> bclosed s = BOpen) -> blen (bbuf s) < Z.of_nat fuel ->
  exists s' it', b_loop lim cl fuel s it = Some (s', it') /\ binv lim s' /\
                 it <= it' <= it + (blen (bbuf s) - blen (bbuf s')) + 1 /\
                 (bclosed s' = BOpen -> bver s' = None -> blen (bbuf s') < max_line lim).
Proof.
  intros HL HN. induction fuel as [|f IH]; intros s it Hi Hvo Hf.
  - pose proof (blen_nonneg (bbuf s)). lia.
  - cbn [b_loop]. destruct (bbuf s) as [|x rest] eqn:Eb.
    + exists s, it. rewrite Eb. split; [reflexivity|split; [exact Hi|split; [lia|]]].
      intros _ _. unfold blen; simpl; lia.
    + rewrite <- Eb in *. destruct (bver s) as [v|] eqn:Ev.
      * exists s, it. split; [reflexivity|split; [exact Hi|split; [lia|]]]. intros _ C. rewrite Ev in C. discriminate.
      * specialize (Hvo eq_refl).
        destruct (b_step lim cl s) as [b s1] eqn:Es.
        destruct (b_step_facts lim cl s b s1 HL HN Hi Hvo Ev Es) as (J & Le & Ht & Hfalse).
        destruct b.
        -- destruct (Ht eq_refl) as [Lt Ho1].
           destruct (IH s1 (it + 1) J Ho1 ltac:(lia)) as (s' & it' & Hr & J' & Hit & Hlast).
           exists s', it'. split; [exact Hr|split; [exact J'|split; [lia|exact Hlast]]].
        -- exists s1, (it + 1). split; [reflexivity|split; [exact J|split; [lia|]]].
           intros C1 C2. apply (Hfalse eq_refl C1).
Qed.

Lemma binv_init lim : 0 < max_line lim -> 0 <= max_lines lim -> binv lim b_init.
Proof.
  intros HL HN. unfold binv, b_init; cbn [blines bclosed bver bconsumed].
  repeat match goal with |- _ /\ _ => split | |- (_ = _) -> _ => intro end; lia.
Qed.

(* what holds after any sequence of chunks *)
Definition bgood (lim : blimits) (s : bstate) : Prop :=
  binv lim s /\ (bclosed s = BOpen -> bver s = None -> blen (bbuf s) < max_line lim).

Lemma b_run_facts lim cl : 0 < max_line lim -> 0 <= max_lines lim ->
  forall chunks s tot, bgood lim s ->
  exists s' tot', b_run lim cl s chunks tot = Some (s', tot') /\ bgood lim s' /\
                  tot <= tot' <= tot + blen (bbuf s) + blen (concat chunks) + Z.of_nat (length chunks).
Proof.
  intros HL HN. induction chunks as [|c r IH]; intros s tot Hg; pose proof Hg as [Hi Hb]; cbn [b_run].
  - exists s, tot. split; [reflexivity|split; [split; assumption|]].
    pose proof (blen_nonneg (bbuf s)). unfold blen at 2; simpl. lia.
  - assert (Hcat : blen (concat (c :: r)) = blen c + blen (concat r)) by (cbn [concat]; apply blen_app).
    pose proof (blen_nonneg c) as Bc. pose proof (blen_nonneg (concat r)) as Br.
    pose proof (blen_nonneg (bbuf s)) as Bs.
    unfold b_feed.
    destruct (bclosed s) eqn:Ec; [destruct (bver s) eqn:Ev|..].
    2: { set (s1 := mkB (bbuf s ++ c) (blines s) BOpen None (bconsumed s)).
         assert (Hi1 : binv lim s1).
         { unfold binv in *. cbn [s1 bbuf blines bclosed bver bconsumed]. rewrite Ec, Ev in Hi. exact Hi. }
         assert (Hvo : bver s1 = None -> bclosed s1 = BOpen) by (intros _; reflexivity).
         destruct (b_loop_facts lim cl HL HN (S (length (bbuf s1))) s1 0 Hi1 Hvo
                     ltac:(unfold blen; lia)) as (s2 & it2 & Hr & J2 & Hit & Hlast).
         rewrite Hr.
         destruct (IH s2 (tot + it2) (conj J2 Hlast)) as (s' & tot' & Hr' & G' & Ht').
         exists s', tot'. split; [exact Hr'|split; [exact G'|]].
         assert (blen (bbuf s1) = blen (bbuf s) + blen c) by (unfold s1; cbn; apply blen_app).
         pose proof (blen_nonneg (bbuf s2)).
         rewrite Hcat. cbn [length]. rewrite Nat2Z.inj_succ. lia. }
    all: destruct (IH s (tot + 0) Hg) as (s' & tot' & Hr' & G' & Ht');
      exists s', tot'; (split; [exact Hr'|split; [exact G'|]]);
      rewrite Hcat; cbn [length]; rewrite Nat2Z.inj_succ; lia.
Qed.

(* ---------------------------------------------------------------------------------------- *)
(* 5. SFTP framing *)

Lemma get_byte_ok_len body t p1 : get_byte (mkPk body 0) = Ok t p1 ->
  pdata p1 = body /\ pidx p1 = 1 /\ 1 <= blen body.
Proof.
  unfold get_byte, get_bytes. cbn [pdata pidx]. destruct (Z.gtb_spec (0 + 1) (blen body)); [discriminate|].
  cbn. intros Hq; inversion Hq; subst. cbn. repeat split; lia.
Qed.

Lemma get_uint32_ok_len p v p' : get_uint32 p = Ok v p' -> pidx p + 4 <= blen (pdata p).
Proof.
  unfold get_uint32, get_uint, get_bytes. destruct (Z.gtb_spec (pidx p + 4) (blen (pdata p))); [discriminate|].
  intros _. lia.
Qed.

(* every iteration of recv_packets consumes at least 4 bytes (9 when the packet is accepted): the loop is
   linear in the bytes received *)
Lemma sftp_frames_bound fuel : forall buf acc it, bytes_ok buf -> blen buf < 4 * Z.of_nat fuel ->
  exists acc' rest st it', sftp_frames fuel buf acc it = Some (acc', rest, st, it') /\
     blen rest <= blen buf /\ it <= it' /\ 4 * (it' - it) <= blen buf - blen rest /\
     9 * (Z.of_nat (length acc') - Z.of_nat (length acc)) <= blen buf - blen rest.
Proof.
  induction fuel as [|f IH]; intros buf acc it Hb Hf.
  - pose proof (blen_nonneg buf). lia.
  - cbn [sftp_frames]. pose proof (blen_nonneg buf) as B0.
    destruct (Z.ltb_spec (blen buf) 4) as [L4|L4].
    + exists acc, buf, FWait, it. split; [reflexivity|]. lia.
    + set (n := be_val (firstn 4 buf)).
      assert (Hn : 0 <= n) by (apply be_val_range, Forall_firstn, Hb).
      destruct (Z.ltb_spec (blen buf - 4) n) as [Ln|Ln].
      * exists acc, buf, FWait, it. split; [reflexivity|]. lia.
      * assert (Hrest : blen (skipn (Z.to_nat (4 + n)) buf) = blen buf - (4 + n)) by (apply blen_skipn; lia).
        assert (Hbody : blen (slice buf 4 n) = n) by (apply blen_slice; lia).
        destruct (get_byte (mkPk (slice buf 4 n) 0)) as [t p1|p1] eqn:E1.
        -- destruct (get_byte_ok_len _ _ _ E1) as (D1 & X1 & _).
           destruct (get_uint32 p1) as [id p2|p2] eqn:E2.
           ++ pose proof (get_uint32_ok_len _ _ _ E2) as L5. rewrite D1, X1, Hbody in L5.
              destruct (IH (skipn (Z.to_nat (4 + n)) buf) (acc ++ [(t, id, slice (slice buf 4 n) 5 (n - 5))])
                           (it + 1) (Forall_skipn _ _ _ Hb) ltac:(lia))
                as (acc' & rest & st & it' & Hr & R1 & R2 & R3 & R4).
              exists acc', rest, st, it'. split; [exact Hr|].
              rewrite app_length in R4. cbn [length] in R4. lia.
           ++ eexists acc, _, FBad, (it + 1). split; [reflexivity|]. lia.
        -- eexists acc, _, FBad, (it + 1). split; [reflexivity|]. lia.
Qed.

Lemma sftp_feed_linear buf : bytes_ok buf ->
  exists acc rest st it, sftp_feed buf = Some (acc, rest, st, it) /\
    0 <= it /\ 4 * it <= blen buf /\ 9 * Z.of_nat (length acc) <= blen buf.
Proof.
  intros Hb. unfold sftp_feed.
  destruct (sftp_frames_bound (S (length buf)) buf [] 0 Hb ltac:(unfold blen; lia))
    as (acc & rest & st & it & Hr & R1 & R2 & R3 & R4).
  exists acc, rest, st, it. split; [exact Hr|]. pose proof (blen_nonneg rest). cbn [length] in R4. lia.
Qed.

Definition u32b (n : Z) : bytes := [(n / 16777216) mod 256; (n / 65536) mod 256; (n / 256) mod 256; n mod 256].

Lemma be_val_u32b n : 0 <= n < 4294967296 -> be_val (u32b n) = n.
Proof. intros H. unfold be_val, u32b, be_acc. lia. Qed.

(* the receive side enforces no maximum: any 32-bit length is waited for *)
Lemma sftp_no_length_cap n body : 0 <= n < 4294967296 -> blen body < n ->
  sftp_feed (u32b n ++ body) = Some ([], u32b n ++ body, FWait, 0).
Proof.
  intros Hn Hb. unfold sftp_feed. cbn [sftp_frames length app u32b].
  assert (L : blen (u32b n ++ body) = 4 + blen body) by (rewrite blen_app; reflexivity).
  change ((n / 16777216) mod 256 :: (n / 65536) mod 256 :: (n / 256) mod 256 :: n mod 256 :: body)
    with (u32b n ++ body).
  pose proof (blen_nonneg body).
  destruct (Z.ltb_spec (blen (u32b n ++ body)) 4); [lia|].
  assert (F : firstn 4 (u32b n ++ body) = u32b n) by reflexivity.
  rewrite F, be_val_u32b by exact Hn.
  destruct (Z.ltb_spec (blen (u32b n ++ body) - 4) n); [reflexivity|lia].
Qed.

(* ---------------------------------------------------------------------------------------- *)
(* 6. copy-data *)

Lemma copy_loop_stop f same sz roff woff it w :
  copy_loop f same sz roff 0 woff false it w = CDone it w.
Proof. destruct f; reflexivity. Qed.

(* distinct files: the loop ends after at most (bytes available)/block + 1 reads, having written no more than
   the source holds past the offset *)
Lemma copy_loop_distinct fuel : forall sz roff len woff to_end it w,
  (to_end = false -> 0 <= len) ->
  Z.max 0 (sz - roff) / COPY_BLOCK + 1 < Z.of_nat fuel ->
  exists it' w', copy_loop fuel false sz roff len woff to_end it w = CDone it' w' /\
                 it <= it' <= it + Z.max 0 (sz - roff) / COPY_BLOCK + 1 /\
                 w <= w' <= w + Z.max 0 (sz - roff).
Proof.
  unfold COPY_BLOCK.
  induction fuel as [|f IH]; intros sz roff len woff to_end it w Hlen Hf.
  - lia.
  - cbn [copy_loop]. unfold COPY_BLOCK.
    destruct (to_end || negb (len =? 0)) eqn:C.
    2: { exists it, w. split; [reflexivity|]. lia. }
    cbn [andb]. 
    set (size := if to_end then 262144 else Z.min len 262144).
    assert (Hs : 1 <= size <= 262144).
    { unfold size. destruct to_end; [lia|]. cbn in C. apply negb_true_iff, Z.eqb_neq in C.
      specialize (Hlen eq_refl). lia. }
    set (got := Z.max 0 (Z.min size (sz - roff))).
    destruct (Z.ltb_spec got size) as [G|G].
    + exists (it + 1), (w + got). split; [reflexivity|]. unfold got in *. lia.
    + assert (Hg : got = size) by (unfold got in *; lia).
      assert (Hav : size <= sz - roff) by (unfold got in *; lia).
      destruct (Z.eq_dec size 262144) as [E|E].
      * assert (Hlen' : to_end = false -> 0 <= (if to_end then len else len - size)).
        { intros ->. unfold size in *. specialize (Hlen eq_refl). lia. }
        destruct (IH sz (roff + size) (if to_end then len else len - size) (woff + size) to_end
                     (it + 1) (w + got) Hlen' ltac:(lia)) as (it' & w' & Hr & Hi & Hw).
        exists it', w'. split; [exact Hr|]. lia.
      * assert (to_end = false /\ size = len) as [-> El] by (unfold size in *; destruct to_end; lia).
        replace (len - size) with 0 by lia. rewrite copy_loop_stop.
        exists (it + 1), (w + got). split; [reflexivity|]. lia.
Qed.

(* the same file as source and destination, read to the end, write offset at least one block ahead of the
   read offset and at least one block of data: the loop never ends; it writes one more block per unit of
   fuel *)
Lemma copy_loop_same_spins fuel : forall sz roff woff len it w,
  COPY_BLOCK <= sz - roff -> COPY_BLOCK <= woff - roff ->
  copy_loop fuel true sz roff len woff true it w = CFuel (w + COPY_BLOCK * Z.of_nat fuel).
Proof.
  unfold COPY_BLOCK.
  induction fuel as [|f IH]; intros sz roff woff len it w H1 H2.
  - cbn. f_equal. lia.
  - cbn [copy_loop orb]. unfold COPY_BLOCK.
    replace (Z.max 0 (Z.min 262144 (sz - roff))) with 262144 by lia.
    cbn [andb]. replace (0 <? 262144) with true by reflexivity. replace (262144 <? 262144) with false by reflexivity.
    rewrite IH by lia. f_equal. lia.
Qed.

(* ---------------------------------------------------------------------------------------- *)
(* 7. the clear-text receive loop (model owned by C02): every handler call that keeps the loop going lowers
      2*|buffer| + (8 while a header is held) by at least 8, whatever the packet_length field says
      (including the negative-remainder case of a length below 4, where no byte is consumed but the
      handler changes) *)

Definition rmu (s : Packet.rstate) : Z :=
  2 * Packet.zlen (Packet.inbuf s) + match Packet.phase s with Packet.PBody _ _ => 8 | Packet.PHdr => 0 end.

Lemma recv_step_progress s s' : Packet.recv_step s = Some s' -> rmu s' + 8 <= rmu s.
Proof.
  unfold Packet.recv_step, rmu. destruct (Packet.failed s); [discriminate|].
  destruct (Packet.phase s) as [|first n]; intros H.
  - destruct (Z.ltb_spec (Packet.zlen (Packet.inbuf s)) Packet.BS) as [E|E]; [discriminate|].
    injection H as <-. cbn [Packet.inbuf Packet.phase]. unfold Packet.zlen in *.
    change (match Packet.inbuf s with
            | _ :: _ :: _ :: _ :: _ :: _ :: _ :: _ :: l6 => l6
            | _ => []
            end) with (skipn 8 (Packet.inbuf s)).
    rewrite skipn_length. unfold Packet.BS in *. lia.
  - destruct (Z.ltb_spec (Packet.zlen (Packet.inbuf s)) (4 + n - Packet.BS)) as [E|E]; [discriminate|].
    destruct (4 + n - Packet.BS <? 0) eqn:R;
      destruct (Packet.py_payload _); injection H as <-; cbn [Packet.inbuf Packet.phase];
      unfold Packet.zlen in *; rewrite skipn_length; unfold Packet.BS in *; lia.
Qed.

Lemma recv_count_linear fuel : forall s, 0 <= recv_count fuel s /\ 8 * recv_count fuel s <= rmu s.
Proof.
  induction fuel as [|f IH]; intros s; cbn [recv_count].
  - unfold rmu, Packet.zlen. destruct (Packet.phase s); lia.
  - assert (R0 : 0 <= rmu s) by (unfold rmu, Packet.zlen; destruct (Packet.phase s); lia).
    destruct (Packet.inbuf s) eqn:E; [lia|].
    destruct (Packet.recv_step s) as [s'|] eqn:Es; [|lia].
    pose proof (recv_step_progress s s' Es). specialize (IH s'). lia.
Qed.

(* recv_count really counts the iterations of Packet.recv_loop: both follow the same steps *)
Lemma recv_count_follows fuel : forall s,
  recv_count fuel s = 0 -> Packet.recv_loop fuel s = s.
Proof.
  induction fuel as [|f IH]; intros s H; cbn [recv_count Packet.recv_loop] in *; [reflexivity|].
  destruct (Packet.inbuf s); [reflexivity|].
  destruct (Packet.recv_step s) as [s'|]; [|reflexivity].
  pose proof (recv_count_linear f s'). lia.
Qed.

(* ---------------------------------------------------------------------------------------- *)
(* 8. the channel send loop (model and lemmas owned by C08), restated for C10 *)

Lemma flush_progress fuel buf win pktsize out :
  1 <= pktsize -> 0 <= win -> ChannelProofs.nonempty_entries buf ->
  (Z.to_nat (Channel.buf_len buf) + length buf < fuel)%nat ->
  Channel.flush_loop fuel buf win pktsize out <> None.
Proof. apply ChannelProofs.flush_loop_terminates. Qed.

Lemma flush_stuck fuel dt d rest win out :
  d <> [] -> 0 < win -> Channel.flush_loop fuel ((dt, d) :: rest) win 0 out = None.
Proof. apply ChannelProofs.flush_loop_zero_pktsize. Qed.

(* ---------------------------------------------------------------------------------------- *)
(* summary lemma for the getters *)

Lemma get_mpint_post p : wf p -> bytes_ok (pdata p) -> post p 4 (get_mpint p).
Proof.
  intros Hw Hb. unfold get_mpint. replace 4 with (4 + 0) by lia.
  apply post_bind; [lia|apply get_string_post; assumption|].
  intros v p' E H. apply post_ok. unfold wf. rewrite E. destruct Hw. lia.
Qed.

Lemma get_namelist_post p : wf p -> bytes_ok (pdata p) -> post p 4 (get_namelist p).
Proof.
  intros Hw Hb. unfold get_namelist. replace 4 with (4 + 0) by lia.
  apply post_bind; [lia|apply get_string_post; assumption|].
  intros v p' E H. apply post_ok. unfold wf. rewrite E. destruct Hw. lia.
Qed.

Lemma getters_safe p : wf p -> bytes_ok (pdata p) ->
  post p 1 (get_byte p) /\ post p 1 (get_boolean p) /\ post p 2 (get_uint16 p) /\ post p 4 (get_uint32 p) /\
  post p 8 (get_uint64 p) /\ post p 4 (get_string p) /\ post p 4 (get_mpint p) /\ post p 4 (get_namelist p).
Proof.
  intros Hw Hb. repeat split.
  - apply get_byte_post, Hw.
  - apply get_boolean_post, Hw.
  - apply get_uint_post; [exact Hw|lia].
  - apply get_uint_post; [exact Hw|lia].
  - apply get_uint_post; [exact Hw|lia].
  - apply get_string_post; assumption.
  - apply get_mpint_post; assumption.
  - apply get_namelist_post; assumption.
Qed.

Lemma check_end_spec p : wf p ->
  match check_end p with Ok _ p' => p' = p /\ remaining p = 0 | Err p' => p' = p /\ 1 <= remaining p end.
Proof.
  intros Hw. unfold check_end. destruct (more p) eqn:M.
  - split; [reflexivity|apply more_true; assumption].
  - split; [reflexivity|]. unfold more in M. apply negb_false_iff, Z.eqb_eq in M. unfold remaining. lia.
Qed.

(* ---------------------------------------------------------------------------------------- *)
(* 9. X11 setup parser: every handler call moves to the next handler, so the loop of data_received goes round
      at most three times per connection, whatever lengths (0 included) the setup block claims *)

Lemma x_handle_rank remote local s data : xh s <> XNone ->
  xrank (xh (x_handle remote local s data)) = xrank (xh s) - 1.
Proof.
  intros H. unfold x_handle. destruct (xh s) eqn:E; try congruence; cbn; try reflexivity.
  destruct (zlist_eqb _ remote); reflexivity.
Qed.

Lemma x_iter_progress remote local s s' : xh s <> XNone -> x_iter remote local s = Some s' ->
  xrank (xh s') = xrank (xh s) - 1.
Proof.
  intros H E. unfold x_iter in E. destruct (blen (xbuf s) >=? xneed s); [|discriminate].
  inversion E; subst. apply (x_handle_rank remote local (x_setbuf s _) _ H).
Qed.

Lemma x_loop_terminates remote local fuel : forall s it, xrank (xh s) < Z.of_nat fuel ->
  exists s' it' b, x_loop remote local fuel s it = Some (s', it', b) /\ it <= it' <= it + xrank (xh s) + 1 /\
                   (b = true -> xh s' = XNone).
Proof.
  induction fuel as [|f IH]; intros s it Hf.
  - destruct (xh s); cbn in Hf; lia.
  - cbn [x_loop]. destruct (xh s) eqn:E.
    4: { exists s, it, true. cbn. repeat split; try lia. intros _. exact E. }
    all: assert (Hn : xh s <> XNone) by (rewrite E; discriminate).
    all: destruct (x_iter remote local s) as [s1|] eqn:I.
    all: try (exists s, (it + 1), false; cbn; repeat split; try lia; discriminate).
    all: pose proof (x_iter_progress remote local s s1 Hn I) as R; rewrite E in R.
    all: destruct (IH s1 (it + 1) ltac:(try rewrite E in Hf; cbn in *; lia)) as (s' & it' & b & Hr & Hi & Hb).
    all: exists s', it', b; (split; [exact Hr|split; [cbn in *; lia|exact Hb]]).
Qed.

Lemma x_feed_total remote local s chunk :
  exists s' it, x_feed remote local s chunk = Some (s', it) /\ 0 <= it <= 4.
Proof.
  unfold x_feed. destruct (xh s) eqn:E.
  4: { eexists _, 0. split; [reflexivity|lia]. }
  all: set (s1 := x_setbuf s (xbuf s ++ chunk)).
  all: assert (E1 : xh s1 = xh s) by reflexivity.
  all: destruct (x_loop_terminates remote local 4 s1 0 ltac:(rewrite E1, E; cbn; lia)) as (s' & it & b & Hr & Hi & _).
  all: rewrite Hr; rewrite E1, E in Hi; cbn in Hi.
  all: destruct b; eexists _, it; (split; [reflexivity|lia]).
Qed.

(* over a whole conversation the handler calls number at most 3 in total (plus one "need more" pass per chunk):
   the rank only goes down *)
Lemma x_loop_rank remote local fuel : forall t i s' it b, x_loop remote local fuel t i = Some (s', it, b) ->
  xrank (xh s') <= xrank (xh t) /\ i <= it <= i + (xrank (xh t) - xrank (xh s')) + 1.
Proof.
  induction fuel as [|f IH]; intros t i s' it b Hr; cbn [x_loop] in Hr.
  - destruct (xh t) eqn:Et; try discriminate. inversion Hr; subst. rewrite Et. cbn. lia.
  - destruct (xh t) eqn:Et.
    4: { inversion Hr; subst. rewrite Et. cbn. lia. }
    all: assert (Hn : xh t <> XNone) by (rewrite Et; discriminate).
    all: destruct (x_iter remote local t) as [t1|] eqn:I.
    all: try (inversion Hr; subst; rewrite Et; cbn; lia).
    all: pose proof (x_iter_progress remote local t t1 Hn I) as R; rewrite Et in R.
    all: destruct (IH t1 (i + 1) s' it b Hr) as (A & B);
      set (a := xrank (xh s')) in *; set (c := xrank (xh t1)) in *; cbn [xrank] in *; lia.
Qed.

Lemma x_feed_rank remote local s chunk s' it : x_feed remote local s chunk = Some (s', it) ->
  xrank (xh s') <= xrank (xh s) /\ 0 <= it <= (xrank (xh s) - xrank (xh s')) + 1.
Proof.
  unfold x_feed. destruct (xh s) eqn:E.
  4: { intros H; inversion H; subst. cbn. rewrite E. cbn. lia. }
  all: set (s1 := x_setbuf s (xbuf s ++ chunk)).
  all: assert (E1 : xh s1 = xh s) by reflexivity.
  all: destruct (x_loop remote local 4 s1 0) as [[[s2 it2] b]|] eqn:L; [|discriminate].
  all: destruct (x_loop_rank remote local 4 s1 0 s2 it2 b L) as (A & B); rewrite E1, E in *.
  all: destruct b; intros H; inversion H; subst; cbn in *; lia.
Qed.
