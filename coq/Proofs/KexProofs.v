(* Proofs about Model/Kex.v (property C03). *)
From AV Require Import Base.Prelude Model.Packet Model.Kex Proofs.PacketProofs.

Local Open Scope Z_scope.

Definition B32 : Z := 4294967296.

Arguments mpint : simpl never.
Arguments sstr : simpl never.
Arguments u32 : simpl never.
Arguments mp_body : simpl never.

(* ------------------------------------------------------------------------------------------ *)
(* big-endian bytes and their decoding                                                          *)

Lemma be_acc_app n : forall v acc, be_acc n v acc = be_acc n v [] ++ acc.
Proof.
  induction n as [|n IH]; intros v acc; simpl; [reflexivity|].
  rewrite IH. rewrite (IH (Z.shiftr v 8) [Z.land v 255]). rewrite <- app_assoc. reflexivity.
Qed.

Lemma be_S n v : be (S n) v = be n (v / 256) ++ [v mod 256].
Proof.
  unfold be. simpl. rewrite be_acc_app.
  rewrite Z.shiftr_div_pow2 by lia. change 255 with (Z.ones 8). rewrite Z.land_ones by lia. reflexivity.
Qed.

Lemma be_length n : forall v, length (be n v) = n.
Proof.
  induction n as [|n IH]; intros v; [reflexivity|].
  rewrite be_S, app_length, IH. simpl. lia.
Qed.

Lemma ube_app l x : ube (l ++ [x]) = ube l * 256 + x.
Proof. unfold ube. rewrite fold_left_app. reflexivity. Qed.

Lemma ube_be n : forall v, ube (be n v) = v mod 256 ^ Z.of_nat n.
Proof.
  induction n as [|n IH]; intros v.
  - simpl. rewrite Z.mod_1_r. reflexivity.
  - rewrite be_S, ube_app, IH. rewrite Nat2Z.inj_succ, Z.pow_succ_r by lia.
    rewrite (Z.rem_mul_r v 256 (256 ^ Z.of_nat n)) by lia. lia.
Qed.

Lemma zlen_be n v : zlen (be n v) = Z.of_nat n.
Proof. unfold zlen. rewrite be_length. reflexivity. Qed.

Lemma sdec_be n v : - 256 ^ Z.of_nat n <= 2 * v < 256 ^ Z.of_nat n -> sdec (be n v) = v.
Proof.
  intros Hr. unfold sdec. rewrite zlen_be, ube_be.
  set (M := 256 ^ Z.of_nat n) in *.
  assert (HM : 0 < M) by (apply Z.pow_pos_nonneg; lia).
  destruct (Z_lt_le_dec v 0) as [Hneg|Hpos].
  - assert (Hm : v mod M = v + M).
    { rewrite <- (Z_mod_plus_full v 1 M). rewrite Z.mul_1_l. apply Z.mod_small. lia. }
    rewrite Hm. destruct (M <=? 2 * (v + M)) eqn:E; lia.
  - rewrite (Z.mod_small v M) by lia. destruct (M <=? 2 * v) eqn:E; lia.
Qed.

(* ------------------------------------------------------------------------------------------ *)
(* MPInt                                                                                        *)

Lemma pow256 n : 0 <= n -> 256 ^ n = 2 ^ (8 * n).
Proof. intros H. rewrite Z.pow_mul_r by lia. reflexivity. Qed.

Lemma bitlen_bounds v : v <> 0 -> 1 <= bitlen v /\ 2 ^ (bitlen v - 1) <= Z.abs v < 2 ^ bitlen v.
Proof.
  intros Hv. unfold bitlen. destruct (v =? 0) eqn:E; [lia|].
  assert (Ha : 0 < Z.abs v) by lia.
  pose proof (Z.log2_spec (Z.abs v) Ha) as Hs. pose proof (Z.log2_nonneg (Z.abs v)) as Hn.
  replace (Z.log2 (Z.abs v) + 1 - 1) with (Z.log2 (Z.abs v)) by lia.
  replace (Z.log2 (Z.abs v) + 1) with (Z.succ (Z.log2 (Z.abs v))) by lia. lia.
Qed.

Lemma mp_nbytes_nonneg v : 0 <= mp_nbytes v.
Proof.
  unfold mp_nbytes.
  assert (Hb : 0 <= bitlen v).
  { unfold bitlen. destruct (v =? 0); [lia|]. pose proof (Z.log2_nonneg (Z.abs v)). lia. }
  destruct ((bitlen v mod 8 =? 0) && negb (v =? 0) && negb (v =? - 2 ^ (bitlen v - 1))); lia.
Qed.

Lemma mp_range v : - 256 ^ mp_nbytes v <= 2 * v < 256 ^ mp_nbytes v.
Proof.
  pose proof (mp_nbytes_nonneg v) as Hn0.
  rewrite pow256 by assumption.
  destruct (Z.eq_dec v 0) as [->|Hv].
  - assert (H1 : 0 < 2 ^ (8 * mp_nbytes 0)) by (apply Z.pow_pos_nonneg; lia). lia.
  - destruct (bitlen_bounds v Hv) as [Hl [Hlo Hhi]].
    unfold mp_nbytes in *. set (l := bitlen v) in *.
    assert (E0 : (v =? 0) = false) by lia. rewrite E0 in *. cbn [negb andb] in *.
    rewrite andb_true_r in *.
    destruct (l mod 8 =? 0) eqn:E8; cbn [andb] in *.
    + destruct (v =? - 2 ^ (l - 1)) eqn:Es; cbn [negb] in *.
      * (* v = -2^(l-1), l a multiple of 8: exactly l/8 bytes *)
        assert (Hn : 8 * ((l + 7) / 8) = l) by lia.
        rewrite Hn. assert (Hv2 : v = - 2 ^ (l - 1)) by lia.
        assert (Hp : 2 ^ l = 2 * 2 ^ (l - 1)).
        { replace l with (Z.succ (l - 1)) at 1 by lia. rewrite Z.pow_succ_r by lia. reflexivity. }
        assert (0 < 2 ^ (l - 1)) by (apply Z.pow_pos_nonneg; lia). lia.
      * assert (Hn : 8 * ((l + 1 + 7) / 8) = l + 8) by lia. rewrite Hn.
        assert (Hp : 2 ^ (l + 1) <= 2 ^ (l + 8)) by (apply Z.pow_le_mono_r; lia).
        assert (Hq : 2 ^ (l + 1) = 2 * 2 ^ l).
        { replace (l + 1) with (Z.succ l) by lia. rewrite Z.pow_succ_r by lia. reflexivity. }
        lia.
    + assert (Hn : l + 1 <= 8 * ((l + 7) / 8)) by lia.
      assert (Hp : 2 ^ (l + 1) <= 2 ^ (8 * ((l + 7) / 8))) by (apply Z.pow_le_mono_r; lia).
      assert (Hq : 2 ^ (l + 1) = 2 * 2 ^ l).
      { replace (l + 1) with (Z.succ l) by lia. rewrite Z.pow_succ_r by lia. reflexivity. }
      lia.
Qed.

Lemma zlen_mp_body v : zlen (mp_body v) = mp_nbytes v.
Proof. unfold mp_body. rewrite zlen_be. apply Z2Nat.id, mp_nbytes_nonneg. Qed.

Lemma mpint_sstr v : mpint v = sstr (mp_body v).
Proof. unfold mpint, sstr. rewrite zlen_mp_body. reflexivity. Qed.

Lemma sdec_mp_body v : sdec (mp_body v) = v.
Proof.
  unfold mp_body. apply sdec_be. rewrite Z2Nat.id by apply mp_nbytes_nonneg. apply mp_range.
Qed.

Lemma mp_body_inj a b : mp_body a = mp_body b -> a = b.
Proof. intros H. rewrite <- (sdec_mp_body a), <- (sdec_mp_body b), H. reflexivity. Qed.

Definition str_ok (b : bytes) : Prop := zlen b < B32.
Definition mp_ok (v : Z) : Prop := mp_nbytes v < B32.

(* ------------------------------------------------------------------------------------------ *)
(* length-prefix framing                                                                        *)

Lemma app_eq_len {A} (a b r1 r2 : list A) :
  length a = length b -> a ++ r1 = b ++ r2 -> a = b /\ r1 = r2.
Proof.
  revert b; induction a as [|x a IH]; intros [|y b] Hl H; simpl in *; try discriminate.
  - split; [reflexivity|assumption].
  - injection H as -> H. injection Hl as Hl. destruct (IH b Hl H) as [-> ->]. split; reflexivity.
Qed.

Lemma u32_inj a b : 0 <= a < B32 -> 0 <= b < B32 -> u32 a = u32 b -> a = b.
Proof.
  unfold B32. intros Ha Hb H.
  rewrite <- (get_u32_u32 a []) by lia. rewrite <- (get_u32_u32 b []) by lia. rewrite H. reflexivity.
Qed.

Lemma sstr_app_inj a b r1 r2 :
  str_ok a -> str_ok b -> sstr a ++ r1 = sstr b ++ r2 -> a = b /\ r1 = r2.
Proof.
  unfold str_ok, sstr. intros Ha Hb H. rewrite <- !app_assoc in H.
  apply app_eq_len in H; [|rewrite !u32_length; reflexivity].
  destruct H as [Hu H].
  apply u32_inj in Hu; [| pose proof (zlen_nonneg a); lia | pose proof (zlen_nonneg b); lia].
  apply app_eq_len in H; [assumption|]. unfold zlen in Hu. lia.
Qed.

Lemma mpint_app_inj a b r1 r2 :
  mp_ok a -> mp_ok b -> mpint a ++ r1 = mpint b ++ r2 -> a = b /\ r1 = r2.
Proof.
  unfold mp_ok. intros Ha Hb H. rewrite !mpint_sstr in H.
  apply sstr_app_inj in H; [| unfold str_ok; rewrite zlen_mp_body; assumption
                             | unfold str_ok; rewrite zlen_mp_body; assumption].
  destruct H as [H ->]. apply mp_body_inj in H. split; [assumption|reflexivity].
Qed.

(* parsing what was encoded gives the value back: get_mpint (MPInt v ++ rest) = (v, rest) *)
Lemma take_app a r : take (zlen a) (a ++ r) = Some (a, r).
Proof.
  unfold take. pose proof (zlen_nonneg a). rewrite zlen_app. pose proof (zlen_nonneg r).
  replace ((0 <=? zlen a) && (zlen a <=? zlen a + zlen r)) with true by lia.
  unfold zlen. rewrite Nat2Z.id. rewrite firstn_app, skipn_app, Nat.sub_diag, firstn_all, skipn_all. simpl.
  rewrite !app_nil_r. reflexivity.
Qed.

Lemma get_string_sstr a r : str_ok a -> get_string (sstr a ++ r) = Some (a, r).
Proof.
  unfold str_ok, B32, get_string, sstr. intros Ha. rewrite <- app_assoc.
  pose proof (take_app (u32 (zlen a)) (a ++ r)) as Ht.
  assert (Hl : zlen (u32 (zlen a)) = 4) by (unfold zlen; rewrite u32_length; reflexivity).
  rewrite Hl in Ht. rewrite Ht.
  pose proof (get_u32_u32 (zlen a) []) as Hg. rewrite app_nil_r in Hg. rewrite Hg.
  - apply take_app.
  - pose proof (zlen_nonneg a). lia.
Qed.

Theorem get_mpint_mpint v r : mp_ok v -> get_mpint (mpint v ++ r) = Some (v, r).
Proof.
  intros Hv. unfold get_mpint. rewrite mpint_sstr, get_string_sstr.
  - rewrite sdec_mp_body. reflexivity.
  - unfold str_ok. rewrite zlen_mp_body. exact Hv.
Qed.

Theorem mpint_inj a b : mpint a = mpint b -> a = b.
Proof.
  intros H. unfold mpint in H. apply app_eq_len in H; [|rewrite !u32_length; reflexivity].
  apply mp_body_inj, H.
Qed.

Lemma mpint_unfold v : mpint v = u32 (mp_nbytes v) ++ mp_body v.
Proof. reflexivity. Qed.

Global Opaque mpint sstr u32 mp_body.

(* ------------------------------------------------------------------------------------------ *)
(* the exchange hash input                                                                      *)

Definition kf_wf (x : kexfields) : Prop :=
  match x with
  | KDH e f => mp_ok e /\ mp_ok f
  | KGEX rq p g e f => (zlen rq = 4 \/ zlen rq = 12) /\ mp_ok p /\ mp_ok g /\ mp_ok e /\ mp_ok f
  | KECDH qc qs => str_ok qc /\ str_ok qs
  | KRSA tk ek => str_ok tk /\ str_ok ek
  end.

Definition wf (v : view) : Prop :=
  str_ok (v_c v) /\ str_ok (v_s v) /\ str_ok (i_c v) /\ str_ok (i_s v) /\ str_ok (k_s v) /\ kf_wf (kf v).

Definition same_shape (x y : kexfields) : Prop :=
  match x, y with
  | KDH _ _, KDH _ _ => True
  | KGEX r _ _ _ _, KGEX r' _ _ _ _ => zlen r = zlen r'
  | KECDH _ _, KECDH _ _ => True
  | KRSA _ _, KRSA _ _ => True
  | _, _ => False
  end.

(* the five leading fields are bound whatever the key exchange family *)
Theorem prefix_inj a b :
  wf a -> wf b -> hash_input a = hash_input b ->
  v_c a = v_c b /\ v_s a = v_s b /\ i_c a = i_c b /\ i_s a = i_s b /\ k_s a = k_s b /\
  enc_fields (kf a) ++ kk a = enc_fields (kf b) ++ kk b.
Proof.
  intros (A1 & A2 & A3 & A4 & A5 & _) (B1 & B2 & B3 & B4 & B5 & _) H.
  unfold hash_input, hash_prefix in H. rewrite <- !app_assoc in H.
  apply sstr_app_inj in H; [|assumption|assumption]. destruct H as [E1 H].
  apply sstr_app_inj in H; [|assumption|assumption]. destruct H as [E2 H].
  apply sstr_app_inj in H; [|assumption|assumption]. destruct H as [E3 H].
  apply sstr_app_inj in H; [|assumption|assumption]. destruct H as [E4 H].
  apply sstr_app_inj in H; [|assumption|assumption]. destruct H as [E5 H].
  repeat split; assumption.
Qed.

Theorem fields_inj x y ka kb :
  kf_wf x -> kf_wf y -> same_shape x y ->
  enc_fields x ++ ka = enc_fields y ++ kb -> x = y /\ ka = kb.
Proof.
  intros Hx Hy Hs H.
  destruct x as [e f|rq p g e f|qc qs|tk ek], y as [e' f'|rq' p' g' e' f'|qc' qs'|tk' ek'];
    simpl in Hs; try contradiction; simpl in Hx, Hy, H; rewrite <- ?app_assoc in H.
  - destruct Hx as [X1 X2], Hy as [Y1 Y2].
    apply mpint_app_inj in H; [|assumption|assumption]. destruct H as [-> H].
    apply mpint_app_inj in H; [|assumption|assumption]. destruct H as [-> H].
    split; [reflexivity|assumption].
  - destruct Hx as (_ & X1 & X2 & X3 & X4), Hy as (_ & Y1 & Y2 & Y3 & Y4).
    apply app_eq_len in H; [|unfold zlen in Hs; lia]. destruct H as [-> H].
    apply mpint_app_inj in H; [|assumption|assumption]. destruct H as [-> H].
    apply mpint_app_inj in H; [|assumption|assumption]. destruct H as [-> H].
    apply mpint_app_inj in H; [|assumption|assumption]. destruct H as [-> H].
    apply mpint_app_inj in H; [|assumption|assumption]. destruct H as [-> H].
    split; [reflexivity|assumption].
  - destruct Hx as [X1 X2], Hy as [Y1 Y2].
    apply sstr_app_inj in H; [|assumption|assumption]. destruct H as [-> H].
    apply sstr_app_inj in H; [|assumption|assumption]. destruct H as [-> H].
    split; [reflexivity|assumption].
  - destruct Hx as [X1 X2], Hy as [Y1 Y2].
    apply sstr_app_inj in H; [|assumption|assumption]. destruct H as [-> H].
    apply sstr_app_inj in H; [|assumption|assumption]. destruct H as [-> H].
    split; [reflexivity|assumption].
Qed.

Theorem hash_input_inj a b :
  wf a -> wf b -> same_shape (kf a) (kf b) -> hash_input a = hash_input b -> a = b.
Proof.
  intros Ha Hb Hs H.
  destruct (prefix_inj a b Ha Hb H) as (E1 & E2 & E3 & E4 & E5 & E6).
  destruct Ha as (_ & _ & _ & _ & _ & Wa), Hb as (_ & _ & _ & _ & _ & Wb).
  destruct (fields_inj _ _ _ _ Wa Wb Hs E6) as [E7 E8].
  destruct a, b; simpl in *; subst; reflexivity.
Qed.

(* old-form versus new-form group exchange request: equal hash inputs force the byte length of the
   old-form side's modulus to equal the preferred size field of the new-form request *)
Theorem gex_forms rq p g e f ka rq' p' g' e' f' kb :
  zlen rq = 4 -> zlen rq' = 12 -> mp_ok p ->
  enc_fields (KGEX rq p g e f) ++ ka = enc_fields (KGEX rq' p' g' e' f') ++ kb ->
  mp_nbytes p = get_u32 (firstn 4 (skipn 4 rq')).
Proof.
  intros H4 H12 Hp H. unfold zlen in H4, H12.
  destruct rq as [|a0 [|a1 [|a2 [|a3 [|? ?]]]]]; simpl in H4; try lia.
  destruct rq' as [|b0 [|b1 [|b2 [|b3 [|b4 [|b5 [|b6 [|b7 [|b8 [|b9 [|b10 [|b11 [|? ?]]]]]]]]]]]]];
    simpl in H12; try lia.
  cbn [enc_fields] in H.
  change [b0; b1; b2; b3; b4; b5; b6; b7; b8; b9; b10; b11]
    with ([b0; b1; b2; b3] ++ [b4; b5; b6; b7] ++ [b8; b9; b10; b11]) in H.
  rewrite (mpint_unfold p) in H. rewrite <- !app_assoc in H.
  apply app_eq_len in H; [|reflexivity]. destruct H as [_ H].
  apply app_eq_len in H; [|rewrite u32_length; reflexivity]. destruct H as [H _].
  cbn [skipn firstn]. rewrite <- H. pose proof (get_u32_u32 (mp_nbytes p) []) as Hg. rewrite app_nil_r in Hg.
  symmetry. apply Hg. pose proof (mp_nbytes_nonneg p). unfold mp_ok, B32 in Hp. lia.
Qed.

(* ------------------------------------------------------------------------------------------ *)
(* received identification line                                                                 *)

Lemma version_of_line_cases l :
  (exists l', l = l' ++ [13] /\ version_of_line l = l') \/ version_of_line l = l.
Proof.
  unfold version_of_line. destruct (rev l) as [|x r] eqn:E; [right; reflexivity|].
  destruct (Z.eq_dec x 13) as [->|Hx].
  - left. exists (rev r). split; [|reflexivity].
    rewrite <- (rev_involutive l), E. reflexivity.
  - right. destruct x as [|q|q]; try reflexivity.
    do 4 (destruct q as [q|q|]; try reflexivity). exfalso. apply Hx. reflexivity.
Qed.

Theorem version_of_line_inj a b :
  version_of_line a = version_of_line b -> a = b \/ a = b ++ [13] \/ b = a ++ [13].
Proof.
  intros H.
  destruct (version_of_line_cases a) as [(a' & Ea & Ha)|Ha], (version_of_line_cases b) as [(b' & Eb & Hb)|Hb];
    rewrite Ha, Hb in H; subst.
  - left. reflexivity.
  - right. left. reflexivity.
  - right. right. reflexivity.
  - left. reflexivity.
Qed.

(* ------------------------------------------------------------------------------------------ *)
(* algorithm choice                                                                             *)

Lemma mem_spec a l : mem a l = true <-> In a l.
Proof.
  induction l as [|x l IH]; simpl; [split; [discriminate|contradiction]|].
  rewrite orb_true_iff, zlist_eqb_spec, IH. split; intros [H|H]; auto.
Qed.

Lemma mem_false a l : mem a l = false <-> ~ In a l.
Proof.
  rewrite <- mem_spec. destruct (mem a l).
  - split; [discriminate|]. intros H. exfalso. apply H. reflexivity.
  - split; [intros _; discriminate|reflexivity].
Qed.

Definition first_match (client server : list bytes) (a : bytes) : Prop :=
  exists pre post, client = pre ++ a :: post /\ In a server /\ forall x, In x pre -> ~ In x server.

Theorem choose_first client server a :
  choose_alg client server = Some a <-> first_match client server a.
Proof.
  split.
  - revert a. induction client as [|x c IH]; intros a H; simpl in H; [discriminate|].
    destruct (mem x server) eqn:E.
    + injection H as <-. exists [], c. split; [reflexivity|]. split; [apply mem_spec, E|contradiction].
    + destruct (IH a H) as (pre & post & -> & Hin & Hpre).
      exists (x :: pre), post. split; [reflexivity|]. split; [assumption|].
      intros y [<-|Hy]; [apply mem_false, E|apply Hpre, Hy].
  - intros (pre & post & -> & Hin & Hpre). induction pre as [|x pre IH]; simpl.
    + apply mem_spec in Hin. rewrite Hin. reflexivity.
    + assert (E : mem x server = false) by (apply mem_false, Hpre; left; reflexivity).
      rewrite E. apply IH. intros y Hy. apply Hpre. right. assumption.
Qed.

Theorem choose_none client server :
  choose_alg client server = None <-> forall x, In x client -> ~ In x server.
Proof.
  induction client as [|x c IH]; simpl.
  - split; [intros _ y []|reflexivity].
  - destruct (mem x server) eqn:E.
    + split; [discriminate|]. intros H. exfalso. apply (H x); [left; reflexivity|apply mem_spec, E].
    + rewrite IH. split.
      * intros H y [<-|Hy]; [apply mem_false, E|apply H, Hy].
      * intros H y Hy. apply H. right. assumption.
Qed.

Lemma mem_app a l1 l2 : mem a (l1 ++ l2) = mem a l1 || mem a l2.
Proof. induction l1 as [|x l IH]; simpl; [reflexivity|]. rewrite IH, orb_assoc. reflexivity. Qed.

Lemma choose_server_extra c s xs :
  (forall x, In x xs -> ~ In x c) -> choose_alg c (s ++ xs) = choose_alg c s.
Proof.
  induction c as [|a c IH]; intros H; simpl; [reflexivity|].
  rewrite mem_app.
  assert (E : mem a xs = false).
  { apply mem_false. intros Hin. apply (H a Hin). left. reflexivity. }
  rewrite E, orb_false_r. rewrite IH; [reflexivity|].
  intros x Hx Hc. apply (H x Hx). right. assumption.
Qed.

Lemma choose_client_extra c s xc :
  (forall x, In x xc -> ~ In x s) -> choose_alg (c ++ xc) s = choose_alg c s.
Proof.
  intros H. induction c as [|a c IH]; simpl.
  - apply choose_none. assumption.
  - rewrite IH. reflexivity.
Qed.

(* both roles compute the same choice: the client from (its list without markers, the server's KEXINIT
   list), the server from (the client's KEXINIT list, its list without markers) *)
Theorem choose_agree lc ls xc xs :
  (forall x, In x xs -> ~ In x lc) -> (forall x, In x xc -> ~ In x ls) ->
  side_choose true lc (ls ++ xs) = side_choose false ls (lc ++ xc).
Proof.
  intros H1 H2. unfold side_choose.
  rewrite choose_server_extra by assumption. rewrite choose_client_extra by assumption. reflexivity.
Qed.

(* ... and it is the first-match choice on the two lists as they appear in the KEXINITs, provided the
   marker entries of one side do not occur on the other side's KEXINIT list at all *)
Theorem choose_wire lc ls xc xs :
  (forall x, In x xs -> ~ In x (lc ++ xc)) -> (forall x, In x xc -> ~ In x ls) ->
  side_choose true lc (ls ++ xs) = choose_alg (lc ++ xc) (ls ++ xs) /\
  side_choose false ls (lc ++ xc) = choose_alg (lc ++ xc) (ls ++ xs).
Proof.
  intros H1 H2. unfold side_choose.
  rewrite (choose_server_extra (lc ++ xc) ls xs) by assumption.
  rewrite choose_server_extra.
  - rewrite choose_client_extra by assumption. split; reflexivity.
  - intros x Hx Hin. apply (H1 x Hx). apply in_or_app. left. assumption.
Qed.

(* every algorithm of a successful negotiation is the first entry of the client's list that the server
   also lists; with an AEAD cipher the MAC is the cipher itself *)
Definition mac_rule (needs_mac : bytes -> bool) (cm sm : list bytes) (enc mac : bytes) : Prop :=
  if needs_mac enc then first_match cm sm mac else mac = enc.

Theorem negotiate_first needs_mac c s r :
  negotiate needs_mac c s = Some r ->
  first_match (ki_kex c) (ki_kex s) (n_kex r) /\
  first_match (ki_hostkey c) (ki_hostkey s) (n_hostkey r) /\
  first_match (ki_enc_cs c) (ki_enc_cs s) (n_enc_cs r) /\
  first_match (ki_enc_sc c) (ki_enc_sc s) (n_enc_sc r) /\
  mac_rule needs_mac (ki_mac_cs c) (ki_mac_cs s) (n_enc_cs r) (n_mac_cs r) /\
  mac_rule needs_mac (ki_mac_sc c) (ki_mac_sc s) (n_enc_sc r) (n_mac_sc r) /\
  first_match (ki_cmp_cs c) (ki_cmp_cs s) (n_cmp_cs r) /\
  first_match (ki_cmp_sc c) (ki_cmp_sc s) (n_cmp_sc r).
Proof.
  unfold negotiate, bind, mac_rule. intros H.
  destruct (choose_alg (ki_kex c) (ki_kex s)) as [kex|] eqn:E1; [|discriminate].
  destruct (choose_alg (ki_hostkey c) (ki_hostkey s)) as [hk|] eqn:E2; [|discriminate].
  destruct (choose_alg (ki_enc_cs c) (ki_enc_cs s)) as [ecs|] eqn:E3; [|discriminate].
  destruct (choose_alg (ki_enc_sc c) (ki_enc_sc s)) as [esc|] eqn:E4; [|discriminate].
  destruct (if needs_mac ecs then choose_alg (ki_mac_cs c) (ki_mac_cs s) else Some ecs) as [mcs|] eqn:E5; [|discriminate].
  destruct (if needs_mac esc then choose_alg (ki_mac_sc c) (ki_mac_sc s) else Some esc) as [msc|] eqn:E6; [|discriminate].
  destruct (choose_alg (ki_cmp_cs c) (ki_cmp_cs s)) as [ccs|] eqn:E7; [|discriminate].
  destruct (choose_alg (ki_cmp_sc c) (ki_cmp_sc s)) as [csc|] eqn:E8; [|discriminate].
  injection H as <-. simpl.
  repeat split; try (apply choose_first; assumption).
  - destruct (needs_mac ecs); [apply choose_first; assumption|congruence].
  - destruct (needs_mac esc); [apply choose_first; assumption|congruence].
Qed.

(* ------------------------------------------------------------------------------------------ *)
(* range checks                                                                                 *)

Theorem client_range ec_ok p x :
  client_range_ok ec_ok p x = true ->
  match x with
  | KDH _ f => 1 <= f < p
  | KGEX _ p' _ _ f => 1 <= f < p'
  | KECDH _ qs => ec_ok qs = true
  | KRSA _ _ => True
  end.
Proof. destruct x; simpl; intros H; try lia; try assumption; exact I. Qed.

Theorem server_range ec_ok p x :
  server_range_ok ec_ok p x = true ->
  match x with
  | KDH e _ => 1 <= e < p
  | KGEX _ p' _ e _ => 1 <= e < p'
  | KECDH qc _ => ec_ok qc = true
  | KRSA _ _ => True
  end.
Proof. destruct x; simpl; intros H; try lia; try assumption; exact I. Qed.

(* the checks admit the degenerate values 1 and p-1 (RFC 8268 section 4 asks for 1 < x < p-1) *)
Theorem range_admits_degenerate :
  exists ec_ok p e f, 2 < p /\ client_range_ok ec_ok p (KDH e f) = true /\ server_range_ok ec_ok p (KDH e f) = true /\
                      ~ (1 < f < p - 1) /\ ~ (1 < e < p - 1).
Proof. exists (fun _ => true), 23, 22, 1. simpl. repeat split; lia. Qed.

(* ------------------------------------------------------------------------------------------ *)
(* binding                                                                                      *)

Definition collision (hash : bytes -> bytes) (a b : view) : Prop :=
  hash_input a <> hash_input b /\ hash (hash_input a) = hash (hash_input b).

Definition gex_confusion (a b : view) : Prop :=
  match kf a, kf b with
  | KGEX r p _ _ _, KGEX r' p' _ _ _ =>
      (zlen r = 4 /\ zlen r' = 12 /\ mp_nbytes p = get_u32 (firstn 4 (skipn 4 r'))) \/
      (zlen r' = 4 /\ zlen r = 12 /\ mp_nbytes p' = get_u32 (firstn 4 (skipn 4 r)))
  | _, _ => False
  end.

(* each side runs the handler family of the algorithm it negotiated from the two KEXINIT payloads it saw *)
Definition family_ok (famof : bytes -> Z) (v : view) : Prop :=
  exists alg, neg_kex (i_c v) (i_s v) = Some alg /\ shape_tag (kf v) = famof alg.

Lemma bytes_eq_dec (a b : bytes) : {a = b} + {a <> b}.
Proof. apply list_eq_dec, Z.eq_dec. Qed.

Section Binding.
  Variable hash : bytes -> bytes.
  (* verify key_blob message signature *)
  Variable verify : bytes -> bytes -> bytes -> bool.
  (* signed key_blob message: the holder of the private key belonging to key_blob produced a signature
     over exactly these bytes *)
  Variable signed : bytes -> bytes -> Prop.
  Hypothesis unforgeable : forall ks m s, verify ks m s = true -> signed ks m.
  Variable ec_ok : bytes -> bool.
  Variable famof : bytes -> Z.
  (* the sessions of the honest server, each described by the server's local view *)
  Variable server_session : view -> Prop.
  Hypothesis server_wf : forall v, server_session v -> wf v /\ family_ok famof v.

  Definition honest_signer (ks : bytes) : Prop :=
    forall m, signed ks m -> exists vS, server_session vS /\ m = hash (hash_input vS).

  Lemma accepted_hash vC p sig :
    client_accepts hash verify ec_ok p vC sig = true -> honest_signer (k_s vC) ->
    exists vS, server_session vS /\ hash (hash_input vC) = hash (hash_input vS).
  Proof.
    unfold client_accepts. intros H Hh. apply andb_true_iff in H as [_ H].
    apply unforgeable in H. apply Hh in H. exact H.
  Qed.

  (* versions, both KEXINIT payloads and the host key: no family hypothesis needed *)
  Theorem binding_prefix vC p sig :
    wf vC -> client_accepts hash verify ec_ok p vC sig = true -> honest_signer (k_s vC) ->
    exists vS, server_session vS /\
      ((v_c vC = v_c vS /\ v_s vC = v_s vS /\ i_c vC = i_c vS /\ i_s vC = i_s vS /\ k_s vC = k_s vS) \/
       collision hash vC vS).
  Proof.
    intros Hw Ha Hh. destruct (accepted_hash vC p sig Ha Hh) as (vS & Hs & HH).
    exists vS. split; [assumption|].
    destruct (bytes_eq_dec (hash_input vC) (hash_input vS)) as [E|N].
    - left. destruct (server_wf vS Hs) as [Hws _].
      destruct (prefix_inj vC vS Hw Hws E) as (E1 & E2 & E3 & E4 & E5 & _). repeat split; assumption.
    - right. split; assumption.
  Qed.

  Theorem binding vC p sig :
    wf vC -> family_ok famof vC ->
    client_accepts hash verify ec_ok p vC sig = true -> honest_signer (k_s vC) ->
    exists vS, server_session vS /\ (vC = vS \/ collision hash vC vS \/ gex_confusion vC vS).
  Proof.
    intros Hw Hf Ha Hh. destruct (accepted_hash vC p sig Ha Hh) as (vS & Hs & HH).
    exists vS. split; [assumption|].
    destruct (bytes_eq_dec (hash_input vC) (hash_input vS)) as [E|N]; [|right; left; split; assumption].
    destruct (server_wf vS Hs) as [Hws Hfs].
    destruct (prefix_inj vC vS Hw Hws E) as (E1 & E2 & E3 & E4 & E5 & E6).
    destruct Hf as (alg & Hn & Ht), Hfs as (alg' & Hn' & Ht').
    rewrite E3, E4, Hn' in Hn. injection Hn as <-. rewrite <- Ht' in Ht.
    assert (Wc : kf_wf (kf vC)) by (destruct Hw as (_ & _ & _ & _ & _ & W); exact W).
    assert (Ws : kf_wf (kf vS)) by (destruct Hws as (_ & _ & _ & _ & _ & W); exact W).
    destruct (kf vC) as [e f|rq pp g e f|qc qs|tk ek] eqn:KC, (kf vS) as [e' f'|rq' pp' g' e' f'|qc' qs'|tk' ek'] eqn:KS;
      simpl in Ht; try discriminate.
    - left. apply hash_input_inj; try assumption. rewrite KC, KS. exact I.
    - destruct Wc as (Lc & Wp & _), Ws as (Ls & Wp' & _).
      destruct Lc as [Lc|Lc], Ls as [Ls|Ls].
      + left. apply hash_input_inj; try assumption. rewrite KC, KS. simpl. lia.
      + right. right. unfold gex_confusion. rewrite KC, KS. left.
        repeat split; try assumption. eapply gex_forms; eassumption.
      + right. right. unfold gex_confusion. rewrite KC, KS. right.
        repeat split; try assumption. symmetry in E6. eapply gex_forms; eassumption.
      + left. apply hash_input_inj; try assumption. rewrite KC, KS. simpl. lia.
    - left. apply hash_input_inj; try assumption. rewrite KC, KS. exact I.
    - left. apply hash_input_inj; try assumption. rewrite KC, KS. exact I.
  Qed.

  (* no silent downgrade: on acceptance both sides evaluated the negotiation on the same two payloads *)
  Theorem no_downgrade needs_mac vC p sig :
    wf vC -> client_accepts hash verify ec_ok p vC sig = true -> honest_signer (k_s vC) ->
    exists vS, server_session vS /\
      (negotiate_payloads needs_mac (i_c vC) (i_s vC) = negotiate_payloads needs_mac (i_c vS) (i_s vS) \/
       collision hash vC vS).
  Proof.
    intros Hw Ha Hh. destruct (binding_prefix vC p sig Hw Ha Hh) as (vS & Hs & [(E1 & E2 & E3 & E4 & E5)|C]).
    - exists vS. split; [assumption|]. left. rewrite E3, E4. reflexivity.
    - exists vS. split; [assumption|]. right. assumption.
  Qed.

  (* the value a kex-waiting caller (get_server_host_key) receives is the key under which the signature over
     the hash of the client's whole view verified *)
  Theorem returned_key vC p sig k :
    wf vC -> kex_wait_result hash verify ec_ok p vC sig = Some k -> honest_signer k ->
    exists vS, server_session vS /\
      ((k = k_s vS /\ v_c vC = v_c vS /\ v_s vC = v_s vS /\ i_c vC = i_c vS /\ i_s vC = i_s vS) \/
       collision hash vC vS).
  Proof.
    unfold kex_wait_result. intros Hw Hr Hh.
    destruct (client_accepts hash verify ec_ok p vC sig) eqn:Ha; [|discriminate].
    injection Hr as <-.
    destruct (binding_prefix vC p sig Hw Ha Hh) as (vS & Hs & [(E1 & E2 & E3 & E4 & E5)|C]).
    - exists vS. split; [assumption|]. left. repeat split; assumption.
    - exists vS. split; [assumption|]. right. assumption.
  Qed.

  Theorem accepted_range vC p sig :
    client_accepts hash verify ec_ok p vC sig = true ->
    match kf vC with
    | KDH _ f => 1 <= f < p
    | KGEX _ p' _ _ f => 1 <= f < p'
    | KECDH _ qs => ec_ok qs = true
    | KRSA _ _ => True
    end.
  Proof.
    unfold client_accepts. intros H. apply andb_true_iff in H as [H _]. apply client_range in H. exact H.
  Qed.
End Binding.
