(* Proofs about the key file format model (Model/KeyFmt.v). *)
From AV Require Import Base.Prelude Model.DER Model.KeyFmt Proofs.DERProofs.

Definition is_byte (x : Z) : Prop := 0 <= x < 256.

(* ------------------------------------------------------------------------------------------- *)
(* base64 alphabet: 64 cases checked by computation *)

Lemma upto_64 (P : Z -> bool) :
  forallb P (map Z.of_nat (seq 0 64)) = true -> forall n, 0 <= n < 64 -> P n = true.
Proof.
  intros H n Hn. rewrite forallb_forall in H. apply H.
  apply in_map_iff. exists (Z.to_nat n). split; [lia|]. apply in_seq. lia.
Qed.

Lemma b64_val_char n : 0 <= n < 64 -> b64_val (b64_char n) = Some n.
Proof.
  intros Hn.
  pose proof (upto_64 (fun n => option_eqb Z.eqb (b64_val (b64_char n)) (Some n)) eq_refl n Hn) as H.
  cbn beta in H. destruct (b64_val (b64_char n)) as [v|]; cbn in H; [|discriminate].
  apply Z.eqb_eq in H. congruence.
Qed.

Lemma b64_char_not_pad n : 0 <= n < 64 -> (b64_char n =? PAD) = false.
Proof.
  intros Hn. pose proof (upto_64 (fun n => negb (b64_char n =? PAD)) eq_refl n Hn) as H.
  cbn beta in H. apply negb_true_iff in H. exact H.
Qed.

Lemma b64_char_not_nl n : 0 <= n < 64 -> b64_char n <> NL.
Proof.
  intros Hn. pose proof (upto_64 (fun n => negb (b64_char n =? NL)) eq_refl n Hn) as H.
  cbn beta in H. apply negb_true_iff in H. apply Z.eqb_neq in H. exact H.
Qed.

(* one data character *)
Lemma a2b_go_char q l p n r : 0 <= n < 64 ->
  a2b_go q l p (b64_char n :: r) =
  if q =? 0 then a2b_go 1 n 0 r
  else if q =? 1 then option_map (cons (l * 4 + n / 16)) (a2b_go 2 (n mod 16) 0 r)
  else if q =? 2 then option_map (cons (l * 16 + n / 4)) (a2b_go 3 (n mod 4) 0 r)
  else option_map (cons (l * 64 + n)) (a2b_go 0 0 0 r).
Proof.
  intros Hn. cbn [a2b_go]. rewrite b64_char_not_pad, b64_val_char by assumption. reflexivity.
Qed.

(* induction three elements at a time *)
Lemma list_ind3 {A} (P : list A -> Prop) :
  P [] -> (forall a, P [a]) -> (forall a b, P [a; b]) ->
  (forall a b c r, P r -> P (a :: b :: c :: r)) -> forall l, P l.
Proof.
  intros H0 H1 H2 H3.
  assert (H : forall n l, (length l <= n)%nat -> P l).
  { induction n as [|n IH]; intros l Hl.
    - destruct l; [exact H0|cbn in Hl; lia].
    - destruct l as [|a [|b [|c r]]]; auto. apply H3. apply IH. cbn in Hl. lia. }
  intros l. apply (H (length l)). lia.
Qed.

Theorem a2b_b2a data : Forall is_byte data -> a2b (b2a data) = Some data.
Proof.
  unfold a2b. induction data as [|a|a b|a b c r IH] using list_ind3; intros Hb.
  - reflexivity.
  - inversion Hb as [|? ? Ha _]; subst. unfold is_byte in Ha. cbn [b2a].
    rewrite a2b_go_char by lia. cbn [Z.eqb]. rewrite a2b_go_char by lia. cbn [Z.eqb Pos.eqb].
    cbn [a2b_go]. cbn [PAD Z.eqb Pos.eqb Z.leb Z.compare Pos.compare Pos.compare_cont Z.add Pos.add Pos.succ option_map].
    f_equal. f_equal. lia.
  - inversion Hb as [|? ? Ha Hb']; subst. inversion Hb' as [|? ? Hb0 _]; subst.
    unfold is_byte in Ha, Hb0. cbn [b2a].
    rewrite a2b_go_char by lia. cbn [Z.eqb]. rewrite a2b_go_char by lia. cbn [Z.eqb Pos.eqb].
    rewrite a2b_go_char by lia. cbn [Z.eqb Pos.eqb].
    cbn [a2b_go]. cbn [PAD Z.eqb Pos.eqb Z.leb Z.compare Pos.compare Pos.compare_cont Z.add Pos.add Pos.succ option_map].
    f_equal. f_equal; [lia|]. f_equal. lia.
  - inversion Hb as [|? ? Ha Hb1]; subst. inversion Hb1 as [|? ? Hb0 Hb2]; subst.
    inversion Hb2 as [|? ? Hc Hr]; subst. unfold is_byte in Ha, Hb0, Hc. cbn [b2a].
    rewrite a2b_go_char by lia. cbn [Z.eqb]. rewrite a2b_go_char by lia. cbn [Z.eqb Pos.eqb].
    rewrite a2b_go_char by lia. cbn [Z.eqb Pos.eqb]. rewrite a2b_go_char by lia. cbn [Z.eqb Pos.eqb].
    rewrite (IH Hr). cbn [option_map]. f_equal. f_equal; [lia|]. f_equal; [lia|]. f_equal. lia.
Qed.

(* characters that a2b_base64 looks at: the alphabet and '=' *)
Definition b64_relevant (c : Z) : bool :=
  (c =? PAD) || match b64_val c with Some _ => true | None => false end.

Lemma a2b_go_ignores_junk s : forall q l p,
  a2b_go q l p s = a2b_go q l p (filter b64_relevant s).
Proof.
  induction s as [|c s IH]; intros q l p; [reflexivity|].
  cbn [filter]. unfold b64_relevant at 1.
  destruct (c =? PAD) eqn:E.
  - cbn [orb a2b_go]. rewrite E.
    destruct (2 <=? q); [|apply IH]. destruct (4 <=? q + (p + 1)); [reflexivity|apply IH].
  - cbn [orb]. destruct (b64_val c) as [v|] eqn:Ev.
    + cbn [a2b_go]. rewrite E, Ev.
      destruct (q =? 0); [apply IH|]. destruct (q =? 1); [rewrite IH; reflexivity|].
      destruct (q =? 2); rewrite IH; reflexivity.
    + cbn [a2b_go]. rewrite E, Ev. apply IH.
Qed.

Lemma b2a_relevant data : Forall is_byte data -> forallb b64_relevant (b2a data) = true.
Proof.
  assert (Hc : forall n, 0 <= n < 64 -> b64_relevant (b64_char n) = true).
  { intros n Hn. unfold b64_relevant. rewrite b64_val_char by assumption. apply orb_true_r. }
  induction data as [|a|a b|a b c r IH] using list_ind3; intros Hb.
  - reflexivity.
  - inversion Hb as [|? ? Ha _]; subst. unfold is_byte in Ha. cbn [b2a forallb].
    rewrite !Hc by lia. reflexivity.
  - inversion Hb as [|? ? Ha Hb']; subst. inversion Hb' as [|? ? Hb0 _]; subst.
    unfold is_byte in Ha, Hb0. cbn [b2a forallb]. rewrite !Hc by lia. reflexivity.
  - inversion Hb as [|? ? Ha Hb1]; subst. inversion Hb1 as [|? ? Hb0 Hb2]; subst.
    inversion Hb2 as [|? ? Hc0 Hr]; subst. unfold is_byte in Ha, Hb0, Hc0. cbn [b2a forallb].
    rewrite !Hc by lia. rewrite (IH Hr). reflexivity.
Qed.

Lemma filter_all_true {A} (f : A -> bool) l : forallb f l = true -> filter f l = l.
Proof.
  induction l as [|x l IH]; intros H; [reflexivity|]. cbn in *.
  apply andb_true_iff in H as [Hx Hl]. rewrite Hx, IH by assumption. reflexivity.
Qed.

(* base64 text survives any insertion of characters outside the alphabet (line folding at any
   width, CR LF, blanks, ...) *)
Theorem a2b_b2a_with_junk data s :
  Forall is_byte data -> filter b64_relevant s = b2a data -> a2b s = Some data.
Proof.
  intros Hb Hs. unfold a2b. rewrite a2b_go_ignores_junk, Hs. apply a2b_b2a. exact Hb.
Qed.

Lemma filter_fold_lines wrap t : forall k,
  forallb b64_relevant t = true -> filter b64_relevant (fold_lines wrap k t) = t.
Proof.
  induction t as [|c t IH]; intros k H; [reflexivity|].
  cbn in H. apply andb_true_iff in H as [Hc Ht]. cbn [fold_lines].
  destruct k as [|k'].
  - cbn [filter]. change (b64_relevant NL) with false. cbn iota. rewrite Hc, IH by assumption. reflexivity.
  - cbn [filter]. rewrite Hc, IH by assumption. reflexivity.
Qed.

Theorem a2b_folded data wrap k :
  Forall is_byte data -> a2b (fold_lines wrap k (b2a data)) = Some data.
Proof.
  intros Hb. apply a2b_b2a_with_junk; [exact Hb|]. apply filter_fold_lines. apply b2a_relevant. exact Hb.
Qed.

(* ------------------------------------------------------------------------------------------- *)
(* SSH wire strings *)

Lemma get_bytes_app a r : get_bytes (zlen a) (a ++ r) = Some (a, r).
Proof.
  unfold get_bytes. rewrite zlen_app.
  destruct (zlen a + zlen r <? zlen a) eqn:E; [apply Z.ltb_lt in E; pose proof (zlen_nonneg r); lia|].
  rewrite firstn_zlen_app, skipn_zlen_app. reflexivity.
Qed.

Lemma u32_spec n : 0 <= n < 2 ^ 32 ->
  exists digs, u32 n = digs /\ length digs = 4%nat /\ undigits 256 digs = n.
Proof.
  intros Hn. unfold u32. destruct (be_fixed_spec 4 n []) as (digs & Heq & Hl & _ & Hu).
  rewrite app_nil_r in Heq. exists digs. split; [exact Heq|]. split; [exact Hl|].
  rewrite Hu. change (256 ^ Z.of_nat 4) with (2 ^ 32). apply Z.mod_small. exact Hn.
Qed.

Lemma get_u32_bytes c r : length c = 4%nat -> get_u32 (c ++ r) = Some (undigits 256 c, r).
Proof.
  intros Hc. unfold get_u32. replace 4 with (zlen c) by (unfold zlen; rewrite Hc; reflexivity).
  rewrite get_bytes_app. reflexivity.
Qed.

Lemma get_u32_u32 n r : 0 <= n < 2 ^ 32 -> get_u32 (u32 n ++ r) = Some (n, r).
Proof.
  intros Hn. destruct (u32_spec n Hn) as (digs & -> & Hl & Hu). rewrite get_u32_bytes by exact Hl.
  rewrite Hu. reflexivity.
Qed.

Lemma get_string_sshstring s r : zlen s < 2 ^ 32 -> get_string (sshstring s ++ r) = Some (s, r).
Proof.
  intros Hs. unfold get_string, sshstring. rewrite <- app_assoc.
  rewrite get_u32_u32 by (pose proof (zlen_nonneg s); lia). apply get_bytes_app.
Qed.

Lemma count_from_length k n : length (count_from k n) = n.
Proof. revert k. induction n as [|n IH]; intros k; cbn; [reflexivity|]. rewrite IH. reflexivity. Qed.

(* ------------------------------------------------------------------------------------------- *)
(* openssh-key-v1 container *)

Lemma openssh_pad_shape bs data : 0 < bs <= 255 ->
  exists k, openssh_pad bs data = data ++ count_from 1 k /\ (Z.of_nat k < 256).
Proof.
  intros Hbs. unfold openssh_pad. destruct (zlen data mod bs =? 0) eqn:E.
  - exists O. rewrite app_nil_r. split; [reflexivity|lia].
  - exists (Z.to_nat (bs - zlen data mod bs)). split; [reflexivity|].
    pose proof (Z.mod_pos_bound (zlen data) bs ltac:(lia)). lia.
Qed.

Section OpenSSHBasic.
  Variable params : Type.
  Variable enc_priv : params -> bytes.
  Variable dec_priv : bytes -> option (params * bytes).
  Variable cipher_known : bytes -> bool.
  Variable block_size : bytes -> Z.
  Variable kdf : bytes -> bytes -> Z -> bytes -> bytes.
  Variable encrypt : bytes -> bytes -> bytes -> bytes * bytes.
  Variable decrypt : bytes -> bytes -> bytes -> bytes -> option bytes.
  Let decode := openssh_decode params dec_priv cipher_known kdf decrypt.
  Let encode := openssh_encode params enc_priv block_size kdf encrypt.
  Let section_ := openssh_private_section params dec_priv.

  Lemma decode_assembled alg kdfn kdfd pub keydata mac pass :
    zlen alg < 2 ^ 32 -> zlen kdfn < 2 ^ 32 -> zlen kdfd < 2 ^ 32 -> zlen pub < 2 ^ 32 -> zlen keydata < 2 ^ 32 ->
    decode (OPENSSH_KEY_V1 ++ sshstring alg ++ sshstring kdfn ++ sshstring kdfd ++ u32 1 ++
            sshstring pub ++ sshstring keydata ++ mac) pass =
    match openssh_decrypt cipher_known kdf decrypt alg kdfn kdfd keydata mac pass with
    | OErr e => OErr e
    | OOk kd => section_ (negb (zlist_eqb alg NONE_)) kd
    end.
  Proof.
    intros H1 H2 H3 H4 H5. unfold decode, openssh_decode.
    assert (Hp : zprefix OPENSSH_KEY_V1 (OPENSSH_KEY_V1 ++ sshstring alg ++ sshstring kdfn ++ sshstring kdfd ++
                  u32 1 ++ sshstring pub ++ sshstring keydata ++ mac) = true).
    { apply zprefix_spec. eexists. reflexivity. }
    rewrite Hp. cbn [negb].
    replace (length OPENSSH_KEY_V1) with (Z.to_nat (zlen OPENSSH_KEY_V1)) by reflexivity.
    rewrite skipn_zlen_app.
    rewrite get_string_sshstring by exact H1. rewrite get_string_sshstring by exact H2.
    rewrite get_string_sshstring by exact H3. rewrite get_u32_u32 by lia.
    rewrite get_string_sshstring by exact H4. rewrite get_string_sshstring by exact H5.
    reflexivity.
  Qed.

  (* differing check integers are always rejected (this is how a wrong passphrase is detected for
     ciphers without a MAC) *)
  Theorem openssh_check_mismatch_rejected encrypted c1 c2 rest :
    length c1 = 4%nat -> length c2 = 4%nat -> undigits 256 c1 <> undigits 256 c2 ->
    section_ encrypted (c1 ++ c2 ++ rest) = OErr (if encrypted then OEncryptionErr else OImportErr).
  Proof.
    intros H1 H2 Hne. unfold section_, openssh_private_section.
    rewrite get_u32_bytes by exact H1. rewrite get_u32_bytes by exact H2.
    destruct (undigits 256 c1 =? undigits 256 c2) eqn:E; [apply Z.eqb_eq in E; contradiction|]. reflexivity.
  Qed.

  (* a wrong passphrase: whatever the cipher returns under the wrong key -- nothing (MAC/tag failure)
     or a plaintext whose two check integers differ -- the import fails with KeyEncryptionError.
     (That a wrong key makes the check integers differ is a property of the cipher, not proved.) *)
  Theorem openssh_wrong_passphrase_rejected_partial alg salt rounds pub data mac pass' :
    zlen alg < 2 ^ 32 -> zlen salt < 2 ^ 32 - 8 -> 0 <= rounds < 2 ^ 32 -> zlen pub < 2 ^ 32 -> zlen data < 2 ^ 32 ->
    cipher_known alg = true -> zlist_eqb alg NONE_ = false ->
    (decrypt alg (kdf alg pass' rounds salt) data mac = None \/
     exists c1 c2 rest, decrypt alg (kdf alg pass' rounds salt) data mac = Some (c1 ++ c2 ++ rest) /\
                        length c1 = 4%nat /\ length c2 = 4%nat /\ undigits 256 c1 <> undigits 256 c2) ->
    decode (OPENSSH_KEY_V1 ++ sshstring alg ++ sshstring BCRYPT_ ++ sshstring (sshstring salt ++ u32 rounds) ++
            u32 1 ++ sshstring pub ++ sshstring data ++ mac) (Some pass') = OErr OEncryptionErr.
  Proof.
    intros Halg Hsalt Hrounds Hpub Hdata Hknown Hnone Hdec.
    assert (Hkd : zlen (sshstring salt ++ u32 rounds) < 2 ^ 32).
    { unfold sshstring. rewrite !zlen_app. destruct (u32_spec rounds Hrounds) as (d1 & -> & Hl1 & _).
      destruct (u32_spec (zlen salt) ltac:(pose proof (zlen_nonneg salt); lia)) as (d2 & -> & Hl2 & _).
      unfold zlen at 1 3. rewrite Hl1, Hl2. lia. }
    rewrite decode_assembled; try assumption; try (vm_compute; reflexivity).
    unfold openssh_decrypt. rewrite Hnone, Hknown. change (zlist_eqb BCRYPT_ BCRYPT_) with true. cbn [negb].
    rewrite get_string_sshstring by lia.
    replace (u32 rounds) with (u32 rounds ++ []) by apply app_nil_r. rewrite get_u32_u32 by exact Hrounds.
    destruct Hdec as [->|(c1 & c2 & rest & -> & H1 & H2 & Hne)]; [reflexivity|].
    apply (openssh_check_mismatch_rejected true); assumption.
  Qed.
End OpenSSHBasic.

Section OpenSSHHandler.
  Variable params : Type.
  Variable enc_priv : params -> bytes.
  Variable dec_priv : bytes -> option (params * bytes).
  Variable cipher_known : bytes -> bool.
  Variable block_size : bytes -> Z.
  Variable kdf : bytes -> bytes -> Z -> bytes -> bytes.
  Variable encrypt : bytes -> bytes -> bytes -> bytes * bytes.
  Variable decrypt : bytes -> bytes -> bytes -> bytes -> option bytes.
  (* what the key handler guarantees: its own encoding is read back, the rest is left alone *)
  Hypothesis dec_enc_priv : forall p rest, dec_priv (enc_priv p ++ rest) = Some (p, rest).
  Let decode := openssh_decode params dec_priv cipher_known kdf decrypt.
  Let encode := openssh_encode params enc_priv block_size kdf encrypt.
  Let section_ := openssh_private_section params dec_priv.

  (* the decrypted private section produced by export is read back, whatever the comment bytes *)
  Lemma private_section_roundtrip encrypted check p comment bs :
    length check = 4%nat -> zlen comment < 2 ^ 32 -> 0 < bs <= 255 ->
    section_ encrypted (openssh_pad bs (check ++ check ++ enc_priv p ++ sshstring comment)) = OOk (p, comment).
  Proof.
    intros Hc Hcm Hbs. destruct (openssh_pad_shape bs (check ++ check ++ enc_priv p ++ sshstring comment) Hbs)
      as (k & -> & Hk).
    unfold section_, openssh_private_section. rewrite <- !app_assoc.
    rewrite get_u32_bytes by exact Hc. rewrite get_u32_bytes by exact Hc.
    rewrite Z.eqb_refl. cbn [negb]. rewrite dec_enc_priv. rewrite get_string_sshstring by exact Hcm.
    rewrite count_from_length, zlist_eqb_refl. unfold zlen. rewrite count_from_length.
    destruct (256 <=? Z.of_nat k) eqn:E; [apply Z.leb_le in E; lia|]. reflexivity.
  Qed.

  (* which trailing paddings the importer accepts: exactly 1,2,..,k for every k below 256 (OpenSSH pads
     0..7 bytes, cryptography 1..8, other writers to larger blocks) *)
  Lemma private_section_padding_accepted encrypted check p comment k :
    length check = 4%nat -> zlen comment < 2 ^ 32 -> (k < 256)%nat ->
    section_ encrypted (check ++ check ++ enc_priv p ++ sshstring comment ++ count_from 1 k) = OOk (p, comment).
  Proof.
    intros Hc Hcm Hk. unfold section_, openssh_private_section.
    rewrite get_u32_bytes by exact Hc. rewrite get_u32_bytes by exact Hc.
    rewrite Z.eqb_refl. cbn [negb]. rewrite dec_enc_priv. rewrite get_string_sshstring by exact Hcm.
    rewrite count_from_length, zlist_eqb_refl. unfold zlen. rewrite count_from_length.
    destruct (256 <=? Z.of_nat k) eqn:E; [apply Z.leb_le in E; lia|]. reflexivity.
  Qed.

  (* export then import of an unencrypted container: equal key parameters and the same comment, for
     every comment byte string *)
  Theorem openssh_container_roundtrip check p comment pub :
    length check = 4%nat -> zlen comment < 2 ^ 32 -> zlen pub < 2 ^ 32 ->
    zlen (openssh_pad 8 (check ++ check ++ enc_priv p ++ sshstring comment)) < 2 ^ 32 ->
    decode (encode check p comment pub None) None = OOk (p, comment).
  Proof.
    intros Hc Hcm Hpub Hlen. unfold encode, openssh_encode.
    replace (sshstring (openssh_pad 8 (check ++ check ++ enc_priv p ++ sshstring comment)))
      with (sshstring (openssh_pad 8 (check ++ check ++ enc_priv p ++ sshstring comment)) ++ []) by apply app_nil_r.
    unfold decode. rewrite decode_assembled; try assumption; try (vm_compute; reflexivity).
    unfold openssh_decrypt. change (zlist_eqb NONE_ NONE_) with true. cbn [negb].
    apply private_section_roundtrip; [assumption|assumption|lia].
  Qed.

  (* padding other than 1,2,3,... (or 256 bytes and more) is rejected *)
  Theorem openssh_bad_padding_rejected encrypted check p comment pad :
    length check = 4%nat -> zlen comment < 2 ^ 32 ->
    pad <> count_from 1 (length pad) \/ 256 <= zlen pad ->
    section_ encrypted (check ++ check ++ enc_priv p ++ sshstring comment ++ pad) = OErr OImportErr.
  Proof.
    intros Hc Hcm Hpad. unfold section_, openssh_private_section.
    rewrite get_u32_bytes by exact Hc. rewrite get_u32_bytes by exact Hc.
    rewrite Z.eqb_refl. cbn [negb]. rewrite dec_enc_priv. rewrite get_string_sshstring by exact Hcm.
    destruct Hpad as [Hpad|Hpad].
    - destruct (zlist_eqb pad (count_from 1 (length pad))) eqn:E; [apply zlist_eqb_spec in E; contradiction|].
      cbn [negb]. rewrite orb_true_r. reflexivity.
    - destruct (256 <=? zlen pad) eqn:E; [reflexivity|apply Z.leb_gt in E; lia].
  Qed.
End OpenSSHHandler.

Section OpenSSHCipher.
  Variable params : Type.
  Variable enc_priv : params -> bytes.
  Variable dec_priv : bytes -> option (params * bytes).
  Variable cipher_known : bytes -> bool.
  Variable block_size : bytes -> Z.
  Variable kdf : bytes -> bytes -> Z -> bytes -> bytes.
  Variable encrypt : bytes -> bytes -> bytes -> bytes * bytes.
  Variable decrypt : bytes -> bytes -> bytes -> bytes -> option bytes.
  Hypothesis dec_enc_priv : forall p rest, dec_priv (enc_priv p ++ rest) = Some (p, rest).
  (* what the cipher guarantees *)
  Hypothesis decrypt_encrypt : forall alg k d,
    decrypt alg k (fst (encrypt alg k d)) (snd (encrypt alg k d)) = Some d.
  Let decode := openssh_decode params dec_priv cipher_known kdf decrypt.
  Let encode := openssh_encode params enc_priv block_size kdf encrypt.
  Let section_ := openssh_private_section params dec_priv.

  (* ... and of an encrypted one, given the cipher law *)
  Theorem openssh_container_roundtrip_encrypted check p comment pub alg pass salt rounds :
    length check = 4%nat -> zlen comment < 2 ^ 32 -> zlen pub < 2 ^ 32 ->
    zlen alg < 2 ^ 32 -> zlen salt < 2 ^ 32 - 8 -> 0 <= rounds < 2 ^ 32 ->
    cipher_known alg = true -> zlist_eqb alg NONE_ = false -> 0 < block_size alg <= 255 ->
    (let plain := openssh_pad (Z.max (block_size alg) 8) (check ++ check ++ enc_priv p ++ sshstring comment) in
     zlen (fst (encrypt alg (kdf alg pass rounds salt) plain)) < 2 ^ 32) ->
    decode (encode check p comment pub (Some (alg, pass, salt, rounds))) (Some pass) = OOk (p, comment).
  Proof.
    intros Hc Hcm Hpub Halg Hsalt Hrounds Hknown Hnone Hbs Hlen. cbn zeta in Hlen.
    unfold encode, openssh_encode.
    set (plain := openssh_pad (Z.max (block_size alg) 8) (check ++ check ++ enc_priv p ++ sshstring comment)) in *.
    pose proof (decrypt_encrypt alg (kdf alg pass rounds salt) plain) as Hde.
    destruct (encrypt alg (kdf alg pass rounds salt) plain) as [data mac] eqn:Henc. cbn [fst snd] in *.
    assert (Hkd : zlen (sshstring salt ++ u32 rounds) < 2 ^ 32).
    { unfold sshstring. rewrite !zlen_app. destruct (u32_spec rounds Hrounds) as (d1 & -> & Hl1 & _).
      destruct (u32_spec (zlen salt) ltac:(pose proof (zlen_nonneg salt); lia)) as (d2 & -> & Hl2 & _).
      unfold zlen at 1 3. rewrite Hl1, Hl2. lia. }
    unfold decode. rewrite decode_assembled; try assumption; try (vm_compute; reflexivity).
    unfold openssh_decrypt. rewrite Hnone, Hknown. change (zlist_eqb BCRYPT_ BCRYPT_) with true. cbn [negb].
    rewrite get_string_sshstring by lia.
    replace (u32 rounds) with (u32 rounds ++ []) by apply app_nil_r. rewrite get_u32_u32 by exact Hrounds.
    rewrite Hde. subst plain. apply (private_section_roundtrip params enc_priv dec_priv cipher_known block_size kdf encrypt decrypt dec_enc_priv); [assumption|assumption|lia].
  Qed.
End OpenSSHCipher.

(* ------------------------------------------------------------------------------------------- *)
(* RFC 1423 padding *)

Lemma repeat_rev {A} (x : A) n : rev (repeat x n) = repeat x n.
Proof.
  induction n as [|n IH]; [reflexivity|]. cbn [repeat rev]. rewrite IH.
  clear IH. induction n as [|n IH]; [reflexivity|]. cbn [repeat app]. rewrite IH. reflexivity.
Qed.

Theorem rfc1423_unpad_pad bs data : 0 < bs -> rfc1423_unpad bs (rfc1423_pad bs data) = Some data.
Proof.
  intros Hbs. unfold rfc1423_pad, rfc1423_unpad.
  set (pad := bs - zlen data mod bs).
  assert (Hp : 1 <= pad <= bs) by (pose proof (Z.mod_pos_bound (zlen data) bs Hbs); lia).
  assert (Hn : Z.to_nat pad = S (Z.to_nat (pad - 1))) by lia.
  rewrite rev_app_distr, repeat_rev. rewrite Hn at 1. cbn [repeat app].
  assert (Hlen : (length (data ++ repeat pad (Z.to_nat pad)) - Z.to_nat pad = length data)%nat).
  { rewrite app_length, repeat_length. lia. }
  rewrite Hlen. rewrite skipn_app, Nat.sub_diag, skipn_all. cbn [skipn app].
  rewrite firstn_app, Nat.sub_diag, firstn_all. cbn [firstn]. rewrite app_nil_r.
  rewrite zlist_eqb_refl.
  destruct (1 <=? pad) eqn:E1; [|apply Z.leb_gt in E1; lia].
  destruct (pad <=? bs) eqn:E2; [|apply Z.leb_gt in E2; lia]. reflexivity.
Qed.

(* ------------------------------------------------------------------------------------------- *)
(* PKCS#8 / PKCS#1 wrappers around DER *)

Theorem rsa_pkcs8_roundtrip n e d p q dmp1 dmq1 iqmp :
  good (rsa_pkcs1_private n e d p q dmp1 dmq1 iqmp) = true ->
  good (pkcs8_private RSA_OID (Some VNull) (enc (rsa_pkcs1_private n e d p q dmp1 dmq1 iqmp))) = true ->
  rsa_pkcs8_import (rsa_pkcs8_export n e d p q dmp1 dmq1 iqmp) = Some [n; e; d; p; q; dmp1; dmq1; iqmp].
Proof.
  intros H1 H2. unfold rsa_pkcs8_import, rsa_pkcs8_export.
  rewrite (der_roundtrip _ H2). cbn [pkcs8_private pkcs8_private_shape is_0_or_1].
  change ((0 =? 0) || (0 =? 1)) with true. cbn iota. change (zlist_eqb RSA_OID RSA_OID) with true. cbn iota.
  unfold rsa_decode_pkcs8_private. rewrite (der_roundtrip _ H1). reflexivity.
Qed.

(* ------------------------------------------------------------------------------------------- *)
(* text formats: line splitting and blanks *)

Definition no_nl (s : bytes) : Prop := ~ In NL s.
Definition no_ws (s : bytes) : bool := forallb (fun c => negb (is_ws c)) s.

Lemma split_nl_app s t : no_nl s -> split_nl (s ++ NL :: t) = s :: split_nl t.
Proof.
  induction s as [|c s IH]; intros H.
  - cbn [app split_nl]. change (NL =? NL) with true. reflexivity.
  - cbn [app split_nl]. destruct (c =? NL) eqn:E; [apply Z.eqb_eq in E; subst; exfalso; apply H; left; reflexivity|].
    rewrite IH by (intros Hin; apply H; right; exact Hin). reflexivity.
Qed.

Lemma split_nl_nonl s : no_nl s -> split_nl s = [s].
Proof.
  induction s as [|c s IH]; intros H; [reflexivity|].
  cbn [split_nl]. destruct (c =? NL) eqn:E; [apply Z.eqb_eq in E; subst; exfalso; apply H; left; reflexivity|].
  rewrite IH by (intros Hin; apply H; right; exact Hin). reflexivity.
Qed.

Lemma join_split_nl s : join_nl (split_nl s) = s.
Proof.
  induction s as [|c s IH]; [reflexivity|]. cbn [split_nl].
  destruct (c =? NL) eqn:E.
  - apply Z.eqb_eq in E. subst. destruct (split_nl s) as [|h t] eqn:Hs.
    + destruct s; cbn in Hs; [discriminate|]. destruct (z =? NL); [discriminate|]. destruct (split_nl s); discriminate.
    + cbn [join_nl app]. rewrite <- IH. reflexivity.
  - destruct (split_nl s) as [|h t] eqn:Hs.
    + destruct s; cbn in Hs; [discriminate|]. destruct (z =? NL); [discriminate|]. destruct (split_nl s); discriminate.
    + rewrite <- IH. destruct t; reflexivity.
Qed.

Lemma no_ws_no_nl s : no_ws s = true -> no_nl s.
Proof.
  unfold no_ws, no_nl. rewrite forallb_forall. intros H Hin. specialize (H NL Hin). discriminate.
Qed.

Lemma no_nl_app a b : no_nl a -> no_nl b -> no_nl (a ++ b).
Proof. unfold no_nl. intros Ha Hb Hin. apply in_app_or in Hin. tauto. Qed.

Lemma lstrip_nows c r : is_ws c = false -> lstrip (c :: r) = c :: r.
Proof. intros H. cbn [lstrip]. rewrite H. reflexivity. Qed.

Lemma rstrip_nows s c : is_ws c = false -> rstrip (s ++ [c]) = s ++ [c].
Proof.
  intros H. unfold rstrip. rewrite rev_app_distr. cbn [rev app]. rewrite lstrip_nows by exact H.
  change (c :: rev s) with ([c] ++ rev s). rewrite rev_app_distr, rev_involutive. reflexivity.
Qed.

(* take_word stops at the first blank *)
Lemma take_word_app w r : no_ws w = true -> (r = [] \/ exists c r', r = c :: r' /\ is_ws c = true) ->
  take_word (w ++ r) = (w, r).
Proof.
  induction w as [|c w IH]; intros Hw Hr.
  - cbn [app]. destruct Hr as [->|(c & r' & -> & Hc)]; [reflexivity|]. cbn [take_word]. rewrite Hc. reflexivity.
  - cbn in Hw. apply andb_true_iff in Hw as [Hc Hw]. apply negb_true_iff in Hc.
    cbn [app take_word]. rewrite Hc, IH by assumption. reflexivity.
Qed.

Lemma b2a_no_ws data : Forall is_byte data -> no_ws (b2a data) = true.
Proof.
  intros Hb. pose proof (b2a_relevant data Hb) as H. unfold no_ws. rewrite forallb_forall in *.
  intros c Hin. specialize (H c Hin). unfold b64_relevant in H.
  destruct (is_ws c) eqn:E; [|reflexivity]. exfalso.
  unfold is_ws in E. repeat (apply orb_true_iff in E as [E|E]); apply Z.eqb_eq in E; subst c; discriminate.
Qed.

Lemma b2a_nonempty data : data <> [] -> exists c r, b2a data = c :: r.
Proof. destruct data as [|a [|b [|c r]]]; intros H; [congruence| | |]; cbn [b2a]; eauto. Qed.

Definition PUBLIC_KEY : bytes := [80; 85; 66; 76; 73; 67; 32; 75; 69; 89].
Definition PRIVATE_KEY : bytes := [80; 82; 73; 86; 65; 84; 69; 32; 75; 69; 89].

(* data not starting with 0x30 is never tried as DER *)
Lemma match_next_text known data keytype public :
  hd 0 data <> 48 ->
  match_next known data keytype public =
  scan_lines known keytype public (split_nl data) (split_nl data).
Proof.
  intros H. unfold match_next. destruct data as [|c r]; [reflexivity|]. cbn [hd] in H.
  destruct c as [|p|p]; try reflexivity.
  do 6 (destruct p as [p|p|]; try reflexivity). exfalso. apply H. reflexivity.
Qed.

Definition comment_survives_line (c : bytes) : Prop :=
  no_nl c /\ exists a m z, (c = [a] \/ c = a :: m ++ [z]) /\ is_ws a = false /\ is_ws z = false /\ (c = [a] -> z = a).

(* export_public_key('openssh') followed by the public-key sniffing of import_public_key:
   same algorithm, blob and comment, for every comment that has no newline and no blank at either
   end (see the refuted statements for the others) *)
Theorem openssh_public_line_roundtrip known alg a0 alg' blob comment :
  alg = a0 :: alg' -> a0 <> 45 -> a0 <> 48 -> no_ws alg = true -> known alg = true ->
  Forall is_byte blob -> blob <> [] ->
  match comment with Some c => comment_survives_line c | None => True end ->
  match_next known (export_openssh_public_old alg blob comment) PUBLIC_KEY true = FOpenSSH alg comment blob [].
Proof.
  intros Halg H45 H48 Hws Hknown Hb Hne Hcm.
  set (tail := match comment with Some c => 32 :: c | None => [] end).
  assert (Htext : export_openssh_public_old alg blob comment = (alg ++ [32] ++ b2a blob ++ tail) ++ [NL]).
  { unfold export_openssh_public_old, tail. rewrite <- !app_assoc. reflexivity. }
  pose proof (b2a_no_ws blob Hb) as Hbws. destruct (b2a_nonempty blob Hne) as (b0 & b' & Hb2a).
  assert (Hb0 : is_ws b0 = false).
  { unfold no_ws in Hbws. rewrite Hb2a in Hbws. cbn in Hbws. apply andb_true_iff in Hbws as [H _].
    apply negb_true_iff in H. exact H. }
  assert (Ha0 : is_ws a0 = false).
  { subst alg. cbn in Hws. apply andb_true_iff in Hws as [H _]. apply negb_true_iff in H. exact H. }
  (* the line has no newline and ends with a non-blank *)
  assert (Htail_nl : no_nl tail).
  { unfold tail. destruct comment as [c|]; [|intros []]. destruct Hcm as [Hnl _].
    intros [Hin|Hin]; [discriminate|]. exact (Hnl Hin). }
  assert (Hline_nl : no_nl (alg ++ [32] ++ b2a blob ++ tail)).
  { apply no_nl_app; [apply no_ws_no_nl, Hws|]. apply no_nl_app; [intros [H|[]]; discriminate|].
    apply no_nl_app; [apply no_ws_no_nl, Hbws|exact Htail_nl]. }
  assert (Hlast : exists pre z, alg ++ [32] ++ b2a blob ++ tail = pre ++ [z] /\ is_ws z = false).
  { unfold tail. destruct comment as [c|].
    - destruct Hcm as [_ (a & m & z & Hshape & Hwa & Hwz & Hone)]. destruct Hshape as [->| ->].
      + exists (alg ++ [32] ++ b2a blob ++ [32]), a. split; [rewrite <- !app_assoc; reflexivity|exact Hwa].
      + exists (alg ++ [32] ++ b2a blob ++ 32 :: a :: m), z. split; [|exact Hwz].
        rewrite <- !app_assoc. cbn [app]. reflexivity.
    - rewrite app_nil_r.
      destruct (exists_last (l := b2a blob) ltac:(rewrite Hb2a; discriminate)) as (pre & z & Hpz).
      exists (alg ++ [32] ++ pre), z. split; [rewrite Hpz, <- !app_assoc; reflexivity|].
      unfold no_ws in Hbws. rewrite Hpz, forallb_app in Hbws. apply andb_true_iff in Hbws as [_ H].
      cbn in H. rewrite andb_true_r in H. apply negb_true_iff in H. exact H. }
  destruct Hlast as (pre & z & Hpz & Hz).
  rewrite Htext. rewrite match_next_text by (subst alg; cbn; exact H48).
  assert (Hscan : scan_lines known PUBLIC_KEY true (split_nl ((alg ++ [32] ++ b2a blob ++ tail) ++ [NL]))
                    (split_nl ((alg ++ [32] ++ b2a blob ++ tail) ++ [NL])) = FOpenSSH alg comment blob []).
  { rewrite split_nl_app by exact Hline_nl. cbn [split_nl scan_lines].
    rewrite Hpz, rstrip_nows by exact Hz. rewrite <- Hpz.
    assert (Hbeg : zprefix BEGIN_PEM (alg ++ [32] ++ b2a blob ++ tail) = false).
    { subst alg. cbn [app BEGIN_PEM zprefix]. destruct (45 =? a0) eqn:E; [apply Z.eqb_eq in E; congruence|reflexivity]. }
    rewrite Hbeg. cbn [andb].
    assert (Hrfc : zlist_eqb (alg ++ [32] ++ b2a blob ++ tail) RFC4716_BEGIN = false).
    { subst alg. cbn [app RFC4716_BEGIN zlist_eqb]. destruct (a0 =? 45) eqn:E; [apply Z.eqb_eq in E; congruence|reflexivity]. }
    rewrite Hrfc. cbn [andb].
    (* _parse_openssh *)
    unfold parse_openssh.
    assert (Hl1 : lstrip (alg ++ [32] ++ b2a blob ++ tail) = alg ++ [32] ++ b2a blob ++ tail).
    { subst alg. cbn [app]. apply lstrip_nows. exact Ha0. }
    rewrite Hl1. rewrite take_word_app; [|exact Hws|right; eexists _, _; split; [reflexivity|reflexivity]].
    cbn [app]. change (lstrip (32 :: b2a blob ++ tail)) with (lstrip (b2a blob ++ tail)).
    assert (Hl2 : lstrip (b2a blob ++ tail) = b2a blob ++ tail).
    { rewrite Hb2a. cbn [app]. apply lstrip_nows. exact Hb0. }
    rewrite Hl2. rewrite take_word_app; [|exact Hbws|].
    2:{ unfold tail. destruct comment; [right; eexists _, _; split; reflexivity|left; reflexivity]. }
    subst alg. rewrite Hb2a. rewrite <- Hb2a. rewrite Hknown.
    rewrite (a2b_b2a blob Hb).
    unfold tail. destruct comment as [c|].
    - destruct Hcm as [_ (a & m & z' & Hshape & Hwa & _ & _)].
      assert (Hlc : lstrip (32 :: c) = c).
      { change (lstrip (32 :: c)) with (lstrip c). destruct Hshape as [->| ->]; apply lstrip_nows; exact Hwa. }
      rewrite Hlc. destruct c as [|c0 c']; [destruct Hshape as [H|H]; discriminate|]. reflexivity.
    - reflexivity. }
  exact Hscan.
Qed.

(* the export of record: succeeds exactly for comments without LF/CR, and then writes the text above *)
Lemma has_byte_false c s : ~ In c s -> has_byte c s = false.
Proof.
  unfold has_byte. induction s as [|x s IH]; intros H; [reflexivity|]. cbn [existsb].
  destruct (c =? x) eqn:E; [apply Z.eqb_eq in E; subst; exfalso; apply H; left; reflexivity|].
  apply IH. intros Hin. apply H. right. exact Hin.
Qed.

Lemma has_byte_true c s : In c s -> has_byte c s = true.
Proof.
  unfold has_byte. intros H. apply existsb_exists. exists c. split; [exact H|apply Z.eqb_refl].
Qed.

Theorem openssh_public_export_import known alg a0 alg' blob comment :
  alg = a0 :: alg' -> a0 <> 45 -> a0 <> 48 -> no_ws alg = true -> known alg = true ->
  Forall is_byte blob -> blob <> [] ->
  match comment with Some c => comment_survives_line c /\ ~ In 13 c | None => True end ->
  exists text, export_openssh_public alg blob comment = Some text /\
               match_next known text PUBLIC_KEY true = FOpenSSH alg comment blob [].
Proof.
  intros Halg H45 H48 Hws Hknown Hb Hne Hcm.
  exists (export_openssh_public_old alg blob comment). split.
  - unfold export_openssh_public, comment_exportable. destruct comment as [c|]; [|reflexivity].
    destruct Hcm as [[Hnl _] Hcr]. rewrite (has_byte_false 10 c Hnl), (has_byte_false 13 c Hcr). reflexivity.
  - apply (openssh_public_line_roundtrip known alg a0 alg'); try assumption.
    destruct comment as [c|]; [tauto|exact I].
Qed.

Theorem newline_comment_export_refused alg blob c :
  In 10 c \/ In 13 c ->
  export_openssh_public alg blob (Some c) = None /\ export_rfc4716 blob (Some c) = None.
Proof.
  intros H. unfold export_openssh_public, export_rfc4716, comment_exportable.
  destruct H as [H|H]; [rewrite (has_byte_true 10 c H)|rewrite (has_byte_true 13 c H), orb_true_r]; split; reflexivity.
Qed.

(* where the unchecked export of the unrepaired code failed, and what still fails *)
Lemma openssh_public_comment_newline_not_preserved :
  match_next (fun _ => true) (export_openssh_public_old [115; 115; 104] [1; 2; 3] (Some [97; 10; 98])) PUBLIC_KEY true =
  FOpenSSH [115; 115; 104] (Some [97]) [1; 2; 3] [98; 10].
Proof. vm_compute. reflexivity. Qed.

Lemma rfc4716_comment_newline_not_importable :
  match_next (fun _ => true) (export_rfc4716_old [1; 2; 3] (Some [97; 10; 98])) PUBLIC_KEY true = FErr ImportErr.
Proof. vm_compute. reflexivity. Qed.

Lemma openssh_public_comment_blank_not_preserved :
  export_openssh_public [115; 115; 104] [1; 2; 3] (Some [32; 97]) =
    Some (export_openssh_public_old [115; 115; 104] [1; 2; 3] (Some [32; 97])) /\
  match_next (fun _ => true) (export_openssh_public_old [115; 115; 104] [1; 2; 3] (Some [32; 97])) PUBLIC_KEY true =
  FOpenSSH [115; 115; 104] (Some [97]) [1; 2; 3] [].
Proof. vm_compute. split; reflexivity. Qed.

(* ------------------------------------------------------------------------------------------- *)
(* PEM armour: wrap_base64 followed by _match_next / match_base64 / _parse_pem *)

Lemma split_nl_nonempty s : exists h t, split_nl s = h :: t.
Proof.
  induction s as [|c s IH]; [cbn; eauto|]. destruct IH as (h & t & IH).
  cbn [split_nl]. destruct (c =? NL); [eauto|]. rewrite IH. eauto.
Qed.

Lemma split_nl_app_gen a t : split_nl (a ++ NL :: t) = split_nl a ++ split_nl t.
Proof.
  induction a as [|c a IH]; [reflexivity|]. cbn [app split_nl]. destruct (c =? NL).
  - rewrite IH. reflexivity.
  - rewrite IH. destruct (split_nl_nonempty a) as (h & tl & ->). reflexivity.
Qed.

Lemma in_split_nl s l c : In l (split_nl s) -> In c l -> In c s.
Proof.
  revert l. induction s as [|x s IH]; intros l Hl Hc.
  - cbn in Hl. destruct Hl as [<-|[]]. destruct Hc.
  - cbn [split_nl] in Hl. destruct (x =? NL).
    + destruct Hl as [<-|Hl]; [destruct Hc|]. right. eapply IH; eauto.
    + destruct (split_nl_nonempty s) as (h & tl & Hs). rewrite Hs in *. destruct Hl as [<-|Hl].
      * destruct Hc as [->|Hc]; [left; reflexivity|]. right. eapply IH; [left; reflexivity|exact Hc].
      * right. eapply IH; [right; exact Hl|exact Hc].
Qed.

Lemma lines_concat ls : ls <> [] -> concat (map (fun l => l ++ [NL]) ls) = join_nl ls ++ [NL].
Proof.
  induction ls as [|l ls IH]; intros H; [congruence|]. cbn [map concat].
  destruct ls as [|l2 ls']; [cbn; rewrite app_nil_r; reflexivity|].
  rewrite IH by discriminate. cbn [join_nl]. rewrite <- !app_assoc. reflexivity.
Qed.

Lemma find_footer_skip footer f0 ls tail :
  hd 0 footer = 45 -> footer = f0 :: tl footer -> Forall (fun l => hd 0 l <> 45) ls -> tail <> [] ->
  find_footer footer (ls ++ tail) =
  match find_footer footer tail with
  | Some (b, r) => Some (concat (map (fun l => l ++ [NL]) ls) ++ b, r)
  | None => None
  end.
Proof.
  intros Hh Hf Hls Htail. induction Hls as [|l ls Hl Hls IH].
  - cbn [app map concat]. destruct (find_footer footer tail) as [[b r]|]; reflexivity.
  - cbn [app find_footer].
    assert (Hp : zprefix footer l = false).
    { rewrite Hf. destruct l as [|c l']; [reflexivity|]. cbn [zprefix]. cbn [hd] in Hl.
      rewrite Hf in Hh. cbn [hd] in Hh. subst f0.
      destruct (45 =? c) eqn:E; [apply Z.eqb_eq in E; congruence|reflexivity]. }
    rewrite Hp. cbn [andb].
    destruct (ls ++ tail) as [|x xs] eqn:E; [destruct ls; [contradiction|discriminate]|].
    rewrite IH. destruct (find_footer footer tail) as [[b r]|]; [|reflexivity].
    cbn [map concat]. rewrite <- !app_assoc. reflexivity.
Qed.

Lemma split_once_none sep s : ~ In sep s -> split_once sep s = None.
Proof.
  induction s as [|c s IH]; intros H; [reflexivity|]. cbn [split_once].
  destruct (c =? sep) eqn:E; [apply Z.eqb_eq in E; subst; exfalso; apply H; left; reflexivity|].
  rewrite IH by (intros Hin; apply H; right; exact Hin). reflexivity.
Qed.

Lemma in_lstrip c s : In c (lstrip s) -> In c s.
Proof.
  induction s as [|x s IH]; intros H; [exact H|]. cbn [lstrip] in H.
  destruct (is_ws x); [right; apply IH, H|exact H].
Qed.

Lemma in_rstrip c s : In c (rstrip s) -> In c s.
Proof. unfold rstrip. intros H. apply in_rev in H. apply in_lstrip in H. apply in_rev. exact H. Qed.

Definition only_b64_and_nl (s : bytes) : Prop := forall c, In c s -> b64_relevant c = true \/ c = NL.

Lemma fold_lines_chars wrap t : forall k,
  forallb b64_relevant t = true -> only_b64_and_nl (fold_lines wrap k t).
Proof.
  induction t as [|c t IH]; intros k H x Hin; [destruct Hin|].
  cbn in H. apply andb_true_iff in H as [Hc Ht]. cbn [fold_lines] in Hin. destruct k as [|k'].
  - destruct Hin as [<-|[<-|Hin]]; [right; reflexivity|left; exact Hc|eapply IH; eauto].
  - destruct Hin as [<-|Hin]; [left; exact Hc|eapply IH; eauto].
Qed.

Lemma relevant_not c : b64_relevant c = true -> c <> 45 /\ c <> COLON.
Proof. intros H. split; intros ->; discriminate. Qed.

Definition pem_block_type (name : option bytes) (keytype : bytes) : bytes :=
  match name with Some n => n ++ [32] ++ keytype | None => keytype end.

(* a PEM block written by wrap_base64 (no headers) is found by _match_next, its footer located, and
   its content decoded to the original bytes, for every data, line width, key type and PEM name *)
Theorem pem_roundtrip known name keytype data wrap public :
  Forall is_byte data ->
  no_nl keytype ->
  match name with Some n => no_ws n = true /\ n <> [] | None => True end ->
  match_next known (wrap_base64 data (pem_block_type name keytype) [] false wrap) keytype public =
  FPem (match name with Some n => n | None => [] end) [] data [].
Proof.
  intros Hb Hkt Hname.
  set (bt := pem_block_type name keytype).
  set (F := fold_lines wrap wrap (b2a data)).
  set (beginl := BEGIN_PEM ++ bt ++ DASH5).
  set (endl := DASH5 ++ [69; 78; 68] ++ [32] ++ bt ++ DASH5).
  assert (Htext : wrap_base64 data bt [] false wrap = beginl ++ NL :: F ++ NL :: endl ++ NL :: []).
  { unfold wrap_base64, beginl, endl, F, dashes, sehsad, BEGIN_PEM, BEGIN_, END_, DASH5.
    rewrite <- ?app_assoc. cbn [app]. rewrite <- ?app_assoc. reflexivity. }
  assert (Hbt_nl : no_nl bt).
  { unfold bt, pem_block_type. destruct name as [n|]; [|exact Hkt]. destruct Hname as [Hn _].
    apply no_nl_app; [apply no_ws_no_nl, Hn|]. apply no_nl_app; [intros [H|[]]; discriminate|exact Hkt]. }
  assert (Hbegin_nl : no_nl beginl).
  { unfold beginl. apply no_nl_app; [intros H; cbn in H; repeat destruct H as [H|H]; try discriminate; exact H|].
    apply no_nl_app; [exact Hbt_nl|]. intros H; cbn in H; repeat destruct H as [H|H]; try discriminate; exact H. }
  assert (Hendl_nl : no_nl endl).
  { unfold endl. apply no_nl_app; [intros H; cbn in H; repeat destruct H as [H|H]; try discriminate; exact H|].
    apply no_nl_app; [intros H; cbn in H; repeat destruct H as [H|H]; try discriminate; exact H|].
    apply no_nl_app; [intros [H|[]]; discriminate|]. apply no_nl_app; [exact Hbt_nl|].
    intros H; cbn in H; repeat destruct H as [H|H]; try discriminate; exact H. }
  rewrite Htext. rewrite match_next_text by (unfold beginl; cbn; discriminate).
  (* the lines of the file *)
  assert (Hlines : split_nl (beginl ++ NL :: F ++ NL :: endl ++ NL :: []) =
                   @cons bytes beginl (@app bytes (split_nl F) (@cons bytes endl (@cons bytes (@nil Z) (@nil bytes))))).
  { rewrite split_nl_app by exact Hbegin_nl. f_equal. rewrite split_nl_app_gen. f_equal.
    rewrite split_nl_app by exact Hendl_nl. reflexivity. }
  rewrite Hlines. cbn [scan_lines].
  (* the BEGIN line *)
  assert (Hrs : rstrip beginl = beginl).
  { unfold beginl, DASH5. rewrite !app_assoc.
    change [45; 45; 45; 45; 45] with ([45; 45; 45; 45] ++ [45]). rewrite app_assoc. apply rstrip_nows. reflexivity. }
  rewrite Hrs.
  assert (Hpre : zprefix BEGIN_PEM beginl = true) by (apply zprefix_spec; eexists; reflexivity).
  rewrite Hpre.
  assert (Hend : ends_with (32 :: keytype ++ DASH5) beginl = true).
  { unfold ends_with. apply zprefix_spec. unfold beginl, bt, pem_block_type. destruct name as [n|].
    - exists (rev (BEGIN_PEM ++ n)). rewrite <- rev_app_distr. f_equal. rewrite <- !app_assoc. reflexivity.
    - exists (rev [45; 45; 45; 45; 45; 66; 69; 71; 73; 78]). rewrite <- rev_app_distr. f_equal. }
  rewrite Hend. cbn [andb].
  (* the PEM name *)
  assert (Hnm : strip (slice 11 (zlen beginl - (6 + zlen keytype)) beginl) = match name with Some n => n | None => [] end).
  { unfold beginl, bt, pem_block_type, slice. destruct name as [n|].
    - destruct Hname as [Hn Hne].
      replace (zlen (BEGIN_PEM ++ (n ++ [32] ++ keytype) ++ DASH5) - (6 + zlen keytype) - 11) with (zlen n)
        by (rewrite !zlen_app; unfold zlen; cbn [length BEGIN_PEM DASH5]; lia).
      change (Z.to_nat 11) with (length BEGIN_PEM). rewrite skipn_app, Nat.sub_diag, skipn_all. cbn [skipn app].
      rewrite <- !app_assoc. rewrite firstn_zlen_app.
      destruct n as [|a n']; [congruence|].
      destruct (exists_last (l := a :: n') ltac:(discriminate)) as (pre & z & Hpz).
      assert (Hz : is_ws z = false).
      { unfold no_ws in Hn. rewrite Hpz, forallb_app in Hn. apply andb_true_iff in Hn as [_ H]. cbn in H.
        rewrite andb_true_r in H. apply negb_true_iff in H. exact H. }
      assert (Ha : is_ws a = false).
      { cbn in Hn. apply andb_true_iff in Hn as [H _]. apply negb_true_iff in H. exact H. }
      unfold strip. rewrite lstrip_nows by exact Ha. rewrite Hpz. apply rstrip_nows. exact Hz.
    - replace (zlen (BEGIN_PEM ++ keytype ++ DASH5) - (6 + zlen keytype) - 11) with (-1)
        by (rewrite !zlen_app; unfold zlen; cbn [length BEGIN_PEM DASH5]; lia).
      reflexivity. }
  rewrite Hnm.
  (* the footer search *)
  assert (Hfooter : footer_of beginl = endl).
  { unfold footer_of, beginl, endl, BEGIN_PEM, DASH5. cbn [app firstn skipn]. reflexivity. }
  rewrite Hfooter.
  pose proof (b2a_relevant data Hb) as Hrel.
  pose proof (fold_lines_chars wrap (b2a data) wrap Hrel) as HF. fold F in HF.
  assert (Hls : Forall (fun l => hd 0 l <> 45) (split_nl F)).
  { apply Forall_forall. intros l Hl. destruct l as [|c l']; [cbn; lia|]. cbn [hd].
    destruct (HF c (in_split_nl F (c :: l') c Hl (or_introl eq_refl))) as [H| ->]; [apply relevant_not in H; tauto|discriminate]. }
  destruct (split_nl_nonempty F) as (h0 & t0 & HsF).
  assert (Hsearch : find_footer endl (@app bytes (split_nl F) (@cons bytes endl (@cons bytes (@nil Z) (@nil bytes)))) =
                    Some (F ++ [NL], [])).
  { pose proof (find_footer_skip endl 45 (split_nl F) [endl; []] eq_refl eq_refl Hls ltac:(discriminate)) as X.
    eapply eq_trans; [exact X|]. clear X. cbn [find_footer].
    assert (Hz : zprefix endl endl = true) by (apply zprefix_spec; exists []; rewrite app_nil_r; reflexivity).
    rewrite Hz, skipn_all. cbn [all_ws forallb andb drop_blank_lines].
    rewrite lines_concat by (rewrite HsF; discriminate). rewrite join_split_nl, app_nil_r. reflexivity. }
  rewrite HsF in *. cbn [app] in *. rewrite Hsearch.
  (* _parse_pem on the body *)
  assert (Hparse : parse_pem (F ++ [NL]) = Some ([], data)).
  { unfold parse_pem.
    assert (Hh : pem_headers (split_nl (F ++ [NL])) = ([], F ++ [NL])).
    { rewrite split_nl_app_gen, HsF. cbn [app pem_headers].
      assert (Hnc : ~ In COLON (rstrip h0)).
      { intros Hin. apply in_rstrip in Hin.
        destruct (HF COLON (in_split_nl F h0 COLON ltac:(rewrite HsF; left; reflexivity) Hin)) as [H|H];
          [apply relevant_not in H; tauto|discriminate]. }
      rewrite split_once_none by exact Hnc.
      change (h0 :: t0 ++ split_nl []) with ((h0 :: t0) ++ split_nl []). rewrite <- HsF, <- split_nl_app_gen.
      rewrite join_split_nl. reflexivity. }
    rewrite Hh.
    rewrite (a2b_b2a_with_junk data (F ++ [NL]) Hb); [reflexivity|].
    rewrite filter_app. cbn [filter]. change (b64_relevant NL) with false. cbn iota. rewrite app_nil_r.
    apply filter_fold_lines. exact Hrel. }
  rewrite Hparse. reflexivity.
Qed.

(* ------------------------------------------------------------------------------------------- *)
(* comments are options; OPTIONAL fields of the parsed ASN.1 structures are accepted *)

Theorem comment_option_roundtrip c : c <> Some [] -> set_comment (comment_field c) = c.
Proof. destruct c as [[|x c]|]; intros H; try reflexivity. congruence. Qed.

(* PBKDF2-params: keyLength present or absent, prf present or absent (default hmacWithSHA1) *)
Theorem pbkdf2_optional_fields_accepted known dks salt count ks prf p :
  known prf = true ->
  pbkdf2_params known dks [VSeq [VOctets salt; VInt count]] = Some (salt, count, dks, HMAC_SHA1_OID) /\
  pbkdf2_params known dks [VSeq [VOctets salt; VInt count; VInt ks]] = Some (salt, count, ks, HMAC_SHA1_OID) /\
  pbkdf2_params known dks [VSeq [VOctets salt; VInt count; VSeq [VOid prf; p]]] = Some (salt, count, dks, prf) /\
  pbkdf2_params known dks [VSeq [VOctets salt; VInt count; VInt ks; VSeq [VOid prf; p]]] = Some (salt, count, ks, prf).
Proof. intros H. cbn. rewrite H. repeat split; reflexivity. Qed.

(* PrivateKeyInfo: trailing attributes [0] / publicKey [1] do not change what the shape check returns *)
Theorem pkcs8_trailing_fields_accepted ver alg prm key extra :
  pkcs8_private_shape (VSeq (ver :: VSeq (alg :: prm) :: VOctets key :: extra)) =
  pkcs8_private_shape (VSeq [ver; VSeq (alg :: prm); VOctets key]).
Proof. destruct prm as [|p [|q r]]; reflexivity. Qed.

(* ------------------------------------------------------------------------------------------- *)
(* the private key record (strings, mpints and the security-key flags byte) is read back field by
   field: this discharges the handler premise of the container theorems for the real layouts *)

Definition field_ok (f : field) : Prop := match f with FStr b => zlen b < 2 ^ 32 | FByte _ => True end.

Lemma get_fields_enc fs : Forall field_ok fs -> forall rest,
  get_fields (map field_is_str fs) (concat (map enc_field fs) ++ rest) = Some (fs, rest).
Proof.
  induction 1 as [|f fs Hf Hfs IH]; intros rest; [reflexivity|].
  destruct f as [b|x]; cbn [map field_is_str get_fields concat enc_field].
  - rewrite <- app_assoc. rewrite get_string_sshstring by exact Hf. rewrite IH. reflexivity.
  - cbn [app]. rewrite IH. reflexivity.
Qed.

Theorem record_roundtrip layout_of (r : krecord) rest :
  layout_of (fst r) = Some (map field_is_str (snd r)) -> zlen (fst r) < 2 ^ 32 -> Forall field_ok (snd r) ->
  dec_record layout_of (enc_record r ++ rest) = Some (r, rest).
Proof.
  destruct r as [alg fs]. cbn [fst snd]. intros Hl Ha Hf. unfold dec_record, enc_record. cbn [fst snd].
  rewrite <- app_assoc. rewrite get_string_sshstring by exact Ha. rewrite Hl, get_fields_enc by exact Hf. reflexivity.
Qed.

(* ------------------------------------------------------------------------------------------- *)
(* which trailing whitespace the footer match tolerates: any run of blanks, tabs, CR, FF, VT after
   the footer text on its line (so CRLF files), followed by any number of whitespace-only lines *)
Lemma drop_blank_all ls : forallb all_ws ls = true -> drop_blank_lines ls = [].
Proof.
  induction ls as [|l ls IH]; intros H; [reflexivity|]. cbn in H. apply andb_true_iff in H as [Hl Hls].
  cbn [drop_blank_lines]. rewrite Hl. apply IH, Hls.
Qed.

Theorem footer_trailing_whitespace footer ws blanks :
  all_ws ws = true -> forallb all_ws blanks = true ->
  find_footer footer ((footer ++ ws) :: blanks) = Some ([], []).
Proof.
  intros Hws Hb. cbn [find_footer].
  assert (Hp : zprefix footer (footer ++ ws) = true) by (apply zprefix_spec; eexists; reflexivity).
  rewrite Hp, skipn_app, Nat.sub_diag, skipn_all. cbn [skipn app andb]. rewrite Hws, drop_blank_all by exact Hb.
  reflexivity.
Qed.
