(* Proofs about the key file format model (Model/KeyFmt.v). *)
From AV Require Import Base.Prelude Model.DER Model.KeyFmt Proofs.DERProofs.

Definition is_byte (x : Z) : Prop := 0 <= x < 256.

(* ------------------------------------------------------------------------------------------- *)
(* base64 alphabet: 64 cases checked by computation *)

Lemma upto_64 (P : Z -> bool) :
  forallb P (map Z.of_nat (seq 0 64)) = true -> forall n, 0 <= n < 64 -> P n = true.
Proof.
  intros H n Hn. rewrite forallb_forall in H. apply H.
  apply in_map_iff. exists (Z.to_nat n). split; [lia|]. apply in_seq. lia.
Qed.

Lemma b64_val_char n : 0 <= n < 64 -> b64_val (b64_char n) = Some n.
Proof.
  intros Hn.
  pose proof (upto_64 (fun n => option_eqb Z.eqb (b64_val (b64_char n)) (Some n)) eq_refl n Hn) as H.
  cbn beta in H. destruct (b64_val (b64_char n)) as [v|]; cbn in H; [|discriminate].
  apply Z.eqb_eq in H. congruence.
Qed.

Lemma b64_char_not_pad n : 0 <= n < 64 -> (b64_char n =? PAD) = false.
Proof.
  intros Hn. pose proof (upto_64 (fun n => negb (b64_char n =? PAD)) eq_refl n Hn) as H.
  cbn beta in H. apply negb_true_iff in H. exact H.
Qed.

Lemma b64_char_not_nl n : 0 <= n < 64 -> b64_char n <> NL.
Proof.
  intros Hn. pose proof (upto_64 (fun n => negb (b64_char n =? NL)) eq_refl n Hn) as H.
  cbn beta in H. apply negb_true_iff in H. apply Z.eqb_neq in H. exact H.
Qed.

(* one data character *)
Lemma a2b_go_char q l p n r : 0 <= n < 64 ->
  a2b_go q l p (b64_char n :: r) =
  if q =? 0 then a2b_go 1 n 0 r
  else if q =? 1 then option_map (cons (l * 4 + n / 16)) (a2b_go 2 (n mod 16) 0 r)
  else if q =? 2 then option_map (cons (l * 16 + n / 4)) (a2b_go 3 (n mod 4) 0 r)
  else option_map (cons (l * 64 + n)) (a2b_go 0 0 0 r).
Proof.
  intros Hn. cbn [a2b_go]. rewrite b64_char_not_pad, b64_val_char by assumption. reflexivity.
Qed.

(* induction three elements at a time *)
Lemma list_ind3 {A} (P : list A -> Prop) :
  P [] -> (forall a, P [a]) -> (forall a b, P [a; b]) ->
  (forall a b c r, P r -> P (a :: b :: c :: r)) -> forall l, P l.
Proof.
  intros H0 H1 H2 H3.
  assert (H : forall n l, (length l <= n)%nat -> P l).
  { induction n as [|n IH]; intros l Hl.
    - destruct l; [exact H0|cbn in Hl; lia].
    - destruct l as [|a [|b [|c r]]]; auto. apply H3. apply IH. cbn in Hl. lia. }
  intros l. apply (H (length l)). lia.
Qed.

Theorem a2b_b2a data : Forall is_byte data -> a2b (b2a data) = Some data.
Proof.
  unfold a2b. induction data as [|a|a b|a b c r IH] using list_ind3; intros Hb.
  - reflexivity.
  - inversion Hb as [|? ? Ha _]; subst. unfold is_byte in Ha. cbn [b2a].
    rewrite a2b_go_char by lia. cbn [Z.eqb]. rewrite a2b_go_char by lia. cbn [Z.eqb Pos.eqb].
    cbn [a2b_go]. cbn [PAD Z.eqb Pos.eqb Z.leb Z.compare Pos.compare Pos.compare_cont Z.add Pos.add Pos.succ option_map].
    f_equal. f_equal. lia.
  - inversion Hb as [|? ? Ha Hb']; subst. inversion Hb' as [|? ? Hb0 _]; subst.
    unfold is_byte in Ha, Hb0. cbn [b2a].
    rewrite a2b_go_char by lia. cbn [Z.eqb]. rewrite a2b_go_char by lia. cbn [Z.eqb Pos.eqb].
    rewrite a2b_go_char by lia. cbn [Z.eqb Pos.eqb].
    cbn [a2b_go]. cbn [PAD Z.eqb Pos.eqb Z.leb Z.compare Pos.compare Pos.compare_cont Z.add Pos.add Pos.succ option_map].
    f_equal. f_equal; [lia|]. f_equal. lia.
  - inversion Hb as [|? ? Ha Hb1]; subst. inversion Hb1 as [|? ? Hb0 Hb2]; subst.
    inversion Hb2 as [|? ? Hc Hr]; subst. unfold is_byte in Ha, Hb0, Hc. cbn [b2a].
    rewrite a2b_go_char by lia. cbn [Z.eqb]. rewrite a2b_go_char by lia. cbn [Z.eqb Pos.eqb].
    rewrite a2b_go_char by lia. cbn [Z.eqb Pos.eqb]. rewrite a2b_go_char by lia. cbn [Z.eqb Pos.eqb].
    rewrite (IH Hr). cbn [option_map]. f_equal. f_equal; [lia|]. f_equal; [lia|]. f_equal. lia.
Qed.

(* characters that a2b_base64 looks at: the alphabet and '=' *)
Definition b64_relevant (c : Z) : bool :=
  (c =? PAD) || match b64_val c with Some _ => true | None => false end.

Lemma a2b_go_ignores_junk s : forall q l p,
  a2b_go q l p s = a2b_go q l p (filter b64_relevant s).
Proof.
  induction s as [|c s IH]; intros q l p; [reflexivity|].
  cbn [filter]. unfold b64_relevant at 1.
  destruct (c =? PAD) eqn:E.
  - cbn [orb a2b_go]. rewrite E.
    destruct (2 <=? q); [|apply IH]. destruct (4 <=? q + (p + 1)); [reflexivity|apply IH].
  - cbn [orb]. destruct (b64_val c) as [v|] eqn:Ev.
    + cbn [a2b_go]. rewrite E, Ev.
      destruct (q =? 0); [apply IH|]. destruct (q =? 1); [rewrite IH; reflexivity|].
      destruct (q =? 2); rewrite IH; reflexivity.
    + cbn [a2b_go]. rewrite E, Ev. apply IH.
Qed.

Lemma b2a_relevant data : Forall is_byte data -> forallb b64_relevant (b2a data) = true.
Proof.
  assert (Hc : forall n, 0 <= n < 64 -> b64_relevant (b64_char n) = true).
  { intros n Hn. unfold b64_relevant. rewrite b64_val_char by assumption. apply orb_true_r. }
  induction data as [|a|a b|a b c r IH] using list_ind3; intros Hb.
  - reflexivity.
  - inversion Hb as [|? ? Ha _]; subst. unfold is_byte in Ha. cbn [b2a forallb].
    rewrite !Hc by lia. reflexivity.
  - inversion Hb as [|? ? Ha Hb']; subst. inversion Hb' as [|? ? Hb0 _]; subst.
    unfold is_byte in Ha, Hb0. cbn [b2a forallb]. rewrite !Hc by lia. reflexivity.
  - inversion Hb as [|? ? Ha Hb1]; subst. inversion Hb1 as [|? ? Hb0 Hb2]; subst.
    inversion Hb2 as [|? ? Hc0 Hr]; subst. unfold is_byte in Ha, Hb0, Hc0. cbn [b2a forallb].
    rewrite !Hc by lia. rewrite (IH Hr). reflexivity.
Qed.

Lemma filter_all_true {A} (f : A -> bool) l : forallb f l = true -> filter f l = l.
Proof.
  induction l as [|x l IH]; intros H; [reflexivity|]. cbn in *.
  apply andb_true_iff in H as [Hx Hl]. rewrite Hx, IH by assumption. reflexivity.
Qed.

(* base64 text survives any insertion of characters outside the alphabet (line folding at any
   width, CR LF, blanks, ...) *)
Theorem a2b_b2a_with_junk data s :
  Forall is_byte data -> filter b64_relevant s = b2a data -> a2b s = Some data.
Proof.
  intros Hb Hs. unfold a2b. rewrite a2b_go_ignores_junk, Hs. apply a2b_b2a. exact Hb.
Qed.

Lemma filter_fold_lines wrap t : forall k,
  forallb b64_relevant t = true -> filter b64_relevant (fold_lines wrap k t) = t.
Proof.
  induction t as [|c t IH]; intros k H; [reflexivity|].
  cbn in H. apply andb_true_iff in H as [Hc Ht]. cbn [fold_lines].
  destruct k as [|k'].
  - cbn [filter]. change (b64_relevant NL) with false. cbn iota. rewrite Hc, IH by assumption. reflexivity.
  - cbn [filter]. rewrite Hc, IH by assumption. reflexivity.
Qed.

Theorem a2b_folded data wrap k :
  Forall is_byte data -> a2b (fold_lines wrap k (b2a data)) = Some data.
Proof.
  intros Hb. apply a2b_b2a_with_junk; [exact Hb|]. apply filter_fold_lines. apply b2a_relevant. exact Hb.
Qed.

(* ------------------------------------------------------------------------------------------- *)
(* SSH wire strings *)

Lemma get_bytes_app a r : get_bytes (zlen a) (a ++ r) = Some (a, r).
Proof.
  unfold get_bytes. rewrite zlen_app.
  destruct (zlen a + zlen r <? zlen a) eqn:E; [apply Z.ltb_lt in E; pose proof (zlen_nonneg r); lia|].
  rewrite firstn_zlen_app, skipn_zlen_app. reflexivity.
Qed.

Lemma u32_spec n : 0 <= n < 2 ^ 32 ->
  exists digs, u32 n = digs /\ length digs = 4%nat /\ undigits 256 digs = n.
Proof.
  intros Hn. unfold u32. destruct (be_fixed_spec 4 n []) as (digs & Heq & Hl & _ & Hu).
  rewrite app_nil_r in Heq. exists digs. split; [exact Heq|]. split; [exact Hl|].
  rewrite Hu. change (256 ^ Z.of_nat 4) with (2 ^ 32). apply Z.mod_small. exact Hn.
Qed.

Lemma get_u32_bytes c r : length c = 4%nat -> get_u32 (c ++ r) = Some (undigits 256 c, r).
Proof.
  intros Hc. unfold get_u32. replace 4 with (zlen c) by (unfold zlen; rewrite Hc; reflexivity).
  rewrite get_bytes_app. reflexivity.
Qed.

Lemma get_u32_u32 n r : 0 <= n < 2 ^ 32 -> get_u32 (u32 n ++ r) = Some (n, r).
Proof.
  intros Hn. destruct (u32_spec n Hn) as (digs & -> & Hl & Hu). rewrite get_u32_bytes by exact Hl.
  rewrite Hu. reflexivity.
Qed.

Lemma get_string_sshstring s r : zlen s < 2 ^ 32 -> get_string (sshstring s ++ r) = Some (s, r).
Proof.
  intros Hs. unfold get_string, sshstring. rewrite <- app_assoc.
  rewrite get_u32_u32 by (pose proof (zlen_nonneg s); lia). apply get_bytes_app.
Qed.

Lemma count_from_length k n : length (count_from k n) = n.
Proof. revert k. induction n as [|n IH]; intros k; cbn; [reflexivity|]. rewrite IH. reflexivity. Qed.

(* ------------------------------------------------------------------------------------------- *)
(* openssh-key-v1 container *)

Lemma openssh_pad_shape bs data : 0 < bs <= 255 ->
  exists k, openssh_pad bs data = data ++ count_from 1 k /\ (Z.of_nat k < 256).
Proof.
  intros Hbs. unfold openssh_pad. destruct (zlen data mod bs =? 0) eqn:E.
  - exists O. rewrite app_nil_r. split; [reflexivity|lia].
  - exists (Z.to_nat (bs - zlen data mod bs)). split; [reflexivity|].
    pose proof (Z.mod_pos_bound (zlen data) bs ltac:(lia)). lia.
Qed.

Section OpenSSHBasic.
  Variable params : Type.
  Variable enc_priv : params -> bytes.
  Variable dec_priv : bytes -> option (params * bytes).
  Variable cipher_known : bytes -> bool.
  Variable block_size : bytes -> Z.
  Variable kdf : bytes -> bytes -> Z -> bytes -> bytes.
  Variable encrypt : bytes -> bytes -> bytes -> bytes * bytes.
  Variable decrypt : bytes -> bytes -> bytes -> bytes -> option bytes.
  Let decode := openssh_decode params dec_priv cipher_known kdf decrypt.
  Let encode := openssh_encode params enc_priv block_size kdf encrypt.
  Let section_ := openssh_private_section params dec_priv.

  Lemma decode_assembled alg kdfn kdfd pub keydata mac pass :
    zlen alg < 2 ^ 32 -> zlen kdfn < 2 ^ 32 -> zlen kdfd < 2 ^ 32 -> zlen pub < 2 ^ 32 -> zlen keydata < 2 ^ 32 ->
    decode (OPENSSH_KEY_V1 ++ sshstring alg ++ sshstring kdfn ++ sshstring kdfd ++ u32 1 ++
            sshstring pub ++ sshstring keydata ++ mac) pass =
    match openssh_decrypt cipher_known kdf decrypt alg kdfn kdfd keydata mac pass with
    | OErr e => OErr e
    | OOk kd => section_ (negb (zlist_eqb alg NONE_)) kd
    end.
  Proof.
    intros H1 H2 H3 H4 H5. unfold decode, openssh_decode.
    assert (Hp : zprefix OPENSSH_KEY_V1 (OPENSSH_KEY_V1 ++ sshstring alg ++ sshstring kdfn ++ sshstring kdfd ++
                  u32 1 ++ sshstring pub ++ sshstring keydata ++ mac) = true).
    { apply zprefix_spec. eexists. reflexivity. }
    rewrite Hp. cbn [negb].
    replace (length OPENSSH_KEY_V1) with (Z.to_nat (zlen OPENSSH_KEY_V1)) by reflexivity.
    rewrite skipn_zlen_app.
    rewrite get_string_sshstring by exact H1. rewrite get_string_sshstring by exact H2.
    rewrite get_string_sshstring by exact H3. rewrite get_u32_u32 by lia.
    rewrite get_string_sshstring by exact H4. rewrite get_string_sshstring by exact H5.
    reflexivity.
  Qed.

  (* differing check integers are always rejected (this is how a wrong passphrase is detected for
     ciphers without a MAC) *)
  Theorem openssh_check_mismatch_rejected encrypted c1 c2 rest :
    length c1 = 4%nat -> length c2 = 4%nat -> undigits 256 c1 <> undigits 256 c2 ->
    section_ encrypted (c1 ++ c2 ++ rest) = OErr (if encrypted then OEncryptionErr else OImportErr).
  Proof.
    intros H1 H2 Hne. unfold section_, openssh_private_section.
    rewrite get_u32_bytes by exact H1. rewrite get_u32_bytes by exact H2.
    destruct (undigits 256 c1 =? undigits 256 c2) eqn:E; [apply Z.eqb_eq in E; contradiction|]. reflexivity.
  Qed.

  (* a wrong passphrase: whatever the cipher returns under the wrong key -- nothing (MAC/tag failure)
     or a plaintext whose two check integers differ -- the import fails with KeyEncryptionError.
     (That a wrong key makes the check integers differ is a property of the cipher, not proved.) *)
  Theorem openssh_wrong_passphrase_rejected_partial alg salt rounds pub data mac pass' :
    zlen alg < 2 ^ 32 -> zlen salt < 2 ^ 32 - 8 -> 0 <= rounds < 2 ^ 32 -> zlen pub < 2 ^ 32 -> zlen data < 2 ^ 32 ->
    cipher_known alg = true -> zlist_eqb alg NONE_ = false ->
    (decrypt alg (kdf alg pass' rounds salt) data mac = None \/
     exists c1 c2 rest, decrypt alg (kdf alg pass' rounds salt) data mac = Some (c1 ++ c2 ++ rest) /\
                        length c1 = 4%nat /\ length c2 = 4%nat /\ undigits 256 c1 <> undigits 256 c2) ->
    decode (OPENSSH_KEY_V1 ++ sshstring alg ++ sshstring BCRYPT_ ++ sshstring (sshstring salt ++ u32 rounds) ++
            u32 1 ++ sshstring pub ++ sshstring data ++ mac) (Some pass') = OErr OEncryptionErr.
  Proof.
    intros Halg Hsalt Hrounds Hpub Hdata Hknown Hnone Hdec.
    assert (Hkd : zlen (sshstring salt ++ u32 rounds) < 2 ^ 32).
    { unfold sshstring. rewrite !zlen_app. destruct (u32_spec rounds Hrounds) as (d1 & -> & Hl1 & _).
      destruct (u32_spec (zlen salt) ltac:(pose proof (zlen_nonneg salt); lia)) as (d2 & -> & Hl2 & _).
      unfold zlen at 1 3. rewrite Hl1, Hl2. lia. }
    rewrite decode_assembled; try assumption; try (vm_compute; reflexivity).
    unfold openssh_decrypt. rewrite Hnone, Hknown. change (zlist_eqb BCRYPT_ BCRYPT_) with true. cbn [negb].
    rewrite get_string_sshstring by lia.
    replace (u32 rounds) with (u32 rounds ++ []) by apply app_nil_r. rewrite get_u32_u32 by exact Hrounds.
    destruct Hdec as [->|(c1 & c2 & rest & -> & H1 & H2 & Hne)]; [reflexivity|].
    apply (openssh_check_mismatch_rejected true); assumption.
  Qed.
End OpenSSHBasic.

Section OpenSSHHandler.
  Variable params : Type.
  Variable enc_priv : params -> bytes.
  Variable dec_priv : bytes -> option (params * bytes).
  Variable cipher_known : bytes -> bool.
  Variable block_size : bytes -> Z.
  Variable kdf : bytes -> bytes -> Z -> bytes -> bytes.
  Variable encrypt : bytes -> bytes -> bytes -> bytes * bytes.
  Variable decrypt : bytes -> bytes -> bytes -> bytes -> option bytes.
  (* what the key handler guarantees: its own encoding is read back, the rest is left alone *)
  Hypothesis dec_enc_priv : forall p rest, dec_priv (enc_priv p ++ rest) = Some (p, rest).
  Let decode := openssh_decode params dec_priv cipher_known kdf decrypt.
  Let encode := openssh_encode params enc_priv block_size kdf encrypt.
  Let section_ := openssh_private_section params dec_priv.

  (* the decrypted private section produced by export is read back, whatever the comment bytes *)
  Lemma private_section_roundtrip encrypted check p comment bs :
    length check = 4%nat -> zlen comment < 2 ^ 32 -> 0 < bs <= 255 ->
    section_ encrypted (openssh_pad bs (check ++ check ++ enc_priv p ++ sshstring comment)) = OOk (p, comment).
  Proof.
    intros Hc Hcm Hbs. destruct (openssh_pad_shape bs (check ++ check ++ enc_priv p ++ sshstring comment) Hbs)
      as (k & -> & Hk).
    unfold section_, openssh_private_section. rewrite <- !app_assoc.
    rewrite get_u32_bytes by exact Hc. rewrite get_u32_bytes by exact Hc.
    rewrite Z.eqb_refl. cbn [negb]. rewrite dec_enc_priv. rewrite get_string_sshstring by exact Hcm.
    rewrite count_from_length, zlist_eqb_refl. unfold zlen. rewrite count_from_length.
    destruct (256 <=? Z.of_nat k) eqn:E; [apply Z.leb_le in E; lia|]. reflexivity.
  Qed.

  (* export then import of an unencrypted container: equal key parameters and the same comment, for
     every comment byte string *)
  Theorem openssh_container_roundtrip check p comment pub :
    length check = 4%nat -> zlen comment < 2 ^ 32 -> zlen pub < 2 ^ 32 ->
    zlen (openssh_pad 8 (check ++ check ++ enc_priv p ++ sshstring comment)) < 2 ^ 32 ->
    decode (encode check p comment pub None) None = OOk (p, comment).
  Proof.
    intros Hc Hcm Hpub Hlen. unfold encode, openssh_encode.
    replace (sshstring (openssh_pad 8 (check ++ check ++ enc_priv p ++ sshstring comment)))
      with (sshstring (openssh_pad 8 (check ++ check ++ enc_priv p ++ sshstring comment)) ++ []) by apply app_nil_r.
    unfold decode. rewrite decode_assembled; try assumption; try (vm_compute; reflexivity).
    unfold openssh_decrypt. change (zlist_eqb NONE_ NONE_) with true. cbn [negb].
    apply private_section_roundtrip; [assumption|assumption|lia].
  Qed.

  (* padding other than 1,2,3,... (or 256 bytes and more) is rejected *)
  Theorem openssh_bad_padding_rejected encrypted check p comment pad :
    length check = 4%nat -> zlen comment < 2 ^ 32 ->
    pad <> count_from 1 (length pad) \/ 256 <= zlen pad ->
    section_ encrypted (check ++ check ++ enc_priv p ++ sshstring comment ++ pad) = OErr OImportErr.
  Proof.
    intros Hc Hcm Hpad. unfold section_, openssh_private_section.
    rewrite get_u32_bytes by exact Hc. rewrite get_u32_bytes by exact Hc.
    rewrite Z.eqb_refl. cbn [negb]. rewrite dec_enc_priv. rewrite get_string_sshstring by exact Hcm.
    destruct Hpad as [Hpad|Hpad].
    - destruct (zlist_eqb pad (count_from 1 (length pad))) eqn:E; [apply zlist_eqb_spec in E; contradiction|].
      cbn [negb]. rewrite orb_true_r. reflexivity.
    - destruct (256 <=? zlen pad) eqn:E; [reflexivity|apply Z.leb_gt in E; lia].
  Qed.
End OpenSSHHandler.

Section OpenSSHCipher.
  Variable params : Type.
  Variable enc_priv : params -> bytes.
  Variable dec_priv : bytes -> option (params * bytes).
  Variable cipher_known : bytes -> bool.
  Variable block_size : bytes -> Z.
  Variable kdf : bytes -> bytes -> Z -> bytes -> bytes.
  Variable encrypt : bytes -> bytes -> bytes -> bytes * bytes.
  Variable decrypt : bytes -> bytes -> bytes -> bytes -> option bytes.
  Hypothesis dec_enc_priv : forall p rest, dec_priv (enc_priv p ++ rest) = Some (p, rest).
  (* what the cipher guarantees *)
  Hypothesis decrypt_encrypt : forall alg k d,
    decrypt alg k (fst (encrypt alg k d)) (snd (encrypt alg k d)) = Some d.
  Let decode := openssh_decode params dec_priv cipher_known kdf decrypt.
  Let encode := openssh_encode params enc_priv block_size kdf encrypt.
  Let section_ := openssh_private_section params dec_priv.

  (* ... and of an encrypted one, given the cipher law *)
  Theorem openssh_container_roundtrip_encrypted check p comment pub alg pass salt rounds :
    length check = 4%nat -> zlen comment < 2 ^ 32 -> zlen pub < 2 ^ 32 ->
    zlen alg < 2 ^ 32 -> zlen salt < 2 ^ 32 - 8 -> 0 <= rounds < 2 ^ 32 ->
    cipher_known alg = true -> zlist_eqb alg NONE_ = false -> 0 < block_size alg <= 255 ->
    (let plain := openssh_pad (Z.max (block_size alg) 8) (check ++ check ++ enc_priv p ++ sshstring comment) in
     zlen (fst (encrypt alg (kdf alg pass rounds salt) plain)) < 2 ^ 32) ->
    decode (encode check p comment pub (Some (alg, pass, salt, rounds))) (Some pass) = OOk (p, comment).
  Proof.
    intros Hc Hcm Hpub Halg Hsalt Hrounds Hknown Hnone Hbs Hlen. cbn zeta in Hlen.
    unfold encode, openssh_encode.
    set (plain := openssh_pad (Z.max (block_size alg) 8) (check ++ check ++ enc_priv p ++ sshstring comment)) in *.
    pose proof (decrypt_encrypt alg (kdf alg pass rounds salt) plain) as Hde.
    destruct (encrypt alg (kdf alg pass rounds salt) plain) as [data mac] eqn:Henc. cbn [fst snd] in *.
    assert (Hkd : zlen (sshstring salt ++ u32 rounds) < 2 ^ 32).
    { unfold sshstring. rewrite !zlen_app. destruct (u32_spec rounds Hrounds) as (d1 & -> & Hl1 & _).
      destruct (u32_spec (zlen salt) ltac:(pose proof (zlen_nonneg salt); lia)) as (d2 & -> & Hl2 & _).
      unfold zlen at 1 3. rewrite Hl1, Hl2. lia. }
    unfold decode. rewrite decode_assembled; try assumption; try (vm_compute; reflexivity).
    unfold openssh_decrypt. rewrite Hnone, Hknown. change (zlist_eqb BCRYPT_ BCRYPT_) with true. cbn [negb].
    rewrite get_string_sshstring by lia.
    replace (u32 rounds) with (u32 rounds ++ []) by apply app_nil_r. rewrite get_u32_u32 by exact Hrounds.
    rewrite Hde. subst plain. apply (private_section_roundtrip params enc_priv dec_priv dec_enc_priv); [assumption|assumption|lia].
  Qed.
End OpenSSHCipher.

(* ------------------------------------------------------------------------------------------- *)
(* RFC 1423 padding *)

Lemma repeat_rev {A} (x : A) n : rev (repeat x n) = repeat x n.
Proof.
  induction n as [|n IH]; [reflexivity|]. cbn [repeat rev]. rewrite IH.
  clear IH. induction n as [|n IH]; [reflexivity|]. cbn [repeat app]. rewrite IH. reflexivity.
Qed.

Theorem rfc1423_unpad_pad bs data : 0 < bs -> rfc1423_unpad bs (rfc1423_pad bs data) = Some data.
Proof.
  intros Hbs. unfold rfc1423_pad, rfc1423_unpad.
  set (pad := bs - zlen data mod bs).
  assert (Hp : 1 <= pad <= bs) by (pose proof (Z.mod_pos_bound (zlen data) bs Hbs); lia).
  assert (Hn : Z.to_nat pad = S (Z.to_nat (pad - 1))) by lia.
  rewrite rev_app_distr, repeat_rev. rewrite Hn at 1. cbn [repeat app].
  assert (Hlen : (length (data ++ repeat pad (Z.to_nat pad)) - Z.to_nat pad = length data)%nat).
  { rewrite app_length, repeat_length. lia. }
  rewrite Hlen. rewrite skipn_app, Nat.sub_diag, skipn_all. cbn [skipn app].
  rewrite firstn_app, Nat.sub_diag, firstn_all. cbn [firstn]. rewrite app_nil_r.
  rewrite zlist_eqb_refl.
  destruct (1 <=? pad) eqn:E1; [|apply Z.leb_gt in E1; lia].
  destruct (pad <=? bs) eqn:E2; [|apply Z.leb_gt in E2; lia]. reflexivity.
Qed.

(* ------------------------------------------------------------------------------------------- *)
(* PKCS#8 / PKCS#1 wrappers around DER *)

Theorem rsa_pkcs8_roundtrip n e d p q dmp1 dmq1 iqmp :
  good (rsa_pkcs1_private n e d p q dmp1 dmq1 iqmp) = true ->
  good (pkcs8_private RSA_OID (Some VNull) (enc (rsa_pkcs1_private n e d p q dmp1 dmq1 iqmp))) = true ->
  rsa_pkcs8_import (rsa_pkcs8_export n e d p q dmp1 dmq1 iqmp) = Some [n; e; d; p; q; dmp1; dmq1; iqmp].
Proof.
  intros H1 H2. unfold rsa_pkcs8_import, rsa_pkcs8_export.
  rewrite (der_roundtrip _ H2). cbn [pkcs8_private pkcs8_private_shape is_0_or_1].
  change ((0 =? 0) || (0 =? 1)) with true. cbn iota. change (zlist_eqb RSA_OID RSA_OID) with true. cbn iota.
  unfold rsa_decode_pkcs8_private. rewrite (der_roundtrip _ H1). reflexivity.
Qed.
