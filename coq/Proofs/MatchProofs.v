(* Proofs about Model/Match.v *)
From AV Require Import Base.Prelude Model.Match.

(* ================================================================================================ *)
(* Wildcards: the boolean matcher against a declarative specification.                              *)

(* [WMatch p s]: pattern p matches s, where '*' stands for any run of code points (possibly empty),
   '?' for exactly one, and every other code point for itself. *)
Inductive WMatch : text -> text -> Prop :=
| WM_nil : WMatch [] []
| WM_star p s1 s2 : WMatch p s2 -> WMatch (STAR :: p) (s1 ++ s2)
| WM_any p c s : WMatch p s -> WMatch (QMARK :: p) (c :: s)
| WM_lit p c s : c <> STAR -> WMatch p s -> WMatch (c :: p) (c :: s).

Lemma wild_star_unfold p s :
  wild_match (STAR :: p) s =
  wild_match p s || match s with [] => false | _ :: s' => wild_match (STAR :: p) s' end.
Proof. destruct s; reflexivity. Qed.

Lemma wild_cons_unfold c p s : c <> STAR ->
  wild_match (c :: p) s =
  match s with [] => false | d :: s' => ((c =? QMARK) || (c =? d)) && wild_match p s' end.
Proof.
  intros Hc. cbn [wild_match]. apply Z.eqb_neq in Hc. rewrite Hc. reflexivity.
Qed.

Lemma wild_star_skip p s1 s2 : wild_match p s2 = true -> wild_match (STAR :: p) (s1 ++ s2) = true.
Proof.
  intros H. induction s1 as [|c r IH]; simpl app; rewrite wild_star_unfold.
  - rewrite H. reflexivity.
  - rewrite IH. apply orb_true_r.
Qed.

Lemma wild_match_complete p s : WMatch p s -> wild_match p s = true.
Proof.
  induction 1 as [|p s1 s2 _ IH|p c s _ IH|p c s Hc _ IH].
  - reflexivity.
  - apply wild_star_skip. exact IH.
  - rewrite wild_cons_unfold by discriminate. rewrite IH. reflexivity.
  - rewrite wild_cons_unfold by exact Hc. rewrite Z.eqb_refl, orb_true_r, IH. reflexivity.
Qed.

Lemma wild_match_sound p : forall s, wild_match p s = true -> WMatch p s.
Proof.
  induction p as [|c p IH]; intros s H.
  - destruct s; [constructor|discriminate].
  - destruct (Z.eq_dec c STAR) as [->|Hc].
    + induction s as [|d s IHs]; rewrite wild_star_unfold in H.
      * rewrite orb_false_r in H. apply (WM_star p [] []). apply IH. exact H.
      * apply orb_true_iff in H as [H|H].
        -- apply (WM_star p [] (d :: s)). apply IH. exact H.
        -- specialize (IHs H). inversion IHs as [|p' s1 s2 Hm E1 E2| |p' c' s' Hne]; subst.
           ++ apply (WM_star p (d :: s1) s2). exact Hm.
           ++ congruence.
    + rewrite wild_cons_unfold in H by exact Hc.
      destruct s as [|d s]; [discriminate|].
      apply andb_true_iff in H as [H1 H2]. apply IH in H2.
      apply orb_true_iff in H1 as [H1|H1]; apply Z.eqb_eq in H1; subst.
      * constructor. exact H2.
      * constructor; assumption.
Qed.

Theorem wild_iff p s : wild_match p s = true <-> WMatch p s.
Proof. split; [apply wild_match_sound|apply wild_match_complete]. Qed.

(* ================================================================================================ *)
(* Splitting at a separator                                                                          *)

Fixpoint tjoin (sep : Z) (l : list text) : text :=
  match l with
  | [] => []
  | [c] => c
  | c :: r => c ++ sep :: tjoin sep r
  end.

Lemma tsplit_nonempty sep s : tsplit sep s <> [].
Proof.
  destruct s as [|c r]; simpl; [discriminate|].
  destruct (c =? sep); [discriminate|]. destruct (tsplit sep r); discriminate.
Qed.

Lemma tsplit_join sep s : tjoin sep (tsplit sep s) = s.
Proof.
  induction s as [|c r IH]; [reflexivity|]. simpl.
  destruct (Z.eqb_spec c sep) as [->|Hne].
  - pose proof (tsplit_nonempty sep r) as Hn.
    destruct (tsplit sep r) as [|h t] eqn:E; [congruence|].
    cbn [tjoin app]. f_equal. exact IH.
  - destruct (tsplit sep r) as [|h t] eqn:E.
    + exfalso. eapply tsplit_nonempty. exact E.
    + destruct t; simpl in *; rewrite <- IH; reflexivity.
Qed.

Lemma tsplit_no_sep sep s : Forall (fun c => ~ In sep c) (tsplit sep s).
Proof.
  induction s as [|c r IH]; simpl.
  - constructor; [intros []|constructor].
  - destruct (Z.eqb_spec c sep) as [->|Hne].
    + constructor; [intros []|exact IH].
    + destruct (tsplit sep r) as [|h t] eqn:E.
      * constructor; [|constructor]. intros [H|[]]. congruence.
      * inversion IH; subst. constructor; [|assumption].
        intros [H|H]; [congruence|contradiction].
Qed.

(* ================================================================================================ *)
(* Pattern lists with negation                                                                       *)

(* The components of a comma list: (negated, pattern) for every piece, a leading '!' negates. *)
Lemma plist_split_spec t n p :
  In (n, p) (plist_split t) <->
  exists c, In c (tsplit 44 t) /\
            ((n = true /\ c = 33 :: p) \/
             (n = false /\ c = p /\ match p with d :: _ => d <> 33 | [] => True end)).
Proof.
  unfold plist_split. rewrite in_map_iff. split.
  - intros (c & E & Hin). exists c. split; [exact Hin|].
    destruct c as [|d r].
    + inversion E; subst. right. auto.
    + destruct (Z.eqb_spec d 33) as [->|Hne]; inversion E; subst.
      * left. auto.
      * right. auto.
  - intros (c & Hin & [[Hn Hc]|(Hn & Hc & Hp)]); subst n; exists c; (split; [|exact Hin]); subst c.
    + reflexivity.
    + destruct p as [|d r]; [reflexivity|].
      apply Z.eqb_neq in Hp. rewrite Hp. reflexivity.
Qed.

Lemma existsb_pos_neg {A} (f : A -> bool) (l : list (bool * A)) :
  (existsb (fun np => negb (fst np) && f (snd np)) l = true <->
   exists p, In (false, p) l /\ f p = true) /\
  (existsb (fun np => fst np && f (snd np)) l = true <->
   exists p, In (true, p) l /\ f p = true).
Proof.
  split; rewrite existsb_exists; split.
  - intros ([n p] & Hin & H). simpl in H. destruct n; [discriminate|]. exists p. auto.
  - intros (p & Hin & H). exists (false, p). auto.
  - intros ([n p] & Hin & H). simpl in H. destruct n; [|discriminate]. exists p. auto.
  - intros (p & Hin & H). exists (true, p). auto.
Qed.

(* A host pattern list matches exactly when some positive component matches and no negated
   component does. *)
Theorem hpl_match_spec x t host addr ip :
  hpl_match x t host addr ip = true <->
  (exists p, In (false, p) (plist_split t) /\ hp_match (hp_parse x p) host addr ip = true) /\
  (forall p, In (true, p) (plist_split t) -> hp_match (hp_parse x p) host addr ip = false).
Proof.
  unfold hpl_match. cbv zeta.
  destruct (existsb_pos_neg (fun p => hp_match (hp_parse x p) host addr ip) (plist_split t)) as [Hp Hn].
  rewrite andb_true_iff, negb_true_iff, Hp. split; intros [H1 H2]; (split; [exact H1|]).
  - intros p Hin. destruct (hp_match (hp_parse x p) host addr ip) eqn:E; [|reflexivity].
    assert (Ht : existsb (fun np => fst np && hp_match (hp_parse x (snd np)) host addr ip) (plist_split t) = true)
      by (apply Hn; exists p; auto).
    congruence.
  - apply not_true_is_false. intros E.
    apply Hn in E as (p & Hin & Hm). rewrite (H2 p Hin) in Hm. discriminate.
Qed.

(* A negated component that matches always excludes the whole list. *)
Theorem neg_excludes x t host addr ip p :
  In (true, p) (plist_split t) -> hp_match (hp_parse x p) host addr ip = true ->
  hpl_match x t host addr ip = false.
Proof.
  intros Hin Hm. destruct (hpl_match x t host addr ip) eqn:E; [|reflexivity].
  apply hpl_match_spec in E as [_ H]. rewrite (H p Hin) in Hm. discriminate.
Qed.

Theorem wpl_match_spec t v :
  wpl_match t v = true <->
  (exists p, In (false, p) (plist_split t) /\ WMatch p v) /\
  (forall p, In (true, p) (plist_split t) -> ~ WMatch p v).
Proof.
  unfold wpl_match. cbv zeta.
  destruct (existsb_pos_neg (fun p => wild_match p v) (plist_split t)) as [Hp Hn].
  rewrite andb_true_iff, negb_true_iff, Hp. split; intros [H1 H2]; split.
  - destruct H1 as (p & Hin & H). exists p. split; [exact Hin|apply wild_iff; exact H].
  - intros p Hin Hm. apply wild_iff in Hm.
    assert (Ht : existsb (fun np => fst np && wild_match (snd np) v) (plist_split t) = true)
      by (apply Hn; exists p; auto).
    congruence.
  - destruct H1 as (p & Hin & H). exists p. split; [exact Hin|apply wild_iff; exact H].
  - apply not_true_is_false. intros E.
    apply Hn in E as (p & Hin & Hm). apply wild_iff in Hm. exact (H2 p Hin Hm).
Qed.

(* ================================================================================================ *)
(* CIDR membership                                                                                   *)

Lemma in_net_range v net k :
  0 <= k -> net mod 2 ^ k = 0 ->
  ((v / 2 ^ k) * 2 ^ k =? net) = true <-> net <= v < net + 2 ^ k.
Proof.
  intros Hk Hz. assert (Hp : 0 < 2 ^ k) by (apply Z.pow_pos_nonneg; lia).
  rewrite Z.eqb_eq. split.
  - intros <-. pose proof (Z.mod_pos_bound v (2 ^ k) Hp). pose proof (Z.div_mod v (2 ^ k)). nia.
  - intros [H1 H2]. apply Z.mod_divide in Hz; [|lia]. destruct Hz as [q ->].
    assert (v / 2 ^ k = q); [|subst; reflexivity].
    symmetry. apply (Z.div_unique_pos v (2 ^ k) q (v - q * 2 ^ k)); nia.
Qed.

Lemma dec_value_nonneg_aux s : forall acc, 0 <= acc -> forallb is_digit s = true ->
  0 <= fold_left (fun a c => a * 10 + (c - 48)) s acc.
Proof.
  induction s as [|c r IH]; intros acc Ha H; simpl in *; [exact Ha|].
  apply andb_true_iff in H as [Hc Hr]. apply IH; [|exact Hr].
  unfold is_digit in Hc. lia.
Qed.

Lemma dec_value_nonneg s : all_digits s = true -> 0 <= dec_value s.
Proof.
  unfold all_digits. intros H. apply andb_true_iff in H as [_ H].
  apply dec_value_nonneg_aux; [lia|exact H].
Qed.

Lemma parse_octet_range o v : parse_octet o = Some v -> 0 <= v <= 255.
Proof.
  unfold parse_octet. destruct (all_digits o) eqn:Ed; simpl; [|discriminate].
  destruct (3 <? Z.of_nat (length o)); [discriminate|].
  destruct ((1 <? Z.of_nat (length o)) && _); [discriminate|].
  destruct (dec_value o <=? 255) eqn:E; [|discriminate].
  intros [= <-]. pose proof (dec_value_nonneg o Ed). lia.
Qed.

Lemma parse_ip4_range t n : parse_ip4 t = Some n -> 0 <= n < 2 ^ 32.
Proof.
  unfold parse_ip4.
  destruct (map parse_octet (tsplit 46 t)) as [|[a|] [|[b|] [|[c|] [|[d|] [|? ?]]]]] eqn:E; try discriminate.
  intros [= <-].
  assert (Ha : parse_octet (nth 0 (tsplit 46 t) []) = Some a /\ parse_octet (nth 1 (tsplit 46 t) []) = Some b /\
               parse_octet (nth 2 (tsplit 46 t) []) = Some c /\ parse_octet (nth 3 (tsplit 46 t) []) = Some d).
  { destruct (tsplit 46 t) as [|o1 [|o2 [|o3 [|o4 r]]]]; simpl in E; try discriminate.
    inversion E; subst. simpl. auto. }
  destruct Ha as (Ha & Hb & Hc & Hd).
  apply parse_octet_range in Ha, Hb, Hc, Hd. change (2 ^ 32) with 4294967296. lia.
Qed.

Lemma In_plens bits pl : In pl (plens bits) -> 0 <= pl <= Z.of_nat bits.
Proof.
  unfold plens. rewrite in_map_iff. intros (k & <- & Hin). apply in_seq in Hin. lia.
Qed.

Lemma prefix_from_mask4_range m pl : prefix_from_mask4 m = Some pl -> 0 <= pl <= 32.
Proof.
  unfold prefix_from_mask4.
  set (f1 := fun pl => m =? 2 ^ 32 - 2 ^ (32 - pl)). set (f2 := fun pl => m =? 2 ^ (32 - pl) - 1).
  set (l := plens 32).
  assert (Hl : forall q, In q l -> 0 <= q <= 32) by (intros q Hq; apply In_plens in Hq; lia).
  clearbody l f1 f2.
  destruct (find f1 l) eqn:E1.
  - intros [= <-]. apply find_some in E1 as [Hin _]. auto.
  - intros E2. apply find_some in E2 as [Hin _]. auto.
Qed.

Lemma parse_prefix4_range m pl : parse_prefix4 m = Some pl -> 0 <= pl <= 32.
Proof.
  unfold parse_prefix4. destruct (all_digits m) eqn:Ed; simpl.
  - destruct (dec_value m <=? 32) eqn:E.
    + intros [= <-]. pose proof (dec_value_nonneg m Ed). lia.
    + destruct (parse_ip4 m); [apply prefix_from_mask4_range|discriminate].
  - destruct (parse_ip4 m); [apply prefix_from_mask4_range|discriminate].
Qed.

(* every IPv4 network the parser accepts is well formed: prefix 0..32 and no host bits *)
Lemma parse_net4_wf t n pl :
  parse_net4 t = Some (n, pl) -> 0 <= pl <= 32 /\ n mod 2 ^ (32 - pl) = 0 /\ 0 <= n < 2 ^ 32.
Proof.
  unfold parse_net4. destruct (tsplit 47 t) as [|a [|m [|? ?]]]; try discriminate.
  - destruct (parse_ip4 a) eqn:Ea; [|discriminate]. intros [= <- <-].
    apply parse_ip4_range in Ea. change (2 ^ (32 - 32)) with 1. rewrite Z.mod_1_r. lia.
  - destruct (parse_ip4 a) eqn:Ea; [|discriminate].
    destruct (parse_prefix4 m) eqn:Em; [|discriminate].
    destruct (z mod 2 ^ (32 - z0) =? 0) eqn:Ez; [|discriminate].
    intros [= <- <-]. apply parse_ip4_range in Ea. apply parse_prefix4_range in Em.
    apply Z.eqb_eq in Ez. auto.
Qed.

Lemma parse_net6_wf x t n pl :
  parse_net6 x t = Some (n, pl) -> 0 <= pl <= 128 /\ n mod 2 ^ (128 - pl) = 0.
Proof.
  unfold parse_net6. destruct (tsplit 47 t) as [|a [|m [|? ?]]]; try discriminate.
  - destruct (ip6 x a); [|discriminate]. intros [= <- <-].
    change (2 ^ (128 - 128)) with 1. rewrite Z.mod_1_r. lia.
  - destruct (ip6 x a) as [z|]; [|discriminate].
    destruct (parse_prefix6 m) as [q|] eqn:Em; [|discriminate].
    destruct (z mod 2 ^ (128 - q) =? 0) eqn:Ez; [|discriminate].
    intros [= <- <-]. apply Z.eqb_eq in Ez.
    unfold parse_prefix6 in Em. destruct (all_digits m) eqn:Ed; [|discriminate].
    destruct (dec_value m <=? 128) eqn:E; [|discriminate].
    injection Em as <-. pose proof (dec_value_nonneg m Ed). lia.
Qed.

(* A CIDR pattern accepted by the parser matches exactly the addresses of the same family in the
   range [network, network + 2^(bits - prefix)). *)
Theorem cidr_spec x t net a :
  parse_net x t = Some net ->
  ip_in_net a net = true <->
  match a, net with
  | IP4 v, Net4 n pl => n <= v < n + 2 ^ (32 - pl)
  | IP6 v, Net6 n pl => n <= v < n + 2 ^ (128 - pl)
  | _, _ => False
  end.
Proof.
  unfold parse_net. intros H.
  destruct (parse_net4 t) as [[n pl]|] eqn:E4.
  - injection H as <-. apply parse_net4_wf in E4 as (Hpl & Hz & _).
    destruct a as [v|v]; cbn [ip_in_net]; [|split; [discriminate|intros []]].
    apply in_net_range; [lia|exact Hz].
  - destruct (parse_net6 x t) as [[n pl]|] eqn:E6; [|discriminate].
    injection H as <-. apply parse_net6_wf in E6 as (Hpl & Hz).
    destruct a as [v|v]; cbn [ip_in_net]; [split; [discriminate|intros []]|].
    apply in_net_range; [lia|exact Hz].
Qed.

(* ================================================================================================ *)
(* known_hosts: what a lookup returns                                                                *)

(* the entry lines of a file (marker, pattern field, key), in file order *)
Fixpoint kh_entries (x : ext) (lines : list text) : list (marker * text * Z) :=
  match lines with
  | [] => []
  | l :: r => match kh_parse_line x l with
              | LEntry m p k => (m, p, k) :: kh_entries x r
              | _ => kh_entries x r
              end
  end.

Definition hostpat_of (x : ext) (p : text) : option hostpat :=
  if (match p with c :: _ => c =? 124 | [] => false end) then parse_hashed x p else Some (PPlain p).

(* The matching rule for one entry line against the looked-up names h (host form) and a (address
   form) and the parsed address ip:
   - a pattern field without any of * ? | / ! is a comma list of exact names, compared with the
     non-empty ones of h and a;
   - a field starting with '|' is a hashed name;
   - any other field is a pattern list with wildcards, negation and CIDR entries. *)
Definition line_selects (x : ext) (p h a : text) (ip : option ipaddr) : bool :=
  if is_pattern_line p then
    match hostpat_of x p with
    | Some hp => hostpat_match x hp h a ip
    | None => false
    end
  else existsb (fun c => (nonempty h && zlist_eqb c h) || (nonempty a && zlist_eqb c a)) (tsplit 44 p).

Definition exact_of (e : marker * text * Z) : list (text * entry) :=
  let '(m, p, k) := e in
  if is_pattern_line p then [] else map (fun h => (h, (m, k))) (tsplit 44 p).

Definition pats_of (x : ext) (e : marker * text * Z) : list (hostpat * entry) :=
  let '(m, p, k) := e in
  if is_pattern_line p then match hostpat_of x p with Some hp => [(hp, (m, k))] | None => [] end
  else [].

Lemma kh_load_inv x lines : forall st0 st,
  kh_load_lines x lines st0 = Some st ->
  kh_exact st = kh_exact st0 ++ flat_map exact_of (kh_entries x lines) /\
  kh_pats st = kh_pats st0 ++ flat_map (pats_of x) (kh_entries x lines).
Proof.
  induction lines as [|l r IH]; intros st0 st H; simpl in H.
  - injection H as <-. simpl. rewrite !app_nil_r. auto.
  - simpl. destruct (kh_parse_line x l) as [| | |m p k] eqn:El; try discriminate; try (apply IH; exact H).
    destruct (kh_add x st0 m p k) as [st1|] eqn:Ea; [|discriminate].
    apply IH in H as [H1 H2]. rewrite H1, H2. clear H1 H2.
    unfold kh_add in Ea. cbn [flat_map exact_of pats_of]. unfold hostpat_of.
    destruct (is_pattern_line p).
    + destruct (match p with c :: _ => c =? 124 | [] => false end).
      * destruct (parse_hashed x p) as [hp|]; [|discriminate].
        injection Ea as <-. cbn [kh_exact kh_pats app]. rewrite <- app_assoc. auto.
      * injection Ea as <-. cbn [kh_exact kh_pats app]. rewrite <- app_assoc. auto.
    + injection Ea as <-. cbn [kh_exact kh_pats app]. rewrite <- app_assoc. auto.
Qed.

Lemma marker_eqb_spec a b : marker_eqb a b = true <-> a = b.
Proof. destruct a, b; simpl; split; congruence. Qed.

Lemma In_keys_with m es k : In k (keys_with m es) <-> In (m, k) es.
Proof.
  unfold keys_with. rewrite in_map_iff. split.
  - intros ([m' k'] & <- & Hin). apply filter_In in Hin as [Hin Hm]. simpl in *.
    apply marker_eqb_spec in Hm. subst. exact Hin.
  - intros Hin. exists (m, k). split; [reflexivity|]. apply filter_In. split; [exact Hin|].
    simpl. apply marker_eqb_spec. reflexivity.
Qed.

Lemma In_filter_fst {A B} (f : A -> bool) (l : list (A * B)) v :
  In v (map snd (filter (fun e => f (fst e)) l)) <-> exists c, In (c, v) l /\ f c = true.
Proof.
  rewrite in_map_iff. split.
  - intros ([c v'] & <- & Hin). apply filter_In in Hin as [Hin Hf]. exists c. auto.
  - intros (c & Hin & Hf). exists (c, v). split; [reflexivity|]. apply filter_In. auto.
Qed.

Definition keys_of (m : marker) (r : kh_result) : list Z :=
  match m with MNone => r_host r | MCA => r_ca r | MRevoked => r_revoked r end.

(* the address used for CIDR entries: the given address, else the host name if it is an address *)
Definition lookup_ip (x : ext) (host addr : text) : option (option ipaddr) :=
  match addr with
  | [] => Some (parse_ip x host)
  | _ => match parse_ip x addr with Some a => Some (Some a) | None => None end
  end.

Definition lookup_name (n : text) (port : Z) : text := if port =? 0 then n else with_port n port.

(* address / CIDR entries see the parsed address only in a lookup of the plain names *)
Definition pass_ip (ip : option ipaddr) (port : Z) : option ipaddr := if port =? 0 then ip else None.

(* One lookup returns, for each marker, exactly the keys of the entry lines that the matching rule
   selects for the looked-up names - no other line contributes and no selected line is lost. *)
Theorem kh_match_spec x lines st host addr port r :
  kh_load_lines x lines kh_empty = Some st ->
  kh_match x st host addr port = Some r ->
  exists ip, lookup_ip x host addr = Some ip /\
  forall m k, In k (keys_of m r) <->
              exists p, In (m, p, k) (kh_entries x lines) /\
                        line_selects x p (lookup_name host port) (lookup_name addr port) (pass_ip ip port) = true.
Proof.
  intros Hl Hm. apply kh_load_inv in Hl as [He Hp]. simpl in He, Hp.
  unfold kh_match, kh_match_gen in Hm. fold (lookup_ip x host addr) in Hm.
  destruct (lookup_ip x host addr) as [ip0|]; [|discriminate]. exists ip0. split; [reflexivity|].
  fold (lookup_name host port) in Hm. fold (lookup_name addr port) in Hm.
  set (h := lookup_name host port) in *. set (a := lookup_name addr port) in *.
  rewrite orb_false_r in Hm. fold (pass_ip ip0 port) in Hm. set (ip := pass_ip ip0 port) in *.
  cbn [negb orb] in Hm.
  set (ms := map snd (filter (fun e => nonempty h && zlist_eqb (fst e) h) (kh_exact st)) ++
             map snd (filter (fun e => nonempty a && zlist_eqb (fst e) a) (kh_exact st)) ++
             map snd (filter (fun e => hostpat_match x (fst e) h a ip) (kh_pats st))) in *.
  injection Hm as <-. intros m k.
  assert (Hk : In k (keys_of m {| r_host := keys_with MNone ms; r_ca := keys_with MCA ms;
                                  r_revoked := keys_with MRevoked ms |}) <-> In (m, k) ms).
  { destruct m; cbn [keys_of r_host r_ca r_revoked]; apply In_keys_with. }
  rewrite Hk. clear Hk. unfold ms. rewrite !in_app_iff.
  rewrite (In_filter_fst (fun c => nonempty h && zlist_eqb c h)), (In_filter_fst (fun c => nonempty a && zlist_eqb c a)),
          (In_filter_fst (fun hp => hostpat_match x hp h a ip)).
  rewrite He, Hp. split.
  - intros [(c & Hin & Hc)|[(c & Hin & Hc)|(hp & Hin & Hc)]].
    + apply in_flat_map in Hin as ([[m' p] k'] & Hent & Hin). cbn [exact_of] in Hin.
      destruct (is_pattern_line p) eqn:Epl; [destruct Hin|].
      apply in_map_iff in Hin as (c' & [= <- <- <-] & Hin).
      exists p. split; [exact Hent|]. unfold line_selects. rewrite Epl.
      apply existsb_exists. exists c'. split; [exact Hin|]. rewrite Hc. reflexivity.
    + apply in_flat_map in Hin as ([[m' p] k'] & Hent & Hin). cbn [exact_of] in Hin.
      destruct (is_pattern_line p) eqn:Epl; [destruct Hin|].
      apply in_map_iff in Hin as (c' & [= <- <- <-] & Hin).
      exists p. split; [exact Hent|]. unfold line_selects. rewrite Epl.
      apply existsb_exists. exists c'. split; [exact Hin|]. rewrite Hc. apply orb_true_r.
    + apply in_flat_map in Hin as ([[m' p] k'] & Hent & Hin). cbn [pats_of] in Hin.
      destruct (is_pattern_line p) eqn:Epl; [|destruct Hin].
      destruct (hostpat_of x p) as [hp'|] eqn:Ehp; [|destruct Hin].
      destruct Hin as [[= <- <- <-]|[]].
      exists p. split; [exact Hent|]. unfold line_selects. rewrite Epl, Ehp. exact Hc.
  - intros (p & Hent & Hs). unfold line_selects in Hs.
    destruct (is_pattern_line p) eqn:Epl.
    + destruct (hostpat_of x p) as [hp|] eqn:Ehp; [|discriminate].
      right. right. exists hp. split; [|exact Hs].
      apply in_flat_map. exists (m, p, k). split; [exact Hent|].
      cbn [pats_of]. rewrite Epl, Ehp. left. reflexivity.
    + apply existsb_exists in Hs as (c & Hin & Hc).
      assert (Hx : In (c, (m, k)) (flat_map exact_of (kh_entries x lines))).
      { apply in_flat_map. exists (m, p, k). split; [exact Hent|].
        cbn [exact_of]. rewrite Epl. apply in_map_iff. exists c. auto. }
      apply orb_true_iff in Hc as [Hc|Hc]; [left|right; left]; exists c; auto.
Qed.

(* An empty component of an exact-name list never selects the line, and an empty wildcard pattern
   matches nothing: a line is selected through an exact list only by a non-empty component that
   equals one of the looked-up names. *)
Theorem exact_line_selected_by_nonempty x p h a ip :
  is_pattern_line p = false -> line_selects x p h a ip = true ->
  exists c, In c (tsplit 44 p) /\ c <> [] /\ (c = h \/ c = a).
Proof.
  intros Epl Hs. unfold line_selects in Hs. rewrite Epl in Hs.
  apply existsb_exists in Hs as (c & Hin & Hc). exists c. split; [exact Hin|].
  apply orb_true_iff in Hc as [Hc|Hc]; apply andb_true_iff in Hc as [Hn Hc];
    apply zlist_eqb_spec in Hc; subst c; (split; [destruct h, a; simpl in Hn; congruence|]); auto.
Qed.

Theorem empty_wildcard_matches_nothing host addr ip : hp_match (HWild []) host addr ip = false.
Proof. destruct host, addr; reflexivity. Qed.

(* The [host]:port fallback, spelled out: the answer is the lookup of the name with the port,
   unless the port is absent/zero-valued or that lookup produced neither a trusted key nor a CA key,
   in which case trusted and CA keys are those of the plain-name lookup and the revoked keys are
   those of both lookups. *)
Theorem kh_lookup_fallback x st host addr port r :
  kh_lookup_st x st host addr port = Some r ->
  exists r1, kh_match x st host addr port = Some r1 /\
    (((port = 0 \/ r_host r1 <> [] \/ r_ca r1 <> []) /\ r = r1) \/
     (port <> 0 /\ r_host r1 = [] /\ r_ca r1 = [] /\
      exists r2, kh_match x st host addr 0 = Some r2 /\
                 r = {| r_host := r_host r2; r_ca := r_ca r2; r_revoked := r_revoked r1 ++ r_revoked r2 |})).
Proof.
  unfold kh_lookup_st. destruct (kh_match x st host addr port) as [r1|]; [|discriminate].
  intros H. exists r1. split; [reflexivity|].
  destruct (Z.eqb_spec port 0) as [->|Hp]; simpl in H.
  - left. injection H as <-. auto.
  - destruct (r_host r1) eqn:Eh; simpl in H.
    + destruct (r_ca r1) eqn:Ec; simpl in H.
      * right. destruct (kh_match x st host addr 0) as [r2|]; [|discriminate].
        injection H as <-. split; [exact Hp|]. split; [reflexivity|]. split; [reflexivity|]. exists r2. auto.
      * left. injection H as <-. split; [|reflexivity]. right. right. discriminate.
    + left. injection H as <-. split; [|reflexivity]. right. left. discriminate.
Qed.

(* Revocation survives the fallback: whatever the lookup with the port reports as revoked is
   reported as revoked by the final answer. *)
Theorem revoked_kept x st host addr port r r1 :
  kh_lookup_st x st host addr port = Some r -> kh_match x st host addr port = Some r1 ->
  forall k, In k (r_revoked r1) -> In k (r_revoked r).
Proof.
  intros H H1 k Hk. apply kh_lookup_fallback in H as (r1' & H1' & Hc).
  rewrite H1 in H1'. injection H1' as <-.
  destruct Hc as [[_ ->]|(_ & _ & _ & r2 & _ & ->)]; [exact Hk|].
  cbn [r_revoked]. apply in_or_app. left. exact Hk.
Qed.

(* ... so a @revoked line that the matching rule selects for the looked-up [host]:port form is
   always in the revoked list of the answer, fallback or not. *)
Theorem revoked_line_reported x lines host addr port r ip p k :
  kh_lookup_lines x lines host addr port = Some r ->
  lookup_ip x host addr = Some ip ->
  In (MRevoked, p, k) (kh_entries x lines) ->
  line_selects x p (lookup_name host port) (lookup_name addr port) (pass_ip ip port) = true ->
  In k (r_revoked r).
Proof.
  unfold kh_lookup_lines. intros H Hip Hent Hsel.
  destruct (kh_load_lines x lines kh_empty) as [st|] eqn:El; [|discriminate].
  destruct (kh_match x st host addr port) as [r1|] eqn:Em.
  - apply (revoked_kept x st host addr port r r1 H Em).
    destruct (kh_match_spec x lines st host addr port r1 El Em) as (ip' & Hip' & Hspec).
    rewrite Hip in Hip'. injection Hip' as <-.
    apply (Hspec MRevoked k). exists p. auto.
  - unfold kh_lookup_st in H. rewrite Em in H. discriminate.
Qed.

(* ================================================================================================ *)
(* known_hosts: lines that are skipped                                                               *)

Lemma kh_load_lines_app x l1 l2 : forall st,
  kh_load_lines x (l1 ++ l2) st =
  match kh_load_lines x l1 st with Some st' => kh_load_lines x l2 st' | None => None end.
Proof.
  induction l1 as [|l r IH]; intros st; simpl; [reflexivity|].
  destruct (kh_parse_line x l); try apply IH; try reflexivity.
  destruct (kh_add x st m pat key); [apply IH|reflexivity].
Qed.

(* A line that the classifier skips (blank, comment, or key field not importable) has no effect on
   any lookup, wherever it stands in the file. *)
Theorem kh_bad_line_skipped x l1 bad l2 host addr port :
  kh_parse_line x bad = LSkip \/ kh_parse_line x bad = LBlank ->
  kh_lookup_lines x (l1 ++ bad :: l2) host addr port = kh_lookup_lines x (l1 ++ l2) host addr port.
Proof.
  intros Hb. unfold kh_lookup_lines. rewrite !kh_load_lines_app.
  destruct (kh_load_lines x l1 kh_empty) as [st|]; [|reflexivity].
  simpl. destruct Hb as [-> | ->]; reflexivity.
Qed.

(* ---- a raw line "patterns<blank>keyfield" whose key field cannot be imported is such a line ---- *)

Definition nospace (s : text) : Prop := Forall (fun c => is_uspace c = false) s.

Lemma skip_space_length s : (length (skip_space s) <= length s)%nat.
Proof.
  induction s as [|c r IH]; simpl; [lia|]. destruct (is_uspace c); simpl; lia.
Qed.

Lemma skip_space_id_head c r : skip_space (c :: r) = c :: r -> is_uspace c = false.
Proof.
  simpl. destruct (is_uspace c); [|reflexivity].
  intros H. pose proof (skip_space_length r) as Hl. rewrite H in Hl. simpl in Hl. lia.
Qed.

Lemma skip_space_app_id l m : l <> [] -> skip_space l = l -> skip_space (l ++ m) = l ++ m.
Proof.
  destruct l as [|c r]; [congruence|]. intros _ H. apply skip_space_id_head in H.
  simpl. rewrite H. reflexivity.
Qed.

Lemma take_token_app tk c rest :
  nospace tk -> is_uspace c = true -> take_token (tk ++ c :: rest) = (tk, c :: rest).
Proof.
  intros Hn Hc. induction Hn as [|d r Hd _ IH]; simpl.
  - rewrite Hc. reflexivity.
  - rewrite Hd, IH. reflexivity.
Qed.

(* the key field as it stands in a line: not empty, no blank at either end *)
Definition trimmed (d : text) : Prop := d <> [] /\ skip_space d = d /\ skip_space (rev d) = rev d.

Lemma strip_fields c0 pat d :
  is_uspace c0 = false -> trimmed d -> strip ((c0 :: pat) ++ 32 :: d) = (c0 :: pat) ++ 32 :: d.
Proof.
  intros Hc (Hne & _ & Hr). unfold strip.
  set (L := (c0 :: pat) ++ 32 :: d).
  assert (HL : skip_space L = L) by (unfold L; simpl; rewrite Hc; reflexivity).
  rewrite HL.
  assert (HR : skip_space (rev L) = rev L).
  { unfold L. rewrite rev_app_distr. cbn [rev]. rewrite <- !app_assoc.
    apply skip_space_app_id; [|exact Hr].
    intros E. apply Hne. apply (f_equal (@rev Z)) in E. rewrite rev_involutive in E. exact E. }
  rewrite HR. apply rev_involutive.
Qed.

(* the law the key importer obeys since repair e01fa70: it fails with KeyImportError only *)
Definition importer_total (x : ext) : Prop := forall d, keyof x d <> KRaise.

Lemma not_key_is_bad x d : importer_total x -> (forall id, keyof x d <> KOk id) -> keyof x d = KBad.
Proof. intros Ht Hn. specialize (Ht d). destruct (keyof x d) as [id| |]; [destruct (Hn id)|reflexivity|]; congruence. Qed.

Theorem kh_unparsable_key_line_skipped x c0 pat d :
  c0 <> 35 -> c0 <> 64 -> nospace (c0 :: pat) -> trimmed d -> keyof x d = KBad ->
  kh_parse_line x ((c0 :: pat) ++ 32 :: d) = LSkip.
Proof.
  intros H35 H64 Hn Ht Hk. unfold kh_parse_line.
  inversion Hn as [|? ? Hc0 Hpat]; subst.
  rewrite strip_fields by assumption. cbn [app].
  apply Z.eqb_neq in H35, H64. rewrite H35, H64.
  change (c0 :: pat ++ 32 :: d) with ((c0 :: pat) ++ 32 :: d).
  assert (Hs : split_ws_n 1 ((c0 :: pat) ++ 32 :: d) = [c0 :: pat; d]).
  { cbn [split_ws_n]. replace (skip_space ((c0 :: pat) ++ 32 :: d)) with ((c0 :: pat) ++ 32 :: d)
      by (simpl; rewrite Hc0; reflexivity).
    cbn [app]. change (c0 :: pat ++ 32 :: d) with ((c0 :: pat) ++ 32 :: d).
    rewrite take_token_app by (assumption || reflexivity).
    destruct Ht as (Hne & Hd & _).
    replace (skip_space (32 :: d)) with d by (simpl; symmetry; exact Hd).
    destruct d; [congruence|reflexivity]. }
  rewrite Hs, Hk. reflexivity.
Qed.

(* With an importer that only ever fails with KeyImportError (repair e01fa70): a line
   patterns<blank>keyfield whose key field is not a key - bad base64, truncated blob, impossible
   parameters, unknown algorithm, whatever the reason - has no effect on any lookup. *)
Theorem kh_not_a_key_line_inert x c0 pat d l1 l2 host addr port :
  importer_total x ->
  c0 <> 35 -> c0 <> 64 -> nospace (c0 :: pat) -> trimmed d -> (forall id, keyof x d <> KOk id) ->
  kh_lookup_lines x (l1 ++ ((c0 :: pat) ++ 32 :: d) :: l2) host addr port =
  kh_lookup_lines x (l1 ++ l2) host addr port.
Proof.
  intros Ht H35 H64 Hn Htr Hk. apply kh_bad_line_skipped. left.
  apply kh_unparsable_key_line_skipped; try assumption. apply not_key_is_bad; assumption.
Qed.

(* ---- several files -------------------------------------------------------------------------------- *)

Lemma kh_entries_app x l1 l2 : kh_entries x (l1 ++ l2) = kh_entries x l1 ++ kh_entries x l2.
Proof.
  induction l1 as [|l r IH]; simpl; [reflexivity|].
  destruct (kh_parse_line x l); rewrite IH; reflexivity.
Qed.

(* The entry lines of a list of files are those of each file, in order: no line is made of pieces
   of two files and none is lost, whatever the files end with. *)
Lemma kh_entries_files x ts : kh_entries x (flat_map splitlines ts) = flat_map (fun t => kh_entries x (splitlines t)) ts.
Proof.
  induction ts as [|t r IH]; simpl; [reflexivity|]. rewrite kh_entries_app, IH. reflexivity.
Qed.

(* One lookup pass over two files returns, for each marker, the union of what the pass returns for
   each file alone. *)
Theorem kh_match_files_union x l1 l2 st st1 st2 host addr port r r1 r2 :
  kh_load_lines x (l1 ++ l2) kh_empty = Some st ->
  kh_load_lines x l1 kh_empty = Some st1 -> kh_load_lines x l2 kh_empty = Some st2 ->
  kh_match x st host addr port = Some r ->
  kh_match x st1 host addr port = Some r1 -> kh_match x st2 host addr port = Some r2 ->
  forall m k, In k (keys_of m r) <-> In k (keys_of m r1) \/ In k (keys_of m r2).
Proof.
  intros Hl Hl1 Hl2 Hm Hm1 Hm2 m k.
  destruct (kh_match_spec x _ st host addr port r Hl Hm) as (ip & Hip & Hs).
  destruct (kh_match_spec x _ st1 host addr port r1 Hl1 Hm1) as (ip1 & Hip1 & Hs1).
  destruct (kh_match_spec x _ st2 host addr port r2 Hl2 Hm2) as (ip2 & Hip2 & Hs2).
  rewrite Hip in Hip1, Hip2. injection Hip1 as <-. injection Hip2 as <-.
  rewrite Hs, Hs1, Hs2, kh_entries_app. split.
  - intros (p & Hin & Hsel). apply in_app_or in Hin as [Hin|Hin]; [left|right]; exists p; auto.
  - intros [(p & Hin & Hsel)|(p & Hin & Hsel)]; exists p; (split; [apply in_or_app; auto|exact Hsel]).
Qed.

(* ================================================================================================ *)
(* Witnesses: behaviours of the faithful model that contradict the documented rules                  *)

(* external functions for the witnesses: the key field "K" is key 7, the field "R" makes the key
   importer raise something other than KeyImportError, everything else is not a key *)
Definition wit_ext : ext := {|
  keyof := fun d => if zlist_eqb d [75] then KOk 7 else if zlist_eqb d [82] then KRaise else KBad;
  b64 := fun _ => None;
  hmac := fun _ _ => None;
  ip6 := fun _ => None
|}.

(* Before repair 890407a ([kh_lookup_lines_old]): "h K" / "@revoked [h]:2222 K", lookup of h port
   2222: the revoked line is selected for [h]:2222, yet the answer has K trusted and not revoked. *)
Theorem revoked_port_fallback_lost_revocation_old :
  exists x lines host port p k r,
    In (MRevoked, p, k) (kh_entries x lines) /\
    line_selects x p (lookup_name host port) [] None = true /\
    kh_lookup_lines_old x lines host [] port = Some r /\
    In k (r_host r) /\ ~ In k (r_revoked r).
Proof.
  exists wit_ext, [[104; 32; 75]; 64 :: txt_revoked ++ [32; 91; 104; 93; 58; 50; 50; 50; 50; 32; 75]],
         [104], 2222, [91; 104; 93; 58; 50; 50; 50; 50], 7.
  eexists. split; [vm_compute; auto|]. split; [vm_compute; reflexivity|].
  split; [vm_compute; reflexivity|]. split; [left; reflexivity|]. intros [].
Qed.

(* Before repair 1ebb7df: "a, K" (empty component after the comma), lookup of host h without an
   address: no component of the line matches h, yet K was returned as trusted. *)
Theorem empty_component_matched_any_host_old :
  exists x lines host p k r,
    In (MNone, p, k) (kh_entries x lines) /\
    (forall c, In c (tsplit 44 p) -> c <> [] -> wild_match c host = false) /\
    kh_lookup_lines_old x lines host [] 0 = Some r /\ In k (r_host r).
Proof.
  exists wit_ext, [[97; 44; 32; 75]], [104], [97; 44], 7.
  eexists. split; [vm_compute; auto|]. split.
  - intros c Hc Hne. vm_compute in Hc. destruct Hc as [<-|[<-|[]]]; [reflexivity|congruence].
  - split; [vm_compute; reflexivity|left; reflexivity].
Qed.

(* the same file and lookup with the repaired code: nothing is returned *)
Example empty_component_now_inert :
  kh_lookup_lines wit_ext [[97; 44; 32; 75]] [104] [] 0 = Some {| r_host := []; r_ca := []; r_revoked := [] |}.
Proof. vm_compute. reflexivity. Qed.

Example revoked_port_fallback_now_kept :
  kh_lookup_lines wit_ext [[104; 32; 75]; 64 :: txt_revoked ++ [32; 91; 104; 93; 58; 50; 50; 50; 50; 32; 75]] [104] [] 2222
  = Some {| r_host := [7]; r_ca := []; r_revoked := [7] |}.
Proof. vm_compute. reflexivity. Qed.

(* Before repair 9f68483 ([kh_lookup_lines_mid]): line "127.0.0.1,!g K", lookup of host g at
   address 127.0.0.1, port 2222.  The negated component g matches the host name, yet K was returned
   as trusted: the pass with the port matched the undecorated address entry by the parsed address
   while comparing the negated name with [g]:2222. *)
Theorem negation_bypassed_with_port_mid :
  exists x lines host addr port p k neg r,
    In (MNone, p, k) (kh_entries x lines) /\
    In (true, neg) (plist_split p) /\ wild_match neg host = true /\
    kh_lookup_lines_mid x lines host addr port = Some r /\ In k (r_host r).
Proof.
  exists wit_ext, [[49;50;55;46;48;46;48;46;49;44;33;103;32;75]], [103], [49;50;55;46;48;46;48;46;49], 2222,
         [49;50;55;46;48;46;48;46;49;44;33;103], 7, [103].
  eexists. split; [vm_compute; auto|]. split; [vm_compute; auto|]. split; [reflexivity|].
  split; [vm_compute; reflexivity|left; reflexivity].
Qed.

(* the same file and lookup with the repaired code: the line is excluded *)
Example negation_with_port_now_excludes :
  kh_lookup_lines wit_ext [[49;50;55;46;48;46;48;46;49;44;33;103;32;75]] [103] [49;50;55;46;48;46;48;46;49] 2222
  = Some {| r_host := []; r_ca := []; r_revoked := [] |} /\
  kh_lookup_lines wit_ext [[49;50;55;46;48;46;48;46;49;44;33;103;32;75]] [104] [49;50;55;46;48;46;48;46;49] 2222
  = Some {| r_host := [7]; r_ca := []; r_revoked := [] |}.
Proof. vm_compute. auto. Qed.

(* an address / CIDR entry never matches without a parsed address, hence never in a pass with a port *)
Theorem cidr_needs_plain_pass n host addr ip port :
  port <> 0 -> hp_match (HCidr n) host addr (pass_ip ip port) = false.
Proof. intros Hp. unfold pass_ip. apply Z.eqb_neq in Hp. rewrite Hp. reflexivity. Qed.

(* A key importer that raises something other than KeyImportError on a key field (the importer
   before repair e01fa70 did, for well-framed blobs with impossible parameters; [wit_ext] does on
   the field "R") is not skipped by the loader: the whole file becomes unusable.  This is why the
   skipped-line theorems carry [importer_total] or an explicit KBad premise. *)
Theorem raising_key_breaks_file :
  exists x l1 bad l2 host r,
    kh_lookup_lines x (l1 ++ l2) host [] 0 = Some r /\ r_host r <> [] /\
    kh_lookup_lines x (l1 ++ bad :: l2) host [] 0 = None.
Proof.
  exists wit_ext, [[104; 32; 75]], [104; 32; 82], [], [104].
  eexists. split; [vm_compute; reflexivity|]. split; [discriminate|vm_compute; reflexivity].
Qed.
