(* C06 - proofs about the generated table Gen/MsgGate.v (what a real endpoint did with every injected
   message).  Each check is a forallb over the whole finite table, evaluated by the kernel VM, and lifted to
   a universally quantified statement with the bounds spelled out. *)
From Coq Require Import String Ascii.
From AV Require Import Base.Prelude Model.Transport Gen.MsgGate.

Lemma in_zrange n z : 0 <= z < Z.of_nat n -> In z (zrange n).
Proof.
  intros H. unfold zrange. apply in_map_iff. exists (Z.to_nat z). split.
  - lia.
  - apply in_seq. lia.
Qed.

Lemma in_bools (b : bool) : In b [false; true].
Proof. destruct b; simpl; auto. Qed.

Lemma in_all_cells sv ph sk va :
  0 <= ph < Z.of_nat (nphases sv) -> 0 <= va < 4 -> In (sv, ph, sk, va) all_cells.
Proof.
  intros Hp Hv. unfold all_cells. apply in_or_app.
  destruct sv; [right|left]; unfold cells_of;
    repeat (apply in_prod); try apply in_bools; try (left; reflexivity); apply in_zrange; simpl in *; lia.
Qed.

Lemma row_all_spec p : forall lw l t0 i,
  row_all p t0 lw l = true -> (i < List.length lw)%nat -> (i < List.length l)%nat ->
  p (t0 + Z.of_nat i) (nth i lw VX) (nth i l VX) = true.
Proof.
  induction lw as [|w rw IH]; intros l t0 i H Hi1 Hi2; [simpl in Hi1; lia|].
  destruct l as [|v r]; [simpl in Hi2; lia|].
  simpl in H. apply andb_true_iff in H as [H1 H2].
  destruct i as [|i].
  - simpl. replace (t0 + 0) with t0 by lia. exact H1.
  - simpl nth. replace (t0 + Z.of_nat (S i)) with ((t0 + 1) + Z.of_nat i) by lia.
    apply IH; [exact H2 | simpl in Hi1; lia | simpl in Hi2; lia].
Qed.

Lemma table_all_spec rowf p :
  table_all rowf p = true ->
  forall sv ph sk va t, 0 <= ph < Z.of_nat (nphases sv) -> 0 <= va < 4 -> 0 <= t < 256 ->
    p sv ph sk va t (lookup rowf sv ph sk 0 t) (lookup rowf sv ph sk va t) = true.
Proof.
  intros H sv ph sk va t Hp Hv Ht. unfold table_all in H. rewrite forallb_forall in H.
  specialize (H _ (in_all_cells sv ph sk va Hp Hv)). cbv beta iota in H.
  apply andb_true_iff in H as [H H3]. apply andb_true_iff in H as [H1 H2].
  apply Nat.eqb_eq in H1, H2. unfold NTYPES in H1, H2.
  unfold lookup. fold (row_of rowf sv ph sk 0). fold (row_of rowf sv ph sk va).
  pose proof (row_all_spec _ _ _ 0 (Z.to_nat t) H3) as Hs.
  rewrite Z2Nat.id in Hs by lia. simpl in Hs. apply Hs; lia.
Qed.

Lemma tab_total : table_all gate_row p_total = true. Proof. vm_compute. reflexivity. Qed.
Lemma tab_prekex : table_all gate_row p_prekex = true. Proof. vm_compute. reflexivity. Qed.
Lemma tab_preauth : table_all gate_row p_preauth = true. Proof. vm_compute. reflexivity. Qed.
Lemma tab_role : table_all gate_row p_role = true. Proof. vm_compute. reflexivity. Qed.
Lemma tab_strict : table_all gate_row p_strict = true. Proof. vm_compute. reflexivity. Qed.
Lemma tab_guess : table_all gate_row (p_guess gate_row) = true. Proof. vm_compute. reflexivity. Qed.
Lemma tab_between : table_all gate_row p_between = true. Proof. vm_compute. reflexivity. Qed.
Lemma tab_stale : table_all gate_row p_stale = true. Proof. vm_compute. reflexivity. Qed.
Lemma tab_postauth : table_all gate_row p_postauth = true. Proof. vm_compute. reflexivity. Qed.
Lemma tab_unassigned : table_all gate_row p_unassigned = true. Proof. vm_compute. reflexivity. Qed.
Lemma tab_malformed : table_all gate_row p_malformed = true. Proof. vm_compute. reflexivity. Qed.

(* ---- the same facts as propositions ---------------------------------------------------------------------- *)
Lemma verdict_eqb_spec a b : verdict_eqb a b = true <-> a = b.
Proof. destruct a, b; simpl; split; intros H; try reflexivity; try discriminate. Qed.

Section TableFacts.
  Variables (sv : bool) (ph : Z) (sk : bool) (va t : Z).
  Hypothesis Hph : 0 <= ph < Z.of_nat (nphases sv).
  Hypothesis Hva : 0 <= va < 4.
  Hypothesis Ht : 0 <= t < 256.
  Let v := lookup gate_row sv ph sk va t.
  Let w := lookup gate_row sv ph sk 0 t.

  Lemma fact_total : v <> VX.
  Proof.
    pose proof (table_all_spec _ _ tab_total sv ph sk va t Hph Hva Ht) as H. unfold p_total in H.
    fold v in H. intros E. rewrite E in H. discriminate H.
  Qed.

  Lemma fact_prekex : ph <= 2 -> v = VH -> calls_for sv ph t = true.
  Proof.
    intros Hp Hv. pose proof (table_all_spec _ _ tab_prekex sv ph sk va t Hph Hva Ht) as H. unfold p_prekex in H.
    fold v in H. rewrite Hv in H. simpl verdict_eqb in H. rewrite andb_true_r in H.
    assert (E : (ph <=? 2) = true) by (apply Z.leb_le; exact Hp). rewrite E in H. exact H.
  Qed.

  Lemma fact_preauth : preauth_phase sv ph = true -> v = VH -> t <= 79.
  Proof.
    intros Hp Hv. pose proof (table_all_spec _ _ tab_preauth sv ph sk va t Hph Hva Ht) as H. unfold p_preauth in H.
    fold v in H. rewrite Hv, Hp in H. simpl in H. apply Z.leb_le. exact H.
  Qed.

  Lemma fact_stale : no_attempt sv ph = true -> 60 <= t <= 79 -> v = VF.
  Proof.
    intros Hp Hr. pose proof (table_all_spec _ _ tab_stale sv ph sk va t Hph Hva Ht) as H. unfold p_stale in H.
    fold v in H. rewrite Hp in H.
    assert (E1 : (60 <=? t) = true) by (apply Z.leb_le; lia). assert (E2 : (t <=? 79) = true) by (apply Z.leb_le; lia).
    rewrite E1, E2 in H. simpl in H. apply verdict_eqb_spec. exact H.
  Qed.

  Lemma fact_between : between_phase sv ph = true -> t = 52 -> v = VF.
  Proof.
    intros Hp Ht52. pose proof (table_all_spec _ _ tab_between sv ph sk va t Hph Hva Ht) as H. unfold p_between in H.
    fold v in H. rewrite Hp in H. subst t. simpl in H. apply verdict_eqb_spec. exact H.
  Qed.

  Lemma fact_guess :
    (ph = 13 -> 30 <= t <= 49 -> v = VI) /\ (ph = 14 -> v = lookup gate_row sv 1 sk va t).
  Proof.
    pose proof (table_all_spec _ _ tab_guess sv ph sk va t Hph Hva Ht) as H. unfold p_guess in H. fold v in H. split.
    - intros Hp Hr. subst ph. simpl in H.
      assert (E1 : (30 <=? t) = true) by (apply Z.leb_le; lia). assert (E2 : (t <=? 49) = true) by (apply Z.leb_le; lia).
      rewrite E1, E2 in H. simpl in H. apply verdict_eqb_spec. exact H.
    - intros Hp. subst ph. simpl in H. apply verdict_eqb_spec. exact H.
  Qed.

  Lemma fact_role : foreign_to sv t = true -> v <> VH.
  Proof.
    intros Hf. pose proof (table_all_spec _ _ tab_role sv ph sk va t Hph Hva Ht) as H. unfold p_role in H.
    fold v in H. rewrite Hf in H. intros E. rewrite E in H. discriminate H.
  Qed.

  Lemma fact_strict : sk = true -> ph <= 2 -> calls_for sv ph t = false ->
    (ph = 0 -> v = VF \/ v = VL) /\ (1 <= ph -> v = VF).
  Proof.
    intros Hs Hp Hc. pose proof (table_all_spec _ _ tab_strict sv ph sk va t Hph Hva Ht) as H. unfold p_strict in H.
    fold v in H. rewrite Hs, Hc in H. assert (E : (ph <=? 2) = true) by (apply Z.leb_le; exact Hp). rewrite E in H.
    simpl in H. split; intros Hq.
    - subst ph. simpl in H. unfold is_fatal in H. apply orb_true_iff in H. destruct H as [H|H];
        apply verdict_eqb_spec in H; auto.
    - assert (E0 : (ph =? 0) = false) by (apply Z.eqb_neq; lia). rewrite E0 in H. apply verdict_eqb_spec. exact H.
  Qed.

  Lemma fact_postauth : postauth_phase sv ph = true ->
    (sv = true -> t = 50 -> v = VI \/ v = VF) /\ (sv = false -> t = 51 \/ t = 52 -> v = VF).
  Proof.
    intros Hp. pose proof (table_all_spec _ _ tab_postauth sv ph sk va t Hph Hva Ht) as H. unfold p_postauth in H.
    fold v in H. rewrite Hp in H. split.
    - intros Hs Ht50. subst sv t. simpl in H. apply orb_true_iff in H. destruct H as [H|H];
        apply verdict_eqb_spec in H; auto.
    - intros Hs Htt. subst sv. simpl in H. apply verdict_eqb_spec.
      destruct Htt as [Htt|Htt]; subst t; simpl in H; exact H.
  Qed.

  Lemma fact_unassigned : unassigned t = true -> ph <> 13 -> v = VU \/ v = VF \/ v = VL.
  Proof.
    intros Hu Hn. pose proof (table_all_spec _ _ tab_unassigned sv ph sk va t Hph Hva Ht) as H. unfold p_unassigned in H.
    fold v in H. rewrite Hu in H. assert (E : (ph =? 13) = false) by (apply Z.eqb_neq; exact Hn). rewrite E in H.
    simpl in H. unfold is_fatal in H.
    apply orb_true_iff in H. destruct H as [H|H]; [left; apply verdict_eqb_spec; exact H|].
    apply orb_true_iff in H. destruct H as [H|H]; apply verdict_eqb_spec in H; auto.
  Qed.

  Lemma fact_malformed : va <> 0 -> v = VF \/ v = w.
  Proof.
    intros Hn. pose proof (table_all_spec _ _ tab_malformed sv ph sk va t Hph Hva Ht) as H. unfold p_malformed in H.
    fold v w in H. assert (E : (va =? 0) = false) by (apply Z.eqb_neq; exact Hn). rewrite E in H.
    apply orb_true_iff in H. destruct H as [H|H]; apply verdict_eqb_spec in H; auto.
  Qed.
End TableFacts.
