From AV Require Import Base.Prelude Model.Channel Model.MultiChannel Proofs.ChannelProofs.

(* ---------- text: any packetisation of the byte stream decodes to the same characters ---------- *)
Section TextProofs.
  Variables (C S : Type).
  Variable dec : S -> bytes -> S * list C.
  (* the incremental law: decoding a ++ b is decoding a, then b from the state reached *)
  Hypothesis dec_app : forall s a b,
    dec s (a ++ b) = let '(s1, o1) := dec s a in let '(s2, o2) := dec s1 b in (s2, o1 ++ o2).
  Hypothesis dec_nil : forall s, dec s [] = (s, []).

  Theorem dec_chunks_concat chunks : forall s,
    dec_chunks C S dec s chunks = dec s (concat chunks).
  Proof.
    induction chunks as [|c r IH]; intros s; simpl.
    - symmetry. apply dec_nil.
    - rewrite dec_app. destruct (dec s c) as [s1 o1]. rewrite IH. reflexivity.
  Qed.

  (* two packetisations of the same byte stream give the same characters and the same codec state *)
  Corollary text_segmentation_independent s chunks1 chunks2 :
    concat chunks1 = concat chunks2 -> dec_chunks C S dec s chunks1 = dec_chunks C S dec s chunks2.
  Proof. intros H. rewrite !dec_chunks_concat, H. reflexivity. Qed.
End TextProofs.

(* ---------- N channels on shared wires: every channel's private view evolves by Channel.step ---- *)

Lemma sel_app i a b : sel i (a ++ b) = sel i a ++ sel i b.
Proof. unfold sel. rewrite filter_app, map_app. reflexivity. Qed.

Lemma sel_tag_same i l : sel i (tag i l) = l.
Proof.
  unfold sel, tag. induction l as [|p l IH]; simpl; [reflexivity|]. rewrite Z.eqb_refl. simpl. f_equal. exact IH.
Qed.

Lemma sel_tag_other i j l : i <> j -> sel j (tag i l) = [].
Proof.
  intros H. unfold sel, tag. induction l as [|p l IH]; simpl; [reflexivity|].
  destruct (Z.eqb_spec i j); [contradiction|exact IH].
Qed.

Lemma upd_same {A} (f : Z -> A) i v : upd f i v i = v.
Proof. unfold upd. rewrite Z.eqb_refl. reflexivity. Qed.

Lemma upd_other {A} (f : Z -> A) i j v : i <> j -> upd f i v j = f j.
Proof. intros H. unfold upd. destruct (Z.eqb_spec j i); [congruence|reflexivity]. Qed.

(* a local operation only appends to the two wires of its channel *)
Lemma local_appends strict y o : is_local o = true ->
  exists nf nb, fwd (step strict y o) = fwd y ++ nf /\ back (step strict y o) = back y ++ nb.
Proof.
  intros Hl. unfold step. destruct (stuck y); [exists [], []; rewrite !app_nil_r; auto|].
  destruct o as [dt d| | | |k| | |dt d]; try discriminate.
  - destruct (s_state (snd_ y)); try (exists [], []; rewrite !app_nil_r; auto; fail).
    unfold upd_snd. destruct (s_write _ _ _) as [[s' out]|]; simpl;
      [exists out, []|exists [], []]; rewrite ?app_nil_r; auto.
  - destruct (s_state (snd_ y)); try (exists [], []; rewrite !app_nil_r; auto; fail).
    unfold upd_snd. destruct (s_eof _) as [[s' out]|]; simpl;
      [exists out, []|exists [], []]; rewrite ?app_nil_r; auto.
  - destruct (s_state (snd_ y)); try (exists [], []; rewrite !app_nil_r; auto; fail);
      unfold upd_snd; destruct (s_close _) as [[s' out]|]; simpl;
      [exists out, []|exists [], []|exists out, []|exists [], []|exists out, []|exists [], []]; rewrite ?app_nil_r; auto.
  - exists [], []. simpl. rewrite !app_nil_r. auto.
  - unfold upd_rcv. destruct (r_resume (rcv_ y) k) as [r' adj]. simpl. exists [], adj. rewrite app_nil_r. auto.
  - simpl. exists [PData dt d], []. rewrite app_nil_r. auto.
Qed.

Lemma skipn_app_exact {A} (a b : list A) : skipn (length a) (a ++ b) = b.
Proof. induction a; simpl; auto. Qed.

(* delivering the head of the forward wire, in terms of recv_pkt *)
Lemma step_deliver_fwd strict y p rest :
  stuck y = false -> fwd y = p :: rest ->
  step strict y ODeliverFwd =
    mkSys (snd_ y) (fst (recv_pkt strict (rcv_ y) p)) rest (back y ++ snd (recv_pkt strict (rcv_ y) p)) (written y) false.
Proof.
  intros Hs Hf. unfold step. rewrite Hs, Hf. unfold upd_rcv, recv_pkt.
  destruct p as [dt d| | |n].
  - destruct (r_data strict (rcv_ y) dt d); simpl; rewrite ?Hs; reflexivity.
  - destruct (r_eof (rcv_ y)); simpl; rewrite ?Hs; reflexivity.
  - destruct (r_close (rcv_ y)); simpl; rewrite ?Hs; reflexivity.
  - simpl. rewrite app_nil_r, ?Hs. reflexivity.
Qed.

Lemma step_deliver_back strict y p rest :
  stuck y = false -> back y = p :: rest ->
  step strict y ODeliverBack =
    match send_pkt (snd_ y) p with
    | None => mkSys (snd_ y) (rcv_ y) (fwd y) rest (written y) true
    | Some (s', out) => mkSys s' (rcv_ y) (fwd y ++ out) rest (written y) false
    end.
Proof.
  intros Hs Hb. unfold step. rewrite Hs, Hb. unfold send_pkt.
  destruct p as [dt d| | |n].
  - rewrite app_nil_r, ?Hs. reflexivity.
  - rewrite app_nil_r, ?Hs. reflexivity.
  - rewrite app_nil_r, ?Hs. reflexivity.
  - destruct (s_adjust (snd_ y) n) as [[s' out]|]; rewrite ?Hs; reflexivity.
Qed.

(* the global invariant: nobody is stuck and every channel's private view satisfies Inv *)
Definition GInv (c : conn) : Prop := c_stuck c = false /\ forall j, Inv (view j c).

Definition mhonest (m : mop) : Prop := match m with MChan _ o => honest o | _ => True end.

Lemma view_ext j c c' :
  c_snd c' j = c_snd c j -> c_rcv c' j = c_rcv c j -> c_written c' j = c_written c j ->
  sel j (c_fwd c') = sel j (c_fwd c) -> sel j (c_back c') = sel j (c_back c) -> c_stuck c' = c_stuck c ->
  view j c' = view j c.
Proof. intros A B C D E F. unfold view. rewrite A, B, C, D, E, F. reflexivity. Qed.

(* Simulation: one global step changes the private view of a channel either not at all or exactly by
   one Channel.step of an honest operation *)
Theorem mstep_view strict c m j :
  GInv c -> mhonest m ->
  view j (mstep strict c m) = view j c \/
  exists o, honest o /\ view j (mstep strict c m) = step strict (view j c) o.
Proof.
  intros [Hs HI] Hm. unfold mstep. rewrite Hs.
  destruct m as [i o| |].
  - destruct (is_local o) eqn:Hl; [|left; reflexivity].
    destruct (local_appends strict (view i c) o Hl) as (nf & nb & Hf & Hb).
    destruct (Z.eq_dec i j) as [->|Hne].
    + right. exists o. split; [exact Hm|].
      unfold view at 1. cbn [c_snd c_rcv c_written c_fwd c_back c_stuck].
      rewrite !upd_same, !sel_app, !sel_tag_same, Hf, Hb, !skipn_app_exact.
      cbn [view fwd back] in Hf, Hb |- *.
      destruct (step strict (view j c) o) as [s' r' f' b' w' st'] eqn:E. cbn in *. subst f' b'. reflexivity.
    + left. pose proof (inv_nostuck _ (step_inv strict _ o (HI i) Hm)) as Hst.
      apply view_ext; cbn [c_snd c_rcv c_written c_fwd c_back c_stuck];
        rewrite ?upd_other, ?sel_app, ?sel_tag_other, ?app_nil_r by assumption; auto. congruence.
  - destruct (c_fwd c) as [|[i p] rest] eqn:Ef; [left; reflexivity|].
    destruct (recv_pkt strict (c_rcv c i) p) as [r' adj] eqn:Er.
    destruct (Z.eq_dec i j) as [->|Hne].
    + right. exists ODeliverFwd. split; [exact I|].
      assert (Hvf : fwd (view j c) = p :: sel j rest).
      { cbn [view fwd]. rewrite Ef. unfold sel. simpl. rewrite Z.eqb_refl. reflexivity. }
      rewrite (step_deliver_fwd strict (view j c) p (sel j rest) Hs Hvf).
      cbn [view snd_ rcv_ back written]. rewrite Er. simpl fst. simpl snd.
      unfold view. cbn [c_snd c_rcv c_written c_fwd c_back c_stuck].
      rewrite upd_same, sel_app, sel_tag_same. reflexivity.
    + left. apply view_ext; cbn [c_snd c_rcv c_written c_fwd c_back c_stuck];
        rewrite ?upd_other, ?sel_app, ?sel_tag_other, ?app_nil_r by assumption; auto.
      rewrite Ef. unfold sel. simpl. destruct (Z.eqb_spec i j); [contradiction|reflexivity].
  - destruct (c_back c) as [|[i p] rest] eqn:Eb; [left; reflexivity|].
    assert (Hvb : forall k, k = i -> back (view k c) = p :: sel k rest).
    { intros k ->. cbn [view back]. rewrite Eb. unfold sel. simpl. rewrite Z.eqb_refl. reflexivity. }
    (* the acted channel cannot get stuck: its view satisfies Inv *)
    pose proof (step_inv strict (view i c) ODeliverBack (HI i) I) as Hinv.
    rewrite (step_deliver_back strict (view i c) p (sel i rest) Hs (Hvb i eq_refl)) in Hinv.
    cbn [view snd_] in Hinv.
    destruct (send_pkt (c_snd c i) p) as [[s' out]|] eqn:Esp.
    2:{ exfalso. pose proof (inv_nostuck _ Hinv) as X. simpl in X. discriminate. }
    destruct (Z.eq_dec i j) as [->|Hne].
    + right. exists ODeliverBack. split; [exact I|].
      rewrite (step_deliver_back strict (view j c) p (sel j rest) Hs (Hvb j eq_refl)).
      cbn [view snd_]. rewrite Esp.
      unfold view. cbn [c_snd c_rcv c_written c_fwd c_back c_stuck].
      rewrite upd_same, sel_app, sel_tag_same. reflexivity.
    + left. apply view_ext; cbn [c_snd c_rcv c_written c_fwd c_back c_stuck];
        rewrite ?upd_other, ?sel_app, ?sel_tag_other, ?app_nil_r by assumption; auto.
      rewrite Eb. unfold sel. simpl. destruct (Z.eqb_spec i j); [contradiction|reflexivity].
Qed.

Lemma mstep_ginv strict c m : GInv c -> mhonest m -> GInv (mstep strict c m).
Proof.
  intros G Hm. split.
  - (* nobody gets stuck: the view of channel 0 (any channel) carries the shared flag *)
    destruct (mstep_view strict c m 0 G Hm) as [E|(o & Ho & E)].
    + apply (f_equal stuck) in E. simpl in E. rewrite E. apply (proj1 G).
    + apply (f_equal stuck) in E. simpl in E. rewrite E.
      apply (inv_nostuck _ (step_inv strict _ o (proj2 G 0) Ho)).
  - intros j. destruct (mstep_view strict c m j G Hm) as [E|(o & Ho & E)]; rewrite E.
    + apply (proj2 G j).
    + apply step_inv; [apply (proj2 G j)|exact Ho].
Qed.

Lemma conn_init_ginv window pktsize :
  (forall i, 1 <= window i) -> (forall i, 1 <= pktsize i) -> GInv (conn_init window pktsize).
Proof.
  intros Hw Hp. split; [reflexivity|]. intros j.
  change (view j (conn_init window pktsize)) with (init_sys (window j) (pktsize j)).
  apply init_inv; auto.
Qed.

(* For ANY number of channels, any interleaving of their operations and any delivery order of the
   shared wires: every channel's private view satisfies the single-channel invariant - hence data
   conservation, window accounting, no error, per channel *)
Theorem multi_channel_inv strict window pktsize ms :
  (forall i, 1 <= window i) -> (forall i, 1 <= pktsize i) -> Forall mhonest ms ->
  forall j, Inv (view j (mrun strict window pktsize ms)).
Proof.
  intros Hw Hp H. unfold mrun.
  assert (G : GInv (fold_left (mstep strict) ms (conn_init window pktsize))).
  { generalize (conn_init_ginv window pktsize Hw Hp). generalize (conn_init window pktsize).
    induction ms as [|m ms IH]; intros c G; simpl; [exact G|].
    inversion H; subst. apply IH; [assumption|apply mstep_ginv; assumption]. }
  exact (proj2 G).
Qed.

(* the consequence the property talks about: on every channel, what its receiving session got,
   followed by what is still buffered / in flight for THAT channel, is exactly what was written on it *)
Corollary multi_channel_conservation strict window pktsize ms :
  (forall i, 1 <= window i) -> (forall i, 1 <= pktsize i) -> Forall mhonest ms ->
  forall j, let c := mrun strict window pktsize ms in
  toks_data (c_written c j) =
    toks_data (r_out (c_rcv c j)) ++ buf_data (r_buf (c_rcv c j)) ++ pkts_data (sel j (c_fwd c))
    ++ buf_data (s_buf (c_snd c j)).
Proof.
  intros Hw Hp H j c. pose proof (multi_channel_inv strict window pktsize ms Hw Hp H j) as I.
  symmetry. exact (inv_data _ I).
Qed.
