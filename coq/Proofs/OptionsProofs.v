(* Proofs about Model/Options.v *)
From AV Require Import Base.Prelude Model.Match Model.Options Proofs.MatchProofs.

(* ================================================================================================ *)
(* The tokenizer against a quoting printer                                                           *)

(* code points with a meaning for the tokenizer: backslash, double quote, blank, tab, comma *)
Definition plain (c : Z) : Prop := c <> 92 /\ c <> 34 /\ c <> 32 /\ c <> 9 /\ c <> 44.

(* OpenSSH's documented escaping: only the double quote is escaped, by a backslash *)
Fixpoint ossh_escape (v : text) : text :=
  match v with
  | [] => []
  | c :: r => if c =? 34 then 92 :: c :: ossh_escape r else c :: ossh_escape r
  end.

(* the values OpenSSH's quoting can represent: all but those ending in a backslash (a final
   backslash would swallow the closing quote, in OpenSSH's reader as well) *)
Fixpoint representable (v : text) : bool :=
  match v with
  | [] => true
  | c :: r => match r with [] => negb (c =? 92) | _ :: _ => representable r end
  end.

Definition print_opt (esc : text -> text) (nv : text * text) : text :=
  fst nv ++ 61 :: 34 :: esc (snd nv) ++ [34].

Fixpoint print_opts (esc : text -> text) (l : list (text * text)) : text :=
  match l with
  | [] => []
  | [o] => print_opt esc o
  | o :: r => print_opt esc o ++ 44 :: print_opts esc r
  end.

(* what _add_option receives for a quoted name=value *)
Definition raw_opt (nv : text * text) : text := fst nv ++ 61 :: snd nv.

Lemma tok_plain n : Forall plain n -> forall s cur acc last,
  exists last', tok (n ++ s) false false cur acc last = tok s false false (rev n ++ cur) acc last'.
Proof.
  unfold tok. induction 1 as [|c n (H92 & H34 & H32 & H9 & H44) _ IH]; intros s cur acc last.
  - exists last. reflexivity.
  - cbn [app tok_gen andb]. apply Z.eqb_neq in H92, H34, H32, H9, H44.
    rewrite H92, H34, H32, H9, H44. cbn [orb].
    destruct (IH s (c :: cur) acc [c]) as [l' ->]. exists l'.
    cbn [rev]. rewrite <- app_assoc. reflexivity.
Qed.

Lemma representable_tail c d r : representable (c :: d :: r) = representable (d :: r).
Proof. reflexivity. Qed.

(* inside a quoted value: A = no escape pending, B = a backslash of the value is pending *)
Lemma tok_quoted_repr v : representable v = true -> forall s acc,
  (forall cur last, exists last',
     tok_gen TLook (ossh_escape v ++ 34 :: s) true false cur acc last = tok_gen TLook s false false (rev v ++ cur) acc last') /\
  (v <> [] -> forall cur last, exists last',
     tok_gen TLook (ossh_escape v ++ 34 :: s) true true cur acc last = tok_gen TLook s false false (rev v ++ 92 :: cur) acc last').
Proof.
  induction v as [|c r IH]; intros Hr s acc.
  - split; [|congruence]. intros cur last. exists [34]. reflexivity.
  - assert (Hr' : r <> [] -> representable r = true) by (destruct r; [congruence|intros _; exact Hr]).
    assert (HA : forall cur last, exists last',
               tok_gen TLook (ossh_escape r ++ 34 :: s) true false cur acc last = tok_gen TLook s false false (rev r ++ cur) acc last').
    { destruct r as [|d r']; [intros cur last; exists [34]; reflexivity|].
      apply (IH (Hr' ltac:(discriminate)) s acc). }
    destruct (Z.eqb_spec c 34) as [->|H34].
    + (* a double quote of the value, printed backslash-quote *)
      change (ossh_escape (34 :: r)) with (92 :: 34 :: ossh_escape r). split.
      * intros cur last. cbn [app tok_gen andb]. change (92 =? 92) with true. change (34 =? 34) with true. cbn [andb].
        destruct (HA (34 :: cur) [34]) as [l' ->]. exists l'. cbn [rev]. rewrite <- app_assoc. reflexivity.
      * intros _ cur last. cbn [app tok_gen andb]. change (92 =? 34) with false. cbn [andb].
        change (92 =? 92) with true. change (34 =? 34) with true. cbn [andb].
        destruct (HA (34 :: 92 :: cur) [34]) as [l' ->]. exists l'. cbn [rev]. rewrite <- app_assoc. reflexivity.
    + destruct (Z.eqb_spec c 92) as [->|H92].
      * (* a backslash of the value: r is not empty *)
        assert (Hne : r <> []) by (destruct r; [discriminate Hr|discriminate]).
        destruct (IH (Hr' Hne) s acc) as [_ HB]. specialize (HB Hne).
        cbn [ossh_escape]. change (92 =? 34) with false. cbv iota. split.
        -- intros cur last. cbn [app tok_gen andb]. change (92 =? 92) with true.
           destruct (HB cur [92]) as [l' ->]. exists l'. cbn [rev]. rewrite <- app_assoc. reflexivity.
        -- intros _ cur last. cbn [app tok_gen andb]. change (92 =? 34) with false. cbn [andb].
           change (92 =? 92) with true.
           destruct (HB (92 :: cur) [92]) as [l' ->]. exists l'. cbn [rev]. rewrite <- app_assoc. reflexivity.
      * apply Z.eqb_neq in H34, H92. split.
        -- intros cur last. cbn [ossh_escape]. rewrite H34. cbn [app tok_gen andb]. rewrite H92, H34.
           destruct (HA (c :: cur) [c]) as [l' ->]. exists l'. cbn [rev]. rewrite <- app_assoc. reflexivity.
        -- intros _ cur last. cbn [ossh_escape]. rewrite H34. cbn [app tok_gen andb]. rewrite H34, H92.
           destruct (HA (c :: 92 :: cur) [c]) as [l' ->]. exists l'. cbn [rev]. rewrite <- app_assoc. reflexivity.
Qed.

Lemma tok_one_opt n v : Forall plain n -> representable v = true -> forall s cur acc last,
  exists last', tok (print_opt ossh_escape (n, v) ++ s) false false cur acc last =
                tok s false false (rev (raw_opt (n, v)) ++ cur) acc last'.
Proof.
  intros Hn Hv s cur acc last. unfold print_opt, raw_opt. cbn [fst snd].
  rewrite <- app_assoc.
  destruct (tok_plain n Hn ((61 :: 34 :: ossh_escape v ++ [34]) ++ s) cur acc last) as [l1 ->].
  unfold tok. cbn [app tok_gen andb]. change (61 =? 92) with false. change (61 =? 34) with false.
  change ((61 =? 32) || (61 =? 9)) with false. change (61 =? 44) with false.
  change (34 =? 92) with false. change (34 =? 34) with true. cbn [negb].
  rewrite <- app_assoc. cbn [app].
  destruct (tok_quoted_repr v Hv s acc) as [HA _].
  destruct (HA (61 :: rev n ++ cur) [34]) as [l2 ->]. exists l2.
  rewrite rev_app_distr. cbn [rev]. rewrite <- !app_assoc. reflexivity.
Qed.

Lemma tok_opts rest : forall opts acc last,
  opts <> [] -> Forall (fun nv => Forall plain (fst nv)) opts -> Forall (fun nv => representable (snd nv) = true) opts ->
  exists acc' cur',
    tok (print_opts ossh_escape opts ++ 32 :: rest) false false [] acc last = (acc', cur', false, false, 32 :: rest) /\
    rev (rev cur' :: acc') = rev acc ++ map raw_opt opts.
Proof.
  induction opts as [|[n v] r IH]; intros acc last Hne Hp Hs; [congruence|].
  inversion Hp as [|? ? Hn Hr]; subst. cbn [fst] in Hn.
  inversion Hs as [|? ? Hv Hsr]; subst. cbn [snd] in Hv.
  destruct r as [|o2 r].
  - cbn [print_opts].
    destruct (tok_one_opt n v Hn Hv (32 :: rest) [] acc last) as [l' ->].
    unfold tok. cbn [tok_gen andb]. change (32 =? 92) with false. change (32 =? 34) with false. change (32 =? 32) with true. cbn [orb].
    eexists _, _. split; [reflexivity|].
    rewrite app_nil_r, rev_involutive. cbn [rev map]. reflexivity.
  - change (print_opts ossh_escape ((n, v) :: o2 :: r)) with (print_opt ossh_escape (n, v) ++ 44 :: print_opts ossh_escape (o2 :: r)).
    rewrite <- app_assoc.
    destruct (tok_one_opt n v Hn Hv ((44 :: print_opts ossh_escape (o2 :: r)) ++ 32 :: rest) [] acc last) as [l' ->].
    unfold tok. cbn [app tok_gen andb]. change (44 =? 92) with false. change (44 =? 34) with false.
    change ((44 =? 32) || (44 =? 9)) with false. change (44 =? 44) with true.
    rewrite app_nil_r, rev_involutive.
    destruct (IH (raw_opt (n, v) :: acc) [44]) as (acc' & cur' & Htok & Hrev); [discriminate|exact Hr|exact Hsr|].
    exists acc', cur'. split; [exact Htok|]. rewrite Hrev. cbn [rev map]. rewrite <- app_assoc. reflexivity.
Qed.

(* Round trip with the quoting OpenSSH documents (the value in double quotes, embedded double quotes
   written backslash-quote, nothing else escaped): a non-empty list of options, followed by a blank and
   the rest of the line, is tokenized back to exactly those name=value strings, for every value
   that this quoting can represent at all (every value not ending in a backslash). *)
Theorem tokenize_ossh opts rest :
  opts <> [] -> Forall (fun nv => Forall plain (fst nv)) opts -> Forall (fun nv => representable (snd nv) = true) opts ->
  tokenize (print_opts ossh_escape opts ++ 32 :: rest) = Some (map raw_opt opts, strip (32 :: rest)).
Proof.
  intros Hne Hp Hs. unfold tokenize, tokenize_gen.
  destruct (tok_opts rest opts [] [] Hne Hp Hs) as (acc' & cur' & Htok & Hrev).
  unfold tok in Htok. rewrite Htok. cbn [orb]. rewrite Hrev. reflexivity.
Qed.

(* a value ending in a backslash is outside the format: its quoted form is refused *)
Theorem tokenize_ossh_trailing_backslash_refused :
  tokenize (print_opts ossh_escape [([120], [97; 92])] ++ [32; 107]) = None.
Proof. vm_compute. reflexivity. Qed.

(* Between 2e10b73 and fd4aee3 ([tokenize_mid]) a representable value with a backslash directly in
   front of a double quote (a, backslash, quote, b) was not tokenized back. *)
Theorem tokenize_mid_backslash_quote_lost :
  exists n v rest, Forall plain n /\ representable v = true /\
    tokenize_mid (print_opts ossh_escape [(n, v)] ++ 32 :: rest) <> Some ([raw_opt (n, v)], strip (32 :: rest)).
Proof.
  exists [120], [97; 92; 34; 98], [107]. split; [|split].
  - constructor; [|constructor]. unfold plain. lia.
  - reflexivity.
  - vm_compute. discriminate.
Qed.

(* Before repair 2e10b73 ([tokenize_old]) every backslash was dropped: the option x with the quoted
   value a-backslash-b was tokenized to x=ab. *)
Theorem tokenize_old_backslash_lost :
  exists n v rest, Forall plain n /\ representable v = true /\
    tokenize_old (print_opts ossh_escape [(n, v)] ++ 32 :: rest) <> Some ([raw_opt (n, v)], strip (32 :: rest)).
Proof.
  exists [120], [97; 92; 98], [107]. split; [|split].
  - constructor; [|constructor]. unfold plain. lia.
  - reflexivity.
  - vm_compute. discriminate.
Qed.

Lemma split_first_name n v : ~ In 61 n -> split_first 61 (n ++ 61 :: v) = Some (n, v).
Proof.
  induction n as [|c n IH]; intros H; cbn [app split_first].
  - reflexivity.
  - assert (c <> 61) by (intros ->; apply H; left; reflexivity).
    apply Z.eqb_neq in H0. rewrite H0. rewrite IH; [reflexivity|].
    intros Hin. apply H. right. exact Hin.
Qed.

(* ================================================================================================ *)
(* Repeated options accumulate                                                                       *)

Theorem from_repeats_accumulate m l v :
  opt_get m n_from = Some (VFrom l) ->
  add_option true m (n_from ++ 61 :: v) = Some (opt_set m n_from (VFrom (l ++ [v]))).
Proof.
  intros H. unfold add_option, add_option_gen. change (starts_with 61 (n_from ++ 61 :: v)) with false. cbv iota.
  rewrite split_first_name by (vm_compute; intuition discriminate).
  change (lower n_from) with n_from. cbv zeta.
  change (zlist_eqb n_from n_command) with false. change (zlist_eqb n_from n_environment) with false.
  change (zlist_eqb n_from n_from) with true. cbn [andb]. rewrite H. reflexivity.
Qed.

Theorem principals_repeats_accumulate m l v :
  opt_get m n_principals = Some (VPrinc l) ->
  add_option true m (n_principals ++ 61 :: v) = Some (opt_set m n_principals (VPrinc (l ++ [v]))).
Proof.
  intros H. unfold add_option, add_option_gen. change (starts_with 61 (n_principals ++ 61 :: v)) with false. cbv iota.
  rewrite split_first_name by (vm_compute; intuition discriminate).
  change (lower n_principals) with n_principals. cbv zeta.
  change (zlist_eqb n_principals n_command) with false. change (zlist_eqb n_principals n_environment) with false.
  change (zlist_eqb n_principals n_from) with false. change (zlist_eqb n_principals n_permitopen) with false.
  change (zlist_eqb n_principals n_principals) with true. cbn [andb]. rewrite H. reflexivity.
Qed.

(* ================================================================================================ *)
(* Option keywords are case-insensitive                                                              *)

Lemma lower_char_not_eq c : c <> 61 -> (if (65 <=? c) && (c <=? 90) then c + 32 else c) <> 61.
Proof. intros H. destruct ((65 <=? c) && (c <=? 90)) eqn:E; [lia|exact H]. Qed.

Lemma lower_no_eq n : ~ In 61 n -> ~ In 61 (lower n).
Proof.
  unfold lower. intros H Hin. apply in_map_iff in Hin as (c & Hc & Hin).
  assert (c <> 61) by (intros ->; exact (H Hin)). apply (lower_char_not_eq c H0). exact Hc.
Qed.

Lemma lower_idem n : lower (lower n) = lower n.
Proof.
  unfold lower. rewrite map_map. apply map_ext. intros c.
  destruct ((65 <=? c) && (c <=? 90)) eqn:E; [|rewrite E; reflexivity].
  assert (((65 <=? c + 32) && (c + 32 <=? 90)) = false) by lia. rewrite H. reflexivity.
Qed.

Lemma starts_with_lower n s : ~ In 61 n -> starts_with 61 (lower n ++ s) = starts_with 61 (n ++ s).
Proof.
  destruct n as [|c r]; [reflexivity|]. intros H. cbn [lower map app starts_with].
  assert (Hc : c <> 61) by (intros ->; apply H; left; reflexivity).
  pose proof (lower_char_not_eq c Hc) as Hl. apply Z.eqb_neq in Hc, Hl. rewrite Hc, Hl. reflexivity.
Qed.

Lemma split_first_none f : ~ In 61 f -> split_first 61 f = None.
Proof.
  induction f as [|c r IH]; intros H; [reflexivity|]. cbn [split_first].
  assert (c <> 61) by (intros ->; apply H; left; reflexivity). apply Z.eqb_neq in H0. rewrite H0.
  rewrite IH; [reflexivity|]. intros Hin. apply H. right. exact Hin.
Qed.

(* name=value: the keyword is used in lower case, however it was written *)
Theorem keyword_case_insensitive h m name v :
  ~ In 61 name -> add_option h m (name ++ 61 :: v) = add_option h m (lower name ++ 61 :: v).
Proof.
  intros Hn. unfold add_option, add_option_gen.
  rewrite (starts_with_lower name (61 :: v) Hn).
  rewrite !split_first_name by (assumption || apply lower_no_eq; assumption).
  rewrite lower_idem. reflexivity.
Qed.

(* flags likewise *)
Theorem flag_case_insensitive h m f :
  ~ In 61 f -> add_option h m f = add_option h m (lower f).
Proof.
  intros Hn. unfold add_option, add_option_gen.
  pose proof (starts_with_lower f [] Hn) as Hs. rewrite !app_nil_r in Hs. rewrite Hs.
  rewrite !split_first_none by (assumption || apply lower_no_eq; assumption).
  rewrite lower_idem. reflexivity.
Qed.

(* Before repair c342bf5 ([add_option_old]): FROM=x was filed under the unknown keyword FROM and no
   from restriction was recorded. *)
Theorem keyword_case_old_ignored :
  exists m, add_option_old true [] [70; 82; 79; 77; 61; 120] = Some m /\ opt_get m n_from = None /\
            exists m', add_option true [] [70; 82; 79; 77; 61; 120] = Some m' /\ opt_get m' n_from = Some (VFrom [[120]]).
Proof. eexists. split; [vm_compute; reflexivity|]. split; [reflexivity|]. eexists. split; vm_compute; reflexivity. Qed.

(* ================================================================================================ *)
(* All options are required to match                                                                 *)

(* An entry is accepted only if every from= list matches the client and, when the key came with
   certificate principals, every principals= list matches one of them; and conversely. *)
Theorem match_options_spec x m host addr princs :
  match_options x m host addr princs = Some true <->
  (match opt_get m n_from with
   | None | Some (VFrom []) => True
   | Some (VFrom fl) => exists ip, parse_ip x addr = Some ip /\
                                   forall t, In t fl -> hpl_match x t host addr (Some ip) = true
   | Some _ => False
   end) /\
  (match princs, opt_get m n_principals with
   | Some ps, Some (VPrinc pl) => forall t, In t pl -> exists p, In p ps /\ wpl_match t p = true
   | Some _, Some _ => False
   | _, _ => True
   end).
Proof.
  unfold match_options.
  set (P := match princs, opt_get m n_principals with
            | Some ps, Some (VPrinc pl) => forall t, In t pl -> exists p, In p ps /\ wpl_match t p = true
            | Some _, Some _ => False
            | _, _ => True
            end).
  assert (HP : match princs, opt_get m n_principals with
               | Some ps, Some (VPrinc l) => Some (forallb (fun t => existsb (wpl_match t) ps) l)
               | Some _, Some _ => None
               | _, _ => Some true
               end = Some true <-> P).
  { unfold P. destruct princs as [ps|]; [|tauto].
    destruct (opt_get m n_principals) as [[| | | |pl| |]|]; try tauto; try (split; [discriminate|intros []]).
    split.
    - intros [= H]. rewrite forallb_forall in H. intros t Ht. apply H in Ht.
      apply existsb_exists in Ht. exact Ht.
    - intros H. f_equal. apply forallb_forall. intros t Ht. apply existsb_exists. apply H. exact Ht. }
  destruct (opt_get m n_from) as [[| | |fl| | |]|].
  1-3,5-7: split; [discriminate|intros [[] _]].
  - destruct fl as [|f0 fl].
    + rewrite HP. tauto.
    + destruct (parse_ip x addr) as [ip|].
      * destruct (forallb (fun t => hpl_match x t host addr (Some ip)) (f0 :: fl)) eqn:Ef.
        -- rewrite HP. split; [intros H; split; [|exact H]|intros [_ H]; exact H].
           exists ip. split; [reflexivity|]. apply forallb_forall. exact Ef.
        -- split; [discriminate|]. intros [(ip' & [= <-] & H) _].
           assert (forallb (fun t => hpl_match x t host addr (Some ip)) (f0 :: fl) = true)
             by (apply forallb_forall; exact H). congruence.
      * split; [discriminate|]. intros [(ip' & E & _) _]. discriminate.
  - rewrite HP. tauto.
Qed.

(* validate returns the options of an entry only if that entry has the presented key and all its
   options matched; if it returns nothing, no entry with that key matched. *)
Theorem validate_sound x es key host addr princs o :
  ak_validate_list x es key host addr princs = Some (Some o) ->
  exists e, In e es /\ ae_key e = key /\ ae_opts e = o /\ match_options x o host addr princs = Some true.
Proof.
  induction es as [|e r IH]; simpl; [discriminate|].
  destruct (Z.eqb_spec (ae_key e) key) as [Hk|Hk].
  - destruct (match_options x (ae_opts e) host addr princs) as [[|]|] eqn:Em; try discriminate.
    + intros [= <-]. exists e. auto.
    + intros H. destruct (IH H) as (e' & Hin & Hr). exists e'. auto.
  - intros H. destruct (IH H) as (e' & Hin & Hr). exists e'. auto.
Qed.

Theorem validate_complete x es key host addr princs :
  ak_validate_list x es key host addr princs = Some None ->
  forall e, In e es -> ae_key e = key -> match_options x (ae_opts e) host addr princs = Some false.
Proof.
  induction es as [|e r IH]; simpl; [intros _ e []|].
  destruct (Z.eqb_spec (ae_key e) key) as [Hk|Hk].
  - destruct (match_options x (ae_opts e) host addr princs) as [[|]|] eqn:Em; try discriminate.
    intros H e' [<-|Hin] Hk'; [exact Em|apply IH; assumption].
  - intros H e' [<-|Hin] Hk'; [congruence|apply IH; assumption].
Qed.

(* the first matching entry wins *)
Theorem validate_first x es1 e es2 key host addr princs :
  (forall e', In e' es1 -> ae_key e' <> key \/ match_options x (ae_opts e') host addr princs = Some false) ->
  ae_key e = key -> match_options x (ae_opts e) host addr princs = Some true ->
  ak_validate_list x (es1 ++ e :: es2) key host addr princs = Some (Some (ae_opts e)).
Proof.
  intros H1 Hk Hm. induction es1 as [|e1 r IH]; simpl.
  - apply Z.eqb_eq in Hk. rewrite Hk, Hm. reflexivity.
  - destruct (H1 e1 (or_introl eq_refl)) as [Hne|Hf].
    + apply Z.eqb_neq in Hne. rewrite Hne. apply IH. intros e' Hin. apply H1. right. exact Hin.
    + rewrite Hf. destruct (ae_key e1 =? key); apply IH; intros e' Hin; apply H1; right; exact Hin.
Qed.

(* ================================================================================================ *)
(* authorized_keys: lines that are skipped                                                           *)

Lemma ak_load_lines_app x l1 l2 : forall st,
  ak_load_lines x (l1 ++ l2) st =
  match ak_load_lines x l1 st with Some st' => ak_load_lines x l2 st' | None => None end.
Proof.
  induction l1 as [|l r IH]; intros st; simpl; [reflexivity|].
  destruct (ak_parse_line x l); try apply IH; reflexivity.
Qed.

Theorem ak_bad_line_skipped x l1 bad l2 :
  ak_parse_line x bad = ALSkip \/ ak_parse_line x bad = ALBlank ->
  ak_load_from_lines x (l1 ++ bad :: l2) = ak_load_from_lines x (l1 ++ l2).
Proof.
  intros Hb. unfold ak_load_from_lines. rewrite !ak_load_lines_app.
  destruct (ak_load_lines x l1 ak_empty) as [st|]; [|reflexivity].
  simpl. destruct Hb as [-> | ->]; reflexivity.
Qed.

(* a line "options<blank>keyfield" (or just a key field) whose key cannot be imported is skipped *)
Theorem ak_unparsable_key_line_skipped x line m rest :
  line <> [] -> strip line = line -> hd 0 line <> 35 ->
  keyof x line = KBad -> parse_options true line = Some (m, rest) -> keyof x rest = KBad ->
  ak_parse_line x line = ALSkip.
Proof.
  intros Hne Hs H35 Hk Hp Hr. unfold ak_parse_line. rewrite Hs.
  destruct line as [|c l]; [congruence|]. simpl in H35. apply Z.eqb_neq in H35. rewrite H35.
  rewrite Hk, Hp, Hr. reflexivity.
Qed.

(* with an importer that only ever fails with KeyImportError: any line whose key field is not a key *)
Theorem ak_not_a_key_line_skipped x line m rest :
  importer_total x ->
  line <> [] -> strip line = line -> hd 0 line <> 35 ->
  (forall id, keyof x line <> KOk id) -> parse_options true line = Some (m, rest) ->
  (forall id, keyof x rest <> KOk id) ->
  ak_parse_line x line = ALSkip.
Proof.
  intros Ht Hne Hs H35 Hk Hp Hr.
  apply (ak_unparsable_key_line_skipped x line m rest); try assumption; apply not_key_is_bad; assumption.
Qed.

(* A key importer that raises something other than KeyImportError (as the one before repair e01fa70
   did on impossible key parameters; [wit_ext] does on the field R) makes the whole file fail: this
   is why the theorems above carry [importer_total] or a KBad premise. *)
Theorem ak_raising_key_breaks_file :
  exists x l1 bad l2, ak_load_from_lines x (l1 ++ l2) <> None /\ ak_load_from_lines x (l1 ++ bad :: l2) = None.
Proof.
  exists wit_ext, [[75]], [82], []. split; vm_compute; [discriminate|reflexivity].
Qed.
