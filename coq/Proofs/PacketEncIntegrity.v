(* C01 at byte level, on top of Model/PacketEnc.v: for EVERY adversarial byte stream and chunking, if
   the adversary has not minted a new valid tag on this run (premise [unforgeable], about the run - not
   an axiom about the tag function), the payloads delivered are a prefix of the honest sender's
   payloads, and the stream begins with exactly the sender's frames for them. *)
From AV Require Import Base.Prelude Model.Packet Proofs.PacketProofs Model.PacketEnc Proofs.PacketEncProofs.
Local Arguments Z.mul : simpl never.
Local Arguments Z.add : simpl never.
Local Arguments Z.sub : simpl never.
Local Arguments Z.modulo : simpl never.
Local Arguments Z.div : simpl never.
Local Arguments Z.of_nat : simpl never.
Local Arguments Z.to_nat : simpl never.
Local Arguments firstn : simpl never.
Local Arguments skipn : simpl never.
Local Arguments M32 : simpl never.

(* ---------- pure list / arithmetic facts ------------------------------------------------------- *)
Lemma seq_mod_inj sq a b : 0 <= a -> 0 <= b -> a < M32 -> b < M32 ->
  (sq + a) mod M32 = (sq + b) mod M32 -> a = b.
Proof. unfold M32. intros. lia. Qed.

Lemma seq_next_ne sq d i : 0 <= d -> 0 <= i -> d + 1 + i < M32 ->
  (sq + d) mod M32 = (((sq + d) mod M32 + 1) mod M32 + i) mod M32 -> False.
Proof. unfold M32. intros. lia. Qed.

Lemma firstn_length_app {A} (a b : list A) : firstn (length a) (a ++ b) = a.
Proof. rewrite firstn_app, Nat.sub_diag, firstn_all. simpl. apply app_nil_r. Qed.

Lemma firstn_prefix {A} (j k : nat) (l : list A) : (j <= k)%nat -> exists u, firstn k l = firstn j l ++ u.
Proof.
  intros H. exists (skipn j (firstn k l)).
  rewrite <- (firstn_skipn j (firstn k l)) at 1. f_equal.
  rewrite firstn_firstn. f_equal. lia.
Qed.

(* section-free copies of two facts of PacketEncProofs (there they carry unused section variables) *)
Lemma wf_facts0 bs m payload padding : 4 <= bs -> wf_pkt bs m (payload, padding) ->
  let packet := zlen padding :: payload ++ padding in
  zlen packet = 1 + zlen payload + zlen padding /\ 1 <= zlen payload /\
  0 <= zlen packet < M32 /\ py_payload packet = payload.
Proof.
  intros H. exact (wf_facts unit (fun c x => (c, x)) (fun c x => (c, x)) (fun _ x => x) (fun c _ x => (c, (x, x)))
                            (fun c _ _ _ => (c, None)) (fun _ _ x => (x, x)) (fun _ x => x) (fun _ _ _ _ => None)
                            bs H m payload padding).
Qed.

Lemma py_split30 (l : bytes) a b : 0 <= a <= b -> b <= zlen l -> l = py_slice l 0 a ++ py_slice l a b ++ py_from l b.
Proof. exact (py_split3 unit (fun c _ x => (c, x, x)) (fun c _ _ _ _ => (c, None)) l a b). Qed.

(* what every byte-level integrity theorem below concludes about one run: k deliveries, they are
   exactly the first k payloads of the sender, and the input stream begins with exactly the sender's
   first k frames *)
Definition integrity_concl (payloads ws : list bytes) (stream : bytes) (delivered : list bytes) : Prop :=
  exists k, (k <= length payloads)%nat /\ delivered = firstn k payloads /\
            exists tail, stream = concat (firstn k ws) ++ tail.

(* (a) if the stream does not begin with the sender's first j+1 frames - i.e. it deviates from the
   honest wire no later than inside frame j, by whatever edit - at most j payloads are delivered *)
Lemma integrity_first_deviation payloads ws stream delivered j :
  integrity_concl payloads ws stream delivered ->
  (forall t, stream <> concat (firstn (S j) ws) ++ t) ->
  exists k, (k <= j)%nat /\ delivered = firstn k payloads.
Proof.
  intros (k & Hk & Hd & tail & Hs) Hdev. exists k. split; [|exact Hd].
  destruct (le_lt_dec k j) as [L|L]; [exact L|exfalso].
  destruct (firstn_prefix (S j) k ws L) as [u Hu].
  apply (Hdev (concat u ++ tail)). rewrite Hs, Hu, concat_app, app_assoc. reflexivity.
Qed.

(* (b) replay / reorder / splice: after the first j honest frames comes something that does not begin
   with the bytes of honest frame j (an earlier frame again, a later frame, a frame of another
   sequence number, garbage, nothing more): nothing beyond payload j-1 is ever delivered *)
Lemma integrity_out_of_place payloads ws stream delivered j wj x :
  integrity_concl payloads ws stream delivered ->
  nth_error ws j = Some wj -> stream = concat (firstn j ws) ++ x -> (forall t, x <> wj ++ t) ->
  exists k, (k <= j)%nat /\ delivered = firstn k payloads.
Proof.
  intros Hc Hn Hs Hx. apply (integrity_first_deviation _ _ _ _ j Hc).
  intros t E. rewrite Hs in E.
  assert (Hf : firstn (S j) ws = firstn j ws ++ [wj]).
  { clear - Hn. revert ws Hn. induction j as [|j IH]; intros [|w ws] Hn; try discriminate.
    - inversion Hn. reflexivity.
    - simpl in Hn. rewrite !firstn_cons. rewrite (IH ws Hn). reflexivity. }
  rewrite Hf, concat_app in E. cbn [concat] in E. rewrite app_nil_r, <- app_assoc in E.
  apply app_inv_head in E. exact (Hx t E).
Qed.

Section Integrity.
  Variable cst : Type.
  Variables cenc cdec : cst -> bytes -> cst * bytes.
  Variable tag : Z -> bytes -> bytes.
  Variable gcm_enc : cst -> bytes -> bytes -> cst * (bytes * bytes).
  Variable gcm_dec : cst -> bytes -> bytes -> bytes -> cst * option bytes.
  Variable cc_enc : Z -> bytes -> bytes -> bytes * bytes.
  Variable cc_hdr : Z -> bytes -> bytes.
  Variable cc_dec : Z -> bytes -> bytes -> bytes -> option bytes.
  Variables bs macsz : Z.
  Hypothesis Hbs : 4 <= bs.
  Hypothesis Hmac : 0 <= macsz.

  Notation DH := (dec_header cst cdec cc_hdr).
  Notation DP := (dec_packet cst cdec tag gcm_dec cc_dec).
  Notation FEED := (mfeed cst cdec tag gcm_dec cc_hdr cc_dec).
  Notation SREC := (sent_rec cst cenc tag gcm_enc cc_enc).
  Notation SLOG := (send_log cst cenc tag gcm_enc cc_enc).
  Notation AFTER := (sender_after cst cenc tag gcm_enc cc_enc).
  Notation SENDS := (send_stream cst cenc tag gcm_enc cc_enc).
  Notation SENDF := (send_frame cst cenc tag gcm_enc cc_enc).
  Notation COV := (covered cst cdec).
  Notation UNF := (unforgeable cst cdec).

  (* ---------- the sender's log ---------------------------------------------------------------- *)
  Lemma sent_rec_fields m c sq payload padding :
    sseq cst (SREC m c sq payload padding) = sq /\ scst0 cst (SREC m c sq payload padding) = c /\
    spkt cst (SREC m c sq payload padding) = zlen padding :: payload ++ padding /\
    SENDF m c sq payload padding = (scst1 cst (SREC m c sq payload padding), swire cst (SREC m c sq payload padding)).
  Proof.
    unfold sent_rec, send_frame.
    destruct (enc_packet cst cenc tag gcm_enc cc_enc m c sq _ _) as [[c' out] mac]. cbn. repeat split.
  Qed.

  Lemma send_log_length m pkts : forall c sq, length (SLOG m c sq pkts) = length pkts.
  Proof. induction pkts as [|[payload padding] r IH]; intros c sq; simpl; [reflexivity|]. rewrite IH. reflexivity. Qed.

  Lemma send_log_cons m c sq payload padding l :
    SLOG m c sq ((payload, padding) :: l) =
    SREC m c sq payload padding :: SLOG m (scst1 cst (SREC m c sq payload padding)) ((sq + 1) mod M32) l.
  Proof. reflexivity. Qed.

  Lemma sender_after_cons m c sq payload padding l :
    AFTER m c sq ((payload, padding) :: l) =
    AFTER m (scst1 cst (SREC m c sq payload padding)) ((sq + 1) mod M32) l.
  Proof. reflexivity. Qed.

  Lemma sender_after_snoc m c sq l payload padding :
    AFTER m c sq (l ++ [(payload, padding)]) =
    (scst1 cst (SREC m (fst (AFTER m c sq l)) (snd (AFTER m c sq l)) payload padding), (snd (AFTER m c sq l) + 1) mod M32).
  Proof. unfold sender_after. rewrite fold_left_app. reflexivity. Qed.

  Lemma sender_after_seq m l : forall c sq, 0 <= sq < M32 -> snd (AFTER m c sq l) = (sq + Z.of_nat (length l)) mod M32.
  Proof.
    induction l as [|[payload padding] r IH]; intros c sq Hs.
    - cbn [sender_after fold_left snd length]. change (Z.of_nat 0) with 0. rewrite Z.add_0_r, Z.mod_small by exact Hs. reflexivity.
    - rewrite sender_after_cons, IH by (apply Z.mod_pos_bound; reflexivity).
      rewrite Zplus_mod_idemp_l. f_equal. simpl length. lia.
  Qed.

  Lemma send_log_app m a : forall b c sq,
    SLOG m c sq (a ++ b) = SLOG m c sq a ++ SLOG m (fst (AFTER m c sq a)) (snd (AFTER m c sq a)) b.
  Proof.
    induction a as [|[payload padding] r IH]; intros b c sq; [reflexivity|].
    rewrite <- app_comm_cons, !send_log_cons, IH, sender_after_cons. reflexivity.
  Qed.

  Lemma send_log_In_seq m l : forall c sq r, 0 <= sq < M32 -> In r (SLOG m c sq l) ->
    exists i, (i < length l)%nat /\ sseq cst r = (sq + Z.of_nat i) mod M32.
  Proof.
    induction l as [|[payload padding] l IH]; intros c sq r Hs Hin; [destruct Hin|].
    rewrite send_log_cons in Hin. destruct Hin as [E|Hin].
    - exists 0%nat. split; [simpl; lia|]. subst r.
      rewrite (proj1 (sent_rec_fields m c sq payload padding)). change (Z.of_nat 0) with 0.
      rewrite Z.add_0_r, Z.mod_small by exact Hs. reflexivity.
    - destruct (IH _ _ r ltac:(apply Z.mod_pos_bound; reflexivity) Hin) as (i & Hi & E).
      exists (S i). split; [simpl; lia|]. rewrite E, Zplus_mod_idemp_l. f_equal. lia.
  Qed.

  Lemma send_log_wire m l : forall c sq, map (swire cst) (SLOG m c sq l) = snd (SENDS m c sq l).
  Proof.
    induction l as [|[payload padding] l IH]; intros c sq; [reflexivity|].
    rewrite send_log_cons. cbn [send_stream map].
    destruct (sent_rec_fields m c sq payload padding) as (_ & _ & _ & E). rewrite E.
    specialize (IH (scst1 cst (SREC m c sq payload padding)) ((sq + 1) mod M32)).
    destruct (SENDS m _ _ l) as [[c'' sq''] ws]. cbn [snd] in *. rewrite IH. reflexivity.
  Qed.

  Lemma send_log_payloads m l : forall c sq, Forall (wf_pkt bs m) l ->
    map (@py_payload) (map (spkt cst) (SLOG m c sq l)) = map fst l.
  Proof.
    induction l as [|[payload padding] l IH]; intros c sq Hall; [reflexivity|].
    inversion Hall as [|x y Hp Hr]; subst. rewrite send_log_cons. cbn [map fst].
    rewrite IH by exact Hr. f_equal.
    rewrite (proj1 (proj2 (proj2 (sent_rec_fields m c sq payload padding)))).
    apply (wf_facts0 bs m payload padding Hbs Hp).
  Qed.

  (* ---------- the run invariant ---------------------------------------------------------------- *)
  Variable m : emode.
  Variable c0 : cst.
  Variable sq0 : Z.
  Variable ps : list (bytes * bytes).
  Hypothesis Hsq0 : 0 <= sq0 < M32.
  Hypothesis Hwf : Forall (wf_pkt bs m) ps.
  (* fewer than 2^32 packets: no sequence number occurs twice within this key epoch *)
  Hypothesis Hn : Z.of_nat (length ps) < M32.

  (* what the shim class m must guarantee when its check accepts the very triple the sender logged
     for (c, sq, payload, padding): same data, same next cipher state, same wire bytes, a length of
     at least one block.  Proved per shim class from the primitive laws below. *)
  Definition accept_law : Prop :=
    forall c sq payload padding raw c1 first lenb rest mac c2 pd,
      wf_pkt bs m (payload, padding) -> zlen raw = bs ->
      DH m c sq raw = (c1, first, lenb) -> DP m c1 sq first rest mac = (c2, Some pd) ->
      scov cst (SREC m c sq payload padding) = COV m (mkV sq c1 raw first rest mac pd) ->
      smac cst (SREC m c sq payload padding) = mac ->
      pd = spkt cst (SREC m c sq payload padding) /\ c2 = scst1 cst (SREC m c sq payload padding) /\
      raw ++ rest ++ mac = swire cst (SREC m c sq payload padding) /\ bs <= 4 + be_int lenb.

  Hypothesis Haccept : accept_law.

  Definition Jinv (inp : bytes) (s : estate cst) : Prop :=
    exists done todo, ps = done ++ todo /\
      map (@vdata cst) (elog s) = map (spkt cst) (SLOG m c0 sq0 done) /\
      eseq s = snd (AFTER m c0 sq0 done) /\
      (exists tail, inp = concat (map (swire cst) (SLOG m c0 sq0 done)) ++ tail /\
                    (est s = SOk -> tail = epending cst s ++ ebuf s)) /\
      (est s = SOk ->
       match eph s with
       | EHdr => ecst s = fst (AFTER m c0 sq0 done)
       | EBody raw first pl =>
           exists lenb, DH m (fst (AFTER m c0 sq0 done)) (snd (AFTER m c0 sq0 done)) raw = (ecst s, first, lenb) /\
                        pl = be_int lenb /\ zlen raw = bs
       end).

  Definition Kinv (inp : bytes) (s : estate cst) : Prop := UNF m (SLOG m c0 sq0 ps) s -> Jinv inp s.

  Lemma Jinv_dead inp s s' : Jinv inp s -> elog s' = elog s -> eseq s' = eseq s -> est s' <> SOk -> Jinv inp s'.
  Proof.
    intros (done & todo & Hps & Hd & Hq & (tail & Hin & _) & _) El Eq Hst.
    exists done, todo. rewrite El, Eq. repeat split; try assumption.
    - exists tail. split; [exact Hin|]. intros E. contradiction.
    - intros E. contradiction.
  Qed.

  Lemma Kinv_step inp s s' : mstep cst cdec tag gcm_dec cc_hdr cc_dec m bs macsz s = Some s' -> Kinv inp s -> Kinv inp s'.
  Proof.
    intros H HK Hunf. unfold mstep in H.
    destruct (estep_cases cst (DH m) (DP m) bs macsz s s' H)
      as [Hst [(Hph & Hlen & c' & first & lenb & Edh & ->)|(raw & first & n & Hph & Hlen & Hb)]].
    - (* header *)
      destruct (HK Hunf) as (done & todo & Hps & Hd & Hq & (tail & Hin & Htail) & Hphase).
      exists done, todo. cbn [elog eseq est eph ecst ebuf]. repeat split; try assumption.
      + exists tail. split; [exact Hin|]. intros _. rewrite (Htail Hst). unfold epending. rewrite Hph. cbn [eph app].
        symmetry. apply firstn_skipn.
      + intros _. specialize (Hphase Hst). rewrite Hph in Hphase. exists lenb. rewrite <- Hphase, <- Hq.
        split; [exact Edh|]. split; [reflexivity|]. unfold zlen in *. rewrite firstn_length. lia.
    - cbv zeta in Hb. destruct Hb as (c' & r & Edp & Hr).
      set (rem := 4 + n + macsz - bs) in *.
      set (rest := py_slice (ebuf s) 0 (rem - macsz)) in *. set (mac := py_slice (ebuf s) (rem - macsz) rem) in *.
      destruct Hr as [(pd & -> & Hne & [[Ep ->]|[Ep ->]])|[_ ->]].
      + (* accepted, empty payload: dead *)
        apply (Jinv_dead inp s); [apply HK; exact Hunf|reflexivity|reflexivity|discriminate].
      + (* delivered *)
        unfold unforgeable in Hunf. cbn [elog] in Hunf. apply Forall_app in Hunf as [Hunf0 Hnew].
        inversion Hnew as [|e0 l0 (r & Hin & Hrs & Hrc & Hrm) _]; subst e0 l0.
        cbn [vseq vmac] in Hrs, Hrm.
        destruct (HK Hunf0) as (done & todo & Hps & Hd & Hq & (tail & Hinp & Htail) & Hphase).
        specialize (Hphase Hst). rewrite Hph in Hphase. destruct Hphase as (lenb & Edh & -> & Hrawl).
        specialize (Htail Hst). unfold epending in Htail. rewrite Hph in Htail.
        set (ck := fst (AFTER m c0 sq0 done)) in *. set (sqk := snd (AFTER m c0 sq0 done)) in *.
        assert (Hsqk : sqk = (sq0 + Z.of_nat (length done)) mod M32) by (apply sender_after_seq; exact Hsq0).
        assert (Hsqkr : 0 <= sqk < M32) by (rewrite Hsqk; apply Z.mod_pos_bound; reflexivity).
        assert (Hlen_ps : length ps = (length done + length todo)%nat) by (rewrite Hps, app_length; reflexivity).
        (* which sender entry was accepted? only the next one has this sequence number *)
        rewrite Hps, send_log_app in Hin. fold ck sqk in Hin. apply in_app_or in Hin.
        assert (Hhead : exists payload padding todo', todo = (payload, padding) :: todo' /\ r = SREC m ck sqk payload padding).
        { destruct Hin as [Hin|Hin].
          - exfalso. destruct (send_log_In_seq m done c0 sq0 r Hsq0 Hin) as (i & Hi & E).
            rewrite Hrs, Hq, Hsqk in E.
            apply seq_mod_inj in E; [| | |clear - Hlen_ps Hn; lia|clear - Hi Hlen_ps Hn; lia]; clear - E Hi; lia.
          - destruct todo as [|[payload padding] todo']; [destruct Hin|].
            rewrite send_log_cons in Hin. destruct Hin as [E|Hin]; [exists payload, padding, todo'; split; [reflexivity|symmetry; exact E]|].
            exfalso.
            destruct (send_log_In_seq m todo' _ _ r ltac:(apply Z.mod_pos_bound; reflexivity) Hin) as (i & Hi & E).
            rewrite Hrs, Hq, Hsqk in E. simpl length in Hlen_ps.
            apply seq_next_ne in E; [exact E| | |]; clear - Hi Hlen_ps Hn; lia. }
        destruct Hhead as (payload & padding & todo' & -> & ->).
        assert (Hwfp : wf_pkt bs m (payload, padding)).
        { rewrite Hps in Hwf. apply Forall_app in Hwf as [_ Hw]. inversion Hw; assumption. }
        rewrite Hq in Edp, Hrc.
        destruct (Haccept ck sqk payload padding raw (ecst s) first lenb rest mac c' pd Hwfp Hrawl Edh Edp Hrc Hrm)
          as (Hpd & Hc' & Hwire & Hshort).
        exists (done ++ [(payload, padding)]), todo'.
        rewrite sender_after_snoc. fold ck sqk. cbn [fst snd].
        rewrite send_log_app. fold ck sqk. rewrite send_log_cons. cbn [send_log elog eseq est eph ecst ebuf]. rewrite !map_app. cbn [map vdata].
        split; [rewrite <- app_assoc; exact Hps|].
        split; [rewrite Hd, Hpd; reflexivity|].
        split; [rewrite Hq; reflexivity|].
        split.
        * exists (py_from (ebuf s) rem). split; [|intros _; reflexivity].
          rewrite concat_app. cbn [concat]. rewrite app_nil_r, <- Hwire, Hinp, Htail, <- !app_assoc. do 2 f_equal.
          apply py_split30; unfold rem; clear - Hshort Hlen Hmac; fold rem in Hlen; unfold rem in *; lia.
        * intros _. exact Hc'.
      + (* MAC failure: dead *)
        apply (Jinv_dead inp s); [apply HK; exact Hunf|reflexivity|reflexivity|discriminate].
  Qed.

  Lemma Kinv_app inp s c : Kinv inp s -> Kinv (inp ++ c) (eapp s c).
  Proof.
    intros HK Hunf. destruct (HK Hunf) as (done & todo & Hps & Hd & Hq & (tail & Hin & Htail) & Hphase).
    exists done, todo. cbn [eapp elog eseq est eph ecst ebuf]. repeat split; try assumption.
    exists (tail ++ c). split; [rewrite Hin, app_assoc; reflexivity|].
    intros Hst. rewrite (Htail Hst). unfold epending. cbn [eph]. rewrite app_assoc. reflexivity.
  Qed.

  Lemma Kinv_loop inp fuel : forall s, Kinv inp s -> Kinv inp (eloop (DH m) (DP m) bs macsz fuel s).
  Proof.
    induction fuel as [|f IH]; intros s HK; simpl; [exact HK|].
    destruct (ebuf s); [exact HK|].
    destruct (estep (DH m) (DP m) bs macsz s) as [s'|] eqn:E; [|exact HK].
    apply IH. eapply Kinv_step; eassumption.
  Qed.

  Lemma Kinv_fold chunks : forall inp s, Kinv inp s -> Kinv (inp ++ concat chunks) (fold_left (FEED m bs macsz) chunks s).
  Proof.
    induction chunks as [|c cs IH]; intros inp s HK; simpl.
    - rewrite app_nil_r. exact HK.
    - rewrite app_assoc. apply IH. unfold mfeed, efeed. apply Kinv_loop, Kinv_app, HK.
  Qed.

  Lemma Kinv_init : Kinv [] (einit c0 sq0).
  Proof.
    intros _. exists [], ps. cbn. repeat split.
    - exists []. split; [reflexivity|]. intros _. reflexivity.
  Qed.

  (* the byte-level integrity theorem for a shim class satisfying accept_law *)
  Theorem byte_prefix_integrity_gen chunks :
    let s := fold_left (FEED m bs macsz) chunks (einit c0 sq0) in
    UNF m (SLOG m c0 sq0 ps) s ->
    integrity_concl (map fst ps) (snd (SENDS m c0 sq0 ps)) (concat chunks) (egot s).
  Proof.
    intros s Hunf.
    destruct (Kinv_fold chunks [] _ Kinv_init Hunf) as (done & todo & Hps & Hd & _ & (tail & Hin & _) & _).
    fold s in Hd. rewrite app_nil_l in Hin.
    destruct (enc_delivered_inv cst (DH m) (DP m) bs macsz c0 sq0 chunks Hsq0) as (Hg & _).
    fold (FEED m bs macsz) in Hg. fold s in Hg.
    exists (length done). split; [rewrite map_length, Hps, app_length; lia|]. split.
    - rewrite Hg, <- (map_map (@vdata cst) (@py_payload)), Hd, send_log_payloads.
      + rewrite Hps, map_app, <- (map_length fst done). symmetry. apply firstn_length_app.
      + rewrite Hps in Hwf. apply Forall_app in Hwf. apply Hwf.
    - exists tail. rewrite Hin. f_equal. f_equal.
      rewrite <- send_log_wire, Hps, send_log_app, map_app.
      rewrite <- (send_log_length m done c0 sq0), <- (map_length (swire cst)). symmetry. apply firstn_length_app.
  Qed.
End Integrity.

(* ---------- accept_law for the four shim classes, from the laws of the primitives --------------- *)
Section AcceptLaws.
  Variable cst : Type.
  Variables cenc cdec : cst -> bytes -> cst * bytes.
  Variable tag : Z -> bytes -> bytes.
  Variable gcm_enc : cst -> bytes -> bytes -> cst * (bytes * bytes).
  Variable gcm_dec : cst -> bytes -> bytes -> bytes -> cst * option bytes.
  Variable cc_enc : Z -> bytes -> bytes -> bytes * bytes.
  Variable cc_hdr : Z -> bytes -> bytes.
  Variable cc_dec : Z -> bytes -> bytes -> bytes -> option bytes.
  Variable bs : Z.
  Hypothesis Hbs : 4 <= bs.

  Notation ALAW := (accept_law cst cenc cdec tag gcm_enc gcm_dec cc_enc cc_hdr cc_dec bs).

  Lemma first4 (raw rest : bytes) : zlen raw = bs -> firstn 4 raw = firstn 4 (raw ++ rest) /\ skipn 4 raw ++ rest = skipn 4 (raw ++ rest).
  Proof.
    intros H. assert (4 <= length raw)%nat by (unfold zlen in H; lia). split.
    - apply firstn_firstn_app_le. lia.
    - symmetry. apply skipn_app_le. lia.
  Qed.

  Lemma aligned_ge L : 0 < L -> L mod bs = 0 -> bs <= L.
  Proof. intros. apply mod0_ge; [lia|assumption|assumption]. Qed.

  Section ETM.
    Hypothesis cenc_len : forall c x, zlen (snd (cenc c x)) = zlen x.
    Hypothesis cdec_cenc : forall c x, zlen x mod bs = 0 -> cdec c (snd (cenc c x)) = (fst (cenc c x), x).

    Lemma accept_etm : ALAW ETM.
    Proof.
      intros c sq payload padding raw c1 first lenb rest mac c2 pd Hwf Hrawl Edh Edp Hcov Hmacq.
      destruct (wf_facts0 bs ETM payload padding Hbs Hwf) as (HL & Hpl & HLr & _).
      destruct Hwf as (_ & Hpad & Hal & _). cbn [fst snd hdrlen] in Hal, Hpad.
      unfold sent_rec, enc_packet in *.
      set (packet := zlen padding :: payload ++ padding) in *. set (L := zlen packet) in *.
      pose proof (cdec_cenc c packet) as Hinv.
      destruct (cenc c packet) as [c' ct] eqn:Ec. cbn [scov smac spkt scst1 swire fst snd] in *.
      assert (Hmod : L mod bs = 0) by (rewrite <- Hal; f_equal; lia).
      specialize (Hinv Hmod).
      unfold dec_header in Edh. inversion Edh; subst c1 first lenb. clear Edh.
      unfold covered in Hcov. cbn [vfirst vrest] in Hcov.
      unfold dec_packet in Edp. rewrite <- Hcov in Edp.
      destruct (zlist_eqb (tag sq (u32 L ++ ct)) mac); [|inversion Edp].
      change (skipn 4 (u32 L ++ ct)) with ct in Edp. rewrite Hinv in Edp. inversion Edp; subst c2 pd.
      split; [reflexivity|]. split; [reflexivity|]. split.
      - rewrite app_assoc, <- Hcov, Hmacq. reflexivity.
      - rewrite (proj1 (first4 raw rest Hrawl)), <- Hcov. change (firstn 4 (u32 L ++ ct)) with (u32 L).
        rewrite be_int_u32 by exact HLr.
        assert (bs <= L) by (apply aligned_ge; [clear - HL Hpl Hpad; lia|exact Hmod]). clear - H. lia.
    Qed.
  End ETM.

  Section GCM.
    Hypothesis gcm_law : forall c h d, zlen h = 4 ->
      let r := gcm_enc c h d in
      zlen (fst (snd r)) = 4 + zlen d /\ firstn 4 (fst (snd r)) = h /\
      gcm_dec c h (skipn 4 (fst (snd r))) (snd (snd r)) = (fst r, Some d).

    Lemma accept_gcm : ALAW GCM.
    Proof.
      intros c sq payload padding raw c1 first lenb rest mac c2 pd Hwf Hrawl Edh Edp Hcov Hmacq.
      destruct (wf_facts0 bs GCM payload padding Hbs Hwf) as (HL & Hpl & HLr & _).
      destruct Hwf as (_ & Hpad & Hal & _). cbn [fst snd hdrlen] in Hal, Hpad.
      unfold sent_rec, enc_packet in *.
      set (packet := zlen padding :: payload ++ padding) in *. set (L := zlen packet) in *.
      pose proof (gcm_law c (u32 L) packet (zlen_u32 L)) as Hlaw. cbv zeta in Hlaw.
      destruct (gcm_enc c (u32 L) packet) as [c' [out t]] eqn:Ec. cbn [scov smac spkt scst1 swire fst snd] in *.
      destruct Hlaw as (Houtl & Hh & Hdec).
      assert (Hmod : L mod bs = 0) by (rewrite <- Hal; f_equal; lia).
      unfold dec_header in Edh. inversion Edh; subst c1 first lenb. clear Edh.
      unfold covered in Hcov. cbn [vfirst vrest] in Hcov.
      destruct (first4 raw rest Hrawl) as [F4 S4].
      unfold dec_packet in Edp. rewrite F4, S4, <- Hcov, Hh, <- Hmacq, Hdec in Edp. inversion Edp; subst c2 pd.
      split; [reflexivity|]. split; [reflexivity|]. split.
      - rewrite app_assoc, <- Hcov, Hmacq. reflexivity.
      - rewrite F4, <- Hcov, Hh. rewrite be_int_u32 by exact HLr.
        assert (bs <= L) by (apply aligned_ge; [clear - HL Hpl Hpad; lia|exact Hmod]). clear - H. lia.
    Qed.
  End GCM.

  Section Chacha.
    Hypothesis cc_law : forall sq h d, zlen h = 4 ->
      let r := cc_enc sq h d in
      zlen (fst r) = 4 + zlen d /\ cc_hdr sq (firstn 4 (fst r)) = h /\
      cc_dec sq (firstn 4 (fst r)) (skipn 4 (fst r)) (snd r) = Some d.

    Lemma accept_chacha : ALAW Chacha.
    Proof.
      intros c sq payload padding raw c1 first lenb rest mac c2 pd Hwf Hrawl Edh Edp Hcov Hmacq.
      destruct (wf_facts0 bs Chacha payload padding Hbs Hwf) as (HL & Hpl & HLr & _).
      destruct Hwf as (_ & Hpad & Hal & _). cbn [fst snd hdrlen] in Hal, Hpad.
      unfold sent_rec, enc_packet in *.
      set (packet := zlen padding :: payload ++ padding) in *. set (L := zlen packet) in *.
      pose proof (cc_law sq (u32 L) packet (zlen_u32 L)) as Hlaw. cbv zeta in Hlaw.
      destruct (cc_enc sq (u32 L) packet) as [out t] eqn:Ec. cbn [scov smac spkt scst1 swire fst snd] in *.
      destruct Hlaw as (Houtl & Hh & Hdec).
      assert (Hmod : L mod bs = 0) by (rewrite <- Hal; f_equal; lia).
      unfold dec_header in Edh. inversion Edh; subst c1 first lenb. clear Edh.
      unfold covered in Hcov. cbn [vfirst vrest] in Hcov.
      destruct (first4 raw rest Hrawl) as [F4 S4].
      unfold dec_packet in Edp. rewrite F4, S4, <- Hcov, <- Hmacq, Hdec in Edp. inversion Edp; subst c2 pd.
      split; [reflexivity|]. split; [reflexivity|]. split.
      - rewrite app_assoc, <- Hcov, Hmacq. reflexivity.
      - rewrite F4, <- Hcov, Hh. rewrite be_int_u32 by exact HLr.
        assert (bs <= L) by (apply aligned_ge; [clear - HL Hpl Hpad; lia|exact Hmod]). clear - H. lia.
    Qed.
  End Chacha.

  Section Basic.
    Hypothesis cdec_len : forall c x, zlen (snd (cdec c x)) = zlen x.
    (* encryption inverts decryption from the same state and ends in the same state (block-aligned
       data): cipher text is determined by plain text and state *)
    Hypothesis cenc_cdec : forall c x, zlen x mod bs = 0 -> cenc c (snd (cdec c x)) = (fst (cdec c x), x).
    Hypothesis cdec_split : forall c a b, zlen a mod bs = 0 -> zlen b mod bs = 0 ->
      cdec c (a ++ b) = (fst (cdec (fst (cdec c a)) b), snd (cdec c a) ++ snd (cdec (fst (cdec c a)) b)).

    Lemma accept_basic : ALAW Basic.
    Proof.
      intros c sq payload padding raw c1 first lenb rest mac c2 pd Hwf Hrawl Edh Edp Hcov Hmacq.
      destruct (wf_facts0 bs Basic payload padding Hbs Hwf) as (HL & Hpl & HLr & _).
      destruct Hwf as (_ & Hpad & Hal & _). cbn [fst snd hdrlen] in Hal, Hpad.
      unfold sent_rec, enc_packet in *.
      set (packet := zlen padding :: payload ++ padding) in *. set (L := zlen packet) in *.
      set (pkt := u32 L ++ packet) in *.
      destruct (cenc c pkt) as [c' ct] eqn:Ec. cbn [scov smac spkt scst1 swire fst snd] in *.
      assert (Hpktl : zlen pkt = 4 + L) by (unfold pkt; rewrite zlen_app, zlen_u32; reflexivity).
      assert (Hmod : (4 + L) mod bs = 0) by (rewrite <- Hal; f_equal; lia).
      assert (Hbpos : 0 < bs) by (clear - Hbs; lia).
      assert (HbsL : bs <= 4 + L) by (apply aligned_ge; [clear - HL Hpl Hpad; lia|exact Hmod]).
      unfold dec_header in Edh. pose proof (cdec_len c raw) as Hfbl.
      pose proof (cdec_split c raw rest) as Hsp.
      destruct (cdec c raw) as [c1' fb] eqn:E1. cbn [fst snd] in *. inversion Edh; subst c1' first lenb. clear Edh.
      unfold covered in Hcov. cbn [vfirst vrest vcst] in Hcov.
      unfold dec_packet in Edp. pose proof (cdec_len c1 rest) as Hrl.
      destruct (cdec c1 rest) as [c2' r] eqn:E2. cbn [fst snd] in *. rewrite <- Hcov in Edp.
      destruct (zlist_eqb (tag sq pkt) mac); [|inversion Edp].
      inversion Edp; subst c2' pd. clear Edp.
      (* lengths: |fb| = bs, |r| = |rest| = 4 + L - bs *)
      assert (Hrestl : zlen rest = 4 + L - bs).
      { pose proof (f_equal zlen Hcov) as E. rewrite zlen_app, Hpktl, Hfbl, Hrl, Hrawl in E. clear - E. lia. }
      rewrite Hrawl, Hrestl in Hsp. specialize (Hsp (Z_mod_same_full bs) (mod0_sub _ _ Hbpos Hmod)).
      (* re-encrypting what was decrypted gives the wire bytes back *)
      pose proof (cenc_cdec c (raw ++ rest)) as Hre. rewrite zlen_app, Hrawl, Hrestl in Hre.
      replace (bs + (4 + L - bs)) with (4 + L) in Hre by ring. specialize (Hre Hmod).
      rewrite Hsp in Hre. cbn [fst snd] in Hre. rewrite <- Hcov, Ec in Hre. inversion Hre as [[Hc2 Hct]].
      split; [reflexivity|]. split; [reflexivity|]. split.
      - rewrite app_assoc, <- Hct, Hmacq. reflexivity.
      - assert (Hfb4 : firstn 4 fb = u32 L).
        { rewrite (firstn_firstn_app_le 4 fb r) by (unfold zlen in Hfbl, Hrawl; lia). rewrite <- Hcov. reflexivity. }
        rewrite Hfb4, be_int_u32 by exact HLr. exact HbsL.
    Qed.
  End Basic.
End AcceptLaws.

(* ---------- the theorem, uniform in the shim class ---------------------------------------------- *)
Section Final.
  Variable cst : Type.
  Variables cenc cdec : cst -> bytes -> cst * bytes.
  Variable tag : Z -> bytes -> bytes.
  Variable gcm_enc : cst -> bytes -> bytes -> cst * (bytes * bytes).
  Variable gcm_dec : cst -> bytes -> bytes -> bytes -> cst * option bytes.
  Variable cc_enc : Z -> bytes -> bytes -> bytes * bytes.
  Variable cc_hdr : Z -> bytes -> bytes.
  Variable cc_dec : Z -> bytes -> bytes -> bytes -> option bytes.

  Lemma accept_of_laws bs m : 4 <= bs ->
    mode_laws cst cenc cdec gcm_enc gcm_dec cc_enc cc_hdr cc_dec bs m ->
    accept_law cst cenc cdec tag gcm_enc gcm_dec cc_enc cc_hdr cc_dec bs m.
  Proof.
    intros Hbs. destruct m; cbn [mode_laws].
    - intros (A & B & C). apply accept_basic; assumption.
    - intros (A & B). apply accept_etm; assumption.
    - intros A. apply accept_gcm; assumption.
    - intros A. apply accept_chacha; assumption.
  Qed.

  Theorem byte_prefix_integrity m bs macsz c0 sq0 ps chunks :
    4 <= bs -> 0 <= macsz -> 0 <= sq0 < M32 ->
    mode_laws cst cenc cdec gcm_enc gcm_dec cc_enc cc_hdr cc_dec bs m ->
    Forall (wf_pkt bs m) ps -> Z.of_nat (length ps) < M32 ->
    let s := fold_left (mfeed cst cdec tag gcm_dec cc_hdr cc_dec m bs macsz) chunks (einit c0 sq0) in
    unforgeable cst cdec m (send_log cst cenc tag gcm_enc cc_enc m c0 sq0 ps) s ->
    integrity_concl (map fst ps) (snd (send_stream cst cenc tag gcm_enc cc_enc m c0 sq0 ps)) (concat chunks) (egot s).
  Proof.
    intros Hbs Hmac Hsq Hlaws Hwf Hn. apply byte_prefix_integrity_gen; try assumption.
    apply accept_of_laws; assumption.
  Qed.
End Final.

(* ---------- non-vacuity: the toy primitives satisfy mode_laws ------------------------------------- *)
Lemma toy_crypt_reenc k c x : toy_crypt k c (snd (toy_crypt k c x)) = (fst (toy_crypt k c x), x).
Proof. apply toy_crypt_inv. Qed.

Lemma toy_mode_laws bs tl k m :
  mode_laws Z (toy_crypt k) (toy_crypt k) (toy_gcm_enc tl k) (toy_gcm_dec tl k) (toy_cc_enc tl k) (toy_cc_hdr k)
            (toy_cc_dec tl k) bs m.
Proof.
  destruct m; cbn [mode_laws].
  - split; [apply toy_crypt_len|]. split; [intros c x _; apply toy_crypt_inv|intros c a b _ _; apply toy_crypt_split].
  - split; [apply toy_crypt_len|intros c x _; apply toy_crypt_inv].
  - intros c h d H. destruct (toy_gcm_law tl k c h d H) as (A & B & _ & D). repeat split; assumption.
  - intros sq h d H. destruct (toy_cc_law tl k sq h d H) as (A & B & _ & D). repeat split; assumption.
Qed.

Theorem toy_byte_prefix_integrity m bs tl k c0 sq0 ps chunks :
  4 <= bs -> 0 <= sq0 < M32 -> Forall (wf_pkt bs m) ps -> Z.of_nat (length ps) < M32 ->
  let s := fold_left (toy_feed m bs tl k) chunks (einit c0 sq0) in
  toy_unforgeable m k (toy_send_log m tl k c0 sq0 ps) s ->
  integrity_concl (map fst ps) (snd (toy_send_stream m tl k c0 sq0 ps)) (concat chunks) (egot s).
Proof.
  intros Hbs Hsq Hwf Hn. unfold toy_feed, toy_unforgeable, toy_send_log, toy_send_stream.
  apply byte_prefix_integrity; try assumption; [lia|apply toy_mode_laws].
Qed.

(* the decidable premise check used in the examples is sound *)
Lemma toy_unforgeable_b_sound m k slog s : toy_unforgeable_b m k slog s = true -> toy_unforgeable m k slog s.
Proof.
  unfold toy_unforgeable_b, toy_unforgeable, unforgeable. intros H. rewrite forallb_forall in H.
  apply Forall_forall. intros e He. specialize (H e He). apply existsb_exists in H as (r & Hr & Hb).
  apply andb_true_iff in Hb as [Hb Hm]. apply andb_true_iff in Hb as [Hs Hc].
  exists r. split; [exact Hr|]. apply Z.eqb_eq in Hs. apply zlist_eqb_spec in Hc. apply zlist_eqb_spec in Hm.
  repeat split; assumption.
Qed.
