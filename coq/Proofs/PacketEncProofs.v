(* Proofs about Model/PacketEnc.v *)
From AV Require Import Base.Prelude Model.Packet Proofs.PacketProofs Model.PacketEnc.
Local Arguments Z.mul : simpl never.
Local Arguments Z.add : simpl never.
Local Arguments Z.sub : simpl never.
Local Arguments Z.modulo : simpl never.
Local Arguments Z.div : simpl never.
Local Arguments Z.of_nat : simpl never.
Local Arguments Z.to_nat : simpl never.
Local Arguments firstn : simpl never.
Local Arguments skipn : simpl never.
Local Arguments M32 : simpl never.

(* ---------- Python slices with in-range bounds ------------------------------------------------ *)

Lemma py_idx_in n i : 0 <= i <= n -> py_idx n i = i.
Proof. intros H. unfold py_idx. destruct (Z.ltb_spec i 0); lia. Qed.

Lemma py_slice_in (l : bytes) a b : 0 <= a <= b -> b <= zlen l ->
  py_slice l a b = firstn (Z.to_nat (b - a)) (skipn (Z.to_nat a) l).
Proof. intros Ha Hb. unfold py_slice. rewrite !py_idx_in by lia. reflexivity. Qed.

Lemma py_from_in (l : bytes) a : 0 <= a <= zlen l -> py_from l a = skipn (Z.to_nat a) l.
Proof. intros Ha. unfold py_from. rewrite py_idx_in by lia. reflexivity. Qed.

Lemma py_slice_app (l c : bytes) a b : 0 <= a <= b -> b <= zlen l -> py_slice (l ++ c) a b = py_slice l a b.
Proof.
  intros Ha Hb. pose proof (zlen_nonneg c).
  rewrite !py_slice_in by (rewrite ?zlen_app; lia).
  unfold zlen in *. rewrite skipn_app_le by lia. apply firstn_app_le. rewrite skipn_length. lia.
Qed.

Lemma py_from_app (l c : bytes) a : 0 <= a <= zlen l -> py_from (l ++ c) a = py_from l a ++ c.
Proof.
  intros Ha. pose proof (zlen_nonneg c).
  rewrite !py_from_in by (rewrite ?zlen_app; lia).
  unfold zlen in *. apply skipn_app_le. lia.
Qed.

Lemma skipn_skipn_add {A} (y : nat) : forall (x : nat) (l : list A), skipn x (skipn y l) = skipn (y + x) l.
Proof.
  induction y as [|y IH]; intros x l; [reflexivity|].
  destruct l as [|a l]; [rewrite !skipn_nil; reflexivity|]. cbn [Nat.add]. rewrite !skipn_cons. apply IH.
Qed.

(* ---------- the receive loop for ANY pair of shim functions ----------------------------------- *)
Section RecvProofs.
  Variable cst : Type.
  Variable dh : cst -> Z -> bytes -> cst * bytes * bytes.
  Variable dp : cst -> Z -> bytes -> bytes -> bytes -> cst * option bytes.
  Variables bs macsz : Z.
  Hypothesis Hbs : 1 <= bs.
  Hypothesis Hmac : 0 <= macsz.

  Notation state := (estate cst).
  Notation step := (estep dh dp bs macsz).
  Notation loop := (eloop dh dp bs macsz).
  Notation feed := (efeed dh dp bs macsz).

  (* a header already taken announces at least one block in total *)
  Definition eokp (s : state) : Prop :=
    match eph s with EBody _ _ n => bs <= 4 + n | EHdr => True end.

  Definition eR (s s' : state) : Prop := ebuf s <> [] /\ step s = Some s'.

  Inductive eRs : state -> state -> Prop :=
  | eRs_refl s : eRs s s
  | eRs_step s s' s'' : eR s s' -> eRs s' s'' -> eRs s s''.

  Definition estuck (s : state) : Prop := ebuf s = [] \/ step s = None.

  Lemma eRs_trans a b c : eRs a b -> eRs b c -> eRs a c.
  Proof. induction 1; intros; [assumption|]. eapply eRs_step; eauto. Qed.

  Lemma eR_det s a b : eR s a -> eR s b -> a = b.
  Proof. intros [_ Ha] [_ Hb]. congruence. Qed.

  Lemma estuck_no_step s s' : estuck s -> eR s s' -> False.
  Proof. intros [E|E] [Hne Hs]; congruence. Qed.

  Lemma enf_unique s n1 n2 : eRs s n1 -> estuck n1 -> eRs s n2 -> estuck n2 -> n1 = n2.
  Proof.
    intros H1. revert n2. induction H1 as [s|s s' s'' HR H1 IH]; intros n2 St1 H2 St2.
    - destruct H2 as [|s s' s'' HR' _]; [reflexivity|]. exfalso. exact (estuck_no_step _ _ St1 HR').
    - destruct H2 as [|s t t' HR' H2'].
      + exfalso. exact (estuck_no_step _ _ St2 HR).
      + rewrite (eR_det _ _ _ HR' HR) in H2'. apply IH; assumption.
  Qed.

  Lemma eon_path s m t : eRs s m -> eRs s t -> estuck t -> eRs m t.
  Proof.
    intros Hm. revert t. induction Hm as [s|s s' s'' HR Hm IH]; intros t Ht St; [assumption|].
    destruct Ht as [|s u u' HR' Ht'].
    - exfalso. exact (estuck_no_step _ _ St HR).
    - rewrite (eR_det _ _ _ HR' HR) in Ht'. apply IH; assumption.
  Qed.

  (* case analysis of one step, used by every invariant below *)
  Lemma estep_cases s s' : step s = Some s' ->
    est s = SOk /\
    ((eph s = EHdr /\ bs <= zlen (ebuf s) /\
      exists c' first lenb, dh (ecst s) (eseq s) (firstn (Z.to_nat bs) (ebuf s)) = (c', first, lenb) /\
        s' = mkES (skipn (Z.to_nat bs) (ebuf s)) (EBody (firstn (Z.to_nat bs) (ebuf s)) first (be_int lenb))
                  (eseq s) c' (egot s) SOk (eshort s || (4 + be_int lenb <? bs)) (elog s))
     \/
     (exists raw first n, eph s = EBody raw first n /\ 4 + n + macsz - bs <= zlen (ebuf s) /\
        let rem := 4 + n + macsz - bs in
        let rest := py_slice (ebuf s) 0 (rem - macsz) in
        let mac := py_slice (ebuf s) (rem - macsz) rem in
        exists c' r, dp (ecst s) (eseq s) first rest mac = (c', r) /\
          ((exists pd, r = Some pd /\ pd <> [] /\
              ((py_payload pd = [] /\
                s' = mkES (py_from (ebuf s) rem) EHdr (eseq s) c' (egot s) SDecode (eshort s) (elog s))
               \/
               (py_payload pd <> [] /\
                s' = mkES (py_from (ebuf s) rem) EHdr ((eseq s + 1) mod M32) c' (egot s ++ [py_payload pd]) SOk
                          (eshort s) (elog s ++ [mkV (eseq s) (ecst s) raw first rest mac pd]))))
           \/
           ((r = None \/ r = Some []) /\
            s' = mkES (ebuf s) EHdr (eseq s) c' (egot s) SMac (eshort s) (elog s))))).
  Proof.
    unfold estep. destruct (est s); try discriminate. intros H. split; [reflexivity|].
    destruct (eph s) as [|raw first n].
    - left. destruct (Z.ltb_spec (zlen (ebuf s)) bs) as [E|E]; [discriminate|].
      destruct (dh _ _ _) as [[c' first] lenb] eqn:Edh. inversion H; subst.
      repeat split; try assumption. exists c', first, lenb. split; reflexivity.
    - right. exists raw, first, n. split; [reflexivity|].
      destruct (Z.ltb_spec (zlen (ebuf s)) (4 + n + macsz - bs)) as [E|E]; [discriminate|].
      split; [lia|]. cbv zeta.
      destruct (dp _ _ _ _ _) as [c' r] eqn:Edp. exists c', r. split; [reflexivity|].
      destruct r as [[|d0 dt]|].
      + right. inversion H; subst. split; [right; reflexivity|reflexivity].
      + left. exists (d0 :: dt). split; [reflexivity|]. split; [discriminate|].
        destruct (py_payload (d0 :: dt)) as [|p0 pt] eqn:Ep.
        * left. inversion H; subst. split; reflexivity.
        * right. inversion H; subst. split; [discriminate|reflexivity].
      + right. inversion H; subst. split; [left; reflexivity|reflexivity].
  Qed.

  Lemma eshort_step s s' : step s = Some s' -> eshort s = true -> eshort s' = true.
  Proof.
    intros H Hs. destruct (estep_cases _ _ H) as [_ [(_ & _ & c' & first & lenb & _ & ->)|(raw & first & n & _ & _ & Hb)]].
    - simpl. rewrite Hs. reflexivity.
    - cbv zeta in Hb. destruct Hb as (c' & r & _ & [(pd & _ & _ & [[_ ->]|[_ ->]])|[_ ->]]); exact Hs.
  Qed.

  Lemma eshort_Rs s t : eRs s t -> eshort s = true -> eshort t = true.
  Proof. induction 1 as [|s s' s'' [_ HR] _ IH]; intros; [assumption|]. apply IH. eapply eshort_step; eauto. Qed.

  Lemma eshort_Rs_false s t : eRs s t -> eshort t = false -> eshort s = false.
  Proof. intros H Ht. destruct (eshort s) eqn:E; [|reflexivity]. rewrite (eshort_Rs _ _ H E) in Ht. discriminate. Qed.

  Lemma eokp_step s s' : step s = Some s' -> eshort s' = false -> eokp s'.
  Proof.
    intros H Hs. unfold eokp.
    destruct (estep_cases _ _ H) as [_ [(_ & _ & c' & first & lenb & _ & ->)|(raw & first & n & _ & _ & Hb)]].
    - simpl in *. apply orb_false_iff in Hs as [_ Hs]. lia.
    - cbv zeta in Hb. destruct Hb as (c' & r & _ & [(pd & _ & _ & [[_ ->]|[_ ->]])|[_ ->]]); exact I.
  Qed.

  (* a step that is enabled stays enabled, with the same effect, when more data is appended -
     provided the announced length covers at least one block *)
  Lemma estep_app s s' c : eokp s -> step s = Some s' -> step (eapp s c) = Some (eapp s' c).
  Proof.
    intros Hok H. pose proof (zlen_nonneg c) as Hc.
    destruct (estep_cases _ _ H) as [Hst [(Hph & Hlen & c' & first & lenb & Edh & ->)|(raw & first & n & Hph & Hlen & Hb)]].
    - unfold estep, eapp. cbn [est eph ebuf ecst eseq egot eshort elog]. rewrite Hst, Hph.
      destruct (Z.ltb_spec (zlen (ebuf s ++ c)) bs) as [E|E]; [rewrite zlen_app in E; lia|].
      unfold zlen in Hlen. rewrite firstn_app_le, skipn_app_le by lia. rewrite Edh. reflexivity.
    - cbv zeta in Hb. destruct Hb as (c' & r & Edp & Hr).
      unfold eokp in Hok. rewrite Hph in Hok.
      unfold estep, eapp. cbn [est eph ebuf ecst eseq egot eshort elog]. rewrite Hst, Hph.
      destruct (Z.ltb_spec (zlen (ebuf s ++ c)) (4 + n + macsz - bs)) as [E|E]; [rewrite zlen_app in E; lia|].
      rewrite !py_slice_app by lia. rewrite Edp.
      rewrite py_from_app by lia.
      destruct Hr as [(pd & -> & Hne & [[Ep ->]|[Ep ->]])|[[->| ->] ->]].
      + destruct pd as [|d0 dt]; [congruence|]. rewrite Ep. reflexivity.
      + destruct pd as [|d0 dt]; [congruence|]. destruct (py_payload (d0 :: dt)) as [|p0 pt]; [congruence|]. reflexivity.
      + reflexivity.
      + reflexivity.
  Qed.

  Lemma eR_app s s' c : eokp s -> eR s s' -> eR (eapp s c) (eapp s' c).
  Proof.
    intros Hok [Hne H]. split; [|apply estep_app; assumption].
    simpl. destruct (ebuf s); [congruence|discriminate].
  Qed.

  Lemma eRs_app s s1 c : eRs s s1 -> eokp s -> eshort s = false ->
    (eshort s1 = false /\ eokp s1 /\ eRs (eapp s c) (eapp s1 c)) \/ (exists m, eRs (eapp s c) m /\ eshort m = true).
  Proof.
    induction 1 as [s|s s' s'' HR Hrest IH]; intros Hok Hsh.
    - left. repeat split; auto. constructor.
    - pose proof (eR_app s s' c Hok HR) as HR'.
      destruct (eshort s') eqn:Es.
      + right. exists (eapp s' c). split; [eapply eRs_step; [exact HR'|constructor]|exact Es].
      + destruct HR as [_ Hstep]. pose proof (eokp_step _ _ Hstep Es) as Hok'.
        destruct (IH Hok' eq_refl) as [(A & B & C)|(m & A & B)].
        * left. repeat split; auto. eapply eRs_step; eauto.
        * right. exists m. split; [eapply eRs_step; eauto|exact B].
  Qed.

  (* a run that never sees a short header lifts completely *)
  Lemma eRs_app_noshort s s1 c : eRs s s1 -> eokp s -> eshort s1 = false -> eRs (eapp s c) (eapp s1 c).
  Proof.
    induction 1 as [s|s s' s'' HR Hrest IH]; intros Hok Hsh; [constructor|].
    eapply eRs_step; [apply eR_app; eassumption|]. apply IH; [|exact Hsh].
    destruct HR as [_ Hstep]. eapply eokp_step; [exact Hstep|]. eapply eshort_Rs_false; eassumption.
  Qed.

  (* ---------- fuel --------------------------------------------------------------------------- *)
  Definition emu (s : state) : nat :=
    (2 * length (ebuf s) + match eph s with EBody _ _ _ => 1 | EHdr => 0 end)%nat.

  Lemma emu_step s s' : eokp s -> step s = Some s' -> (emu s' < emu s)%nat.
  Proof.
    intros Hok H. unfold emu.
    destruct (estep_cases _ _ H) as [Hst [(Hph & Hlen & c' & first & lenb & Edh & ->)|(raw & first & n & Hph & Hlen & Hb)]].
    - rewrite Hph. cbn [ebuf eph]. rewrite skipn_length. unfold zlen in Hlen. lia.
    - cbv zeta in Hb. destruct Hb as (c' & r & Edp & Hr).
      unfold eokp in Hok. rewrite Hph in *.
      assert (Hfrom : (length (py_from (ebuf s) (4 + n + macsz - bs)) <= length (ebuf s))%nat).
      { rewrite py_from_in by lia. rewrite skipn_length. lia. }
      destruct Hr as [(pd & -> & Hne & [[Ep ->]|[Ep ->]])|[_ ->]]; cbn [ebuf eph]; lia.
  Qed.

  Lemma eloop_Rs fuel : forall s, eRs s (loop fuel s).
  Proof.
    induction fuel as [|f IH]; intros s; simpl; [constructor|].
    destruct (ebuf s) eqn:E; [constructor|].
    destruct (step s) as [s'|] eqn:Es; [|constructor].
    eapply eRs_step; [split; [rewrite E; discriminate|exact Es]|apply IH].
  Qed.

  Lemma eloop_stuck fuel : forall s, eokp s -> eshort (loop fuel s) = false -> (emu s < fuel)%nat ->
    estuck (loop fuel s).
  Proof.
    induction fuel as [|f IH]; intros s Hok Hsh Hmu; [lia|]. simpl in *.
    destruct (ebuf s) eqn:E; [left; exact E|].
    destruct (step s) as [s'|] eqn:Es; [|right; exact Es].
    assert (Hs' : eshort s' = false) by (eapply eshort_Rs_false; [apply eloop_Rs|exact Hsh]).
    apply IH; [eapply eokp_step; eauto|exact Hsh|].
    pose proof (emu_step _ _ Hok Es). lia.
  Qed.

  Lemma efeed_nf s c : eokp s -> eshort (feed s c) = false -> eRs (eapp s c) (feed s c) /\ estuck (feed s c).
  Proof.
    intros Hok Hsh. unfold efeed in *.
    split; [apply eloop_Rs|]. apply eloop_stuck; [exact Hok|exact Hsh|].
    unfold emu, eapp. simpl. destruct (eph s); lia.
  Qed.

  Lemma efeed_Rs s c : eRs (eapp s c) (feed s c).
  Proof. unfold efeed. apply eloop_Rs. Qed.

  Lemma eokp_Rs s t : eRs s t -> eokp s -> eshort t = false -> eokp t.
  Proof.
    induction 1 as [|s s' s'' [_ HR] Hrest IH]; intros Hok Hsh; [assumption|].
    apply IH; [|exact Hsh]. eapply eokp_step; [exact HR|]. eapply eshort_Rs_false; eassumption.
  Qed.

  Lemma eapp_app (s : state) a b : eapp (eapp s a) b = eapp s (a ++ b).
  Proof. unfold eapp. simpl. rewrite app_assoc. reflexivity. Qed.

  (* T1, two chunks *)
  Theorem enc_feed_feed s a b :
    eokp s -> eshort s = false -> eshort (feed s (a ++ b)) = false ->
    feed (feed s a) b = feed s (a ++ b).
  Proof.
    intros Hok Hs0 Hsh.
    destruct (efeed_nf s (a ++ b) Hok Hsh) as [Hrun Hst].
    pose proof (efeed_Rs s a) as Hra.
    assert (Hoka : eokp (eapp s a)) by exact Hok.
    destruct (eRs_app _ _ b Hra Hoka Hs0) as [(Hs1 & Hok1 & Hlift)|(m & Hm & Hsm)].
    - rewrite eapp_app in Hlift.
      assert (Hsh2 : eshort (feed (feed s a) b) = false).
      { assert (Hreach : eRs (eapp s (a ++ b)) (feed (feed s a) b)).
        { eapply eRs_trans; [exact Hlift|]. apply efeed_Rs. }
        pose proof (eon_path _ _ _ Hreach Hrun Hst) as Hp.
        eapply eshort_Rs_false; eassumption. }
      destruct (efeed_nf (feed s a) b Hok1 Hsh2) as [Hrun2 Hst2].
      eapply enf_unique; [|exact Hst2|exact Hrun|exact Hst].
      eapply eRs_trans; [exact Hlift|exact Hrun2].
    - rewrite eapp_app in Hm.
      pose proof (eon_path _ _ _ Hm Hrun Hst) as Hp.
      rewrite (eshort_Rs _ _ Hp Hsm) in Hsh. discriminate.
  Qed.

  Lemma eshort_feed_prefix s a b : eokp s -> eshort s = false ->
    eshort (feed s (a ++ b)) = false -> eshort (feed s a) = false.
  Proof.
    intros Hok Hs0 Hsh.
    destruct (eshort (feed s a)) eqn:X; [|reflexivity].
    destruct (efeed_nf s (a ++ b) Hok Hsh) as [Hrun Hst].
    pose proof (efeed_Rs s a) as Hra.
    destruct (eRs_app _ _ b Hra Hok Hs0) as [(Hs1 & _)|(m & Hm & Hsm)]; [congruence|].
    rewrite eapp_app in Hm. pose proof (eon_path _ _ _ Hm Hrun Hst) as Hp.
    rewrite (eshort_Rs _ _ Hp Hsm) in Hsh. discriminate.
  Qed.

  Lemma eokp_feed s c : eokp s -> eshort (feed s c) = false -> eokp (feed s c).
  Proof.
    intros Hok Hsh. destruct (efeed_nf s c Hok Hsh) as [Hrun _].
    eapply eokp_Rs; [exact Hrun|exact Hok|exact Hsh].
  Qed.

  Lemma eapp_nil (s : state) : eapp s [] = s.
  Proof. unfold eapp. rewrite app_nil_r. destruct s; reflexivity. Qed.

  (* feeding the empty chunk to a normal form changes nothing *)
  Lemma efeed_nil_nf s : eokp s -> eshort s = false -> estuck s -> feed s [] = s.
  Proof.
    intros Hok Hs Hst.
    assert (Hsh : eshort (feed s []) = false).
    { pose proof (efeed_Rs s []) as Hr. rewrite eapp_nil in Hr.
      destruct Hr as [|x y z HR _]; [exact Hs|]. exfalso. exact (estuck_no_step _ _ Hst HR). }
    destruct (efeed_nf s [] Hok Hsh) as [Hrun2 Hst2]. rewrite eapp_nil in Hrun2.
    eapply enf_unique; [exact Hrun2|exact Hst2|constructor|exact Hst].
  Qed.

  (* T1, any chunking *)
  Theorem enc_feed_chunks chunks : forall s,
    eokp s -> eshort s = false -> eshort (feed s (concat chunks)) = false ->
    fold_left feed chunks s = feed s (concat chunks) \/ chunks = [].
  Proof.
    induction chunks as [|c cs IH]; intros s Hok Hs0 Hsh; [right; reflexivity|left].
    simpl in *.
    pose proof (eshort_feed_prefix s c (concat cs) Hok Hs0 Hsh) as Hc.
    pose proof (eokp_feed s c Hok Hc) as Hokc.
    rewrite <- (enc_feed_feed s c (concat cs) Hok Hs0 Hsh) in Hsh |- *.
    destruct (IH (feed s c) Hokc Hc Hsh) as [E|E]; [exact E|].
    subst cs. simpl. symmetry. apply efeed_nil_nf; [exact Hokc|exact Hc|].
    apply (efeed_nf s c Hok Hc).
  Qed.

  (* ---------- T2: every delivery went through a successful decrypt_packet ----------------------- *)
  Definition ventry_ok (e : vrec cst) : Prop :=
    (exists c', dp (vcst e) (vseq e) (vfirst e) (vrest e) (vmac e) = (c', Some (vdata e))) /\
    (exists c0 c1 lenb, dh c0 (vseq e) (vraw e) = (c1, vfirst e, lenb)).

  Definition elog_ok (sq0 : Z) (s : state) : Prop :=
    egot s = map (fun e => py_payload (vdata e)) (elog s) /\
    map vseq (elog s) = seqs_from sq0 (length (elog s)) /\
    Forall ventry_ok (elog s) /\
    eseq s = (sq0 + Z.of_nat (length (elog s))) mod M32 /\
    match eph s with
    | EBody raw first n => exists c0 c1 lenb, dh c0 (eseq s) raw = (c1, first, lenb)
    | EHdr => True
    end.

  Lemma seqs_from_S sq0 n : seqs_from sq0 (S n) = seqs_from sq0 n ++ [(sq0 + Z.of_nat n) mod M32].
  Proof. unfold seqs_from. rewrite seq_S, map_app. reflexivity. Qed.

  Lemma elog_ok_step sq0 s s' : step s = Some s' -> elog_ok sq0 s -> elog_ok sq0 s'.
  Proof.
    intros H (Hg & Hs & Hf & Hq & Hp).
    destruct (estep_cases _ _ H) as [Hst [(Hph & Hlen & c' & first & lenb & Edh & ->)|(raw & first & n & Hph & Hlen & Hb)]].
    - unfold elog_ok. cbn [egot elog eseq eph]. repeat split; try assumption.
      exists (ecst s), c', lenb. exact Edh.
    - cbv zeta in Hb. destruct Hb as (c' & r & Edp & Hr). rewrite Hph in Hp.
      destruct Hr as [(pd & -> & Hne & [[Ep ->]|[Ep ->]])|[_ ->]]; unfold elog_ok; cbn [egot elog eseq eph].
      + repeat split; assumption.
      + rewrite map_app, app_length, Nat.add_1_r, seqs_from_S, map_app. cbn [map vseq vdata length].
        repeat split.
        * rewrite Hg. reflexivity.
        * rewrite Hs, Hq. reflexivity.
        * apply Forall_app. split; [exact Hf|]. constructor; [|constructor].
          split; cbn [vcst vseq vfirst vrest vmac vdata vraw]; [exists c'; exact Edp|exact Hp].
        * rewrite Hq. rewrite Nat2Z.inj_succ. rewrite Zplus_mod_idemp_l. f_equal. lia.
      + repeat split; assumption.
  Qed.

  Lemma elog_ok_loop sq0 fuel : forall s, elog_ok sq0 s -> elog_ok sq0 (loop fuel s).
  Proof.
    induction fuel as [|f IH]; intros s Hs; simpl; [exact Hs|].
    destruct (ebuf s); [exact Hs|]. destruct (step s) as [s'|] eqn:E; [|exact Hs].
    apply IH. eapply elog_ok_step; eauto.
  Qed.

  Lemma elog_ok_feed sq0 s c : elog_ok sq0 s -> elog_ok sq0 (feed s c).
  Proof. intros H. unfold efeed. apply elog_ok_loop. exact H. Qed.

  Lemma elog_ok_fold sq0 chunks : forall s, elog_ok sq0 s -> elog_ok sq0 (fold_left feed chunks s).
  Proof. induction chunks as [|c cs IH]; intros s H; simpl; [exact H|]. apply IH, elog_ok_feed, H. Qed.

  Lemma elog_ok_init c0 sq0 : 0 <= sq0 < M32 -> elog_ok sq0 (einit c0 sq0).
  Proof.
    intros H. unfold elog_ok, einit. cbn [egot elog eseq eph map length]. repeat split; try constructor.
    rewrite Z.add_0_r, Z.mod_small by exact H. reflexivity.
  Qed.

  Theorem enc_delivered_inv c0 sq0 chunks : 0 <= sq0 < M32 ->
    elog_ok sq0 (fold_left feed chunks (einit c0 sq0)).
  Proof. intros H. apply elog_ok_fold, elog_ok_init, H. Qed.

  (* ---------- T2b: the verified packets are contiguous wire segments that tile the stream ---------- *)
  Definition ewire (e : vrec cst) : bytes := vraw e ++ vrest e ++ vmac e.
  Definition epending (s : state) : bytes := match eph s with EBody raw _ _ => raw | EHdr => [] end.

  (* the wire images of the deliveries so far, in order, are a prefix of the input; while the
     connection is alive what follows them is exactly the header block in hand plus the buffer *)
  Definition etiles_ok (inp : bytes) (s : state) : Prop :=
    exists tail, concat (map ewire (elog s)) ++ tail = inp /\ (est s = SOk -> tail = epending s ++ ebuf s).

  Lemma py_split3 (l : bytes) a b : 0 <= a <= b -> b <= zlen l ->
    l = py_slice l 0 a ++ py_slice l a b ++ py_from l b.
  Proof.
    intros Ha Hb. rewrite !py_slice_in, py_from_in by lia. change (Z.to_nat 0) with 0%nat. rewrite skipn_O, Z.sub_0_r.
    rewrite <- (firstn_skipn (Z.to_nat a) l) at 1. f_equal.
    rewrite <- (firstn_skipn (Z.to_nat (b - a)) (skipn (Z.to_nat a) l)) at 1. f_equal.
    rewrite skipn_skipn_add. f_equal. lia.
  Qed.

  Lemma etiles_step inp s s' : eokp s -> step s = Some s' -> etiles_ok inp s -> etiles_ok inp s'.
  Proof.
    intros Hok H (tail & Hin & Htail).
    destruct (estep_cases _ _ H) as [Hst [(Hph & Hlen & c' & first & lenb & Edh & ->)|(raw & first & n & Hph & Hlen & Hb)]].
    - exists tail. cbn [elog est eph ebuf epending]. split; [exact Hin|]. intros _.
      rewrite (Htail Hst). unfold epending. rewrite Hph. cbn [app]. symmetry. apply firstn_skipn.
    - cbv zeta in Hb. destruct Hb as (c' & r & Edp & Hr).
      unfold eokp in Hok. rewrite Hph in Hok.
      destruct Hr as [(pd & -> & Hne & [[Ep ->]|[Ep ->]])|[_ ->]].
      + exists tail. cbn [elog est]. split; [exact Hin|discriminate].
      + exists (py_from (ebuf s) (4 + n + macsz - bs)). cbn [elog est eph ebuf]. split; [|intros _; reflexivity].
        rewrite map_app, concat_app. cbn [map concat]. rewrite app_nil_r. unfold ewire at 2. cbn [vraw vrest vmac].
        rewrite <- Hin, (Htail Hst). unfold epending. rewrite Hph. rewrite <- !app_assoc. do 2 f_equal.
        symmetry. apply py_split3; lia.
      + exists tail. cbn [elog est]. split; [exact Hin|discriminate].
  Qed.

  Lemma etiles_Rs inp s t : eRs s t -> eshort t = false -> eokp s -> etiles_ok inp s -> etiles_ok inp t /\ eokp t.
  Proof.
    induction 1 as [s|s s' s'' [_ HR] Hrest IH]; intros Hsh Hok Ht; [split; assumption|].
    apply IH; [exact Hsh| |eapply etiles_step; eassumption].
    eapply eokp_step; [exact HR|]. eapply eshort_Rs_false; eassumption.
  Qed.

  Lemma etiles_app inp s c : etiles_ok inp s -> etiles_ok (inp ++ c) (eapp s c).
  Proof.
    intros (tail & Hin & Htail). exists (tail ++ c). cbn [elog est eapp]. split.
    - rewrite app_assoc, Hin. reflexivity.
    - intros Hst. rewrite (Htail Hst). unfold epending, eapp. cbn [eph ebuf]. rewrite app_assoc. reflexivity.
  Qed.

  Lemma etiles_feed inp s c : eshort (feed s c) = false -> eokp s -> etiles_ok inp s ->
    etiles_ok (inp ++ c) (feed s c) /\ eokp (feed s c).
  Proof.
    intros Hsh Hok Ht. apply (etiles_Rs _ (eapp s c)); [apply efeed_Rs|exact Hsh|exact Hok|apply etiles_app, Ht].
  Qed.

  Lemma eshort_feed_mono s c : eshort s = true -> eshort (feed s c) = true.
  Proof. intros H. apply (eshort_Rs (eapp s c)); [apply efeed_Rs|exact H]. Qed.

  Lemma eshort_fold_mono chunks : forall s, eshort s = true -> eshort (fold_left feed chunks s) = true.
  Proof. induction chunks as [|c cs IH]; intros s H; simpl; [exact H|]. apply IH, eshort_feed_mono, H. Qed.

  Lemma etiles_fold chunks : forall inp s, eshort (fold_left feed chunks s) = false -> eokp s -> etiles_ok inp s ->
    etiles_ok (inp ++ concat chunks) (fold_left feed chunks s).
  Proof.
    induction chunks as [|c cs IH]; intros inp s Hsh Hok Ht; simpl in *.
    - rewrite app_nil_r. exact Ht.
    - assert (Hc : eshort (feed s c) = false).
      { destruct (eshort (feed s c)) eqn:E; [|reflexivity]. rewrite (eshort_fold_mono cs _ E) in Hsh. discriminate. }
      destruct (etiles_feed inp s c Hc Hok Ht) as [Ht' Hok'].
      rewrite app_assoc. apply IH; assumption.
  Qed.

  Theorem enc_delivered_tiles c0 sq0 chunks :
    eshort (fold_left feed chunks (einit c0 sq0)) = false ->
    etiles_ok (concat chunks) (fold_left feed chunks (einit c0 sq0)).
  Proof.
    intros Hsh. apply (etiles_fold chunks [] (einit c0 sq0) Hsh I).
    exists []. split; [reflexivity|]. intros _. reflexivity.
  Qed.

  (* ---------- T3, generic part: runs over well-formed wire packets ----------------------------- *)
  Lemma py_payload_nil_ne pd : py_payload pd <> [] -> pd <> [].
  Proof. intros H E. subst pd. apply H. reflexivity. Qed.

  (* one wire packet [out ++ mac] alone in the buffer: header step, then body step *)
  Lemma eframe_run s out mac c1 first lenb c2 pd L :
    eph s = EHdr -> est s = SOk -> ebuf s = out ++ mac ->
    zlen out = 4 + L -> bs <= 4 + L -> zlen mac = macsz -> 0 < 4 + L - bs + macsz ->
    dh (ecst s) (eseq s) (firstn (Z.to_nat bs) out) = (c1, first, lenb) -> be_int lenb = L ->
    dp c1 (eseq s) first (skipn (Z.to_nat bs) out) mac = (c2, Some pd) -> py_payload pd <> [] ->
    eRs s (mkES [] EHdr ((eseq s + 1) mod M32) c2 (egot s ++ [py_payload pd]) SOk (eshort s)
                (elog s ++ [mkV (eseq s) c1 (firstn (Z.to_nat bs) out) first (skipn (Z.to_nat bs) out) mac pd])).
  Proof.
    intros Hph Hst Hbuf Hout HL Hm Hlate Edh Hlen Edp Hpay.
    set (raw := firstn (Z.to_nat bs) out) in *. set (rest := skipn (Z.to_nat bs) out) in *.
    assert (Hrr : out = raw ++ rest) by (symmetry; apply firstn_skipn).
    assert (Hrawlen : zlen raw = bs) by (unfold raw, zlen in *; rewrite firstn_length; lia).
    assert (Hrestlen : zlen rest = 4 + L - bs) by (unfold rest, zlen in *; rewrite skipn_length; lia).
    set (s1 := mkES (rest ++ mac) (EBody raw first L) (eseq s) c1 (egot s) SOk (eshort s) (elog s)).
    assert (H1 : step s = Some s1).
    { unfold estep. rewrite Hst, Hph, Hbuf.
      destruct (Z.ltb_spec (zlen (out ++ mac)) bs) as [E|E]; [rewrite zlen_app in E; pose proof (zlen_nonneg mac); lia|].
      unfold zlen in Hout. rewrite firstn_app_le, skipn_app_le by lia. fold raw. fold rest.
      rewrite Edh, Hlen. unfold s1. f_equal. f_equal.
      destruct (Z.ltb_spec (4 + L) bs); [lia|]. apply orb_false_r. }
    assert (Hb1 : zlen (rest ++ mac) = 4 + L + macsz - bs) by (rewrite zlen_app; lia).
    assert (H2 : step s1 = Some (mkES [] EHdr ((eseq s + 1) mod M32) c2 (egot s ++ [py_payload pd]) SOk (eshort s)
                                  (elog s ++ [mkV (eseq s) c1 raw first rest mac pd]))).
    { unfold estep, s1. cbn [est eph ebuf ecst eseq egot eshort elog].
      destruct (Z.ltb_spec (zlen (rest ++ mac)) (4 + L + macsz - bs)) as [E|E]; [lia|].
      assert (Er : py_slice (rest ++ mac) 0 (4 + L + macsz - bs - macsz) = rest).
      { rewrite py_slice_in by lia. change (Z.to_nat 0) with 0%nat. rewrite skipn_O, Z.sub_0_r.
        replace (Z.to_nat (4 + L + macsz - bs - macsz)) with (length rest) by (unfold zlen in *; lia).
        rewrite firstn_app, Nat.sub_diag, firstn_all. simpl. apply app_nil_r. }
      assert (Em : py_slice (rest ++ mac) (4 + L + macsz - bs - macsz) (4 + L + macsz - bs) = mac).
      { rewrite py_slice_in by lia.
        replace (Z.to_nat (4 + L + macsz - bs - macsz)) with (length rest) by (unfold zlen in *; lia).
        rewrite skipn_app, Nat.sub_diag, skipn_all. simpl.
        replace (Z.to_nat (4 + L + macsz - bs - (4 + L + macsz - bs - macsz))) with (length mac) by (unfold zlen in *; lia).
        apply firstn_all. }
      assert (Ef : py_from (rest ++ mac) (4 + L + macsz - bs) = []).
      { rewrite py_from_in by lia.
        replace (Z.to_nat (4 + L + macsz - bs)) with (length (rest ++ mac)) by (unfold zlen in *; lia).
        apply skipn_all. }
      rewrite Er, Em, Edp, Ef.
      pose proof (py_payload_nil_ne _ Hpay) as Hpd.
      destruct pd as [|d0 dt]; [congruence|].
      destruct (py_payload (d0 :: dt)) as [|p0 pt]; [congruence|]. reflexivity. }
    eapply eRs_step; [split; [|exact H1]|].
    { rewrite Hbuf. intros E. pose proof (f_equal zlen E) as E'. rewrite zlen_app in E'.
      unfold zlen at 3 in E'. simpl in E'. pose proof (zlen_nonneg mac). lia. }
    eapply eRs_step; [split; [|exact H2]|constructor].
    unfold s1. cbn [ebuf]. intros E. pose proof (f_equal zlen E) as E'. rewrite Hb1 in E'.
    unfold zlen in E'. simpl in E'. lia.
  Qed.

  (* wire packet w, alone in the buffer of a receiver with cipher state c and sequence number sq, is
     delivered as payload p and leaves the receiver with cipher state c' *)
  Definition edelivers (c : cst) (sq : Z) (w p : bytes) (c' : cst) : Prop :=
    forall s, eph s = EHdr -> est s = SOk -> ebuf s = w -> ecst s = c -> eseq s = sq ->
      exists s', eRs s s' /\ ebuf s' = [] /\ eph s' = EHdr /\ est s' = SOk /\ ecst s' = c' /\
                 eseq s' = (sq + 1) mod M32 /\ egot s' = egot s ++ [p] /\ eshort s' = eshort s.

  Inductive edeliver_all : cst -> Z -> list bytes -> list bytes -> cst -> Z -> Prop :=
  | eda_nil c sq : edeliver_all c sq [] [] c sq
  | eda_cons c sq w p c1 ws ps c2 sq2 :
      edelivers c sq w p c1 -> edeliver_all c1 ((sq + 1) mod M32) ws ps c2 sq2 ->
      edeliver_all c sq (w :: ws) (p :: ps) c2 sq2.

  Lemma estream_run c sq ws ps c2 sq2 : edeliver_all c sq ws ps c2 sq2 ->
    forall s, eph s = EHdr -> est s = SOk -> ebuf s = concat ws -> ecst s = c -> eseq s = sq -> eshort s = false ->
      exists s', eRs s s' /\ ebuf s' = [] /\ eph s' = EHdr /\ est s' = SOk /\ ecst s' = c2 /\
                 eseq s' = sq2 /\ egot s' = egot s ++ ps /\ eshort s' = false.
  Proof.
    induction 1 as [c sq|c sq w p c1 ws ps c2 sq2 Hd Hall IH]; intros s Hph Hst Hbuf Hc Hq Hsh.
    - exists s. rewrite app_nil_r. repeat split; try assumption. constructor.
    - simpl in Hbuf.
      set (s0 := mkES w (eph s) (eseq s) (ecst s) (egot s) (est s) (eshort s) (elog s)).
      assert (Es : s = eapp s0 (concat ws)).
      { unfold eapp, s0. cbn [ebuf eph eseq ecst egot est eshort elog]. rewrite <- Hbuf. destruct s; reflexivity. }
      destruct (Hd s0 Hph Hst eq_refl Hc Hq) as (s0' & Hrun & Hb' & Hph' & Hst' & Hc' & Hq' & Hg' & Hsh').
      cbn [eshort egot s0] in Hsh', Hg'. rewrite Hsh in Hsh'.
      assert (Hok0 : eokp s0) by (unfold eokp, s0; cbn [eph]; rewrite Hph; exact I).
      pose proof (eRs_app_noshort _ _ (concat ws) Hrun Hok0 Hsh') as Hlift. rewrite <- Es in Hlift.
      destruct (IH (eapp s0' (concat ws))) as (s' & Hrun2 & R2); try assumption.
      { unfold eapp. cbn [ebuf]. rewrite Hb'. reflexivity. }
      exists s'. split; [eapply eRs_trans; eassumption|].
      destruct R2 as (A & B & C & D & E & F & G). repeat split; try assumption.
      rewrite F. unfold eapp. cbn [egot]. rewrite Hg', <- app_assoc. reflexivity.
  Qed.

  Lemma efeed_reaches s c t : eokp s -> eRs (eapp s c) t -> estuck t -> eshort t = false -> feed s c = t.
  Proof.
    intros Hok Hrun Hst Hsh.
    pose proof (efeed_Rs s c) as Hf.
    pose proof (eon_path _ _ _ Hf Hrun Hst) as Hp.
    pose proof (eshort_Rs_false _ _ Hp Hsh) as Hshf.
    destruct (efeed_nf s c Hok Hshf) as [_ Hstf].
    eapply enf_unique; eassumption.
  Qed.

  (* the wire packets of a synchronised sender, fed in ANY chunking, deliver exactly the payloads *)
  Theorem estream_received c sq ws ps c2 sq2 chunks :
    edeliver_all c sq ws ps c2 sq2 -> concat chunks = concat ws ->
    let s := fold_left feed chunks (einit c sq) in
    egot s = ps /\ est s = SOk /\ eseq s = sq2 /\ ecst s = c2 /\ ebuf s = [] /\ eph s = EHdr /\ eshort s = false.
  Proof.
    intros Hall Hcc.
    destruct (estream_run _ _ _ _ _ _ Hall (eapp (einit c sq) (concat ws))) as (s' & Hrun & Hb & Hph & Hst & Hc & Hq & Hg & Hsh);
      try reflexivity.
    assert (Hok : eokp (einit c sq)) by exact I.
    assert (Hfeed : feed (einit c sq) (concat ws) = s').
    { apply efeed_reaches; [exact Hok|exact Hrun|left; exact Hb|exact Hsh]. }
    assert (Hfold : fold_left feed chunks (einit c sq) = s').
    { destruct (enc_feed_chunks chunks (einit c sq) Hok eq_refl) as [E|E].
      - rewrite Hcc, Hfeed. exact Hsh.
      - rewrite E, Hcc. exact Hfeed.
      - subst chunks. simpl in *. rewrite <- Hfeed, <- Hcc. symmetry.
        apply efeed_nil_nf; [exact Hok|reflexivity|left; reflexivity]. }
    cbv zeta. rewrite Hfold. cbn [egot eapp einit app] in Hg. repeat split; assumption.
  Qed.
End RecvProofs.

(* ---------- the four shim classes ------------------------------------------------------------- *)
Lemma be_int_u32 n : 0 <= n < M32 -> be_int (u32 n) = n.
Proof. unfold M32. intros H. unfold be_int, u32. simpl. lia. Qed.

Lemma zlen_cons (x : Z) l : zlen (x :: l) = 1 + zlen l.
Proof. unfold zlen. simpl length. lia. Qed.

Lemma zlen_u32 n : zlen (u32 n) = 4.
Proof. reflexivity. Qed.

Lemma firstn_firstn_app_le (n : nat) (a b : bytes) : (n <= length a)%nat -> firstn n a = firstn n (a ++ b).
Proof. intros H. symmetry. apply firstn_app_le. exact H. Qed.

Lemma mod0_sub bs x : 0 < bs -> x mod bs = 0 -> (x - bs) mod bs = 0.
Proof. intros Hb Hm. replace (x - bs) with (x + (-1) * bs) by ring. rewrite Z.mod_add by lia. exact Hm. Qed.

Lemma mod0_ge bs x : 0 < bs -> 0 < x -> x mod bs = 0 -> bs <= x.
Proof. intros Hb Hx Hm. apply Z.mod_divide in Hm; [|lia]. destruct Hm as [q ->].
  assert (0 < q) by (apply (Z.mul_pos_cancel_r q bs Hb); exact Hx).
  replace (q * bs) with (bs + (q - 1) * bs) by ring. assert (0 <= (q - 1) * bs) by (apply Z.mul_nonneg_nonneg; lia). lia. Qed.

Section ShimProofs.
  Variable cst : Type.
  Variables cenc cdec : cst -> bytes -> cst * bytes.
  Variable tag : Z -> bytes -> bytes.
  Variable gcm_enc : cst -> bytes -> bytes -> cst * (bytes * bytes).
  Variable gcm_dec : cst -> bytes -> bytes -> bytes -> cst * option bytes.
  Variable cc_enc : Z -> bytes -> bytes -> bytes * bytes.
  Variable cc_hdr : Z -> bytes -> bytes.
  Variable cc_dec : Z -> bytes -> bytes -> bytes -> option bytes.

  Notation DH := (dec_header cst cdec cc_hdr).
  Notation DP := (dec_packet cst cdec tag gcm_dec cc_dec).
  Notation FEED := (mfeed cst cdec tag gcm_dec cc_hdr cc_dec).
  Notation ACC := (accepted cst cdec tag gcm_dec cc_dec).
  Notation HOF := (header_of cst cdec cc_hdr).
  Notation SENDF := (send_frame cst cenc tag gcm_enc cc_enc).
  Notation SENDS := (send_stream cst cenc tag gcm_enc cc_enc).

  Lemma accepted_of_dp m e c' :
    DP m (vcst e) (vseq e) (vfirst e) (vrest e) (vmac e) = (c', Some (vdata e)) -> ACC m e.
  Proof.
    destruct m; unfold dec_packet, accepted, covered.
    - destruct (cdec (vcst e) (vrest e)) as [c1 r]. cbn [snd].
      destruct (zlist_eqb _ _) eqn:E; intros H; [|inversion H]. apply zlist_eqb_spec in E. congruence.
    - destruct (zlist_eqb _ _) eqn:E; intros H; [|inversion H]. apply zlist_eqb_spec in E. congruence.
    - intros H. exists c'. exact H.
    - intros H. inversion H. reflexivity.
  Qed.

  (* T2 *)
  Theorem enc_delivered_verified m bs macsz c0 sq0 chunks : 0 <= sq0 < M32 ->
    let s := fold_left (FEED m bs macsz) chunks (einit c0 sq0) in
    egot s = map (fun e => py_payload (vdata e)) (elog s) /\
    map vseq (elog s) = seqs_from sq0 (length (elog s)) /\
    Forall (fun e => ACC m e /\ HOF m e) (elog s) /\
    eseq s = (sq0 + Z.of_nat (length (egot s))) mod M32.
  Proof.
    intros H s.
    destruct (enc_delivered_inv cst (DH m) (DP m) bs macsz c0 sq0 chunks H) as (A & B & C & D & _).
    fold (FEED m bs macsz) in *. fold s in A, B, C, D.
    split; [exact A|]. split; [exact B|]. split.
    - eapply Forall_impl; [|exact C]. intros e [[c' E1] E2]. split; [eapply accepted_of_dp; exact E1|exact E2].
    - rewrite A, map_length. exact D.
  Qed.

  (* ---------- T3 --------------------------------------------------------------------------- *)
  Variables bs macsz : Z.
  Hypothesis Hbs : 4 <= bs.
  Hypothesis Hmac : 0 <= macsz.

  (* what send_packet produces: non-empty payload (it starts with the type byte), at least 4 bytes
     of padding, _send_enchdrlen + payload + padding a multiple of the block size (C02_padding),
     packet_length below 2^32 *)
  Definition wf_pkt (m : emode) (p : bytes * bytes) : Prop :=
    fst p <> [] /\ 4 <= zlen (snd p) /\ (hdrlen m + zlen (fst p) + zlen (snd p)) mod bs = 0 /\
    1 + zlen (fst p) + zlen (snd p) < M32.

  Lemma send_stream_seq m pkts : forall c sq, 0 <= sq < M32 ->
    snd (fst (SENDS m c sq pkts)) = (sq + Z.of_nat (length pkts)) mod M32.
  Proof.
    induction pkts as [|[payload padding] r IH]; intros c sq Hs; cbn [send_stream].
    - cbn [fst snd length]. change (Z.of_nat 0) with 0. rewrite Z.add_0_r, Z.mod_small by exact Hs. reflexivity.
    - destruct (SENDF m c sq payload padding) as [c' w].
      specialize (IH c' ((sq + 1) mod M32) ltac:(apply Z.mod_pos_bound; reflexivity)).
      destruct (SENDS m c' ((sq + 1) mod M32) r) as [[c'' sq''] ws]. cbn [fst snd] in *.
      rewrite IH, Zplus_mod_idemp_l. f_equal. simpl length. lia.
  Qed.

  (* generic glue: if every frame of mode m is delivered, the whole stream is *)
  Lemma send_stream_deliver_all m (P : bytes * bytes -> Prop) :
    (forall c sq payload padding, P (payload, padding) ->
       edelivers cst (DH m) (DP m) bs macsz c sq (snd (SENDF m c sq payload padding)) payload
                 (fst (SENDF m c sq payload padding))) ->
    forall pkts c sq, Forall P pkts ->
      edeliver_all cst (DH m) (DP m) bs macsz c sq (snd (SENDS m c sq pkts)) (map fst pkts)
                   (fst (fst (SENDS m c sq pkts))) (snd (fst (SENDS m c sq pkts))).
  Proof.
    intros Hd. induction pkts as [|[payload padding] r IH]; intros c sq Hall; cbn [send_stream map].
    - constructor.
    - inversion Hall as [|x y Hp Hr]; subst.
      specialize (Hd c sq payload padding Hp).
      destruct (SENDF m c sq payload padding) as [c' w]. cbn [fst snd] in Hd.
      specialize (IH c' ((sq + 1) mod M32) Hr).
      destruct (SENDS m c' ((sq + 1) mod M32) r) as [[c'' sq''] ws]. cbn [fst snd] in *.
      econstructor; eassumption.
  Qed.

  Lemma stream_received_of_delivers m (P : bytes * bytes -> Prop) :
    (forall c sq payload padding, P (payload, padding) ->
       edelivers cst (DH m) (DP m) bs macsz c sq (snd (SENDF m c sq payload padding)) payload
                 (fst (SENDF m c sq payload padding))) ->
    forall pkts c sq chunks, 0 <= sq < M32 -> Forall P pkts ->
      concat chunks = concat (snd (SENDS m c sq pkts)) ->
      let s := fold_left (FEED m bs macsz) chunks (einit c sq) in
      egot s = map fst pkts /\ est s = SOk /\ eseq s = (sq + Z.of_nat (length pkts)) mod M32 /\
      ecst s = fst (fst (SENDS m c sq pkts)) /\ ebuf s = [] /\ eph s = EHdr /\ eshort s = false.
  Proof.
    intros Hd pkts c sq chunks Hsq Hall Hcc.
    pose proof (send_stream_deliver_all m P Hd pkts c sq Hall) as Hda.
    pose proof (estream_received cst (DH m) (DP m) bs macsz ltac:(lia) Hmac _ _ _ _ _ _ chunks Hda Hcc) as H.
    cbv zeta in *. rewrite <- (send_stream_seq m pkts c sq Hsq). exact H.
  Qed.

  (* packets facts shared by the four modes *)
  Lemma wf_facts m payload padding : wf_pkt m (payload, padding) ->
    let packet := zlen padding :: payload ++ padding in
    zlen packet = 1 + zlen payload + zlen padding /\ 1 <= zlen payload /\
    0 <= zlen packet < M32 /\ py_payload packet = payload.
  Proof.
    intros (Hp & Hpad & Hal & Hlt). cbn [fst snd] in *. cbv zeta.
    assert (Hpl : 1 <= zlen payload) by (unfold zlen; destruct payload; [congruence|simpl; lia]).
    rewrite zlen_cons, zlen_app. repeat split; try lia.
    apply py_payload_frame; [exact Hp|lia].
  Qed.

  (* facts shared by the three modes whose length field is not part of the encrypted blocks *)
  Lemma split_out (out : bytes) L : zlen out = 4 + L -> bs <= L ->
    let raw := firstn (Z.to_nat bs) out in
    let rest := skipn (Z.to_nat bs) out in
    raw ++ rest = out /\ firstn 4 raw = firstn 4 out /\ skipn 4 raw ++ rest = skipn 4 out.
  Proof.
    intros Hl HL raw rest.
    assert (Hrr : raw ++ rest = out) by apply firstn_skipn.
    assert (Hrawl : length raw = Z.to_nat bs) by (unfold raw, zlen in *; rewrite firstn_length; lia).
    split; [exact Hrr|]. clearbody raw rest. subst out. split.
    - apply firstn_firstn_app_le. lia.
    - symmetry. apply skipn_app_le. lia.
  Qed.

  Ltac finish_delivers Hrun Hpay :=
    eexists; split; [exact Hrun|]; cbn [ebuf eph est ecst eseq egot eshort]; rewrite Hpay;
    repeat split; try reflexivity; try congruence.

  (* T3 per shim class.  The stream written by a sender in state (c, sq) for ANY list of well-formed
     (payload, padding) pairs, cut into ANY chunks, makes a receiver that starts in the same state
     deliver exactly the payloads, in order, without failure; sequence number advanced by the number of
     packets modulo 2^32, cipher state equal to the sender's. *)
  Definition stream_ok (m : emode) (pkts : list (bytes * bytes)) (c : cst) (sq : Z) (chunks : list bytes) : Prop :=
    let s := fold_left (FEED m bs macsz) chunks (einit c sq) in
    egot s = map fst pkts /\ est s = SOk /\ eseq s = (sq + Z.of_nat (length pkts)) mod M32 /\
    ecst s = fst (fst (SENDS m c sq pkts)) /\ ebuf s = [] /\ eph s = EHdr /\ eshort s = false.

  Section BasicLaws.
  (* laws: length preservation; decryption inverts encryption from the same state and ends in the
     same state (block-aligned data); decrypting a block-aligned prefix and then the block-aligned rest
     equals decrypting at once; tag length *)
  Hypothesis cenc_len : forall c x, zlen (snd (cenc c x)) = zlen x.
  Hypothesis cdec_len : forall c x, zlen (snd (cdec c x)) = zlen x.
  Hypothesis cdec_cenc : forall c x, zlen x mod bs = 0 -> cdec c (snd (cenc c x)) = (fst (cenc c x), x).
  Hypothesis cdec_split : forall c a b, zlen a mod bs = 0 -> zlen b mod bs = 0 ->
    cdec c (a ++ b) = (fst (cdec (fst (cdec c a)) b), snd (cdec c a) ++ snd (cdec (fst (cdec c a)) b)).
  Hypothesis tag_len : forall sq x, zlen (tag sq x) = macsz.

  Lemma basic_delivers c sq payload padding :
    wf_pkt Basic (payload, padding) -> (0 < macsz \/ bs < 5 + zlen payload + zlen padding) ->
    edelivers cst (DH Basic) (DP Basic) bs macsz c sq (snd (SENDF Basic c sq payload padding)) payload
              (fst (SENDF Basic c sq payload padding)).
  Proof.
    intros Hwf Hlate s Hph Hst Hbuf Hc Hq.
    destruct (wf_facts Basic _ _ Hwf) as (HL & Hpl & HLr & Hpay).
    destruct Hwf as (_ & Hpad & Hal & _). cbn [fst snd hdrlen] in Hal, Hpad.
    unfold send_frame, enc_packet in *.
    set (packet := zlen padding :: payload ++ padding) in *. set (L := zlen packet) in *.
    set (pkt := u32 L ++ packet) in *.
    pose proof (cenc_len c pkt) as Hctl. pose proof (cdec_cenc c pkt) as Hinv.
    destruct (cenc c pkt) as [c' ct] eqn:Ec. cbn [fst snd] in *.
    assert (Hpktl : zlen pkt = 4 + L) by (unfold pkt; rewrite zlen_app, zlen_u32; reflexivity).
    assert (Hmod : (4 + L) mod bs = 0) by (rewrite <- Hal; f_equal; lia).
    rewrite Hpktl in *. specialize (Hinv Hmod).
    assert (HbsL : bs <= 4 + L) by (apply mod0_ge; lia).
    set (raw := firstn (Z.to_nat bs) ct). set (rest := skipn (Z.to_nat bs) ct).
    assert (Hrr : raw ++ rest = ct) by apply firstn_skipn.
    assert (Hrawl : zlen raw = bs) by (unfold raw, zlen in *; rewrite firstn_length; lia).
    assert (Hrestl : zlen rest = 4 + L - bs) by (unfold rest, zlen in *; rewrite skipn_length; lia).
    pose proof (cdec_split c raw rest) as Hsp. rewrite Hrawl, Hrestl, Hrr, Hinv in Hsp.
    assert (Hbpos : 0 < bs) by (clear - Hbs; lia).
    specialize (Hsp (Z_mod_same_full bs) (mod0_sub _ _ Hbpos Hmod)).
    pose proof (cdec_len c raw) as Hfbl. rewrite Hrawl in Hfbl.
    destruct (cdec c raw) as [c1 fb] eqn:E1. cbn [fst snd] in *.
    destruct (cdec c1 rest) as [c2 r] eqn:E2. cbn [fst snd] in *.
    inversion Hsp as [[Hc2 Hpk]].
    assert (Hrun := eframe_run cst (DH Basic) (DP Basic) bs macsz ltac:(lia) Hmac s ct (tag sq pkt) c1 fb (firstn 4 fb) c' packet L
                      Hph Hst Hbuf Hctl HbsL (tag_len _ _) ltac:(lia)).
    fold raw rest in Hrun.
    assert (Hfb4 : firstn 4 fb = u32 L).
    { rewrite (firstn_firstn_app_le 4 fb r) by (unfold zlen in Hfbl; lia). rewrite <- Hpk. reflexivity. }
    specialize (Hrun ltac:(unfold dec_header; rewrite Hc, E1; reflexivity)
                     ltac:(rewrite Hfb4; apply be_int_u32; exact HLr)
                     ltac:(unfold dec_packet; rewrite Hq, E2, <- Hpk, zlist_eqb_refl, Hc2; reflexivity)
                     ltac:(rewrite Hpay; destruct payload; [cbn in Hpl; unfold zlen in Hpl; simpl in Hpl; lia|discriminate])).
    finish_delivers Hrun Hpay.
  Qed.

  Theorem enc_stream_received_basic pkts c sq chunks :
    0 <= sq < M32 ->
    Forall (fun p => wf_pkt Basic p /\ (0 < macsz \/ bs < 5 + zlen (fst p) + zlen (snd p))) pkts ->
    concat chunks = concat (snd (SENDS Basic c sq pkts)) -> stream_ok Basic pkts c sq chunks.
  Proof.
    intros Hsq Hall Hcc.
    apply (stream_received_of_delivers Basic
             (fun p => wf_pkt Basic p /\ (0 < macsz \/ bs < 5 + zlen (fst p) + zlen (snd p)))); try assumption.
    intros c0 sq0 payload padding [Hwf Hlate]. apply basic_delivers; assumption.
  Qed.

  End BasicLaws.

  Section ETMLaws.
  Hypothesis cenc_len : forall c x, zlen (snd (cenc c x)) = zlen x.
  Hypothesis cdec_cenc : forall c x, zlen x mod bs = 0 -> cdec c (snd (cenc c x)) = (fst (cenc c x), x).
  Hypothesis tag_len : forall sq x, zlen (tag sq x) = macsz.

  Lemma etm_delivers c sq payload padding :
    wf_pkt ETM (payload, padding) ->
    edelivers cst (DH ETM) (DP ETM) bs macsz c sq (snd (SENDF ETM c sq payload padding)) payload
              (fst (SENDF ETM c sq payload padding)).
  Proof.
    intros Hwf s Hph Hst Hbuf Hc Hq.
    destruct (wf_facts ETM _ _ Hwf) as (HL & Hpl & HLr & Hpay).
    destruct Hwf as (_ & Hpad & Hal & _). cbn [fst snd hdrlen] in Hal, Hpad.
    unfold send_frame, enc_packet in *.
    set (packet := zlen padding :: payload ++ padding) in *. set (L := zlen packet) in *.
    pose proof (cenc_len c packet) as Hctl. pose proof (cdec_cenc c packet) as Hinv.
    destruct (cenc c packet) as [c' ct] eqn:Ec. cbn [fst snd] in *. fold L in Hctl, Hinv.
    assert (Hmod : L mod bs = 0) by (rewrite <- Hal; f_equal; lia).
    specialize (Hinv Hmod).
    assert (Hbpos : 0 < bs) by (clear - Hbs; lia).
    assert (HbsL : bs <= L) by (apply mod0_ge; [exact Hbpos|clear - HL Hpl Hpad; lia|exact Hmod]).
    set (out := u32 L ++ ct) in *.
    assert (Houtl : zlen out = 4 + L) by (unfold out; rewrite zlen_app, zlen_u32, Hctl; reflexivity).
    destruct (split_out out L Houtl HbsL) as (Hrr & Hf4 & Hs4).
    assert (Hrun := eframe_run cst (DH ETM) (DP ETM) bs macsz ltac:(clear - Hbs; lia) Hmac s out (tag sq out) c
                      (firstn (Z.to_nat bs) out) (firstn 4 (firstn (Z.to_nat bs) out)) c' packet L
                      Hph Hst Hbuf Houtl ltac:(clear - HbsL; lia) (tag_len _ _) ltac:(clear - HbsL Hmac; lia)).
    specialize (Hrun ltac:(unfold dec_header; rewrite Hc; reflexivity)
                     ltac:(rewrite Hf4; apply be_int_u32; exact HLr)).
    assert (Hdp : DP ETM c (eseq s) (firstn (Z.to_nat bs) out) (skipn (Z.to_nat bs) out) (tag sq out) = (c', Some packet)).
    { unfold dec_packet. rewrite Hrr, Hq, zlist_eqb_refl.
      change (skipn 4 out) with ct. rewrite Hinv. reflexivity. }
    specialize (Hrun Hdp ltac:(rewrite Hpay; destruct payload; [unfold zlen in Hpl; simpl in Hpl; lia|discriminate])).
    finish_delivers Hrun Hpay.
  Qed.

  Theorem enc_stream_received_etm pkts c sq chunks :
    0 <= sq < M32 -> Forall (wf_pkt ETM) pkts ->
    concat chunks = concat (snd (SENDS ETM c sq pkts)) -> stream_ok ETM pkts c sq chunks.
  Proof.
    intros Hsq Hall Hcc. apply (stream_received_of_delivers ETM (wf_pkt ETM)); try assumption.
    intros c0 sq0 payload padding Hwf. apply etm_delivers; assumption.
  Qed.

  End ETMLaws.

  Section GCMLaws.
  (* header in clear in front of the cipher text, tag of macsz bytes, verify_and_decrypt of
     encrypt_and_sign from the same state succeeds and ends in the same state *)
  Hypothesis gcm_law : forall c h d, zlen h = 4 ->
    let r := gcm_enc c h d in
    zlen (fst (snd r)) = 4 + zlen d /\ firstn 4 (fst (snd r)) = h /\ zlen (snd (snd r)) = macsz /\
    gcm_dec c h (skipn 4 (fst (snd r))) (snd (snd r)) = (fst r, Some d).

  Lemma gcm_delivers c sq payload padding :
    wf_pkt GCM (payload, padding) ->
    edelivers cst (DH GCM) (DP GCM) bs macsz c sq (snd (SENDF GCM c sq payload padding)) payload
              (fst (SENDF GCM c sq payload padding)).
  Proof.
    intros Hwf s Hph Hst Hbuf Hc Hq.
    destruct (wf_facts GCM _ _ Hwf) as (HL & Hpl & HLr & Hpay).
    destruct Hwf as (_ & Hpad & Hal & _). cbn [fst snd hdrlen] in Hal, Hpad.
    unfold send_frame, enc_packet in *.
    set (packet := zlen padding :: payload ++ padding) in *. set (L := zlen packet) in *.
    pose proof (gcm_law c (u32 L) packet (zlen_u32 L)) as Hlaw. cbv zeta in Hlaw.
    destruct (gcm_enc c (u32 L) packet) as [c' [out t]] eqn:Ec. cbn [fst snd] in *. fold L in Hlaw.
    destruct Hlaw as (Houtl & Hh & Htl & Hdec).
    assert (Hmod : L mod bs = 0) by (rewrite <- Hal; f_equal; lia).
    assert (Hbpos : 0 < bs) by (clear - Hbs; lia).
    assert (HbsL : bs <= L) by (apply mod0_ge; [exact Hbpos|clear - HL Hpl Hpad; lia|exact Hmod]).
    destruct (split_out out L Houtl HbsL) as (Hrr & Hf4 & Hs4).
    assert (Hrun := eframe_run cst (DH GCM) (DP GCM) bs macsz ltac:(clear - Hbs; lia) Hmac s out t c
                      (firstn (Z.to_nat bs) out) (firstn 4 (firstn (Z.to_nat bs) out)) c' packet L
                      Hph Hst Hbuf Houtl ltac:(clear - HbsL; lia) Htl ltac:(clear - HbsL Hmac; lia)).
    specialize (Hrun ltac:(unfold dec_header; rewrite Hc; reflexivity)
                     ltac:(rewrite Hf4, Hh; apply be_int_u32; exact HLr)).
    assert (Hdp : DP GCM c (eseq s) (firstn (Z.to_nat bs) out) (skipn (Z.to_nat bs) out) t = (c', Some packet)).
    { unfold dec_packet. rewrite Hf4, Hs4, Hh. exact Hdec. }
    specialize (Hrun Hdp ltac:(rewrite Hpay; destruct payload; [unfold zlen in Hpl; simpl in Hpl; lia|discriminate])).
    finish_delivers Hrun Hpay.
  Qed.

  Theorem enc_stream_received_gcm pkts c sq chunks :
    0 <= sq < M32 -> Forall (wf_pkt GCM) pkts ->
    concat chunks = concat (snd (SENDS GCM c sq pkts)) -> stream_ok GCM pkts c sq chunks.
  Proof.
    intros Hsq Hall Hcc. apply (stream_received_of_delivers GCM (wf_pkt GCM)); try assumption.
    intros c0 sq0 payload padding Hwf. apply gcm_delivers; assumption.
  Qed.

  End GCMLaws.

  Section ChachaLaws.
  (* decrypt_header inverts the header encryption and verify_and_decrypt inverts encrypt_and_sign
     under the same sequence number *)
  Hypothesis cc_law : forall sq h d, zlen h = 4 ->
    let r := cc_enc sq h d in
    zlen (fst r) = 4 + zlen d /\ cc_hdr sq (firstn 4 (fst r)) = h /\ zlen (snd r) = macsz /\
    cc_dec sq (firstn 4 (fst r)) (skipn 4 (fst r)) (snd r) = Some d.


  Lemma chacha_delivers c sq payload padding :
    wf_pkt Chacha (payload, padding) ->
    edelivers cst (DH Chacha) (DP Chacha) bs macsz c sq (snd (SENDF Chacha c sq payload padding)) payload
              (fst (SENDF Chacha c sq payload padding)).
  Proof.
    intros Hwf s Hph Hst Hbuf Hc Hq.
    destruct (wf_facts Chacha _ _ Hwf) as (HL & Hpl & HLr & Hpay).
    destruct Hwf as (_ & Hpad & Hal & _). cbn [fst snd hdrlen] in Hal, Hpad.
    unfold send_frame, enc_packet in *.
    set (packet := zlen padding :: payload ++ padding) in *. set (L := zlen packet) in *.
    pose proof (cc_law sq (u32 L) packet (zlen_u32 L)) as Hlaw. cbv zeta in Hlaw.
    destruct (cc_enc sq (u32 L) packet) as [out t] eqn:Ec. cbn [fst snd] in *. fold L in Hlaw.
    destruct Hlaw as (Houtl & Hh & Htl & Hdec).
    assert (Hmod : L mod bs = 0) by (rewrite <- Hal; f_equal; lia).
    assert (Hbpos : 0 < bs) by (clear - Hbs; lia).
    assert (HbsL : bs <= L) by (apply mod0_ge; [exact Hbpos|clear - HL Hpl Hpad; lia|exact Hmod]).
    destruct (split_out out L Houtl HbsL) as (Hrr & Hf4 & Hs4).
    assert (Hrun := eframe_run cst (DH Chacha) (DP Chacha) bs macsz ltac:(clear - Hbs; lia) Hmac s out t c
                      (firstn (Z.to_nat bs) out) (cc_hdr sq (firstn 4 (firstn (Z.to_nat bs) out))) c packet L
                      Hph Hst Hbuf Houtl ltac:(clear - HbsL; lia) Htl ltac:(clear - HbsL Hmac; lia)).
    specialize (Hrun ltac:(unfold dec_header; rewrite Hc, Hq; reflexivity)
                     ltac:(rewrite Hf4, Hh; apply be_int_u32; exact HLr)).
    assert (Hdp : DP Chacha c (eseq s) (firstn (Z.to_nat bs) out) (skipn (Z.to_nat bs) out) t = (c, Some packet)).
    { unfold dec_packet. rewrite Hf4, Hs4, Hq, Hdec. reflexivity. }
    specialize (Hrun Hdp ltac:(rewrite Hpay; destruct payload; [unfold zlen in Hpl; simpl in Hpl; lia|discriminate])).
    finish_delivers Hrun Hpay.
  Qed.

  Theorem enc_stream_received_chacha pkts c sq chunks :
    0 <= sq < M32 -> Forall (wf_pkt Chacha) pkts ->
    concat chunks = concat (snd (SENDS Chacha c sq pkts)) -> stream_ok Chacha pkts c sq chunks.
  Proof.
    intros Hsq Hall Hcc. apply (stream_received_of_delivers Chacha (wf_pkt Chacha)); try assumption.
    intros c0 sq0 payload padding Hwf. apply chacha_delivers; assumption.
  Qed.

  End ChachaLaws.

End ShimProofs.

  (* send_packet's own padding rule yields well-formed packets (block size >= 8 as asyncssh uses) *)
Lemma pad_len_wf bs m payload padding : 8 <= bs -> payload <> [] ->
    zlen padding = pad_len (hdrlen m) bs (zlen payload) -> 1 + zlen payload + zlen padding < M32 ->
  wf_pkt bs m (payload, padding).
  Proof.
    intros H8 Hp Hpl Hlt. unfold wf_pkt. cbn [fst snd].
    destruct (pad_len_spec (hdrlen m) bs (zlen payload) H8 ltac:(destruct m; cbn; lia) (zlen_nonneg _)) as [A B].
    rewrite Hpl. repeat split; try assumption; [apply A|rewrite <- Hpl; exact Hlt].
  Qed.

(* ---------- T4: the toy primitives satisfy every law assumed above ---------------------------- *)
Lemma txor_length k : forall l p, length (txor k p l) = length l.
Proof. induction l as [|b r IH]; intros p; simpl; [reflexivity|]. rewrite IH. reflexivity. Qed.

Lemma txor_zlen k p l : zlen (txor k p l) = zlen l.
Proof. unfold zlen. rewrite txor_length. reflexivity. Qed.

Lemma txor_invol k : forall l p, txor k p (txor k p l) = l.
Proof.
  induction l as [|b r IH]; intros p; simpl; [reflexivity|].
  rewrite IH, Z.lxor_assoc, Z.lxor_nilpotent, Z.lxor_0_r. reflexivity.
Qed.

Lemma txor_app k : forall a b p, txor k p (a ++ b) = txor k p a ++ txor k (p + zlen a) b.
Proof.
  induction a as [|x a IH]; intros b p; simpl.
  - unfold zlen. simpl. rewrite Z.add_0_r. reflexivity.
  - rewrite IH, zlen_cons. do 3 f_equal. lia.
Qed.

Lemma toy_crypt_len k c x : zlen (snd (toy_crypt k c x)) = zlen x.
Proof. apply txor_zlen. Qed.

Lemma toy_crypt_inv k c x : toy_crypt k c (snd (toy_crypt k c x)) = (fst (toy_crypt k c x), x).
Proof. unfold toy_crypt. cbn [fst snd]. rewrite txor_invol, txor_zlen. reflexivity. Qed.

Lemma toy_crypt_split k c a b :
  toy_crypt k c (a ++ b) =
  (fst (toy_crypt k (fst (toy_crypt k c a)) b), snd (toy_crypt k c a) ++ snd (toy_crypt k (fst (toy_crypt k c a)) b)).
Proof. unfold toy_crypt. cbn [fst snd]. rewrite txor_app, zlen_app. f_equal. lia. Qed.

Lemma toy_tag_len tl k sq x : zlen (toy_tag tl k sq x) = Z.of_nat tl.
Proof. unfold toy_tag, zlen. rewrite map_length, seq_length. reflexivity. Qed.

Lemma firstn_len_app (h x : bytes) : zlen h = 4 -> firstn 4 (h ++ x) = h /\ skipn 4 (h ++ x) = x.
Proof.
  intros H. assert (E : length h = 4%nat) by (unfold zlen in H; lia). split.
  - rewrite firstn_app, E. simpl. rewrite <- E at 1. rewrite firstn_all. apply app_nil_r.
  - rewrite skipn_app, E. simpl. rewrite <- E at 1. rewrite skipn_all. reflexivity.
Qed.

Lemma toy_gcm_law tl k c h d : zlen h = 4 ->
  let r := toy_gcm_enc tl k c h d in
  zlen (fst (snd r)) = 4 + zlen d /\ firstn 4 (fst (snd r)) = h /\ zlen (snd (snd r)) = Z.of_nat tl /\
  toy_gcm_dec tl k c h (skipn 4 (fst (snd r))) (snd (snd r)) = (fst r, Some d).
Proof.
  intros H. unfold toy_gcm_enc, toy_gcm_dec. cbn [fst snd].
  destruct (firstn_len_app h (txor (k + 101) (11 * c) d) H) as [A B].
  rewrite zlen_app, txor_zlen, H, A, B, zlist_eqb_refl, txor_invol, toy_tag_len. repeat split.
Qed.

Lemma toy_cc_law tl k sq h d : zlen h = 4 ->
  let r := toy_cc_enc tl k sq h d in
  zlen (fst r) = 4 + zlen d /\ toy_cc_hdr k sq (firstn 4 (fst r)) = h /\ zlen (snd r) = Z.of_nat tl /\
  toy_cc_dec tl k sq (firstn 4 (fst r)) (skipn 4 (fst r)) (snd r) = Some d.
Proof.
  intros H. unfold toy_cc_enc, toy_cc_dec. cbn [fst snd].
  assert (H' : zlen (toy_cc_hdr k sq h) = 4) by (unfold toy_cc_hdr; rewrite txor_zlen; exact H).
  destruct (firstn_len_app _ (txor (k + 77) (17 * sq + 64) d) H') as [A B].
  rewrite firstn_skipn, zlist_eqb_refl, A, B, zlen_app, txor_zlen, H', txor_invol, toy_tag_len.
  unfold toy_cc_hdr. rewrite txor_invol. repeat split.
Qed.

(* hence T3 holds for the model instantiated with the toy primitives without any premise on them *)
Definition toy_stream_ok (m : emode) (bs : Z) (tl : nat) (k : Z) (pkts : list (bytes * bytes)) (c sq : Z)
    (chunks : list bytes) : Prop :=
  let s := fold_left (toy_feed m bs tl k) chunks (einit c sq) in
  egot s = map fst pkts /\ est s = SOk /\ eseq s = (sq + Z.of_nat (length pkts)) mod M32 /\
  ecst s = fst (fst (toy_send_stream m tl k c sq pkts)) /\ ebuf s = [] /\ eph s = EHdr /\ eshort s = false.

Theorem toy_stream_received m bs tl k pkts c sq chunks :
  4 <= bs -> 0 <= sq < M32 ->
  Forall (fun p => wf_pkt bs m p /\ (m = Basic -> 0 < Z.of_nat tl \/ bs < 5 + zlen (fst p) + zlen (snd p))) pkts ->
  concat chunks = concat (snd (toy_send_stream m tl k c sq pkts)) ->
  toy_stream_ok m bs tl k pkts c sq chunks.
Proof.
  intros Hbs Hsq Hall Hcc. unfold toy_stream_ok, toy_feed, toy_send_stream in *.
  destruct m.
  - apply (enc_stream_received_basic Z (toy_crypt k) (toy_crypt k) (toy_tag tl k) (toy_gcm_enc tl k) (toy_gcm_dec tl k)
             (toy_cc_enc tl k) (toy_cc_hdr k) (toy_cc_dec tl k) bs (Z.of_nat tl) Hbs ltac:(lia)
             (toy_crypt_len k) (toy_crypt_len k) (fun c x _ => toy_crypt_inv k c x)
             (fun c a b _ _ => toy_crypt_split k c a b) (toy_tag_len tl k)); try assumption.
    eapply Forall_impl; [|exact Hall]. intros p [A B]. split; [exact A|apply B; reflexivity].
  - apply (enc_stream_received_etm Z (toy_crypt k) (toy_crypt k) (toy_tag tl k) (toy_gcm_enc tl k) (toy_gcm_dec tl k)
             (toy_cc_enc tl k) (toy_cc_hdr k) (toy_cc_dec tl k) bs (Z.of_nat tl) Hbs ltac:(lia)
             (toy_crypt_len k) (fun c x _ => toy_crypt_inv k c x) (toy_tag_len tl k)); try assumption.
    eapply Forall_impl; [|exact Hall]. intros p [A _]. exact A.
  - apply (enc_stream_received_gcm Z (toy_crypt k) (toy_crypt k) (toy_tag tl k) (toy_gcm_enc tl k) (toy_gcm_dec tl k)
             (toy_cc_enc tl k) (toy_cc_hdr k) (toy_cc_dec tl k) bs (Z.of_nat tl) Hbs ltac:(lia)
             (toy_gcm_law tl k)); try assumption.
    eapply Forall_impl; [|exact Hall]. intros p [A _]. exact A.
  - apply (enc_stream_received_chacha Z (toy_crypt k) (toy_crypt k) (toy_tag tl k) (toy_gcm_enc tl k) (toy_gcm_dec tl k)
             (toy_cc_enc tl k) (toy_cc_hdr k) (toy_cc_dec tl k) bs (Z.of_nat tl) Hbs ltac:(lia)
             (toy_cc_law tl k)); try assumption.
    eapply Forall_impl; [|exact Hall]. intros p [A _]. exact A.
Qed.
