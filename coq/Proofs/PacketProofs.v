(* Proofs about Model/Packet.v *)
From AV Require Import Base.Prelude Model.Packet.
Local Arguments Z.mul : simpl never.
Local Arguments Z.add : simpl never.
Local Arguments Z.sub : simpl never.
Local Arguments Z.modulo : simpl never.
Local Arguments Z.div : simpl never.
Local Arguments Z.of_nat : simpl never.
Local Arguments Z.to_nat : simpl never.
Local Arguments BS : simpl never.
Local Arguments firstn : simpl never.
Local Arguments skipn : simpl never.

(* ---------- padding ------------------------------------------------------------------------ *)

(* for every block size >= 8 (asyncssh uses max(8, cipher block size)), header size and payload
   length: at least 4 and less than blocksize+4 bytes of padding, and the padded packet is aligned *)
Lemma add_neg_mod x b : 0 < b -> (x + (- x) mod b) mod b = 0.
Proof.
  intros Hb. pose proof (Z.div_mod (- x) b ltac:(lia)) as E.
  set (q := (- x) / b) in *. set (r := (- x) mod b) in *.
  replace (x + r) with ((- q) * b) by nia. apply Z_mod_mult.
Qed.

Theorem pad_len_spec hdr bs len :
  8 <= bs -> 0 <= hdr -> 0 <= len ->
  4 <= pad_len hdr bs len < bs + 4 /\ (hdr + len + pad_len hdr bs len) mod bs = 0.
Proof.
  intros Hb Hh Hl. unfold pad_len.
  pose proof (Z.mod_pos_bound (- (hdr + len)) bs ltac:(lia)) as Hm.
  destruct (Z.ltb_spec ((- (hdr + len)) mod bs) 4) as [H|H]; split; try lia.
  - replace (hdr + len + ((- (hdr + len)) mod bs + bs)) with ((hdr + len + (- (hdr + len)) mod bs) + 1 * bs) by lia.
    rewrite Z.mod_add by lia. apply add_neg_mod. lia.
  - apply add_neg_mod. lia.
Qed.

Lemma pad_len_le_255 hdr bs len :
  8 <= bs <= 251 -> 0 <= hdr -> 0 <= len -> pad_len hdr bs len <= 255.
Proof. intros. pose proof (pad_len_spec hdr bs len). lia. Qed.

(* ---------- u32 ---------------------------------------------------------------------------- *)

Lemma get_u32_u32 n rest : 0 <= n < 4294967296 -> get_u32 (u32 n ++ rest) = n.
Proof. intros H. unfold u32, get_u32. simpl. lia. Qed.

Lemma u32_length n : length (u32 n) = 4%nat.
Proof. reflexivity. Qed.

(* ---------- frame / parse ------------------------------------------------------------------ *)

Lemma zlen_app (a b : list Z) : zlen (a ++ b) = zlen a + zlen b.
Proof. unfold zlen. rewrite app_length. lia. Qed.

Lemma zlen_nonneg (l : list Z) : 0 <= zlen l.
Proof. unfold zlen. lia. Qed.

Lemma py_payload_frame payload padding :
  payload <> [] -> 1 <= zlen padding ->
  py_payload (zlen padding :: payload ++ padding) = payload.
Proof.
  intros Hp Hpad. unfold py_payload.
  set (n := zlen (zlen padding :: payload ++ padding)).
  assert (Hn : n = 1 + zlen payload + zlen padding).
  { unfold n, zlen. simpl length. rewrite app_length. lia. }
  assert (Hpl : 1 <= zlen payload) by (unfold zlen; destruct payload; [congruence|simpl; lia]).
  destruct (Z.eqb_spec (zlen padding) 0) as [E|E]; [lia|].
  destruct (Z.ltb_spec (n - zlen padding) 0) as [E2|E2]; [lia|].
  destruct (Z.leb_spec (n - zlen padding) 1) as [E3|E3]; [lia|].
  simpl tl. replace (Z.to_nat (n - zlen padding - 1)) with (length payload) by (unfold zlen in *; lia).
  rewrite firstn_app, Nat.sub_diag, firstn_all. simpl. apply app_nil_r.
Qed.

(* ---------- the receive loop as a deterministic step relation ------------------------------ *)

Definition app (s : rstate) (c : bytes) : rstate :=
  mkRS (inbuf s ++ c) (phase s) (got s) (failed s) (short s).

Definition okp (s : rstate) : Prop :=
  match phase s with PBody _ n => 4 <= n | PHdr => True end.

Definition R (s s' : rstate) : Prop := inbuf s <> [] /\ recv_step s = Some s'.

Inductive Rs : rstate -> rstate -> Prop :=
| Rs_refl s : Rs s s
| Rs_step s s' s'' : R s s' -> Rs s' s'' -> Rs s s''.

Definition stuck (s : rstate) : Prop := inbuf s = [] \/ recv_step s = None.

Lemma Rs_trans a b c : Rs a b -> Rs b c -> Rs a c.
Proof. induction 1; intros; [assumption|]. eapply Rs_step; eauto. Qed.

Lemma R_det s a b : R s a -> R s b -> a = b.
Proof. intros [_ Ha] [_ Hb]. congruence. Qed.

Lemma stuck_no_step s s' : stuck s -> R s s' -> False.
Proof. intros [E|E] [Hne Hs]; congruence. Qed.

Lemma nf_unique s n1 n2 : Rs s n1 -> stuck n1 -> Rs s n2 -> stuck n2 -> n1 = n2.
Proof.
  intros H1. revert n2. induction H1 as [s|s s' s'' HR H1 IH]; intros n2 St1 H2 St2.
  - destruct H2 as [|s s' s'' HR' _]; [reflexivity|]. exfalso. exact (stuck_no_step _ _ St1 HR').
  - destruct H2 as [|s t t' HR' H2'].
    + exfalso. exact (stuck_no_step _ _ St2 HR).
    + rewrite (R_det _ _ _ HR' HR) in H2'. apply IH; assumption.
Qed.

(* on a deterministic path every reachable state lies before the normal form *)
Lemma on_path s m t : Rs s m -> Rs s t -> stuck t -> Rs m t.
Proof.
  intros Hm. revert t. induction Hm as [s|s s' s'' HR Hm IH]; intros t Ht St; [assumption|].
  destruct Ht as [|s u u' HR' Ht'].
  - exfalso. exact (stuck_no_step _ _ St HR).
  - rewrite (R_det _ _ _ HR' HR) in Ht'. apply IH; assumption.
Qed.

Lemma short_step s s' : recv_step s = Some s' -> short s = true -> short s' = true.
Proof.
  unfold recv_step. destruct (failed s); [discriminate|].
  destruct (phase s) as [|first n].
  - destruct (zlen (inbuf s) <? BS); [discriminate|]. intros H Hs. inversion H; subst. simpl. rewrite Hs. reflexivity.
  - destruct (zlen (inbuf s) <? 4 + n - BS); [discriminate|].
    destruct (py_payload _); intros H Hs; inversion H; subst; simpl; exact Hs.
Qed.

Lemma short_Rs s t : Rs s t -> short s = true -> short t = true.
Proof. induction 1 as [|s s' s'' [_ HR] _ IH]; intros; [assumption|]. apply IH. eapply short_step; eauto. Qed.

Lemma okp_step s s' : recv_step s = Some s' -> short s' = false -> okp s'.
Proof.
  unfold recv_step, okp. destruct (failed s); [discriminate|].
  destruct (phase s) as [|first n].
  - destruct (zlen (inbuf s) <? BS); [discriminate|]. intros H Hs. inversion H; subst. simpl in *.
    apply orb_false_iff in Hs as [_ Hs]. lia.
  - destruct (zlen (inbuf s) <? 4 + n - BS); [discriminate|].
    destruct (py_payload _); intros H Hs; inversion H; subst; simpl; exact I.
Qed.

Lemma firstn_app_le {A} (n : nat) (a b : list A) : (n <= length a)%nat -> firstn n (a ++ b) = firstn n a.
Proof. intros H. rewrite firstn_app. replace (n - length a)%nat with 0%nat by lia. simpl. apply app_nil_r. Qed.

Lemma skipn_app_le {A} (n : nat) (a b : list A) : (n <= length a)%nat -> skipn n (a ++ b) = skipn n a ++ b.
Proof. intros H. rewrite skipn_app. replace (n - length a)%nat with 0%nat by lia. reflexivity. Qed.

(* a step that is enabled stays enabled, with the same effect, when more data is appended -
   provided the announced length is not below 4 *)
Lemma step_app s s' c : okp s -> recv_step s = Some s' -> recv_step (app s c) = Some (app s' c).
Proof.
  unfold recv_step, okp, app. simpl. destruct (failed s); [discriminate|].
  destruct (phase s) as [|first n]; intros Hok H.
  - destruct (Z.ltb_spec (zlen (inbuf s)) BS) as [E|E]; [discriminate|].
    assert (E' : (zlen (inbuf s ++ c) <? BS) = false).
    { rewrite zlen_app. pose proof (zlen_nonneg c). lia. }
    rewrite E'. inversion H; subst. simpl.
    unfold zlen, BS in E.
    rewrite firstn_app_le, skipn_app_le by (unfold BS; lia). reflexivity.
  - destruct (Z.ltb_spec (zlen (inbuf s)) (4 + n - BS)) as [E|E]; [discriminate|].
    assert (E' : (zlen (inbuf s ++ c) <? 4 + n - BS) = false).
    { rewrite zlen_app. pose proof (zlen_nonneg c). lia. }
    rewrite E'.
    assert (Hrem : (4 + n - BS <? 0) = false) by (unfold BS; lia).
    rewrite Hrem in *. unfold zlen in E.
    rewrite firstn_app_le, skipn_app_le by lia.
    destruct (py_payload _); inversion H; subst; reflexivity.
Qed.

Lemma R_app s s' c : okp s -> R s s' -> R (app s c) (app s' c).
Proof.
  intros Hok [Hne H]. split; [|apply step_app; assumption].
  simpl. destruct (inbuf s); [congruence|discriminate].
Qed.

(* lifting a whole run: either it lifts completely (and stayed free of short headers), or the
   lifted run reaches a state that has seen a short header *)
Lemma Rs_app s s1 c : Rs s s1 -> okp s -> short s = false ->
  (short s1 = false /\ okp s1 /\ Rs (app s c) (app s1 c)) \/ (exists m, Rs (app s c) m /\ short m = true).
Proof.
  induction 1 as [s|s s' s'' HR Hrest IH]; intros Hok Hsh.
  - left. repeat split; auto. constructor.
  - pose proof (R_app s s' c Hok HR) as HR'.
    destruct (short s') eqn:Es.
    + right. exists (app s' c). split; [eapply Rs_step; [exact HR'|constructor]|exact Es].
    + destruct HR as [_ Hstep]. pose proof (okp_step _ _ Hstep Es) as Hok'.
      destruct (IH Hok' eq_refl) as [(A & B & C)|(m & A & B)].
      * left. repeat split; auto. eapply Rs_step; eauto.
      * right. exists m. split; [eapply Rs_step; eauto|exact B].
Qed.

(* ---------- fuel ---------------------------------------------------------------------------- *)

Definition mu (s : rstate) : nat :=
  (2 * length (inbuf s) + match phase s with PBody _ _ => 8 | PHdr => 0 end)%nat.

Lemma mu_step s s' : okp s -> recv_step s = Some s' -> (mu s' + 8 <= mu s)%nat.
Proof.
  unfold recv_step, okp, mu. destruct (failed s); [discriminate|].
  destruct (phase s) as [|first n]; intros Hok H.
  - destruct (Z.ltb_spec (zlen (inbuf s)) BS) as [E|E]; [discriminate|].
    inversion H; subst. simpl. rewrite skipn_length. unfold zlen, BS in *. lia.
  - destruct (Z.ltb_spec (zlen (inbuf s)) (4 + n - BS)) as [E|E]; [discriminate|].
    assert (Hrem : (4 + n - BS <? 0) = false) by (unfold BS; lia).
    rewrite Hrem in H.
    destruct (py_payload _); inversion H; subst; simpl; rewrite skipn_length; lia.
Qed.

Lemma loop_Rs fuel : forall s, Rs s (recv_loop fuel s).
Proof.
  induction fuel as [|f IH]; intros s; simpl; [constructor|].
  destruct (inbuf s) eqn:E; [constructor|].
  destruct (recv_step s) as [s'|] eqn:Es; [|constructor].
  eapply Rs_step; [split; [rewrite E; discriminate|exact Es]|apply IH].
Qed.

Lemma loop_stuck fuel : forall s, okp s -> short (recv_loop fuel s) = false -> (mu s < fuel)%nat ->
  stuck (recv_loop fuel s).
Proof.
  induction fuel as [|f IH]; intros s Hok Hsh Hmu; [lia|]. simpl in *.
  destruct (inbuf s) eqn:E; [left; exact E|].
  destruct (recv_step s) as [s'|] eqn:Es; [|right; exact Es].
  assert (Hs' : short s' = false).
  { destruct (short s') eqn:X; [|reflexivity].
    rewrite (short_Rs _ _ (loop_Rs f s') X) in Hsh. discriminate. }
  apply IH; [eapply okp_step; eauto|exact Hsh|].
  pose proof (mu_step _ _ Hok Es). lia.
Qed.

(* feed reaches the normal form of the extended buffer *)
Lemma feed_nf s c : okp s -> short (feed s c) = false -> Rs (app s c) (feed s c) /\ stuck (feed s c).
Proof.
  intros Hok Hsh. unfold feed in *. fold (app s c) in *.
  split; [apply loop_Rs|]. apply loop_stuck; [exact Hok|exact Hsh|].
  unfold mu, app. simpl. destruct (phase s); lia.
Qed.

Lemma okp_Rs s t : Rs s t -> okp s -> short t = false -> okp t.
Proof.
  induction 1 as [|s s' s'' [_ HR] Hrest IH]; intros Hok Hsh; [assumption|].
  apply IH; [|exact Hsh]. eapply okp_step; [exact HR|].
  destruct (short s') eqn:X; [|reflexivity]. rewrite (short_Rs _ _ Hrest X) in Hsh. discriminate.
Qed.

Lemma app_app s a b : app (app s a) b = app s (a ++ b).
Proof. unfold app. simpl. rewrite app_assoc. reflexivity. Qed.

(* Segmentation independence, two chunks: as long as no header announcing fewer than 4 bytes has
   been seen, delivering a then b gives the very same state as delivering a ++ b at once. *)
Theorem feed_feed s a b :
  okp s -> short s = false -> short (feed s (a ++ b)) = false ->
  feed (feed s a) b = feed s (a ++ b).
Proof.
  intros Hok Hs0 Hsh.
  destruct (feed_nf s (a ++ b) Hok Hsh) as [Hrun Hst].
  (* the run on a alone *)
  pose proof (loop_Rs (S (2 * length (inbuf (app s a)) + 8)) (app s a)) as Hra.
  change (recv_loop _ (app s a)) with (feed s a) in Hra.
  assert (Hoka : okp (app s a)) by exact Hok.
  destruct (Rs_app _ _ b Hra Hoka Hs0) as [(Hs1 & Hok1 & Hlift)|(m & Hm & Hsm)].
  - rewrite app_app in Hlift.
    (* feed (feed s a) b is the normal form of app (feed s a) b, which lies on the path to feed s (a++b) *)
    assert (Hsh2 : short (feed (feed s a) b) = false).
    { destruct (short (feed (feed s a) b)) eqn:X; [|reflexivity].
      (* feed (feed s a) b is reachable from app s (a ++ b); its normal form is feed s (a ++ b) *)
      assert (Hreach : Rs (app s (a ++ b)) (feed (feed s a) b)).
      { eapply Rs_trans; [exact Hlift|]. unfold feed at 1. apply loop_Rs. }
      pose proof (on_path _ _ _ Hreach Hrun Hst) as Hp.
      rewrite (short_Rs _ _ Hp X) in Hsh. discriminate. }
    destruct (feed_nf (feed s a) b Hok1 Hsh2) as [Hrun2 Hst2].
    eapply nf_unique; [|exact Hst2|exact Hrun|exact Hst].
    eapply Rs_trans; [exact Hlift|exact Hrun2].
  - rewrite app_app in Hm.
    pose proof (on_path _ _ _ Hm Hrun Hst) as Hp.
    rewrite (short_Rs _ _ Hp Hsm) in Hsh. discriminate.
Qed.

(* any chunking: folding feed over the chunks equals one feed of the concatenation *)
Lemma short_feed_prefix s a b : okp s -> short s = false ->
  short (feed s (a ++ b)) = false -> short (feed s a) = false.
Proof.
  intros Hok Hs0 Hsh.
  destruct (short (feed s a)) eqn:X; [|reflexivity].
  destruct (feed_nf s (a ++ b) Hok Hsh) as [Hrun Hst].
  pose proof (loop_Rs (S (2 * length (inbuf (app s a)) + 8)) (app s a)) as Hra.
  change (recv_loop _ (app s a)) with (feed s a) in Hra.
  (* lift the run on a as far as it stays short-free; it must hit a short state, also in the lifted run *)
  destruct (Rs_app _ _ b Hra Hok Hs0) as [(Hs1 & _)|(m & Hm & Hsm)]; [congruence|].
  rewrite app_app in Hm. pose proof (on_path _ _ _ Hm Hrun Hst) as Hp.
  rewrite (short_Rs _ _ Hp Hsm) in Hsh. discriminate.
Qed.

Lemma okp_feed s c : okp s -> short (feed s c) = false -> okp (feed s c).
Proof.
  intros Hok Hsh. destruct (feed_nf s c Hok Hsh) as [Hrun _].
  eapply okp_Rs; [exact Hrun|exact Hok|exact Hsh].
Qed.

Theorem feed_chunks chunks : forall s,
  okp s -> short s = false -> short (feed s (concat chunks)) = false ->
  fold_left feed chunks s = feed s (concat chunks) \/ chunks = [].
Proof.
  induction chunks as [|c cs IH]; intros s Hok Hs0 Hsh; [right; reflexivity|left].
  simpl in *.
  pose proof (short_feed_prefix s c (concat cs) Hok Hs0 Hsh) as Hc.
  pose proof (okp_feed s c Hok Hc) as Hokc.
  rewrite <- (feed_feed s c (concat cs) Hok Hs0 Hsh) in Hsh |- *.
  destruct (IH (feed s c) Hokc Hc Hsh) as [E|E]; [exact E|].
  subst cs. simpl.
  (* feeding the empty chunk to a normal form changes nothing *)
  destruct (feed_nf s c Hok Hc) as [Hrun Hst].
  assert (Happ : app (feed s c) [] = feed s c).
  { unfold app. rewrite app_nil_r. destruct (feed s c); reflexivity. }
  destruct (feed_nf (feed s c) [] Hokc) as [Hrun2 Hst2].
  { simpl in Hsh. exact Hsh. }
  rewrite Happ in Hrun2. symmetry.
  eapply nf_unique; [exact Hrun2|exact Hst2|constructor|exact Hst].
Qed.

(* ---------- well-formed frames are received, whatever the chunking --------------------------- *)

Lemma loop_step f s s' : inbuf s <> [] -> recv_step s = Some s' -> recv_loop (S f) s = recv_loop f s'.
Proof. intros Hne Hs. cbn [recv_loop]. destruct (inbuf s); [congruence|]. rewrite Hs. reflexivity. Qed.

Lemma loop_empty f s : inbuf s = [] -> recv_loop f s = s.
Proof. intros E. destruct f; cbn [recv_loop]; [reflexivity|]. rewrite E. reflexivity. Qed.

(* one-shot: a single well-formed frame fed at once from the initial state yields its payload *)
Theorem feed_frame payload padding :
  payload <> [] -> 4 <= zlen padding -> (5 + zlen payload + zlen padding) mod 8 = 0 ->
  1 + zlen payload + zlen padding < 4294967296 ->
  let s := feed rs_init (frame payload padding) in
  got s = [payload] /\ inbuf s = [] /\ failed s = false /\ short s = false /\ phase s = PHdr.
Proof.
  intros Hp Hpad Hal Hlt.
  set (L := 1 + zlen payload + zlen padding) in *.
  assert (Hpl : 1 <= zlen payload) by (unfold zlen; destruct payload; [congruence|simpl; lia]).
  assert (HL : 12 <= L) by (unfold L; lia).
  assert (Hflen : zlen (frame payload padding) = 4 + L).
  { unfold frame, zlen. rewrite app_length, u32_length. simpl length. rewrite app_length. unfold L, zlen. lia. }
  set (st := {| inbuf := frame payload padding; phase := PHdr; got := []; failed := false; short := false |}).
  (* split the frame into its first block and the rest *)
  set (first := firstn 8 (frame payload padding)).
  set (rest := skipn 8 (frame payload padding)).
  assert (Hfr : frame payload padding = first ++ rest) by (symmetry; apply firstn_skipn).
  assert (Hfirstlen : length first = 8%nat).
  { unfold first. rewrite firstn_length. unfold zlen in Hflen. lia. }
  assert (Hu : get_u32 first = L).
  { unfold first, frame. fold L. rewrite firstn_app, u32_length.
    rewrite (firstn_all2 (n := 8) (u32 L)) by (rewrite u32_length; lia).
    apply get_u32_u32. lia. }
  (* first handler call: header *)
  assert (Hstep1 : recv_step st = Some (mkRS rest (PBody first L) [] false false)).
  { unfold recv_step, st. cbn [inbuf phase got failed short]. rewrite Hflen.
    destruct (Z.ltb_spec (4 + L) BS) as [E|E]; [unfold BS in E; lia|].
    change (Z.to_nat BS) with 8%nat. fold first. fold rest. rewrite Hu.
    destruct (Z.ltb_spec L 4); [lia|]. reflexivity. }
  assert (Hrestlen : zlen rest = L - 4).
  { unfold rest, zlen. rewrite skipn_length. unfold zlen in Hflen. lia. }
  assert (Hpd : skipn 4 first ++ rest = zlen padding :: payload ++ padding).
  { assert (Hsk : skipn 4 (frame payload padding) = zlen padding :: payload ++ padding).
    { unfold frame. rewrite skipn_app. rewrite u32_length. simpl.
      unfold u32. reflexivity. }
    rewrite <- Hsk. rewrite Hfr. rewrite skipn_app. rewrite Hfirstlen.
    replace (4 - 8)%nat with 0%nat by lia. reflexivity. }
  assert (Hstep2 : recv_step (mkRS rest (PBody first L) [] false false) = Some (mkRS [] PHdr [payload] false false)).
  { unfold recv_step. cbn [inbuf phase got failed short]. rewrite Hrestlen.
    destruct (Z.ltb_spec (L - 4) (4 + L - BS)) as [E|E]; [unfold BS in E; lia|].
    destruct (Z.ltb_spec (4 + L - BS) 0) as [E2|E2]; [unfold BS in E2; lia|].
    assert (Hn : Z.to_nat (4 + L - BS) = length rest) by (unfold BS, zlen in *; lia).
    rewrite Hn, firstn_all, skipn_all, Hpd.
    rewrite (py_payload_frame payload padding Hp ltac:(lia)).
    destruct payload; [congruence|reflexivity]. }
  assert (Hne1 : inbuf st <> []).
  { unfold st. simpl. intros E. rewrite E in Hflen. unfold zlen in Hflen. simpl in Hflen. lia. }
  assert (Hne2 : rest <> []).
  { intros E. rewrite E in Hrestlen. unfold zlen in Hrestlen. simpl in Hrestlen. lia. }
  (* run the loop: at least 3 units of fuel *)
  assert (Hloop : forall f, recv_loop (S (S (S f))) st = mkRS [] PHdr [payload] false false).
  { intros f. rewrite (loop_step _ _ _ Hne1 Hstep1).
    rewrite (loop_step (S f) (mkRS rest (PBody first L) [] false false) _ Hne2 Hstep2). apply loop_empty. reflexivity. }
  cbv zeta.
  change (feed rs_init (frame payload padding)) with (recv_loop (S (2 * length (inbuf st) + 8)) st).
  assert (Hfuel : exists f, S (2 * length (inbuf st) + 8) = S (S (S f))).
  { exists (2 * length (inbuf st) + 6)%nat. lia. }
  destruct Hfuel as [f Hf]. rewrite Hf, Hloop. cbn [got inbuf failed short phase]. repeat split; reflexivity.
Qed.

(* ---------- key derivation ------------------------------------------------------------------ *)

Section DeriveProofs.
  Variable H : bytes -> bytes.
  Variable d : nat.
  Hypothesis Hd : (1 <= d)%nat.
  Hypothesis Hlen : forall x, length (H x) = d.

  Lemma derive_loop_len fuel : forall k h x sid keylen key,
    0 <= keylen -> (Z.to_nat keylen < length key + fuel * d)%nat \/ keylen <= zlen key ->
    keylen <= zlen (derive_loop H fuel k h x sid keylen key).
  Proof.
    induction fuel as [|f IH]; intros k h x sid keylen key Hk Hf; simpl.
    - unfold zlen in *. destruct Hf; lia.
    - destruct (Z.ltb_spec (zlen key) keylen) as [E|E]; [|exact E].
      apply IH; [exact Hk|]. left. rewrite app_length, Hlen.
      destruct Hf as [Hf|Hf]; [|unfold zlen in *; lia].
      rewrite Nat.mul_succ_l in Hf. lia.
  Qed.

  (* the derived key has exactly the requested length *)
  Theorem derive_key_length k h x sid keylen :
    0 <= keylen -> zlen (derive_key H k h x sid keylen) = keylen.
  Proof.
    intros Hk. unfold derive_key.
    pose proof (derive_loop_len (Z.to_nat keylen + 1) k h x sid keylen [] Hk) as Hl.
    assert (Hge : keylen <= zlen (derive_loop H (Z.to_nat keylen + 1) k h x sid keylen [])).
    { apply Hl. left. simpl. nia. }
    unfold zlen in *. rewrite firstn_length. lia.
  Qed.

  (* RFC 4253 7.2: K1 = HASH(K || H || X || session_id), K2 = HASH(K || H || K1),
     K3 = HASH(K || H || K1 || K2), key = K1 || K2 || K3 ... truncated *)
  Theorem derive_key_rfc_1 k h x sid keylen :
    0 < keylen <= Z.of_nat d ->
    derive_key H k h x sid keylen = firstn (Z.to_nat keylen) (H (k ++ h ++ x ++ sid)).
  Proof.
    intros Hk. unfold derive_key.
    replace (Z.to_nat keylen + 1)%nat with (S (Z.to_nat keylen)) by lia. simpl.
    destruct (Z.ltb_spec (zlen []) keylen) as [E|E]; [|unfold zlen in E; simpl in E; lia].
    simpl app.
    assert (Hstop : forall f key, keylen <= zlen key -> derive_loop H f k h x sid keylen key = key).
    { intros f key Hz. destruct f; simpl; [reflexivity|].
      destruct (Z.ltb_spec (zlen key) keylen); [lia|reflexivity]. }
    rewrite Hstop; [reflexivity|]. unfold zlen. rewrite Hlen. lia.
  Qed.

  Lemma derive_loop_unfold f k h x sid keylen key :
    derive_loop H (S f) k h x sid keylen key =
      if zlen key <? keylen
      then derive_loop H f k h x sid keylen (key ++ H (k ++ h ++ (match key with [] => x ++ sid | _ => key end)))
      else key.
  Proof. reflexivity. Qed.

  Lemma seed_nonempty (key alt : bytes) : key <> [] -> (match key with [] => alt | _ => key end) = key.
  Proof. destruct key; [congruence|reflexivity]. Qed.

  Theorem derive_key_rfc_3 k h x sid keylen :
    2 * Z.of_nat d < keylen <= 3 * Z.of_nat d ->
    let k1 := H (k ++ h ++ x ++ sid) in
    let k2 := H (k ++ h ++ k1) in
    let k3 := H (k ++ h ++ k1 ++ k2) in
    derive_key H k h x sid keylen = firstn (Z.to_nat keylen) (k1 ++ k2 ++ k3).
  Proof.
    intros Hk k1 k2 k3. unfold derive_key.
    assert (Hstop : forall f key, keylen <= zlen key -> derive_loop H f k h x sid keylen key = key).
    { intros f key Hz. destruct f; [reflexivity|]. rewrite derive_loop_unfold.
      destruct (Z.ltb_spec (zlen key) keylen); [lia|reflexivity]. }
    assert (Hl1 : length k1 = d) by apply Hlen.
    assert (Hl2 : length k2 = d) by apply Hlen.
    assert (Hl3 : length k3 = d) by apply Hlen.
    assert (Hne1 : k1 <> []) by (intros E; rewrite E in Hl1; simpl in Hl1; lia).
    assert (Hne12 : k1 ++ k2 <> []) by (destruct k1; [congruence|discriminate]).
    assert (Hfuel : exists f, (Z.to_nat keylen + 1)%nat = S (S (S f))) by (exists (Z.to_nat keylen - 2)%nat; lia).
    destruct Hfuel as [f ->].
    rewrite derive_loop_unfold.
    destruct (Z.ltb_spec (zlen []) keylen) as [E0|E0]; [|unfold zlen in E0; simpl in E0; lia].
    change ([] ++ H (k ++ h ++ x ++ sid)) with k1.
    rewrite derive_loop_unfold.
    destruct (Z.ltb_spec (zlen k1) keylen) as [E1|E1]; [|unfold zlen in E1; lia].
    rewrite seed_nonempty by exact Hne1. fold k2.
    rewrite derive_loop_unfold.
    destruct (Z.ltb_spec (zlen (k1 ++ k2)) keylen) as [E2|E2];
      [|unfold zlen in E2; rewrite app_length in E2; lia].
    rewrite seed_nonempty by exact Hne12. fold k3.
    rewrite Hstop; [rewrite <- app_assoc; reflexivity|].
    unfold zlen. rewrite !app_length. lia.
  Qed.
End DeriveProofs.
