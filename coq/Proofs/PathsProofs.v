(* Proofs about Model/Paths.v *)
From AV Require Import Base.Prelude Model.Paths.

Definition good_comp (c : bytes) : Prop :=
  c <> [] /\ c <> [DOT] /\ c <> dotdot /\ ~ In SLASH c.

(* "lexically inside root": root followed by a relative path made of good components only *)
Definition inside (root p : bytes) : Prop :=
  exists comps, Forall good_comp comps /\
    p = if (match root with [] => true | _ => false end) || ends_with_slash root
        then root ++ join_sep SLASH comps
        else root ++ SLASH :: join_sep SLASH comps.

(* ---------- split ---------------------------------------------------------- *)

Lemma split_on_nonempty sep s : split_on sep s <> [].
Proof.
  destruct s as [|c r]; simpl; [discriminate|].
  destruct (c =? sep); [discriminate|]. destruct (split_on sep r); discriminate.
Qed.

Lemma split_on_no_sep sep s : Forall (fun c => ~ In sep c) (split_on sep s).
Proof.
  induction s as [|c r IH]; simpl.
  - constructor; [intros []|constructor].
  - destruct (Z.eqb_spec c sep) as [->|Hne].
    + constructor; [intros []|exact IH].
    + destruct (split_on sep r) as [|h t] eqn:E.
      * constructor; [|constructor]. intros [H|[]]. congruence.
      * inversion IH; subst. constructor; [|assumption].
        intros [H|H]; [congruence|contradiction].
Qed.

(* ---------- normalisation loop -------------------------------------------- *)

Lemma zlist_eqb_false a b : zlist_eqb a b = false <-> a <> b.
Proof.
  split.
  - intros H E. apply zlist_eqb_spec in E. congruence.
  - intros H. destruct (zlist_eqb a b) eqn:E; [|reflexivity]. apply zlist_eqb_spec in E. contradiction.
Qed.

Lemma norm_step_abs_good stack comp :
  Forall good_comp stack -> ~ In SLASH comp -> Forall good_comp (norm_step true stack comp).
Proof.
  intros Hs Hc. unfold norm_step.
  destruct (zlist_eqb comp []) eqn:E1; simpl; [assumption|].
  destruct (zlist_eqb comp [DOT]) eqn:E2; simpl; [assumption|].
  destruct (zlist_eqb comp dotdot) eqn:E3; simpl.
  - destruct stack as [|top rest]; [constructor|].
    inversion Hs as [|? ? Ht Hr]; subst.
    destruct (zlist_eqb top dotdot) eqn:E4.
    + apply zlist_eqb_spec in E4. destruct Ht as (_ & _ & Hdd & _). contradiction.
    + assumption.
  - constructor; [|assumption].
    apply zlist_eqb_false in E1, E2, E3. repeat split; assumption.
Qed.

Lemma fold_norm_abs_good comps stack :
  Forall good_comp stack -> Forall (fun c => ~ In SLASH c) comps ->
  Forall good_comp (fold_left (norm_step true) comps stack).
Proof.
  revert stack; induction comps as [|c r IH]; intros stack Hs Hc; simpl; [assumption|].
  inversion Hc; subst. apply IH; [apply norm_step_abs_good|]; assumption.
Qed.

Lemma norm_comps_abs_good s : Forall good_comp (norm_comps true (split_on SLASH s)).
Proof.
  unfold norm_comps. apply Forall_rev. apply fold_norm_abs_good; [constructor|apply split_on_no_sep].
Qed.

(* ---------- joined good components never start with a slash ---------------- *)

Lemma join_good_no_lead comps :
  Forall good_comp comps -> starts_with_slash (join_sep SLASH comps) = false.
Proof.
  intros H. destruct comps as [|c r]; [reflexivity|].
  inversion H as [|? ? (Hne & _ & _ & Hns) _]; subst.
  destruct c as [|x c']; [congruence|].
  assert (x <> SLASH) by (intros ->; apply Hns; left; reflexivity).
  destruct r; simpl; apply Z.eqb_neq; assumption.
Qed.

Lemma lstrip_repeat n body :
  starts_with_slash body = false -> lstrip_slash (repeat SLASH n ++ body) = body.
Proof.
  intros H. induction n as [|n IH]; simpl.
  - destruct body as [|c r]; [reflexivity|]. simpl in *. rewrite H. reflexivity.
  - exact IH.
Qed.

Lemma initial_slashes_abs p : starts_with_slash p = true -> initial_slashes p <> 0%nat.
Proof.
  destruct p as [|a [|b [|c r]]]; simpl; intros H; try discriminate; rewrite H;
    repeat match goal with |- context [if ?x then _ else _] => destruct x end; discriminate.
Qed.

Lemma lstrip_dot_free n : (n <> 0)%nat -> lstrip_slash (repeat SLASH n ++ []) = [].
Proof. intros _. apply lstrip_repeat. reflexivity. Qed.

(* normpath of an absolute path, with leading slashes removed, is a join of good components *)
Lemma normpath_abs_rel p :
  starts_with_slash p = true ->
  exists comps, Forall good_comp comps /\ lstrip_slash (normpath p) = join_sep SLASH comps.
Proof.
  intros Habs. pose proof (initial_slashes_abs p Habs) as Hn.
  unfold normpath. destruct p as [|c r] eqn:Ep; [discriminate|]. rewrite <- Ep in *.
  set (n := initial_slashes p) in *.
  assert (Hb : negb (Nat.eqb n 0) = true) by (destruct n; [congruence|reflexivity]).
  rewrite Hb.
  set (comps := norm_comps true (split_on SLASH p)).
  exists comps. split; [apply norm_comps_abs_good|].
  assert (Hlead := join_good_no_lead comps (norm_comps_abs_good p)).
  destruct (repeat SLASH n ++ join_sep SLASH comps) eqn:Er.
  - destruct n; [congruence|discriminate].
  - rewrite <- Er. apply lstrip_repeat. exact Hlead.
Qed.

Lemma pjoin_slash_abs path : starts_with_slash (pjoin [SLASH] path) = true.
Proof.
  unfold pjoin. destruct (starts_with_slash path) eqn:E; [exact E|]. reflexivity.
Qed.

Lemma pjoin_rel a b : starts_with_slash b = false ->
  pjoin a b = if (match a with [] => true | _ => false end) || ends_with_slash a
              then a ++ b else a ++ SLASH :: b.
Proof. intros H. unfold pjoin. rewrite H. reflexivity. Qed.

Theorem map_path_inside root path : inside root (map_path root path).
Proof.
  unfold map_path.
  destruct (normpath_abs_rel _ (pjoin_slash_abs path)) as (comps & Hg & Heq).
  exists comps. split; [exact Hg|]. rewrite Heq.
  apply pjoin_rel. apply join_good_no_lead. exact Hg.
Qed.

(* The pre-repair mapping escapes: root "/r", client path "//x" is mapped to "/x". *)
Theorem map_path_old_escapes :
  exists root path, ~ inside root (map_path_old root path).
Proof.
  exists [SLASH; 114], [SLASH; SLASH; 120].
  intros (comps & _ & H). vm_compute in H.
  destruct comps as [|c r]; simpl in H; discriminate.
Qed.

(* ---------- reverse mapping ------------------------------------------------ *)

Lemma zprefix_app a b : zprefix a (a ++ b) = true.
Proof. apply zprefix_spec. exists b. reflexivity. Qed.

Lemma skipn_length_app {A} (a b : list A) : skipn (length a) (a ++ b) = b.
Proof. induction a; simpl; auto. Qed.

Theorem reverse_map_roundtrip root rel :
  reverse_map_path root (root ++ SLASH :: rel) = Some (SLASH :: rel).
Proof.
  unfold reverse_map_path.
  destruct (zlist_eqb (root ++ SLASH :: rel) root) eqn:E.
  - apply zlist_eqb_spec in E. apply (f_equal (@length Z)) in E.
    rewrite app_length in E. simpl in E. lia.
  - replace (root ++ SLASH :: rel) with ((root ++ [SLASH]) ++ rel) at 1
      by (rewrite <- app_assoc; reflexivity).
    rewrite zprefix_app. rewrite skipn_length_app. reflexivity.
Qed.

Theorem reverse_map_only_inside root path v :
  reverse_map_path root path = Some v -> path = root \/ exists r, path = root ++ SLASH :: r.
Proof.
  unfold reverse_map_path.
  destruct (zlist_eqb path root) eqn:E; [intros _; left; apply zlist_eqb_spec; exact E|].
  destruct (zprefix (root ++ [SLASH]) path) eqn:P; [|discriminate].
  intros _. right. apply zprefix_spec in P as [r ->]. exists r. rewrite <- app_assoc. reflexivity.
Qed.

(* ---------- download side -------------------------------------------------- *)

Lemma mem_z_spec x l : mem_z x l = true <-> In x l.
Proof.
  induction l as [|y r IH]; simpl; [split; [discriminate|intros []]|].
  rewrite orb_true_iff, Z.eqb_eq, IH. split; intros [H|H]; auto.
Qed.

Lemma mem_z_false x l : mem_z x l = false <-> ~ In x l.
Proof.
  rewrite <- mem_z_spec. destruct (mem_z x l); split; congruence.
Qed.

(* one more level below a directory that is inside stays inside *)
Definition below (dir p : bytes) : Prop :=
  exists name, ~ In SLASH name /\ name <> dotdot /\
    (p = dir ++ name \/ p = dir ++ SLASH :: name).

Theorem scp_name_below dst name :
  scp_name_ok name = true -> below dst (pjoin dst name).
Proof.
  unfold scp_name_ok. rewrite !andb_true_iff, !negb_true_iff.
  intros [[Hs _] Hdd]. apply mem_z_false in Hs. apply zlist_eqb_false in Hdd.
  exists name. repeat split; try assumption.
  assert (starts_with_slash name = false) as Hl.
  { destruct name as [|c r]; [reflexivity|]. simpl. apply Z.eqb_neq. intros ->. apply Hs. left. reflexivity. }
  rewrite (pjoin_rel _ _ Hl). destruct (_ || _); auto.
Qed.

Theorem get_name_below dst name :
  get_name_ok name = true -> below dst (get_dst dst name).
Proof.
  unfold get_name_ok, get_name_skipped. rewrite !andb_true_iff, !negb_true_iff, orb_false_iff.
  intros [[_ Hdd] Hs]. apply mem_z_false in Hs. apply zlist_eqb_false in Hdd.
  exists name. repeat split; try assumption.
  assert (starts_with_slash name = false) as Hl.
  { destruct name as [|c r]; [reflexivity|]. simpl. apply Z.eqb_neq. intros ->. apply Hs. left. reflexivity. }
  unfold get_dst. rewrite (pjoin_rel _ _ Hl). destruct (_ || _); auto.
Qed.

(* without the separator check (pre-repair) a listed name can leave the destination *)
Theorem get_unfiltered_escapes :
  exists dst name, get_name_skipped name = false /\ ~ below dst (get_dst dst name).
Proof.
  exists [100], [SLASH; 120]. split; [reflexivity|].
  intros (name & Hs & _ & [H|H]); vm_compute in H.
  - destruct name as [|c r]; [discriminate|]. inversion H.
  - inversion H.
Qed.

(* ---------- SCP sink --------------------------------------------------------------------- *)

Inductive under (dst : bytes) : bytes -> Prop :=
| under_self : under dst dst
| under_step d p : under dst d -> below d p -> under dst p.

Lemma scp_target_under isdir dst cur name :
  under dst cur -> scp_name_ok name = true -> under dst (scp_target isdir cur name).
Proof.
  intros Hc Hn. unfold scp_target. destruct (isdir cur); [|assumption].
  eapply under_step; [exact Hc|]. apply scp_name_below. exact Hn.
Qed.

Theorem scp_sink_under isdir cont dst recs : forall stack touched,
  Forall (under dst) stack -> Forall (under dst) touched ->
  Forall (under dst) (scp_sink isdir cont recs stack touched).
Proof.
  induction recs as [|r rest IH]; intros stack touched Hs Ht; simpl; [assumption|].
  destruct stack as [|cur up]; [assumption|].
  inversion Hs as [|? ? Hcur Hup]; subst.
  destruct r as [name|name| | |].
  - destruct (scp_name_ok name) eqn:E.
    + apply IH; [assumption|]. apply Forall_app. split; [assumption|].
      constructor; [|constructor]. apply scp_target_under; assumption.
    + destruct cont; [apply IH|]; assumption.
  - destruct (scp_name_ok name) eqn:E.
    + apply IH.
      * constructor; [apply scp_target_under|]; assumption.
      * apply Forall_app. split; [assumption|].
        constructor; [|constructor]. apply scp_target_under; assumption.
    + destruct cont; [apply IH|]; assumption.
  - apply IH; assumption.
  - apply IH; assumption.
  - destruct cont; [apply IH|]; assumption.
Qed.
