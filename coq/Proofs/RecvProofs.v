From AV Require Import Base.Prelude Model.Recv.
Local Arguments Z.modulo : simpl never.

(* once not Running, nothing more is ever delivered and the receiver never runs again *)
Lemma rx_step_dead content r it :
  rx_st r <> Running ->
  rx_out (rx_step content r it) = rx_out r /\ rx_st (rx_step content r it) <> Running.
Proof.
  intros H. unfold rx_step. destruct (rx_st r) eqn:E; try contradiction.
  - destruct it; simpl; split; try reflexivity; try discriminate; rewrite E; discriminate.
  - split; [reflexivity|rewrite E; discriminate].
  - split; [reflexivity|rewrite E; discriminate].
Qed.

Lemma fold_dead content items : forall r,
  rx_st r <> Running ->
  rx_out (fold_left (rx_step content) items r) = rx_out r /\
  rx_st (fold_left (rx_step content) items r) <> Running.
Proof.
  induction items as [|it items IH]; intros r H; simpl; [split; [reflexivity|exact H]|].
  destruct (rx_step_dead content r it H) as [Ho Hs].
  destruct (IH _ Hs) as [Ho' Hs']. split; [congruence|exact Hs'].
Qed.

(* an item refers to a packet the sender actually produced in this key epoch: absolute indices
   s0 .. s0+N-1, fewer than 2^32 of them *)
Definition in_epoch (s0 N : Z) (it : item) : Prop :=
  match it with
  | Orig i | Flip i _ | Trunc i => s0 <= i < s0 + N
  | _ => True
  end.

Lemma mod_distinct i n s0 N :
  N < M32 -> s0 <= i < s0 + N -> s0 <= n <= s0 + N -> i <> n -> (i mod M32 =? n mod M32) = false.
Proof. unfold M32. intros. apply Z.eqb_neq. lia. Qed.

Definition contents (content : Z -> list Z) (n : Z) (k : nat) : list (list Z) :=
  map content (map (fun j => n + Z.of_nat j) (seq 0 k)).

Lemma contents_S content n k : contents content n (S k) = content n :: contents content (n + 1) k.
Proof.
  unfold contents. cbn [seq map]. f_equal; [f_equal; lia|].
  rewrite <- seq_shift, !map_map. apply map_ext. intros j. f_equal. lia.
Qed.

Lemma run_from content s0 N items : forall n out,
  N < M32 -> s0 <= n <= s0 + N -> Forall (in_epoch s0 N) items ->
  let r := fold_left (rx_step content) items (mkRx (n mod M32) out Running) in
  rx_out r = out ++ contents content n (intact n items) /\
  (rx_st r = Running <-> intact n items = length items).
Proof.
  induction items as [|it items IH]; intros n out HN Hn Hall r; subst r.
  - simpl. unfold contents. simpl. rewrite app_nil_r. split; [reflexivity|split; reflexivity].
  - inversion Hall as [|? ? Hit Hrest]; subst.
    cbn [fold_left].
    assert (Hdead : forall st, st <> Running ->
              rx_out (fold_left (rx_step content) items (mkRx (n mod M32) out st)) = out /\
              rx_st (fold_left (rx_step content) items (mkRx (n mod M32) out st)) <> Running).
    { intros st Hst. apply (fold_dead content items (mkRx (n mod M32) out st)). exact Hst. }
    remember (rx_step content {| rx_seq := n mod M32; rx_out := out; rx_st := Running |} it) as r1 eqn:Er1.
    destruct it as [i|i f|i| |]; cbn [intact]; unfold rx_step in Er1; cbn [rx_st rx_seq rx_out] in Er1.
    + simpl in Hit. destruct (Z.eqb_spec i n) as [->|Hne].
      * rewrite Z.eqb_refl in Er1. subst r1.
        assert (Hnext : (n mod M32 + 1) mod M32 = (n + 1) mod M32).
        { unfold M32. lia. }
        rewrite Hnext.
        destruct (IH (n + 1) (out ++ [content n]) HN) as [IHo IHs]; [lia|exact Hrest|].
        split.
        -- rewrite IHo, contents_S, <- app_assoc. reflexivity.
        -- rewrite IHs. cbn [length]. lia.
      * rewrite (mod_distinct i n s0 N HN Hit Hn Hne) in Er1. subst r1.
        destruct (Hdead MacFailed) as [Ho Hs]; [discriminate|].
        unfold contents. simpl. rewrite app_nil_r. split; [exact Ho|].
        split; [intros X; contradiction|cbn [length]; lia].
    + destruct f; subst r1;
        [destruct (Hdead Stalled) as [Ho Hs]; [discriminate|]
        |destruct (Hdead MacFailed) as [Ho Hs]; [discriminate|]
        |destruct (Hdead MacFailed) as [Ho Hs]; [discriminate|]
        |destruct (Hdead MacFailed) as [Ho Hs]; [discriminate|]];
        unfold contents; simpl; rewrite app_nil_r; (split; [exact Ho|]);
        (split; [intros X; contradiction|cbn [length]; lia]).
    + subst r1. destruct (Hdead Stalled) as [Ho Hs]; [discriminate|].
      unfold contents. simpl. rewrite app_nil_r. split; [exact Ho|].
      split; [intros X; contradiction|cbn [length]; lia].
    + subst r1. destruct (Hdead MacFailed) as [Ho Hs]; [discriminate|].
      unfold contents. simpl. rewrite app_nil_r. split; [exact Ho|].
      split; [intros X; contradiction|cbn [length]; lia].
    + subst r1. destruct (Hdead Lost) as [Ho Hs]; [discriminate|].
      unfold contents. simpl. rewrite app_nil_r. split; [exact Ho|].
      split; [intros X; contradiction|cbn [length]; lia].
Qed.

(* the property: for EVERY adversary list over the packets of one key epoch (fewer than 2^32 of
   them), the application contents delivered are exactly those of the intact prefix - every packet
   before the first altered / missing / duplicated / reordered / inserted one, and nothing after -
   and the receiver is still running only if nothing at all was altered *)
Theorem tamper_evident content s0 N items :
  0 <= s0 -> N < M32 -> 0 <= N -> Forall (in_epoch s0 N) items ->
  let r := rx_run content s0 items in
  rx_out r = contents content s0 (intact s0 items) /\
  (rx_st r = Running <-> intact s0 items = length items).
Proof.
  intros H0 HN HN0 Hall r. subst r. unfold rx_run.
  destruct (run_from content s0 N items s0 [] HN) as [A B]; [lia|exact Hall|].
  simpl in A. split; assumption.
Qed.

(* the honest stream is delivered completely *)
Lemma intact_honest start n : intact start (honest_from start n) = n.
Proof.
  revert start; induction n as [|n IH]; intros start; simpl; [reflexivity|].
  rewrite Z.eqb_refl. f_equal. apply IH.
Qed.

Lemma honest_length start n : length (honest_from start n) = n.
Proof. revert start; induction n; intros; simpl; auto. Qed.

Lemma honest_in_epoch s0 n : forall k, (k <= n)%nat ->
  Forall (in_epoch s0 (Z.of_nat n)) (honest_from (s0 + Z.of_nat (n - k)) k).
Proof.
  induction k as [|k IH]; intros Hk; simpl; [constructor|].
  constructor; [simpl; lia|].
  replace (s0 + Z.of_nat (n - S k) + 1) with (s0 + Z.of_nat (n - k)) by lia.
  apply IH. lia.
Qed.

Theorem honest_delivered content s0 n :
  0 <= s0 -> Z.of_nat n < M32 ->
  let r := rx_run content s0 (honest_from s0 n) in
  rx_out r = contents content s0 n /\ rx_st r = Running.
Proof.
  intros H0 HN r.
  assert (Hall : Forall (in_epoch s0 (Z.of_nat n)) (honest_from s0 n)).
  { pose proof (honest_in_epoch s0 n n (le_n n)) as H. replace (n - n)%nat with 0%nat in H by lia.
    replace (s0 + Z.of_nat 0) with s0 in H by lia. exact H. }
  destruct (tamper_evident content s0 (Z.of_nat n) (honest_from s0 n) H0 HN ltac:(lia) Hall) as [A B].
  rewrite intact_honest in A, B. rewrite honest_length in B.
  split; [exact A|apply B; reflexivity].
Qed.

(* without the 2^32 bound the statement is false: after a full wrap the very first packet replays *)
Theorem wraparound_replay_refuted :
  exists content items, rx_out (rx_run content (M32 - 1) items) <> contents content (M32 - 1) (intact (M32 - 1) items).
Proof.
  exists (fun i => [i]), [Orig (M32 - 1); Orig 0]. vm_compute. discriminate.
Qed.
