(* Proofs about Model/Rekey.v (property C11). *)
From AV Require Import Base.Prelude Model.Packet Model.Rekey.

(* ---- scanners over an appended element -------------------------------------------------------- *)
Lemma fold_left_snoc {A B} (f : A -> B -> A) l x a : fold_left f (l ++ [x]) a = f (fold_left f l a) x.
Proof. rewrite fold_left_app. reflexivity. Qed.

Definition types (n : sndst) : list Z := map (fun w => p_ty (w_pkt w)) (wire n).
Definition pkts (n : sndst) : list pkt := map w_pkt (wire n).
Definition stamped (e : env) (w : wrec) : Prop := w_epoch w = e_epoch e /\ w_keys w = e_keys e.

(* ---- emit ------------------------------------------------------------------------------------- *)
Lemma emit_wire e p n : exists w, wire (emit e p n) = wire n ++ [w] /\ w_pkt w = p /\ stamped e w.
Proof. eexists. split; [reflexivity|]. split; [reflexivity|split; reflexivity]. Qed.

(* ---- the complete case analysis of one send_packet call --------------------------------------- *)
Definition sp_spec (c : cfg) (e : env) (p : pkt) (n n' : sndst) (Y : list wrec) : Prop :=
  wire n' = wire n ++ Y /\ Forall (stamped e) Y /\ (future n = [] -> future n' = []) /\
  ((kex_complete n' = kex_complete n /\ kexinit_sent n' = kexinit_sent n /\
    ((map w_pkt Y = [] /\ deferred n' = deferred n ++ [p] /\ defer_cond e (kex_complete n) (p_ty p) = true) \/
     ((map w_pkt Y = [p] \/ (map w_pkt Y = [IGN_pkt; p] /\ (MSG_KEX_LAST <? p_ty p) = true)) /\
      deferred n' = deferred n /\ defer_cond e (kex_complete n) (p_ty p) = false)))
   \/
   (kex_complete n = true /\ e_auth_complete e = true /\ kex_complete n' = false /\ kexinit_sent n' = true /\
    ((map w_pkt Y = [KEXINIT_pkt c] /\ deferred n' = deferred n ++ [p] /\ defer_cond e false (p_ty p) = true) \/
     (map w_pkt Y = [KEXINIT_pkt c; p] /\ deferred n' = deferred n /\ defer_cond e false (p_ty p) = false /\
      (MSG_KEX_LAST <? p_ty p) = false) \/
     (map w_pkt Y = [KEXINIT_pkt c; IGN_pkt; p] /\ deferred n' = deferred n /\
      (legacy c = true /\ future n <> []) /\ defer_cond e true (p_ty p) = false)))).

Lemma kexdef_big t : (MSG_KEX_LAST <? t) = true -> kex_deferrable t = true.
Proof. intros H. unfold kex_deferrable. rewrite H. repeat rewrite orb_true_r. reflexivity. Qed.


(* ---- send_pre: either nothing happens (but the clock may have been read) or a KEXINIT goes out -- *)
Definition pre_quiet (n n1 : sndst) : Prop :=
  kex_complete n1 = kex_complete n /\ kexinit_sent n1 = kexinit_sent n /\ wire n1 = wire n /\
  deferred n1 = deferred n /\ (future n = [] -> n1 = n).
Definition pre_fired (c : cfg) (e : env) (n n1 : sndst) : Prop :=
  kex_complete n = true /\ e_auth_complete e = true /\
  (exists w, wire n1 = wire n ++ [w] /\ w_pkt w = KEXINIT_pkt c /\ stamped e w) /\
  kex_complete n1 = false /\ kexinit_sent n1 = true /\ deferred n1 = deferred n /\
  (future n = [] -> future n1 = []).

Lemma read_clock_same n t n1 : read_clock n = (t, n1) ->
  kex_complete n1 = kex_complete n /\ kexinit_sent n1 = kexinit_sent n /\ wire n1 = wire n /\
  deferred n1 = deferred n /\ rekey_sent n1 = rekey_sent n /\ rekey_time n1 = rekey_time n /\
  send_seq n1 = send_seq n /\ (future n = [] -> n1 = n /\ t = now n).
Proof.
  unfold read_clock. destruct (future n) eqn:Hf; intros H; inversion H; subst; cbn;
    repeat split; try reflexivity; intros; discriminate.
Qed.

Lemma send_kexinit_fired c e n :
  let n1 := send_kexinit c e n in
  (exists w, wire n1 = wire n ++ [w] /\ w_pkt w = KEXINIT_pkt c /\ stamped e w) /\
  kex_complete n1 = false /\ kexinit_sent n1 = kexinit_sent n /\ deferred n1 = deferred n /\
  (future n = [] -> future n1 = []).
Proof.
  unfold send_kexinit. destruct (rekey_seconds c =? 0).
  - cbn. split; [eexists; split; [reflexivity|split; [reflexivity|split; reflexivity]]|].
    repeat split; auto.
  - destruct (read_clock (set_rekey_sent 0 (set_kex_complete false n))) as [t n2] eqn:Hr.
    apply read_clock_same in Hr. cbn in Hr. destruct Hr as (A & B & C & D & _ & _ & _ & F).
    cbn. rewrite A, B, C, D.
    split; [eexists; split; [reflexivity|split; [reflexivity|split; reflexivity]]|].
    repeat split; auto. intros Hf. destruct (F Hf) as [-> _]. cbn. exact Hf.
Qed.

Lemma send_pre_spec c e ty n : pre_quiet n (send_pre c e ty n) \/ pre_fired c e n (send_pre c e ty n).
Proof.
  unfold send_pre, trigger.
  assert (Q0 : pre_quiet n n) by (repeat split; auto).
  assert (FIRE : forall n0, kex_complete n0 = kex_complete n -> kexinit_sent n0 = kexinit_sent n ->
            wire n0 = wire n -> deferred n0 = deferred n -> (future n = [] -> future n0 = []) ->
            e_auth_complete e && kex_complete n = true ->
            pre_fired c e n (set_kexinit_sent true (send_kexinit c e n0))).
  { intros n0 A B C D F Hac. apply andb_true_iff in Hac as [Ha Hk].
    pose proof (send_kexinit_fired c e n0) as K. cbn zeta in K.
    destruct K as ((w & W1 & W2 & W3) & K2 & K3 & K4 & K5).
    unfold pre_fired, set_kexinit_sent. cbn [wire kex_complete kexinit_sent deferred future].
    split; [exact Hk|]. split; [exact Ha|]. split; [exists w; rewrite W1, C; auto|].
    split; [exact K2|]. split; [reflexivity|]. split; [congruence|]. intros Hf; apply K5; auto. }
  destruct (e_auth_complete e && kex_complete n) eqn:Hac; [|left; exact Q0].
  destruct (legacy c || negb (ty =? MSG_IGNORE)); [|left; exact Q0]. cbn [andb].
  destruct (rekey_bytes c <=? rekey_sent n).
  - right. apply FIRE; auto.
  - destruct (rekey_seconds c =? 0); [left; exact Q0|].
    destruct (read_clock n) as [t n1] eqn:Hr. apply read_clock_same in Hr.
    destruct Hr as (A & B & C & D & _ & _ & _ & F).
    destruct (rekey_time n1 <=? t).
    + right. apply FIRE; auto. intros Hf. destruct (F Hf) as [-> _]. exact Hf.
    + left. repeat split; auto. intros Hf. apply F. exact Hf.
Qed.

(* with a steady clock, re-evaluating the trigger on an unchanged state gives the same answer *)
Lemma send_pre_idem c e ty n : future n = [] -> pre_quiet n (send_pre c e ty n) -> send_pre c e ty n = n.
Proof. intros Hf (_ & _ & _ & _ & H). auto. Qed.

Lemma send_pre_legacy_ty c e t1 t2 n : legacy c = true -> send_pre c e t1 n = send_pre c e t2 n.
Proof. intros L. unfold send_pre, trigger. rewrite L. reflexivity. Qed.

(* since 97cb05d the trigger is not evaluated for MSG_IGNORE *)
Lemma send_pre_ignore c e n : legacy c = false -> send_pre c e MSG_IGNORE n = n.
Proof. intros L. unfold send_pre, trigger. rewrite L. cbn. rewrite andb_false_r. reflexivity. Qed.

Ltac prj := cbn [wire kex_complete kexinit_sent deferred future send_seq rekey_sent rekey_time now
                 set_deferred set_kexinit_sent set_kex_complete set_rekey_sent set_rekey_time set_now set_future
                 set_cmp_seen cmp_seen w_pkt w_epoch w_keys w_cmp map].

Lemma stamped_mk e p q l x : stamped e (mkW p q (e_epoch e) (e_keys e) l x).
Proof. split; reflexivity. Qed.

Lemma send_packet_spec c e p n : exists Y, sp_spec c e p n (send_packet c e p n) Y.
Proof.
  unfold send_packet.
  destruct (send_pre_spec c e (p_ty p) n) as [Q|F]; set (n1 := send_pre c e (p_ty p) n) in *.
  - destruct Q as (A & B & C & D & E). rewrite A.
    destruct (defer_cond e (kex_complete n) (p_ty p)) eqn:Hd.
    + exists []. unfold sp_spec. prj.
      split; [rewrite app_nil_r; exact C|]. split; [constructor|].
      split; [intros Hf; rewrite (E Hf); exact Hf|].
      left. split; [exact A|]. split; [exact B|]. left. rewrite D. auto.
    + destruct (encrypting e && (MSG_KEX_LAST <? p_ty p)) eqn:Hi.
      * apply andb_true_iff in Hi as [_ Hbig].
        unfold send_ignore. destruct (send_pre_spec c e MSG_IGNORE n1) as [Q2|F2]; set (n2 := send_pre c e MSG_IGNORE n1) in *.
        -- destruct Q2 as (A2 & B2 & C2 & D2 & E2).
           eexists [_; _]. unfold sp_spec, emit. prj. rewrite C2, C.
           split; [rewrite <- app_assoc; reflexivity|].
           split; [repeat constructor|].
           split; [intros Hf; rewrite (E2 (eq_trans (f_equal future (E Hf)) Hf)), (E Hf); exact Hf|].
           left. split; [congruence|]. split; [congruence|]. right.
           split; [right; auto|]. split; [congruence|exact Hd].
        -- destruct F2 as (K & Ha & (w & W1 & W2 & W3) & K2 & K3 & K4 & K5).
           eexists (w :: [_; _]).
           assert (NS : legacy c = true /\ future n <> []).
           { split.
             - (* the fixed code never fires for the IGNORE *)
               destruct (legacy c) eqn:L; [reflexivity|]. unfold n2 in K2. rewrite (send_pre_ignore c e n1 L) in K2. congruence.
             - (* steady clock: the first evaluation did not fire, so neither does the second *)
               intros Hf. pose proof (E Hf) as I.
               destruct (legacy c) eqn:L; [|unfold n2 in K2; rewrite (send_pre_ignore c e n1 L) in K2; congruence].
               (* legacy code: the trigger ignores the type; same state, same clock, same answer *)
               assert (I2 : n2 = n).
               { unfold n2. rewrite (send_pre_legacy_ty c e MSG_IGNORE (p_ty p) n1 L). rewrite I. exact I. }
               rewrite I2 in K2. congruence. }
           unfold sp_spec, emit. prj. rewrite W1, C.
           split; [repeat rewrite <- app_assoc; reflexivity|].
           split; [constructor; [exact W3|repeat constructor]|].
           split; [intros Hf; destruct NS as [_ NS]; contradiction|].
           right. rewrite <- A. split; [exact K|]. split; [exact Ha|]. split; [exact K2|]. split; [exact K3|].
           right. right. rewrite W2. split; [reflexivity|]. split; [congruence|].
           split; [exact NS|rewrite <- K, A; exact Hd].
      * eexists [_]. unfold sp_spec, emit. prj. rewrite C.
        split; [reflexivity|]. split; [repeat constructor|].
        split; [intros Hf; rewrite (E Hf); exact Hf|].
        left. split; [exact A|]. split; [exact B|]. right. split; [left; reflexivity|]. split; [exact D|exact Hd].
  - destruct F as (K & Ha & (w & W1 & W2 & W3) & K2 & K3 & K4 & K5). rewrite K2.
    destruct (defer_cond e false (p_ty p)) eqn:Hd.
    + exists [w]. unfold sp_spec. prj. split; [exact W1|]. split; [constructor; [exact W3|repeat constructor]|].
      split; [exact K5|]. right. split; [exact K|]. split; [exact Ha|]. split; [exact K2|]. split; [exact K3|].
      left. rewrite W2, K4. auto.
    + assert (Hbig : (MSG_KEX_LAST <? p_ty p) = false).
      { destruct (MSG_KEX_LAST <? p_ty p) eqn:Hb; [|reflexivity].
        unfold defer_cond in Hd. rewrite (kexdef_big _ Hb) in Hd. cbn in Hd. discriminate. }
      rewrite Hbig, andb_false_r.
      eexists [w; _]. unfold sp_spec, emit. prj. rewrite W1.
      split; [rewrite <- app_assoc; reflexivity|]. split; [constructor; [exact W3|repeat constructor]|].
      split; [exact K5|]. right. split; [exact K|]. split; [exact Ha|]. split; [exact K2|]. split; [exact K3|].
      right. left. rewrite W2. auto.
Qed.

(* ---- consequences of the case analysis, one per invariant ------------------------------------- *)
Lemma types_ext n n' Y : wire n' = wire n ++ Y -> types n' = types n ++ map p_ty (map w_pkt Y).
Proof. intros H. unfold types. rewrite H, map_app, map_map. reflexivity. Qed.

Lemma pkts_ext n n' Y : wire n' = wire n ++ Y -> pkts n' = pkts n ++ map w_pkt Y.
Proof. intros H. unfold pkts. rewrite H, map_app. reflexivity. Qed.

Definition mode_ok (stf kc ks ka : bool) : bool :=
  match stf, kc, ks, ka with
  | false, false, false, false | true, true, false, false
  | true, false, true, false | true, false, false, true => true
  | _, _, _, _ => false
  end.

Definition not_kn (t : Z) : bool := negb ((t =? MSG_KEXINIT) || (t =? MSG_NEWKEYS)).

Lemma not_kn_inv t : not_kn t = true -> (t =? MSG_KEXINIT) = false /\ (t =? MSG_NEWKEYS) = false.
Proof. unfold not_kn. intros H. apply negb_true_iff, orb_false_iff in H. exact H. Qed.

Lemma mode_send c e p n stf ka :
  mode_ok stf (kex_complete n) (kexinit_sent n) ka = true ->
  mode_ok stf (kex_complete (send_packet c e p n)) (kexinit_sent (send_packet c e p n)) ka = true.
Proof.
  intros M. destruct (send_packet_spec c e p n) as (Y & _ & _ & _ & [(A & B & _)|(K & _ & K2 & K3 & _)]).
  - rewrite A, B. exact M.
  - rewrite K2, K3. rewrite K in M. destruct stf, (kexinit_sent n), ka; cbn in *; congruence.
Qed.

Lemma alt_other b t : not_kn t = true -> alt_step (Some b) t = Some b.
Proof. intros H. apply not_kn_inv in H as [H1 H2]. unfold alt_step. rewrite H1, H2. reflexivity. Qed.

Lemma mode_kcT stf ks ka : mode_ok stf true ks ka = true -> stf = true /\ ks = false /\ ka = false.
Proof. destruct stf, ks, ka; cbn; intros; try discriminate; auto. Qed.

Lemma alt_ign b : alt_step (Some b) MSG_IGNORE = Some b.
Proof. reflexivity. Qed.

Lemma alt_send c e p n stf ka :
  not_kn (p_ty p) = true ->
  mode_ok stf (kex_complete n) (kexinit_sent n) ka = true ->
  alt_scan (types n) = Some (stf && negb (kex_complete n)) ->
  alt_scan (types (send_packet c e p n)) = Some (stf && negb (kex_complete (send_packet c e p n))).
Proof.
  intros Hp M A0. destruct (send_packet_spec c e p n) as (Y & W & _ & _ & H).
  rewrite (types_ext _ _ _ W). unfold alt_scan in *. rewrite fold_left_app, A0.
  destruct H as [(A & B & [(X & _)|([X|(X & _)] & _)])|(K & _ & K2 & K3 & H)].
  1-3: rewrite X, A; cbn [map fold_left p_ty IGN_pkt]; rewrite ?alt_ign, ?(alt_other _ _ Hp); reflexivity.
  rewrite K in *. apply mode_kcT in M as (-> & _ & _). rewrite K2.
  destruct H as [(X & _)|[(X & _)|(X & _)]]; rewrite X; cbn [map fold_left p_ty IGN_pkt KEXINIT_pkt];
    change (alt_step (Some (true && negb true)) MSG_KEXINIT) with (Some true);
    rewrite ?alt_ign, ?(alt_other _ _ Hp); reflexivity.
Qed.

(* quiet: needs a steady clock (future = []) *)
Lemma quiet_other b t : not_kn t = true -> (b && negb (quiet_ty t)) = false -> quiet_step (Some b) t = Some b.
Proof. intros H Q. apply not_kn_inv in H as [H1 H2]. unfold quiet_step. rewrite H1, H2, Q. reflexivity. Qed.

Lemma quiet_ign b : quiet_step (Some b) MSG_IGNORE = Some b.
Proof. destruct b; reflexivity. Qed.

Lemma defer_false_quiet e t : defer_cond e false t = false -> quiet_ty t = true.
Proof.
  unfold defer_cond, quiet_ty. intros H. apply orb_false_iff in H as [H _]. apply orb_false_iff in H as [H _].
  rewrite andb_true_r in H. rewrite H. reflexivity.
Qed.

Lemma quiet_send c e p n stf ka :
  legacy c = false -> not_kn (p_ty p) = true ->
  mode_ok stf (kex_complete n) (kexinit_sent n) ka = true ->
  quiet_scan (types n) = Some (stf && negb (kex_complete n)) ->
  quiet_scan (types (send_packet c e p n)) = Some (stf && negb (kex_complete (send_packet c e p n))).
Proof.
  intros L Hp M A0. destruct (send_packet_spec c e p n) as (Y & W & _ & _ & H).
  rewrite (types_ext _ _ _ W). unfold quiet_scan in *. rewrite fold_left_app, A0.
  destruct H as [(A & B & [(X & _)|([X|(X & Hbig)] & _ & Hd)])|(K & _ & K2 & K3 & H)].
  - rewrite X, A. reflexivity.
  - rewrite X, A. cbn [map fold_left]. rewrite (quiet_other _ _ Hp); [reflexivity|].
    destruct (kex_complete n); [rewrite andb_false_r; reflexivity|].
    rewrite (defer_false_quiet _ _ Hd). rewrite andb_false_r. reflexivity.
  - rewrite X, A. cbn [map fold_left p_ty IGN_pkt]. rewrite quiet_ign. rewrite (quiet_other _ _ Hp); [reflexivity|].
    destruct (kex_complete n); [rewrite andb_false_r; reflexivity|].
    rewrite (defer_false_quiet _ _ Hd). rewrite andb_false_r. reflexivity.
  - rewrite K in *. apply mode_kcT in M as (-> & _ & _). rewrite K2.
    destruct H as [(X & _)|[(X & _ & Hd & _)|(X & _ & (L' & _) & _)]].
    + rewrite X. reflexivity.
    + rewrite X. cbn [map fold_left p_ty KEXINIT_pkt].
      change (quiet_step (Some (true && negb true)) MSG_KEXINIT) with (Some true).
      rewrite (quiet_other _ _ Hp); [reflexivity|]. rewrite (defer_false_quiet _ _ Hd). reflexivity.
    + congruence.
Qed.

(* order of session packets *)
Definition Jn (e : env) (n : sndst) : Prop :=
  kex_complete n && e_auth_complete e = true -> filter sess (deferred n) = [].

Lemma sess_big p : sess p = true -> (MSG_KEX_LAST <? p_ty p) = true.
Proof. unfold sess, MSG_USERAUTH_LAST, MSG_KEX_LAST. intros H. apply Z.ltb_lt in H. apply Z.ltb_lt. lia. Qed.

Lemma defer_sess_false e kc p : sess p = true -> defer_cond e kc (p_ty p) = false ->
  kc = true /\ e_auth_complete e = true.
Proof.
  intros S D. unfold defer_cond in D. apply orb_false_iff in D as [D D3]. apply orb_false_iff in D as [D1 _].
  rewrite (kexdef_big _ (sess_big _ S)) in D1. unfold sess in S. rewrite S in D3.
  destruct kc, (e_auth_complete e); cbn in *; auto; discriminate.
Qed.

Lemma defer_passable e t : e_auth_complete e = true -> defer_cond e true t = false.
Proof.
  intros H. unfold defer_cond. rewrite H, orb_true_r. cbn. rewrite !andb_false_r. reflexivity.
Qed.

Lemma order_send c e p n : sess p = false \/ Jn e n ->
  filter sess (pkts (send_packet c e p n)) ++ filter sess (deferred (send_packet c e p n))
  = (filter sess (pkts n) ++ filter sess (deferred n)) ++ filter sess [p].
Proof.
  intros HJ. destruct (send_packet_spec c e p n) as (Y & W & _ & _ & H).
  rewrite (pkts_ext _ _ _ W), filter_app.
  assert (WR : forall X, map w_pkt Y = X -> filter sess X = filter sess [p] -> deferred (send_packet c e p n) = deferred n ->
            defer_cond e (kex_complete n) (p_ty p) = false \/ (kex_complete n = true /\ defer_cond e true (p_ty p) = false) ->
            (filter sess (pkts n) ++ filter sess (map w_pkt Y)) ++ filter sess (deferred (send_packet c e p n))
            = (filter sess (pkts n) ++ filter sess (deferred n)) ++ filter sess [p]).
  { intros X HX FX HD Hdc. rewrite HX, FX, HD.
    destruct (sess p) eqn:S.
    - destruct HJ as [HJ|HJ]; [discriminate|].
      assert (kex_complete n = true /\ e_auth_complete e = true) as [Hk Ha].
      { destruct Hdc as [Hdc|[Hk Hdc]]; [exact (defer_sess_false _ _ _ S Hdc)|].
        split; [exact Hk|]. exact (proj2 (defer_sess_false _ _ _ S Hdc)). }
      rewrite (HJ ltac:(rewrite Hk, Ha; reflexivity)). rewrite !app_nil_r. reflexivity.
    - cbn [filter]. rewrite S. rewrite !app_nil_r. reflexivity. }
  destruct H as [(A & B & [(X & D & _)|([X|(X & _)] & D & Hd)])|(K & _ & K2 & K3 & [(X & D & _)|[(X & D & Hd & _)|(X & D & _ & Hd)]])].
  - rewrite X, D, filter_app. cbn [filter]. rewrite app_nil_r, app_assoc. reflexivity.
  - apply (WR _ X); auto.
  - apply (WR _ X); auto.
  - rewrite X, D, filter_app. cbn. rewrite app_nil_r, app_assoc. reflexivity.
  - apply (WR _ X); auto. right. split; [exact K|].
    destruct (sess p) eqn:S; [|]. 
    + destruct (defer_sess_false _ _ _ S Hd) as [Hc _]. discriminate.
    + (* not a session packet: only the third clause of defer_cond matters for kc = true *)
      unfold defer_cond in *. unfold sess in S. rewrite S in *. cbn. rewrite !andb_false_r. cbn.
      apply orb_false_iff in Hd as [Hd _]. apply orb_false_iff in Hd as [_ Hd]. rewrite Hd. reflexivity.
  - apply (WR _ X); auto.
Qed.

Lemma Jn_send c e p n : Jn e n -> Jn e (send_packet c e p n).
Proof.
  intros HJ. destruct (send_packet_spec c e p n) as (Y & _ & _ & _ & H). unfold Jn in *.
  destruct H as [(A & B & [(X & D & Hd)|(_ & D & _)])|(K & _ & K2 & _)].
  - rewrite A, D. intros Hp. apply andb_true_iff in Hp as [Hk Ha]. rewrite Hk in Hd.
    rewrite (defer_passable _ _ Ha) in Hd. discriminate.
  - rewrite A, D. exact HJ.
  - rewrite K2. cbn. discriminate.
Qed.

(* epochs and keys of what is written *)
Lemma epoch_ext (m : Z) Y l : epoch_scan l = Some m ->
  Forall (fun w => w_epoch w = m /\ (p_ty (w_pkt w) =? MSG_NEWKEYS) = false) Y ->
  epoch_scan (l ++ Y) = Some m.
Proof.
  unfold epoch_scan. intros H F. rewrite fold_left_app, H. clear H.
  induction F as [|w Y [E T] _ IH]; [reflexivity|].
  cbn [fold_left epoch_step]. rewrite E, Z.eqb_refl, T. exact IH.
Qed.

Lemma new_not_newkeys c e p n : not_kn (p_ty p) = true ->
  exists Y, wire (send_packet c e p n) = wire n ++ Y /\
            Forall (fun w => stamped e w /\ (p_ty (w_pkt w) =? MSG_NEWKEYS) = false) Y.
Proof.
  intros Hp. apply not_kn_inv in Hp as [_ Hp].
  destruct (send_packet_spec c e p n) as (Y & W & S & _ & H). exists Y. split; [exact W|].
  assert (G : Forall (fun q => (p_ty q =? MSG_NEWKEYS) = false) (map w_pkt Y)).
  { destruct H as [(_ & _ & [(X & _)|([X|(X & _)] & _)])|(_ & _ & _ & _ & [(X & _)|[(X & _)|(X & _)]])];
      rewrite X; repeat constructor; auto. }
  clear H W. induction S as [|w Y Sw _ IH]; [constructor|].
  inversion G; subst. constructor; auto.
Qed.

Lemma epoch_send c e p n : not_kn (p_ty p) = true ->
  epoch_scan (wire n) = Some (e_epoch e) -> epoch_scan (wire (send_packet c e p n)) = Some (e_epoch e).
Proof.
  intros Hp H. destruct (new_not_newkeys c e p n Hp) as (Y & W & F). rewrite W.
  apply epoch_ext; [exact H|]. eapply Forall_impl; [|exact F]. intros w [[E _] T]. auto.
Qed.

Lemma keyed_send c e p n (f : Z -> option keys) : not_kn (p_ty p) = true ->
  e_keys e = f (e_epoch e) ->
  Forall (fun w => w_keys w = f (w_epoch w)) (wire n) ->
  Forall (fun w => w_keys w = f (w_epoch w)) (wire (send_packet c e p n)).
Proof.
  intros Hp Hk H. destruct (new_not_newkeys c e p n Hp) as (Y & W & F). rewrite W.
  apply Forall_app. split; [exact H|]. eapply Forall_impl; [|exact F].
  intros w [[E K] _]. rewrite K, E. exact Hk.
Qed.

Lemma bounded_send c e p n (m : Z) : not_kn (p_ty p) = true -> e_epoch e <= m ->
  Forall (fun w => w_epoch w <= m) (wire n) -> Forall (fun w => w_epoch w <= m) (wire (send_packet c e p n)).
Proof.
  intros Hp Hm H. destruct (new_not_newkeys c e p n Hp) as (Y & W & F). rewrite W.
  apply Forall_app. split; [exact H|]. eapply Forall_impl; [|exact F].
  intros w [[E _] _]. rewrite E. exact Hm.
Qed.

(* ---- _send_deferred_packets: anything send_packet preserves, the flush preserves -------------- *)
Lemma fold_send_inv c e (P : sndst -> Prop) :
  (forall p n, P n -> P (send_packet c e p n)) ->
  forall q n, P n -> P (fold_left (fun acc p => send_packet c e p acc) q n).
Proof. intros H q. induction q as [|p q IH]; intros n Pn; cbn; auto. Qed.

Lemma fold_send_inv_q c e (Q : pkt -> Prop) (P : sndst -> Prop) :
  (forall p n, Q p -> P n -> P (send_packet c e p n)) ->
  forall q n, Forall Q q -> P n -> P (fold_left (fun acc p => send_packet c e p acc) q n).
Proof.
  intros H q. induction q as [|p q IH]; intros n F Pn; cbn; auto.
  inversion F; subst. apply IH; auto.
Qed.

Lemma fold_order c e q : forall n, Jn e n ->
  let n' := fold_left (fun acc p => send_packet c e p acc) q n in
  filter sess (pkts n') ++ filter sess (deferred n') = (filter sess (pkts n) ++ filter sess (deferred n)) ++ filter sess q
  /\ Jn e n'.
Proof.
  induction q as [|p q IH]; intros n HJ; cbn [fold_left].
  - cbn. rewrite app_nil_r. auto.
  - destruct (IH (send_packet c e p n) (Jn_send c e p n HJ)) as [E J2]. cbn zeta in *.
    split; [|exact J2]. rewrite E, (order_send c e p n (or_intror HJ)).
    cbn [filter]. destruct (sess p); cbn; rewrite <- ?app_assoc; reflexivity.
Qed.

Lemma flush_order c e n :
  filter sess (pkts (flush c e n)) ++ filter sess (deferred (flush c e n))
  = filter sess (pkts n) ++ filter sess (deferred n) /\ Jn e (flush c e n).
Proof.
  unfold flush. destruct (fold_order c e (deferred n) (set_deferred [] n)) as [E J].
  - intros _. reflexivity.
  - cbn zeta in *. split; [|exact J]. rewrite E. cbn. rewrite app_nil_r. reflexivity.
Qed.

Lemma defer_not_kn e kc t : defer_cond e kc t = true -> not_kn t = true.
Proof.
  unfold defer_cond, not_kn, kex_deferrable, MSG_DEBUG, MSG_SERVICE_REQUEST, MSG_SERVICE_ACCEPT, MSG_KEX_LAST,
    MSG_USERAUTH_BANNER, MSG_USERAUTH_LAST, MSG_KEXINIT, MSG_NEWKEYS.
  intros H. destruct (t =? 20) eqn:E1; [apply Z.eqb_eq in E1; subst; cbn in H; discriminate|].
  destruct (t =? 21) eqn:E2; [apply Z.eqb_eq in E2; subst; cbn in H; discriminate|]. reflexivity.
Qed.

Lemma dq_send c e p n : Forall (fun q => not_kn (p_ty q) = true) (deferred n) ->
  Forall (fun q => not_kn (p_ty q) = true) (deferred (send_packet c e p n)).
Proof.
  intros H. destruct (send_packet_spec c e p n) as (Y & _ & _ & _ & G).
  destruct G as [(_ & _ & [(_ & D & Hd)|(_ & D & _)])|(_ & _ & _ & _ & [(_ & D & Hd)|[(_ & D & _)|(_ & D & _)]])];
    rewrite D; auto; apply Forall_app; split; auto; constructor; auto; eapply defer_not_kn; eauto.
Qed.

(* ---- the send-state invariants bundled -------------------------------------------------------- *)
Record SI (e : env) (stf ka : bool) (n : sndst) : Prop := mkSI {
  si_mode : mode_ok stf (kex_complete n) (kexinit_sent n) ka = true;
  si_alt : alt_scan (types n) = Some (stf && negb (kex_complete n));
  si_epoch : epoch_scan (wire n) = Some (e_epoch e);
  si_dq : Forall (fun q => not_kn (p_ty q) = true) (deferred n) }.

Lemma SI_send c e stf ka p n : not_kn (p_ty p) = true -> SI e stf ka n -> SI e stf ka (send_packet c e p n).
Proof.
  intros Hp [M A E D]. constructor.
  - apply mode_send; exact M.
  - eapply alt_send; eauto.
  - apply epoch_send; auto.
  - apply dq_send; auto.
Qed.

Lemma SI_flush c e stf ka n : SI e stf ka n -> SI e stf ka (flush c e n).
Proof.
  intros H. unfold flush.
  apply (fold_send_inv_q c e (fun q => not_kn (p_ty q) = true) (SI e stf ka)).
  - intros p m Hp Hm. apply SI_send; auto.
  - exact (si_dq _ _ _ _ H).
  - destruct H as [M A E D]. constructor; auto. constructor.
Qed.

Lemma SI_env e e' stf ka n : e_epoch e' = e_epoch e -> SI e stf ka n -> SI e' stf ka n.
Proof. intros H [M A E D]. constructor; auto. rewrite H. exact E. Qed.

Arguments send_packet : simpl never.
Arguments flush : simpl never.
Arguments send_kexinit : simpl never.
Arguments emit : simpl never.
Arguments mk_keys : simpl never.
Arguments pad_len : simpl never.

(* env_of only looks at fields the send path never writes *)
Lemma env_set_sn v s : env_of (set_sn v s) = env_of s. Proof. reflexivity. Qed.
Lemma env_set_asked v s : env_of (set_asked v s) = env_of s. Proof. reflexivity. Qed.
Lemma env_set_err v s : env_of (set_err v s) = env_of s. Proof. reflexivity. Qed.
Lemma env_set_started v s : env_of (set_started v s) = env_of s. Proof. reflexivity. Qed.
Lemma env_set_kex_active v s : env_of (set_kex_active v s) = env_of s. Proof. reflexivity. Qed.
Lemma env_set_sid v s : env_of (set_sid v s) = env_of s. Proof. reflexivity. Qed.
Lemma env_install_recv v s : env_of (install_recv v s) = env_of s. Proof. reflexivity. Qed.
Global Hint Rewrite env_set_sn env_set_asked env_set_err env_set_started env_set_kex_active env_set_sid
  env_install_recv : envdb.

Ltac stcbn := cbn [do_send do_flush set_asked set_sn set_err set_started set_kex_active set_auth set_markers
                   set_sid install_send install_recv started kex_active auth_in_progress auth_complete can_ext
                   strict sid send_keys send_hdr send_bs send_epoch send_cmp staged recv_keys recv_epoch hist asked err sn];
              autorewrite with envdb.

(* ---- whole-connection invariant ---------------------------------------------------------------- *)
Section Inv.
  Variable Hf : bytes -> bytes.
  Variable c : cfg.

  Definition ord (s : st) : list pkt := filter sess (pkts (sn s)) ++ filter sess (deferred (sn s)).

  Record Inv (s : st) : Prop := mkInv {
    inv_si : SI (env_of s) (started s) (kex_active s) (sn s);
    inv_order : ord s = filter sess (asked s);
    inv_J : Jn (env_of s) (sn s);
    inv_hist : Z.of_nat (length (hist s)) = send_epoch s;
    inv_recv : 0 <= recv_epoch s <= send_epoch s /\ (staged s <> None -> recv_epoch s < send_epoch s) }.

  Lemma Inv_init : Inv init.
  Proof. constructor; cbn; try reflexivity; try lia. - constructor; try reflexivity. constructor. - intros _; reflexivity. - split; [lia|]. intros H; congruence. Qed.

  Lemma Inv_clock s ts : Inv s -> Inv (set_sn (set_future ts (sn s)) s).
  Proof. intros [[M A E D] O J H R]. constructor; auto. constructor; auto. Qed.

  Lemma Inv_tick s t : Inv s -> Inv (set_sn (set_now t (sn s)) s).
  Proof. intros [[M A E D] O J H R]. constructor; auto. constructor; auto. Qed.

  Lemma Inv_err s x : Inv s -> Inv (set_err x s).
  Proof. intros [[M A E D] O J H R]. constructor; auto. constructor; auto. Qed.

  Lemma Inv_send s p : not_kn (p_ty p) = true -> Inv s -> Inv (do_send c p (set_asked (asked s ++ [p]) s)).
  Proof.
    intros Hp [S O J H R]. constructor; unfold ord in *; stcbn; auto.
    - apply SI_send; auto.
    - rewrite (order_send c (env_of s) p (sn s) (or_intror J)).
      rewrite O, filter_app. reflexivity.
    - apply Jn_send; exact J.
  Qed.

  Lemma Inv_flush s : SI (env_of s) (started s) (kex_active s) (sn s) -> ord s = filter sess (asked s) ->
    Z.of_nat (length (hist s)) = send_epoch s ->
    (0 <= recv_epoch s <= send_epoch s /\ (staged s <> None -> recv_epoch s < send_epoch s)) ->
    Inv (do_flush c s).
  Proof.
    intros S O H R. destruct (flush_order c (env_of s) (sn s)) as [E J].
    constructor; unfold ord in *; stcbn; auto.
    - apply SI_flush; exact S.
    - rewrite E. exact O.
  Qed.
End Inv.

(* ---- KEXINIT outside send_packet (version line, answering the peer) ----------------------------- *)
Lemma types_snoc n n1 w : wire n1 = wire n ++ [w] -> types n1 = types n ++ [p_ty (w_pkt w)].
Proof. intros H. rewrite (types_ext _ _ _ H). reflexivity. Qed.

Lemma mode_F kc ks ka : mode_ok false kc ks ka = true -> kc = false /\ ks = false /\ ka = false.
Proof. destruct kc, ks, ka; cbn; intros; try discriminate; auto. Qed.

Lemma SI_kexinit_start c e n :
  SI e false false n -> SI e true false (set_kexinit_sent true (send_kexinit c e n)).
Proof.
  intros [M A E D]. apply mode_F in M as (Hk & Hs & _).
  destruct (send_kexinit_fired c e n) as ((w & W1 & W2 & W3) & K2 & K3 & K4 & _).
  constructor; prj.
  - rewrite K2. reflexivity.
  - change (types (set_kexinit_sent true (send_kexinit c e n))) with (types (send_kexinit c e n)).
    rewrite (types_snoc _ _ _ W1), W2. unfold alt_scan in *. rewrite fold_left_snoc, A, K2. reflexivity.
  - rewrite W1. apply epoch_ext; [exact E|]. constructor; [|constructor]. rewrite W2. split; [apply W3|reflexivity].
  - rewrite K4. exact D.
Qed.

Lemma SI_kexinit_answer c e n :
  SI e true false n -> kexinit_sent n = false -> SI e true true (send_kexinit c e n).
Proof.
  intros [M A E D] Hs. rewrite Hs in M.
  assert (Hk : kex_complete n = true) by (destruct (kex_complete n); cbn in M; congruence).
  destruct (send_kexinit_fired c e n) as ((w & W1 & W2 & W3) & K2 & K3 & K4 & _).
  constructor.
  - rewrite K2, K3, Hs. reflexivity.
  - rewrite (types_snoc _ _ _ W1), W2. unfold alt_scan in *. rewrite fold_left_snoc, A, K2, Hk. reflexivity.
  - rewrite W1. apply epoch_ext; [exact E|]. constructor; [|constructor]. rewrite W2. split; [apply W3|reflexivity].
  - rewrite K4. exact D.
Qed.

Lemma SI_kexinit_cross e n :
  SI e true false n -> kexinit_sent n = true -> SI e true true (set_kexinit_sent false n).
Proof.
  intros [M A E D] Hs. rewrite Hs in M.
  assert (Hk : kex_complete n = false) by (destruct (kex_complete n); cbn in M; congruence).
  constructor; prj; auto; rewrite Hk; reflexivity.
Qed.

Lemma ord_kexinit c e n :
  filter sess (pkts (send_kexinit c e n)) ++ filter sess (deferred (send_kexinit c e n))
  = filter sess (pkts n) ++ filter sess (deferred n) /\ kex_complete (send_kexinit c e n) = false.
Proof.
  destruct (send_kexinit_fired c e n) as ((w & W1 & W2 & W3) & K2 & K3 & K4 & _).
  split; [|exact K2]. rewrite (pkts_ext _ _ _ W1), K4, filter_app. cbn [map filter]. rewrite W2.
  cbn. rewrite app_nil_r. reflexivity.
Qed.

(* a packet that is not deferrable and gets no IGNORE, sent while an exchange is running: just emit *)
Lemma send_packet_plain c e p n : kex_complete n = false -> defer_cond e false (p_ty p) = false ->
  (MSG_KEX_LAST <? p_ty p) = false -> send_packet c e p n = emit e p n.
Proof.
  intros Hk Hd Hb. unfold send_packet, send_pre, trigger. rewrite Hk, andb_false_r. cbn [andb kex_complete].
  rewrite Hk, Hd, Hb, andb_false_r. reflexivity.
Qed.

Lemma types_emit e p n : types (emit e p n) = types n ++ [p_ty p].
Proof. unfold types, emit; prj. rewrite map_app. reflexivity. Qed.
Lemma pkts_emit e p n : pkts (emit e p n) = pkts n ++ [p].
Proof. unfold pkts, emit; prj. rewrite map_app. reflexivity. Qed.
Lemma deferred_emit e p n : deferred (emit e p n) = deferred n. Proof. reflexivity. Qed.
Lemma kc_emit e p n : kex_complete (emit e p n) = kex_complete n. Proof. reflexivity. Qed.
Lemma ks_emit e p n : kexinit_sent (emit e p n) = kexinit_sent n. Proof. reflexivity. Qed.
Lemma future_emit e p n : future (emit e p n) = future n. Proof. reflexivity. Qed.
Lemma epoch_emit e p n m : epoch_scan (wire n) = Some m -> e_epoch e = m ->
  epoch_scan (wire (emit e p n)) = Some (if p_ty p =? MSG_NEWKEYS then m + 1 else m).
Proof.
  intros H E. unfold emit; prj. unfold epoch_scan in *. rewrite fold_left_snoc, H. cbn [epoch_step w_epoch w_pkt].
  rewrite E, Z.eqb_refl. reflexivity.
Qed.

Section Inv2.
  Variable Hf : bytes -> bytes.
  Variable c : cfg.
  Notation Inv := (Inv).

  Lemma Inv_recv_version s : Inv s -> Inv (recv_version c s).
  Proof.
    unfold recv_version. destruct (started s) eqn:St; [auto|].
    intros [S O J H R]. rewrite St in S.
    pose proof (si_mode _ _ _ _ S) as M. apply mode_F in M as (Hk & Hs & Ha). rewrite Ha in S.
    destruct (ord_kexinit c (env_of s) (sn s)) as [OK KK].
    constructor; unfold ord in *; stcbn; auto.
    - rewrite Ha. apply SI_kexinit_start. exact S.
    - change (pkts (set_kexinit_sent true (send_kexinit c (env_of s) (sn s)))) with (pkts (send_kexinit c (env_of s) (sn s))).
      prj. rewrite OK. exact O.
    - unfold Jn; prj. rewrite KK. discriminate.
  Qed.

  Lemma markers_env s v w : e_epoch (env_of (set_markers v w s)) = e_epoch (env_of s) /\
    e_auth_complete (env_of (set_markers v w s)) = e_auth_complete (env_of s).
  Proof. split; reflexivity. Qed.

  Lemma Inv_process_kexinit s ext sp : Inv s -> Inv (process_kexinit c ext sp s).
  Proof.
    unfold process_kexinit. intros I.
    destruct (started s) eqn:St; [|exact I]. cbn [negb].
    destruct (kex_active s || is_some (staged s)) eqn:Kas; [apply Inv_err; exact I|].
    apply orb_false_iff in Kas as [Ka _].
    set (s1 := if is_nil (sid s) then set_markers (can_ext s || ext) (strict s || sp) s else s).
    assert (E1 : e_epoch (env_of s1) = e_epoch (env_of s) /\ e_auth_complete (env_of s1) = e_auth_complete (env_of s)
                 /\ sn s1 = sn s /\ started s1 = true /\ kex_active s1 = false /\ asked s1 = asked s /\ hist s1 = hist s
                 /\ send_epoch s1 = send_epoch s /\ recv_epoch s1 = recv_epoch s /\ staged s1 = staged s).
    { unfold s1. destruct (is_nil (sid s)); repeat split; auto. }
    destruct E1 as (E1 & E2 & E3 & E4 & E5 & E6 & E7 & E8 & E9 & E10).
    destruct I as [S O J H R]. rewrite St, Ka in S.
    assert (S1 : SI (env_of s1) true false (sn s)) by (eapply SI_env; [|exact S]; exact E1).
    rewrite E3.
    destruct (kexinit_sent (sn s)) eqn:Ks.
    - constructor; unfold ord in *; stcbn; rewrite ?E6, ?E7, ?E8, ?E9, ?E10; auto.
      + rewrite E4. apply SI_kexinit_cross; auto.
      + unfold Jn in *; prj. rewrite E2. exact J.
    - destruct (ord_kexinit c (env_of s1) (sn s)) as [OK KK].
      constructor; unfold ord in *; stcbn; rewrite ?E6, ?E7, ?E8, ?E9, ?E10; auto.
      + rewrite E4. apply SI_kexinit_answer; auto.
      + rewrite OK. exact O.
      + unfold Jn; prj. rewrite KK. discriminate.
  Qed.

  Lemma mode_kaT stf kc ks : mode_ok stf kc ks true = true -> stf = true /\ kc = false /\ ks = false.
  Proof. destruct stf, kc, ks; cbn; intros; try discriminate; auto. Qed.

  Lemma Inv_process_newkeys s : Inv s -> Inv (process_newkeys s).
  Proof.
    unfold process_newkeys. intros I. destruct (staged s) eqn:Sg; [|apply Inv_err; exact I].
    destruct I as [S O J H R]. constructor; unfold ord in *; stcbn; auto.
    destruct R as [R1 R2]. rewrite Sg in R2. assert (recv_epoch s < send_epoch s) by (apply R2; discriminate).
    split; [lia|]. intros X; congruence.
  Qed.

  Lemma Inv_auth_done s : Inv s -> Inv (auth_done c s).
  Proof.
    intros [S O J H R]. unfold auth_done. apply Inv_flush; unfold ord in *; stcbn; auto.
    eapply SI_env; [|exact S]. reflexivity.
  Qed.

  Lemma Inv_auth_begin s : Inv s -> Inv (auth_begin c s).
  Proof.
    intros [S O J H R]. unfold auth_begin.
    assert (S1 : SI (env_of (set_auth true (auth_complete s) s)) (started s) (kex_active s) (sn s))
      by (eapply SI_env; [|exact S]; reflexivity).
    destruct (is_client c).
    - constructor; unfold ord in *; stcbn; auto.
    - apply Inv_flush; unfold ord in *; stcbn; auto.
  Qed.

  Lemma do_send_plain s p : kex_complete (sn s) = false -> defer_cond (env_of s) false (p_ty p) = false ->
    (MSG_KEX_LAST <? p_ty p) = false -> do_send c p s = set_sn (emit (env_of s) p (sn s)) s.
  Proof. intros. unfold do_send. rewrite send_packet_plain; auto. Qed.

  (* the end of send_newkeys: service request (client, first exchange), then the flush *)
  Lemma newkeys_tail s4 (first : bool) :
    SI (env_of s4) true false (sn s4) -> ord s4 = filter sess (asked s4) ->
    started s4 = true -> kex_active s4 = false -> Z.of_nat (length (hist s4)) = send_epoch s4 ->
    (0 <= recv_epoch s4 <= send_epoch s4 /\ (staged s4 <> None -> recv_epoch s4 < send_epoch s4)) ->
    Inv (do_flush c (if first then do_send c SVCREQ_pkt s4 else s4)).
  Proof.
    intros S4 O4 T1 T2 T3 T5. destruct first.
    - apply Inv_flush; unfold ord in *; stcbn; auto.
      + rewrite T1, T2. apply SI_send; [reflexivity|exact S4].
      + rewrite (order_send c (env_of s4) SVCREQ_pkt (sn s4) (or_introl eq_refl)).
        cbn [filter sess SVCREQ_pkt p_ty]. cbn. rewrite app_nil_r. exact O4.
    - apply Inv_flush; auto. rewrite T1, T2. exact S4.
  Qed.

  (* the common beginning of the send_newkeys proofs: NEWKEYS goes out under the old keys, the send state [n1]
     right after it has a new (empty) compression context *)
  Ltac nk_open Hk :=
    cbv zeta;
    rewrite (do_send_plain _ NEWKEYS_pkt) by (first [exact Hk | reflexivity]);
    stcbn.

  Lemma Inv_send_newkeys s k h a : Inv s -> Inv (send_newkeys Hf c k h a s).
  Proof.
    unfold send_newkeys. intros I. destruct (kex_active s) eqn:Ka; [|exact I]. cbn [negb].
    destruct I as [S O J H R]. rewrite Ka in S.
    pose proof (si_mode _ _ _ _ S) as M. apply mode_kaT in M as (St & Hk & Hs).
    destruct S as [_ A E D]. rewrite St, Hk in A.
    nk_open Hk.
    match goal with |- context [set_cmp_seen [] ?x] => set (n1 := set_cmp_seen [] x) end.
    assert (A1 : alt_scan (types n1) = Some false).
    { unfold n1. change (types (set_cmp_seen [] ?x)) with (types x).
      rewrite types_emit. unfold alt_scan in *. rewrite fold_left_snoc, A. reflexivity. }
    assert (E1 : epoch_scan (wire n1) = Some (send_epoch s + 1)).
    { unfold n1; prj. rewrite (epoch_emit _ _ _ _ E eq_refl). reflexivity. }
    assert (K1 : filter sess (pkts n1) = filter sess (pkts (sn s))).
    { unfold n1. change (pkts (set_cmp_seen [] ?x)) with (pkts x).
      rewrite pkts_emit, filter_app. cbn. rewrite app_nil_r. reflexivity. }
    assert (F1 : kex_complete n1 = false /\ kexinit_sent n1 = false /\ deferred n1 = deferred (sn s)) by auto.
    destruct F1 as (Hk1 & Hs1 & D1).
    clearbody n1.
    rewrite (do_send_plain _ (EXTINFO_pkt c)) by (first [exact Hk1 | reflexivity]).
    set (sid' := if is_nil (sid s) then h else sid s).
    set (KS := mk_keys Hf (is_client c) k h sid' a). set (NX := mk_keys Hf (negb (is_client c)) k h sid' a).
    set (HD := if is_client c then a_hdr_cs a else a_hdr_sc a). set (BS := if is_client c then a_bs_cs a else a_bs_sc a).
    set (CM := if is_client c then a_cmp_cs a else a_cmp_sc a).
    stcbn.
    destruct R as [R1 R2].
    destruct (can_ext s); apply newkeys_tail; unfold ord in *; stcbn; auto;
      try (rewrite app_length; cbn [length]; lia); try (split; [lia|intros _; lia]).
    - constructor; prj.
      + rewrite !ks_emit, Hs1. reflexivity.
      + change (types (set_kex_complete true ?n)) with (types n). rewrite types_emit.
        unfold alt_scan in *. rewrite fold_left_snoc, A1. reflexivity.
      + rewrite (epoch_emit _ _ _ _ E1); reflexivity.
      + rewrite deferred_emit, D1. exact D.
    - change (pkts (set_kex_complete true ?n)) with (pkts n). prj.
      rewrite pkts_emit, filter_app, K1, deferred_emit, D1. cbn. rewrite app_nil_r. exact O.
    - constructor; prj.
      + rewrite Hs1. reflexivity.
      + change (types (set_kex_complete true ?n)) with (types n). rewrite A1. reflexivity.
      + exact E1.
      + rewrite D1. exact D.
    - change (pkts (set_kex_complete true ?n)) with (pkts n). prj. rewrite K1, D1. exact O.
  Qed.
End Inv2.

(* ---- every operation preserves the invariant --------------------------------------------------- *)
Section Steps.
  Variable Hf : bytes -> bytes.
  Variable c : cfg.

  Lemma ext_ok_send p ts : ext_ok (Send p, ts) = true -> not_kn (p_ty p) = true.
  Proof. intros H. exact H. Qed.

  Lemma Inv_run_act a ts s : ext_ok (a, ts) = true -> Inv s -> Inv (run_act Hf c a s).
  Proof.
    intros X I. destruct a; cbn [run_act].
    - apply Inv_tick; exact I.
    - apply Inv_recv_version; exact I.
    - apply Inv_send; [exact X|exact I].
    - apply Inv_process_kexinit; exact I.
    - apply Inv_send_newkeys; exact I.
    - apply Inv_process_newkeys; exact I.
    - apply Inv_auth_begin; exact I.
    - apply Inv_auth_done; exact I.
  Qed.

  Lemma Inv_step s o : ext_ok o = true -> Inv s -> Inv (step Hf c s o).
  Proof.
    intros X I. unfold step. destruct (err s); [exact I|]. destruct o as [a ts].
    apply Inv_clock. eapply Inv_run_act; [exact X|]. apply Inv_clock. exact I.
  Qed.

  Lemma Inv_run ops : forall s, forallb ext_ok ops = true -> Inv s -> Inv (run Hf c ops s).
  Proof.
    induction ops as [|o ops IH]; intros s X I; [exact I|].
    cbn in X. apply andb_true_iff in X as [X1 X2]. cbn. apply IH; [exact X2|]. apply Inv_step; auto.
  Qed.

  Lemma Inv_reach ops : forallb ext_ok ops = true -> Inv (run Hf c ops init).
  Proof. intros X. apply Inv_run; [exact X|apply Inv_init]. Qed.
End Steps.

(* ---- frame facts for ghost / key fields ---------------------------------------------------------- *)
Section Frames.
  Variable Hf : bytes -> bytes.
  Variable c : cfg.

  Ltac brk := repeat match goal with |- context [if ?b then _ else _] => destruct b end.

  Lemma asked_run_act a s :
    asked (run_act Hf c a s) = asked s ++ match a with Send p => [p] | _ => [] end.
  Proof.
    destruct a; cbn [run_act]; try (rewrite app_nil_r).
    - reflexivity.
    - unfold recv_version. brk; reflexivity.
    - reflexivity.
    - unfold process_kexinit. brk; reflexivity.
    - unfold send_newkeys. cbv zeta. brk; reflexivity.
    - unfold process_newkeys. destruct (staged s); reflexivity.
    - unfold auth_begin. brk; reflexivity.
    - reflexivity.
  Qed.

  Lemma err_step s o x : err s = Some x -> step Hf c s o = s.
  Proof. intros H. unfold step. rewrite H. reflexivity. Qed.

  Lemma err_run ops s x : err s = Some x -> run Hf c ops s = s.
  Proof. induction ops as [|o ops IH]; intros H; [reflexivity|]. change (run Hf c (o :: ops) s) with (run Hf c ops (step Hf c s o)). rewrite (err_step _ _ _ H). exact (IH H). Qed.

  Lemma asked_step s o : err s = None ->
    asked (step Hf c s o) = asked s ++ match fst o with Send p => [p] | _ => [] end.
  Proof. intros H. unfold step. rewrite H. cbn [asked set_sn]. rewrite asked_run_act. reflexivity. Qed.

  Lemma run_cons o ops s : run Hf c (o :: ops) s = run Hf c ops (step Hf c s o).
  Proof. reflexivity. Qed.

  Lemma asked_run ops : forall s, err (run Hf c ops s) = None -> asked (run Hf c ops s) = asked s ++ sends_of ops.
  Proof.
    induction ops as [|o ops IH]; intros s H; [cbn; rewrite app_nil_r; reflexivity|].
    rewrite run_cons in *. change (sends_of (o :: ops)) with ((match fst o with Send p => [p] | _ => [] end) ++ sends_of ops).
    destruct (err s) eqn:Es.
    - rewrite (err_step _ _ _ Es) in H. rewrite (err_run _ _ _ Es) in H. congruence.
    - rewrite (IH _ H), (asked_step _ _ Es), <- app_assoc. reflexivity.
  Qed.

  (* session id: written once *)
  Lemma sid_run_act a s : sid s <> [] -> sid (run_act Hf c a s) = sid s.
  Proof.
    intros N. destruct a; cbn [run_act].
    - reflexivity.
    - unfold recv_version. brk; reflexivity.
    - reflexivity.
    - unfold process_kexinit. brk; reflexivity.
    - unfold send_newkeys. cbv zeta. destruct (sid s) eqn:Sd; [congruence|]. cbn [is_nil andb]. brk; first [reflexivity | exact Sd].
    - unfold process_newkeys. destruct (staged s); reflexivity.
    - unfold auth_begin. brk; reflexivity.
    - reflexivity.
  Qed.

  Lemma sid_step s o : sid s <> [] -> sid (step Hf c s o) = sid s.
  Proof. intros N. unfold step. destruct (err s); [reflexivity|]. cbn [sid set_sn]. rewrite sid_run_act; [reflexivity|exact N]. Qed.

  Lemma sid_run ops : forall s, sid s <> [] -> sid (run Hf c ops s) = sid s.
  Proof.
    induction ops as [|o ops IH]; intros s N; [reflexivity|]. rewrite run_cons.
    rewrite IH; [apply sid_step; exact N|]. rewrite sid_step; exact N.
  Qed.
End Frames.

(* ---- quiet window (the code since 97cb05d: legacy = false), for every clock ---------------------- *)
Definition SQ (e : env) (stf ka : bool) (n : sndst) : Prop :=
  SI e stf ka n /\ quiet_scan (types n) = Some (stf && negb (kex_complete n)).

Lemma SQ_send c e stf ka p n : legacy c = false -> not_kn (p_ty p) = true -> SQ e stf ka n -> SQ e stf ka (send_packet c e p n).
Proof.
  intros L Hp (S & Q). split; [apply SI_send; auto|].
  exact (quiet_send c e p n stf ka L Hp (si_mode _ _ _ _ S) Q).
Qed.

Lemma SQ_flush c e stf ka n : legacy c = false -> SQ e stf ka n -> SQ e stf ka (flush c e n).
Proof.
  intros L H. unfold flush.
  apply (fold_send_inv_q c e (fun q => not_kn (p_ty q) = true) (SQ e stf ka)).
  - intros p m Hp Hm. apply SQ_send; auto.
  - exact (si_dq _ _ _ _ (proj1 H)).
  - destruct H as ([M A E D] & Q). split; [constructor; auto; constructor|]. auto.
Qed.

Lemma quiet_kexinit c e n b : quiet_scan (types n) = Some b -> quiet_scan (types (send_kexinit c e n)) = Some true.
Proof.
  intros Q. destruct (send_kexinit_fired c e n) as ((w & W1 & W2 & W3) & _).
  rewrite (types_snoc _ _ _ W1), W2. unfold quiet_scan in *. rewrite fold_left_snoc, Q. reflexivity.
Qed.

Section Quiet.
  Variable Hf : bytes -> bytes.
  Variable c : cfg.
  Hypothesis L : legacy c = false.

  Definition QInv (s : st) : Prop :=
    quiet_scan (types (sn s)) = Some (started s && negb (kex_complete (sn s))).

  Lemma SQ_of s : Inv s -> QInv s -> SQ (env_of s) (started s) (kex_active s) (sn s).
  Proof. intros I Q. split; [exact (inv_si _ I)|exact Q]. Qed.

  Lemma Q_flush s e : SQ e (started s) (kex_active s) (sn s) -> e = env_of s -> QInv (do_flush c s).
  Proof. intros S ->. exact (proj2 (SQ_flush c _ _ _ _ L S)). Qed.

  Lemma Q_recv_version s : Inv s -> QInv s -> QInv (recv_version c s).
  Proof.
    unfold recv_version. intros I QI. destruct (started s) eqn:St; [exact QI|]. unfold QInv in *. rewrite St in QI.
    pose proof (quiet_kexinit c (env_of s) (sn s) _ QI) as Q'.
    destruct (ord_kexinit c (env_of s) (sn s)) as [_ KK].
    stcbn; prj. change (types (set_kexinit_sent true ?n)) with (types n). rewrite KK. exact Q'.
  Qed.

  Lemma Q_process_kexinit s ext sp : Inv s -> QInv s -> QInv (process_kexinit c ext sp s).
  Proof.
    unfold process_kexinit. intros I QI.
    destruct (started s) eqn:St; [|exact QI]. cbn [negb].
    destruct (kex_active s || is_some (staged s)) eqn:Kas; [exact QI|].
    apply orb_false_iff in Kas as [Ka _]. unfold QInv in *. rewrite St in QI.
    set (s1 := if is_nil (sid s) then set_markers (can_ext s || ext) (strict s || sp) s else s).
    assert (E1 : sn s1 = sn s /\ started s1 = true) by (unfold s1; destruct (is_nil (sid s)); auto).
    destruct E1 as [E1 E2]. rewrite E1.
    pose proof (si_mode _ _ _ _ (inv_si _ I)) as M. rewrite St, Ka in M.
    destruct (kexinit_sent (sn s)) eqn:Ks.
    - stcbn; prj. change (types (set_kexinit_sent false ?n)) with (types n). rewrite E2. exact QI.
    - pose proof (quiet_kexinit c (env_of s1) (sn s) _ QI) as Q'.
      destruct (ord_kexinit c (env_of s1) (sn s)) as [_ KK].
      stcbn. rewrite E2, KK. exact Q'.
  Qed.

  Lemma quiet_emit e p n b : quiet_scan (types n) = Some b ->
    quiet_scan (types (emit e p n)) = quiet_step (Some b) (p_ty p).
  Proof. intros Q. rewrite types_emit. unfold quiet_scan in *. rewrite fold_left_snoc, Q. reflexivity. Qed.

  Lemma Q_tail s4 (first : bool) :
    SQ (env_of s4) true false (sn s4) -> started s4 = true -> kex_active s4 = false ->
    QInv (do_flush c (if first then do_send c SVCREQ_pkt s4 else s4)).
  Proof.
    intros S4 T1 T2. destruct first.
    - apply (Q_flush _ (env_of s4)); [|reflexivity]. stcbn. rewrite T1, T2. apply SQ_send; [exact L|reflexivity|exact S4].
    - apply (Q_flush _ (env_of s4)); [|reflexivity]. rewrite T1, T2. exact S4.
  Qed.

  Lemma Q_send_newkeys s k h a : Inv s -> QInv s -> QInv (send_newkeys Hf c k h a s).
  Proof.
    unfold send_newkeys. intros I QI. destruct (kex_active s) eqn:Ka; [|exact QI]. cbn [negb].
    destruct I as [S O J H R]. rewrite Ka in S.
    pose proof (si_mode _ _ _ _ S) as M. apply mode_kaT in M as (St & Hk & Hs).
    unfold QInv in QI. rewrite St, Hk in QI.
    destruct S as [_ A E D]. rewrite St, Hk in A.
    cbv zeta.
    rewrite (do_send_plain c _ NEWKEYS_pkt) by (first [exact Hk | reflexivity]).
    stcbn.
    match goal with |- context [set_cmp_seen [] ?x] => set (n1 := set_cmp_seen [] x) end.
    assert (A1 : alt_scan (types n1) = Some false).
    { unfold n1. change (types (set_cmp_seen [] ?x)) with (types x).
      rewrite types_emit. unfold alt_scan in *. rewrite fold_left_snoc, A. reflexivity. }
    assert (E1 : epoch_scan (wire n1) = Some (send_epoch s + 1)).
    { unfold n1; prj. rewrite (epoch_emit _ _ _ _ E eq_refl). reflexivity. }
    assert (Q1 : quiet_scan (types n1) = Some false).
    { unfold n1. change (types (set_cmp_seen [] ?x)) with (types x). rewrite (quiet_emit _ _ _ _ QI). reflexivity. }
    assert (F1 : kex_complete n1 = false /\ kexinit_sent n1 = false /\ deferred n1 = deferred (sn s)) by auto.
    destruct F1 as (Hk1 & Hs1 & D1).
    clearbody n1.
    rewrite (do_send_plain c _ (EXTINFO_pkt c)) by (first [exact Hk1 | reflexivity]).
    stcbn.
    destruct (can_ext s); apply Q_tail; stcbn; auto.
    - split; [constructor; prj|prj].
      + rewrite !ks_emit, Hs1. reflexivity.
      + change (types (set_kex_complete true ?n)) with (types n). rewrite types_emit.
        unfold alt_scan in *. rewrite fold_left_snoc, A1. reflexivity.
      + rewrite (epoch_emit _ _ _ _ E1); reflexivity.
      + rewrite deferred_emit, D1. exact D.
      + change (types (set_kex_complete true ?n)) with (types n). rewrite (quiet_emit _ _ _ _ Q1). reflexivity.
    - split; [constructor; prj|prj].
      + rewrite Hs1. reflexivity.
      + change (types (set_kex_complete true ?n)) with (types n). rewrite A1. reflexivity.
      + exact E1.
      + rewrite D1. exact D.
      + change (types (set_kex_complete true ?n)) with (types n). rewrite Q1. reflexivity.
  Qed.

  Lemma Q_run_act a ts s : ext_ok (a, ts) = true -> Inv s -> QInv s -> QInv (run_act Hf c a s).
  Proof.
    intros X I QI. destruct a; cbn [run_act].
    - exact QI.
    - apply Q_recv_version; auto.
    - pose proof (SQ_of s I QI) as S. exact (proj2 (SQ_send c _ _ _ p _ L X S)).
    - apply Q_process_kexinit; auto.
    - apply Q_send_newkeys; auto.
    - unfold process_newkeys. destruct (staged s); exact QI.
    - unfold auth_begin. destruct (is_client c); [exact QI|].
      apply (Q_flush _ (env_of (set_auth true (auth_complete s) s))); [|reflexivity].
      destruct (SQ_of s I QI) as (S & Q). split; [eapply SI_env; [|exact S]; reflexivity|auto].
    - unfold auth_done. apply (Q_flush _ (env_of (set_auth false true s))); [|reflexivity].
      destruct (SQ_of s I QI) as (S & Q). split; [eapply SI_env; [|exact S]; reflexivity|auto].
  Qed.

  Lemma Q_step s o : ext_ok o = true -> Inv s -> QInv s -> QInv (step Hf c s o).
  Proof.
    intros X I QI. unfold step. destruct (err s); [exact QI|]. destruct o as [a ts]. cbn [fst snd].
    exact (Q_run_act a ts _ X (Inv_clock _ ts I) QI).
  Qed.

  Lemma Q_run ops : forall s, forallb ext_ok ops = true -> Inv s -> QInv s -> QInv (run Hf c ops s).
  Proof.
    induction ops as [|o ops IH]; intros s X I QI; [exact QI|].
    cbn in X. apply andb_true_iff in X as [X1 X2].
    change (run Hf c (o :: ops) s) with (run Hf c ops (step Hf c s o)).
    apply IH; auto. - apply Inv_step; auto. - apply Q_step; auto.
  Qed.
End Quiet.

(* ---- keys: what is on the wire in epoch n was protected with the keys derived in exchange n ---- *)
Definition KW (f : Z -> option keys) (m : Z) (n : sndst) : Prop :=
  Forall (fun w => w_keys w = f (w_epoch w) /\ w_epoch w <= m) (wire n).

Lemma KW_ext f m n n' Y e : wire n' = wire n ++ Y -> Forall (stamped e) Y ->
  e_keys e = f (e_epoch e) -> e_epoch e <= m -> KW f m n -> KW f m n'.
Proof.
  intros W S Hk Hm H. unfold KW. rewrite W. apply Forall_app. split; [exact H|].
  eapply Forall_impl; [|exact S]. intros w [E K]. rewrite K, E. auto.
Qed.

Lemma KW_send c e p n f m : e_keys e = f (e_epoch e) -> e_epoch e <= m -> KW f m n -> KW f m (send_packet c e p n).
Proof.
  intros Hk Hm H. destruct (send_packet_spec c e p n) as (Y & W & S & _). eapply KW_ext; eauto.
Qed.

Lemma KW_flush c e n f m : e_keys e = f (e_epoch e) -> e_epoch e <= m -> KW f m n -> KW f m (flush c e n).
Proof.
  intros Hk Hm H. unfold flush. apply fold_send_inv; [intros; apply KW_send; auto|exact H].
Qed.

Lemma KW_kexinit c e n f m : e_keys e = f (e_epoch e) -> e_epoch e <= m -> KW f m n -> KW f m (send_kexinit c e n).
Proof.
  intros Hk Hm H. destruct (send_kexinit_fired c e n) as ((w & W1 & W2 & W3) & _).
  eapply KW_ext; eauto.
Qed.

Lemma KW_emit e p n f m : e_keys e = f (e_epoch e) -> e_epoch e <= m -> KW f m n -> KW f m (emit e p n).
Proof.
  intros Hk Hm H. destruct (emit_wire e p n) as (w & W1 & W2 & W3). eapply KW_ext; eauto.
Qed.

Lemma KW_weaken f g m m' n : (forall k, k <= m -> f k = g k) -> m <= m' -> KW f m n -> KW g m' n.
Proof.
  intros Hfg Hm H. unfold KW in *. eapply Forall_impl; [|exact H]. intros w [K E]. split; [|lia].
  rewrite K. apply Hfg. exact E.
Qed.

Lemma keys_at_stable Hf cs sidv hs x n : n <= Z.of_nat (length hs) ->
  keys_at Hf cs sidv (hs ++ [x]) n = keys_at Hf cs sidv hs n.
Proof.
  intros Hn. unfold keys_at. destruct (n <=? 0) eqn:Z0; [reflexivity|]. apply Z.leb_gt in Z0.
  rewrite nth_error_app1; [reflexivity|]. lia.
Qed.

Lemma keys_at_last Hf cs sidv hs k h a :
  keys_at Hf cs sidv (hs ++ [(k, h, a)]) (Z.of_nat (length hs) + 1) = Some (mk_keys Hf cs k h sidv a).
Proof.
  unfold keys_at. destruct (Z.of_nat (length hs) + 1 <=? 0) eqn:Z0; [apply Z.leb_le in Z0; lia|].
  replace (Z.to_nat (Z.of_nat (length hs) + 1 - 1)) with (length hs) by lia.
  rewrite nth_error_app2, Nat.sub_diag; [reflexivity|lia].
Qed.

Lemma keys_at_nil Hf cs sidv sidv' n : keys_at Hf cs sidv [] n = keys_at Hf cs sidv' [] n.
Proof. unfold keys_at. destruct (n <=? 0); [reflexivity|]. destruct (Z.to_nat (n - 1)); reflexivity. Qed.

Section Keys.
  Variable Hf : bytes -> bytes.
  Variable c : cfg.

  Definition kf (s : st) (cs : bool) : Z -> option keys := keys_at Hf cs (sid s) (hist s).

  Record KInv (s : st) : Prop := mkKInv {
    k_sid : match hist s with [] => sid s = [] | (k, h, a) :: _ => sid s = h /\ h <> [] end;
    k_send : send_keys s = kf s (is_client c) (send_epoch s);
    k_wire : KW (kf s (is_client c)) (send_epoch s) (sn s);
    k_staged : staged s = None \/ staged s = kf s (negb (is_client c)) (send_epoch s);
    k_recv : recv_keys s = None \/ exists n, 0 < n <= send_epoch s /\ recv_keys s = kf s (negb (is_client c)) n }.

  Lemma KInv_init : KInv init.
  Proof. constructor; cbn; auto. constructor. Qed.

  (* an operation that leaves the key material alone and only writes to the send state *)
  Lemma KInv_sn s s' : sid s' = sid s -> hist s' = hist s -> send_keys s' = send_keys s ->
    send_epoch s' = send_epoch s -> staged s' = staged s -> recv_keys s' = recv_keys s ->
    KW (kf s (is_client c)) (send_epoch s) (sn s') -> KInv s -> KInv s'.
  Proof.
    intros E1 E2 E3 E4 E5 E6 W [A B C D E]. unfold kf in *.
    constructor; unfold kf; rewrite ?E1, ?E2, ?E3, ?E4, ?E5, ?E6; auto.
  Qed.

  Lemma env_keys s : KInv s -> e_keys (env_of s) = kf s (is_client c) (e_epoch (env_of s)) /\
                               e_epoch (env_of s) <= send_epoch s.
  Proof. intros K. split; [exact (k_send _ K)|cbn; lia]. Qed.

  Ltac brk := repeat match goal with |- context [if ?b then _ else _] => destruct b end.

  Lemma K_run_act_simple a s : (match a with KexDone _ _ _ => False | RecvNewKeys => False | _ => True end) ->
    KInv s -> KInv (run_act Hf c a s).
  Proof.
    intros NA K. destruct (env_keys s K) as [EK EE]. pose proof (k_wire _ K) as W.
    destruct a; cbn [run_act]; try contradiction.
    - apply (KInv_sn s); try reflexivity; auto.
    - unfold recv_version. destruct (started s); [exact K|].
      apply (KInv_sn s); try reflexivity; auto. stcbn. change (KW ?f ?m (set_kexinit_sent true ?n)) with (KW f m n).
      apply KW_kexinit; auto.
    - apply (KInv_sn s); try reflexivity; auto. stcbn. apply KW_send; auto.
    - unfold process_kexinit. destruct (started s); [|exact K]. cbn [negb].
      destruct (kex_active s || is_some (staged s)); [apply (KInv_sn s); try reflexivity; auto|].
      set (s1 := if is_nil (sid s) then set_markers (can_ext s || ext) (strict s || strictp) s else s).
      assert (E1 : sn s1 = sn s /\ e_keys (env_of s1) = e_keys (env_of s) /\ e_epoch (env_of s1) = e_epoch (env_of s)
                   /\ sid s1 = sid s /\ hist s1 = hist s /\ send_keys s1 = send_keys s /\ send_epoch s1 = send_epoch s
                   /\ staged s1 = staged s /\ recv_keys s1 = recv_keys s)
        by (unfold s1; destruct (is_nil (sid s)); repeat split; auto).
      destruct E1 as (A1 & A2 & A3 & A4 & A5 & A6 & A7 & A8 & A9).
      apply (KInv_sn s); try reflexivity; stcbn; auto. rewrite A1.
      destruct (kexinit_sent (sn s)); [exact W|]. apply KW_kexinit; [rewrite A2, A3; exact EK|rewrite A3; exact EE|exact W].
    - unfold auth_begin.
      assert (G : forall b : bool, KInv (if b then set_auth true (auth_complete s) s
                                         else do_flush c (set_auth true (auth_complete s) s))).
      { intros [|]; apply (KInv_sn s); try reflexivity; stcbn; auto. apply KW_flush; auto. }
      apply G.
    - unfold auth_done. apply (KInv_sn s); try reflexivity; stcbn; auto. apply KW_flush; auto.
  Qed.

  Lemma K_process_newkeys s : Inv s -> KInv s -> KInv (process_newkeys s).
  Proof.
    intros I K. unfold process_newkeys. destruct (staged s) eqn:Sg.
    - destruct K as [A B C D E]. constructor; unfold kf in *; stcbn; auto.
      right. exists (send_epoch s). destruct (inv_recv _ I) as [R1 R2]. rewrite Sg in R2.
      split; [assert (recv_epoch s < send_epoch s) by (apply R2; discriminate); lia|].
      destruct D as [D|D]; [congruence|]. rewrite <- Sg. exact D.
    - apply (KInv_sn s); try reflexivity; auto. exact (k_wire _ K).
  Qed.
End Keys.

Section Keys2.
  Variable Hf : bytes -> bytes.
  Variable c : cfg.

  Lemma K_send_newkeys s k h a : h <> [] -> Inv s -> KInv Hf c s -> KInv Hf c (send_newkeys Hf c k h a s).
  Proof.
    unfold send_newkeys. intros Hh I K. destruct (kex_active s) eqn:Ka; [|exact K]. cbn [negb].
    pose proof (inv_hist _ I) as HL.
    pose proof (inv_si _ I) as S. rewrite Ka in S.
    pose proof (si_mode _ _ _ _ S) as M. apply mode_kaT in M as (St & Hk & Hs).
    destruct K as [KA KB KC KD KE].
    cbv zeta.
    rewrite (do_send_plain c _ NEWKEYS_pkt) by (first [exact Hk | reflexivity]).
    rewrite (do_send_plain c _ (EXTINFO_pkt c)) by (first [exact Hk | reflexivity]).
    set (sid' := if is_nil (sid s) then h else sid s).
    set (HD := if is_client c then a_hdr_cs a else a_hdr_sc a).
    set (BS := if is_client c then a_bs_cs a else a_bs_sc a).
    (* the new key function agrees with the old one on all earlier epochs *)
    assert (SID : match hist s ++ [(k, h, a)] with [] => sid' = [] | (k0, h0, a0) :: _ => sid' = h0 /\ h0 <> [] end).
    { unfold sid'. destruct (hist s) as [|[[k0 h0] a0] r]; cbn [app].
      - rewrite KA. cbn. auto.
      - destruct KA as [KA1 KA2]. rewrite KA1. destruct h0; [congruence|]. cbn. auto. }
    assert (OLD : forall cs n, n <= send_epoch s ->
              keys_at Hf cs (sid s) (hist s) n = keys_at Hf cs sid' (hist s ++ [(k, h, a)]) n).
    { intros cs n Hn. rewrite keys_at_stable by lia. unfold sid'.
      destruct (hist s) as [|[[k0 h0] a0] r]; [apply keys_at_nil|].
      destruct KA as [KA1 KA2]. rewrite KA1. destruct h0; [congruence|]. reflexivity. }
    assert (NEW : forall cs, keys_at Hf cs sid' (hist s ++ [(k, h, a)]) (send_epoch s + 1) = Some (mk_keys Hf cs k h sid' a)).
    { intros cs. rewrite <- HL. apply keys_at_last. }
    set (f' := keys_at Hf (is_client c) sid' (hist s ++ [(k, h, a)])).
    assert (W1 : KW f' (send_epoch s + 1) (emit (env_of s) NEWKEYS_pkt (sn s))).
    { apply KW_emit.
      - change (send_keys s = f' (send_epoch s)). unfold f'. rewrite <- OLD by lia. exact KB.
      - cbn; lia.
      - eapply KW_weaken; [|
          |exact KC]; [intros n Hn; unfold kf, f'; apply OLD; exact Hn|lia]. }
    (* everything after the key switch carries the new keys *)
    assert (TAIL : forall s4 (first : bool), sid s4 = sid' -> hist s4 = hist s ++ [(k, h, a)] ->
              send_keys s4 = Some (mk_keys Hf (is_client c) k h sid' a) -> send_epoch s4 = send_epoch s + 1 ->
              staged s4 = Some (mk_keys Hf (negb (is_client c)) k h sid' a) -> recv_keys s4 = recv_keys s ->
              KW f' (send_epoch s + 1) (sn s4) ->
              KInv Hf c (do_flush c (if first then do_send c SVCREQ_pkt s4 else s4))).
    { intros s4 first T1 T2 T3 T4 T5 T6 T7.
      assert (EK : e_keys (env_of s4) = f' (e_epoch (env_of s4)) /\ e_epoch (env_of s4) <= send_epoch s + 1).
      { split; [|cbn; lia]. change (send_keys s4 = f' (send_epoch s4)). rewrite T3, T4. unfold f'. rewrite NEW. reflexivity. }
      destruct EK as [EK EE].
      assert (G : sid (do_flush c (if first then do_send c SVCREQ_pkt s4 else s4)) = sid s4 /\
                  hist (do_flush c (if first then do_send c SVCREQ_pkt s4 else s4)) = hist s4 /\
                  send_keys (do_flush c (if first then do_send c SVCREQ_pkt s4 else s4)) = send_keys s4 /\
                  send_epoch (do_flush c (if first then do_send c SVCREQ_pkt s4 else s4)) = send_epoch s4 /\
                  staged (do_flush c (if first then do_send c SVCREQ_pkt s4 else s4)) = staged s4 /\
                  recv_keys (do_flush c (if first then do_send c SVCREQ_pkt s4 else s4)) = recv_keys s4 /\
                  KW f' (send_epoch s + 1) (sn (do_flush c (if first then do_send c SVCREQ_pkt s4 else s4)))).
      { destruct first; repeat split; try reflexivity; stcbn.
        - apply KW_flush; auto. apply KW_send; auto.
        - apply KW_flush; auto. }
      destruct G as (G1 & G2 & G3 & G4 & G5 & G6 & G7).
      constructor; unfold kf; rewrite ?G1, ?G2, ?G3, ?G4, ?G5, ?G6, ?T1, ?T2, ?T3, ?T4, ?T5, ?T6.
      - exact SID.
      - rewrite NEW. reflexivity.
      - exact G7.
      - right. rewrite NEW. reflexivity.
      - destruct KE as [KE|(n & Hn & KE)]; [left; exact KE|]. right. exists n. split; [lia|].
        rewrite KE. unfold kf. apply OLD. lia. }
    stcbn.
    destruct (can_ext s); apply TAIL; stcbn; try reflexivity.
    - change (KW ?f ?m (set_kex_complete true ?n)) with (KW f m n). apply KW_emit; [| |exact W1].
      + cbn. unfold f'. rewrite NEW. reflexivity.
      + cbn; lia.
    - exact W1.
  Qed.

  Lemma K_step s o : ext_ok o = true -> h_nonempty o = true -> Inv s -> KInv Hf c s -> KInv Hf c (step Hf c s o).
  Proof.
    intros X Y I K. unfold step. destruct (err s); [exact K|]. destruct o as [a ts].
    assert (K0 : KInv Hf c (set_sn (set_future ts (sn s)) s)).
    { apply (KInv_sn Hf c s); try reflexivity; auto. exact (k_wire _ _ _ K). }
    pose proof (Inv_clock _ ts I) as I0.
    assert (K1 : KInv Hf c (run_act Hf c a (set_sn (set_future ts (sn s)) s))).
    { destruct a; try (apply K_run_act_simple; [exact Logic.I|exact K0]).
      - cbn [run_act]. apply K_send_newkeys; auto. cbn in Y. destruct h; [discriminate|congruence].
      - cbn [run_act]. apply K_process_newkeys; auto. }
    cbn [fst snd]. apply (KInv_sn Hf c (run_act Hf c a (set_sn (set_future ts (sn s)) s))); try reflexivity; auto.
    exact (k_wire _ _ _ K1).
  Qed.

  Lemma K_run ops : forall s, forallb ext_ok ops = true -> forallb h_nonempty ops = true -> Inv s -> KInv Hf c s ->
    KInv Hf c (run Hf c ops s).
  Proof.
    induction ops as [|o ops IH]; intros s X Y I K; [exact K|].
    cbn in X, Y. apply andb_true_iff in X as [X1 X2]. apply andb_true_iff in Y as [Y1 Y2].
    change (run Hf c (o :: ops) s) with (run Hf c ops (step Hf c s o)).
    apply IH; auto. - apply Inv_step; auto. - apply K_step; auto.
  Qed.
End Keys2.

(* ---- compression contexts: a new one per key epoch ------------------------------------------------- *)
Lemma cmp_fed_app ep l m : cmp_fed ep (l ++ m) = cmp_fed ep l ++ cmp_fed ep m.
Proof. unfold cmp_fed. rewrite filter_app, map_app. reflexivity. Qed.

Lemma cmp_ok_app l : forall pre m, cmp_ok pre (l ++ m) <-> cmp_ok pre l /\ cmp_ok (pre ++ l) m.
Proof.
  induction l as [|w l IH]; intros pre m; cbn [app cmp_ok].
  - rewrite app_nil_r. tauto.
  - rewrite IH. rewrite <- app_assoc. cbn [app]. tauto.
Qed.

Definition CI (ep : Z) (n : sndst) : Prop :=
  cmp_ok [] (wire n) /\ cmp_seen n = cmp_fed ep (wire n) /\ Forall (fun w => w_epoch w <= ep) (wire n).

Lemma CI_same ep n n' : wire n' = wire n -> cmp_seen n' = cmp_seen n -> CI ep n -> CI ep n'.
Proof. intros W C (A & B & D). unfold CI. rewrite W, C. auto. Qed.

Lemma CI_emit e p n : CI (e_epoch e) n -> CI (e_epoch e) (emit e p n).
Proof.
  intros (A & B & D). unfold CI, emit; prj. split; [|split].
  - apply cmp_ok_app. split; [exact A|]. cbn [app cmp_ok w_cmp w_epoch]. split; [|exact I].
    intros ctx Hc. destruct (compressing e); [|discriminate]. inversion Hc; subst. exact B.
  - rewrite cmp_fed_app. unfold cmp_fed at 2. cbn [filter w_epoch w_cmp]. rewrite Z.eqb_refl.
    destruct (compressing e); cbn [andb is_some map w_pkt]; [rewrite B; reflexivity|rewrite app_nil_r; exact B].
  - apply Forall_app. split; [exact D|]. constructor; [cbn; lia|constructor].
Qed.

Lemma read_clock_ci n t n1 : read_clock n = (t, n1) -> wire n1 = wire n /\ cmp_seen n1 = cmp_seen n.
Proof. unfold read_clock. destruct (future n); intros H; inversion H; subst; auto. Qed.

Lemma CI_send_kexinit c e n : CI (e_epoch e) n -> CI (e_epoch e) (send_kexinit c e n).
Proof.
  intros H. unfold send_kexinit. apply CI_emit. destruct (rekey_seconds c =? 0).
  - eapply CI_same; [| |exact H]; reflexivity.
  - destruct (read_clock (set_rekey_sent 0 (set_kex_complete false n))) as [t n2] eqn:Hr.
    apply read_clock_ci in Hr as [W C]. eapply CI_same; [| |exact H]; prj; auto.
Qed.

Lemma CI_send_pre c e ty n : CI (e_epoch e) n -> CI (e_epoch e) (send_pre c e ty n).
Proof.
  intros H. unfold send_pre, trigger.
  assert (F : forall m, wire m = wire n -> cmp_seen m = cmp_seen n ->
              CI (e_epoch e) (set_kexinit_sent true (send_kexinit c e m))).
  { intros m W C. eapply CI_same; [| |apply (CI_send_kexinit c e m); eapply CI_same; eauto]; reflexivity. }
  destruct (e_auth_complete e && kex_complete n && (legacy c || negb (ty =? MSG_IGNORE))); [|exact H].
  destruct (rekey_bytes c <=? rekey_sent n); [apply F; reflexivity|].
  destruct (rekey_seconds c =? 0); [exact H|].
  destruct (read_clock n) as [t n1] eqn:Hr. apply read_clock_ci in Hr as [W C].
  destruct (rekey_time n1 <=? t); [apply F; auto|eapply CI_same; eauto].
Qed.

Lemma CI_send_packet c e p n : CI (e_epoch e) n -> CI (e_epoch e) (send_packet c e p n).
Proof.
  intros H. unfold send_packet. pose proof (CI_send_pre c e (p_ty p) n H) as H1.
  destruct (defer_cond e (kex_complete (send_pre c e (p_ty p) n)) (p_ty p)).
  - eapply CI_same; [| |exact H1]; reflexivity.
  - apply CI_emit. destruct (encrypting e && (MSG_KEX_LAST <? p_ty p)); [|exact H1].
    unfold send_ignore. apply CI_emit. apply CI_send_pre. exact H1.
Qed.

Lemma CI_flush c e n : CI (e_epoch e) n -> CI (e_epoch e) (flush c e n).
Proof.
  intros H. unfold flush. apply fold_send_inv; [intros; apply CI_send_packet; auto|].
  eapply CI_same; [| |exact H]; reflexivity.
Qed.

(* send_newkeys: the epoch advances and the compressor is replaced by one that has seen nothing *)
Lemma CI_bump ep n : CI ep n -> CI (ep + 1) (set_cmp_seen [] n).
Proof.
  intros (A & B & D). unfold CI; prj. split; [exact A|]. split.
  - clear A B. unfold cmp_fed. induction D as [|w l Hw _ IH]; [reflexivity|]. cbn [filter].
    replace (w_epoch w =? ep + 1) with false by (symmetry; apply Z.eqb_neq; lia). cbn [andb]. exact IH.
  - eapply Forall_impl; [|exact D]. cbn. intros; lia.
Qed.

Section Cmp.
  Variable Hf : bytes -> bytes.
  Variable c : cfg.

  Definition CInv (s : st) : Prop := CI (send_epoch s) (sn s).

  Lemma CInv_eq s s' : send_epoch s' = send_epoch s -> wire (sn s') = wire (sn s) ->
    cmp_seen (sn s') = cmp_seen (sn s) -> CInv s -> CInv s'.
  Proof. unfold CInv. intros E W C H. rewrite E. eapply CI_same; eauto. Qed.

  Lemma CInv_do_send s p : CInv s -> CInv (do_send c p s).
  Proof. intros H. apply (CI_send_packet c (env_of s) p (sn s)). exact H. Qed.

  Lemma CInv_do_flush s : CInv s -> CInv (do_flush c s).
  Proof. intros H. apply (CI_flush c (env_of s) (sn s)). exact H. Qed.

  (* reduce the projections of explicit state constructors; CInv only looks at send_epoch and sn *)
  Ltac cred := unfold CInv in *;
    cbn [do_send do_flush set_asked set_sn set_err set_started set_kex_active set_auth set_markers
         set_sid install_send install_recv send_epoch sn] in *.
  Ltac snd_same H := eapply CI_same; [| |exact H]; reflexivity.

  Lemma CInv_run_act a s : CInv s -> CInv (run_act Hf c a s).
  Proof.
    intros H. destruct a; cbn [run_act].
    - cred. snd_same H.
    - unfold recv_version. destruct (started s); [exact H|]. cred.
      pose proof (CI_send_kexinit c (env_of s) (sn s) H) as K. snd_same K.
    - cred. apply (CI_send_packet c (env_of s) p (sn s) H).
    - unfold process_kexinit. destruct (negb (started s)); [exact H|].
      destruct (kex_active s || is_some (staged s)); [cred; exact H|].
      destruct (is_nil (sid s)); cred.
      + destruct (kexinit_sent (sn s)); [snd_same H|].
        exact (CI_send_kexinit c (env_of (set_markers (can_ext s || ext) (strict s || strictp) s)) (sn s) H).
      + destruct (kexinit_sent (sn s)); [snd_same H|]. exact (CI_send_kexinit c (env_of s) (sn s) H).
    - unfold send_newkeys. destruct (negb (kex_active s)); [exact H|]. cbv zeta.
      set (sid' := if is_nil (sid s) then h else sid s).
      set (s0 := set_sid sid' (set_kex_active false s)).
      assert (H1 : CI (send_epoch s) (send_packet c (env_of s0) NEWKEYS_pkt (sn s)))
        by (apply (CI_send_packet c (env_of s0) NEWKEYS_pkt (sn s)); exact H).
      apply CI_bump in H1.
      set (s2 := install_send _ _ _ _ _ _ _).
      assert (K2 : CInv s2) by (unfold CInv, s2; cbn [send_epoch install_send sn set_sn do_send]; exact H1).
      clearbody s2. clear H1.
      set (s3 := if can_ext s2 then _ else s2).
      assert (K3 : CInv s3).
      { unfold s3. destruct (can_ext s2); [|exact K2]. cred.
        apply (CI_send_packet c (env_of s2) (EXTINFO_pkt c) (sn s2) K2). }
      clearbody s3.
      set (s4 := set_sn (set_kex_complete true (sn s3)) s3).
      assert (K4 : CInv s4) by (unfold s4; cred; snd_same K3).
      clearbody s4.
      apply CInv_do_flush. destruct (is_nil (sid s) && is_client c); [apply CInv_do_send|]; exact K4.
    - unfold process_newkeys. destruct (staged s); cred; exact H.
    - unfold auth_begin. destruct (is_client c); cred; [exact H|].
      apply (CI_flush c (env_of (set_auth true (auth_complete s) s)) (sn s) H).
    - unfold auth_done. cred. apply (CI_flush c (env_of (set_auth false true s)) (sn s) H).
  Qed.

  Lemma CInv_step s o : CInv s -> CInv (step Hf c s o).
  Proof.
    intros H. unfold step. destruct (err s); [exact H|].
    assert (H0 : CInv (set_sn (set_future (snd o) (sn s)) s)) by (cred; snd_same H).
    pose proof (CInv_run_act (fst o) _ H0) as H1.
    unfold CInv in *. cbn [send_epoch sn set_sn]. snd_same H1.
  Qed.

  Lemma CInv_run ops : forall s, CInv s -> CInv (run Hf c ops s).
  Proof. induction ops as [|o ops IH]; intros s H; [exact H|]. apply (IH (step Hf c s o)). apply CInv_step. exact H. Qed.

  Lemma CInv_init : CInv init.
  Proof. unfold CInv, CI. cbn. repeat split; constructor. Qed.
End Cmp.

(* ---- the statements used by Props/C11.v ----------------------------------------------------------- *)
Section Final.
  Variable Hf : bytes -> bytes.
  Variable c : cfg.

  Definition reach (ops : list op) : st := run Hf c ops init.

  Lemma quiet_always ops : legacy c = false -> forallb ext_ok ops = true ->
    quiet_scan (wire_types (reach ops)) =
      Some (started (reach ops) && negb (kex_complete (sn (reach ops)))).
  Proof.
    intros L X. assert (Q0 : QInv init) by reflexivity.
    exact (Q_run Hf c L ops init X Inv_init Q0).
  Qed.

  Lemma alt_always ops : forallb ext_ok ops = true ->
    alt_scan (wire_types (reach ops)) = Some (started (reach ops) && negb (kex_complete (sn (reach ops)))).
  Proof. intros X. exact (si_alt _ _ _ _ (inv_si _ (Inv_reach Hf c ops X))). Qed.

  Lemma order_always ops : forallb ext_ok ops = true -> err (reach ops) = None ->
    filter sess (wire_pkts (reach ops)) ++ filter sess (deferred (sn (reach ops))) = filter sess (sends_of ops).
  Proof.
    intros X Er. pose proof (inv_order _ (Inv_reach Hf c ops X)) as O. unfold ord in O.
    unfold reach in *. rewrite (asked_run Hf c ops init Er) in O. exact O.
  Qed.

  Lemma order_complete ops : forallb ext_ok ops = true -> err (reach ops) = None ->
    kex_complete (sn (reach ops)) = true -> auth_complete (reach ops) = true ->
    filter sess (wire_pkts (reach ops)) = filter sess (sends_of ops).
  Proof.
    intros X Er Hk Ha. rewrite <- (order_always ops X Er).
    pose proof (inv_J _ (Inv_reach Hf c ops X)) as J. unfold Jn in J. fold (reach ops) in J.
    rewrite J; [rewrite app_nil_r; reflexivity|]. cbn. rewrite Hk, Ha. reflexivity.
  Qed.

  Lemma sid_fixed ops1 ops2 : sid (reach ops1) <> [] -> sid (run Hf c ops2 (reach ops1)) = sid (reach ops1).
  Proof. apply sid_run. Qed.

  Lemma sid_first ops k h a r : forallb ext_ok ops = true -> forallb h_nonempty ops = true ->
    hist (reach ops) = (k, h, a) :: r -> sid (reach ops) = h.
  Proof.
    intros X Y Hh. pose proof (k_sid _ _ _ (K_run Hf c ops init X Y Inv_init (KInv_init Hf c))) as K.
    fold (reach ops) in K. rewrite Hh in K. exact (proj1 K).
  Qed.

  Lemma fresh_always ops : forallb ext_ok ops = true -> forallb h_nonempty ops = true ->
    let s := reach ops in
    let cs := is_client c in
    send_keys s = keys_at Hf cs (sid s) (hist s) (send_epoch s) /\
    Forall (fun w => w_keys w = keys_at Hf cs (sid s) (hist s) (w_epoch w)) (wire (sn s)) /\
    epoch_scan (wire (sn s)) = Some (send_epoch s) /\
    Z.of_nat (length (hist s)) = send_epoch s /\
    (staged s = None \/ staged s = keys_at Hf (negb cs) (sid s) (hist s) (send_epoch s)) /\
    (recv_keys s = None \/
     exists n, 0 < n <= send_epoch s /\ recv_keys s = keys_at Hf (negb cs) (sid s) (hist s) n).
  Proof.
    intros X Y s cs. pose proof (Inv_reach Hf c ops X) as I.
    pose proof (K_run Hf c ops init X Y Inv_init (KInv_init Hf c)) as K. fold (reach ops) in I, K. fold s in I, K.
    split; [exact (k_send _ _ _ K)|]. split.
    { pose proof (k_wire _ _ _ K) as W. unfold KW in W. eapply Forall_impl; [|exact W]. intros w [A _]. exact A. }
    split; [exact (si_epoch _ _ _ _ (inv_si _ I))|]. split; [exact (inv_hist _ I)|].
    split; [exact (k_staged _ _ _ K)|exact (k_recv _ _ _ K)].
  Qed.

  (* one completed exchange: the keys installed are derived from this exchange's K and H *)
  Lemma newkeys_installs s k h a ts : err s = None -> kex_active s = true ->
    let s' := step Hf c s (KexDone k h a, ts) in
    let sid' := if is_nil (sid s) then h else sid s in
    sid s' = sid' /\
    send_keys s' = Some (mk_keys Hf (is_client c) k h sid' a) /\
    staged s' = Some (mk_keys Hf (negb (is_client c)) k h sid' a) /\
    send_epoch s' = send_epoch s + 1 /\ hist s' = hist s ++ [(k, h, a)] /\ recv_keys s' = recv_keys s.
  Proof.
    intros Er Ka. unfold step. rewrite Er. cbn [fst snd run_act]. unfold send_newkeys. cbn [kex_active set_sn].
    rewrite Ka. cbn [negb]. cbv zeta. cbn [sid set_sn].
    repeat match goal with |- context [if ?b then _ else _] =>
      match b with is_nil _ => fail 1 | is_client _ => fail 1 | _ => destruct b end end;
    repeat split; reflexivity.
  Qed.

  Lemma cross_one_exchange s ext sp ts : Inv s -> err s = None -> started s = true ->
    kexinit_sent (sn s) = true -> staged s = None ->
    let s' := step Hf c s (RecvKexInit ext sp, ts) in
    wire (sn s') = wire (sn s) /\ kex_active s' = true /\ kexinit_sent (sn s') = false /\ err s' = None.
  Proof.
    intros I Er St Ks Sg. pose proof (si_mode _ _ _ _ (inv_si _ I)) as M. rewrite St, Ks in M.
    assert (Ka : kex_active s = false) by (destruct (kex_complete (sn s)), (kex_active s); cbn in M; congruence).
    unfold step. rewrite Er. cbn [fst snd run_act]. unfold process_kexinit. cbn [started kex_active staged set_sn sid].
    rewrite St, Ka, Sg. cbn [negb orb is_some].
    destruct (is_nil (sid s)); stcbn; prj; rewrite Ks; prj; auto.
  Qed.

  Lemma kexinit_before_newkeys s ext sp ts : err s = None -> started s = true -> staged s <> None ->
    err (step Hf c s (RecvKexInit ext sp, ts)) = Some E_KEX_IN_PROGRESS.
  Proof.
    intros Er St Sg. unfold step. rewrite Er. cbn [fst snd run_act]. unfold process_kexinit.
    cbn [started kex_active staged set_sn]. rewrite St. cbn [negb].
    destruct (staged s); [|congruence]. rewrite orb_true_r. reflexivity.
  Qed.

  Lemma newkeys_unsolicited s ts : err s = None -> staged s = None ->
    let s' := step Hf c s (RecvNewKeys, ts) in
    err s' = Some E_NEWKEYS /\ recv_keys s' = recv_keys s /\ recv_epoch s' = recv_epoch s.
  Proof.
    intros Er Sg. unfold step. rewrite Er. cbn [fst snd run_act]. unfold process_newkeys. cbn [staged set_sn].
    rewrite Sg. repeat split; reflexivity.
  Qed.

  Lemma newkeys_once ops : forallb ext_ok ops = true ->
    0 <= recv_epoch (reach ops) <= send_epoch (reach ops) /\
    (staged (reach ops) <> None -> recv_epoch (reach ops) < send_epoch (reach ops)).
  Proof. intros X. exact (inv_recv _ (Inv_reach Hf c ops X)). Qed.

  Lemma compress_always ops :
    cmp_ok [] (wire (sn (reach ops))) /\
    cmp_seen (sn (reach ops)) = cmp_fed (send_epoch (reach ops)) (wire (sn (reach ops))).
  Proof.
    destruct (CInv_run Hf c ops init CInv_init) as (A & B & _). split; [exact A|exact B].
  Qed.

  Lemma flushed_when_complete ops : forallb ext_ok ops = true ->
    kex_complete (sn (reach ops)) = true -> auth_complete (reach ops) = true ->
    filter sess (deferred (sn (reach ops))) = [].
  Proof.
    intros X Hk Ha. apply (inv_J _ (Inv_reach Hf c ops X)). cbn. fold (reach ops). rewrite Hk, Ha. reflexivity.
  Qed.
End Final.

(* the clock race: the trigger is evaluated once for the packet and once more for the IGNORE in front
   of it; if the rekey time falls between the two readings the data packet follows the KEXINIT *)
Definition race_cfg : cfg := mkC true 1000000 50 100 30 true.     (* legacy = true: the code before 97cb05d *)
Definition race_algs : algs := mkA 5 16 5 16 0 0 0 0 0 0 0 0.
Definition race_ops : list op :=
  [(RecvVersion, []); (RecvKexInit true true, []); (KexDone [1] [2] race_algs, []); (RecvNewKeys, []);
   (AuthBegin, []); (AuthDone, []); (Send (mkP 94 10 0), [10; 60])].

Lemma quiet_race : forall Hf, forallb ext_ok race_ops = true /\
  quiet_scan (wire_types (run Hf race_cfg race_ops init)) = None /\
  map p_ty (skipn 4 (wire_pkts (run Hf race_cfg race_ops init))) = [MSG_KEXINIT; MSG_IGNORE; 94].
Proof. intros Hf. vm_compute. auto. Qed.
