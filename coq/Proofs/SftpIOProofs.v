(* C12 - proofs about Model/SftpIO.v *)
From AV Require Import Base.Prelude Model.SftpIO.

(* ------------------------------------------------------------------------------------------ *)
(* Z-indexed lists *)

Lemma zlen_nonneg {A} (l : list A) : 0 <= zlen l.
Proof. unfold zlen. lia. Qed.

Lemma zlen_nil {A} : zlen (@nil A) = 0.
Proof. reflexivity. Qed.

Lemma zlen_app {A} (a b : list A) : zlen (a ++ b) = zlen a + zlen b.
Proof. unfold zlen. rewrite app_length. lia. Qed.

Lemma zlen_cons {A} (x : A) l : zlen (x :: l) = 1 + zlen l.
Proof. unfold zlen. simpl length. lia. Qed.

Lemma zlen_zero_nil {A} (l : list A) : zlen l = 0 -> l = [].
Proof. destruct l; [reflexivity|]. rewrite zlen_cons. pose proof (zlen_nonneg l). lia. Qed.

Lemma zlen_zeros n : zlen (zeros n) = Z.max 0 n.
Proof. unfold zlen, zeros. rewrite repeat_length. lia. Qed.

Lemma zlen_ztake n l : zlen (ztake n l) = Z.min (Z.max 0 n) (zlen l).
Proof. unfold zlen, ztake. rewrite firstn_length. lia. Qed.

Lemma zlen_zdrop n l : zlen (zdrop n l) = Z.max 0 (zlen l - Z.max 0 n).
Proof. unfold zlen, zdrop. rewrite skipn_length. lia. Qed.

Lemma znth_neg l i : i < 0 -> znth l i = 0.
Proof. intros H. unfold znth. destruct (i <? 0) eqn:E; [reflexivity|lia]. Qed.

Lemma znth_beyond l i : zlen l <= i -> znth l i = 0.
Proof.
  intros H. unfold znth. destruct (i <? 0) eqn:E; [reflexivity|].
  apply nth_overflow. unfold zlen in H. lia.
Qed.

Lemma znth_app l1 l2 i : 0 <= i ->
  znth (l1 ++ l2) i = if i <? zlen l1 then znth l1 i else znth l2 (i - zlen l1).
Proof.
  intros H. unfold znth, zlen.
  destruct (i <? 0) eqn:E0; [lia|].
  destruct (i <? Z.of_nat (length l1)) eqn:E1.
  - apply app_nth1. lia.
  - destruct (i - Z.of_nat (length l1) <? 0) eqn:E2; [lia|].
    rewrite app_nth2 by lia. f_equal. lia.
Qed.

Lemma znth_zeros n i : znth (zeros n) i = 0.
Proof.
  unfold znth, zeros. destruct (i <? 0); [reflexivity|].
  destruct (Nat.lt_ge_cases (Z.to_nat i) (Z.to_nat n)) as [H|H].
  - apply nth_repeat.
  - apply nth_overflow. rewrite repeat_length. exact H.
Qed.

Lemma nth_firstn_lt {A} (l : list A) n i d : (i < n)%nat -> nth i (firstn n l) d = nth i l d.
Proof.
  revert n i; induction l as [|x l IH]; intros [|n] [|i] H; simpl; try reflexivity; try lia.
  apply IH. lia.
Qed.

Lemma nth_skipn_add {A} (l : list A) n i d : nth i (skipn n l) d = nth (n + i) l d.
Proof.
  revert n; induction l as [|x l IH]; intros [|n]; simpl; try reflexivity.
  - destruct i; reflexivity.
  - apply IH.
Qed.

Lemma znth_ztake n l i : znth (ztake n l) i = if i <? n then znth l i else 0.
Proof.
  unfold znth, ztake. destruct (i <? 0) eqn:E0.
  - destruct (i <? n); reflexivity.
  - destruct (i <? n) eqn:E1.
    + apply nth_firstn_lt. lia.
    + apply nth_overflow. rewrite firstn_length. lia.
Qed.

Lemma znth_zdrop n l i : 0 <= n -> 0 <= i -> znth (zdrop n l) i = znth l (n + i).
Proof.
  intros Hn Hi. unfold znth, zdrop.
  destruct (i <? 0) eqn:E0; [lia|]. destruct (n + i <? 0) eqn:E1; [lia|].
  rewrite nth_skipn_add. f_equal. lia.
Qed.

Lemma zlist_ext (a b : bytes) :
  zlen a = zlen b -> (forall i, 0 <= i < zlen a -> znth a i = znth b i) -> a = b.
Proof.
  intros HL HN. apply nth_ext with (d := 0) (d' := 0).
  - unfold zlen in HL. lia.
  - intros n Hn. specialize (HN (Z.of_nat n)). unfold znth, zlen in HN.
    destruct (Z.of_nat n <? 0) eqn:E; [lia|]. rewrite Nat2Z.id in HN. apply HN. lia.
Qed.

Lemma zlen_slice F o n : 0 <= o -> 0 <= n -> zlen (slice F o n) = Z.max 0 (Z.min n (zlen F - o)).
Proof. intros. unfold slice. rewrite zlen_ztake, zlen_zdrop. lia. Qed.

Lemma znth_slice F o n i : 0 <= o -> 0 <= i -> znth (slice F o n) i = if i <? n then znth F (o + i) else 0.
Proof.
  intros Ho Hi. unfold slice. rewrite znth_ztake. destruct (i <? n); [|reflexivity].
  apply znth_zdrop; lia.
Qed.

(* reasm = pad + splice, characterised by length and pointwise *)
Lemma zlen_reasm buf pos d : 0 <= pos ->
  zlen (reasm buf pos d) = Z.max (Z.max (zlen buf) pos) (pos + zlen d).
Proof.
  intros H. unfold reasm. rewrite !zlen_app, zlen_ztake, zlen_zdrop, !zlen_app, zlen_zeros.
  pose proof (zlen_nonneg buf). pose proof (zlen_nonneg d). lia.
Qed.

Lemma znth_reasm buf pos d i : 0 <= pos -> 0 <= i ->
  znth (reasm buf pos d) i =
    if (pos <=? i) && (i <? pos + zlen d) then znth d (i - pos) else znth buf i.
Proof.
  intros Hp Hi. unfold reasm.
  pose proof (zlen_nonneg buf) as Hb. pose proof (zlen_nonneg d) as Hd.
  set (buf' := buf ++ zeros (pos - zlen buf)).
  assert (Hlen : zlen buf' = Z.max (zlen buf) pos).
  { unfold buf'. rewrite zlen_app, zlen_zeros. lia. }
  assert (Hnth : forall j, 0 <= j -> znth buf' j = znth buf j).
  { intros j Hj. unfold buf'. rewrite znth_app by lia.
    destruct (j <? zlen buf) eqn:E; [reflexivity|].
    rewrite znth_zeros. symmetry. apply znth_beyond. lia. }
  rewrite znth_app by lia. rewrite zlen_ztake, Hlen.
  replace (Z.min (Z.max 0 pos) (Z.max (zlen buf) pos)) with pos by lia.
  destruct (i <? pos) eqn:E1.
  - rewrite znth_ztake, E1. replace ((pos <=? i) && (i <? pos + zlen d)) with false by lia.
    apply Hnth; lia.
  - rewrite znth_app by lia.
    destruct (i - pos <? zlen d) eqn:E2.
    + replace ((pos <=? i) && (i <? pos + zlen d)) with true by lia. reflexivity.
    + replace ((pos <=? i) && (i <? pos + zlen d)) with false by lia.
      rewrite znth_zdrop by lia. rewrite Hnth by lia. f_equal. lia.
Qed.

Lemma zlen_file_write f pos d : 0 <= pos ->
  zlen (file_write f pos d) = if zlen d =? 0 then zlen f else Z.max (zlen f) (pos + zlen d).
Proof.
  intros H. destruct d as [|x d].
  - reflexivity.
  - unfold file_write. rewrite zlen_reasm by lia. rewrite zlen_cons.
    pose proof (zlen_nonneg d). pose proof (zlen_nonneg f).
    destruct (1 + zlen d =? 0) eqn:E; lia.
Qed.

Lemma znth_file_write f pos d i : 0 <= pos -> 0 <= i ->
  znth (file_write f pos d) i =
    if (pos <=? i) && (i <? pos + zlen d) then znth d (i - pos) else znth f i.
Proof.
  intros Hp Hi. destruct d as [|x d].
  - simpl file_write. rewrite zlen_nil. replace ((pos <=? i) && (i <? pos + 0)) with false by lia. reflexivity.
  - unfold file_write. apply znth_reasm; lia.
Qed.

(* ------------------------------------------------------------------------------------------ *)
(* scheduler *)

Lemma in_remove_nth {A} i (l : list A) x : In x (remove_nth i l) -> In x l.
Proof.
  revert i; induction l as [|y l IH]; intros [|i]; unfold remove_nth; simpl; auto.
  intros [H|H]; auto. right. apply (IH i). exact H.
Qed.

Lemma in_split_remove {A} i (l : list A) x : nth_error l i = Some x ->
  forall y, In y l -> y = x \/ In y (remove_nth i l).
Proof.
  revert i; induction l as [|a l IH]; intros [|i] H y Hy; simpl in H; try discriminate.
  - inversion H; subst. destruct Hy as [->|Hy]; [left; reflexivity|right; exact Hy].
  - destruct Hy as [->|Hy].
    + right. unfold remove_nth. simpl. left. reflexivity.
    + destruct (IH i H y Hy) as [->|Hin]; [left; reflexivity|].
      right. unfold remove_nth in *. simpl. right. exact Hin.
Qed.

Definition covers (pend : list (Z * Z)) (q : Z) : Prop :=
  exists o z, In (o, z) pend /\ o <= q < o + z.

(* the scheduler state after one successful task completion with count c *)
Definition after (p : pio) (i : nat) (o z c : Z) : pio :=
  let p' := set_pend p (remove_nth i (p_pend p)) in
  if negb (c =? 0) && (c <? z) then add_req p' (o + c) (z - c) else p'.

Lemma after_fields p i o z c :
  p_bs (after p i o z c) = p_bs p /\ p_max (after p i o z c) = p_max p /\
  p_off (after p i o z c) = p_off p /\ p_left (after p i o z c) = p_left p.
Proof. unfold after. destruct (negb (c =? 0) && (c <? z)); simpl; auto. Qed.

Lemma after_in p i o z c x : In x (p_pend (after p i o z c)) ->
  In x (p_pend p) \/ (x = (o + c, z - c) /\ c <> 0 /\ c < z).
Proof.
  unfold after. destruct (negb (c =? 0) && (c <? z)) eqn:E; simpl.
  - rewrite in_app_iff. intros [H|[H|[]]].
    + left. eapply in_remove_nth; eauto.
    + right. split; [symmetry; exact H|lia].
  - intros H. left. eapply in_remove_nth; eauto.
Qed.

Lemma after_cov p i o z c q : nth_error (p_pend p) i = Some (o, z) -> 1 <= c <= z ->
  covers (p_pend p) q -> covers (p_pend (after p i o z c)) q \/ o <= q < o + c.
Proof.
  intros Hn Hc (o' & z' & Hin & Hq).
  destruct (in_split_remove i _ _ Hn _ Hin) as [Heq|Hin'].
  - inversion Heq; subst o' z'.
    destruct (q <? o + c) eqn:E; [right; lia|].
    left. exists (o + c), (z - c). split; [|lia].
    unfold after. replace (negb (c =? 0) && (c <? z)) with true by lia.
    simpl. apply in_or_app. right. left. reflexivity.
  - left. exists o', z'. split; [|exact Hq].
    unfold after. destruct (negb (c =? 0) && (c <? z)); simpl; [apply in_or_app; left|]; exact Hin'.
Qed.

Lemma covers_remove p i o z q : nth_error p i = Some (o, z) ->
  covers p q -> covers (remove_nth i p) q \/ o <= q < o + z.
Proof.
  intros Hn (o' & z' & Hin & Hq).
  destruct (in_split_remove i _ _ Hn _ Hin) as [Heq|Hin'].
  - inversion Heq; subst. right. exact Hq.
  - left. exists o', z'. auto.
Qed.

Lemma start_tasks_inv (P : pio -> Prop) :
  (forall s, P s -> p_left s <> 0 -> zlen (p_pend s) < p_max s ->
     P (set_range (add_req s (p_off s) (Z.min (p_left s) (p_bs s)))
                  (p_off s + Z.min (p_left s) (p_bs s)) (p_left s - Z.min (p_left s) (p_bs s)))) ->
  forall fuel s, P s -> P (start_tasks fuel s).
Proof.
  intros Hstep. induction fuel as [|f IH]; intros s Hs; simpl; [exact Hs|].
  destruct ((p_left s =? 0) || (p_max s <=? zlen (p_pend s))) eqn:E; [exact Hs|].
  apply IH. apply Hstep; [exact Hs|lia|lia].
Qed.

Lemma start_tasks_const fuel s :
  p_bs (start_tasks fuel s) = p_bs s /\ p_max (start_tasks fuel s) = p_max s.
Proof.
  revert s; induction fuel as [|f IH]; intros s; simpl; [auto|].
  destruct ((p_left s =? 0) || (p_max s <=? zlen (p_pend s))); [auto|].
  destruct (IH (set_range (add_req s (p_off s) (Z.min (p_left s) (p_bs s)))
                  (p_off s + Z.min (p_left s) (p_bs s)) (p_left s - Z.min (p_left s) (p_bs s)))) as [H1 H2].
  rewrite H1, H2. simpl. auto.
Qed.

Lemma start_tasks_full fuel s : 0 < p_max s -> (fuel <> O \/ p_pend s <> []) ->
  p_left (start_tasks fuel s) = 0 \/ p_pend (start_tasks fuel s) <> [].
Proof.
  revert s; induction fuel as [|f IH]; intros s Hm Hpre; simpl.
  - destruct Hpre as [H|H]; [contradiction|right; exact H].
  - destruct ((p_left s =? 0) || (p_max s <=? zlen (p_pend s))) eqn:E.
    + destruct (p_left s =? 0) eqn:E1; [left; lia|]. right.
      intros Hn. rewrite Hn, zlen_nil in E. simpl in E. lia.
    + apply IH; [simpl; exact Hm|]. right. simpl. destruct (p_pend s); discriminate.
Qed.

Lemma refill_full s : 0 < p_max s -> p_left (refill s) = 0 \/ p_pend (refill s) <> [].
Proof. intros H. unfold refill. apply start_tasks_full; [exact H|]. left. lia. Qed.

(* invariant transport along an honest schedule *)
Section MachineProofs.
  Context {A R : Type}.
  Variable handle : A -> Z -> Z -> R -> A * outcome.
  Variable honest : Z -> Z -> R -> bool.
  Variable I : mach A -> Prop.
  Hypothesis I_complete : forall s ir o z, I s -> m_failed s = false ->
      nth_error (p_pend (m_pio s)) (fst ir) = Some (o, z) -> honest o z (snd ir) = true ->
      I (complete handle s ir) /\ m_failed (complete handle s ir) = false.
  Hypothesis I_refill : forall s, I s -> m_failed s = false ->
      I (mkMach (refill (m_pio s)) (m_acc s) false).

  Lemma picks_inv : forall b s, I s -> m_failed s = false -> honest_picks handle honest s b = true ->
     I (fold_left (complete handle) b s) /\ m_failed (fold_left (complete handle) b s) = false.
  Proof.
    induction b as [|ir b IH]; intros s Hs Hf Hh; simpl; [auto|].
    simpl in Hh. destruct (nth_error (p_pend (m_pio s)) (fst ir)) as [[o z]|] eqn:En; [|discriminate].
    apply andb_true_iff in Hh as [Hh1 Hh2].
    destruct (I_complete s ir o z Hs Hf En Hh1) as [Hi Hf'].
    apply IH; assumption.
  Qed.

  Lemma batch_inv s b : I s -> m_failed s = false -> honest_picks handle honest s b = true ->
     I (batch handle s b) /\ m_failed (batch handle s b) = false.
  Proof.
    intros Hs Hf Hh. unfold batch. rewrite Hf.
    destruct (picks_inv b s Hs Hf Hh) as [Hi Hf']. rewrite Hf'.
    split; [apply I_refill; assumption|reflexivity].
  Qed.

  Lemma run_inv : forall sched s, I s -> m_failed s = false -> honest_run handle honest s sched = true ->
     I (fold_left (batch handle) sched s) /\ m_failed (fold_left (batch handle) sched s) = false.
  Proof.
    induction sched as [|b r IH]; intros s Hs Hf Hh; simpl; [auto|].
    simpl in Hh. apply andb_true_iff in Hh as [Hh1 Hh2].
    destruct (batch_inv s b Hs Hf Hh1) as [Hi Hf'].
    apply IH; assumption.
  Qed.
End MachineProofs.

(* after any number of batches the scheduler is either failed, or has work outstanding, or has
   nothing left to schedule *)
Definition settled {A} (s : mach A) : Prop :=
  0 < p_max (m_pio s) /\ (m_failed s = false -> p_pend (m_pio s) = [] -> p_left (m_pio s) = 0).

Section Settled.
  Context {A R : Type}.
  Variable handle : A -> Z -> Z -> R -> A * outcome.

  Lemma complete_max s ir : p_max (m_pio (complete handle s ir)) = p_max (m_pio s).
  Proof.
    unfold complete. destruct (nth_error (p_pend (m_pio s)) (fst ir)) as [[o z]|]; [|reflexivity].
    destruct (handle (m_acc s) o z (snd ir)) as [a [c| |]]; simpl; try reflexivity.
    destruct (negb (c =? 0) && (c <? z)); reflexivity.
  Qed.

  Lemma fold_complete_max b : forall s, p_max (m_pio (fold_left (complete handle) b s)) = p_max (m_pio s).
  Proof. induction b as [|ir b IH]; intros s; simpl; [reflexivity|]. rewrite IH. apply complete_max. Qed.

  Lemma batch_settled s b : settled s -> settled (batch handle s b).
  Proof.
    intros [Hm Hs]. unfold batch. destruct (m_failed s) eqn:Ef; [split; [exact Hm|intros; congruence]|].
    destruct (m_failed (fold_left (complete handle) b s)) eqn:Ef'.
    - split; [simpl; rewrite fold_complete_max; exact Hm|simpl; intros; discriminate].
    - split; simpl.
      + destruct (start_tasks_const (Z.to_nat (p_max (m_pio (fold_left (complete handle) b s))))
                    (m_pio (fold_left (complete handle) b s))) as [_ H2].
        unfold refill. rewrite H2, fold_complete_max. exact Hm.
      + intros _ Hp. destruct (refill_full (m_pio (fold_left (complete handle) b s))) as [H|H].
        * rewrite fold_complete_max. exact Hm.
        * exact H.
        * contradiction.
  Qed.

  Lemma run_settled : forall sched s, settled s -> settled (fold_left (batch handle) sched s).
  Proof. induction sched as [|b r IH]; intros s Hs; simpl; [exact Hs|]. apply IH. apply batch_settled. exact Hs. Qed.
End Settled.

Lemma init_settled {A} bs mx off size (a : A) : 0 < mx -> settled (mach_init bs mx off size a).
Proof.
  intros H. unfold mach_init, settled. simpl. split.
  - unfold refill. destruct (start_tasks_const (Z.to_nat (p_max (pio_init bs mx off size))) (pio_init bs mx off size)) as [_ H2].
    rewrite H2. exact H.
  - intros _ Hp. destruct (refill_full (pio_init bs mx off size) H) as [H1|H1]; [exact H1|contradiction].
Qed.

(* ------------------------------------------------------------------------------------------ *)
(* reader *)

Lemma covers_app_l pend x q : covers pend q -> covers (pend ++ x) q.
Proof. intros (o & z & Hin & Hq). exists o, z. split; [apply in_or_app; left; exact Hin|exact Hq]. Qed.

Lemma covers_nil q : ~ covers [] q.
Proof. intros (o & z & [] & _). Qed.

Lemma honest_read_data F o z d : honest_read F o z (RData d) = true ->
  1 <= zlen d <= z /\ o + zlen d <= zlen F /\ d = slice F o (zlen d).
Proof.
  unfold honest_read. rewrite !andb_true_iff, !Z.leb_le, zlist_eqb_spec. tauto.
Qed.

Section Reader.
  Variable F : bytes.
  Variables start hi : Z.
  Hypothesis Hstart : 0 <= start.

  Record rinv (s : mach bytes) : Prop := mkRinv {
    ri_bs : 0 < p_bs (m_pio s);
    ri_max : 0 < p_max (m_pio s);
    ri_left : 0 <= p_left (m_pio s);
    ri_off : start <= p_off (m_pio s) <= hi;
    ri_pend : forall o z, In (o, z) (p_pend (m_pio s)) -> 0 < z /\ start <= o /\ o + z <= p_off (m_pio s);
    ri_rest : p_off (m_pio s) + p_left (m_pio s) = hi \/
              (p_left (m_pio s) = 0 /\ zlen F <= p_off (m_pio s));
    ri_cov : forall q, start <= q < Z.min (p_off (m_pio s)) (zlen F) ->
               covers (p_pend (m_pio s)) q \/
               (q - start < zlen (m_acc s) /\ znth (m_acc s) (q - start) = znth F q);
    ri_len : zlen (m_acc s) <= Z.max 0 (Z.min (p_off (m_pio s)) (zlen F) - start)
  }.

  Lemma reader_complete_inv s ir o z : rinv s -> m_failed s = false ->
    nth_error (p_pend (m_pio s)) (fst ir) = Some (o, z) -> honest_read F o z (snd ir) = true ->
    rinv (complete (reader_handle start) s ir) /\ m_failed (complete (reader_handle start) s ir) = false.
  Proof.
    intros Hi Hf Hn Hh. destruct ir as [i r]. simpl fst in *. simpl snd in *.
    destruct Hi as [Hbs Hmax Hleft Hoff Hpend Hrest Hcov Hlen].
    pose proof (Hpend o z (nth_error_In _ _ Hn)) as (Hz & Hso & Hoz).
    unfold complete. simpl fst. simpl snd. rewrite Hn.
    destruct r as [d| |]; simpl reader_handle; cbv iota beta.
    - (* data *)
      apply honest_read_data in Hh as (Hc & HcE & Hd).
      change (rinv (mkMach (after (m_pio s) i o z (zlen d)) (reasm (m_acc s) (o - start) d) (m_failed s)) /\
              m_failed (mkMach (after (m_pio s) i o z (zlen d)) (reasm (m_acc s) (o - start) d) (m_failed s)) = false).
      split; [|exact Hf].
      destruct (after_fields (m_pio s) i o z (zlen d)) as (F1 & F2 & F3 & F4).
      assert (Hzl : zlen (reasm (m_acc s) (o - start) d) =
                    Z.max (Z.max (zlen (m_acc s)) (o - start)) (o - start + zlen d))
        by (apply zlen_reasm; lia).
      constructor; simpl m_pio; simpl m_acc; rewrite ?F1, ?F2, ?F3, ?F4; try assumption.
      + intros o' z' Hin. apply after_in in Hin as [Hin|(Heq & Hc0 & Hcz)].
        * apply Hpend; exact Hin.
        * inversion Heq; subst. lia.
      + intros q Hq.
        assert (Hdone : o <= q < o + zlen d ->
                  q - start < zlen (reasm (m_acc s) (o - start) d) /\
                  znth (reasm (m_acc s) (o - start) d) (q - start) = znth F q).
        { intros Hr. split; [rewrite Hzl; lia|].
          rewrite znth_reasm by lia.
          replace ((o - start <=? q - start) && (q - start <? o - start + zlen d)) with true by lia.
          rewrite Hd at 1. rewrite znth_slice by lia.
          replace (q - start - (o - start) <? zlen d) with true by lia. f_equal. lia. }
        destruct (Hcov q Hq) as [Hc1|[Hl Hv]].
        * destruct (after_cov _ _ _ _ _ q Hn Hc Hc1) as [Hc2|Hr]; [left; exact Hc2|right; apply Hdone; exact Hr].
        * right. destruct ((o <=? q) && (q <? o + zlen d)) eqn:E.
          -- apply Hdone. lia.
          -- split; [rewrite Hzl; lia|].
             rewrite znth_reasm by lia.
             replace ((o - start <=? q - start) && (q - start <? o - start + zlen d)) with false by lia.
             exact Hv.
      + rewrite Hzl. lia.
    - (* eof *)
      unfold honest_read in Hh. apply Z.leb_le in Hh.
      split; [|exact Hf].
      constructor; simpl; try assumption; try lia.
      + intros o' z' Hin. apply Hpend. eapply in_remove_nth; eauto.
      + intros q Hq. destruct (Hcov q Hq) as [Hc1|Hd]; [|right; exact Hd].
        destruct (covers_remove _ _ _ _ q Hn Hc1) as [Hc2|Hr]; [left; exact Hc2|lia].
    - discriminate.
  Qed.

  Lemma reader_refill_inv s : rinv s -> m_failed s = false ->
    rinv (mkMach (refill (m_pio s)) (m_acc s) false).
  Proof.
    intros Hi _. unfold refill.
    apply (start_tasks_inv (fun p => rinv (mkMach p (m_acc s) false))).
    - clear Hi. intros p Hi Hl0 Hroom.
      destruct Hi as [Hbs Hmax Hleft Hoff Hpend Hrest Hcov Hlen]. simpl in *.
      set (sz := Z.min (p_left p) (p_bs p)) in *.
      assert (Hsz : 0 < sz <= p_left p) by (unfold sz; lia).
      constructor; simpl; try assumption; try lia.
      + intros o z Hin. apply in_app_or in Hin as [Hin|[Heq|[]]].
        * specialize (Hpend o z Hin). lia.
        * inversion Heq; subst. lia.
      + intros q Hq. destruct (q <? p_off p) eqn:E.
        * destruct (Hcov q) as [Hc|Hd]; [lia|left; apply covers_app_l; exact Hc|right; exact Hd].
        * left. exists (p_off p), sz. split; [apply in_or_app; right; left; reflexivity|lia].
    - destruct s as [p a f]. simpl in *.
      destruct Hi as [Hbs Hmax Hleft Hoff Hpend Hrest Hcov Hlen]. constructor; assumption.
  Qed.
End Reader.

Lemma reader_init_inv F bs mx start size : 0 < bs -> 0 < mx -> 0 <= start -> 0 <= size ->
  rinv F start (start + size) (reader_init bs mx start size).
Proof.
  intros Hbs Hmx Hs Hz. unfold reader_init, mach_init.
  apply (reader_refill_inv F start (start + size) (mkMach (pio_init bs mx start size) [] false)); [|reflexivity].
  constructor; simpl; try lia.
  all: try (intros o z []).
  all: try (rewrite zlen_nil; lia).
Qed.

Theorem reader_correct F bs mx start size sched :
  0 < bs -> 0 < mx -> 0 <= start -> 0 <= size ->
  honest_run (reader_handle start) (honest_read F) (reader_init bs mx start size) sched = true ->
  p_pend (m_pio (reader_run bs mx start size sched)) = [] ->
  mach_result (reader_run bs mx start size sched) = Done (slice F start size).
Proof.
  intros Hbs Hmx Hs Hz Hh Hp. unfold reader_run in *.
  destruct (run_inv (reader_handle start) (honest_read F) (rinv F start (start + size))
              (reader_complete_inv F start (start + size) Hs)
              (reader_refill_inv F start (start + size))
              sched (reader_init bs mx start size)
              (reader_init_inv F bs mx start size Hbs Hmx Hs Hz) eq_refl Hh) as [Hi Hf].
  fold (reader_batch start) in *.
  set (sf := fold_left (reader_batch start) sched (reader_init bs mx start size)) in *.
  assert (Hset : p_left (m_pio sf) = 0).
  { destruct (run_settled (reader_handle start) sched (reader_init bs mx start size)
                (init_settled bs mx start size [] Hmx)) as [_ Hs0]. apply Hs0; assumption. }
  unfold mach_result. rewrite Hf, Hp. f_equal.
  destruct Hi as [_ _ _ Hoff Hpend Hrest Hcov Hlen].
  set (M := Z.min (p_off (m_pio sf)) (zlen F)) in *.
  assert (HM : M = Z.min (start + size) (zlen F)) by (unfold M; lia).
  assert (HL : zlen (m_acc sf) = Z.max 0 (M - start)).
  { pose proof (zlen_nonneg (m_acc sf)) as Hnn.
    destruct (Z_lt_le_dec start M) as [Hlt|Hge]; [|lia].
    destruct (Hcov (M - 1)) as [Hc|[Hd _]]; [lia| |lia].
    rewrite Hp in Hc. exfalso. exact (covers_nil _ Hc). }
  apply zlist_ext.
  - rewrite zlen_slice by lia. lia.
  - intros i Hi. rewrite znth_slice by lia.
    replace (i <? size) with true by lia.
    destruct (Hcov (start + i)) as [Hc|[_ Hv]]; [lia| |].
    + rewrite Hp in Hc. exfalso. exact (covers_nil _ Hc).
    + replace (start + i - start) with i in Hv by lia. exact Hv.
Qed.

(* ------------------------------------------------------------------------------------------ *)
(* a failed block fails the operation, whatever else happens *)

Section ErrorSticky.
  Context {A R : Type}.
  Variable handle : A -> Z -> Z -> R -> A * outcome.

  Lemma complete_failed_mono s ir : m_failed s = true -> m_failed (complete handle s ir) = true.
  Proof.
    intros H. unfold complete. destruct (nth_error (p_pend (m_pio s)) (fst ir)) as [[o z]|]; [|exact H].
    destruct (handle (m_acc s) o z (snd ir)) as [a [c| |]]; simpl; auto.
  Qed.

  Lemma fold_complete_failed_mono b : forall s, m_failed s = true -> m_failed (fold_left (complete handle) b s) = true.
  Proof. induction b as [|ir b IH]; intros s H; simpl; [exact H|]. apply IH. apply complete_failed_mono. exact H. Qed.

  Lemma complete_err s i r o z : nth_error (p_pend (m_pio s)) i = Some (o, z) ->
    snd (handle (m_acc s) o z r) = OErr -> m_failed (complete handle s (i, r)) = true.
  Proof.
    intros Hn He. unfold complete. simpl fst. simpl snd. rewrite Hn.
    destruct (handle (m_acc s) o z r) as [a oc]. simpl in He. subst oc. reflexivity.
  Qed.

  Lemma batch_failed_id s b : m_failed s = true -> batch handle s b = s.
  Proof. intros H. unfold batch. rewrite H. reflexivity. Qed.

  Lemma run_failed_id : forall sched s, m_failed s = true -> fold_left (batch handle) sched s = s.
  Proof. induction sched as [|b r IH]; intros s H; simpl; [reflexivity|]. rewrite batch_failed_id by exact H. apply IH. exact H. Qed.

  Lemma batch_failed s b : m_failed (fold_left (complete handle) b s) = true -> m_failed (batch handle s b) = true.
  Proof.
    intros H. unfold batch. destruct (m_failed s) eqn:E; [exact E|]. rewrite H. reflexivity.
  Qed.

  Theorem machine_error s pre i r post sched o z :
    nth_error (p_pend (m_pio (fold_left (complete handle) pre s))) i = Some (o, z) ->
    snd (handle (m_acc (fold_left (complete handle) pre s)) o z r) = OErr ->
    mach_result (fold_left (batch handle) sched (batch handle s (pre ++ (i, r) :: post))) = Failed.
  Proof.
    intros Hn He.
    assert (Hf : m_failed (batch handle s (pre ++ (i, r) :: post)) = true).
    { apply batch_failed. rewrite fold_left_app. simpl. apply fold_complete_failed_mono.
      eapply complete_err; eauto. }
    rewrite run_failed_id by exact Hf. unfold mach_result. rewrite Hf. reflexivity.
  Qed.
End ErrorSticky.

(* ------------------------------------------------------------------------------------------ *)
(* writer *)

Lemma chain_app lo l mid z : chain lo l mid -> 0 < z -> chain lo (l ++ [(mid, z)]) (mid + z).
Proof.
  revert lo; induction l as [|[o z'] l IH]; intros lo H Hz; simpl in *.
  - subst. auto.
  - destruct H as (H1 & H2 & H3). auto.
Qed.

Section Writer.
  Variables data D0 : bytes.
  Variable start : Z.
  Hypothesis Hstart : 0 <= start.

  Record winv (s : mach bytes) : Prop := mkWinv {
    wi_bs : 0 < p_bs (m_pio s);
    wi_max : 0 < p_max (m_pio s);
    wi_left : 0 <= p_left (m_pio s);
    wi_off : start <= p_off (m_pio s);
    wi_pend : forall o z, In (o, z) (p_pend (m_pio s)) -> 0 < z /\ start <= o /\ o + z <= p_off (m_pio s);
    wi_rest : p_off (m_pio s) + p_left (m_pio s) = start + zlen data;
    wi_cov : forall q, start <= q < p_off (m_pio s) ->
               covers (p_pend (m_pio s)) q \/
               (q < zlen (m_acc s) /\ znth (m_acc s) q = znth data (q - start));
    wi_out : forall q, 0 <= q -> ~ (start <= q < p_off (m_pio s)) -> znth (m_acc s) q = znth D0 q;
    wi_len : zlen D0 <= zlen (m_acc s) <= Z.max (zlen D0) (p_off (m_pio s));
    wi_len2 : zlen D0 < zlen (m_acc s) -> start < zlen (m_acc s);
    wi_sent : chain start (p_sent (m_pio s)) (p_off (m_pio s))
  }.

  Lemma writer_complete_inv s ir o z : winv s -> m_failed s = false ->
    nth_error (p_pend (m_pio s)) (fst ir) = Some (o, z) -> honest_write o z (snd ir) = true ->
    winv (complete (writer_handle start data) s ir) /\
    m_failed (complete (writer_handle start data) s ir) = false.
  Proof.
    intros Hi Hf Hn Hh. destruct ir as [i r]. simpl fst in *. simpl snd in *.
    destruct Hi as [Hbs Hmax Hleft Hoff Hpend Hrest Hcov Hout Hlen Hlen2 Hsent].
    pose proof (Hpend o z (nth_error_In _ _ Hn)) as (Hz & Hso & Hoz).
    unfold complete. simpl fst. simpl snd. rewrite Hn.
    destruct r; [|discriminate]. simpl writer_handle. cbv iota beta.
    replace (negb (z =? 0) && (z <? z)) with false by lia.
    split; [|exact Hf].
    set (w := slice data (o - start) z).
    assert (Hwl : zlen w = z).
    { unfold w. rewrite zlen_slice by lia. pose proof (zlen_nonneg data). lia. }
    assert (Hzl : zlen (file_write (m_acc s) o w) = Z.max (zlen (m_acc s)) (o + z)).
    { rewrite zlen_file_write by lia. rewrite Hwl. replace (z =? 0) with false by lia. reflexivity. }
    assert (Hzn : forall q, 0 <= q -> znth (file_write (m_acc s) o w) q =
                    if (o <=? q) && (q <? o + z) then znth data (q - start) else znth (m_acc s) q).
    { intros q Hq. rewrite znth_file_write by lia. rewrite Hwl.
      destruct ((o <=? q) && (q <? o + z)) eqn:E; [|reflexivity].
      unfold w. rewrite znth_slice by lia. replace (q - o <? z) with true by lia. f_equal. lia. }
    constructor; simpl; try assumption.
    - intros o' z' Hin. apply Hpend. eapply in_remove_nth; eauto.
    - intros q Hq. destruct (Hcov q Hq) as [Hc1|[Hl Hv]].
      + destruct (covers_remove _ _ _ _ q Hn Hc1) as [Hc2|Hr]; [left; exact Hc2|].
        right. split; [rewrite Hzl; lia|]. rewrite Hzn by lia.
        replace ((o <=? q) && (q <? o + z)) with true by lia. reflexivity.
      + right. split; [rewrite Hzl; lia|]. rewrite Hzn by lia.
        destruct ((o <=? q) && (q <? o + z)); [reflexivity|exact Hv].
    - intros q Hq Hnot. rewrite Hzn by lia.
      replace ((o <=? q) && (q <? o + z)) with false by lia. apply Hout; assumption.
    - rewrite Hzl. lia.
    - rewrite Hzl. lia.
  Qed.

  Lemma writer_refill_inv s : winv s -> m_failed s = false ->
    winv (mkMach (refill (m_pio s)) (m_acc s) false).
  Proof.
    intros Hi _. unfold refill.
    apply (start_tasks_inv (fun p => winv (mkMach p (m_acc s) false))).
    - clear Hi. intros p Hi Hl0 Hroom.
      destruct Hi as [Hbs Hmax Hleft Hoff Hpend Hrest Hcov Hout Hlen Hlen2 Hsent]. simpl in *.
      set (sz := Z.min (p_left p) (p_bs p)) in *.
      assert (Hsz : 0 < sz <= p_left p) by (unfold sz; lia).
      constructor; simpl; try assumption; try lia.
      + intros o z Hin. apply in_app_or in Hin as [Hin|[Heq|[]]].
        * specialize (Hpend o z Hin). lia.
        * inversion Heq; subst. lia.
      + intros q Hq. destruct (q <? p_off p) eqn:E.
        * destruct (Hcov q) as [Hc|Hd]; [lia|left; apply covers_app_l; exact Hc|right; exact Hd].
        * left. exists (p_off p), sz. split; [apply in_or_app; right; left; reflexivity|lia].
      + intros q Hq Hnot. apply Hout; [exact Hq|lia].
      + apply chain_app; [exact Hsent|lia].
    - destruct s as [p a f]. simpl in *.
      destruct Hi. constructor; assumption.
  Qed.
End Writer.

Lemma writer_init_inv data D0 bs mx start : 0 < bs -> 0 < mx -> 0 <= start ->
  winv data D0 start (writer_init bs mx start data D0).
Proof.
  intros Hbs Hmx Hs. unfold writer_init, mach_init.
  apply (writer_refill_inv data D0 start Hs (mkMach (pio_init bs mx start (zlen data)) D0 false)); [|reflexivity].
  pose proof (zlen_nonneg data). pose proof (zlen_nonneg D0).
  constructor; simpl; try lia; try reflexivity.
  all: try (intros o z []).
  all: try (intros; reflexivity).
Qed.

Theorem writer_correct data D0 bs mx start sched :
  0 < bs -> 0 < mx -> 0 <= start ->
  honest_run (writer_handle start data) honest_write (writer_init bs mx start data D0) sched = true ->
  p_pend (m_pio (writer_run bs mx start data D0 sched)) = [] ->
  mach_result (writer_run bs mx start data D0 sched) = Done (file_write D0 start data) /\
  chain start (p_sent (m_pio (writer_run bs mx start data D0 sched))) (start + zlen data).
Proof.
  intros Hbs Hmx Hs Hh Hp. unfold writer_run in *.
  destruct (run_inv (writer_handle start data) honest_write (winv data D0 start)
              (writer_complete_inv data D0 start Hs)
              (writer_refill_inv data D0 start Hs)
              sched (writer_init bs mx start data D0)
              (writer_init_inv data D0 bs mx start Hbs Hmx Hs) eq_refl Hh) as [Hi Hf].
  fold (writer_batch start data) in *.
  set (sf := fold_left (writer_batch start data) sched (writer_init bs mx start data D0)) in *.
  assert (Hset : p_left (m_pio sf) = 0).
  { destruct (run_settled (writer_handle start data) sched (writer_init bs mx start data D0)
                (init_settled bs mx start (zlen data) D0 Hmx)) as [_ Hs0]. apply Hs0; assumption. }
  destruct Hi as [_ _ _ Hoff Hpend Hrest Hcov Hout Hlen Hlen2 Hsent].
  assert (Hhi : p_off (m_pio sf) = start + zlen data) by lia.
  split; [|rewrite <- Hhi; exact Hsent].
  unfold mach_result. rewrite Hf, Hp. f_equal.
  pose proof (zlen_nonneg data) as Hn. pose proof (zlen_nonneg D0) as Hn0.
  assert (HL : zlen (m_acc sf) = if zlen data =? 0 then zlen D0 else Z.max (zlen D0) (start + zlen data)).
  { destruct (zlen data =? 0) eqn:E.
    - destruct (Z_lt_le_dec (zlen D0) (zlen (m_acc sf))) as [Hlt|Hge]; [|lia].
      specialize (Hlen2 Hlt). lia.
    - destruct (Hcov (start + zlen data - 1)) as [Hc|[Hd _]]; [lia| |lia].
      rewrite Hp in Hc. exfalso. exact (covers_nil _ Hc). }
  apply zlist_ext.
  - rewrite zlen_file_write by lia. exact HL.
  - intros q Hq. rewrite znth_file_write by lia.
    destruct ((start <=? q) && (q <? start + zlen data)) eqn:E.
    + destruct (Hcov q) as [Hc|[_ Hv]]; [lia| |exact Hv].
      rewrite Hp in Hc. exfalso. exact (covers_nil _ Hc).
    + apply Hout; lia.
Qed.

(* ------------------------------------------------------------------------------------------ *)
(* copier *)

Fixpoint sum_sizes (l : list (Z * Z)) : Z :=
  match l with [] => 0 | (_, z) :: r => z + sum_sizes r end.

Lemma sum_sizes_app a b : sum_sizes (a ++ b) = sum_sizes a + sum_sizes b.
Proof. induction a as [|[o z] a IH]; simpl; [reflexivity|]. rewrite IH. lia. Qed.

Lemma sum_sizes_remove i l o z : nth_error l i = Some (o, z) ->
  sum_sizes (remove_nth i l) = sum_sizes l - z.
Proof.
  revert i; induction l as [|[o' z'] l IH]; intros [|i] H; simpl in H; try discriminate.
  - inversion H; subst. unfold remove_nth. simpl. lia.
  - specialize (IH i H). unfold remove_nth in *.
    change (firstn (S i) ((o', z') :: l)) with ((o', z') :: firstn i l).
    change (skipn (S (S i)) ((o', z') :: l)) with (skipn (S i) l).
    rewrite <- app_comm_cons. cbn [sum_sizes]. rewrite IH. lia.
Qed.

Lemma sum_sizes_after p i o z c : nth_error (p_pend p) i = Some (o, z) ->
  sum_sizes (p_pend (after p i o z c)) =
    sum_sizes (p_pend p) - z + (if negb (c =? 0) && (c <? z) then z - c else 0).
Proof.
  intros H. unfold after. destruct (negb (c =? 0) && (c <? z)); simpl.
  - rewrite sum_sizes_app, (sum_sizes_remove _ _ _ _ H). simpl. lia.
  - rewrite (sum_sizes_remove _ _ _ _ H). lia.
Qed.

Lemma sorted_end_ge rs : forall lo, ranges_sorted lo rs = true -> lo <= ranges_end lo rs.
Proof.
  induction rs as [|[o l] rs IH]; intros lo H; simpl in *; [lia|].
  apply andb_true_iff in H as [H H3]. apply andb_true_iff in H as [H1 H2].
  specialize (IH _ H3). lia.
Qed.

Lemma in_ranges_sorted_ge rs : forall lo q, ranges_sorted lo rs = true -> in_ranges rs q = true -> lo <= q.
Proof.
  induction rs as [|[o l] rs IH]; intros lo q H Hin; simpl in *; [discriminate|].
  apply andb_true_iff in H as [H H3]. apply andb_true_iff in H as [H1 H2].
  apply orb_true_iff in Hin as [Hin|Hin]; [lia|].
  specialize (IH _ _ H3 Hin). lia.
Qed.

Lemma in_ranges_lt_end rs : forall lo q, ranges_sorted lo rs = true -> in_ranges rs q = true -> q < ranges_end lo rs.
Proof.
  induction rs as [|[o l] rs IH]; intros lo q H Hin; simpl in *; [discriminate|].
  apply andb_true_iff in H as [H H3]. apply andb_true_iff in H as [H1 H2].
  apply orb_true_iff in Hin as [Hin|Hin].
  - pose proof (sorted_end_ge _ _ H3). lia.
  - exact (IH _ _ H3 Hin).
Qed.

Lemma start_tasks_sum fuel : forall s, p_off (start_tasks fuel s) + p_left (start_tasks fuel s) = p_off s + p_left s.
Proof.
  intros s. apply (start_tasks_inv (fun p => p_off p + p_left p = p_off s + p_left s)); [|reflexivity].
  intros p Hp _ _. simpl. lia.
Qed.

Lemma honest_copy_below F o z d : o < zlen F -> honest_copy F o z (CData d) = true ->
  1 <= zlen d <= z /\ o + zlen d <= zlen F /\ d = slice F o (zlen d).
Proof.
  intros Ho. unfold honest_copy. replace (o <? zlen F) with true by lia.
  rewrite !andb_true_iff, !Z.leb_le, zlist_eqb_spec. tauto.
Qed.

Section Copier.
  Variable F : bytes.
  Variable all : list (Z * Z).     (* every range of the copy *)
  Variable B : Z.                  (* all ranges lie below B <= |F|; holes below B are zero in F *)
  Hypothesis HB : B <= zlen F.
  Hypothesis Hholes : forall q, 0 <= q < B -> in_ranges all q = false -> znth F q = 0.

  Record cinv (rem : list (Z * Z)) (last : Z) (m : mach (bytes * Z)) : Prop := mkCinv {
    ci_bs : 0 < p_bs (m_pio m);
    ci_max : 0 < p_max (m_pio m);
    ci_left : 0 <= p_left (m_pio m);
    ci_off0 : 0 <= p_off (m_pio m);
    ci_pend : forall o z, In (o, z) (p_pend (m_pio m)) ->
                0 < z /\ 0 <= o /\ o + z <= p_off (m_pio m) /\
                (forall q, o <= q < o + z -> in_ranges all q = true);
    ci_sorted : ranges_sorted (p_off (m_pio m) + p_left (m_pio m)) rem = true;
    ci_end : ranges_end (p_off (m_pio m) + p_left (m_pio m)) rem <= B;
    ci_need : forall q, in_ranges all q = true ->
                q < p_off (m_pio m) \/ (p_off (m_pio m) <= q < p_off (m_pio m) + p_left (m_pio m)) \/
                in_ranges rem q = true;
    ci_cur : forall q, p_off (m_pio m) <= q < p_off (m_pio m) + p_left (m_pio m) -> in_ranges all q = true;
    ci_rem : forall q, in_ranges rem q = true -> in_ranges all q = true;
    ci_cov : forall q, 0 <= q < p_off (m_pio m) -> in_ranges all q = true ->
               covers (p_pend (m_pio m)) q \/ q < zlen (fst (m_acc m));
    ci_val : forall q, 0 <= q < zlen (fst (m_acc m)) ->
               covers (p_pend (m_pio m)) q \/ znth (fst (m_acc m)) q = znth F q;
    ci_len : zlen (fst (m_acc m)) <= p_off (m_pio m);
    ci_last : 0 < zlen (fst (m_acc m)) -> in_ranges all (zlen (fst (m_acc m)) - 1) = true;
    ci_q : snd (m_acc m) + sum_sizes (p_pend (m_pio m)) + p_left (m_pio m) + sum_sizes rem = sum_sizes all;
    ci_lst : p_off (m_pio m) + p_left (m_pio m) = last;
    ci_top : 0 < last -> in_ranges all (last - 1) = true
  }.

  Lemma copier_complete_inv rem last m ir o z : cinv rem last m -> m_failed m = false ->
    nth_error (p_pend (m_pio m)) (fst ir) = Some (o, z) -> honest_copy F o z (snd ir) = true ->
    cinv rem last (complete copier_handle m ir) /\ m_failed (complete copier_handle m ir) = false.
  Proof.
    intros Hi Hf Hn Hh. destruct ir as [i r]. simpl fst in *. simpl snd in *.
    destruct Hi as [Hbs Hmax Hleft Hoff0 Hpend Hsorted Hend Hneed Hcur Hrem Hcov Hval Hlen Hlast HQ Hlst Htop].
    pose proof (Hpend o z (nth_error_In _ _ Hn)) as (Hz & Ho0 & Hoz & Hdata).
    pose proof (sorted_end_ge _ _ Hsorted) as Hge.
    unfold complete. simpl fst. simpl snd. rewrite Hn.
    destruct r as [d| |]; [|discriminate|discriminate].
    apply honest_copy_below in Hh; [|lia]. destruct Hh as (Hc & HcE & Hd).
    simpl copier_handle. cbv iota beta.
    destruct (m_acc m) as [dst copied] eqn:Eacc. simpl fst in *. simpl snd in *.
    change (cinv rem last (mkMach (after (m_pio m) i o z (zlen d)) (file_write dst o d, copied + zlen d) (m_failed m)) /\
            m_failed (mkMach (after (m_pio m) i o z (zlen d)) (file_write dst o d, copied + zlen d) (m_failed m)) = false).
    split; [|exact Hf].
    destruct (after_fields (m_pio m) i o z (zlen d)) as (F1 & F2 & F3 & F4).
    assert (Hzl : zlen (file_write dst o d) = Z.max (zlen dst) (o + zlen d)).
    { rewrite zlen_file_write by lia. replace (zlen d =? 0) with false by lia. reflexivity. }
    assert (Hzn : forall q, 0 <= q -> znth (file_write dst o d) q =
                    if (o <=? q) && (q <? o + zlen d) then znth F q else znth dst q).
    { intros q Hq0. rewrite znth_file_write by lia.
      destruct ((o <=? q) && (q <? o + zlen d)) eqn:E; [|reflexivity].
      rewrite Hd at 1. rewrite znth_slice by lia. replace (q - o <? zlen d) with true by lia. f_equal. lia. }
    constructor; simpl m_pio; simpl m_acc; simpl fst; simpl snd; rewrite ?F1, ?F2, ?F3, ?F4; try assumption.
    - intros o' z' Hin. apply after_in in Hin as [Hin|(Heq & Hc0 & Hcz)].
      + apply Hpend; exact Hin.
      + inversion Heq; subst. repeat split; try lia. intros q Hq. apply Hdata. lia.
    - intros q Hq Hin. destruct (Hcov q Hq Hin) as [Hc1|Hl].
      + destruct (after_cov _ _ _ _ _ q Hn Hc Hc1) as [Hc2|Hr]; [left; exact Hc2|right; rewrite Hzl; lia].
      + right. rewrite Hzl. lia.
    - intros q Hq. rewrite Hzl in Hq. rewrite Hzn by lia.
      destruct ((o <=? q) && (q <? o + zlen d)) eqn:E; [right; reflexivity|].
      destruct (Z_lt_le_dec q (zlen dst)) as [Hlt|Hge'].
      + destruct (Hval q) as [Hc1|Hv]; [lia| |right; exact Hv].
        destruct (after_cov _ _ _ _ _ q Hn Hc Hc1) as [Hc2|Hr]; [left; exact Hc2|lia].
      + (* padding *)
        destruct (in_ranges all q) eqn:Ein.
        * destruct (Hcov q) as [Hc1|Hl]; [lia|exact Ein| |lia].
          destruct (after_cov _ _ _ _ _ q Hn Hc Hc1) as [Hc2|Hr]; [left; exact Hc2|lia].
        * right. rewrite znth_beyond by lia. symmetry. apply Hholes; [lia|exact Ein].
    - rewrite Hzl. lia.
    - rewrite Hzl. intros Hpos.
      destruct (Z_lt_le_dec (zlen dst) (o + zlen d)) as [Hlt|Hge'].
      + replace (Z.max (zlen dst) (o + zlen d)) with (o + zlen d) by lia. apply Hdata. lia.
      + replace (Z.max (zlen dst) (o + zlen d)) with (zlen dst) by lia. apply Hlast. lia.
    - rewrite (sum_sizes_after _ _ _ _ _ Hn).
      destruct (negb (zlen d =? 0) && (zlen d <? z)) eqn:E; lia.
  Qed.

  Lemma copier_refill_inv rem last m : cinv rem last m -> m_failed m = false ->
    cinv rem last (mkMach (refill (m_pio m)) (m_acc m) false).
  Proof.
    intros Hi _. unfold refill.
    apply (start_tasks_inv (fun p => cinv rem last (mkMach p (m_acc m) false))).
    - clear Hi. intros p Hi Hl0 Hroom.
      destruct Hi as [Hbs Hmax Hleft Hoff0 Hpend Hsorted Hend Hneed Hcur Hrem Hcov Hval Hlen Hlast HQ Hlst Htop]. simpl in *.
      set (sz := Z.min (p_left p) (p_bs p)) in *.
      assert (Hsz : 0 < sz <= p_left p) by (unfold sz; lia).
      replace (p_off p + sz + (p_left p - sz)) with (p_off p + p_left p) by lia.
      constructor; simpl; try assumption; try lia.
      + intros o z Hin. apply in_app_or in Hin as [Hin|[Heq|[]]].
        * destruct (Hpend o z Hin) as (H1 & H2 & H3 & H4). repeat split; try lia. exact H4.
        * inversion Heq; subst. repeat split; try lia. intros q Hq. apply Hcur. lia.
      + replace (p_off p + sz + (p_left p - sz)) with (p_off p + p_left p) by lia. exact Hsorted.
      + replace (p_off p + sz + (p_left p - sz)) with (p_off p + p_left p) by lia. exact Hend.
      + intros q Hin. destruct (Hneed q Hin) as [H|[H|H]]; [left; lia| |right; right; exact H].
        destruct (q <? p_off p + sz) eqn:E; [left; lia|right; left; lia].
      + intros q Hq. apply Hcur. lia.
      + intros q Hq Hin. destruct (q <? p_off p) eqn:E.
        * destruct (Hcov q) as [Hc|Hd]; [lia|exact Hin|left; apply covers_app_l; exact Hc|right; exact Hd].
        * left. exists (p_off p), sz. split; [apply in_or_app; right; left; reflexivity|lia].
      + intros q Hq. destruct (Hval q Hq) as [Hc|Hv]; [left; apply covers_app_l; exact Hc|right; exact Hv].
      + rewrite sum_sizes_app. simpl. lia.
    - destruct m as [p a f]. simpl in *. destruct Hi. constructor; assumption.
  Qed.
End Copier.

Section CopierTop.
  Variable F : bytes.
  Variable all : list (Z * Z).
  Variable B : Z.
  Hypothesis HB : B <= zlen F.
  Hypothesis Hholes : forall q, 0 <= q < B -> in_ranges all q = false -> znth F q = 0.
  Hypothesis Hall0 : forall q, in_ranges all q = true -> 0 <= q.
  Variables total : Z.
  Variables sparse fixd : bool.

  Lemma next_range_inv : forall rem p last acc p' rest last',
    cinv F all B rem last (mkMach p acc false) -> p_pend p = [] -> p_left p = 0 ->
    next_range p rem last = (p', rest, last') ->
    cinv F all B rest last' (mkMach p' acc false) /\ (p_pend p' = [] -> rest = [] /\ p_left p' = 0).
  Proof.
    induction rem as [|[o l] rem IH]; intros p last acc p' rest last' Hi Hp Hl Hnr; simpl in Hnr.
    - inversion Hnr; subst. split; [exact Hi|auto].
    - assert (Hi1 : cinv F all B rem (o + l) (mkMach (set_range p o l) acc false)).
      { destruct Hi as [Hbs Hmax Hleft Hoff0 Hpend Hsorted Hend Hneed Hcur Hrem Hcov Hval Hlen Hlast HQ Hlst Htop].
        simpl in *. rewrite Hl in *. rewrite Z.add_0_r in *.
        apply andb_true_iff in Hsorted as [Hs12 Hs3]. apply andb_true_iff in Hs12 as [Hs1 Hs2].
        constructor; simpl; try assumption; try lia.
        + rewrite Hp. intros o' z' [].
        + intros q Hin. destruct (Hneed q Hin) as [H|[H|H]]; [left; lia|lia|].
          apply orb_true_iff in H as [H|H]; [right; left; lia|right; right; exact H].
        + intros q Hq. apply Hrem. apply orb_true_iff. left. lia.
        + intros q Hin. apply Hrem. apply orb_true_iff. right. exact Hin.
        + intros q Hq Hin. destruct (Hneed q Hin) as [H|[H|H]]; [apply Hcov; [lia|exact Hin]|lia|].
          apply orb_true_iff in H as [H|H]; [lia|].
          pose proof (in_ranges_sorted_ge _ _ _ Hs3 H). lia.
        + intros _. apply Hrem. apply orb_true_iff. left. lia. }
      pose proof (copier_refill_inv F all B Hholes rem (o + l) _ Hi1 eq_refl) as Hi2. simpl in Hi2.
      destruct (p_pend (refill (set_range p o l))) eqn:Epend.
      + assert (Hl2 : p_left (refill (set_range p o l)) = 0).
        { destruct (refill_full (set_range p o l)) as [H|H]; [destruct Hi1; assumption|exact H|contradiction]. }
        exact (IH _ _ _ _ _ _ Hi2 Epend Hl2 Hnr).
      + inversion Hnr; subst. split; [exact Hi2|]. rewrite Epend. discriminate.
  Qed.

  (* the copier while it runs *)
  Definition crun (c : copier) : Prop :=
    c_status c = CRunning /\ c_total c = total /\ c_sparse c = sparse /\ c_fix c = fixd /\
    cinv F all B (c_ranges c) (c_last c) (c_m c) /\ m_failed (c_m c) = false /\
    p_pend (m_pio (c_m c)) <> [].

  (* the copier after it finished without a failed block *)
  Definition cpost (c : copier) : Prop :=
    c_status c <> CRunning /\ c_total c = total /\ c_sparse c = sparse /\ c_fix c = fixd /\
    exists dst,
      (forall q, 0 <= q < zlen dst -> znth dst q = znth F q) /\
      (forall q, in_ranges all q = true -> q < zlen dst) /\
      (0 < zlen dst -> in_ranges all (zlen dst - 1) = true) /\
      zlen dst <= c_last c <= B /\
      (0 < c_last c -> in_ranges all (c_last c - 1) = true) /\
      m_acc (c_m c) = (if fixd && sparse && (c_last c <? total) then file_write dst (total - 1) [0] else dst,
                       sum_sizes all) /\
      c_status c = if negb (sum_sizes all =? total) && negb sparse then CFail else COk.

  Lemma advance_inv m rem last : cinv F all B rem last m -> m_failed m = false ->
    p_pend (m_pio m) = [] -> p_left (m_pio m) = 0 ->
    let c' := copier_advance (mkCopier m rem total sparse fixd last CRunning) in
    crun c' \/ cpost c'.
  Proof.
    intros Hi Hf Hp Hl. unfold copier_advance. simpl c_m. simpl c_ranges. simpl c_last.
    destruct (next_range (m_pio m) rem last) as [[p' rest] last'] eqn:Enr.
    destruct m as [p acc f]. simpl in *. subst f.
    destruct (next_range_inv rem p last acc p' rest last' Hi Hp Hl Enr) as [Hi' Hfin].
    destruct (p_pend p') eqn:Epend.
    - right. destruct (Hfin eq_refl) as [-> Hl'].
      unfold copier_finish, cpost. simpl.
      destruct Hi' as [Hbs Hmax Hleft Hoff0 Hpend Hsorted Hend Hneed Hcur Hrem Hcov Hval Hlen Hlast HQ Hlst Htop].
      simpl in *. rewrite Epend, Hl' in *. simpl in *. rewrite Z.add_0_r in *.
      destruct acc as [dst copied]. simpl in *.
      assert (Hcp : copied = sum_sizes all) by lia.
      split; [destruct (negb (copied =? total) && negb sparse); discriminate|].
      repeat split; try reflexivity.
      exists dst. repeat split.
      + intros q Hq. destruct (Hval q Hq) as [Hc|Hv]; [exfalso; exact (covers_nil _ Hc)|exact Hv].
      + intros q Hin. destruct (Hneed q Hin) as [H|[H|H]]; [|lia|discriminate].
        destruct (Z_le_gt_dec 0 q) as [H0|H0].
        * destruct (Hcov q) as [Hc|Hd]; [lia|exact Hin|exfalso; exact (covers_nil _ Hc)|exact Hd].
        * pose proof (Hall0 q Hin). lia.
      + exact Hlast.
      + lia.
      + lia.
      + exact Htop.
      + rewrite Hcp. reflexivity.
      + rewrite Hcp. reflexivity.
    - left. unfold crun. simpl.
      split; [reflexivity|]. split; [reflexivity|]. split; [reflexivity|]. split; [reflexivity|].
      split; [exact Hi'|]. split; [reflexivity|]. rewrite Epend. discriminate.
  Qed.

  Lemma crun_settled c : crun c -> settled (c_m c).
  Proof.
    intros (_ & _ & _ & _ & Hi & Hf & Hp). split; [destruct Hi; assumption|].
    intros _ H. contradiction.
  Qed.

  Lemma copier_step_inv c b : crun c -> honest_picks copier_handle (honest_copy F) (c_m c) b = true ->
    crun (copier_step c b) \/ cpost (copier_step c b).
  Proof.
    intros Hc Hh. pose proof (crun_settled c Hc) as Hset.
    destruct Hc as (Hst & Ht & Hsp & Hfx & Hi & Hf & Hp).
    unfold copier_step. rewrite Hst.
    destruct (batch_inv copier_handle (honest_copy F) (cinv F all B (c_ranges c) (c_last c))
               (copier_complete_inv F all B HB Hholes (c_ranges c) (c_last c))
               (copier_refill_inv F all B Hholes (c_ranges c) (c_last c)) (c_m c) b Hi Hf Hh) as [Hi' Hf'].
    rewrite Hf'.
    destruct (batch_settled copier_handle (c_m c) b Hset) as [_ Hset'].
    destruct (p_pend (m_pio (batch copier_handle (c_m c) b))) eqn:Epend.
    - rewrite Ht, Hsp, Hfx. apply advance_inv; auto.
    - left. unfold crun. simpl.
      split; [reflexivity|]. split; [exact Ht|]. split; [exact Hsp|]. split; [exact Hfx|].
      split; [exact Hi'|]. split; [exact Hf'|]. rewrite Epend. discriminate.
  Qed.

  Lemma copier_done_id : forall sched c, c_status c <> CRunning -> fold_left copier_step sched c = c.
  Proof.
    induction sched as [|b r IH]; intros c H; simpl; [reflexivity|].
    assert (E : copier_step c b = c) by (unfold copier_step; destruct (c_status c); [contradiction|reflexivity|reflexivity]).
    rewrite E. apply IH. exact H.
  Qed.

  Lemma copier_run_inv : forall sched c, crun c \/ cpost c -> copier_honest F c sched = true ->
     crun (fold_left copier_step sched c) \/ cpost (fold_left copier_step sched c).
  Proof.
    induction sched as [|b r IH]; intros c Hc Hh; simpl; [exact Hc|].
    simpl in Hh. apply andb_true_iff in Hh as [Hh1 Hh2].
    apply IH; [|exact Hh2].
    destruct Hc as [Hc|Hc].
    - pose proof Hc as (Hst & _). rewrite Hst in Hh1. apply copier_step_inv; assumption.
    - right. pose proof Hc as (Hst & _).
      assert (E : copier_step c b = c) by (unfold copier_step; destruct (c_status c); [contradiction|reflexivity|reflexivity]).
      rewrite E. exact Hc.
  Qed.

  Lemma copier_init_inv bs mx ranges : 0 < bs -> 0 < mx ->
    (if sparse then ranges else [(0, total)]) = all ->
    ranges_sorted 0 all = true -> ranges_end 0 all <= B ->
    crun (copier_init bs mx total sparse fixd ranges) \/ cpost (copier_init bs mx total sparse fixd ranges).
  Proof.
    intros Hbs Hmx Hall Hsorted Hend. unfold copier_init. rewrite Hall.
    apply advance_inv; try reflexivity.
    constructor; simpl; try lia; try assumption; try reflexivity.
    all: try (intros o z []).
    all: try (intros q Hq; lia).
    all: try (rewrite zlen_nil; lia).
    all: try (intros q Hin; right; right; exact Hin).
    all: try (intros q Hq; rewrite zlen_nil in Hq; lia).
    all: try (intros q Hin; exact Hin).
    all: try (change (zlen (@nil Z)) with 0; intros; lia).
  Qed.
End CopierTop.

Lemma start_tasks_left0 fuel s : p_left s = 0 -> start_tasks fuel s = s.
Proof. destruct fuel; simpl; [reflexivity|]. intros H. rewrite H. reflexivity. Qed.

Lemma in_ranges_single t q : in_ranges [(0, t)] q = true <-> 0 <= q < t.
Proof. simpl. rewrite orb_false_r, andb_true_iff, Z.leb_le, Z.ltb_lt. lia. Qed.

Lemma ztake_ext (dst F : bytes) L : 0 <= L <= zlen F -> zlen dst = L ->
  (forall q, 0 <= q < zlen dst -> znth dst q = znth F q) -> dst = ztake L F.
Proof.
  intros HL Hlen Hv. apply zlist_ext.
  - rewrite zlen_ztake. lia.
  - intros i Hi. rewrite znth_ztake. replace (i <? L) with true by lia. apply Hv. exact Hi.
Qed.

(* non-sparse copy of a source at least as long as announced: success and exact bytes *)
Theorem copier_nonsparse_ok F bs mx total fixd ranges sched :
  0 < bs -> 0 < mx -> 0 <= total <= zlen F ->
  copier_honest F (copier_init bs mx total false fixd ranges) sched = true ->
  c_status (copier_run bs mx total false fixd ranges sched) <> CRunning ->
  c_status (copier_run bs mx total false fixd ranges sched) = COk /\
  copier_dst (copier_run bs mx total false fixd ranges sched) = ztake total F.
Proof.
  intros Hbs Hmx Ht Hh Hfin. unfold copier_run in *.
  destruct (Z.eq_dec total 0) as [E0|E0].
  - subst total.
    assert (Hinit : copier_init bs mx 0 false fixd ranges =
              mkCopier (mkMach (set_range (pio_init bs mx 0 0) 0 0) ([], 0) false) [] 0 false fixd 0 COk).
    { unfold copier_init, copier_advance. cbn [c_m c_ranges c_last m_pio next_range].
      unfold refill. rewrite !start_tasks_left0 by reflexivity. cbn.
      unfold copier_finish. cbn. rewrite andb_false_r. reflexivity. }
    rewrite Hinit in *. rewrite copier_done_id by (simpl; discriminate). simpl. split; reflexivity.
  - assert (Hinv : crun F [(0, total)] total total false fixd (fold_left copier_step sched (copier_init bs mx total false fixd ranges)) \/
                   cpost F [(0, total)] total total false fixd (fold_left copier_step sched (copier_init bs mx total false fixd ranges))).
    { assert (Hho : forall q, 0 <= q < total -> in_ranges [(0, total)] q = false -> znth F q = 0).
      { intros q Hq Hin. exfalso. assert (in_ranges [(0, total)] q = true) by (apply in_ranges_single; lia). congruence. }
      assert (Ha0 : forall q, in_ranges [(0, total)] q = true -> 0 <= q).
      { intros q Hin. apply in_ranges_single in Hin. lia. }
      apply (copier_run_inv F [(0, total)] total (proj2 Ht) Hho Ha0); [|exact Hh].
      apply (copier_init_inv F [(0, total)] total Hho Ha0); try lia; try reflexivity.
      simpl. replace (0 <? total) with true by lia. reflexivity. }
    destruct Hinv as [(Hst & _)|Hpost]; [contradiction|].
    destruct Hpost as (_ & _ & _ & _ & dst & Hv & Hneed & _ & Hlen & _ & Hacc & Hstat).
    rewrite andb_false_r in Hacc. simpl in Hacc, Hstat.
    replace (total + 0 =? total) with true in Hstat by lia. simpl in Hstat.
    split; [exact Hstat|]. unfold copier_dst. rewrite Hacc. simpl.
    apply ztake_ext; [lia| |exact Hv].
    assert (total - 1 < zlen dst) by (apply Hneed; apply in_ranges_single; lia). lia.
Qed.

(* sparse copy: what arrives is the source up to the end of its last data byte *)
Theorem copier_sparse_prefix F bs mx total ranges sched :
  0 < bs -> 0 < mx ->
  ranges_sorted 0 ranges = true -> ranges_end 0 ranges <= zlen F ->
  (forall q, 0 <= q < zlen F -> in_ranges ranges q = false -> znth F q = 0) ->
  copier_honest F (copier_init bs mx total true false ranges) sched = true ->
  c_status (copier_run bs mx total true false ranges sched) <> CRunning ->
  c_status (copier_run bs mx total true false ranges sched) = COk /\
  exists L, copier_dst (copier_run bs mx total true false ranges sched) = ztake L F /\ 0 <= L <= zlen F /\
            (forall q, in_ranges ranges q = true -> q < L) /\ (0 < L -> in_ranges ranges (L - 1) = true).
Proof.
  intros Hbs Hmx Hsorted Hend Hholes Hh Hfin. unfold copier_run in *.
  assert (Hinv : crun F ranges (zlen F) total true false (fold_left copier_step sched (copier_init bs mx total true false ranges)) \/
                 cpost F ranges (zlen F) total true false (fold_left copier_step sched (copier_init bs mx total true false ranges))).
  { assert (Ha0 : forall q, in_ranges ranges q = true -> 0 <= q).
    { intros q Hin. exact (in_ranges_sorted_ge _ _ _ Hsorted Hin). }
    apply (copier_run_inv F ranges (zlen F) (Z.le_refl _) Hholes Ha0); [|exact Hh].
    apply (copier_init_inv F ranges (zlen F) Hholes Ha0); try lia; try reflexivity; assumption. }
  destruct Hinv as [(Hst & _)|Hpost]; [contradiction|].
  destruct Hpost as (_ & _ & _ & _ & dst & Hv & Hneed & Hlast & Hlen & _ & Hacc & Hstat).
  simpl in Hacc, Hstat. rewrite andb_false_r in Hstat.
  split; [exact Hstat|]. exists (zlen dst). unfold copier_dst. rewrite Hacc. simpl.
  pose proof (zlen_nonneg dst).
  split; [apply ztake_ext; [lia|reflexivity|exact Hv]|].
  split; [lia|]. split; [exact Hneed|exact Hlast].
Qed.

(* the same with the repair: exactly the first total bytes arrive, for any total <= |F| *)
Theorem copier_sparse_fixed_total F bs mx total ranges sched :
  0 < bs -> 0 < mx -> 0 <= total <= zlen F ->
  ranges_sorted 0 ranges = true -> ranges_end 0 ranges <= total ->
  (forall q, 0 <= q < total -> in_ranges ranges q = false -> znth F q = 0) ->
  copier_honest F (copier_init bs mx total true true ranges) sched = true ->
  c_status (copier_run bs mx total true true ranges sched) <> CRunning ->
  c_status (copier_run bs mx total true true ranges sched) = COk /\
  copier_dst (copier_run bs mx total true true ranges sched) = ztake total F.
Proof.
  intros Hbs Hmx Ht Hsorted Hend Hholes Hh Hfin. unfold copier_run in *.
  assert (Hinv : crun F ranges total total true true (fold_left copier_step sched (copier_init bs mx total true true ranges)) \/
                 cpost F ranges total total true true (fold_left copier_step sched (copier_init bs mx total true true ranges))).
  { assert (Ha0 : forall q, in_ranges ranges q = true -> 0 <= q).
    { intros q Hin. exact (in_ranges_sorted_ge _ _ _ Hsorted Hin). }
    apply (copier_run_inv F ranges total (proj2 Ht) Hholes Ha0); [|exact Hh].
    apply (copier_init_inv F ranges total Hholes Ha0); try lia; try reflexivity; assumption. }
  destruct Hinv as [(Hst & _)|Hpost]; [contradiction|].
  destruct Hpost as (_ & _ & _ & _ & dst & Hv & Hneed & Hlast & Hlen & Htop & Hacc & Hstat).
  cbn [andb] in Hacc. cbn [negb] in Hstat. rewrite andb_false_r in Hstat.
  split; [exact Hstat|]. unfold copier_dst. rewrite Hacc. cbn [fst].
  pose proof (zlen_nonneg dst) as Hnn.
  set (last := c_last (fold_left copier_step sched (copier_init bs mx total true true ranges))) in *.
  destruct (last <? total) eqn:E.
  - (* trailing hole: one zero byte is written at total - 1 *)
    apply zlist_ext.
    + rewrite zlen_file_write by lia. change (zlen [0]) with 1. simpl. rewrite zlen_ztake. lia.
    + intros q Hq. rewrite zlen_file_write in Hq by lia. change (zlen [0]) with 1 in Hq. simpl in Hq.
      rewrite znth_file_write by lia. change (zlen [0]) with 1.
      rewrite znth_ztake. replace (q <? total) with true by lia.
      destruct ((total - 1 <=? q) && (q <? total - 1 + 1)) eqn:E1.
      * replace (q - (total - 1)) with 0 by lia. change (znth [0] 0) with 0.
        symmetry. apply Hholes; [lia|]. destruct (in_ranges ranges q) eqn:Ein; [|reflexivity].
        specialize (Hneed q Ein). lia.
      * destruct (Z_lt_le_dec q (zlen dst)) as [Hlt|Hge].
        -- apply Hv. lia.
        -- rewrite (znth_beyond dst) by lia. symmetry. apply Hholes; [lia|].
           destruct (in_ranges ranges q) eqn:Ein; [|reflexivity]. specialize (Hneed q Ein). lia.
  - (* the last data range reaches total *)
    assert (Hl : last = total) by lia.
    apply ztake_ext; [lia| |exact Hv].
    destruct (Z.eq_dec total 0) as [E0|E0]; [lia|].
    assert (total - 1 < zlen dst) by (apply Hneed; rewrite <- Hl; apply Htop; lia). lia.
Qed.

Lemma ztake_all F : ztake (zlen F) F = F.
Proof. unfold ztake, zlen. rewrite Nat2Z.id. apply firstn_all. Qed.

Theorem copier_sparse_fixed F bs mx ranges sched :
  0 < bs -> 0 < mx ->
  ranges_sorted 0 ranges = true -> ranges_end 0 ranges <= zlen F ->
  (forall q, 0 <= q < zlen F -> in_ranges ranges q = false -> znth F q = 0) ->
  copier_honest F (copier_init bs mx (zlen F) true true ranges) sched = true ->
  c_status (copier_run bs mx (zlen F) true true ranges sched) <> CRunning ->
  c_status (copier_run bs mx (zlen F) true true ranges sched) = COk /\
  copier_dst (copier_run bs mx (zlen F) true true ranges sched) = F.
Proof.
  intros Hbs Hmx Hs He Hh Hhon Hfin. pose proof (zlen_nonneg F).
  destruct (copier_sparse_fixed_total F bs mx (zlen F) ranges sched Hbs Hmx (conj H (Z.le_refl _)) Hs He Hh Hhon Hfin) as [H1 H2].
  split; [exact H1|]. rewrite H2. apply ztake_all.
Qed.

(* ------------------------------------------------------------------------------------------ *)
(* non-sparse copy of a source shorter than announced fails *)

Lemma start_tasks_conserve fuel s :
  sum_sizes (p_pend (start_tasks fuel s)) + p_left (start_tasks fuel s) = sum_sizes (p_pend s) + p_left s.
Proof.
  apply (start_tasks_inv (fun p => sum_sizes (p_pend p) + p_left p = sum_sizes (p_pend s) + p_left s)); [|reflexivity].
  intros p Hp _ _. simpl. rewrite sum_sizes_app. simpl. lia.
Qed.

Section ShortSource.
  Variable F : bytes.
  Variable T : Z.
  Hypothesis HET : zlen F < T.

  Record qinv (m : mach (bytes * Z)) : Prop := mkQinv {
    qi_bs : 0 < p_bs (m_pio m);
    qi_max : 0 < p_max (m_pio m);
    qi_left : 0 <= p_left (m_pio m);
    qi_off0 : 0 <= p_off (m_pio m);
    qi_pend : forall o z, In (o, z) (p_pend (m_pio m)) -> 0 < z /\ 0 <= o;
    qi_q : snd (m_acc m) + sum_sizes (p_pend (m_pio m)) + p_left (m_pio m) <= T;
    qi_track : (p_off (m_pio m) <= zlen F < p_off (m_pio m) + p_left (m_pio m)) \/
               covers (p_pend (m_pio m)) (zlen F) \/
               snd (m_acc m) + sum_sizes (p_pend (m_pio m)) + p_left (m_pio m) < T
  }.

  Lemma short_complete_inv m ir o z : qinv m -> m_failed m = false ->
    nth_error (p_pend (m_pio m)) (fst ir) = Some (o, z) -> honest_copy F o z (snd ir) = true ->
    qinv (complete copier_handle m ir) /\ m_failed (complete copier_handle m ir) = false.
  Proof.
    intros Hi Hf Hn Hh. destruct ir as [i r]. simpl fst in *. simpl snd in *.
    destruct Hi as [Hbs Hmax Hleft Hoff0 Hpend HQ Htrack].
    pose proof (Hpend o z (nth_error_In _ _ Hn)) as (Hz & Ho0).
    unfold complete. simpl fst. simpl snd. rewrite Hn.
    destruct r as [d| |]; [|discriminate|discriminate].
    simpl copier_handle. cbv iota beta.
    destruct (m_acc m) as [dst copied] eqn:Eacc. simpl fst in *. simpl snd in *.
    change (qinv (mkMach (after (m_pio m) i o z (zlen d)) (file_write dst o d, copied + zlen d) (m_failed m)) /\
            m_failed (mkMach (after (m_pio m) i o z (zlen d)) (file_write dst o d, copied + zlen d) (m_failed m)) = false).
    split; [|exact Hf].
    destruct (after_fields (m_pio m) i o z (zlen d)) as (F1 & F2 & F3 & F4).
    pose proof (sum_sizes_after _ i o z (zlen d) Hn) as Hsum.
    assert (Hpend' : forall o' z', In (o', z') (p_pend (after (m_pio m) i o z (zlen d))) -> 0 < z' /\ 0 <= o').
    { intros o' z' Hin. apply after_in in Hin as [Hin|(Heq & Hc0 & Hcz)].
      - apply Hpend; exact Hin.
      - inversion Heq; subst. pose proof (zlen_nonneg d). lia. }
    destruct (o <? zlen F) eqn:Eo.
    - apply honest_copy_below in Hh; [|lia]. destruct Hh as (Hc & HcE & Hd).
      assert (Hs' : sum_sizes (p_pend (after (m_pio m) i o z (zlen d))) = sum_sizes (p_pend (m_pio m)) - zlen d).
      { rewrite Hsum. destruct (negb (zlen d =? 0) && (zlen d <? z)) eqn:E; lia. }
      constructor; simpl m_pio; simpl m_acc; simpl snd; rewrite ?F1, ?F2, ?F3, ?F4; try assumption.
      + rewrite Hs'. lia.
      + rewrite Hs'. destruct Htrack as [H|[H|H]]; [left; exact H| |right; right; lia].
        destruct (after_cov _ _ _ _ _ (zlen F) Hn Hc H) as [Hc2|Hr]; [right; left; exact Hc2|lia].
    - unfold honest_copy in Hh. rewrite Eo in Hh. apply Z.eqb_eq in Hh.
      assert (Hs' : sum_sizes (p_pend (after (m_pio m) i o z (zlen d))) = sum_sizes (p_pend (m_pio m)) - z).
      { rewrite Hsum, Hh. simpl. lia. }
      constructor; simpl m_pio; simpl m_acc; simpl snd; rewrite ?F1, ?F2, ?F3, ?F4; try assumption.
      + rewrite Hs'. lia.
      + rewrite Hs'. right. right. lia.
  Qed.

  Lemma short_refill_inv m : qinv m -> m_failed m = false ->
    qinv (mkMach (refill (m_pio m)) (m_acc m) false).
  Proof.
    intros Hi _. unfold refill.
    apply (start_tasks_inv (fun p => qinv (mkMach p (m_acc m) false))).
    - clear Hi. intros p Hi Hl0 Hroom.
      destruct Hi as [Hbs Hmax Hleft Hoff0 Hpend HQ Htrack]. simpl in *.
      set (sz := Z.min (p_left p) (p_bs p)) in *.
      assert (Hsz : 0 < sz <= p_left p) by (unfold sz; lia).
      constructor; simpl; try assumption; try lia.
      + intros o z Hin. apply in_app_or in Hin as [Hin|[Heq|[]]].
        * apply Hpend; exact Hin.
        * inversion Heq; subst. lia.
      + rewrite sum_sizes_app. simpl. lia.
      + rewrite sum_sizes_app. simpl.
        destruct Htrack as [H|[H|H]]; [|right; left; apply covers_app_l; exact H|right; right; lia].
        destruct (zlen F <? p_off p + sz) eqn:E.
        * right. left. exists (p_off p), sz. split; [apply in_or_app; right; left; reflexivity|lia].
        * left. lia.
    - destruct m as [p a f]. simpl in *. destruct Hi. constructor; assumption.
  Qed.
End ShortSource.

Section ShortSourceTop.
  Variable F : bytes.
  Variable T : Z.
  Hypothesis HET : zlen F < T.

  Definition qrun (c : copier) : Prop :=
    c_status c = CRunning /\ c_total c = T /\ c_sparse c = false /\ c_ranges c = [] /\
    qinv F T (c_m c) /\ m_failed (c_m c) = false /\ p_pend (m_pio (c_m c)) <> [].

  Lemma short_step_inv c b : qrun c -> honest_picks copier_handle (honest_copy F) (c_m c) b = true ->
    qrun (copier_step c b) \/ c_status (copier_step c b) = CFail.
  Proof.
    intros (Hst & Ht & Hsp & Hrs & Hi & Hf & Hp) Hh.
    assert (Hset : settled (c_m c)).
    { split; [destruct Hi; assumption|]. intros _ H. contradiction. }
    unfold copier_step. rewrite Hst.
    destruct (batch_inv copier_handle (honest_copy F) (qinv F T)
               (short_complete_inv F T) (short_refill_inv F T) (c_m c) b Hi Hf Hh) as [Hi' Hf'].
    rewrite Hf'.
    destruct (batch_settled copier_handle (c_m c) b Hset) as [_ Hset'].
    destruct (p_pend (m_pio (batch copier_handle (c_m c) b))) eqn:Epend.
    - right. specialize (Hset' Hf' eq_refl).
      unfold copier_advance. simpl c_m. simpl c_ranges. rewrite Hrs. simpl next_range. cbv iota beta.
      rewrite Epend. unfold copier_finish. simpl.
      destruct Hi' as [_ _ _ _ _ HQ Htrack]. rewrite Epend, Hset' in *. simpl in *.
      destruct Htrack as [H|[H|H]]; [lia|exfalso; exact (covers_nil _ H)|].
      rewrite Ht, Hsp. replace (snd (m_acc (batch copier_handle (c_m c) b)) =? T) with false by lia.
      reflexivity.
    - left. unfold qrun. simpl.
      split; [reflexivity|]. split; [exact Ht|]. split; [exact Hsp|]. split; [exact Hrs|].
      split; [exact Hi'|]. split; [exact Hf'|]. rewrite Epend. discriminate.
  Qed.

  Lemma short_run_inv : forall sched c, qrun c \/ c_status c = CFail -> copier_honest F c sched = true ->
    qrun (fold_left copier_step sched c) \/ c_status (fold_left copier_step sched c) = CFail.
  Proof.
    induction sched as [|b r IH]; intros c Hc Hh; simpl; [exact Hc|].
    simpl in Hh. apply andb_true_iff in Hh as [Hh1 Hh2].
    apply IH; [|exact Hh2].
    destruct Hc as [Hc|Hc].
    - pose proof Hc as (Hst & _). rewrite Hst in Hh1. apply short_step_inv; assumption.
    - right. unfold copier_step. rewrite Hc. exact Hc.
  Qed.

  Lemma short_init_inv bs mx fixd ranges : 0 < bs -> 0 < mx ->
    qrun (copier_init bs mx T false fixd ranges).
  Proof.
    intros Hbs Hmx. pose proof (zlen_nonneg F) as HE.
    unfold copier_init, copier_advance. cbn [c_m c_ranges c_last m_pio next_range].
    set (p1 := set_range (pio_init bs mx 0 0) 0 T).
    assert (Hq1 : qinv F T (mkMach p1 ([], 0) false)).
    { constructor; simpl; try lia. all: try (intros o z []). }
    pose proof (short_refill_inv F T _ Hq1 eq_refl) as Hq2. simpl in Hq2.
    pose proof (start_tasks_conserve (Z.to_nat (p_max p1)) p1) as Hcons. fold (refill p1) in Hcons.
    destruct (refill_full p1 Hmx) as [Hl|Hne].
    - destruct (p_pend (refill p1)) eqn:Epend.
      + simpl in Hcons. lia.
      + unfold qrun. simpl. rewrite Epend. simpl.
        split; [reflexivity|]. split; [reflexivity|]. split; [reflexivity|]. split; [reflexivity|].
        split; [exact Hq2|]. split; [reflexivity|]. rewrite Epend. discriminate.
    - destruct (p_pend (refill p1)) eqn:Epend; [contradiction|].
      unfold qrun. simpl. rewrite Epend. simpl.
        split; [reflexivity|]. split; [reflexivity|]. split; [reflexivity|]. split; [reflexivity|].
        split; [exact Hq2|]. split; [reflexivity|]. rewrite Epend. discriminate.
  Qed.
End ShortSourceTop.

Theorem copier_short_source F bs mx total fixd ranges sched :
  0 < bs -> 0 < mx -> zlen F < total ->
  copier_honest F (copier_init bs mx total false fixd ranges) sched = true ->
  c_status (copier_run bs mx total false fixd ranges sched) <> CRunning ->
  c_status (copier_run bs mx total false fixd ranges sched) = CFail.
Proof.
  intros Hbs Hmx Hlt Hh Hfin. unfold copier_run in *.
  destruct (short_run_inv F total sched _ (or_introl (short_init_inv F total Hlt bs mx fixd ranges Hbs Hmx)) Hh)
    as [(Hst & _)|H]; [contradiction|exact H].
Qed.

(* a failed block fails the copy *)
Theorem copier_error c pre i post sched o z :
  c_status c = CRunning ->
  nth_error (p_pend (m_pio (fold_left (complete copier_handle) pre (c_m c)))) i = Some (o, z) ->
  c_status (fold_left copier_step sched (copier_step c (pre ++ (i, CErr) :: post))) = CFail.
Proof.
  intros Hst Hn.
  assert (Hf : m_failed (batch copier_handle (c_m c) (pre ++ (i, CErr) :: post)) = true).
  { apply batch_failed. rewrite fold_left_app. simpl. apply fold_complete_failed_mono.
    eapply complete_err; eauto. }
  assert (Hs : c_status (copier_step c (pre ++ (i, CErr) :: post)) = CFail).
  { unfold copier_step. rewrite Hst, Hf. reflexivity. }
  rewrite copier_done_id by (rewrite Hs; discriminate). exact Hs.
Qed.

(* the unrepaired sparse copy loses a trailing hole *)
Theorem sparse_trailing_hole_witness :
  exists F ranges total sched,
    ranges_sorted 0 ranges = true /\ ranges_end 0 ranges <= zlen F /\ total = zlen F /\
    (forall q, 0 <= q < zlen F -> in_ranges ranges q = false -> znth F q = 0) /\
    copier_honest F (copier_init 4 2 total true false ranges) sched = true /\
    c_status (copier_run 4 2 total true false ranges sched) = COk /\
    copier_dst (copier_run 4 2 total true false ranges sched) <> F.
Proof.
  exists [7; 0; 0], [(0, 1)], 3, [[(0%nat, CData [7])]].
  split; [reflexivity|]. split; [vm_compute; discriminate|]. split; [reflexivity|].
  split.
  - intros q Hq Hin. change (zlen [7; 0; 0]) with 3 in Hq.
    assert (Hc : q = 0 \/ q = 1 \/ q = 2) by lia.
    destruct Hc as [ -> | [ -> | -> ] ]; [discriminate Hin|reflexivity|reflexivity].
  - split; [vm_compute; reflexivity|]. split; [vm_compute; reflexivity|].
    vm_compute. discriminate.
Qed.

(* ------------------------------------------------------------------------------------------ *)
(* file object: the lazily tracked offset behaves like an ordinary file position *)

Lemma slice_at_end F n : slice F (zlen F) n = [].
Proof.
  unfold slice, zdrop, zlen. rewrite Nat2Z.id. rewrite skipn_all. unfold ztake. apply firstn_nil.
Qed.

Definition frel (f : fobj) (s : sfile) (F : bytes) : Prop :=
  f_app f = s_app s /\ f_rlen f = s_rlen s /\ f_maxr f = s_maxr s /\ f_cap f = s_cap s /\
  (f_off f = Some (s_pos s) \/ (f_off f = None /\ f_app f = true /\ s_pos s = zlen F)).

Lemma fo_sim f s F op : frel f s F ->
  frel (fst (fst (fo_step (f, F) op))) (fst (fst (sp_step (s, F) op))) (snd (fst (fo_step (f, F) op))) /\
  snd (fst (fo_step (f, F) op)) = snd (fst (sp_step (s, F) op)) /\
  snd (fo_step (f, F) op) = snd (sp_step (s, F) op).
Proof.
  intros (Ha & Hr & Hm & Hc & Hoff).
  destruct f as [foff fapp frlen fwlen fmaxr fcap]. destruct s as [spos sapp srlen smaxr scap].
  simpl in Ha, Hr, Hm, Hc, Hoff. subst sapp srlen smaxr scap.
  destruct op as [size off|d off|off whence|].
  - (* read *)
    unfold fo_step, sp_step. cbn [f_off f_app f_rlen f_maxr f_cap s_pos s_app s_rlen s_maxr s_cap set_off s_set].
    destruct off as [o|].
    + (* explicit offset: identical *)
      cbn [opt_or].
      destruct (negb (frlen =? 0) && (Z.min frlen fmaxr <? (if size <? 0 then zlen F - o else size))) eqn:Ew.
      * cbn [negb andb].
        destruct (slice F o (if size <? 0 then zlen F - o else size)) eqn:Ed; cbn [fst snd];
          (split; [unfold frel; cbn; repeat split; try reflexivity; left; try rewrite zlen_nil; f_equal; lia|split; reflexivity]).
      * cbn [negb andb].
        destruct ((if size <? 0 then zlen F - o else size) <? 0) eqn:En; cbn [fst snd].
        -- split; [unfold frel; cbn; repeat split; try reflexivity; exact Hoff|split; reflexivity].
        -- destruct (slice F o (Z.min (if size <? 0 then zlen F - o else size) fcap)) eqn:Ed; cbn [fst snd].
           ++ split; [unfold frel; cbn; repeat split; try reflexivity; exact Hoff|split; reflexivity].
           ++ split; [unfold frel; cbn; repeat split; try reflexivity; left; reflexivity|split; reflexivity].
    + destruct Hoff as [Hoff|(Hoff & Happ & Hpos)]; simpl in Hoff; subst foff; cbn [opt_or].
      * (* known position *)
        destruct (negb (frlen =? 0) && (Z.min frlen fmaxr <? (if size <? 0 then zlen F - spos else size))) eqn:Ew.
        -- cbn [negb andb].
           destruct (slice F spos (if size <? 0 then zlen F - spos else size)) eqn:Ed; cbn [fst snd];
             (split; [unfold frel; cbn; repeat split; try reflexivity; left; try rewrite zlen_nil; f_equal; lia|split; reflexivity]).
        -- cbn [negb andb].
           destruct ((if size <? 0 then zlen F - spos else size) <? 0) eqn:En; cbn [fst snd].
           ++ split; [unfold frel; cbn; repeat split; try reflexivity; left; reflexivity|split; reflexivity].
           ++ destruct (slice F spos (Z.min (if size <? 0 then zlen F - spos else size) fcap)) eqn:Ed; cbn [fst snd];
                (split; [unfold frel; cbn; repeat split; try reflexivity; left; reflexivity|split; reflexivity]).
      * (* appending, position = end of file: nothing to read *)
        simpl in Happ, Hpos. subst spos fapp. cbn [fst snd].
        assert (Hn : ((if size <? 0 then zlen F - zlen F else size) <? 0) = false) by (destruct (size <? 0) eqn:E; lia).
        rewrite Hn, andb_false_r. rewrite !slice_at_end.
        destruct (negb (frlen =? 0) && (Z.min frlen fmaxr <? (if size <? 0 then zlen F - zlen F else size))); cbn [fst snd];
          (split; [unfold frel; cbn; repeat split; try reflexivity; right; repeat split; reflexivity|split; reflexivity]).
  - (* write *)
    unfold fo_step, sp_step. cbn [f_off f_app f_rlen f_maxr f_cap s_pos s_app s_rlen s_maxr s_cap set_off s_set].
    destruct fapp.
    + cbn [fst snd]. split; [|split; reflexivity].
      unfold frel; cbn. repeat split; try reflexivity. right. repeat split; try reflexivity. rewrite zlen_app. reflexivity.
    + destruct Hoff as [Hoff|(Hoff & Happ & Hpos)]; [|discriminate Happ]. simpl in Hoff. subst foff.
      destruct off as [o|]; cbn [opt_or fst snd];
        (split; [unfold frel; cbn; repeat split; try reflexivity; left; reflexivity|split; reflexivity]).
  - (* seek *)
    unfold fo_step, sp_step. cbn [f_off f_app f_rlen f_maxr f_cap s_pos s_app s_rlen s_maxr s_cap set_off s_set].
    destruct (whence =? 0); [cbn [fst snd]; split; [unfold frel; cbn; repeat split; try reflexivity; left; reflexivity|split; reflexivity]|].
    destruct (whence =? 1).
    + destruct Hoff as [Hoff|(Hoff & Happ & Hpos)]; simpl in Hoff; subst foff; cbn [fst snd].
      * split; [unfold frel; cbn; repeat split; try reflexivity; left; reflexivity|split; reflexivity].
      * simpl in Hpos. subst spos.
        split; [unfold frel; cbn; repeat split; try reflexivity; left; reflexivity|split; reflexivity].
    + destruct (whence =? 2); cbn [fst snd].
      * split; [unfold frel; cbn; repeat split; try reflexivity; left; reflexivity|split; reflexivity].
      * split; [unfold frel; cbn; repeat split; try reflexivity; exact Hoff|split; reflexivity].
  - (* tell *)
    unfold fo_step, sp_step. cbn [f_off f_app f_rlen f_maxr f_cap s_pos s_app s_rlen s_maxr s_cap set_off s_set].
    destruct Hoff as [Hoff|(Hoff & Happ & Hpos)]; simpl in Hoff; subst foff; cbn [fst snd].
    + split; [unfold frel; cbn; repeat split; try reflexivity; left; reflexivity|split; reflexivity].
    + simpl in Hpos. subst spos.
      split; [unfold frel; cbn; repeat split; try reflexivity; left; reflexivity|split; reflexivity].
Qed.

Theorem fileobj_refines : forall ops f s F, frel f s F ->
  snd (fo_run (f, F) ops) = snd (sp_run (s, F) ops) /\
  snd (fst (fo_run (f, F) ops)) = snd (fst (sp_run (s, F) ops)).
Proof.
  induction ops as [|op ops IH]; intros f s F Hrel; [split; reflexivity|].
  cbn [fo_run sp_run].
  destruct (fo_sim f s F op Hrel) as (Hr' & HF & Hx).
  destruct (fo_step (f, F) op) as [[f' F'] x] eqn:E1.
  destruct (sp_step (s, F) op) as [[s' F''] y] eqn:E2.
  simpl in Hr', HF, Hx. subst F'' y.
  destruct (IH f' s' F' Hr') as [H1 H2].
  destruct (fo_run (f', F') ops) as [st1 xs1]. destruct (sp_run (s', F') ops) as [st2 xs2].
  cbn [fst snd] in *. subst xs1. split; [reflexivity|exact H2].
Qed.

(* ------------------------------------------------------------------------------------------ *)
(* sparse ranges: what _request_ranges yields for a well-formed layout, and paging *)

Lemma req_ranges_beyond ext e limit : limit <= e -> req_ranges ext e limit = [].
Proof. intros H. destruct ext as [|[a b] r]; simpl; [reflexivity|]. replace (e <? limit) with false by lia. reflexivity. Qed.

Lemma in_ext_bounds ext : forall lo hi q, ext_wf lo hi ext = true -> in_ext ext q = true -> lo <= q < hi.
Proof.
  induction ext as [|[a b] r IH]; intros lo hi q Hwf Hin; simpl in *; [discriminate|].
  apply andb_true_iff in Hwf as [Hwf H4]. apply andb_true_iff in Hwf as [Hwf H3].
  apply andb_true_iff in Hwf as [H1 H2].
  apply orb_true_iff in Hin as [Hin|Hin]; [lia|].
  specialize (IH _ _ _ H4 Hin). lia.
Qed.

Lemma req_ranges_sorted ext : forall lo e limit, ext_wf lo limit ext = true ->
  ranges_sorted e (req_ranges ext e limit) = true.
Proof.
  induction ext as [|[a b] r IH]; intros lo e limit Hwf; simpl in *; [reflexivity|].
  apply andb_true_iff in Hwf as [Hwf H4]. apply andb_true_iff in Hwf as [Hwf H3].
  apply andb_true_iff in Hwf as [H1 H2].
  destruct (e <? limit) eqn:E1; [|reflexivity].
  destruct (e <? b) eqn:E2; [|exact (IH _ _ _ H4)].
  simpl. replace (Z.min b limit) with b by lia.
  replace (Z.max e a + (b - Z.max e a)) with b by lia.
  rewrite (IH _ b _ H4). replace (e <=? Z.max e a) with true by lia.
  replace (0 <? b - Z.max e a) with true by lia. reflexivity.
Qed.

Lemma req_ranges_end ext : forall lo e limit, ext_wf lo limit ext = true -> e <= limit ->
  ranges_end e (req_ranges ext e limit) <= limit.
Proof.
  induction ext as [|[a b] r IH]; intros lo e limit Hwf He; simpl in *; [lia|].
  apply andb_true_iff in Hwf as [Hwf H4]. apply andb_true_iff in Hwf as [Hwf H3].
  apply andb_true_iff in Hwf as [H1 H2].
  destruct (e <? limit) eqn:E1; [|simpl; lia].
  destruct (e <? b) eqn:E2; [|exact (IH _ _ _ H4 He)].
  simpl. replace (Z.min b limit) with b by lia.
  replace (Z.max e a + (b - Z.max e a)) with b by lia. apply (IH _ _ _ H4). lia.
Qed.

Lemma req_ranges_data ext : forall lo e limit q, ext_wf lo limit ext = true ->
  in_ranges (req_ranges ext e limit) q = (e <=? q) && in_ext ext q.
Proof.
  induction ext as [|[a b] r IH]; intros lo e limit q Hwf; simpl in *; [rewrite andb_false_r; reflexivity|].
  pose proof Hwf as Hwf0.
  apply andb_true_iff in Hwf as [Hwf H4]. apply andb_true_iff in Hwf as [Hwf H3].
  apply andb_true_iff in Hwf as [H1 H2].
  assert (Hr : in_ext r q = true -> b + 1 <= q < limit) by (intros H; exact (in_ext_bounds _ _ _ _ H4 H)).
  destruct (e <? limit) eqn:E1.
  - destruct (e <? b) eqn:E2.
    + simpl. replace (Z.min b limit) with b by lia.
      replace (Z.max e a + (b - Z.max e a)) with b by lia.
      rewrite (IH _ b _ q H4).
      destruct (in_ext r q) eqn:Er; [specialize (Hr eq_refl)|]; lia.
    + rewrite (IH _ e _ q H4). destruct (in_ext r q) eqn:Er; [specialize (Hr eq_refl)|]; lia.
  - simpl. destruct (in_ext r q) eqn:Er; [specialize (Hr eq_refl)|]; lia.
Qed.

Lemma req_ranges_length ext : forall e limit, (length (req_ranges ext e limit) <= length ext)%nat.
Proof.
  induction ext as [|[a b] r IH]; intros e limit; simpl; [lia|].
  destruct (e <? limit); [|simpl; lia]. destruct (e <? b); simpl.
  - specialize (IH (Z.min b limit) limit). lia.
  - specialize (IH e limit). lia.
Qed.

Lemma sorted_in rs : forall lo o l, ranges_sorted lo rs = true -> In (o, l) rs -> lo <= o /\ 0 < l.
Proof.
  induction rs as [|[o' l'] rs IH]; intros lo o l H Hin; simpl in *; [contradiction|].
  apply andb_true_iff in H as [H H3]. apply andb_true_iff in H as [H1 H2].
  destruct Hin as [Heq|Hin]; [inversion Heq; subst; lia|].
  specialize (IH _ _ _ H3 Hin). lia.
Qed.

Lemma req_ranges_skip a b r e limit : b <= e -> req_ranges ((a, b) :: r) e limit = req_ranges r e limit.
Proof.
  intros H. simpl. destruct (e <? limit) eqn:E1.
  - replace (e <? b) with false by lia. reflexivity.
  - symmetry. apply req_ranges_beyond. lia.
Qed.

(* asking again from the end of any range received yields exactly the ranges after it *)
Lemma req_ranges_resume ext : forall lo e limit pre o l post, ext_wf lo limit ext = true ->
  req_ranges ext e limit = pre ++ (o, l) :: post -> req_ranges ext (o + l) limit = post.
Proof.
  induction ext as [|[a b] r IH]; intros lo e limit pre o l post Hwf Heq.
  - simpl in Heq. destruct pre; discriminate.
  - pose proof Hwf as Hwf0. simpl in Hwf.
    apply andb_true_iff in Hwf as [Hwf H4]. apply andb_true_iff in Hwf as [Hwf H3].
    apply andb_true_iff in Hwf as [H1 H2].
    simpl in Heq. destruct (e <? limit) eqn:E1; [|destruct pre; discriminate].
    destruct (e <? b) eqn:E2.
    + replace (Z.min b limit) with b in Heq by lia.
      destruct pre as [|y pre].
      * simpl in Heq. inversion Heq; subst.
        replace (Z.max e a + (b - Z.max e a)) with b by lia.
        apply req_ranges_skip. lia.
      * simpl in Heq. inversion Heq; subst.
        assert (Hin : In (o, l) (req_ranges r b limit)) by (rewrite H5; apply in_or_app; right; left; reflexivity).
        pose proof (sorted_in _ _ _ _ (req_ranges_sorted r _ b limit H4) Hin) as [Ho Hl].
        rewrite req_ranges_skip by lia. exact (IH _ _ _ _ _ _ _ H4 H5).
    + assert (Hin : In (o, l) (req_ranges r e limit)) by (rewrite Heq; apply in_or_app; right; left; reflexivity).
      pose proof (sorted_in _ _ _ _ (req_ranges_sorted r _ e limit H4) Hin) as [Ho Hl].
      rewrite req_ranges_skip by lia. exact (IH _ _ _ _ _ _ _ H4 Heq).
Qed.

Lemma firstn_short {X} (K : nat) (l : list X) : (length (firstn K l) < K)%nat -> firstn K l = l.
Proof.
  revert l; induction K as [|K IH]; intros l H; [simpl in H; lia|].
  destruct l as [|x l]; [reflexivity|]. simpl in *. f_equal. apply IH. lia.
Qed.

Lemma rev_last_split {X} (l : list X) x r : rev l = x :: r -> l = rev r ++ [x].
Proof. intros H. rewrite <- (rev_involutive l), H. reflexivity. Qed.

Theorem client_ranges_paging (K : nat) ext lo size : (1 <= K)%nat -> ext_wf lo size ext = true ->
  forall fuel off, (length (req_ranges ext off size) < fuel)%nat ->
  client_ranges fuel (server_ranges K ext) off (size - off) size = req_ranges ext off size.
Proof.
  intros HK Hwf. induction fuel as [|fuel IH]; intros off Hlen; [lia|].
  simpl. unfold server_ranges at 1. unfold request_ranges.
  replace (off + (size - off)) with size by lia.
  set (R := req_ranges ext off size) in *.
  destruct (firstn K R) as [|x pg'] eqn:Epg.
  - destruct R; [reflexivity|]. destruct K; [lia|discriminate].
  - rewrite <- Epg.
    destruct (rev (firstn K R)) as [|[ro rl] rr] eqn:Erev.
    + apply (f_equal (@rev _)) in Erev. rewrite rev_involutive in Erev. rewrite Erev in Epg. discriminate.
    + apply rev_last_split in Erev.
      destruct (length (firstn K R) <? K)%nat eqn:Eend.
      * apply Nat.ltb_lt in Eend. rewrite app_nil_r. apply firstn_short. exact Eend.
      * assert (Hsplit : R = firstn K R ++ skipn K R) by (symmetry; apply firstn_skipn).
        assert (Hres : req_ranges ext (ro + rl) size = skipn K R).
        { apply (req_ranges_resume ext lo off size (rev rr) ro rl (skipn K R) Hwf).
          fold R. rewrite Hsplit at 1. rewrite Erev, <- app_assoc. reflexivity. }
        rewrite IH.
        -- rewrite Hres. symmetry. exact Hsplit.
        -- rewrite Hres. apply Nat.ltb_ge in Eend.
           assert (length R = length (firstn K R) + length (skipn K R))%nat by (rewrite <- app_length, <- Hsplit; reflexivity).
           lia.
Qed.

(* ------------------------------------------------------------------------------------------ *)
(* corollaries used by Props/C12.v *)

(* a sparse copy of a file that does not end in a hole is exact *)
Corollary copier_sparse_no_trailing_hole F bs mx total ranges sched :
  0 < bs -> 0 < mx ->
  ranges_sorted 0 ranges = true -> ranges_end 0 ranges <= zlen F ->
  (forall q, 0 <= q < zlen F -> in_ranges ranges q = false -> znth F q = 0) ->
  (zlen F = 0 \/ in_ranges ranges (zlen F - 1) = true) ->
  copier_honest F (copier_init bs mx total true false ranges) sched = true ->
  c_status (copier_run bs mx total true false ranges sched) <> CRunning ->
  c_status (copier_run bs mx total true false ranges sched) = COk /\
  copier_dst (copier_run bs mx total true false ranges sched) = F.
Proof.
  intros Hbs Hmx Hs He Hh Hlast Hhon Hfin.
  destruct (copier_sparse_prefix F bs mx total ranges sched Hbs Hmx Hs He Hh Hhon Hfin)
    as (Hst & L & Hd & HL & Hneed & _).
  split; [exact Hst|]. rewrite Hd.
  assert (L = zlen F) as ->; [|apply ztake_all].
  destruct Hlast as [H0|Hin]; [lia|]. specialize (Hneed _ Hin). lia.
Qed.

(* the ranges computed from a well-formed layout satisfy the hypotheses of the sparse theorems *)
Lemma layout_ranges_ok F ext :
  ext_wf 0 (zlen F) ext = true ->
  (forall q, 0 <= q < zlen F -> in_ext ext q = false -> znth F q = 0) ->
  ranges_sorted 0 (request_ranges ext 0 (zlen F)) = true /\
  ranges_end 0 (request_ranges ext 0 (zlen F)) <= zlen F /\
  (forall q, 0 <= q < zlen F -> in_ranges (request_ranges ext 0 (zlen F)) q = false -> znth F q = 0).
Proof.
  intros Hwf Hz. unfold request_ranges. simpl (0 + zlen F).
  split; [exact (req_ranges_sorted ext 0 0 (zlen F) Hwf)|].
  split; [apply (req_ranges_end ext 0 0 (zlen F) Hwf); apply zlen_nonneg|].
  intros q Hq Hin. apply Hz; [exact Hq|].
  rewrite (req_ranges_data ext 0 0 (zlen F) q Hwf) in Hin.
  replace (0 <=? q) with true in Hin by lia. exact Hin.
Qed.

(* the recursive copy driver hands the copier the size of the file that open() will open *)
Lemma copy_total_is_stat_size follow lst st t :
  (a_type lst <> 3 -> lst = st) -> copy_total follow lst st = Some t -> t = a_size st.
Proof.
  intros Hsame. unfold copy_total, copy_attrs.
  destruct (a_type lst =? 3) eqn:E.
  - destruct follow; simpl.
    + destruct ((a_type st =? 2) || (a_type st =? 3)); [discriminate|]. intros H; inversion H; reflexivity.
    + rewrite E, orb_true_r. discriminate.
  - rewrite andb_false_r. rewrite <- (Hsame ltac:(lia)).
    destruct ((a_type lst =? 2) || (a_type lst =? 3)); [discriminate|]. intros H; inversion H; reflexivity.
Qed.

(* run() returns normally exactly when the body succeeded and both files closed without error *)
Lemma copier_outcome_ok c sc dc :
  fst (copier_outcome c sc dc) = None <-> c_status c = COk /\ sc = true /\ dc = true.
Proof.
  unfold copier_outcome. destruct sc, dc; simpl; try (split; [discriminate|intros (_ & H1 & H2); discriminate]).
  destruct (c_status c); simpl; split; try discriminate; try tauto; intros (H & _); discriminate.
Qed.

(* which error is reported when several occur: source close, then destination close, then the body *)
Lemma copier_outcome_precedence c sc dc :
  fst (copier_outcome c sc dc) =
    if negb sc then Some ESrcClose else if negb dc then Some EDstClose
    else if match c_status c with COk => true | _ => false end then None else Some EBody.
Proof. unfold copier_outcome. destruct sc, dc; simpl; try reflexivity. destruct (c_status c); reflexivity. Qed.

(* ------------------------------------------------------------------------------------------ *)
(* open dispositions *)

(* what an open does, independent of the content: (succeeds on an absent file, on an existing file:
   0 fails / 1 empties it / 2 keeps it), and whether writes append *)
Definition open_class (f : oflags) : bool * Z * bool :=
  (o_creat f, if o_creat f && o_excl f then 0 else if o_trunc f then 1 else 2, o_append f).

Definition open_class_eqb (a b : bool * Z * bool) : bool :=
  Bool.eqb (fst (fst a)) (fst (fst b)) && (snd (fst a) =? snd (fst b)) && Bool.eqb (snd a) (snd b).

Lemma posix_open_class a b existing : open_class_eqb (open_class a) (open_class b) = true ->
  posix_open a existing = posix_open b existing.
Proof.
  destruct a as [c1 e1 t1 a1], b as [c2 e2 t2 a2]. unfold open_class_eqb, open_class, posix_open. simpl.
  destruct c1, c2, e1, e2, t1, t2; simpl; intros H; try discriminate; destruct existing; reflexivity.
Qed.

Fixpoint upto (n : nat) : list Z := match n with O => [] | S k => upto k ++ [Z.of_nat k] end.

Lemma upto_in n x : 0 <= x < Z.of_nat n -> In x (upto n).
Proof.
  induction n as [|n IH]; intros H; [lia|]. simpl. apply in_or_app.
  destruct (Z.eq_dec x (Z.of_nat n)) as [->|Hne]; [right; left; reflexivity|left; apply IH; lia].
Qed.

(* every pflags value of the six defined bits, every version: a v5/v6 session opens like a v3 one *)
Lemma session_open_same_table :
  forallb (fun pflags => open_class_eqb (open_class (session_open 6 pflags)) (open_class (session_open 3 pflags))) (upto 64) = true.
Proof. vm_compute. reflexivity. Qed.

Lemma session_open_version_independent version pflags existing : 0 <= pflags < 64 ->
  posix_open (session_open version pflags) existing = posix_open (server_open_v3 pflags) existing.
Proof.
  intros H. unfold session_open at 1. destruct (5 <=? version) eqn:E; [|reflexivity].
  pose proof session_open_same_table as Ht. rewrite forallb_forall in Ht.
  specialize (Ht pflags (upto_in 64 pflags H)).
  apply posix_open_class. exact Ht.
Qed.

(* a destination opened with mode 'wb' is empty before the first write, whatever it held *)
Lemma open_w_empties version existing :
  posix_open (session_open version PFLAGS_W) existing = Some [].
Proof.
  rewrite session_open_version_independent by (unfold PFLAGS_W; lia).
  destruct existing; reflexivity.
Qed.
